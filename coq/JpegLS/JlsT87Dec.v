(* EXTRACT *)
(* An independent JPEG-LS decoder written from ITU-T T.87 (Annex A coding procedures, Annex F
   decoding, Annex C marker syntax), not from the Go sources: default coding parameters
   (C.2.4.1.1, no LSE), one component non-interleaved (ILV = 0) or all components of the frame
   sample-interleaved (ILV = 2), NEAR >= 0. Uses nothing of JlsGolomb/JlsRun/JlsModel; only the
   from-the-standard parameter formulas of JlsParams (prefix t87_).

   Formulation (differs on purpose from the Go bookkeeping): each component keeps its previous
   line *extended* by one sample on each side, ext = [c_left; line...; last], so that at column x
   Rc = ext[x], Rb = ext[x+1], Rd = ext[x+2] (A.2.1 edge rules: Rd = Rb at the end of a line;
   at the start of a line Ra = Rb and Rc = the Ra used at the start of the previous line;
   everything 0 above the first line). Contexts are indexed 81*Q1+9*Q2+Q3 after sign
   normalisation (A.4.2); A.7.2 run interruption uses Q = 365 + RItype.

   Two points where the text of the standard is commonly misread are fixed the way every
   conformant implementation (HP reference, CharLS) decodes the T.87 conformance streams:
   (a) the Golomb limit of the run interruption sample uses J[RUNindex] *before* RUNindex is
   decremented; (b) in sample-interleaved scans the run interruption sample of every component
   is coded with RItype = 0 (Px = Rb, SIGN = -1 iff Ra > Rb). *)
From V Require Import Common.Base JpegLS.JlsParams.

(* ---------- bit stream (A.1 / C.?: bit stuffing after 0xFF) ---------- *)

Fixpoint t87_byte_bits (n : nat) (b : Z) : list bool :=
  match n with O => [] | S n' => Z.odd (Z.shiftr b (Z.of_nat n')) :: t87_byte_bits n' b end.

(* entropy-coded segment up to the next marker (FF followed by a byte with the high bit set) *)
Fixpoint t87_ecs_bits (bs : list Z) (after_ff : bool) : list bool :=
  match bs with
  | [] => []
  | b :: r =>
    if b =? 255 then
      match r with
      | [] => []
      | nb :: _ => if nb >=? 128 then []
                   else t87_byte_bits (if after_ff then 7 else 8) b ++ t87_ecs_bits r true
      end
    else t87_byte_bits (if after_ff then 7 else 8) b ++ t87_ecs_bits r false
  end.

Fixpoint t87_take_bits (n : nat) (bits : list bool) (acc : Z) : option (Z * list bool) :=
  match n with
  | O => Some (acc, bits)
  | S n' => match bits with
            | [] => None
            | b :: r => t87_take_bits n' r (acc * 2 + (if b then 1 else 0))
            end
  end.

Fixpoint t87_count_zeros (bits : list bool) (n : Z) : option (Z * list bool) :=
  match bits with
  | [] => None
  | true :: r => Some (n, r)
  | false :: r => t87_count_zeros r (n + 1)
  end.

(* A.5.3 / F: limited-length Golomb code LG(k, glimit) *)
Definition t87_golomb (k glimit qbpp : Z) (bits : list bool) : option (Z * list bool) :=
  match t87_count_zeros bits 0 with
  | None => None
  | Some (z, r) =>
    if z <? glimit - qbpp - 1 then
      match t87_take_bits (Z.to_nat k) r 0 with
      | None => None
      | Some (low, r') => Some (z * 2 ^ k + low, r')
      end
    else if z =? glimit - qbpp - 1 then
      match t87_take_bits (Z.to_nat qbpp) r 0 with
      | None => None
      | Some (v, r') => Some (v + 1, r')
      end
    else None
  end.

(* ---------- context variables ---------- *)

Record t87ctx : Type := mkT87Ctx { tA : Z; tB : Z; tC : Z; tN : Z }.
Record t87run : Type := mkT87Run { uA : Z; uN : Z; uNn : Z }.
Record t87state : Type := mkT87St {
  ts_ctx : list t87ctx;     (* Q = 0..364 *)
  ts_r365 : t87run; ts_r366 : t87run;
  ts_runindex : Z
}.

Definition t87_init (p : jparams) : t87state :=
  let a := t87_a_init (jp_range p) in
  mkT87St (repeat (mkT87Ctx a 0 0 1) 365) (mkT87Run a 1 0) (mkT87Run a 1 0) 0.

Definition t87_J : list Z :=
  [0; 0; 0; 0; 1; 1; 1; 1; 2; 2; 2; 2; 3; 3; 3; 3; 4; 4; 5; 5; 6; 6; 7; 7; 8; 9; 10; 11; 12; 13; 14; 15].
Definition t87_Jof (i : Z) : Z := nth (Z.to_nat i) t87_J 0.

Fixpoint t87_set (n : nat) (l : list t87ctx) (v : t87ctx) : list t87ctx :=
  match l, n with
  | [], _ => []
  | _ :: t, O => v :: t
  | h :: t, S n' => h :: t87_set n' t v
  end.

(* for (k = 0; (N << k) < A; k++) *)
Fixpoint t87_k (fuel : nat) (n a k : Z) : Z :=
  match fuel with
  | O => k
  | S f => if n * 2 ^ k <? a then t87_k f n a (k + 1) else k
  end.

(* ---------- A.4 quantisation of the gradients ---------- *)

Definition t87_quant (p : jparams) (d : Z) : Z :=
  if d <=? - jp_t3 p then -4
  else if d <=? - jp_t2 p then -3
  else if d <=? - jp_t1 p then -2
  else if d <? - jp_near p then -1
  else if d <=? jp_near p then 0
  else if d <? jp_t1 p then 1
  else if d <? jp_t2 p then 2
  else if d <? jp_t3 p then 3
  else 4.

(* A.4.2: SIGN and the merged context number *)
Definition t87_context (q1 q2 q3 : Z) : Z * Z :=
  let neg := if negb (q1 =? 0) then q1 <? 0
             else if negb (q2 =? 0) then q2 <? 0
             else q3 <? 0 in
  if neg then (-1, 81 * (- q1) + 9 * (- q2) + (- q3)) else (1, 81 * q1 + 9 * q2 + q3).

(* A.4.3 / A.4.4 MED prediction *)
Definition t87_med (ra rb rc : Z) : Z :=
  if rc >=? Z.max ra rb then Z.min ra rb
  else if rc <=? Z.min ra rb then Z.max ra rb
  else ra + rb - rc.

Definition t87_clip (p : jparams) (v : Z) : Z :=
  if v <? 0 then 0 else if v >? jp_maxval p then jp_maxval p else v.

(* F.1 steps: Rx = Px + SIGN * Errval * (2 NEAR + 1), reduced into [-NEAR, MAXVAL+NEAR], clamped *)
Definition t87_reconstruct (p : jparams) (px sign errval : Z) : Z :=
  let step := 2 * jp_near p + 1 in
  let rx := px + sign * errval * step in
  let rx' := if rx <? - jp_near p then rx + jp_range p * step
             else if rx >? jp_maxval p + jp_near p then rx - jp_range p * step
             else rx in
  t87_clip p rx'.

(* A.6: update of A, B, C, N (code segments A.12, A.13) *)
Definition t87_update (p : jparams) (c : t87ctx) (errval : Z) : t87ctx :=
  let b := tB c + errval * (2 * jp_near p + 1) in
  let a := tA c + Z.abs errval in
  let reset := tN c =? jp_reset p in
  let a1 := if reset then a / 2 else a in
  let b1 := if reset then (if b >=? 0 then b / 2 else - ((1 - b) / 2)) else b in
  let n1 := (if reset then tN c / 2 else tN c) + 1 in
  if b1 <=? - n1 then
    let b2 := b1 + n1 in
    mkT87Ctx a1 (if b2 <=? - n1 then - n1 + 1 else b2) (if tC c >? -128 then tC c - 1 else tC c) n1
  else if b1 >? 0 then
    let b2 := b1 - n1 in
    mkT87Ctx a1 (if b2 >? 0 then 0 else b2) (if tC c <? 127 then tC c + 1 else tC c) n1
  else mkT87Ctx a1 b1 (tC c) n1.

(* regular mode, one sample (A.4 - A.6, decoder F.1) *)
Definition t87_regular (p : jparams) (st : t87state) (ra rb rc rd : Z) (bits : list bool)
  : option (Z * t87state * list bool) :=
  let '(sign, q) := t87_context (t87_quant p (rd - rb)) (t87_quant p (rb - rc)) (t87_quant p (rc - ra)) in
  let c := nth (Z.to_nat q) (ts_ctx st) (mkT87Ctx 0 0 0 0) in
  let px := t87_clip p (t87_med ra rb rc + sign * tC c) in
  let k := t87_k 40 (tN c) (tA c) 0 in
  match t87_golomb k (jp_limit p) (jp_qbpp p) bits with
  | None => None
  | Some (m, r) =>
    let errval :=
      if (jp_near p =? 0) && (k =? 0) && (2 * tB c <=? - tN c)
      then (if Z.odd m then (m - 1) / 2 else - (m / 2) - 1)
      else (if Z.odd m then - ((m + 1) / 2) else m / 2) in
    let c' := t87_update p c errval in
    Some (t87_reconstruct p px sign errval,
          mkT87St (t87_set (Z.to_nat q) (ts_ctx st) c') (ts_r365 st) (ts_r366 st) (ts_runindex st), r)
  end.

(* A.7.2 run interruption sample; ritype given by the caller *)
Definition t87_interruption (p : jparams) (st : t87state) (ritype ra rb : Z) (bits : list bool)
  : option (Z * t87state * list bool) :=
  let u := if ritype =? 0 then ts_r365 st else ts_r366 st in
  let px := if ritype =? 1 then ra else rb in
  let sign := if (ritype =? 0) && (ra >? rb) then -1 else 1 in
  let temp := if ritype =? 0 then uA u else uA u + uN u / 2 in
  let k := t87_k 40 (uN u) temp 0 in
  let glimit := jp_limit p - t87_Jof (ts_runindex st) - 1 in
  match t87_golomb k glimit (jp_qbpp p) bits with
  | None => None
  | Some (em, r) =>
    let t := em + ritype in
    let map := Z.odd t in
    let mag := (t + (if map then 1 else 0)) / 2 in
    let negative := if negb (k =? 0) || (2 * uNn u >=? uN u) then map else negb map in
    let errval := if negative then - mag else mag in
    let nn := if errval <? 0 then uNn u + 1 else uNn u in
    let a := uA u + (em + 1 - ritype) / 2 in
    let u' := if uN u =? jp_reset p then mkT87Run (a / 2) (uN u / 2 + 1) (nn / 2)
              else mkT87Run a (uN u + 1) nn in
    let st' := if ritype =? 0 then mkT87St (ts_ctx st) u' (ts_r366 st) (ts_runindex st)
               else mkT87St (ts_ctx st) (ts_r365 st) u' (ts_runindex st) in
    Some (t87_reconstruct p px sign errval, st', r)
  end.

(* A.7.1 run length: returns (run count, whether the line ended inside the run, state, bits) *)
Fixpoint t87_run_length (bits : list bool) (remaining count ri : Z) : option (Z * bool * Z * list bool) :=
  match bits with
  | [] => None
  | true :: r =>
    let full := 2 ^ t87_Jof ri in
    if count + full <? remaining then t87_run_length r remaining (count + full) (if ri <? 31 then ri + 1 else ri)
    else if count + full =? remaining then Some (remaining, true, (if ri <? 31 then ri + 1 else ri), r)
    else Some (remaining, true, ri, r)
  | false :: r =>
    match t87_take_bits (Z.to_nat (t87_Jof ri)) r 0 with
    | None => None
    | Some (v, r') => if count + v >=? remaining then None else Some (count + v, false, ri, r')
    end
  end.

(* ---------- one line, all components of the scan in lockstep ---------- *)

(* per component: window into the extended previous line positioned at column x
   ([Rc; Rb; Rd; ...]) and the decoded part of the current line, most recent sample first *)
Record t87comp : Type := mkT87Comp { tc_win : list Z; tc_cur : list Z }.

Definition t87_e0 (l : list Z) : Z := match l with a :: _ => a | _ => 0 end.
Definition t87_e1 (l : list Z) : Z := match l with _ :: a :: _ => a | _ => 0 end.
Definition t87_e2 (l : list Z) : Z := match l with _ :: _ :: a :: _ => a | _ => 0 end.

(* causal template at the current column: Ra is the sample to the left, or Rb at column 0 *)
Definition t87_template (c : t87comp) : Z * Z * Z * Z :=
  let rb := t87_e1 (tc_win c) in
  let ra := match tc_cur c with a :: _ => a | [] => rb end in
  (ra, rb, t87_e0 (tc_win c), t87_e2 (tc_win c)).

Definition t87_flat (p : jparams) (c : t87comp) : bool :=
  let '(ra, rb, rc, rd) := t87_template c in
  (Z.abs (rd - rb) <=? jp_near p) && (Z.abs (rb - rc) <=? jp_near p) && (Z.abs (rc - ra) <=? jp_near p).

Definition t87_push (c : t87comp) (v : Z) : t87comp := mkT87Comp (tl (tc_win c)) (v :: tc_cur c).
Fixpoint t87_push_run (n : nat) (c : t87comp) (v : Z) : t87comp :=
  match n with O => c | S n' => t87_push_run n' (t87_push c v) v end.

(* regular mode for every component in turn *)
Fixpoint t87_regular_all (p : jparams) (st : t87state) (cs : list t87comp) (bits : list bool)
  : option (list t87comp * t87state * list bool) :=
  match cs with
  | [] => Some ([], st, bits)
  | c :: r =>
    let '(ra, rb, rc, rd) := t87_template c in
    match t87_regular p st ra rb rc rd bits with
    | None => None
    | Some (v, st', bits') =>
      match t87_regular_all p st' r bits' with
      | None => None
      | Some (r', st'', bits'') => Some (t87_push c v :: r', st'', bits'')
      end
    end
  end.

(* run interruption sample for every component in turn; `single` = non-interleaved scan *)
Fixpoint t87_interrupt_all (p : jparams) (single : bool) (st : t87state) (cs : list t87comp) (bits : list bool)
  : option (list t87comp * t87state * list bool) :=
  match cs with
  | [] => Some ([], st, bits)
  | c :: r =>
    let '(ra, rb, _, _) := t87_template c in
    let ritype := if single && (Z.abs (ra - rb) <=? jp_near p) then 1 else 0 in
    match t87_interruption p st ritype ra rb bits with
    | None => None
    | Some (v, st', bits') =>
      match t87_interrupt_all p single st' r bits' with
      | None => None
      | Some (r', st'', bits'') => Some (t87_push c v :: r', st'', bits'')
      end
    end
  end.

Definition t87_run_value (c : t87comp) : Z := let '(ra, _, _, _) := t87_template c in ra.

Fixpoint t87_line (fuel : nat) (p : jparams) (single : bool) (width : Z) (st : t87state) (x : Z)
         (cs : list t87comp) (bits : list bool) : option (list t87comp * t87state * list bool) :=
  if x >=? width then Some (cs, st, bits) else
  match fuel with
  | O => None
  | S f =>
    if forallb (t87_flat p) cs then
      match t87_run_length bits (width - x) 0 (ts_runindex st) with
      | None => None
      | Some (n, eol, ri, r) =>
        let cs1 := map (fun c => t87_push_run (Z.to_nat n) c (t87_run_value c)) cs in
        let st1 := mkT87St (ts_ctx st) (ts_r365 st) (ts_r366 st) ri in
        if eol then Some (cs1, st1, r)
        else
          match t87_interrupt_all p single st1 cs1 r with
          | None => None
          | Some (cs2, st2, r') =>
            let ri2 := if ts_runindex st2 >? 0 then ts_runindex st2 - 1 else 0 in
            t87_line f p single width (mkT87St (ts_ctx st2) (ts_r365 st2) (ts_r366 st2) ri2)
                     (x + n + 1) cs2 r'
          end
      end
    else
      match t87_regular_all p st cs bits with
      | None => None
      | Some (cs1, st1, r) => t87_line f p single width st1 (x + 1) cs1 r
      end
  end.

Definition t87_rev (l : list Z) : list Z := rev_append l [].

(* extended previous line of a component: c_left, the line, its last sample again *)
Definition t87_extend (c_left : Z) (line : list Z) : list Z :=
  c_left :: line ++ [last line 0].

(* all lines; per component we carry the previous line and the Ra used at its first column
   (= first sample of the line before it, 0 initially) *)
Fixpoint t87_lines (hfuel : nat) (p : jparams) (single : bool) (width : Z) (wn : nat) (st : t87state)
         (prevs : list (list Z * Z)) (bits : list bool) : option (list (list (list Z))) :=
  match hfuel with
  | O => Some []
  | S hf =>
    let cs := map (fun pl => mkT87Comp (t87_extend (snd pl) (fst pl)) []) prevs in
    match t87_line (S wn) p single width st 0 cs bits with
    | None => None
    | Some (cs', st', r) =>
      let lines := map (fun c => t87_rev (tc_cur c)) cs' in
      let prevs' := map (fun pc => (t87_rev (tc_cur (snd pc)), t87_e0 (fst (fst pc))))
                        (combine prevs cs') in
      match t87_lines hf p single width wn st' prevs' r with
      | None => None
      | Some ls => Some (lines :: ls)
      end
    end
  end.

(* ---------- marker segments (Annex C) ---------- *)

Record t87_image : Type := mkT87Img {
  ti_pixels : list Z;   (* container bytes, sample-interleaved, 1 byte (P <= 8) or 2 bytes LE *)
  ti_w : Z; ti_h : Z; ti_comps : Z; ti_P : Z; ti_near : Z
}.

Definition t87_u16 (hi lo : Z) : Z := hi * 256 + lo.

(* interleave the component lines of one image line: x-major, component-minor *)
Fixpoint t87_zip (fuel : nat) (ls : list (list Z)) : list Z :=
  match fuel with
  | O => []
  | S f => if forallb (fun l => match l with [] => false | _ => true end) ls
           then map (fun l => hd 0 l) ls ++ t87_zip f (map (@tl Z) ls)
           else []
  end.

Definition t87_sample_bytes (P v : Z) : list Z :=
  if P <=? 8 then [v] else [v mod 256; v / 256].

(* frame header seen so far: (P, Y, X, Nf) *)
Fixpoint t87_segments (fuel : nat) (lim : Z) (frame : option (Z * Z * Z * Z)) (bs : list Z)
  : outcome t87_image :=
  match fuel with
  | O => OutOfFuel
  | S f =>
    match bs with
    | 255 :: 255 :: r => t87_segments f lim frame (255 :: r)          (* fill bytes *)
    | 255 :: m :: r =>
      if m =? 217 then Err                                           (* EOI before a scan *)
      else if m =? 216 then Err                                      (* second SOI *)
      else
        match r with
        | lh :: ll :: r1 =>
          let len := t87_u16 lh ll in
          if (len <? 2) || (Z.of_nat (length r1) <? len - 2) then Err else
          let seg := firstn (Z.to_nat (len - 2)) r1 in
          let rest := skipn (Z.to_nat (len - 2)) r1 in
          if m =? 247 then                                           (* SOF55 *)
            match seg with
            | P :: yh :: yl :: xh :: xl :: nf :: _ =>
              if (P <? 2) || (P >? 16) || (t87_u16 yh yl =? 0) || (t87_u16 xh xl =? 0) || (nf =? 0)
                 || negb (len =? 8 + 3 * nf)
              then Err
              else match frame with
                   | Some _ => Err
                   | None => t87_segments f lim (Some (P, t87_u16 yh yl, t87_u16 xh xl, nf)) rest
                   end
            | _ => Err
            end
          else if m =? 248 then Err                                  (* LSE: not supported here *)
          else if m =? 218 then                                      (* SOS *)
            match frame, seg with
            | Some (P, Y, X, Nf), ns :: seg' =>
              if negb (len =? 6 + 2 * ns) then Err else
              let tail := skipn (Z.to_nat (2 * ns)) seg' in
              match tail with
              | [near; ilv; al] =>
                let maxval := 2 ^ P - 1 in
                if negb (ns =? Nf) then Err
                else if negb (((Nf =? 1) && (ilv =? 0)) || ((Nf >? 1) && (ilv =? 2))) then Err
                else if negb (al =? 0) then Err
                else if near >? Z.min 255 (maxval / 2) then Err
                else if X * Y * Nf >? lim then OutOfFuel
                else
                  let p := t87_params P near in
                  let bits := t87_ecs_bits rest false in
                  let wn := Z.to_nat X in
                  match t87_lines (Z.to_nat Y) p (Nf =? 1) X wn (t87_init p)
                                  (repeat ([], 0) (Z.to_nat Nf)) bits with
                  | None => Err
                  | Some ls =>
                    Ok (mkT87Img (flat_map (t87_sample_bytes P) (flat_map (t87_zip (S wn)) ls))
                                 X Y Nf P near)
                  end
              | _ => Err
              end
            | _, _ => Err
            end
          else t87_segments f lim frame rest                         (* APPn, COM, ...: skipped *)
        | _ => Err
        end
    | _ => Err
    end
  end.

Definition t87_decode (lim : Z) (bs : list Z) : outcome t87_image :=
  match bs with
  | 255 :: 216 :: r => t87_segments (S (length r)) lim None r
  | _ => Err
  end.
