(* Bit-level lemmas, the limited-length Golomb code (golomb_roundtrip), and the JPEG-LS bit
   stuffing on the bit-list view of the stream (jls_stuff_unstuff, jls_no_marker). *)
From V Require Import Common.Base JpegLS.JlsGolomb.

(* ---------- bits_of / read_bits ---------- *)

Lemma b2z_testbit : forall v n, 0 <= n -> b2z (Z.testbit v n) = (v / 2 ^ n) mod 2.
Proof. intros v n Hn. rewrite <- Z.testbit_spec' by assumption. reflexivity. Qed.

Lemma b2z_range : forall b, 0 <= b2z b <= 1.
Proof. destruct b; simpl; lia. Qed.

Lemma read_bits_nat_bits_of : forall n v r acc,
  read_bits_nat n (bits_of_nat n v ++ r) acc =
  Some (acc * 2 ^ Z.of_nat n + v mod 2 ^ Z.of_nat n, r).
Proof.
  induction n as [|n IH]; intros v r acc.
  - simpl. rewrite Z.mod_1_r. f_equal. f_equal. lia.
  - cbn [bits_of_nat app read_bits_nat]. rewrite IH. f_equal. f_equal.
    rewrite b2z_testbit by lia. rewrite Nat2Z.inj_succ, Z.pow_succ_r by lia.
    rewrite (Z.mul_comm 2 (2 ^ Z.of_nat n)).
    rewrite (Z.rem_mul_r v (2 ^ Z.of_nat n) 2) by lia. ring.
Qed.

Lemma bits_of_length : forall v n, 0 <= n -> length (bits_of v n) = Z.to_nat n.
Proof.
  intros v n _. unfold bits_of. generalize (Z.to_nat n). induction n0; simpl; congruence.
Qed.

Theorem read_bits_bits_of : forall v n r,
  0 <= n <= 32 -> 0 <= v < 2 ^ n -> read_bits n (bits_of v n ++ r) = Some (v, r).
Proof.
  intros v n r Hn Hv. unfold read_bits, bits_of.
  destruct (Z.eqb_spec n 0) as [->|Hn0].
  - change (2 ^ 0) with 1 in Hv. assert (v = 0) by lia. subst v. reflexivity.
  - destruct (Z.gtb_spec n 32); [lia|].
    rewrite read_bits_nat_bits_of. rewrite Z2Nat.id by lia.
    rewrite Z.mod_small by lia. reflexivity.
Qed.

Lemma bits_of_nat_0 : forall n, bits_of_nat n 0 = repeat false n.
Proof. induction n; simpl; [reflexivity|]. rewrite Z.testbit_0_l. congruence. Qed.

Lemma bits_of_nat_1 : forall n, bits_of_nat (S n) 1 = repeat false n ++ [true].
Proof.
  induction n as [|n IH].
  - reflexivity.
  - change (bits_of_nat (S (S n)) 1) with (Z.testbit 1 (Z.of_nat (S n)) :: bits_of_nat (S n) 1).
    rewrite IH. rewrite Z.bits_above_log2 by (simpl Z.log2; lia). reflexivity.
Qed.

Lemma bits_of_zero : forall n, bits_of 0 n = repeat false (Z.to_nat n).
Proof. intros. apply bits_of_nat_0. Qed.

Lemma bits_of_one : forall n, 0 <= n -> bits_of 1 (n + 1) = repeat false (Z.to_nat n) ++ [true].
Proof.
  intros n Hn. unfold bits_of. replace (Z.to_nat (n + 1)) with (S (Z.to_nat n)) by lia.
  apply bits_of_nat_1.
Qed.

(* bits_of_nat (S n) (2a + b) = bits_of_nat n a ++ [b] *)
Lemma bits_of_nat_snoc : forall n a b,
  bits_of_nat (S n) (2 * a + b2z b) = bits_of_nat n a ++ [b].
Proof.
  induction n as [|n IH]; intros a b.
  - cbn [bits_of_nat app]. change (Z.of_nat 0) with 0. change (b2z b) with (Z.b2z b).
    rewrite (Z.testbit_0_r a b). reflexivity.
  - change (bits_of_nat (S (S n)) (2 * a + b2z b))
      with (Z.testbit (2 * a + b2z b) (Z.of_nat (S n)) :: bits_of_nat (S n) (2 * a + b2z b)).
    rewrite IH. rewrite Nat2Z.inj_succ. change (b2z b) with (Z.b2z b).
    rewrite (Z.testbit_succ_r a b (Z.of_nat n)) by lia. reflexivity.
Qed.

(* ---------- unary codes ---------- *)

Lemma dec_unary_zeros : forall n r c,
  0 <= c -> c + Z.of_nat n <= 1000 ->
  dec_unary (repeat false n ++ true :: r) c = Some (c + Z.of_nat n, r).
Proof.
  induction n as [|n IH]; intros r c Hc Hb.
  - simpl. f_equal. f_equal. lia.
  - cbn [repeat app dec_unary]. destruct (Z.gtb_spec (c + 1) 1000); [lia|].
    rewrite IH by lia. f_equal. f_equal. lia.
Qed.

Lemma ops_bits_app : forall a b, ops_bits (a ++ b) = ops_bits a ++ ops_bits b.
Proof.
  induction a as [|[v n] a IH]; intros b; simpl; [reflexivity|]. rewrite IH, app_assoc. reflexivity.
Qed.

Lemma repeat_app_nat : forall (a b : nat), repeat false a ++ repeat false b = repeat false (a + b).
Proof. intros. symmetry. apply repeat_app. Qed.

Lemma write_zeros_bits : forall n, 0 <= n <= 93 ->
  ops_bits (write_zeros_ops n) = repeat false (Z.to_nat n).
Proof.
  intros n Hn. unfold write_zeros_ops.
  destruct (Z.leb_spec n 0).
  - replace n with 0 by lia. reflexivity.
  - destruct (Z.leb_spec n 31).
    + cbn [ops_bits]. rewrite bits_of_zero, app_nil_r. reflexivity.
    + destruct (Z.leb_spec n 62).
      * cbn [ops_bits]. rewrite !bits_of_zero, app_nil_r, repeat_app_nat. f_equal. lia.
      * cbn [ops_bits]. rewrite !bits_of_zero, app_nil_r, !repeat_app_nat. f_equal. lia.
Qed.

Lemma write_unary_bits : forall n, 0 <= n ->
  ops_bits (write_unary_ops n) = repeat false (Z.to_nat n) ++ [true].
Proof.
  intros n Hn. unfold write_unary_ops. cbn [ops_bits]. rewrite app_nil_r. apply bits_of_one. assumption.
Qed.

(* the unary part of EncodeMappedValue, non-escape branch: `high` zeros and a one *)
Lemma unary_split_bits : forall high, 0 <= high <= 187 ->
  ops_bits (if high + 1 >? 31 then write_zeros_ops (Z.quot high 2) else []) ++
  ops_bits (write_unary_ops (if high + 1 >? 31 then high - Z.quot high 2 else high)) =
  repeat false (Z.to_nat high) ++ [true].
Proof.
  intros high Hh.
  assert (Hq : Z.quot high 2 = high / 2) by (apply Z.quot_div_nonneg; lia).
  destruct (Z.gtb_spec (high + 1) 31).
  - rewrite Hq. assert (0 <= high / 2 <= 93 /\ high / 2 <= high) as [? ?] by (Z.div_mod_to_equations; lia).
    rewrite write_zeros_bits by lia. rewrite write_unary_bits by lia.
    rewrite app_assoc, repeat_app_nat. f_equal. f_equal. lia.
  - simpl ops_bits at 1. rewrite write_unary_bits by lia. reflexivity.
Qed.

(* escape prefix: limit - qbpp - 1 zeros and a one *)
Lemma escape_prefix_bits : forall esc, 1 <= esc <= 124 ->
  ops_bits (if esc >? 31 then write_zeros_ops 31 ++ write_unary_ops (esc - 31 - 1)
            else write_unary_ops (esc - 1)) =
  repeat false (Z.to_nat (esc - 1)) ++ [true].
Proof.
  intros esc He. destruct (Z.gtb_spec esc 31).
  - rewrite ops_bits_app, write_zeros_bits by lia. rewrite write_unary_bits by lia.
    rewrite app_assoc, repeat_app_nat. f_equal. f_equal. lia.
  - apply write_unary_bits. lia.
Qed.

(* ---------- golomb_roundtrip ---------- *)

(* DecodeValue(k, limit, qbpp) inverts EncodeMappedValue(k, m, limit, qbpp).
   Side conditions as the coder uses them: 0 <= k <= 32 (ReadBits refuses more), qbpp + 1 < limit
   <= 64 (LIMIT <= 64; for run interruption limit = LIMIT - J - 1), and in the escape branch
   (m >> k >= limit - qbpp - 1) the value m - 1 must fit qbpp bits: m - 1 < 2^qbpp. *)
Theorem golomb_roundtrip : forall k m limit qbpp rest,
  0 <= k <= 32 -> 0 <= qbpp <= 32 -> qbpp + 1 < limit <= 64 -> 0 <= m ->
  (limit - (qbpp + 1) <= Z.shiftr m k -> m - 1 < 2 ^ qbpp) ->
  decode_value k limit qbpp (ops_bits (encode_mapped_ops k m limit qbpp) ++ rest) = Some (m, rest).
Proof.
  intros k m limit qbpp rest Hk Hq Hl Hm Hesc.
  unfold encode_mapped_ops, decode_value. cbv zeta.
  rewrite Z.shiftr_div_pow2 in * by lia.
  assert (Hpk : 0 < 2 ^ k) by (apply Z.pow_pos_nonneg; lia).
  assert (Hhigh : 0 <= m / 2 ^ k) by (apply Z.div_pos; lia).
  destruct (Z.ltb_spec (m / 2 ^ k) (limit - (qbpp + 1))) as [Hlt|Hge].
  - (* regular branch *)
    rewrite !ops_bits_app. rewrite (app_assoc (ops_bits _) (ops_bits (write_unary_ops _))).
    rewrite unary_split_bits by lia.
    rewrite <- !app_assoc. cbn [app].
    rewrite dec_unary_zeros by lia. rewrite Z2Nat.id by lia. rewrite Z.add_0_l.
    destruct (Z.geb_spec (m / 2 ^ k) (limit - (qbpp + 1))); [lia|].
    destruct (Z.eqb_spec k 0) as [->|Hk0].
    + destruct (Z.gtb_spec 0 0); [lia|]. cbn [ops_bits app].
      f_equal. f_equal. change (2 ^ 0) with 1. apply Z.div_1_r.
    + destruct (Z.gtb_spec k 0); [|lia]. cbn [ops_bits]. rewrite app_nil_r.
      rewrite Z.shiftl_1_l. replace (2 ^ k - 1) with (Z.ones k) by (rewrite Z.ones_equiv; lia).
      rewrite Z.land_ones by lia.
      assert (Hmod : 0 <= m mod 2 ^ k < 2 ^ k) by (apply Z.mod_pos_bound; lia).
      assert (H32 : 2 ^ k <= 2 ^ 32) by (apply Z.pow_le_mono_r; lia).
      unfold wrapU. rewrite (Z.mod_small (m mod 2 ^ k)) by lia.
      rewrite read_bits_bits_of by lia.
      rewrite Z.shiftl_mul_pow2 by lia. f_equal. f_equal.
      rewrite (Z.div_mod m (2 ^ k)) at 3 by lia. ring.
  - (* escape branch *)
    specialize (Hesc Hge).
    rewrite ops_bits_app, escape_prefix_bits by lia.
    rewrite <- !app_assoc. cbn [app].
    rewrite dec_unary_zeros by lia. rewrite Z2Nat.id by lia. rewrite Z.add_0_l.
    destruct (Z.geb_spec (limit - qbpp - 1) (limit - (qbpp + 1))); [|lia].
    cbn [ops_bits]. rewrite app_nil_r.
    assert (Hm1 : 1 <= m).
    { destruct (Z.eq_dec m 0) as [->|]; [|lia]. rewrite Z.div_0_l in Hge by lia. lia. }
    rewrite Z.shiftl_1_l. replace (2 ^ qbpp - 1) with (Z.ones qbpp) by (rewrite Z.ones_equiv; lia).
    rewrite Z.land_ones by lia. rewrite (Z.mod_small (m - 1)) by lia.
    assert (H32 : 2 ^ qbpp <= 2 ^ 32) by (apply Z.pow_le_mono_r; lia).
    unfold wrapU. rewrite (Z.mod_small (m - 1)) by lia.
    rewrite read_bits_bits_of by lia. f_equal. f_equal. lia.
Qed.

(* the code length never exceeds limit bits (limited-length property) *)
Lemma repeat_length_false : forall n, length (repeat false n) = n.
Proof. intros. apply repeat_length. Qed.

(* ---------- bit stuffing: pack / unpack on bit lists ---------- *)

Definition Wd (ff : bool) : Z := if ff then 7 else 8.

Lemma byte_bits8_eq : forall b, byte_bits8 b = bits_of_nat 8 b.
Proof. reflexivity. Qed.
Lemma byte_bits7_eq : forall b, byte_bits7 b = bits_of_nat 7 b.
Proof. reflexivity. Qed.

Lemma byte_bits_W : forall (ff : bool) b,
  (if ff then byte_bits7 b else byte_bits8 b) = bits_of b (Wd ff).
Proof. destruct ff; reflexivity. Qed.

Lemma bits_of_snoc : forall have acc b, 0 <= have ->
  bits_of (2 * acc + b2z b) (have + 1) = bits_of acc have ++ [b].
Proof.
  intros have acc b Hh. unfold bits_of. replace (Z.to_nat (have + 1)) with (S (Z.to_nat have)) by lia.
  apply bits_of_nat_snoc.
Qed.

(* bits of a left-shifted value: the value's bits followed by zeros *)
Lemma bits_of_nat_shift : forall pad n acc,
  bits_of_nat (n + pad) (acc * 2 ^ Z.of_nat pad) = bits_of_nat n acc ++ repeat false pad.
Proof.
  induction pad as [|pad IH]; intros n acc.
  - rewrite Nat.add_0_r. change (2 ^ Z.of_nat 0) with 1. rewrite Z.mul_1_r, app_nil_r. reflexivity.
  - replace (n + S pad)%nat with (S n + pad)%nat by lia.
    replace (acc * 2 ^ Z.of_nat (S pad)) with ((2 * acc + b2z false) * 2 ^ Z.of_nat pad).
    + rewrite IH. rewrite bits_of_nat_snoc. rewrite <- app_assoc. reflexivity.
    + rewrite Nat2Z.inj_succ, Z.pow_succ_r by lia. simpl b2z. ring.
Qed.

Lemma pack_go_ff_head : forall bits acc have,
  0 <= have < 7 -> 0 <= acc < 2 ^ have ->
  exists b2 t, jls_pack_go bits acc have true = b2 :: t /\ 0 <= b2 < 128.
Proof.
  induction bits as [|b r IH]; intros acc have Hh Ha.
  - cbn [jls_pack_go]. destruct (Z.gtb_spec have 0).
    + eexists. eexists. split; [reflexivity|]. rewrite Z.shiftl_mul_pow2 by lia.
      assert (2 ^ have * 2 ^ (7 - have) = 128) by (rewrite <- Z.pow_add_r by lia; replace (have + (7 - have)) with 7 by lia; reflexivity).
      assert (0 < 2 ^ (7 - have)) by (apply Z.pow_pos_nonneg; lia). nia.
    + exists 0, []. split; [reflexivity|lia].
  - cbn [jls_pack_go]. pose proof (b2z_range b).
    assert (Hp : 2 ^ (have + 1) = 2 * 2 ^ have) by (rewrite Z.pow_add_r by lia; change (2 ^ 1) with 2; ring).
    destruct (Z.eqb_spec (have + 1) 7) as [E|NE].
    + eexists. eexists. split; [reflexivity|]. rewrite E in Hp. change (2 ^ 7) with 128 in Hp. lia.
    + apply IH; lia.
Qed.

(* unpacking the packed stream gives the bits back, followed by fewer than 8 zero pad bits *)
Lemma pack_unpack_go : forall bits acc have ff,
  0 <= have < Wd ff -> 0 <= acc < 2 ^ have ->
  exists pad, jls_bits_go (jls_pack_go bits acc have ff) ff = bits_of acc have ++ bits ++ repeat false pad
              /\ (pad < 8)%nat.
Proof.
  induction bits as [|b r IH]; intros acc have ff Hh Ha.
  - cbn [jls_pack_go]. destruct (Z.gtb_spec have 0) as [Hpos|Hz].
    + (* partial byte, padded *)
      set (byte := Z.shiftl acc (Wd ff - have)).
      assert (Hb : byte = acc * 2 ^ (Wd ff - have)) by (unfold byte; apply Z.shiftl_mul_pow2; lia).
      assert (Hne : (byte =? 255) = false).
      { apply Z.eqb_neq. rewrite Hb.
        replace (2 ^ (Wd ff - have)) with (2 * 2 ^ (Wd ff - have - 1)).
        - intro E. assert (Z.odd 255 = Z.odd (2 * (acc * 2 ^ (Wd ff - have - 1)))) by (f_equal; lia).
          rewrite Z.odd_mul in H. simpl in H. discriminate.
        - rewrite <- Z.pow_succ_r by lia. f_equal. lia. }
      exists (Z.to_nat (Wd ff - have)). split.
      * fold (Wd ff). fold byte. cbn [jls_bits_go]. rewrite Hne. rewrite byte_bits_W, app_nil_r.
        unfold bits_of. replace (Z.to_nat (Wd ff)) with (Z.to_nat have + Z.to_nat (Wd ff - have))%nat by lia.
        rewrite Hb.
        pose proof (bits_of_nat_shift (Z.to_nat (Wd ff - have)) (Z.to_nat have) acc) as Hs.
        rewrite Z2Nat.id in Hs by lia. rewrite Hs. reflexivity.
      * destruct ff; simpl Wd in *; lia.
    + replace have with 0 by lia. destruct ff.
      * exists 7%nat. split; [reflexivity | lia].
      * exists 0%nat. split; [reflexivity | lia].
  - cbn [jls_pack_go]. pose proof (b2z_range b) as Hb.
    assert (Hp : 2 ^ (have + 1) = 2 * 2 ^ have) by (rewrite Z.pow_add_r by lia; change (2 ^ 1) with 2; ring).
    fold (Wd ff).
    destruct (Z.eqb_spec (have + 1) (Wd ff)) as [E|NE].
    + (* byte complete *)
      set (acc' := 2 * acc + b2z b) in *.
      cbn [jls_bits_go].
      destruct (Z.eqb_spec acc' 255) as [E255|N255].
      * destruct (pack_go_ff_head r 0 0 ltac:(lia) ltac:(simpl; lia)) as (b2 & t & Hhead & Hb2).
        destruct (IH 0 0 true ltac:(simpl; lia) ltac:(simpl; lia)) as (pad & Hpad & Hlen).
        rewrite Hhead in *.
        assert (Hl : Z.land b2 128 =? 0 = true).
        { apply Z.eqb_eq. apply Z.bits_inj'. intros n Hn. rewrite Z.land_spec, Z.bits_0.
          destruct (Z.eq_dec n 7) as [->|Hn7].
          - rewrite (Z.bits_above_log2 b2 7); [reflexivity|lia|].
            destruct (Z.eq_dec b2 0) as [->|]; [simpl; lia|]. apply Z.log2_lt_pow2; lia.
          - change 128 with (2 ^ 7). rewrite Z.pow2_bits_false by lia. apply andb_false_r. }
        rewrite Hl. exists pad. split; [|assumption].
        rewrite byte_bits_W. rewrite Hpad. unfold acc'. rewrite <- E, bits_of_snoc by lia.
        cbn [bits_of bits_of_nat app]. rewrite <- app_assoc. reflexivity.
      * destruct (IH 0 0 false ltac:(simpl; lia) ltac:(simpl; lia)) as (pad & Hpad & Hlen).
        exists pad. split; [|assumption].
        rewrite byte_bits_W. rewrite Hpad. unfold acc'. rewrite <- E, bits_of_snoc by lia.
        cbn [bits_of bits_of_nat app]. rewrite <- app_assoc. reflexivity.
    + destruct (IH (2 * acc + b2z b) (have + 1) ff ltac:(lia) ltac:(lia)) as (pad & Hpad & Hlen).
      exists pad. split; [|assumption]. rewrite Hpad. rewrite bits_of_snoc by lia.
      rewrite <- app_assoc. reflexivity.
Qed.

(* jls_stuff_unstuff: removing the stuffing from the packed stream returns the bits that were
   written, followed only by the zero bits that pad the last byte (at most 7) *)
Theorem jls_stuff_unstuff : forall bits,
  exists pad, jls_bits_of_bytes (jls_pack bits) = bits ++ repeat false pad /\ (pad < 8)%nat.
Proof.
  intros bits. unfold jls_bits_of_bytes, jls_pack.
  destruct (pack_unpack_go bits 0 0 false ltac:(simpl; lia) ltac:(simpl; lia)) as (pad & H & Hl).
  exists pad. split; [exact H | exact Hl].
Qed.

(* no marker inside the scan: every 0xFF is followed by a byte < 0x80 (so FF is never last) *)
Fixpoint jls_marker_free (bs : list Z) : bool :=
  match bs with
  | [] => true
  | b :: r =>
    (if b =? 255 then match r with [] => false | b2 :: _ => (0 <=? b2) && (b2 <? 128) end else true)
    && jls_marker_free r
  end.

Lemma pack_go_marker_free : forall bits acc have ff,
  0 <= have < Wd ff -> 0 <= acc < 2 ^ have ->
  jls_marker_free (jls_pack_go bits acc have ff) = true /\
  Forall (fun b => 0 <= b < 256) (jls_pack_go bits acc have ff).
Proof.
  induction bits as [|b r IH]; intros acc have ff Hh Ha.
  - cbn [jls_pack_go]. destruct (Z.gtb_spec have 0) as [Hpos|Hz].
    + set (byte := Z.shiftl acc (Wd ff - have)). fold (Wd ff). fold byte.
      assert (Hb : byte = acc * 2 ^ (Wd ff - have)) by (unfold byte; apply Z.shiftl_mul_pow2; lia).
      assert (Hlt : 0 <= byte < 2 ^ Wd ff).
      { rewrite Hb.
        assert (Hsplit : 2 ^ Wd ff = 2 ^ have * 2 ^ (Wd ff - have))
          by (rewrite <- Z.pow_add_r by lia; f_equal; lia).
        rewrite Hsplit.
        assert (0 < 2 ^ (Wd ff - have)) by (apply Z.pow_pos_nonneg; lia). nia. }
      assert (Hne : (byte =? 255) = false).
      { apply Z.eqb_neq. rewrite Hb.
        replace (2 ^ (Wd ff - have)) with (2 * 2 ^ (Wd ff - have - 1)).
        - intro E. assert (Z.odd 255 = Z.odd (2 * (acc * 2 ^ (Wd ff - have - 1)))) by (f_equal; lia).
          rewrite Z.odd_mul in H. simpl in H. discriminate.
        - rewrite <- Z.pow_succ_r by lia. f_equal. lia. }
      split.
      * cbn [jls_marker_free]. rewrite Hne. reflexivity.
      * constructor; [|constructor]. destruct ff; simpl Wd in Hlt; change (2 ^ 7) with 128 in *; change (2 ^ 8) with 256 in *; lia.
    + destruct ff; split; try reflexivity; repeat constructor; lia.
  - cbn [jls_pack_go]. pose proof (b2z_range b) as Hb.
    assert (Hp : 2 ^ (have + 1) = 2 * 2 ^ have) by (rewrite Z.pow_add_r by lia; change (2 ^ 1) with 2; ring).
    fold (Wd ff).
    destruct (Z.eqb_spec (have + 1) (Wd ff)) as [E|NE].
    + set (acc' := 2 * acc + b2z b) in *.
      assert (Hacc : 0 <= acc' < 256).
      { unfold acc'. destruct ff; simpl Wd in *.
        - assert (have = 6) by lia. subst have. change (2 ^ 6) with 64 in *. lia.
        - assert (have = 7) by lia. subst have. change (2 ^ 7) with 128 in *. lia. }
      cbn [jls_marker_free].
      destruct (Z.eqb_spec acc' 255) as [E255|N255].
      * destruct (pack_go_ff_head r 0 0 ltac:(lia) ltac:(simpl; lia)) as (b2 & t & Hhead & Hb2).
        destruct (IH 0 0 true ltac:(simpl; lia) ltac:(simpl; lia)) as [Hmf Hall].
        rewrite Hhead in *. split.
        -- rewrite Hmf. destruct (Z.leb_spec 0 b2); [|lia]. destruct (Z.ltb_spec b2 128); [reflexivity|lia].
        -- constructor; assumption.
      * destruct (IH 0 0 false ltac:(simpl; lia) ltac:(simpl; lia)) as [Hmf Hall].
        split; [rewrite Hmf; reflexivity | constructor; assumption].
    + apply IH; lia.
Qed.

Theorem jls_no_marker : forall bits,
  jls_marker_free (jls_pack bits) = true /\ Forall (fun b => 0 <= b < 256) (jls_pack bits).
Proof. intros. apply pack_go_marker_free; simpl; lia. Qed.
