(* C14: the T.87 Annex H.3 vector, and near0_same_function: jpegls/lossless.Encode and
   jpegls/nearlossless.Encode with NEAR = 0 are the same function (whole images, 1 or 3
   components, every precision), for samples inside the declared range. *)
From V Require Import Common.Base JpegLS.JlsParams JpegLS.JlsGolomb JpegLS.JlsRun JpegLS.JlsModel.
From V Require Import JpegLS.JlsProofsParams JpegLS.JlsProofsGolomb JpegLS.JlsProofsSample.

(* ---------- H.3 ---------- *)

Definition h3_image : list Z := [0; 0; 90; 74; 68; 50; 43; 205; 64; 145; 145; 145; 100; 145; 145; 145].
Definition h3_scan : list Z :=
  [192; 0; 0; 108; 128; 32; 142; 1; 192; 0; 0; 87; 64; 0; 0; 110; 230; 0; 0; 1; 188; 24; 0; 0; 5; 216; 0; 0; 145; 96].

(* The T.87 Annex H.3 example image (4x4, P = 8) encodes to the published scan bytes
   C0 00 00 6C 80 20 8E 01 C0 00 00 57 40 00 00 6E E6 00 00 01 BC 18 00 00 05 D8 00 00 91 60,
   with both encoders, and both writer views (as-coded buffer, bit-list packing) agree on it. *)
Theorem H3_vector :
  jls_encode 4 4 1 8 h3_image =
    Ok ([255; 216; 255; 247; 0; 11; 8; 0; 4; 0; 4; 1; 1; 17; 0; 255; 218; 0; 8; 1; 1; 0; 0; 0; 0]
        ++ h3_scan ++ [255; 217]) /\
  jlsn_encode 4 4 1 8 0 h3_image = jls_encode 4 4 1 8 h3_image /\
  (match encode_scan_ops PkLossless (jls_params 8 0) 4 4 1 h3_image with
   | Ok ops => jls_pack (ops_bits ops) = h3_scan
   | _ => False
   end).
Proof.
  split; [vm_compute; reflexivity|]. split; [vm_compute; reflexivity|]. vm_compute. reflexivity.
Qed.

(* and the decoders return the image from the published bytes *)
Lemma H3_decodes :
  match jls_decode 1000 ([255; 216; 255; 247; 0; 11; 8; 0; 4; 0; 4; 1; 1; 17; 0; 255; 218; 0; 8; 1; 1; 0; 0; 0; 0]
                         ++ h3_scan ++ [255; 217]) with
  | Ok d => dc_pixels d = h3_image /\ dc_w d = 4 /\ dc_h d = 4 /\ dc_comps d = 1 /\ dc_bd d = 8
  | _ => False
  end.
Proof. vm_compute. repeat split; reflexivity. Qed.

(* ---------- near0_same_function ---------- *)

Lemma quantizeGradient_range : forall p d, -4 <= quantizeGradient p d <= 4.
Proof.
  intros. unfold quantizeGradient.
  repeat match goal with |- context [if ?b then _ else _] => destruct b end; lia.
Qed.

Lemma context_qs_range : forall p a b c d, -364 <= context_qs p a b c d <= 364.
Proof.
  intros. unfold context_qs.
  pose proof (quantizeGradient_range p (d - b)). pose proof (quantizeGradient_range p (b - c)).
  pose proof (quantizeGradient_range p (c - a)). lia.
Qed.

Lemma ctx_index_in_range : forall pk qs, -364 <= qs <= 364 ->
  ctx_index pk qs = Some (Z.to_nat (Z.abs qs)) /\ (Z.to_nat (Z.abs qs) < 365)%nat.
Proof.
  intros pk qs H. unfold ctx_index. rewrite ApplySign_sgn. unfold sgn_of.
  destruct (Z.ltb_spec qs 0).
  - replace (-1 * qs) with (Z.abs qs) by lia.
    destruct (Z.ltb_spec (Z.abs qs) 0); [lia|]. destruct (Z.geb_spec (Z.abs qs) 365); [lia|]. cbn. split; [reflexivity|lia].
  - replace (1 * qs) with (Z.abs qs) by lia.
    destruct (Z.ltb_spec (Z.abs qs) 0); [lia|]. destruct (Z.geb_spec (Z.abs qs) 365); [lia|]. cbn. split; [reflexivity|lia].
Qed.

Lemma ctx_index_pk : forall qs, -364 <= qs <= 364 -> ctx_index PkLossless qs = ctx_index PkNear qs.
Proof.
  intros qs H. destruct (ctx_index_in_range PkLossless qs H) as [-> _].
  destruct (ctx_index_in_range PkNear qs H) as [-> _]. reflexivity.
Qed.

Section Near0.
  Variable p : jparams.
  Hypothesis H0 : jp_near p = 0.

  Lemma pk_error_near0 : forall d, pk_error PkLossless p d = pk_error PkNear p d.
  Proof.
    intros. unfold pk_error, ll_computeErrorValue, Traits_ComputeErrorValue, quantize.
    rewrite H0. reflexivity.
  Qed.

  Lemma is_run_pixel_near0 : forall v ra, is_run_pixel PkLossless p v ra = is_run_pixel PkNear p v ra.
  Proof.
    intros. unfold is_run_pixel. rewrite H0.
    destruct (Z.eqb_spec v ra); destruct (Z.leb_spec (Z.abs (v - ra)) 0); lia.
  Qed.

  Lemma run_count_near0 : forall ra inp n m,
    run_count PkLossless p ra inp n m = run_count PkNear p ra inp n m.
  Proof.
    induction inp as [|v r IH]; intros; cbn [run_count]; [reflexivity|].
    rewrite is_run_pixel_near0. destruct (is_run_pixel PkNear p v ra); [apply IH | reflexivity].
  Qed.

  Lemma run_count3_near0 : forall lv inp n m,
    run_count3 PkLossless p lv inp n m = run_count3 PkNear p lv inp n m.
  Proof.
    induction inp as [|v r IH]; intros; cbn [run_count3]; [reflexivity|].
    unfold is_run_pixel3. rewrite !is_run_pixel_near0.
    match goal with |- context [if ?b then _ else _] => destruct b end; [apply IH | reflexivity].
  Qed.

  Lemma interrupt_enc_near0 : forall st x ra rb,
    interrupt_enc PkLossless p st x ra rb = interrupt_enc PkNear p st x ra rb.
  Proof. intros. unfold interrupt_enc. rewrite !pk_error_near0. reflexivity. Qed.

  Lemma interrupt_enc_i_near0 : forall st xs left above,
    interrupt_enc_i PkLossless p st xs left above = interrupt_enc_i PkNear p st xs left above.
  Proof. intros. unfold interrupt_enc_i. rewrite pk_error_near0. reflexivity. Qed.

  Lemma regular_enc_i_near0 : forall st a b c d x,
    regular_enc_i PkLossless p st (context_qs p a b c d) a b c x =
    regular_enc_i PkNear p st (context_qs p a b c d) a b c x.
  Proof.
    intros. unfold regular_enc_i. rewrite (ctx_index_pk _ (context_qs_range p a b c d)).
    destruct (ctx_index PkNear (context_qs p a b c d)); [|reflexivity].
    rewrite (regular_enc_lossless_near0 true p _ _ _ _ _ _ H0). reflexivity.
  Qed.
End Near0.

(* one-component regular sample: lossless keeps the source sample, nearlossless stores the
   reconstruction, which for NEAR = 0 is the source sample *)
Lemma regular_enc_1c_near0 : forall P c qs ra rb rc x,
  2 <= P <= 16 -> 0 <= x <= 2 ^ P - 1 ->
  regular_enc PkLossless false (jls_params P 0) c qs ra rb rc x =
  regular_enc PkNear true (jls_params P 0) c qs ra rb rc x.
Proof.
  intros P c qs ra rb rc x HP Hx.
  assert (Hn : 0 <= 0 <= near_max P).
  { unfold near_max. pose proof (pow2_bounds P HP). assert (0 <= (2 ^ P - 1) / 2) by (apply Z.div_pos; lia). lia. }
  assert (H0 : jp_near (jls_params P 0) = 0) by (destruct (jls_params_facts P 0 HP Hn); assumption).
  rewrite (regular_enc_lossless_near0 false _ _ _ _ _ _ _ H0).
  destruct (regular_enc PkNear true (jls_params P 0) c qs ra rb rc x) as [[ops c'] stored] eqn:E.
  destruct (sample_near P 0 true c qs ra rb rc x [] ops c' stored HP Hn Hx E) as (x' & _ & Habs & _ & Hst & _).
  assert (x' = x) by lia. subst x' stored.
  unfold regular_enc in *. cbv zeta in *. inversion E as [[Hops Hc Hs]]. rewrite Hs. reflexivity.
Qed.

Definition in_range (P : Z) (v : Z) : Prop := 0 <= v <= 2 ^ P - 1.

Lemma enc_line1_near0 : forall P, 2 <= P <= 16 ->
  forall fuel w y pfp pn1 st x pw cur_rev inp ops_rev,
  Forall (in_range P) inp ->
  enc_line1 fuel PkLossless (jls_params P 0) w y pfp pn1 st x pw cur_rev inp ops_rev =
  enc_line1 fuel PkNear (jls_params P 0) w y pfp pn1 st x pw cur_rev inp ops_rev.
Proof.
  intros P HP.
  assert (Hn : 0 <= 0 <= near_max P).
  { unfold near_max. pose proof (pow2_bounds P HP). assert (0 <= (2 ^ P - 1) / 2) by (apply Z.div_pos; lia). lia. }
  assert (H0 : jp_near (jls_params P 0) = 0) by (destruct (jls_params_facts P 0 HP Hn); assumption).
  set (p := jls_params P 0) in *.
  induction fuel as [|f IH]; intros w y pfp pn1 st x pw cur_rev inp ops_rev Hin;
    destruct inp as [|xs inp']; cbn [enc_line1]; try reflexivity.
  inversion Hin as [|? ? Hxs Hin']; subst.
  destruct (neighbors1 w y x pfp pn1 (match cur_rev with l :: _ => l | [] => 0 end) pw) as [[[ra rb] rc] rd].
  destruct (negb (context_qs p ra rb rc rd =? 0)).
  - rewrite (ctx_index_pk _ (context_qs_range p ra rb rc rd)).
    destruct (ctx_index PkNear (context_qs p ra rb rc rd)) as [i|]; [|reflexivity].
    unfold p. rewrite (regular_enc_1c_near0 P _ _ _ _ _ _ HP Hxs). fold p.
    destruct (regular_enc PkNear true p (nth i (js_ctxs st) (mkCtx 0 0 0 0)) (context_qs p ra rb rc rd) ra rb rc xs)
      as [[ops c'] stored].
    apply IH. assumption.
  - rewrite (run_count_near0 p H0).
    destruct (run_count PkNear p ra (xs :: inp') 0 0) as [[n m] rest] eqn:Erc.
    destruct (EncodeRunLength (S m) n match rest with [] => true | _ :: _ => false end (js_ri st)) as [[rops ri']|];
      [|reflexivity].
    destruct rest as [|xi rest']; [reflexivity|].
    rewrite (interrupt_enc_near0 p H0).
    destruct (interrupt_enc PkNear p (set_ri st ri') xi ra
                (if y >? 0 then win1 (skipn m pw) else 0)) as [[iops st2] recon].
    apply IH.
    (* the rest of the line is still in range *)
    assert (Hsub : forall inp n m n' m' r, run_count PkNear p ra inp n m = (n', m', r) ->
                   Forall (in_range P) inp -> Forall (in_range P) r).
    { clear. induction inp as [|v t IHt]; intros n m n' m' r H HF; cbn [run_count] in H.
      - inversion H; subst. constructor.
      - destruct (is_run_pixel PkNear p v ra).
        + inversion HF; subst. eapply IHt; eassumption.
        + inversion H; subst. assumption. }
    pose proof (Hsub _ _ _ _ _ _ Erc Hin) as Hr. inversion Hr; assumption.
Qed.

Lemma Forall_firstn : forall (A : Type) (Q : A -> Prop) n l, Forall Q l -> Forall Q (firstn n l).
Proof.
  induction n; intros l H; cbn [firstn]; [constructor|].
  destruct l; [constructor|]. inversion H; subst. constructor; auto.
Qed.
Lemma Forall_skipn : forall (A : Type) (Q : A -> Prop) n l, Forall Q l -> Forall Q (skipn n l).
Proof.
  induction n; intros l H; cbn [skipn]; [assumption|].
  destruct l; [constructor|]. inversion H; subst. auto.
Qed.

Lemma enc_lines1_near0 : forall P, 2 <= P <= 16 ->
  forall hfuel w wn y pfp pn1 st prev pix ops_rev,
  Forall (in_range P) pix ->
  enc_lines1 hfuel PkLossless (jls_params P 0) w wn y pfp pn1 st prev pix ops_rev =
  enc_lines1 hfuel PkNear (jls_params P 0) w wn y pfp pn1 st prev pix ops_rev.
Proof.
  intros P HP. induction hfuel as [|hf IH]; intros; cbn [enc_lines1]; [reflexivity|].
  rewrite (enc_line1_near0 P HP) by (apply Forall_firstn; assumption).
  destruct (enc_line1 (S wn) PkNear (jls_params P 0) w y pfp pn1 st 0 (0 :: prev) [] (firstn wn pix) ops_rev)
    as [[[st' cur_rev] ops']| | |]; try reflexivity.
  apply IH. apply Forall_skipn. assumption.
Qed.

Lemma enc_line3_near0 : forall p, jp_near p = 0 ->
  forall fuel w y plf pplf st x pw cur_rev inp ops_rev,
  enc_line3 fuel PkLossless p w y plf pplf st x pw cur_rev inp ops_rev =
  enc_line3 fuel PkNear p w y plf pplf st x pw cur_rev inp ops_rev.
Proof.
  intros p H0. induction fuel as [|f IH]; intros; destruct inp as [|xs inp']; cbn [enc_line3]; try reflexivity.
  set (left := match cur_rev with l :: _ => l | [] => z3 end).
  unfold qs_of.
  destruct (nb3 w y x plf pplf left pw p3_0) as [[[ra0 rb0] rc0] rd0].
  destruct (nb3 w y x plf pplf left pw p3_1) as [[[ra1 rb1] rc1] rd1].
  destruct (nb3 w y x plf pplf left pw p3_2) as [[[ra2 rb2] rc2] rd2].
  cbn [fst snd].
  destruct ((context_qs p ra0 rb0 rc0 rd0 =? 0) && (context_qs p ra1 rb1 rc1 rd1 =? 0) &&
            (context_qs p ra2 rb2 rc2 rd2 =? 0)).
  - rewrite (run_count3_near0 p H0).
    destruct (run_count3 PkNear p (ra0, ra1, ra2) (xs :: inp') 0 0) as [[n m] rest].
    destruct (EncodeRunLength (S m) n match rest with [] => true | _ :: _ => false end (js_ri st)) as [[rops ri']|];
      [|reflexivity].
    destruct rest as [|xi rest']; [reflexivity|].
    rewrite !(interrupt_enc_i_near0 p H0).
    repeat match goal with
           | |- context [interrupt_enc_i PkNear p ?s ?a ?b ?c] =>
             let o := fresh "o" in let s' := fresh "s" in let r := fresh "r" in
             destruct (interrupt_enc_i PkNear p s a b c) as [[o s'] r]; rewrite ?(interrupt_enc_i_near0 p H0)
           end.
    apply IH.
  - rewrite (regular_enc_i_near0 p H0).
    destruct (regular_enc_i PkNear p st (context_qs p ra0 rb0 rc0 rd0) ra0 rb0 rc0 (p3_0 xs)) as [[[o0 s0] v0]|];
      [|reflexivity].
    rewrite (regular_enc_i_near0 p H0).
    destruct (regular_enc_i PkNear p s0 (context_qs p ra1 rb1 rc1 rd1) ra1 rb1 rc1 (p3_1 xs)) as [[[o1 s1] v1]|];
      [|reflexivity].
    rewrite (regular_enc_i_near0 p H0).
    destruct (regular_enc_i PkNear p s1 (context_qs p ra2 rb2 rc2 rd2) ra2 rb2 rc2 (p3_2 xs)) as [[[o2 s2] v2]|];
      [|reflexivity].
    apply IH.
Qed.

Lemma enc_lines3_near0 : forall p, jp_near p = 0 ->
  forall hfuel w wn y plf pplf st prev pix ops_rev,
  enc_lines3 hfuel PkLossless p w wn y plf pplf st prev pix ops_rev =
  enc_lines3 hfuel PkNear p w wn y plf pplf st prev pix ops_rev.
Proof.
  intros p H0. induction hfuel as [|hf IH]; intros; cbn [enc_lines3]; [reflexivity|].
  rewrite (enc_line3_near0 p H0).
  destruct (enc_line3 (S wn) PkNear p w y plf pplf st 0 (z3 :: prev) [] (firstn wn pix) ops_rev)
    as [[[st' cur_rev] ops']| | |]; try reflexivity.
  apply IH.
Qed.

(* near0_same_function: for every geometry, component count and precision, and every pixel
   buffer whose samples lie in [0, 2^P - 1], the two encoders produce the same result (bytes, or
   the same error class).
   History: refuted until /repo commit 603ce05 (finding F06): 1x1, P = 12, sample 2049 gave scan
   bytes ..10 00 (lossless) vs ..1F FB (nearlossless NEAR = 0); the int8 narrowing made the bytes
   differ even at P = 2, 3 where the round trip survived. *)
Theorem near0_same_function : forall w h comps P pixelData,
  Forall (in_range P) (pixelsToIntegers P pixelData) ->
  jls_encode w h comps P pixelData = jlsn_encode w h comps P 0 pixelData.
Proof.
  intros w h comps P px Hr. unfold jls_encode, jlsn_encode, encode_image.
  destruct ((w <=? 0) || (h <=? 0)); [reflexivity|].
  destruct (negb (comps =? 1) && negb (comps =? 3)); [reflexivity|].
  destruct ((P <? 2) || (P >? 16)) eqn:EP; [reflexivity|].
  assert (HP : 2 <= P <= 16).
  { apply orb_false_iff in EP. destruct EP as [E1 E2].
    apply Z.ltb_ge in E1. destruct (Z.gtb_spec P 16); [discriminate | lia]. }
  cbn [orb Z.ltb Z.gtb Z.compare].
  destruct ((w >? 65535) || (h >? 65535)); [reflexivity|].
  destruct (zlen px <? w * h * comps * Z.quot (P + 7) 8); [reflexivity|].
  assert (Hn : 0 <= 0 <= near_max P).
  { unfold near_max. pose proof (pow2_bounds P HP). assert (0 <= (2 ^ P - 1) / 2) by (apply Z.div_pos; lia). lia. }
  assert (H0 : jp_near (jls_params P 0) = 0) by (destruct (jls_params_facts P 0 HP Hn); assumption).
  assert (Hops : encode_scan_ops PkLossless (jls_params P 0) w h comps (pixelsToIntegers P px) =
                 encode_scan_ops PkNear (jls_params P 0) w h comps (pixelsToIntegers P px)).
  { unfold encode_scan_ops. destruct (comps >? 1).
    - rewrite (enc_lines3_near0 _ H0). reflexivity.
    - rewrite (enc_lines1_near0 P HP) by assumption. reflexivity. }
  rewrite Hops. reflexivity.
Qed.
