(* Regular mode, one sample: sample_near (C07) and sample_exact (C03).
   For every context (no invariant needed), every precision 2..16, every NEAR of the domain and
   every source sample in range, the decoder fed with the encoder's bits reconstructs a value
   within NEAR of the source, inside [0, MAXVAL], equal to what the encoder stores back, and
   both sides make the same context update. NEAR = 0 gives exact reconstruction. *)
From V Require Import Common.Base JpegLS.JlsParams JpegLS.JlsGolomb JpegLS.JlsRun JpegLS.JlsModel.
From V Require Import JpegLS.JlsProofsParams JpegLS.JlsProofsGolomb JpegLS.JlsProofsWriter.

(* ---------- sign helpers ---------- *)

Lemma ApplySign_0 : forall i, ApplySign i 0 = i.
Proof. intros. unfold ApplySign. rewrite Z.lxor_0_l. lia. Qed.

Lemma ApplySign_m1 : forall i, ApplySign i (-1) = - i.
Proof. intros. unfold ApplySign. rewrite Z.lxor_m1_l. unfold Z.lnot. lia. Qed.

Definition sgn_of (qs : Z) : Z := if qs <? 0 then -1 else 1.

Lemma ApplySign_sgn : forall i qs, ApplySign i (BitwiseSign qs) = sgn_of qs * i.
Proof.
  intros i qs. unfold BitwiseSign, sgn_of. destruct (qs <? 0).
  - rewrite ApplySign_m1. lia.
  - rewrite ApplySign_0. lia.
Qed.

Lemma sgn_of_cases : forall qs, sgn_of qs = 1 \/ sgn_of qs = -1.
Proof. intros. unfold sgn_of. destruct (qs <? 0); auto. Qed.

(* ---------- MapErrorValue / UnmapErrorValue ---------- *)

Lemma MapErrorValue_spec : forall e, - 2 ^ 31 <= e < 2 ^ 31 ->
  MapErrorValue e = if e <? 0 then - 2 * e - 1 else 2 * e.
Proof.
  intros e He. unfold MapErrorValue. rewrite Z.shiftl_mul_pow2, Z.shiftr_div_pow2 by lia.
  change (2 ^ 1) with 2.
  destruct (Z.ltb_spec e 0).
  - assert (Hd : e / 2 ^ 31 = -1) by (Z.div_mod_to_equations; lia).
    rewrite Hd, Z.lxor_m1_r. unfold Z.lnot. lia.
  - assert (Hd : e / 2 ^ 31 = 0) by (apply Z.div_small; lia).
    rewrite Hd, Z.lxor_0_r. lia.
Qed.

Lemma land_1 : forall v, Z.land v 1 = v mod 2.
Proof. intros. change 1 with (Z.ones 1). rewrite Z.land_ones by lia. reflexivity. Qed.

Lemma Unmap_Map : forall e, - 2 ^ 31 <= e < 2 ^ 31 -> UnmapErrorValue (MapErrorValue e) = e.
Proof.
  intros e He. rewrite MapErrorValue_spec by assumption. unfold UnmapErrorValue.
  rewrite land_1, Z.shiftr_div_pow2 by lia. change (2 ^ 1) with 2.
  destruct (Z.ltb_spec e 0).
  - replace (-2 * e - 1) with (1 + (- e - 1) * 2) by ring.
    rewrite Z.mod_add, Z.div_add by lia. change (1 mod 2) with 1. change (1 / 2) with 0.
    change (- (1)) with (-1). rewrite Z.lxor_m1_r. unfold Z.lnot. lia.
  - replace (2 * e) with (0 + e * 2) by ring.
    rewrite Z.mod_add, Z.div_add by lia. change (0 mod 2) with 0. change (0 / 2) with 0.
    change (- 0) with 0. rewrite Z.lxor_0_r. lia.
Qed.

Lemma lxor_ec_involutive : forall ec e, (ec = 0 \/ ec = -1) -> Z.lxor (Z.lxor ec e) ec = e.
Proof.
  intros ec e [-> | ->].
  - rewrite Z.lxor_0_l, Z.lxor_0_r. reflexivity.
  - rewrite Z.lxor_m1_l, Z.lxor_m1_r. apply Z.lnot_involutive.
Qed.

Lemma lxor_ec_value : forall ec e, (ec = 0 \/ ec = -1) -> Z.lxor ec e = e \/ Z.lxor ec e = - e - 1.
Proof.
  intros ec e [-> | ->].
  - left. apply Z.lxor_0_l.
  - right. rewrite Z.lxor_m1_l. unfold Z.lnot. lia.
Qed.

Lemma GetErrorCorrection_cases : forall c k near, GetErrorCorrection c k near = 0 \/ GetErrorCorrection c k near = -1.
Proof.
  intros. unfold GetErrorCorrection.
  destruct (negb (k =? 0) || negb (near =? 0)); [auto|].
  destruct (2 * cB c + cN c - 1 <? 0); auto.
Qed.

Lemma GetErrorCorrection_lor : forall c k near, 0 <= k -> 0 <= near ->
  GetErrorCorrection c (Z.lor k near) near = GetErrorCorrection c k near.
Proof.
  intros c k near Hk Hn. unfold GetErrorCorrection.
  destruct (Z.eqb_spec near 0) as [->|Hne].
  - rewrite Z.lor_0_r. reflexivity.
  - rewrite !orb_true_r. reflexivity.
Qed.

Lemma GetErrorCorrection_knz : forall c k near, k <> 0 -> GetErrorCorrection c k near = 0.
Proof.
  intros c k near Hk. unfold GetErrorCorrection.
  destruct (Z.eqb_spec k 0); [contradiction|]. reflexivity.
Qed.

(* ---------- Golomb parameter ---------- *)

Lemma cgp_loop_bound : forall fuel n a k, 0 <= k <= 16 -> 0 <= cgp_loop fuel n a k <= 16.
Proof.
  induction fuel as [|f IH]; intros n a k Hk; cbn [cgp_loop]; [lia|].
  destruct (Z.shiftl n k <? a); cbn [andb]; [|lia].
  destruct (Z.ltb_spec k 16); [apply IH; lia | lia].
Qed.

Lemma ComputeGolombParameter_bound : forall c, 0 <= ComputeGolombParameter c <= 16.
Proof. intros. apply cgp_loop_bound. lia. Qed.

(* ---------- arithmetic of quantisation / modulo reduction / reconstruction ---------- *)

Lemma pow2_bounds : forall P, 2 <= P <= 16 -> 4 <= 2 ^ P <= 65536.
Proof.
  intros P HP. split.
  - change 4 with (2 ^ 2). apply Z.pow_le_mono_r; lia.
  - change 65536 with (2 ^ 16). apply Z.pow_le_mono_r; lia.
Qed.

Section Arith.
  Local Set Default Proof Using "All".
  Variables (p : jparams) (P : Z).
  Let mv := jp_maxval p.
  Let n := jp_near p.
  Let R := jp_range p.
  Hypothesis HP : 2 <= P <= 16.
  Hypothesis Hmv : mv = 2 ^ P - 1.
  Hypothesis Hn : 0 <= n.
  Hypothesis Hn2 : 2 * n <= mv.
  Hypothesis HR : R = (mv + 2 * n) / (2 * n + 1) + 1.

  Lemma pow_P_bounds : 4 <= 2 ^ P <= 65536.
  Proof.
    split.
    - change 4 with (2 ^ 2). apply Z.pow_le_mono_r; lia.
    - change 65536 with (2 ^ 16). apply Z.pow_le_mono_r; lia.
  Qed.

  Lemma Rs_gt : R * (2 * n + 1) > mv + 2 * n.
  Proof.
    rewrite HR. pose proof (Z.mul_succ_div_gt (mv + 2 * n) (2 * n + 1) ltac:(lia)). lia.
  Qed.

  Lemma R_le : 2 <= R <= mv + 1.
  Proof.
    rewrite HR. pose proof pow_P_bounds. split.
    - assert (1 <= (mv + 2 * n) / (2 * n + 1)); [|lia].
      apply Z.div_le_lower_bound; lia.
    - assert ((mv + 2 * n) / (2 * n + 1) <= mv); [|lia].
      apply Z.div_le_upper_bound; [lia|]. nia.
  Qed.

  (* quantize: |d - q*(2n+1)| <= n and |q| <= R - 1 *)
  Lemma quantize_spec : forall d, - mv <= d <= mv ->
    let q := quantize p d in
    - n <= d - q * (2 * n + 1) <= n /\ - (R - 1) <= q <= R - 1.
  Proof.
    intros d Hd q. subst q. unfold quantize. fold n.
    destruct (Z.eqb_spec n 0) as [E|NE].
    - rewrite E in *. split; [lia|]. rewrite HR. change (2 * 0 + 1) with 1.
      rewrite Z.div_1_r. lia.
    - assert (Hs : 0 < 2 * n + 1) by lia.
      destruct (Z.gtb_spec d 0) as [Hpos|Hneg].
      + rewrite Z.quot_div_nonneg by lia.
        pose proof (Z.div_mod (d + n) (2 * n + 1) ltac:(lia)) as Hdm.
        pose proof (Z.mod_pos_bound (d + n) (2 * n + 1) Hs) as Hmb.
        split; [nia|]. rewrite HR.
        assert ((d + n) / (2 * n + 1) <= (mv + 2 * n) / (2 * n + 1)) by (apply Z.div_le_mono; lia).
        assert (0 <= (d + n) / (2 * n + 1)) by (apply Z.div_pos; lia). lia.
      + rewrite Z.quot_opp_l by lia. rewrite Z.quot_div_nonneg by lia.
        pose proof (Z.div_mod (n - d) (2 * n + 1) ltac:(lia)) as Hdm.
        pose proof (Z.mod_pos_bound (n - d) (2 * n + 1) Hs) as Hmb.
        split; [nia|]. rewrite HR.
        assert ((n - d) / (2 * n + 1) <= (mv + 2 * n) / (2 * n + 1)) by (apply Z.div_le_mono; lia).
        assert (0 <= (n - d) / (2 * n + 1)) by (apply Z.div_pos; lia). lia.
  Qed.

  (* ModuloRange: e = q + j*R with j in {-1,0,1}, and e in [-(R/2), (R+1)/2 - 1] *)
  Lemma ModuloRange_spec : forall q, - (R - 1) <= q <= R - 1 ->
    let e := ModuloRange p q in
    (e = q \/ e = q + R \/ e = q - R) /\ - (R / 2) <= e <= (R + 1) / 2 - 1.
  Proof.
    intros q Hq e. subst e. unfold ModuloRange. fold R.
    pose proof R_le as HRl.
    rewrite Z.quot_div_nonneg by lia.
    assert (Hh : 2 * ((R + 1) / 2) <= R + 1 < 2 * ((R + 1) / 2) + 2) by (Z.div_mod_to_equations; lia).
    assert (Hh2 : 2 * (R / 2) <= R < 2 * (R / 2) + 2) by (Z.div_mod_to_equations; lia).
    destruct (Z.ltb_spec q 0);
      match goal with |- context [?a >=? ?b] => destruct (Z.geb_spec a b) end; lia.
  Qed.

  Lemma land_mv : forall v, Z.land v mv = v mod 2 ^ P.
  Proof.
    intros v. rewrite Hmv. replace (2 ^ P - 1) with (Z.ones P) by (rewrite Z.ones_equiv; lia).
    apply Z.land_ones. lia.
  Qed.

  Lemma correctPrediction_lc_clamp : forall v,
    correctPrediction_lc p v = if v <? 0 then 0 else if v >? mv then mv else v.
  Proof.
    intros v. unfold correctPrediction_lc. fold mv. rewrite land_mv.
    pose proof pow_P_bounds as Hpb.
    pose proof (Z.mod_pos_bound v (2 ^ P) ltac:(lia)) as Hm.
    destruct (Z.ltb_spec v 0).
    - destruct (Z.eqb_spec (v mod 2 ^ P) v); [lia|reflexivity].
    - destruct (Z.gtb_spec v mv).
      + destruct (Z.eqb_spec (v mod 2 ^ P) v); [lia|reflexivity].
      + rewrite Z.mod_small by lia. rewrite Z.eqb_refl. reflexivity.
  Qed.

  Lemma pow2_test : Z.land (mv + 1) mv =? 0 = true.
  Proof.
    rewrite land_mv. rewrite Hmv. replace (2 ^ P - 1 + 1) with (2 ^ P) by lia.
    pose proof pow_P_bounds. rewrite Z.mod_same by lia. reflexivity.
  Qed.

  (* the reconstruction is within NEAR of the source and inside the sample range *)
  Lemma reconstruct_near : forall pv x sg,
    sg = 1 \/ sg = -1 -> 0 <= pv <= mv -> 0 <= x <= mv ->
    let e := ModuloRange p (quantize p (sg * (x - pv))) in
    let x' := ComputeReconstructedSample p pv (sg * e) in
    Z.abs (x' - x) <= n /\ 0 <= x' <= mv.
  Proof.
    intros pv x sg Hsg Hpv Hx e x'.
    assert (Hd : - mv <= sg * (x - pv) <= mv) by (destruct Hsg; subst sg; lia).
    destruct (quantize_spec _ Hd) as [Hq1 Hq2].
    destruct (ModuloRange_spec _ Hq2) as [Hj _].
    fold e in Hj.
    set (q := quantize p (sg * (x - pv))) in *.
    pose proof Rs_gt as HRs. pose proof pow_P_bounds as Hpb.
    subst x'. unfold ComputeReconstructedSample, fixReconstructedValue. fold n mv R.
    rewrite pow2_test.
    destruct (Z.eqb_spec n 0) as [E0|NE0]; cbn [andb].
    - (* NEAR = 0: value & MAXVAL *)
      rewrite land_mv. rewrite E0 in *.
      assert (HR0 : R = 2 ^ P) by (rewrite HR; change (2 * 0 + 1) with 1; rewrite Z.div_1_r; lia).
      assert (Hqd : q = sg * (x - pv)) by lia.
      assert (Hval : exists j, pv + sg * e * (2 * 0 + 1) = x + j * 2 ^ P).
      { rewrite <- HR0.
        destruct Hsg as [-> | ->]; destruct Hj as [Hj | [Hj | Hj]]; rewrite Hj, Hqd;
          [exists 0 | exists 1 | exists (-1) | exists 0 | exists (-1) | exists 1]; ring. }
      destruct Hval as [j Hval]. rewrite Hval. rewrite Z.mod_add by lia.
      rewrite Z.mod_small by lia. split; [rewrite Z.sub_diag; simpl; lia | lia].
    - rewrite correctPrediction_lc_clamp.
      set (QS := q * (2 * n + 1)) in *. set (RS := R * (2 * n + 1)) in *.
      assert (Hes : e * (2 * n + 1) = QS \/ e * (2 * n + 1) = QS + RS \/ e * (2 * n + 1) = QS - RS).
      { destruct Hj as [Hj | [Hj | Hj]]; rewrite Hj; [left | right; left | right; right]; unfold QS, RS; ring. }
      replace (sg * e * (2 * n + 1)) with (sg * (e * (2 * n + 1))) by ring.
      set (ES := e * (2 * n + 1)) in *.
      assert (Hfix : exists t,
                 (if pv + sg * ES <? - n then pv + sg * ES + RS
                  else if pv + sg * ES >? mv + n then pv + sg * ES - RS else pv + sg * ES) = t /\
                 - n <= t - x <= n).
      { destruct Hsg as [-> | ->]; destruct Hes as [Hes | [Hes | Hes]]; rewrite Hes;
          repeat match goal with
                 | |- context [?a <? ?b] => destruct (Z.ltb_spec a b)
                 | |- context [?a >? ?b] => destruct (Z.gtb_spec a b)
                 end; eexists; (split; [reflexivity | lia]). }
      destruct Hfix as (t & Ht & Hb). rewrite Ht.
      destruct (Z.ltb_spec t 0); [lia|]. destruct (Z.gtb_spec t mv); lia.
  Qed.

  (* the mapped error fits the escape code *)
  Lemma mapped_range : forall q ec, - (R - 1) <= q <= R - 1 -> ec = 0 \/ ec = -1 ->
    let m := MapErrorValue (Z.lxor ec (ModuloRange p q)) in
    0 <= m /\ m - 1 < R.
  Proof.
    intros q ec Hq Hec m. destruct (ModuloRange_spec _ Hq) as [_ He].
    pose proof R_le as HRl. pose proof pow_P_bounds as Hpb.
    assert (Hh : 2 * ((R + 1) / 2) <= R + 1) by (Z.div_mod_to_equations; lia).
    assert (Hh2 : 2 * (R / 2) <= R) by (Z.div_mod_to_equations; lia).
    subst m. destruct (lxor_ec_value ec (ModuloRange p q) Hec) as [Hv | Hv]; rewrite Hv;
      rewrite MapErrorValue_spec by (change (2 ^ 31) with 2147483648; lia);
      match goal with |- context [?a <? 0] => destruct (Z.ltb_spec a 0) end; lia.
  Qed.
End Arith.

(* ---------- the sample theorems ---------- *)

Lemma near_max_half : forall P near, 2 <= P <= 16 -> 0 <= near <= near_max P -> 2 * near <= 2 ^ P - 1.
Proof.
  intros P near HP Hn. unfold near_max in Hn.
  assert (near <= (2 ^ P - 1) / 2) by lia.
  assert (0 < 2 ^ P) by (apply Z.pow_pos_nonneg; lia).
  Z.div_mod_to_equations. lia.
Qed.

(* sample_near (C07). `store` = whether the encoder writes the reconstruction back (every path
   except the one-component lossless one, which keeps the source sample). *)
Theorem sample_near : forall P near store c qs ra rb rc x rest ops c' stored,
  2 <= P <= 16 -> 0 <= near <= near_max P -> 0 <= x <= 2 ^ P - 1 ->
  regular_enc PkNear store (jls_params P near) c qs ra rb rc x = (ops, c', stored) ->
  exists x',
    regular_dec (jls_params P near) c qs ra rb rc (ops_bits ops ++ rest) = Some (x', c', rest) /\
    Z.abs (x' - x) <= near /\ 0 <= x' <= 2 ^ P - 1 /\
    stored = (if store then x' else x) /\ Forall wop_ok ops.
Proof.
  intros P near store c qs ra rb rc x rest ops c' stored HP Hn Hx Henc.
  pose proof (jls_params_facts P near HP Hn) as F.
  set (p := jls_params P near) in *.
  destruct F as [Fmv Fnear Frange Fr2 Frq Fq1 Fq16 Fll Flh Freset Ft1 Ft12 Ft23 Fa].
  pose proof (near_max_half P near HP Hn) as Hhalf.
  assert (Hn0 : 0 <= jp_near p) by lia.
  assert (Hn2 : 2 * jp_near p <= jp_maxval p) by lia.
  assert (HR : jp_range p = (jp_maxval p + 2 * jp_near p) / (2 * jp_near p + 1) + 1) by (rewrite Fnear; exact Frange).
  unfold regular_enc in Henc. cbv zeta in Henc.
  set (sign := BitwiseSign qs) in *.
  set (k := ComputeGolombParameter c) in *.
  set (pv := CorrectPrediction p (Predict ra rb rc + ApplySign (cC c) sign)) in *.
  assert (Hpv : 0 <= pv <= jp_maxval p).
  { unfold pv, CorrectPrediction. assert (0 <= jp_maxval p) by (rewrite Fmv; pose proof (pow2_bounds P HP); lia).
    destruct (Z.ltb_spec (Predict ra rb rc + ApplySign (cC c) sign) 0); [lia|].
    destruct (Z.gtb_spec (Predict ra rb rc + ApplySign (cC c) sign) (jp_maxval p)); lia. }
  unfold pk_error, Traits_ComputeErrorValue in Henc.
  unfold sign in Henc. rewrite !ApplySign_sgn in Henc. fold sign in Henc.
  set (sg := sgn_of qs) in *.
  set (q := quantize p (sg * (x - pv))) in *.
  set (e := ModuloRange p q) in *.
  assert (Hk : 0 <= k <= 16) by apply ComputeGolombParameter_bound.
  rewrite GetErrorCorrection_lor in Henc by lia.
  set (ec := GetErrorCorrection c k (jp_near p)) in *.
  assert (Hec : ec = 0 \/ ec = -1) by apply GetErrorCorrection_cases.
  assert (Hd : - jp_maxval p <= sg * (x - pv) <= jp_maxval p).
  { destruct (sgn_of_cases qs) as [E|E]; unfold sg; rewrite E; lia. }
  destruct (quantize_spec p P HP Fmv Hn0 Hn2 HR _ Hd) as [_ Hq2]. fold q in Hq2.
  destruct (mapped_range p P HP Fmv Hn0 Hn2 HR q ec Hq2 Hec) as [Hm0 Hm1]. fold e in Hm0, Hm1.
  destruct (ModuloRange_spec p P HP Fmv Hn0 Hn2 HR q Hq2) as [_ Herange]. fold e in Herange.
  pose proof (R_le p P HP Fmv Hn0 Hn2 HR) as HRl. pose proof (pow2_bounds P HP) as Hpb.
  destruct (reconstruct_near p P HP Fmv Hn0 Hn2 HR pv x sg (sgn_of_cases qs) Hpv ltac:(lia)) as [Hb1 Hb2].
  fold q e in Hb1, Hb2.
  set (x' := ComputeReconstructedSample p pv (sg * e)) in *.
  inversion Henc as [[Hops Hc' Hst]]. clear Henc.
  exists x'. unfold regular_dec. cbv zeta. fold sign k pv.
  rewrite golomb_roundtrip by lia.
  assert (Hhalves : jp_range p / 2 <= jp_range p /\ (jp_range p + 1) / 2 <= jp_range p)
    by (Z.div_mod_to_equations; lia).
  rewrite Unmap_Map.
  2:{ destruct (lxor_ec_value ec e Hec) as [Hv|Hv]; rewrite Hv; change (2 ^ 31) with 2147483648; lia. }
  assert (Herr : (if k =? 0 then Z.lxor (Z.lxor ec e) (GetErrorCorrection c k (jp_near p)) else Z.lxor ec e) = e).
  { destruct (Z.eqb_spec k 0) as [Ek|Nk].
    - fold ec. apply lxor_ec_involutive. exact Hec.
    - unfold ec. rewrite GetErrorCorrection_knz by assumption. apply Z.lxor_0_l. }
  rewrite Herr. unfold sign. rewrite ApplySign_sgn. fold sg x'.
  split; [reflexivity|]. split; [lia|]. split; [lia|].
  split; [destruct store; reflexivity|].
  apply encode_mapped_ops_ok; lia.
Qed.

(* with NEAR = 0 the lossless package computes the same function as nearlossless *)
Lemma regular_enc_lossless_near0 : forall store p c qs ra rb rc x,
  jp_near p = 0 ->
  regular_enc PkLossless store p c qs ra rb rc x = regular_enc PkNear store p c qs ra rb rc x.
Proof.
  intros store p c qs ra rb rc x H0. unfold regular_enc, pk_error, ll_computeErrorValue,
    Traits_ComputeErrorValue, quantize. rewrite H0. cbn [Z.eqb]. rewrite Z.lor_0_r. reflexivity.
Qed.

(* sample_exact (C03): regular mode of jpegls/lossless, every precision 2..16, every context.
   History: refuted until /repo commit 603ce05 (finding F06): the int8/int16 narrowing let the
   mapped error exceed 2^qbpp and the escape code masked it (P = 12: source 2049 decoded to 1). *)
Theorem sample_exact : forall P store c qs ra rb rc x rest ops c' stored,
  2 <= P <= 16 -> 0 <= x <= 2 ^ P - 1 ->
  regular_enc PkLossless store (jls_params P 0) c qs ra rb rc x = (ops, c', stored) ->
  regular_dec (jls_params P 0) c qs ra rb rc (ops_bits ops ++ rest) = Some (x, c', rest) /\ stored = x /\
  Forall wop_ok ops.
Proof.
  intros P store c qs ra rb rc x rest ops c' stored HP Hx Henc.
  assert (Hn : 0 <= 0 <= near_max P).
  { unfold near_max. pose proof (pow2_bounds P HP). assert (0 <= (2 ^ P - 1) / 2) by (apply Z.div_pos; lia). lia. }
  rewrite regular_enc_lossless_near0 in Henc
    by (destruct (jls_params_facts P 0 HP Hn); assumption).
  destruct (sample_near P 0 store c qs ra rb rc x rest ops c' stored HP Hn Hx Henc)
    as (x' & Hdec & Habs & _ & Hst & Hok).
  assert (x' = x) by lia. subst x'. split; [exact Hdec|]. split; [destruct store; assumption | exact Hok].
Qed.
