(* The encoders do not fail on well-formed input (so the round-trip theorems are not vacuous),
   and the sample containers round trip. *)
From V Require Import Common.Base JpegLS.JlsParams JpegLS.JlsGolomb JpegLS.JlsRun JpegLS.JlsModel.
From V Require Import JpegLS.JlsProofsParams JpegLS.JlsProofsGolomb JpegLS.JlsProofsSample
                      JpegLS.JlsProofsRun JpegLS.JlsProofsNear0 JpegLS.JlsProofsInterrupt
                      JpegLS.JlsProofsLine JpegLS.JlsProofsWriter JpegLS.JlsProofsStream.

(* ---------- 16-bit little-endian container ---------- *)

Lemma le16_parts : forall lo hi, 0 <= lo < 256 -> 0 <= hi < 256 ->
  let v := Z.lor lo (Z.shiftl hi 8) in
  0 <= v < 65536 /\ wrapU 8 (Z.land v 255) = lo /\ wrapU 8 (Z.land (Z.shiftr v 8) 255) = hi.
Proof.
  intros lo hi Hlo Hhi v. subst v.
  rewrite Z.shiftl_mul_pow2 by lia. change (2 ^ 8) with 256.
  rewrite Z.lor_comm. rewrite (lor_disjoint (hi * 256) lo 8) by (try lia; change (2 ^ 8) with 256; try lia; apply Z.mod_mul; lia).
  change 255 with (Z.ones 8). rewrite !Z.land_ones by lia. rewrite Z.shiftr_div_pow2 by lia. change (2 ^ 8) with 256.
  assert (H1 : (hi * 256 + lo) mod 256 = lo) by (rewrite Z.add_comm, Z.mod_add by lia; apply Z.mod_small; lia).
  assert (H2 : (hi * 256 + lo) / 256 = hi) by (rewrite Z.add_comm, Z.div_add by lia; rewrite Z.div_small by lia; lia).
  rewrite H1, H2. rewrite (Z.mod_small hi 256) by lia. rewrite !wrapU8_small by lia. repeat split; lia.
Qed.

Lemma container_roundtrip_16 : forall P n px,
  8 < P <= 16 -> length px = (2 * n)%nat -> Forall (fun b => 0 <= b < 256) px ->
  Forall (in_range P) (pixelsToIntegers P px) ->
  integersToPixels P (2 ^ P - 1) (pixelsToIntegers P px) = px.
Proof.
  intros P n px HP. unfold integersToPixels, pixelsToIntegers.
  destruct (Z.leb_spec P 8); [lia|]. revert px.
  induction n as [|n IH]; intros px Hlen Hb Hr.
  - destruct px; [reflexivity | discriminate].
  - destruct px as [|lo [|hi t]]; try (cbn in Hlen; lia).
    inversion Hb as [|? ? Hlo Hb1]; subst. inversion Hb1 as [|? ? Hhi Hb2]; subst.
    destruct (le16_parts lo hi Hlo Hhi) as (Hv16 & Hl & Hh).
    change (le16_samples (lo :: hi :: t)) with (Z.lor lo (Z.shiftl hi 8) :: le16_samples t) in *.
    set (v := Z.lor lo (Z.shiftl hi 8)) in *.
    apply Forall_cons_iff in Hr. destruct Hr as [Hv Hr2].
    cbn [integersToPixels16].
    unfold clamp_sample. unfold in_range in Hv.
    destruct (Z.ltb_spec v 0); [lia|].
    destruct (Z.gtb_spec v (2 ^ P - 1)); [lia|].
    rewrite Hl, Hh. f_equal. f_equal. apply IH; [cbn in Hlen; lia | assumption | assumption].
Qed.

(* ---------- the encoders terminate with Ok ---------- *)

Lemma ri_range_interrupt_enc : forall pk p st x ra rb iops st2 recon,
  interrupt_enc pk p st x ra rb = (iops, st2, recon) -> js_ri st2 = js_ri st.
Proof.
  intros pk p st x ra rb iops st2 recon H. unfold interrupt_enc in H.
  destruct (Z.abs (ra - rb) <=? jp_near p);
    match type of H with context [EncodeRunInterruption ?a ?b ?c ?d] => destruct (EncodeRunInterruption a b c d) end;
    inversion H; reflexivity.
Qed.

Lemma ri_range_interrupt_enc_i : forall pk p st xs left above iops st2 recon,
  interrupt_enc_i pk p st xs left above = (iops, st2, recon) -> js_ri st2 = js_ri st.
Proof.
  intros pk p st xs left above iops st2 recon H. unfold interrupt_enc_i in H. cbv zeta in H.
  match type of H with context [EncodeRunInterruption ?a ?b ?c ?d] => destruct (EncodeRunInterruption a b c d) end.
  inversion H; reflexivity.
Qed.

Lemma run_count_len : forall pk p ra inp n0 m0 n m rest,
  run_count pk p ra inp n0 m0 = (n, m, rest) ->
  n = n0 + Z.of_nat (m - m0) /\ (m0 <= m)%nat /\ length inp = (m - m0 + length rest)%nat.
Proof.
  induction inp as [|v t IH]; intros n0 m0 n m rest H; cbn [run_count] in H.
  - inversion H; subst. cbn. repeat split; lia.
  - destruct (is_run_pixel pk p v ra).
    + destruct (IH _ _ _ _ _ H) as (Hn & Hm & Hl). cbn [length]. repeat split; lia.
    + inversion H; subst. cbn [length]. repeat split; lia.
Qed.

Lemma run_count3_len : forall pk p lv inp n0 m0 n m rest,
  run_count3 pk p lv inp n0 m0 = (n, m, rest) ->
  n = n0 + Z.of_nat (m - m0) /\ (m0 <= m)%nat /\ length inp = (m - m0 + length rest)%nat.
Proof.
  induction inp as [|v t IH]; intros n0 m0 n m rest H; cbn [run_count3] in H.
  - inversion H; subst. cbn. repeat split; lia.
  - destruct (is_run_pixel3 pk p v lv).
    + destruct (IH _ _ _ _ _ H) as (Hn & Hm & Hl). cbn [length]. repeat split; lia.
    + inversion H; subst. cbn [length]. repeat split; lia.
Qed.

Lemma enc_line1_total : forall pk p w y pfp pn1 fuel st x pw cur inp ops_rev,
  0 <= js_ri st <= 31 -> (length inp < fuel)%nat ->
  exists r, enc_line1 fuel pk p w y pfp pn1 st x pw cur inp ops_rev = Ok r.
Proof.
  intros pk p w y pfp pn1. induction fuel as [|f IH]; intros st x pw cur inp ops_rev Hri Hf; [lia|].
  destruct inp as [|xs inp']; cbn [enc_line1]; [eexists; reflexivity|].
  destruct (neighbors1 w y x pfp pn1 (match cur with l :: _ => l | [] => 0 end) pw) as [[[ra rb] rc] rd].
  destruct (negb (context_qs p ra rb rc rd =? 0)).
  - destruct (ctx_index_in_range pk _ (context_qs_range p ra rb rc rd)) as [-> _].
    match goal with |- context [regular_enc ?a ?b ?c ?d ?e ?f ?g ?h ?i] =>
      destruct (regular_enc a b c d e f g h i) as [[ops c'] stored] end.
    apply IH; [exact Hri | cbn [length] in Hf; lia].
  - destruct (run_count pk p ra (xs :: inp') 0 0) as [[n m] rest] eqn:Erc.
    destruct (run_count_len _ _ _ _ _ _ _ _ _ Erc) as (Hn & _ & Hl). rewrite Nat.sub_0_r in *.
    destruct (enc_runlen_loop_total (S m) n (js_ri st) [] Hri ltac:(lia) ltac:(lia)) as [[[rl' ri'] acc'] Hloop].
    destruct (runlen_loop_sync _ _ _ _ _ _ _ Hloop Hri ltac:(lia)) as (_ & _ & _ & Hri' & _).
    unfold EncodeRunLength. rewrite Hloop.
    destruct rest as [|xi rest'].
    + eexists; reflexivity.
    + destruct (interrupt_enc pk p (set_ri st ri') xi ra (if y >? 0 then win1 (skipn m pw) else 0))
        as [[iops st2] recon] eqn:Ei.
      apply IH.
      * cbn [set_ri js_ri]. rewrite (ri_range_interrupt_enc _ _ _ _ _ _ _ _ _ Ei). cbn [set_ri js_ri].
        apply dec_run_index_range. exact Hri'.
      * cbn [length] in *. lia.
Qed.

Lemma enc_line1_ri : forall pk p w y pfp pn1 fuel st x pw cur inp ops_rev st' cur' ops',
  0 <= js_ri st <= 31 ->
  enc_line1 fuel pk p w y pfp pn1 st x pw cur inp ops_rev = Ok (st', cur', ops') -> 0 <= js_ri st' <= 31.
Proof.
  intros pk p w y pfp pn1. induction fuel as [|f IH]; intros st x pw cur inp ops_rev st' cur' ops' Hri H;
    destruct inp as [|xs inp']; cbn [enc_line1] in H; try discriminate; try (inversion H; subst; exact Hri).
  destruct (neighbors1 w y x pfp pn1 (match cur with l :: _ => l | [] => 0 end) pw) as [[[ra rb] rc] rd].
  destruct (negb (context_qs p ra rb rc rd =? 0)).
  - destruct (ctx_index pk (context_qs p ra rb rc rd)); [|discriminate].
    match type of H with context [regular_enc ?a ?b ?c ?d ?e ?f ?g ?h ?i] =>
      destruct (regular_enc a b c d e f g h i) as [[ops c'] stored] end.
    eapply IH; [|exact H]. exact Hri.
  - destruct (run_count pk p ra (xs :: inp') 0 0) as [[n m] rest] eqn:Erc.
    destruct (run_count_len _ _ _ _ _ _ _ _ _ Erc) as (Hn & _ & Hl). rewrite Nat.sub_0_r in *.
    unfold EncodeRunLength in H.
    destruct (enc_runlen_loop (S m) n (js_ri st) []) as [[[rl' ri'] acc']|] eqn:Hloop; [|discriminate].
    destruct (runlen_loop_sync _ _ _ _ _ _ _ Hloop Hri ltac:(lia)) as (_ & _ & _ & Hri' & _).
    destruct rest as [|xi rest'].
    + inversion H; subst. exact Hri'.
    + destruct (interrupt_enc pk p (set_ri st ri') xi ra (if y >? 0 then win1 (skipn m pw) else 0))
        as [[iops st2] recon] eqn:Ei.
      eapply IH; [|exact H].
      cbn [set_ri js_ri]. rewrite (ri_range_interrupt_enc _ _ _ _ _ _ _ _ _ Ei). cbn [set_ri js_ri].
      apply dec_run_index_range. exact Hri'.
Qed.

Lemma enc_lines1_total : forall pk p w wn hfuel y pfp pn1 st prev pix ops_rev,
  0 <= js_ri st <= 31 ->
  exists r, enc_lines1 hfuel pk p w wn y pfp pn1 st prev pix ops_rev = Ok r.
Proof.
  intros pk p w wn. induction hfuel as [|hf IH]; intros; cbn [enc_lines1]; [eexists; reflexivity|].
  destruct (enc_line1_total pk p w y pfp pn1 (S wn) st 0 (0 :: prev) [] (firstn wn pix) ops_rev H
              ltac:(pose proof (firstn_le_length wn pix); lia)) as [[[st' cur'] ops'] Hl].
  rewrite Hl. apply IH. eapply enc_line1_ri; eassumption.
Qed.

Lemma enc_line3_total : forall pk p w y plf pplf fuel st x pw cur inp ops_rev,
  0 <= js_ri st <= 31 -> (length inp < fuel)%nat ->
  (exists r, enc_line3 fuel pk p w y plf pplf st x pw cur inp ops_rev = Ok r) /\
  (forall st' cur' ops', enc_line3 fuel pk p w y plf pplf st x pw cur inp ops_rev = Ok (st', cur', ops') ->
                         0 <= js_ri st' <= 31).
Proof.
  intros pk p w y plf pplf. induction fuel as [|f IH]; intros st x pw cur inp ops_rev Hri Hf; [lia|].
  destruct inp as [|xs inp']; cbn [enc_line3].
  { split; [eexists; reflexivity | intros ? ? ? H; inversion H; subst; exact Hri]. }
  set (left := match cur with l :: _ => l | [] => z3 end).
  unfold qs_of.
  destruct (nb3 w y x plf pplf left pw p3_0) as [[[ra0 rb0] rc0] rd0].
  destruct (nb3 w y x plf pplf left pw p3_1) as [[[ra1 rb1] rc1] rd1].
  destruct (nb3 w y x plf pplf left pw p3_2) as [[[ra2 rb2] rc2] rd2].
  cbn [fst snd].
  destruct ((context_qs p ra0 rb0 rc0 rd0 =? 0) && (context_qs p ra1 rb1 rc1 rd1 =? 0) &&
            (context_qs p ra2 rb2 rc2 rd2 =? 0)).
  - destruct (run_count3 pk p (ra0, ra1, ra2) (xs :: inp') 0 0) as [[n m] rest] eqn:Erc.
    destruct (run_count3_len _ _ _ _ _ _ _ _ _ Erc) as (Hn & _ & Hl). rewrite Nat.sub_0_r in *.
    destruct (enc_runlen_loop_total (S m) n (js_ri st) [] Hri ltac:(lia) ltac:(lia)) as [[[rl' ri'] acc'] Hloop].
    destruct (runlen_loop_sync _ _ _ _ _ _ _ Hloop Hri ltac:(lia)) as (_ & _ & _ & Hri' & _).
    unfold EncodeRunLength. rewrite Hloop.
    destruct rest as [|xi rest'].
    + split; [eexists; reflexivity | intros ? ? ? H; inversion H; subst; exact Hri'].
    + repeat match goal with
             | |- context [interrupt_enc_i ?a ?b ?c ?d ?e ?f] =>
               let o := fresh "o" in let s := fresh "s" in let r := fresh "r" in let E := fresh "E" in
               destruct (interrupt_enc_i a b c d e f) as [[o s] r] eqn:E
             end.
      apply IH.
      * cbn [set_ri js_ri].
        repeat match goal with E : interrupt_enc_i _ _ _ _ _ _ = _ |- _ =>
                 apply ri_range_interrupt_enc_i in E end.
        replace (js_ri s1) with ri' by (cbn [set_ri js_ri] in *; congruence).
        apply dec_run_index_range. exact Hri'.
      * cbn [length] in *. lia.
  - unfold regular_enc_i.
    destruct (ctx_index_in_range pk _ (context_qs_range p ra0 rb0 rc0 rd0)) as [-> _].
    match goal with |- context [regular_enc ?a ?b ?c ?d ?e ?f ?g ?h ?i] =>
      destruct (regular_enc a b c d e f g h i) as [[o0 c0'] v0] end.
    destruct (ctx_index_in_range pk _ (context_qs_range p ra1 rb1 rc1 rd1)) as [-> _].
    match goal with |- context [regular_enc ?a ?b ?c ?d ?e ?f ?g ?h ?i] =>
      destruct (regular_enc a b c d e f g h i) as [[o1 c1'] v1] end.
    destruct (ctx_index_in_range pk _ (context_qs_range p ra2 rb2 rc2 rd2)) as [-> _].
    match goal with |- context [regular_enc ?a ?b ?c ?d ?e ?f ?g ?h ?i] =>
      destruct (regular_enc a b c d e f g h i) as [[o2 c2'] v2] end.
    apply IH; [exact Hri | cbn [length] in Hf; lia].
Qed.

Lemma enc_lines3_total : forall pk p w wn hfuel y plf pplf st prev pix ops_rev,
  0 <= js_ri st <= 31 ->
  exists r, enc_lines3 hfuel pk p w wn y plf pplf st prev pix ops_rev = Ok r.
Proof.
  intros pk p w wn. induction hfuel as [|hf IH]; intros; cbn [enc_lines3]; [eexists; reflexivity|].
  destruct (enc_line3_total pk p w y plf pplf (S wn) st 0 (z3 :: prev) [] (firstn wn pix) ops_rev H
              ltac:(pose proof (firstn_le_length wn pix); lia)) as [[[[st' cur'] ops'] Hl] Hri'].
  rewrite Hl. apply IH. eapply Hri'. exact Hl.
Qed.

(* the encoders succeed on every well-formed call *)
Theorem encode_total : forall pk w h comps P near pixelData,
  1 <= w <= 65535 -> 1 <= h <= 65535 -> comps = 1 \/ comps = 3 -> 2 <= P <= 16 -> 0 <= near <= 255 ->
  w * h * comps * Z.quot (P + 7) 8 <= zlen pixelData ->
  exists stream, encode_image pk w h comps P near pixelData = Ok stream.
Proof.
  intros pk w h comps P near px Hw Hh Hc HP Hn Hlen. unfold encode_image.
  destruct (Z.leb_spec w 0); [lia|]. destruct (Z.leb_spec h 0); [lia|]. cbn [orb].
  assert (Hcc : negb (comps =? 1) && negb (comps =? 3) = false) by (destruct Hc as [-> | ->]; reflexivity).
  rewrite Hcc. destruct (Z.ltb_spec P 2); [lia|]. destruct (Z.gtb_spec P 16); [lia|]. cbn [orb].
  assert (Hnn : match pk with PkLossless => false | PkNear => (near <? 0) || (near >? 255) end = false).
  { destruct pk; [reflexivity|]. destruct (Z.ltb_spec near 0); [lia|]. destruct (Z.gtb_spec near 255); [lia|]. reflexivity. }
  rewrite Hnn. destruct (Z.gtb_spec w 65535); [lia|]. destruct (Z.gtb_spec h 65535); [lia|]. cbn [orb].
  destruct (Z.ltb_spec (zlen px) (w * h * comps * Z.quot (P + 7) 8)); [lia|]. cbv zeta.
  unfold encode_scan_ops.
  destruct (comps >? 1).
  - destruct (enc_lines3_total pk (jls_params P near) w (Z.to_nat w) (Z.to_nat h) 0 z3 z3 (jst_init (jls_params P near)) []
                (triples (pixelsToIntegers P px)) [] ltac:(cbn; lia)) as [r Hr].
    rewrite Hr. eexists. reflexivity.
  - destruct (enc_lines1_total pk (jls_params P near) w (Z.to_nat w) (Z.to_nat h) 0 0 0 (jst_init (jls_params P near)) []
                (pixelsToIntegers P px) [] ltac:(cbn; lia)) as [r Hr].
    rewrite Hr. eexists. reflexivity.
Qed.

(* deciding the range hypothesis on concrete sample lists *)
Lemma in_range_forallb : forall P l,
  forallb (fun v => (0 <=? v) && (v <=? 2 ^ P - 1)) l = true -> Forall (in_range P) l.
Proof.
  intros P l H. rewrite forallb_forall in H. apply Forall_forall. intros x Hx.
  specialize (H x Hx). apply andb_true_iff in H. unfold in_range. lia.
Qed.
