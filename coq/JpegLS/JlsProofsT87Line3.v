(* C14: line lockstep of the independent T.87 decoder with the library encoder model on
   sample-interleaved three-component scans (ILV = 2). *)
From V Require Import Common.Base JpegLS.JlsParams JpegLS.JlsGolomb JpegLS.JlsRun JpegLS.JlsModel JpegLS.JlsT87Dec.
From V Require Import JpegLS.JlsProofsParams JpegLS.JlsProofsGolomb JpegLS.JlsProofsWriter JpegLS.JlsProofsSample
                      JpegLS.JlsProofsRun JpegLS.JlsProofsNear0 JpegLS.JlsProofsInterrupt JpegLS.JlsProofsLine
                      JpegLS.JlsProofsLine3 JpegLS.JlsProofsT87 JpegLS.JlsProofsT87Line.

Definition is_sel (sel : px3 -> Z) : Prop := sel = p3_0 \/ sel = p3_1 \/ sel = p3_2.

Lemma sel_z3 : forall sel, is_sel sel -> sel z3 = 0.
Proof. intros sel [-> | [-> | ->]]; reflexivity. Qed.

Lemma sel_range : forall P sel v, is_sel sel -> in_range3 P v -> in_range P (sel v).
Proof. intros P sel v [-> | [-> | ->]] (A & B & C); assumption. Qed.

Lemma win_map0 : forall sel L, is_sel sel -> win0 (map sel L) = sel (w3_0 L).
Proof. intros sel [|a L] Hs; cbn; [rewrite sel_z3 by assumption|]; reflexivity. Qed.
Lemma win_map1 : forall sel L, is_sel sel -> win1 (map sel L) = sel (w3_1 L).
Proof. intros sel [|a [|b L]] Hs; cbn; try rewrite sel_z3 by assumption; reflexivity. Qed.
Lemma win_map2 : forall sel L, is_sel sel -> (3 <= length L)%nat -> win2 (map sel L) = sel (w3_2 L).
Proof. intros sel [|a [|b [|c L]]] Hs Hl; cbn in *; try lia; reflexivity. Qed.
Lemma w3_2_two : forall L, length L = 2%nat -> w3_2 L = w3_1 L.
Proof. intros [|a [|b [|c L]]] Hl; cbn in *; try lia; reflexivity. Qed.

Definition hd3 (l : list px3) : px3 := match l with a :: _ => a | [] => z3 end.

Lemma nb3_as_neighbors1 : forall w y x plf pplf left pw sel,
  is_sel sel -> (y > 0 -> length pw = Z.to_nat (w + 1 - x)) -> 0 <= x < w ->
  nb3 w y x plf pplf left pw sel = neighbors1 w y x (sel plf) (sel pplf) (sel left) (map sel pw).
Proof.
  intros w y x plf pplf left pw sel Hs Hl Hx. unfold nb3, sampleNeighbors, neighbors1.
  destruct (Z.eqb_spec x 0) as [E|NE]; destruct (Z.gtb_spec y 0) as [Hy|Hy]; cbn [andb]; try reflexivity.
  - destruct (Z.gtb_spec w 1); [|reflexivity]. rewrite win_map2; [reflexivity | assumption | rewrite Hl by lia; lia].
  - rewrite win_map0, win_map1 by assumption.
    destruct (Z.ltb_spec x (w - 1)).
    + rewrite win_map2; [reflexivity | assumption | rewrite Hl by lia; lia].
    + rewrite w3_2_two; [reflexivity | rewrite Hl by lia; lia].
Qed.

(* Ra depends on the left sample only, the rest on the window only *)
Lemma nb3_left : forall w y x plf pplf l1 l2 pw sel a b c d,
  nb3 w y x plf pplf l2 pw sel = (a, b, c, d) ->
  nb3 w y x plf pplf l1 pw sel = ((if x =? 0 then sel plf else sel l1), b, c, d).
Proof.
  intros w y x plf pplf l1 l2 pw sel a b c d H. unfold nb3, sampleNeighbors in *.
  destruct (x =? 0); inversion H; reflexivity.
Qed.

Lemma nb3_ra : forall w y x plf pplf l pw sel a b c d,
  nb3 w y x plf pplf l pw sel = (a, b, c, d) -> a = (if x =? 0 then sel plf else sel l).
Proof.
  intros w y x plf pplf l pw sel a b c d H. unfold nb3, sampleNeighbors in H.
  destruct (x =? 0); inversion H; reflexivity.
Qed.

Definition comp_of (prev : list px3) (sel : px3 -> Z) (cl x : Z) (cur : list px3) : t87comp :=
  mkT87Comp (skipn (Z.to_nat x) (t87_extend cl (map sel prev))) (map sel cur).
Definition cs3 (prev : list px3) (cl0 cl1 cl2 x : Z) (cur : list px3) : list t87comp :=
  [comp_of prev p3_0 cl0 x cur; comp_of prev p3_1 cl1 x cur; comp_of prev p3_2 cl2 x cur].

Lemma template3_eq : forall w y plf pplf prev sel cl x cur,
  is_sel sel -> 1 <= w -> line_rel w y (sel plf) (sel pplf) (map sel prev) cl ->
  0 <= x < w -> length cur = Z.to_nat x ->
  t87_template (comp_of prev sel cl x cur) = nb3 w y x plf pplf (hd3 cur) (skipn (Z.to_nat x) (z3 :: prev)) sel.
Proof.
  intros w y plf pplf prev sel cl x cur Hs Hw Hrel Hx Hcur. unfold comp_of.
  rewrite (template_eq w y (sel plf) (sel pplf) (map sel prev) cl x (map sel cur) Hw Hrel Hx)
    by (rewrite map_length; exact Hcur).
  rewrite nb3_as_neighbors1; [|assumption| |assumption].
  - f_equal.
    + destruct cur; cbn [map hd3]; [rewrite sel_z3 by assumption|]; reflexivity.
    + rewrite <- (sel_z3 sel Hs). change (sel z3 :: map sel prev) with (map sel (z3 :: prev)).
      rewrite skipn_map. reflexivity.
  - intros Hy. destruct Hrel as [(_ & Hl & _) | (Hy0 & _)]; [|lia].
    rewrite map_length in Hl. rewrite skipn_length. cbn [length]. rewrite Hl. lia.
Qed.

Lemma push3_eq : forall prev cl0 cl1 cl2 x cur a b c, 0 <= x ->
  [t87_push (comp_of prev p3_0 cl0 x cur) a; t87_push (comp_of prev p3_1 cl1 x cur) b;
   t87_push (comp_of prev p3_2 cl2 x cur) c] = cs3 prev cl0 cl1 cl2 (x + 1) ((a, b, c) :: cur).
Proof.
  intros. unfold cs3, comp_of, t87_push. cbn [tc_win tc_cur map p3_0 p3_1 p3_2 fst snd].
  rewrite !tl_skipn'. replace (Z.to_nat (x + 1)) with (S (Z.to_nat x)) by lia. reflexivity.
Qed.

Lemma map_repeat' : forall (A B : Type) (f : A -> B) a n, map f (repeat a n) = repeat (f a) n.
Proof. intros. induction n; cbn; [reflexivity | rewrite IHn; reflexivity]. Qed.

Lemma map_push_n3 : forall sel n v l, map sel (push_n3 n v l) = push_n n (sel v) (map sel l).
Proof. intros. rewrite push_n3_repeat, push_n_repeat, map_app, map_repeat'. reflexivity. Qed.

Lemma pushrun3_eq : forall prev cl0 cl1 cl2 x cur n a b c, 0 <= x ->
  [t87_push_run n (comp_of prev p3_0 cl0 x cur) a; t87_push_run n (comp_of prev p3_1 cl1 x cur) b;
   t87_push_run n (comp_of prev p3_2 cl2 x cur) c] = cs3 prev cl0 cl1 cl2 (x + Z.of_nat n) (push_n3 n (a, b, c) cur).
Proof.
  intros. unfold cs3, comp_of. rewrite !t87_push_run_spec, !skipn_skipn_add', !map_push_n3.
  replace (Z.to_nat (x + Z.of_nat n)) with (Z.to_nat x + n)%nat by lia. reflexivity.
Qed.

Section T87Line3.
  Variables (P near : Z).
  Hypothesis HP : 2 <= P <= 16.
  Hypothesis Hnear : 0 <= near <= near_max P.
  Let p := jls_params P near.

  Lemma t87_regular_i_step : forall st t xs ra rb rc rd ops st1 v,
    sinv st -> st_rel t st -> in_range P xs ->
    regular_enc_i PkNear p st (context_qs p ra rb rc rd) ra rb rc xs = Some (ops, st1, v) ->
    exists t',
      (forall rest, t87_regular p t ra rb rc rd (ops_bits ops ++ rest) = Some (v, t', rest)) /\
      sinv st1 /\ st_rel t' st1 /\ in_range P v.
  Proof.
    intros st t xs ra rb rc rd ops st1 v Hsi Hsr Hxs H.
    unfold regular_enc_i in H.
    destruct (ctx_index_in_range PkNear _ (context_qs_range p ra rb rc rd)) as [Hci _]. rewrite Hci in H.
    destruct (regular_enc PkNear true p (nth (Z.to_nat (Z.abs (context_qs p ra rb rc rd))) (js_ctxs st) (mkCtx 0 0 0 0))
                (context_qs p ra rb rc rd) ra rb rc xs) as [[ops' c'] stored] eqn:E.
    inversion H; subst ops' st1 stored.
    destruct (t87_regular_step' P near HP Hnear st t xs ra rb rc rd ops c' v Hsi Hsr Hxs E) as (t' & Hd & Hsi' & Hsr').
    destruct (regular_lockstep P near PkNear HP Hnear I true _ _ ra rb rc xs [] ops c' v (fun _ => eq_refl) Hxs E)
      as (_ & _ & Hv & _).
    exists t'. split; [exact Hd|]. split; [exact Hsi'|]. split; [exact Hsr' | exact Hv].
  Qed.

  Lemma t87_interrupt_i_step : forall st t xs left above iops st2 recon rest,
    sinv st -> st_rel t st -> in_range P above -> in_range P xs ->
    interrupt_enc_i PkNear p st xs left above = (iops, st2, recon) ->
    exists t2,
      t87_interruption p t 0 left above (ops_bits iops ++ rest) = Some (recon, t2, rest) /\
      sinv st2 /\ st_rel t2 st2 /\ in_range P recon /\ js_ri st2 = js_ri st.
  Proof.
    intros st t xs left above iops st2 recon rest (Hok & Hb & Hlen) (Hc & Hr0 & Hr1 & Hri) Hab Hxs Henc.
    pose proof Hok as (Hrir & Hok0 & Hty0 & Hok1 & Hty1).
    destruct (pfacts P near HP Hnear) as (Fmv & Fnear & Fn0 & Fn2 & FR & FR2 & _). fold p in Fmv, Fnear, Fn0, Fn2, FR, FR2.
    unfold in_range in *.
    unfold interrupt_enc_i in Henc. cbv zeta in Henc.
    set (sg := signInt (above - left)) in *.
    pose proof (interruption_core P near PkNear HP Hnear I (js_ri st) (js_rc0 st) xs above sg rest Hrir (or_introl Hty0) Hok0
                  (signInt_cases _) Hab Hxs ltac:(intro T; rewrite Hty0 in T; discriminate)) as Hcore.
    cbv zeta in Hcore. fold p in Hcore.
    set (e := pk_error PkNear p (sg * (xs - above))) in *.
    destruct (EncodeRunInterruption p (js_ri st) (js_rc0 st) e) as [ops c0] eqn:Eenc.
    cbn [fst snd] in Hcore. destruct Hcore as (_ & _ & Hok' & Hty' & He & Her & Hb1 & Hb2).
    inversion Henc; subst iops st2 recon. clear Henc.
    assert (Hd : - jp_maxval p <= sg * (xs - above) <= jp_maxval p).
    { destruct (signInt_cases (above - left)) as [S|S]; fold sg in S; rewrite S; lia. }
    destruct (quantize_spec p P HP Fmv Fn0 Fn2 FR _ Hd) as [_ Hq2].
    assert (Heabs : 2 * Z.abs e <= jp_range p).
    { rewrite He. apply (ModuloRange_abs p P HP Fmv Fn0 Fn2 FR); exact Hq2. }
    pose proof (t87_interruption_roundtrip P near t (js_rc0 st) e left above rest HP Hnear) as Ht.
    cbv zeta in Ht. fold p in Ht. rewrite Hty0 in Ht. cbn [Z.eqb Pos.eqb andb] in Ht.
    rewrite Hri in Ht. rewrite Eenc in Ht. cbn [fst snd] in Ht.
    destruct (Ht (or_introl eq_refl) Hr0 Hok0 Hrir ltac:(intro T; discriminate) Heabs ltac:(lia)) as (u' & Hdec & Hrel').
    assert (Hsg : (if left >? above then -1 else 1) = sg).
    { unfold sg, signInt. destruct (Z.gtb_spec left above); destruct (Z.ltb_spec (above - left) 0); lia. }
    rewrite Hsg in Hdec. replace (sg * e) with (e * sg) in Hdec by ring.
    eexists. split; [exact Hdec|].
    split.
    { split; [|split; [exact Hb | exact Hlen]]. unfold jst_ok. cbn [js_ri js_rc0 js_rc1]. rewrite Hty', Hty0. auto. }
    split.
    { unfold st_rel. cbn [ts_ctx ts_r365 ts_r366 ts_runindex js_ctxs js_rc0 js_rc1 js_ri]. auto. }
    split; [replace (e * sg) with (sg * e) by ring; lia | reflexivity].
  Qed.

  Lemma t87_interrupt_i_step' : forall st t xs left above iops st2 recon,
    sinv st -> st_rel t st -> in_range P above -> in_range P xs ->
    interrupt_enc_i PkNear p st xs left above = (iops, st2, recon) ->
    exists t2,
      (forall rest, t87_interruption p t 0 left above (ops_bits iops ++ rest) = Some (recon, t2, rest)) /\
      sinv st2 /\ st_rel t2 st2 /\ in_range P recon /\ js_ri st2 = js_ri st.
  Proof.
    intros st t xs left above iops st2 recon Hsi Hsr Hab Hxs Henc.
    destruct (t87_interrupt_i_step st t xs left above iops st2 recon [] Hsi Hsr Hab Hxs Henc) as (t2 & _ & Hsi2 & Hsr2 & Hrec & Hri).
    exists t2. split; [|split; [exact Hsi2|split; [exact Hsr2|split; [exact Hrec|exact Hri]]]].
    intros rest.
    destruct (t87_interrupt_i_step st t xs left above iops st2 recon rest Hsi Hsr Hab Hxs Henc) as (t2' & Hd & _ & Hsr2' & _).
    rewrite Hd. rewrite (st_rel_inj _ _ _ Hsr2' Hsr2). reflexivity.
  Qed.
End T87Line3.
Section T87Line3b.
  Variables (P near : Z).
  Hypothesis HP : 2 <= P <= 16.
  Hypothesis Hnear : 0 <= near <= near_max P.
  Let p := jls_params P near.
  Variables (w y : Z) (plf pplf : px3) (prev : list px3) (cl0 cl1 cl2 : Z).
  Hypothesis Hw : 1 <= w.
  Hypothesis Hrel0 : line_rel w y (p3_0 plf) (p3_0 pplf) (map p3_0 prev) cl0.
  Hypothesis Hrel1 : line_rel w y (p3_1 plf) (p3_1 pplf) (map p3_1 prev) cl1.
  Hypothesis Hrel2 : line_rel w y (p3_2 plf) (p3_2 pplf) (map p3_2 prev) cl2.
  Hypothesis Hplf : in_range3 P plf.
  Hypothesis Hprev : Forall (in_range3 P) prev.

  Let G3 := z3 :: prev.
  Let CS := cs3 prev cl0 cl1 cl2.

  Lemma G3_range : Forall (in_range3 P) G3.
  Proof. unfold G3. constructor; [apply z3_in_range; exact HP | exact Hprev]. Qed.

  Lemma s0 : is_sel p3_0. Proof. left; reflexivity. Qed.
  Lemma s1 : is_sel p3_1. Proof. right; left; reflexivity. Qed.
  Lemma s2 : is_sel p3_2. Proof. right; right; reflexivity. Qed.

  Lemma t87_line3_lockstep : forall fuel st t x cur inp ops_rev st' cur' ops_rev',
    sinv st -> st_rel t st -> 0 <= x -> x + Z.of_nat (length inp) = w -> length cur = Z.to_nat x ->
    Forall (in_range3 P) inp -> Forall (in_range3 P) cur ->
    enc_line3 fuel PkNear p w y plf pplf st x (skipn (Z.to_nat x) G3) cur inp ops_rev = Ok (st', cur', ops_rev') ->
    exists ops t',
      ops_rev' = rev ops ++ ops_rev /\ sinv st' /\ st_rel t' st' /\ Forall (in_range3 P) cur' /\
      length cur' = Z.to_nat w /\
      forall rest, t87_line fuel p false w t x (CS x cur) (ops_bits ops ++ rest) = Some (CS w cur', t', rest).
  Proof.
    pose proof (pow2_bounds P HP) as Hpb. pose proof (z3_in_range P HP) as Hz3.
    induction fuel as [|f IH]; intros st t x cur inp ops_rev st' cur' ops_rev' Hsi Hsr Hx0 Hxw Hlc Hinp Hcur Henc.
    - destruct inp as [|xs inp']; cbn [enc_line3] in Henc; [|discriminate].
      inversion Henc; subst st' cur' ops_rev'. exists [], t. cbn [rev app ops_bits length] in *.
      assert (x = w) by lia. subst x.
      split; [reflexivity|]. split; [exact Hsi|]. split; [exact Hsr|]. split; [exact Hcur|]. split; [exact Hlc|].
      intros rest. cbn [t87_line]. destruct (Z.geb_spec w w); [reflexivity | lia].
    - destruct inp as [|xs inp']; cbn [enc_line3] in Henc.
      + inversion Henc; subst st' cur' ops_rev'. exists [], t. cbn [rev app ops_bits length] in *.
        assert (x = w) by lia. subst x.
        split; [reflexivity|]. split; [exact Hsi|]. split; [exact Hsr|]. split; [exact Hcur|]. split; [exact Hlc|].
        intros rest. cbn [t87_line]. destruct (Z.geb_spec w w); [reflexivity | lia].
      + cbn [length] in Hxw. apply Forall_cons_iff in Hinp. destruct Hinp as [Hxs Hinp'].
        destruct Hxs as (Hxs0 & Hxs1 & Hxs2).
        change (match cur with l :: _ => l | [] => z3 end) with (hd3 cur) in Henc.
        set (left := hd3 cur) in *.
        assert (Hleft : in_range3 P left).
        { unfold left, hd3. destruct cur; [exact Hz3|]. inversion Hcur; assumption. }
        assert (Hxr : 0 <= x < w) by lia.
        pose proof (template3_eq w y plf pplf prev p3_0 cl0 x cur s0 Hw Hrel0 Hxr Hlc) as Ht0.
        pose proof (template3_eq w y plf pplf prev p3_1 cl1 x cur s1 Hw Hrel1 Hxr Hlc) as Ht1.
        pose proof (template3_eq w y plf pplf prev p3_2 cl2 x cur s2 Hw Hrel2 Hxr Hlc) as Ht2.
        fold left G3 in Ht0, Ht1, Ht2.
        assert (Hpw : Forall (in_range3 P) (skipn (Z.to_nat x) G3)) by (apply Forall_skipn; exact G3_range).
        destruct (nb3 w y x plf pplf left (skipn (Z.to_nat x) G3) p3_0) as [[[ra0 rb0] rc0] rd0] eqn:En0.
        destruct (nb3 w y x plf pplf left (skipn (Z.to_nat x) G3) p3_1) as [[[ra1 rb1] rc1] rd1] eqn:En1.
        destruct (nb3 w y x plf pplf left (skipn (Z.to_nat x) G3) p3_2) as [[[ra2 rb2] rc2] rd2] eqn:En2.
        destruct (nb3_range P HP w y plf pplf Hplf _ _ _ _ _ _ _ _ (or_introl eq_refl) Hleft Hpw En0) as [Hra0 _].
        destruct (nb3_range P HP w y plf pplf Hplf _ _ _ _ _ _ _ _ (or_intror (or_introl eq_refl)) Hleft Hpw En1) as [Hra1 _].
        destruct (nb3_range P HP w y plf pplf Hplf _ _ _ _ _ _ _ _ (or_intror (or_intror eq_refl)) Hleft Hpw En2) as [Hra2 _].
        unfold qs_of in Henc. cbn [fst snd] in Henc.
        set (q0 := context_qs p ra0 rb0 rc0 rd0) in *.
        set (q1 := context_qs p ra1 rb1 rc1 rd1) in *.
        set (q2 := context_qs p ra2 rb2 rc2 rd2) in *.
        assert (Hfl : forallb (t87_flat p) (CS x cur) = (q0 =? 0) && (q1 =? 0) && (q2 =? 0)).
        { unfold CS, cs3. cbn [forallb]. unfold t87_flat. rewrite Ht0, Ht1, Ht2.
          unfold p. rewrite !(flat_iff_qs P near HP Hnear). fold p q0 q1 q2.
          rewrite andb_true_r, andb_assoc. reflexivity. }
        pose proof Hsi as (Hok & Hb & Hlen). pose proof Hok as (Hrir & Hok0 & Hty0 & Hok1 & Hty1).
        pose proof Hsr as (Hc & Hr0 & Hr1 & Hri).
        destruct ((q0 =? 0) && (q1 =? 0) && (q2 =? 0)) eqn:Eq.
        * (* run mode *)
          set (lv := (ra0, ra1, ra2) : px3) in *.
          assert (Hlv : in_range3 P lv) by (unfold lv, in_range3; cbn; auto).
          destruct (run_count3 PkNear p lv (xs :: inp') 0 0) as [[n m] rest0] eqn:Erc.
          destruct (run_count3_spec P near PkNear HP Hnear I _ _ _ _ _ _ _ Erc) as (run & Hsplit & Hm & Hn & Hrun).
          cbn [Nat.add] in Hm. rewrite Z.add_0_l in Hn. subst m n.
          assert (Hlen2 : Z.of_nat (length (xs :: inp')) = Z.of_nat (length run) + Z.of_nat (length rest0)).
          { rewrite Hsplit, app_length. lia. }
          cbn [length] in Hlen2.
          set (remaining := w - x) in *.
          assert (Hrem : 1 <= remaining) by (unfold remaining; lia).
          assert (Heol : (Z.of_nat (length run) =? remaining) = match rest0 with [] => true | _ :: _ => false end).
          { unfold remaining. destruct rest0; cbn [length] in Hlen2; [apply Z.eqb_eq | apply Z.eqb_neq]; lia. }
          destruct (run_roundtrip (S (length run)) (Z.of_nat (length run)) remaining (js_ri st) [] Hrir
                      ltac:(unfold remaining; lia) Hrem ltac:(lia)) as (rops & ri' & Hrl & Hri' & _ & _).
          pose proof Hrl as Hrl0. rewrite Heol in Hrl. rewrite Hrl in Henc.
          assert (Ht87rl : forall R, t87_run_length (ops_bits rops ++ R) remaining 0 (ts_runindex t) =
                                     Some (Z.of_nat (length run), (Z.of_nat (length run) =? remaining), ri', R)).
          { intros R. rewrite Hri. apply (t87_run_length_roundtrip (S (length run))); try assumption; unfold remaining; lia. }
          assert (Hsi1 : sinv (set_ri st ri')).
          { split; [apply jst_ok_set_ri; assumption | split; assumption]. }
          set (t1 := mkT87St (ts_ctx t) (ts_r365 t) (ts_r366 t) ri').
          assert (Hsr1 : st_rel t1 (set_ri st ri')).
          { unfold st_rel, t1, set_ri. cbn. split; [exact Hc|]. split; [exact Hr0|]. split; [exact Hr1|reflexivity]. }
          assert (HrunR : Forall (in_range3 P) (push_n3 (length run) lv cur)).
          { rewrite push_n3_repeat. apply Forall_app. split; [apply Forall_repeat; exact Hlv | exact Hcur]. }
          assert (Hlc1 : length (push_n3 (length run) lv cur) = Z.to_nat (x + Z.of_nat (length run))).
          { rewrite push_n3_repeat, app_length, repeat_length, Hlc. lia. }
          assert (Hrv0 : t87_run_value (comp_of prev p3_0 cl0 x cur) = ra0) by (unfold t87_run_value; rewrite Ht0; reflexivity).
          assert (Hrv1 : t87_run_value (comp_of prev p3_1 cl1 x cur) = ra1) by (unfold t87_run_value; rewrite Ht1; reflexivity).
          assert (Hrv2 : t87_run_value (comp_of prev p3_2 cl2 x cur) = ra2) by (unfold t87_run_value; rewrite Ht2; reflexivity).
          destruct rest0 as [|xi rest'].
          -- inversion Henc; subst st' cur' ops_rev'.
             exists rops, t1.
             split; [rewrite rev_append_rev'; reflexivity|]. split; [exact Hsi1|]. split; [exact Hsr1|].
             split; [exact HrunR|]. split; [rewrite Hlc1; f_equal; cbn [length] in Hlen2; lia|].
             intros rest. cbn [t87_line]. destruct (Z.geb_spec x w); [lia|].
             rewrite Hfl. fold remaining. rewrite Ht87rl. cbv zeta.
             assert (Hall : (Z.of_nat (length run) =? remaining) = true) by (rewrite Heol; reflexivity).
             rewrite Hall. unfold CS at 1. unfold cs3. cbn [map]. rewrite Hrv0, Hrv1, Hrv2, Nat2Z.id.
             rewrite (pushrun3_eq prev cl0 cl1 cl2 x cur (length run) ra0 ra1 ra2 Hx0).
             fold lv. cbn [length] in Hlen2. replace (x + Z.of_nat (length run)) with w by lia. reflexivity.
          -- assert (Hrest_rng : Forall (in_range3 P) (xi :: rest')).
             { assert (HF : Forall (in_range3 P) (xs :: inp')) by (constructor; [unfold in_range3; auto | assumption]).
               rewrite Hsplit in HF. apply Forall_app in HF. destruct HF; assumption. }
             apply Forall_cons_iff in Hrest_rng. destruct Hrest_rng as [Hxi Hrest'].
             destruct Hxi as (Hxi0 & Hxi1 & Hxi2).
             cbn [length] in Hlen2.
             set (nr := length run) in *.
             set (pw1 := skipn nr (skipn (Z.to_nat x) G3)) in *.
             set (xi_pos := x + Z.of_nat nr) in *.
             assert (Hpw1 : pw1 = skipn (Z.to_nat xi_pos) G3).
             { unfold pw1, xi_pos. rewrite skipn_skipn_add'. f_equal. lia. }
             assert (Hpw1r : Forall (in_range3 P) pw1) by (rewrite Hpw1; apply Forall_skipn; exact G3_range).
             set (cur1 := push_n3 nr lv cur) in *.
             assert (Hxr1 : 0 <= xi_pos < w) by (unfold xi_pos; lia).
             pose proof (template3_eq w y plf pplf prev p3_0 cl0 xi_pos cur1 s0 Hw Hrel0 Hxr1 Hlc1) as Hi0.
             pose proof (template3_eq w y plf pplf prev p3_1 cl1 xi_pos cur1 s1 Hw Hrel1 Hxr1 Hlc1) as Hi1.
             pose proof (template3_eq w y plf pplf prev p3_2 cl2 xi_pos cur1 s2 Hw Hrel2 Hxr1 Hlc1) as Hi2.
             fold G3 in Hi0, Hi1, Hi2. rewrite <- Hpw1 in Hi0, Hi1, Hi2.
             destruct (nb3 w y xi_pos plf pplf lv pw1 p3_0) as [[[ia0 ib0] ic0] id0] eqn:Ei0.
             destruct (nb3 w y xi_pos plf pplf lv pw1 p3_1) as [[[ia1 ib1] ic1] id1] eqn:Ei1.
             destruct (nb3 w y xi_pos plf pplf lv pw1 p3_2) as [[[ia2 ib2] ic2] id2] eqn:Ei2.
             rewrite (nb3_left w y xi_pos plf pplf (hd3 cur1) lv pw1 p3_0 _ _ _ _ Ei0) in Hi0.
             rewrite (nb3_left w y xi_pos plf pplf (hd3 cur1) lv pw1 p3_1 _ _ _ _ Ei1) in Hi1.
             rewrite (nb3_left w y xi_pos plf pplf (hd3 cur1) lv pw1 p3_2 _ _ _ _ Ei2) in Hi2.
             pose proof (nb3_ra _ _ _ _ _ _ _ _ _ _ _ _ En0) as R0.
             pose proof (nb3_ra _ _ _ _ _ _ _ _ _ _ _ _ En1) as R1.
             pose proof (nb3_ra _ _ _ _ _ _ _ _ _ _ _ _ En2) as R2.
             assert (Hhd : xi_pos <> 0 -> hd3 cur1 = (if x =? 0 then lv else if (0 <? Z.of_nat nr) then lv else left)).
             { intros NE. unfold cur1. destruct (Nat.eq_dec nr 0) as [Z0|NZ0].
               - rewrite Z0. cbn [push_n3 Z.of_nat Z.ltb Z.compare]. destruct (Z.eqb_spec x 0); [unfold xi_pos in NE; lia|]. reflexivity.
               - rewrite push_n3_repeat. destruct nr as [|nr'] eqn:Enr; [contradiction|]. cbn [repeat app hd3].
                 destruct (Z.eqb_spec x 0); [reflexivity|]. destruct (Z.ltb_spec 0 (Z.of_nat (S nr'))); [reflexivity|lia]. }
             assert (Hh0 : (if xi_pos =? 0 then p3_0 plf else p3_0 (hd3 cur1)) = ra0).
             { destruct (Z.eqb_spec xi_pos 0) as [E0|NE0].
               - assert (Hx00 : x = 0) by (unfold xi_pos in E0; lia). rewrite Hx00 in R0. cbn [Z.eqb] in R0. symmetry; exact R0.
               - rewrite (Hhd NE0). destruct (Z.eqb_spec x 0); [reflexivity|]. destruct (0 <? Z.of_nat nr); [reflexivity|]. symmetry; exact R0. }
             assert (Hh1 : (if xi_pos =? 0 then p3_1 plf else p3_1 (hd3 cur1)) = ra1).
             { destruct (Z.eqb_spec xi_pos 0) as [E0|NE0].
               - assert (Hx00 : x = 0) by (unfold xi_pos in E0; lia). rewrite Hx00 in R1. cbn [Z.eqb] in R1. symmetry; exact R1.
               - rewrite (Hhd NE0). destruct (Z.eqb_spec x 0); [reflexivity|]. destruct (0 <? Z.of_nat nr); [reflexivity|]. symmetry; exact R1. }
             assert (Hh2 : (if xi_pos =? 0 then p3_2 plf else p3_2 (hd3 cur1)) = ra2).
             { destruct (Z.eqb_spec xi_pos 0) as [E0|NE0].
               - assert (Hx00 : x = 0) by (unfold xi_pos in E0; lia). rewrite Hx00 in R2. cbn [Z.eqb] in R2. symmetry; exact R2.
               - rewrite (Hhd NE0). destruct (Z.eqb_spec x 0); [reflexivity|]. destruct (0 <? Z.of_nat nr); [reflexivity|]. symmetry; exact R2. }
             rewrite Hh0 in Hi0. rewrite Hh1 in Hi1. rewrite Hh2 in Hi2.
             destruct (nb3_range P HP w y plf pplf Hplf _ _ _ _ _ _ _ _ (or_introl eq_refl) Hlv Hpw1r Ei0) as [_ Hib0].
             destruct (nb3_range P HP w y plf pplf Hplf _ _ _ _ _ _ _ _ (or_intror (or_introl eq_refl)) Hlv Hpw1r Ei1) as [_ Hib1].
             destruct (nb3_range P HP w y plf pplf Hplf _ _ _ _ _ _ _ _ (or_intror (or_intror eq_refl)) Hlv Hpw1r Ei2) as [_ Hib2].
             cbn [fst snd] in Henc.
             destruct (interrupt_enc_i PkNear p (set_ri st ri') (p3_0 xi) (p3_0 lv) ib0) as [[o0 sa] r0] eqn:E0.
             destruct (interrupt_enc_i PkNear p sa (p3_1 xi) (p3_1 lv) ib1) as [[o1 sb] r1] eqn:E1.
             destruct (interrupt_enc_i PkNear p sb (p3_2 xi) (p3_2 lv) ib2) as [[o2 sc] r2] eqn:E2.
             destruct (t87_interrupt_i_step' P near HP Hnear _ t1 _ _ _ _ _ _ Hsi1 Hsr1 Hib0 Hxi0 E0) as (ta & Hda & Hsia & Hsra & Hr0' & Hria).
             destruct (t87_interrupt_i_step' P near HP Hnear _ ta _ _ _ _ _ _ Hsia Hsra Hib1 Hxi1 E1) as (tb & Hdb & Hsib & Hsrb & Hr1' & Hrib).
             destruct (t87_interrupt_i_step' P near HP Hnear _ tb _ _ _ _ _ _ Hsib Hsrb Hib2 Hxi2 E2) as (tc & Hdc & Hsic & Hsrc & Hr2' & Hric).
             fold p in Hda, Hdb, Hdc. unfold lv in Hda, Hdb, Hdc. cbn [p3_0 p3_1 p3_2 fst snd] in Hda, Hdb, Hdc.
             assert (Hsi3 : sinv (set_ri sc (dec_run_index (js_ri sc)))).
             { destruct Hsic as (Hok2 & Hb2 & Hl2). split; [|split; assumption].
               apply jst_ok_set_ri; [exact Hok2|]. apply dec_run_index_range. destruct Hok2; assumption. }
             set (t3 := mkT87St (ts_ctx tc) (ts_r365 tc) (ts_r366 tc)
                                (if ts_runindex tc >? 0 then ts_runindex tc - 1 else 0)).
             assert (Hsr3 : st_rel t3 (set_ri sc (dec_run_index (js_ri sc)))).
             { destruct Hsrc as (A1 & A2 & A3 & A4). unfold st_rel, t3, set_ri. cbn.
               split; [exact A1|]. split; [exact A2|]. split; [exact A3|].
               rewrite A4. unfold dec_run_index. destruct Hsic as ((Hr & _) & _).
               destruct (Z.gtb_spec (js_ri sc) 0); lia. }
             assert (Hcur2 : Forall (in_range3 P) (((r0, r1, r2) : px3) :: cur1)).
             { constructor; [unfold in_range3; cbn; auto | exact HrunR]. }
             assert (Hlc2 : length (((r0, r1, r2) : px3) :: cur1) = Z.to_nat (xi_pos + 1)) by (cbn [length]; rewrite Hlc1; lia).
             assert (Hx2 : 0 <= xi_pos + 1) by lia.
             assert (Hxw2 : xi_pos + 1 + Z.of_nat (length rest') = w) by (unfold xi_pos; lia).
             replace (tl pw1) with (skipn (Z.to_nat (xi_pos + 1)) G3) in Henc
               by (rewrite Hpw1, tl_skipn'; f_equal; lia).
             destruct (IH _ t3 _ _ _ _ _ _ _ Hsi3 Hsr3 Hx2 Hxw2 Hlc2 Hrest' Hcur2 Henc)
               as (ops2 & t' & Hops & Hsi' & Hsr' & Hcr' & Hlc' & Hdec).
             exists (rops ++ o0 ++ o1 ++ o2 ++ ops2), t'.
             split; [rewrite Hops, !rev_append_rev', !rev_app_distr, <- !app_assoc; reflexivity|].
             split; [exact Hsi'|]. split; [exact Hsr'|]. split; [exact Hcr'|]. split; [exact Hlc'|].
             intros rest. cbn [t87_line]. destruct (Z.geb_spec x w); [lia|].
             rewrite Hfl. fold remaining. rewrite !ops_bits_app, <- !app_assoc. rewrite Ht87rl. cbv zeta.
             assert (Hnall : (Z.of_nat nr =? remaining) = false) by (rewrite Heol; reflexivity).
             rewrite Hnall. unfold CS at 1. unfold cs3 at 1. cbn [map]. rewrite Hrv0, Hrv1, Hrv2, Nat2Z.id.
             rewrite (pushrun3_eq prev cl0 cl1 cl2 x cur nr ra0 ra1 ra2 Hx0).
             fold lv. fold cur1. fold xi_pos. fold t1.
             unfold cs3 at 1. cbn [t87_interrupt_all]. rewrite Hi0, Hi1, Hi2. cbv beta iota. cbn [andb].
             rewrite Hda. cbv beta iota. rewrite Hdb. cbv beta iota. rewrite Hdc. cbv beta iota.
             fold t3. rewrite (push3_eq prev cl0 cl1 cl2 xi_pos cur1 r0 r1 r2 ltac:(lia)). apply Hdec.
        * (* regular mode, three samples *)
          destruct (regular_enc_i PkNear p st q0 ra0 rb0 rc0 (p3_0 xs)) as [[[o0 st0] v0]|] eqn:E0; [|discriminate].
          destruct (regular_enc_i PkNear p st0 q1 ra1 rb1 rc1 (p3_1 xs)) as [[[o1 st1] v1]|] eqn:E1; [|discriminate].
          destruct (regular_enc_i PkNear p st1 q2 ra2 rb2 rc2 (p3_2 xs)) as [[[o2 st2] v2]|] eqn:E2; [|discriminate].
          destruct (t87_regular_i_step P near HP Hnear _ t _ _ _ _ _ _ _ _ Hsi Hsr Hxs0 E0) as (t0 & Hd0 & Hsi0 & Hsr0 & Hv0).
          destruct (t87_regular_i_step P near HP Hnear _ t0 _ _ _ _ _ _ _ _ Hsi0 Hsr0 Hxs1 E1) as (t1 & Hd1 & Hsi1 & Hsr1 & Hv1).
          destruct (t87_regular_i_step P near HP Hnear _ t1 _ _ _ _ _ _ _ _ Hsi1 Hsr1 Hxs2 E2) as (t2 & Hd2 & Hsi2 & Hsr2 & Hv2).
          fold p in Hd0, Hd1, Hd2.
          assert (Hcur2 : Forall (in_range3 P) ((v0, v1, v2) :: cur)).
          { constructor; [unfold in_range3; cbn; auto | assumption]. }
          assert (Hlc2 : length (((v0, v1, v2) : px3) :: cur) = Z.to_nat (x + 1)) by (cbn [length]; rewrite Hlc; lia).
          assert (Hx1 : 0 <= x + 1) by lia.
          assert (Hlen2 : x + 1 + Z.of_nat (length inp') = w) by lia.
          replace (tl (skipn (Z.to_nat x) G3)) with (skipn (Z.to_nat (x + 1)) G3) in Henc
            by (rewrite tl_skipn'; f_equal; lia).
          destruct (IH _ t2 _ _ _ _ _ _ _ Hsi2 Hsr2 Hx1 Hlen2 Hlc2 Hinp' Hcur2 Henc)
            as (ops2 & t' & Hops & Hsi' & Hsr' & Hcr' & Hlc' & Hdec).
          exists (o0 ++ o1 ++ o2 ++ ops2), t'.
          split; [rewrite Hops, !rev_append_rev', !rev_app_distr, <- !app_assoc; reflexivity|].
          split; [exact Hsi'|]. split; [exact Hsr'|]. split; [exact Hcr'|]. split; [exact Hlc'|].
          intros rest. cbn [t87_line]. destruct (Z.geb_spec x w); [lia|].
          rewrite Hfl. 
          rewrite !ops_bits_app, <- !app_assoc.
          unfold CS at 1. unfold cs3. cbn [t87_regular_all].
          rewrite Ht0, Ht1, Ht2. cbv beta iota.
          rewrite Hd0. cbv beta iota. rewrite Hd1. cbv beta iota. rewrite Hd2. cbv beta iota.
          rewrite (push3_eq prev cl0 cl1 cl2 x cur v0 v1 v2 Hx0). apply Hdec.
  Qed.
End T87Line3b.
(* ---------- all lines of a sample-interleaved scan ---------- *)

Definition split3 (l : list px3) : list (list Z) := [map p3_0 l; map p3_1 l; map p3_2 l].

Lemma sel_line_first : forall sel l, is_sel sel -> sel (line_first3 l) = line_first (map sel l).
Proof. intros sel [|a l] Hs; cbn; [apply sel_z3; exact Hs | reflexivity]. Qed.

Lemma line_rel_next : forall w y sel plf pplf prev cl recs,
  is_sel sel -> line_rel w y (sel plf) (sel pplf) (map sel prev) cl -> length recs = Z.to_nat w ->
  line_rel w (y + 1) (sel (line_first3 recs)) (sel plf) (map sel recs) (t87_e0 (map sel prev)).
Proof.
  intros w y sel plf pplf prev cl recs Hs Hrel Hl. left.
  split; [destruct Hrel as [(Hy & _) | (Hy & _)]; lia|]. split; [rewrite map_length; exact Hl|].
  split; [apply sel_line_first; exact Hs|].
  destruct Hrel as [(_ & _ & Hp & _) | (_ & Hpv & Hp & _)].
  - rewrite Hp. destruct (map sel prev); reflexivity.
  - rewrite Hpv, Hp. reflexivity.
Qed.

Section T87Lines3.
  Variables (P near : Z).
  Hypothesis HP : 2 <= P <= 16.
  Hypothesis Hnear : 0 <= near <= near_max P.
  Let p := jls_params P near.
  Variables (w : Z) (wn : nat).
  Hypothesis Hw : w = Z.of_nat wn.
  Hypothesis Hw1 : 1 <= w.

  Lemma t87_lines3_lockstep : forall hfuel y plf pplf st t prev cl0 cl1 cl2 pix ops_rev ops_rev',
    sinv st -> st_rel t st ->
    line_rel w y (p3_0 plf) (p3_0 pplf) (map p3_0 prev) cl0 ->
    line_rel w y (p3_1 plf) (p3_1 pplf) (map p3_1 prev) cl1 ->
    line_rel w y (p3_2 plf) (p3_2 pplf) (map p3_2 prev) cl2 ->
    in_range3 P plf -> Forall (in_range3 P) prev -> Forall (in_range3 P) pix ->
    length pix = (hfuel * wn)%nat ->
    enc_lines3 hfuel PkNear p w wn y plf pplf st prev pix ops_rev = Ok ops_rev' ->
    exists ops lines,
      ops_rev' = rev ops ++ ops_rev /\
      Forall (fun l => length l = wn) lines /\
      (forall rest, dec_lines3 hfuel PkNear p w wn y plf pplf st prev (ops_bits ops ++ rest) = Ok lines) /\
      (forall rest, t87_lines hfuel p false w wn t
                      [(map p3_0 prev, cl0); (map p3_1 prev, cl1); (map p3_2 prev, cl2)] (ops_bits ops ++ rest) =
                    Some (map split3 lines)).
  Proof.
    pose proof (z3_in_range P HP) as Hz3.
    induction hfuel as [|hf IH];
      intros y plf pplf st t prev cl0 cl1 cl2 pix ops_rev ops_rev' Hsi Hsr Hrel0 Hrel1 Hrel2 Hplf Hprev Hpix Hlen Henc;
      cbn [enc_lines3] in Henc.
    - inversion Henc; subst ops_rev'. exists [], []. split; [reflexivity|]. split; [constructor|].
      split; intros rest; reflexivity.
    - destruct (enc_line3 (S wn) PkNear p w y plf pplf st 0 (z3 :: prev) [] (firstn wn pix) ops_rev)
        as [[[st1 cur_rev] ops1]| | |] eqn:Eline; try discriminate.
      assert (Hge : (wn <= length pix)%nat) by (rewrite Hlen; cbn; lia).
      destruct (firstn_skipn_length _ wn pix Hge) as [Hf Hs].
      assert (Hpw : Forall (in_range3 P) (z3 :: prev)) by (constructor; assumption).
      pose proof Hsi as (Hok & _).
      assert (Hx0 : 0 <= 0) by lia.
      assert (Hxw : 0 + Z.of_nat (length (firstn wn pix)) = w) by (rewrite Hf; lia).
      destruct (line3_lockstep P near PkNear HP Hnear I w y plf pplf Hplf (S wn) st 0 (z3 :: prev) []
                  (firstn wn pix) ops_rev st1 cur_rev ops1 Hok Hx0 Hxw
                  (Forall_firstn _ _ wn pix Hpix) ltac:(constructor) Hpw Eline)
        as (ops_a & recs & Hops1 & Hcur & Hrelc & Hrng & Hst1 & Hwfa & Hdec).
      destruct (t87_line3_lockstep P near HP Hnear w y plf pplf prev cl0 cl1 cl2 Hw1 Hrel0 Hrel1 Hrel2 Hplf Hprev
                  (S wn) st t 0 [] (firstn wn pix) ops_rev st1 cur_rev ops1 Hsi Hsr Hx0 Hxw eq_refl
                  (Forall_firstn _ _ wn pix Hpix) ltac:(constructor) Eline)
        as (ops_a' & t1 & Hops1' & Hsi1 & Hsr1 & Hcr & Hlcr & Hdec').
      assert (ops_a' = ops_a).
      { rewrite Hops1 in Hops1'. apply app_inv_tail in Hops1'. apply (f_equal (@rev wop)) in Hops1'.
        rewrite !rev_involutive in Hops1'. symmetry. exact Hops1'. }
      subst ops_a'.
      rewrite app_nil_r in Hcur.
      assert (Hcurl : frev cur_rev = recs) by (rewrite frev_rev, Hcur, rev_involutive; reflexivity).
      rewrite Hcurl in Henc.
      assert (Hreclen : length recs = wn).
      { apply Forall2_len in Hrelc. rewrite <- Hrelc. exact Hf. }
      assert (Hreclen' : length recs = Z.to_nat w) by (rewrite Hreclen; lia).
      assert (Hfirst : in_range3 P (line_first3 recs)).
      { unfold line_first3. destruct recs; [exact Hz3 | inversion Hrng; assumption]. }
      destruct (IH (y + 1) (line_first3 recs) plf st1 t1 recs _ _ _ (skipn wn pix) ops1 ops_rev' Hsi1 Hsr1
                  (line_rel_next w y p3_0 plf pplf prev cl0 recs s0 Hrel0 Hreclen')
                  (line_rel_next w y p3_1 plf pplf prev cl1 recs s1 Hrel1 Hreclen')
                  (line_rel_next w y p3_2 plf pplf prev cl2 recs s2 Hrel2 Hreclen')
                  Hfirst Hrng (Forall_skipn _ _ wn pix Hpix) ltac:(rewrite Hs, Hlen; cbn; lia) Henc)
        as (ops_b & lines & Hops & Hlw & Hdec2 & Hdec2').
      exists (ops_a ++ ops_b), (recs :: lines).
      split; [rewrite Hops, Hops1, rev_app_distr, app_assoc; reflexivity|].
      split; [constructor; assumption|].
      split.
      + intros rest. cbn [dec_lines3]. rewrite ops_bits_app, <- app_assoc.
        fold p in Hdec. rewrite (Hdec (ops_bits ops_b ++ rest)). rewrite Hcurl. rewrite Hdec2. reflexivity.
      + intros rest. cbn [t87_lines map fst snd]. rewrite ops_bits_app, <- app_assoc.
        change [mkT87Comp (t87_extend cl0 (map p3_0 prev)) []; mkT87Comp (t87_extend cl1 (map p3_1 prev)) [];
                mkT87Comp (t87_extend cl2 (map p3_2 prev)) []] with (cs3 prev cl0 cl1 cl2 0 []).
        fold p in Hdec'. rewrite (Hdec' (ops_bits ops_b ++ rest)).
        unfold cs3, comp_of. cbn [map combine fst snd tc_cur].
        rewrite (t87_rev_frev (map p3_0 cur_rev)), (t87_rev_frev (map p3_1 cur_rev)), (t87_rev_frev (map p3_2 cur_rev)). rewrite !frev_rev. rewrite <- !map_rev.
        assert (Hrv : rev cur_rev = recs) by (rewrite <- frev_rev; exact Hcurl).
        rewrite Hrv. rewrite Hdec2'. reflexivity.
  Qed.
End T87Lines3.
