(* HtSafe proofs, part 5 (refinement, first file): the panic-explicit decoder model hts_samples
   (HtSafe/HtsModel.v, flat scratch array) against the valid-input model ht_block_decode
   (HT/HtBlockDec.v, per-row lists) about which the C06 round trip is stated.
   This file: the full refinement statement; the checked primitives computed exactly (MEL
   getRun / event, zero run, U-VLC) = the pure primitives of HtBlockDec; agreement of the two
   decoders on every early exit (empty block, coding context, Scup). *)
From V Require Import Common.Base Gen.HtTables_gen HT.HtMel HT.HtVlc HT.HtUvlc HT.HtLevels HT.HtBlockBits
  HT.HtBlockDec HT.HtBlockProofsTotal T1.T1Store T1.T1ProofsBase
  HtSafe.HtsModel HtSafe.HtsProofsBase HtSafe.HtsProofsP1 HtSafe.HtsProofsP2 HtSafe.HtsProofsTop.

(* the refinement to be proved: same result type, same arguments, equal outcomes (Ok with the
   same samples, Err with Err; hts_samples is never Panic / OutOfFuel by C08, ht_block_decode
   has only Ok / Err) *)
Definition hts_refines_ht_block_decode_statement : Prop :=
  forall w h kmax missing data, 1 <= w <= 1024 -> 1 <= h <= 1024 ->
    hts_samples w h kmax missing data = ht_block_decode w h kmax missing data.

(* ---------------- MEL ---------------- *)
Lemma hmel_more_eq : forall fuel s, krange s -> 8 <= Z.of_nat fuel + zlen (mr_runs s) ->
  hmel_more fuel s = Ok (melr_decode_more fuel s).
Proof.
  induction fuel as [|f IH]; intros s Hk Hf.
  - cbn [hmel_more melr_decode_more].
    destruct (zlen (mr_runs s) <? 8) eqn:E; [apply Z.ltb_lt in E; lia|reflexivity].
  - cbn [hmel_more melr_decode_more]. destruct (zlen (mr_runs s) <? 8) eqn:E; [|reflexivity].
    unfold krange in Hk. rewrite hchk_in by lia.
    destruct (melr_decode_one_inv s Hk) as [K L]. apply IH; [exact K|lia].
Qed.

Lemma hmel_get_run_eq : forall s, krange s -> hmel_get_run s = Ok (melr_get_run s).
Proof.
  intros s Hk. unfold hmel_get_run, melr_get_run.
  destruct (mr_runs s) eqn:E.
  - rewrite hmel_more_eq; [|exact Hk|rewrite E; cbn; lia]. cbn [obind].
    destruct (mr_runs (melr_decode_more 8 s)); reflexivity.
  - cbn [obind]. rewrite E. reflexivity.
Qed.

Lemma melr_get_run_krange : forall s, krange s -> krange (snd (melr_get_run s)).
Proof.
  intros s Hk. destruct (hmel_get_run_ok s Hk) as (r & s' & E & K).
  rewrite (hmel_get_run_eq s Hk) in E. inversion E as [E']. rewrite E'. exact K.
Qed.

Lemma hmel_event_eq : forall s, melk_ok (h_d s) ->
  hmel_event s = Ok (fst (ojph_mel_event (fst (h_d s))),
                     mkH (h_s s) (snd (ojph_mel_event (fst (h_d s))), snd (h_d s)) (h_work s + 1)).
Proof.
  intros s Hk. unfold hmel_event, melk_ok in *. destruct (h_d s) as [[run r] v]. cbn [fst snd] in *.
  unfold ojph_mel_event. destruct (run - 2 <? 0).
  - rewrite (hmel_get_run_eq r Hk). cbn [obind fst snd]. reflexivity.
  - reflexivity.
Qed.

Lemma mel_event_krange : forall ms, krange (snd ms) -> krange (snd (snd (ojph_mel_event ms))).
Proof.
  intros [run r] Hk. cbn [snd] in Hk. unfold ojph_mel_event. destruct (run - 2 <? 0); cbn [snd].
  - apply melr_get_run_krange. exact Hk.
  - exact Hk.
Qed.

(* ---------------- pure side: what the phase-1 primitives do to the MEL register ---------- *)
Lemma zero_run_fst : forall t d, fst (zero_run t d) = t \/ fst (zero_run t d) = 0.
Proof.
  intros t [ms v]. unfold zero_run. destruct (ojph_mel_event ms) as [ev ms']. cbn [fst].
  destruct ev; auto.
Qed.
Lemma zero_run_k : forall t d, melk_ok d -> melk_ok (snd (zero_run t d)).
Proof.
  intros t [ms v] H. unfold zero_run, melk_ok in *. cbn [fst snd] in H.
  pose proof (mel_event_krange ms H) as K. destruct (ojph_mel_event ms) as [ev ms']. cbn [fst snd] in *. exact K.
Qed.
Lemma cond_zr_w16 : forall (b : bool) t d, w16 t -> w16 (fst (if b then zero_run t d else (t, d))).
Proof.
  intros b t d H. destruct b; [|exact H].
  destruct (zero_run_fst t d) as [-> | ->]; [exact H | unfold w16; lia].
Qed.
Lemma cond_zr_k : forall (b : bool) t d, melk_ok d -> melk_ok (snd (if b then zero_run t d else (t, d))).
Proof. intros b t d H. destruct b; [apply zero_run_k; exact H | exact H]. Qed.
Lemma adv_k : forall d n, melk_ok d -> melk_ok (adv d n).
Proof. intros [ms v] n H. exact H. Qed.

(* the optional MEL event that lifts the U-VLC mode 0xC0 to 0x100 on the first row *)
Definition mode_step (mode : Z) (st : dstate) : Z * dstate :=
  if mode =? 192 then
    let '(ms, v) := st in
    let '(ev, ms') := ojph_mel_event ms in
    ((if ev then mode + 64 else mode), (ms', v))
  else (mode, st).
Lemma mode_step_fst : forall mode d, fst (mode_step mode d) = mode \/ fst (mode_step mode d) = mode + 64.
Proof.
  intros mode [ms v]. unfold mode_step. destruct (mode =? 192); [|auto].
  destruct (ojph_mel_event ms) as [ev ms']. destruct ev; auto.
Qed.
Lemma mode_step_k : forall mode d, melk_ok d -> melk_ok (snd (mode_step mode d)).
Proof.
  intros mode [ms v] H. unfold mode_step. destruct (mode =? 192); [|exact H].
  unfold melk_ok in *. cbn [fst snd] in H.
  pose proof (mel_event_krange ms H) as K. destruct (ojph_mel_event ms) as [ev ms']. cbn [fst snd] in *. exact K.
Qed.
Lemma dec_uvlc_k : forall i mode d, melk_ok d -> melk_ok (snd (dec_uvlc i mode d)).
Proof.
  intros i mode [ms v] H. unfold dec_uvlc.
  destruct (ojph_uvlc_decode i mode (vlc_peek v)) as [[u0 u1] k]. exact H.
Qed.
Lemma dec_uvlc_range : forall i mode d,
  0 <= fst (fst (dec_uvlc i mode d)) < 65535 /\ 0 <= snd (fst (dec_uvlc i mode d)) < 65535.
Proof.
  intros i mode [ms v]. unfold dec_uvlc.
  destruct (ojph_uvlc_decode i mode (vlc_peek v)) as [[u0 u1] k] eqn:E. cbn [fst snd].
  exact (uvlc_out_range _ _ _ _ _ _ E).
Qed.

(* ---------------- checked side, computed exactly ---------------- *)
Lemma cond_zero_run_eq : forall (b : bool) t s, melk_ok (h_d s) ->
  (if b then hzero_run t s else Ok (t, s))
    = Ok (fst (if b then zero_run t (h_d s) else (t, h_d s)),
          mkH (h_s s) (snd (if b then zero_run t (h_d s) else (t, h_d s)))
              (h_work s + (if b then 1 else 0))).
Proof.
  intros b t s Hk. destruct b.
  - unfold hzero_run. rewrite (hmel_event_eq s Hk). cbn [obind].
    unfold zero_run. destruct (h_d s) as [ms v]. cbn [fst snd].
    destruct (ojph_mel_event ms) as [ev ms']. reflexivity.
  - destruct s as [a b c]. cbn [fst snd h_s h_d h_work]. rewrite Z.add_0_r. reflexivity.
Qed.

Lemma cond_mode_eq : forall mode s, melk_ok (h_d s) ->
  (if mode =? 192
   then do (ev, s1) <- hmel_event s; Ok ((if ev : bool then mode + 64 else mode), s1)
   else Ok (mode, s))
    = Ok (fst (mode_step mode (h_d s)),
          mkH (h_s s) (snd (mode_step mode (h_d s))) (h_work s + (if mode =? 192 then 1 else 0))).
Proof.
  intros mode s Hk. unfold mode_step. destruct (mode =? 192).
  - rewrite (hmel_event_eq s Hk). cbn [obind].
    destruct (h_d s) as [ms v]. cbn [fst snd].
    destruct (ojph_mel_event ms) as [ev ms']. reflexivity.
  - destruct s as [a b c]. cbn [fst snd h_s h_d h_work]. rewrite Z.add_0_r. reflexivity.
Qed.

Lemma huvlc_eq : forall initial mode s,
  0 <= mode + Z.land (vlc_peek (snd (h_d s))) 63 < (if initial : bool then 320 else 256) ->
  huvlc initial mode s
    = Ok (fst (fst (dec_uvlc initial mode (h_d s))), snd (fst (dec_uvlc initial mode (h_d s))),
          mkH (h_s s) (snd (dec_uvlc initial mode (h_d s))) (h_work s + 1)).
Proof.
  intros initial mode s Hi. unfold huvlc. rewrite hchk_in by exact Hi.
  destruct (dec_uvlc initial mode (h_d s)) as [[u0 u1] d]. reflexivity.
Qed.

Lemma sset_eq : forall n i x s, 0 <= i < n ->
  sset n i x s = Ok (mkH (fset (h_s s) i (wrapU 16 x)) (h_d s) (h_work s + 1)).
Proof. intros n i x s H. unfold sset. rewrite hchk_in by lia. reflexivity. Qed.

(* ---------------- the early exits ---------------- *)
Theorem hts_refines_early_exits : forall w h kmax missing data,
  1 <= w <= 65536 -> 1 <= h <= 65536 ->
  (zlen data = 0 \/ kmax <= 0 \/ missing < 0 \/ 30 <= missing \/ scup_parse data = Err) ->
  hts_samples w h kmax missing data = ht_block_decode w h kmax missing data.
Proof.
  intros w h kmax missing data Hw Hh C.
  assert (Hwh : 0 <= w * h <= 65536 * 65536) by nia.
  unfold hts_samples, hts_decode, ht_block_decode.
  rewrite (hmake_ok (w * h) 4) by (change (2 ^ 48) with 281474976710656; lia). cbn [obind].
  destruct (zlen data =? 0) eqn:E0; [reflexivity|]. apply Z.eqb_neq in E0.
  destruct (kmax <=? 0) eqn:E1; [reflexivity|]. apply Z.leb_gt in E1.
  destruct (missing <? 0) eqn:E2; [reflexivity|]. apply Z.ltb_ge in E2.
  destruct (missing >=? 30) eqn:E3; [reflexivity|].
  assert (missing < 30) by (destruct (Z.geb_spec missing 30); [discriminate|lia]).
  destruct C as [C|[C|[C|[C|C]]]]; try lia.
  rewrite hts_scup_eq, C. reflexivity.
Qed.

(* an error of the valid-input model before phase 1 is the same error of the checked model,
   and an empty code block is the same zero block *)
Corollary hts_empty_block : forall w h kmax missing,
  1 <= w <= 65536 -> 1 <= h <= 65536 ->
  hts_samples w h kmax missing [] = Ok (repeat 0 (Z.to_nat (w * h))) /\
  ht_block_decode w h kmax missing [] = Ok (repeat 0 (Z.to_nat (w * h))).
Proof.
  intros w h kmax missing Hw Hh.
  rewrite (hts_refines_early_exits w h kmax missing [] Hw Hh) by (left; reflexivity).
  split; reflexivity.
Qed.
