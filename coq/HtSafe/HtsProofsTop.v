(* HtSafe proofs, part 4: the block decoder is total (Ok or Err; no Panic, no OutOfFuel) for
   every byte string and every coding context, with linear work and allocation. *)
From V Require Import Common.Base Gen.HtTables_gen HT.HtMel HT.HtVlc HT.HtUvlc HT.HtLevels HT.HtBlockBits
  HT.HtBlockDec HT.HtBlockProofsTotal T1.T1Store T1.T1ProofsBase
  HtSafe.HtsModel HtSafe.HtsProofsBase HtSafe.HtsProofsP1 HtSafe.HtsProofsP2.

(* the geometry the callers guarantee: t2/tile_decoder.go:553-571 clips the block to its band
   and skips empty blocks (1 <= w, h), codestream/parser.go:962-964 bounds the code-block
   exponents (w, h <= 1024; also w*h <= 4096, which the theorems do not need) *)
Definition hts_geometry (w h : Z) : Prop := 1 <= w <= 1024 /\ 1 <= h <= 1024.

Lemma hmake_ok : forall n e, 0 <= n -> n * e <= 2 ^ 48 -> hmake n e = Ok n.
Proof.
  intros n e H0 H1. unfold hmake.
  replace (n <? 0) with false by (symmetry; apply Z.ltb_ge; lia).
  replace (2 ^ 48 <? n * e) with false by (symmetry; apply Z.ltb_ge; lia). reflexivity.
Qed.

Lemma scup_parse_class : forall cb,
  scup_parse cb = Err \/ exists a b, scup_parse cb = Ok (a, b).
Proof.
  intros cb. unfold scup_parse. cbv zeta. destruct (zlen cb <? 2); [left; reflexivity|].
  match goal with |- context [if ?c then Err else _] => destruct c end; [left; reflexivity|].
  right. eexists _, _. reflexivity.
Qed.

Lemma hzseq_length : forall k i, length (hzseq k i) = k.
Proof. induction k as [|k IH]; intros i; cbn [hzseq length]; [reflexivity|]. rewrite IH. reflexivity. Qed.

Lemma R0_mono : forall N N' t, R0 N t -> N' <= N -> R0 N' t.
Proof. intros N N' t H L q Hq. apply H. lia. Qed.

(* the arithmetic of the two bounds *)
Lemma hts_bounds_arith : forall w h NP NR NQ sstr,
  1 <= w -> 1 <= h -> 0 <= NP -> 4 * NP <= w + 3 -> 0 <= NR -> 2 * NR <= h - 1 ->
  0 <= NQ -> 2 * NQ <= w + 1 -> 0 <= sstr <= w + 9 ->
  NP * 10 + 2 + NR * (NP * 9 + 2) + (NR + 1) * (NQ * 9 + 1) + (sstr * (NR + 1 + 1) + 8)
    + w * h + w * h + (w + 4) + 2 * (w * h) <= 64 * (w * h) + 64 /\
  4 * (w * h) + 2 * (sstr * (NR + 1 + 1) + 8) + 4 * (w * h) + 4 * (w + 4) + 4 * (w * h)
    <= 40 * (w * h) + 64.
Proof.
  intros w h NP NR NQ sstr Hw Hh P0 P1 R0' R1 Q0 Q1 S.
  assert (NP <= w) by lia. assert (NR + 1 <= h) by lia. assert (NQ <= w) by lia.
  assert (w <= w * h) by nia. assert (h <= w * h) by nia.
  assert (NR * (NP * 9 + 2) <= h * (w * 9 + 2)) by (apply Z.mul_le_mono_nonneg; lia).
  assert ((NR + 1) * (NQ * 9 + 1) <= h * (w * 9 + 1)) by (apply Z.mul_le_mono_nonneg; lia).
  assert (sstr * (NR + 1 + 1) <= (w + 9) * (h + 1)) by (apply Z.mul_le_mono_nonneg; lia).
  split; nia.
Qed.

Theorem hts_decode_total : forall w h kmax missing cb, hts_geometry w h ->
  hts_decode w h kmax missing cb = Err \/
  exists l wk mem, hts_decode w h kmax missing cb = Ok (l, wk, mem) /\
    zlen l = w * h /\
    wk <= 64 * (w * h) + 64 /\
    mem <= 40 * (w * h) + 8 * zlen cb + 64 /\ mem <= 40 * (w * h) + 32696.
Proof.
  intros w h kmax missing cb [Hw Hh].
  pose proof (geom_of w h ltac:(lia) ltac:(lia)) as G.
  destruct G as [g_np0 g_nq0 g_nr0 g_sent0 g_rows0 g_rem0 g_lo g_hi g_snp g_slen0].
  assert (Hwh : 0 <= w * h <= 1024 * 1024) by nia.
  unfold hts_decode.
  rewrite (hmake_ok (w * h) 4) by (change (2 ^ 48) with 281474976710656; lia). cbn [obind].
  destruct (zlen cb =? 0) eqn:E0.
  { right. eexists _, _, _. split; [reflexivity|]. apply Z.eqb_eq in E0.
    split; [unfold zlen; rewrite repeat_length; lia|]. nia. }
  apply Z.eqb_neq in E0.
  destruct (kmax <=? 0); [left; reflexivity|]. destruct (missing <? 0); [left; reflexivity|].
  destruct (missing >=? 30); [left; reflexivity|].
  rewrite hts_scup_eq.
  destruct (scup_parse_class cb) as [ES | (msd & cld & ES)]; rewrite ES; cbn [obind]; [left; reflexivity|].
  pose proof (scup_parse_cld_len _ _ _ ES) as Hcl.
  assert (Hcb : zlen cld <= zlen cb).
  { unfold scup_parse in ES. cbv zeta in ES. destruct (zlen cb <? 2); [discriminate|].
    match type of ES with context [if ?c then Err else _] => destruct c end; [discriminate|].
    inversion ES. unfold zlen. rewrite skipn_length. lia. }
  set (NP := (w + 3) / 4) in *. set (NQ := (w + 1) / 2) in *. set (NR := (h - 1) / 2) in *.
  assert (P0 : 0 <= NP /\ 4 * NP <= w + 3 /\ w <= 4 * NP).
  { unfold NP. pose proof (Z.div_mod (w + 3) 4 ltac:(lia)). pose proof (Z.mod_pos_bound (w + 3) 4 ltac:(lia)). lia. }
  assert (Q0 : 0 <= NQ /\ 2 * NQ <= w + 1 /\ w <= 2 * NQ).
  { unfold NQ. pose proof (Z.div_mod (w + 1) 2 ltac:(lia)). pose proof (Z.mod_pos_bound (w + 1) 2 ltac:(lia)). lia. }
  assert (R0' : 0 <= NR /\ 2 * NR <= h - 1 /\ h - 2 <= 2 * NR /\ (h + 1) / 2 = NR + 1).
  { unfold NR. pose proof (Z.div_mod (h - 1) 2 ltac:(lia)). pose proof (Z.mod_pos_bound (h - 1) 2 ltac:(lia)).
    pose proof (Z.div_mod (h + 1) 2 ltac:(lia)). pose proof (Z.mod_pos_bound (h + 1) 2 ltac:(lia)). lia. }
  destruct P0 as (P0 & P1 & P2). destruct Q0 as (Q0 & Q1 & Q2). destruct R0' as (R0' & R1 & R2 & R3).
  set (sstr := hts_sstr w) in *.
  assert (En : hts_slen w h = sstr * (NR + 1 + 1) + 8) by (rewrite g_slen0, R3; reflexivity).
  assert (Hn : 0 <= hts_slen w h <= 1033 * 514 + 8).
  { rewrite En. assert (sstr * (NR + 1 + 1) <= 1033 * 514) by (apply Z.mul_le_mono_nonneg; lia). nia. }
  rewrite (hmake_ok (hts_slen w h) 2) by (change (2 ^ 48) with 281474976710656; lia). cbn [obind].
  destruct (hmel_get_run_ok (melr_init cld) (melr_init_krange cld)) as (run & mr & EM & KM).
  rewrite EM. cbn [obind].
  destruct (hts_phase1_ok w h (hts_slen w h) sstr NP (NR + 1) ltac:(lia) P0 ltac:(lia) ltac:(lia) En
              (mkH Leaf (run, mr, rev_stream cld) 0) NR R0' ltac:(lia))
    as (s1 & E1 & RR & W1).
  { rewrite g_sent0. reflexivity. }
  { rewrite <- g_np0. rewrite Nat2Z.id. reflexivity. }
  { rewrite <- g_nr0. rewrite Nat2Z.id. reflexivity. }
  { unfold melk_ok. cbn. exact KM. }
  rewrite E1. cbn [obind h_work] in *.
  rewrite (hmake_ok (w + 4) 4) by (change (2 ^ 48) with 281474976710656; lia). cbn [obind].
  assert (A1 : 0 <= NQ /\ 2 * NQ <= w + 1 /\ hts_nquads w = Z.to_nat NQ).
  { split; [exact Q0|]. split; [exact Q1|]. rewrite <- g_nq0. rewrite Nat2Z.id. reflexivity. }
  assert (A2 : 0 <= Z.rem w 2 <= 1).
  { rewrite g_rem0. pose proof (Z.mod_pos_bound w 2 ltac:(lia)). lia. }
  assert (A3 : R0 NQ (h_s s1)) by (apply (R0_mono (2 * NP)); [exact RR | lia]).
  assert (A4 : hts_nrowsN h = Z.to_nat NR) by (rewrite <- g_nr0; rewrite Nat2Z.id; reflexivity).
  destruct (hts_phase2_ok w h (hts_slen w h) (w + 4) (w * h) sstr (NR + 1) NQ (h_s s1) (30 - missing) (missing + 2)
              ltac:(lia) ltac:(lia) ltac:(lia) En eq_refl eq_refl A1 A2 A3
              (mkM (ms_stream msd) Leaf Leaf 0) NR R0' ltac:(lia) A4) as [E2 | (m2 & E2 & W2)].
  { left. rewrite E2. reflexivity. }
  rewrite E2. cbn [obind m_work] in *.
  right. eexists _, _, _. split; [reflexivity|].
  split; [unfold zlen; rewrite map_length, hzseq_length, Z2Nat.id; lia|].
  destruct (hts_bounds_arith w h NP NR NQ sstr ltac:(lia) ltac:(lia) P0 P1 R0' R1 Q0 Q1 ltac:(lia)) as [B1 B2].
  rewrite En. split; [lia|]. split; lia.
Qed.

(* C08: no panic, no fuel exhaustion *)
Corollary hts_decode_no_panic : forall w h kmax missing cb, hts_geometry w h ->
  hts_decode w h kmax missing cb <> Panic /\ hts_decode w h kmax missing cb <> OutOfFuel.
Proof.
  intros w h kmax missing cb G.
  destruct (hts_decode_total w h kmax missing cb G) as [E | (l & wk & mem & E & _)]; rewrite E;
    split; discriminate.
Qed.

Corollary hts_samples_total : forall w h kmax missing cb, hts_geometry w h ->
  hts_samples w h kmax missing cb = Err \/
  exists l, hts_samples w h kmax missing cb = Ok l /\ zlen l = w * h.
Proof.
  intros w h kmax missing cb G. unfold hts_samples.
  destruct (hts_decode_total w h kmax missing cb G) as [E | (l & wk & mem & E & L & _)]; rewrite E;
    [left; reflexivity | right; exists l; auto].
Qed.

(* the geometry hypothesis is not idle: a negative size panics in make() (NewHTDecoder) *)
Lemma hts_negative_size_panics : hts_decode (-1) 1 8 7 [1; 2] = Panic.
Proof. vm_compute. reflexivity. Qed.

(* the shift-count check of hsample is live: a quad word with rho bit 0 and e_k bit 0 set
   (0x1010) and U_q = 0 would reach readBits(-1) (magsgn.go:199, `1 << n`).  The decoder never
   forms U_q = 0: stripe 0 stores 1 + u (openjph_cleanup_decoder.go:219-220; invariant R0 of
   HtsProofsP1), later rows add kappa >= 1 (331-337; emax_ge1 of HtsProofsP2). *)
Lemma hts_shift_check_live : forall m p, hsample m 4112 0 0 p = Panic.
Proof. intros. reflexivity. Qed.
