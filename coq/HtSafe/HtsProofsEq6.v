(* HtSafe proofs, part 10 (refinement, sixth file): phase 2 as a whole: quad rows with the
   closing vnScratch store, the loop over the quad rows against dec_ms_rows / assemble. *)
From V Require Import Common.Base Gen.HtTables_gen HT.HtMel HT.HtVlc HT.HtUvlc HT.HtLevels HT.HtBlockBits
  HT.HtBlockDec HT.HtProofsTables HT.HtBlockProofsTotal T1.T1Store T1.T1ProofsBase
  HtSafe.HtsModel HtSafe.HtsProofsBase HtSafe.HtsProofsP1 HtSafe.HtsProofsP2 HtSafe.HtsProofsTop
  HtSafe.HtsProofsEq1 HtSafe.HtsProofsEq2 HtSafe.HtsProofsEq3 HtSafe.HtsProofsEq4 HtSafe.HtsProofsEq5.

Section Phase2Eq.
  Variables n nv no : Z.
  Variable sc : tree.
  Variables w h sstr p mm RR : Z.
  Variables NQn NPn : nat.
  Let NQ := Z.of_nat NQn.
  Hypothesis Hw : 1 <= w.
  Hypothesis Hh : 1 <= h.
  Hypothesis Hno : no = w * h.
  Hypothesis Hnv : nv = w + 4.
  Hypothesis Hmm : mm <= 31.
  Hypothesis Hsw : w + 2 <= sstr.
  Hypothesis Hn : n = sstr * (RR + 1) + 8.
  Hypothesis HRR : 2 * RR - 1 <= h <= 2 * RR.
  Hypothesis HNQ : w <= 2 * NQ <= w + 1.
  Hypothesis HNQP : (NQn <= NPn + NPn)%nat.
  Hypothesis Hq : hts_nquads w = NQn.
  Hypothesis Hrem : (2 * NQ = w -> Z.rem w 2 = 0) /\ (2 * NQ = w + 1 -> Z.rem w 2 = 1).
  Hypothesis HR0 : R0 NQ sc.

  Definition vn_ok (vn : tree) (vnp : list Z) : Prop :=
    forall j, 0 <= j <= NQ -> wrapU 32 (fget vn j) = znth vnp j 0.

  Lemma hms_row_eq : forall r row vnp m,
    0 <= r < RR -> firstn NQn row = rdq NQn sc (r * sstr) ->
    ((r =? 0) = false -> vn_ok (m_vn m) vnp) ->
    (2 * NQ = w + 1 -> fget (m_vn m) NQ = 0) ->
    match dec_ms_row row (r =? 0) vnp w 0 0 p mm 0 (m_ms m) with
    | None => hms_row n nv no sc w h sstr p mm r m = Err
    | Some (tops, bots, vns, ms') =>
      exists vn' out' wk,
        hms_row n nv no sc w h sstr p mm r m = Ok (mkM ms' vn' out' wk) /\
        length tops = Z.to_nat w /\ length bots = Z.to_nat w /\
        rdo (Z.to_nat w) out' (2 * r * w) = tops /\
        (2 * r + 1 < h -> rdo (Z.to_nat w) out' ((2 * r + 1) * w) = bots) /\
        (forall c, 0 <= c -> ~ (2 * r * w <= c < 2 * r * w + w) ->
                   ~ ((2 * r + 1) * w <= c < (2 * r + 1) * w + w) -> fget out' c = fget (m_out m) c) /\
        vn_ok vn' vns /\ (2 * NQ = w + 1 -> fget vn' NQ = 0)
    end.
  Proof.
    intros r row vnp m Hr Hrow Hvn Hodd. unfold hms_row. rewrite Hq.
    assert (Hy : 0 <= 2 * r < h) by lia.
    assert (Hidx : forall q, 0 <= 2 * q < w -> 0 <= r * sstr + 2 * q /\ r * sstr + 2 * q + 1 < n) by (intros; nia).
    assert (HR0' : (r =? 0) = true -> forall q, 0 <= 2 * q < w -> 1 <= rd16 sc (r * sstr + 2 * q + 1)).
    { intros F q Hq'. apply Z.eqb_eq in F. subst r. replace (0 * sstr + 2 * q + 1) with (2 * q + 1) by lia.
      apply HR0. lia. }
    pose proof (hms_loop_eq n nv no sc w h sstr p mm r (r =? 0) vnp) as L.
    repeat (match type of L with ?A -> _ =>
              let H := fresh in assert (H : A) by (first [lia | assumption]); specialize (L H); clear H end).
    specialize (L NQn 0 row 0 m ltac:(lia) ltac:(fold NQ; lia) ltac:(intros E; assert (NQ = 0) by (unfold NQ; rewrite E; reflexivity); lia)).
    replace (r * sstr + 2 * 0) with (r * sstr) in L by lia.
    specialize (L Hrow ltac:(lia)).
    assert (Hvn' : (r =? 0) = false -> forall j, 0 <= j <= 0 + Z.of_nat NQn -> wrapU 32 (fget (m_vn m) j) = znth vnp j 0).
    { intros F j Hj. apply (Hvn F). fold NQ in Hj. lia. }
    specialize (L Hvn'). clear Hvn'. change (2 * 0) with 0 in L. fold NQ in L.
    replace (w - 0) with w in L by lia. replace (0 + NQ) with NQ in L by lia.
    destruct (dec_ms_row row (r =? 0) vnp w 0 0 p mm 0 (m_ms m)) as [[[[tops bots] vns] ms']|].
    2:{ rewrite L. reflexivity. }
    destruct L as (pv & vn' & out' & wk & E & L1 & L2 & O1 & O2 & OF & V1 & VE & VO & VF).
    rewrite E. cbn [obind fst snd]. clear E.
    unfold vset. rewrite hchk_in by (destruct Hrem as [A B]; destruct (Z.eq_dec (2 * NQ) w); [rewrite A by lia|rewrite B by lia]; lia).
    cbn [m_ms m_vn m_out m_work]. fold NQ.
    eexists _, _, _. split; [reflexivity|].
    split; [exact L1|]. split; [exact L2|].
    split; [rewrite <- O1; f_equal; lia|].
    split; [intros B; rewrite <- (O2 B); f_equal; lia|].
    split; [intros c Hc A B; apply OF; lia|].
    destruct Hrem as [RA RB].
    destruct (Z.eq_dec (2 * NQ) w) as [EV|OD].
    - rewrite RA by exact EV. rewrite Z.add_0_r. destruct (VE EV) as [VE1 VE2]. split; [|intros; lia].
      intros j Hj. destruct (Z.eq_dec j NQ) as [->|NJ].
      + rewrite fget_fset_same. rewrite wrapU_idem by lia.
        rewrite VE1. apply wrapU_small. exact VE2.
      + rewrite fget_fset_other by lia.
        replace j with (0 + j) at 1 by lia. apply V1. lia.
    - assert (OD' : 2 * NQ = w + 1) by lia. rewrite RB by exact OD'. destruct (VO OD') as [VO1 VO2].
      assert (F0 : fget vn' NQ = 0) by (rewrite VF by lia; apply Hodd; exact OD').
      split.
      + intros j Hj. rewrite fget_fset_other by lia. destruct (Z.eq_dec j NQ) as [->|NJ].
        * rewrite F0, VO2. reflexivity.
        * replace j with (0 + j) at 1 by lia. apply V1. lia.
      + intros _. rewrite fget_fset_other by lia. exact F0.
  Qed.

  Lemma hms_rows_eq : forall rows r vnp m,
    0 <= r -> r + Z.of_nat (length rows) = RR -> stripes sstr NPn sc r rows ->
    ((r =? 0) = false -> vn_ok (m_vn m) vnp) -> (2 * NQ = w + 1 -> fget (m_vn m) NQ = 0) ->
    match dec_ms_rows rows (r =? 0) vnp w p mm (m_ms m) with
    | None => hfor (length rows) r (hms_row n nv no sc w h sstr p mm) m = Err
    | Some l =>
      exists m', hfor (length rows) r (hms_row n nv no sc w h sstr p mm) m = Ok m' /\
        rdo (Z.to_nat (h * w - 2 * r * w)) (m_out m') (2 * r * w) = assemble l (2 * r) h /\
        (forall c, 0 <= c < 2 * r * w -> fget (m_out m') c = fget (m_out m) c)
    end.
  Proof.
    induction rows as [|row rows IH]; intros r vnp m Hr Hlen Hst Hvn Hodd.
    - cbn [length hfor dec_ms_rows assemble] in *. exists m. split; [reflexivity|].
      assert (h * w <= 2 * r * w) by nia.
      replace (Z.to_nat (h * w - 2 * r * w)) with O by lia. split; [reflexivity|auto].
    - cbn [length hfor dec_ms_rows stripes] in *. destruct Hst as [Hrow Hst'].
      rewrite Nat2Z.inj_succ in Hlen.
      assert (Hrow' : firstn NQn row = rdq NQn sc (r * sstr)).
      { rewrite <- Hrow. replace (NPn + NPn)%nat with (NQn + (NPn + NPn - NQn))%nat by lia. apply firstn_rdq. }
      pose proof (hms_row_eq r row vnp m ltac:(lia) Hrow' Hvn Hodd) as RW.
      destruct (dec_ms_row row (r =? 0) vnp w 0 0 p mm 0 (m_ms m)) as [[[[tops bots] vns] ms']|].
      2:{ rewrite RW. reflexivity. }
      destruct RW as (vn' & out' & wk & E & L1 & L2 & O1 & O2 & OF & VN & VZ). rewrite E. cbn [obind]. clear E.
      specialize (IH (r + 1) vns (mkM ms' vn' out' wk) ltac:(lia) ltac:(lia) Hst').
      replace (r + 1 =? 0) with false in IH by (symmetry; apply Z.eqb_neq; lia).
      cbn [m_ms m_vn m_out] in IH. specialize (IH (fun _ => VN) VZ).
      destruct (dec_ms_rows rows false vns w p mm ms') as [l|]; [|exact IH].
      destruct IH as (m' & E' & A & F). exists m'. split; [exact E'|].
      replace (2 * (r + 1)) with (2 * r + 2) in A by lia.
      split.
      + cbn [assemble]. destruct (2 * r + 1 <? h) eqn:EB.
        * apply Z.ltb_lt in EB. assert (0 <= h * w - (2 * r + 2) * w) by nia.
          replace (Z.to_nat (h * w - 2 * r * w))
            with (Z.to_nat w + (Z.to_nat w + Z.to_nat (h * w - (2 * r + 2) * w)))%nat by lia.
          rewrite !rdo_app. rewrite !Z2Nat.id by lia. f_equal; [|f_equal].
          -- rewrite <- O1. apply rdo_ext. intros c Hc. rewrite Z2Nat.id in Hc by lia. apply F. nia.
          -- replace (2 * r * w + w) with ((2 * r + 1) * w) by lia. rewrite <- (O2 EB).
             apply rdo_ext. intros c Hc. rewrite Z2Nat.id in Hc by lia. apply F. nia.
          -- replace (2 * r * w + w + w) with ((2 * r + 2) * w) by lia. exact A.
        * apply Z.ltb_ge in EB. assert (h * w - 2 * r * w = w) by nia.
          assert (h * w - (2 * r + 2) * w <= 0) by nia.
          replace (Z.to_nat (h * w - (2 * r + 2) * w)) with O in A by lia. cbn [rdo] in A. rewrite <- A.
          cbn [app]. rewrite app_nil_r. replace (h * w - 2 * r * w) with w by lia.
          rewrite <- O1. apply rdo_ext. intros c Hc. rewrite Z2Nat.id in Hc by lia. apply F. nia.
      + intros c Hc. rewrite F by nia. apply OF; nia.
  Qed.
End Phase2Eq.
