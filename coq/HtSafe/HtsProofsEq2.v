(* HtSafe proofs, part 6 (refinement, second file): phase 1.  The flat scratch array read back
   stripe by stripe (quad q of quad row r at r*sstr + 2q, its U value at r*sstr + 2q + 1) is the
   list of rows that HtBlockDec.dec_row0 / dec_rows compute, and the MEL / VLC state after the
   phase is the same. *)
From V Require Import Common.Base Gen.HtTables_gen HT.HtMel HT.HtVlc HT.HtUvlc HT.HtLevels HT.HtBlockBits
  HT.HtBlockDec HT.HtProofsTables HT.HtBlockProofsTotal T1.T1Store T1.T1ProofsBase
  HtSafe.HtsModel HtSafe.HtsProofsBase HtSafe.HtsProofsP1 HtSafe.HtsProofsP2 HtSafe.HtsProofsTop
  HtSafe.HtsProofsEq1.

Ltac dpair := repeat match goal with |- context [match ?e with (_, _) => _ end] => destruct e end.

(* ---------------- abstraction: a stripe read back as a list of (t, U) ---------------- *)
Fixpoint rdq (k : nat) (t : tree) (base : Z) : list (Z * Z) :=
  match k with O => [] | S k' => (rd16 t base, rd16 t (base + 1)) :: rdq k' t (base + 2) end.

Lemma rdq_ext : forall k t t' base,
  (forall c, base <= c < base + 2 * Z.of_nat k -> fget t c = fget t' c) -> rdq k t base = rdq k t' base.
Proof.
  induction k as [|k IH]; intros t t' base H; cbn [rdq]; [reflexivity|].
  unfold rd16. rewrite (H base) by lia. rewrite (H (base + 1)) by lia.
  rewrite (IH t t' (base + 2)); [reflexivity|]. intros c Hc. apply H. lia.
Qed.

Lemma rdq_length : forall k t base, length (rdq k t base) = k.
Proof. induction k as [|k IH]; intros; cbn [rdq length]; [reflexivity|]. rewrite IH. reflexivity. Qed.

Lemma znth_cons_p : forall A (a : A) l j d, 0 < j -> znth (a :: l) j d = znth l (j - 1) d.
Proof.
  intros A a l j d Hj. unfold znth.
  replace (j <? 0) with false by (symmetry; apply Z.ltb_ge; lia).
  replace (j - 1 <? 0) with false by (symmetry; apply Z.ltb_ge; lia).
  replace (Z.to_nat j) with (S (Z.to_nat (j - 1))) by lia. reflexivity.
Qed.

Lemma rdq_znth : forall k t base j, 0 <= j < Z.of_nat k ->
  znth (rdq k t base) j (0, 0) = (rd16 t (base + 2 * j), rd16 t (base + 2 * j + 1)).
Proof.
  induction k as [|k IH]; intros t base j Hj; [lia|]. cbn [rdq].
  destruct (Z.eq_dec j 0) as [->|N].
  - unfold znth. cbn. replace (base + 0) with base by lia. reflexivity.
  - rewrite znth_cons_p by lia. rewrite IH by lia. f_equal; f_equal; lia.
Qed.

Lemma znth_over : forall A (l : list A) j d, Z.of_nat (length l) <= j -> znth l j d = d.
Proof.
  intros A l j d H. unfold znth. replace (j <? 0) with false by (symmetry; apply Z.ltb_ge; lia).
  apply nth_overflow. lia.
Qed.

Lemma firstn_rdq : forall k m t base, firstn k (rdq (k + m) t base) = rdq k t base.
Proof.
  induction k as [|k IH]; intros m t base; [reflexivity|]. cbn [Nat.add rdq firstn]. rewrite IH. reflexivity.
Qed.

Lemma rd16_set_same : forall t i x, rd16 (fset t i (wrapU 16 x)) i = wrapU 16 x.
Proof. intros. unfold rd16. rewrite fget_fset_same. apply wrapU_idem. lia. Qed.
Lemma rd16_set_other : forall t i x j, 0 <= i -> 0 <= j -> i <> j -> rd16 (fset t i x) j = rd16 t j.
Proof. intros. unfold rd16. rewrite fget_fset_other by lia. reflexivity. Qed.
Lemma w16_wrap : forall t, w16 t -> wrapU 16 t = t.
Proof. intros t H. apply wrapU_small. change (2 ^ 16) with 65536. exact H. Qed.

(* ---------------- first row: one quad pair, pure ---------------- *)
Definition row0_step (w x cq : Z) (st : dstate) : Z * Z * Z * Z * Z * dstate :=
  let t0 := lut vlc_lookup0 cq (snd st) in
  let z0 := if cq =? 0 then zero_run t0 st else (t0, st) in
  let t0 := fst z0 in
  let st := adv (snd z0) (Z.land t0 7) in
  let cq := ctx0_of t0 in
  let t1 := lut vlc_lookup0 cq (snd st) in
  let z1 := if (cq =? 0) && (x + 2 <? w) then zero_run t1 st else (t1, st) in
  let t1 := if x + 2 >=? w then 0 else fst z1 in
  let cq := ctx0_of t1 in
  let st := adv (snd z1) (Z.land t1 7) in
  let z2 := mode_step (uvlc_mode t0 t1) st in
  let z3 := dec_uvlc true (fst z2) (snd z2) in
  (t0, t1, fst (fst z3), snd (fst z3), cq, snd z3).

Lemma dec_row0_S : forall k w x cq st,
  dec_row0 (S k) w x cq st =
  let '(t0, t1, u0, u1, cq', st') := row0_step w x cq st in
  let '(rest, st'') := dec_row0 k w (x + 4) cq' st' in
  ((t0, wrapU 16 (1 + u0)) :: (t1, wrapU 16 (1 + u1)) :: rest, st'').
Proof.
  intros. cbn [dec_row0]. unfold row0_step. cbv zeta.
  do 2 (match goal with |- (match ?e with (_, _) => _ end) = _ => destruct e end; cbn [fst snd]).
  match goal with |- context [if ?m =? 192 then ?a else (?m, ?d)] =>
    change (if m =? 192 then a else (m, d)) with (mode_step m d) end.
  repeat (match goal with |- (match ?e with (_, _) => _ end) = _ => destruct e end; cbn [fst snd]).
  reflexivity.
Qed.

Lemma row0_step_facts : forall w x cq st, c8 cq -> melk_ok st ->
  let '(t0, t1, u0, u1, cq', st') := row0_step w x cq st in
  w16 t0 /\ w16 t1 /\ c8 cq' /\ melk_ok st' /\ 0 <= u0 < 65535 /\ 0 <= u1 < 65535.
Proof.
  intros w x cq st Hc Hk. unfold row0_step. cbv zeta.
  set (z0 := if cq =? 0 then zero_run _ st else _).
  assert (W0 : w16 (fst z0)) by (apply cond_zr_w16; apply (lut_w16 true)).
  assert (K0 : melk_ok (snd z0)) by (apply cond_zr_k; exact Hk).
  set (z1 := if (ctx0_of (fst z0) =? 0) && _ then zero_run _ _ else _).
  assert (W1 : w16 (fst z1)) by (apply cond_zr_w16; apply (lut_w16 true)).
  assert (K1 : melk_ok (snd z1)) by (apply cond_zr_k; apply adv_k; exact K0).
  pose proof (w16_if0 (x + 2 >=? w) _ W1) as W1b.
  split; [exact W0|]. split; [exact W1b|]. split; [apply ctx0_c8; exact W1b|].
  split; [apply dec_uvlc_k; apply mode_step_k; apply adv_k; exact K1|].
  apply dec_uvlc_range.
Qed.

Lemma hrow0_pair_eq : forall n w i cq s, 0 <= i -> 4 * i + 3 < n -> c8 cq -> melk_ok (h_d s) ->
  let '(t0, t1, u0, u1, cq', st') := row0_step w (4 * i) cq (h_d s) in
  exists wk, hrow0_pair n w i (cq, s) =
    Ok (cq', mkH (fset (fset (fset (fset (h_s s) (4 * i) (wrapU 16 t0)) (4 * i + 2) (wrapU 16 t1))
                             (4 * i + 1) (wrapU 16 (1 + u0))) (4 * i + 3) (wrapU 16 (1 + u1))) st' wk).
Proof.
  intros n w i cq s Hi Hn Hc Hk. unfold row0_step, hrow0_pair. cbv zeta.
  rewrite (hlut_ok true cq s Hc). cbn [obind]. change (lookup_of true) with vlc_lookup0.
  rewrite (cond_zero_run_eq (cq =? 0) _ s Hk). cbn [obind].
  set (z0 := if cq =? 0 then zero_run _ (h_d s) else _).
  assert (W0 : w16 (fst z0)) by (apply cond_zr_w16; apply (lut_w16 true)).
  assert (K0 : melk_ok (snd z0)) by (apply cond_zr_k; exact Hk).
  rewrite sset_eq by lia. cbn [obind h_s h_d h_work].
  rewrite (hlut_ok true _ _ (ctx0_c8 _ W0)). cbn [obind]. change (lookup_of true) with vlc_lookup0.
  unfold hadv. cbn [h_s h_d h_work].
  rewrite cond_zero_run_eq by (cbn [h_d]; apply adv_k; exact K0). cbn [obind h_s h_d h_work].
  set (z1 := if (ctx0_of (fst z0) =? 0) && _ then zero_run _ _ else _).
  assert (W1 : w16 (fst z1)) by (apply cond_zr_w16; apply (lut_w16 true)).
  assert (K1 : melk_ok (snd z1)) by (apply cond_zr_k; apply adv_k; exact K0).
  pose proof (w16_if0 (4 * i + 2 >=? w) _ W1) as W1b.
  set (t1 := if 4 * i + 2 >=? w then 0 else fst z1) in *.
  rewrite sset_eq by lia. cbn [obind h_s h_d h_work].
  rewrite cond_mode_eq by (cbn [h_d]; apply adv_k; exact K1). cbn [obind h_s h_d h_work].
  set (z2 := mode_step _ _).
  rewrite huvlc_eq.
  2:{ cbn [h_d]. destruct (uvlc_index_in_table (fst z0) t1 (vlc_peek (snd (snd z2))) W0 W1b) as (I1 & I2 & _).
      cbv zeta in I1, I2. pose proof (mode_step_fst (uvlc_mode (fst z0) t1) (adv (snd z1) (Z.land t1 7))) as M.
      fold z2 in M. cbv iota. destruct M as [M | M]; rewrite M; lia. }
  cbn [obind h_s h_d h_work].
  rewrite sset_eq by lia. cbn [obind h_s h_d h_work].
  rewrite sset_eq by lia. cbn [obind h_s h_d h_work].
  eexists. reflexivity.
Qed.

Lemma mkH_eta : forall s, mkH (h_s s) (h_d s) (h_work s) = s.
Proof. intros [a b c]. reflexivity. Qed.

(* the first-row loop from pair i on *)
Lemma hrow0_loop_eq : forall n w k i cq s,
  0 <= i -> 4 * (i + Z.of_nat k) <= n -> c8 cq -> melk_ok (h_d s) ->
  exists cq' wk T',
    hfor k i (hrow0_pair n w) (cq, s) = Ok (cq', mkH T' (snd (dec_row0 k w (4 * i) cq (h_d s))) wk) /\
    rdq (k + k) T' (4 * i) = fst (dec_row0 k w (4 * i) cq (h_d s)) /\
    melk_ok (snd (dec_row0 k w (4 * i) cq (h_d s))) /\
    (forall c, 0 <= c -> c < 4 * i \/ 4 * (i + Z.of_nat k) <= c -> fget T' c = fget (h_s s) c).
Proof.
  intros n w k. induction k as [|k IH]; intros i cq s Hi Hn Hc Hk.
  - cbn [hfor dec_row0 fst snd Nat.add rdq]. exists cq, (h_work s), (h_s s).
    rewrite mkH_eta. auto.
  - cbn [hfor]. rewrite dec_row0_S.
    pose proof (hrow0_pair_eq n w i cq s Hi ltac:(lia) Hc Hk) as P.
    pose proof (row0_step_facts w (4 * i) cq (h_d s) Hc Hk) as F.
    destruct (row0_step w (4 * i) cq (h_d s)) as [[[[[t0 t1] u0] u1] cq1] st1].
    destruct F as (W0 & W1 & C1 & K1 & U0 & U1). destruct P as (wk & E). rewrite E. cbn [obind]. clear E.
    match goal with |- context [hfor k (i + 1) _ (cq1, ?s1)] => set (S1 := s1) end.
    destruct (IH (i + 1) cq1 S1 ltac:(lia) ltac:(lia) C1 K1) as (cq' & wk' & T' & E' & R' & K' & Fr').
    unfold S1 in *. cbn [h_s h_d] in *. replace (4 * (i + 1)) with (4 * i + 4) in * by lia.
    destruct (dec_row0 k w (4 * i + 4) cq1 st1) as [rest st2]. cbn [fst snd] in *.
    exists cq', wk', T'. split; [exact E'|]. split; [|split; [exact K'|]].
    + replace (S k + S k)%nat with (S (S (k + k))) by lia. cbn [rdq].
      replace (4 * i + 2 + 2) with (4 * i + 4) by lia. rewrite R'.
      unfold rd16. rewrite !Fr' by lia.
      replace (4 * i + 2 + 1) with (4 * i + 3) by lia.
      rewrite fget_fset_same.
      rewrite !(fget_fset_other _ (4 * i + 3)) by lia. rewrite fget_fset_same.
      rewrite !(fget_fset_other _ (4 * i + 1)) by lia. rewrite fget_fset_same.
      rewrite !(fget_fset_other _ (4 * i + 2)) by lia. rewrite fget_fset_same.
      rewrite !wrapU_idem by lia. rewrite (w16_wrap t0 W0), (w16_wrap t1 W1). reflexivity.
    + intros c Hc0 Hcr. rewrite Fr' by lia. rewrite !fget_fset_other by lia. reflexivity.
Qed.

(* ---------------- later rows: one quad pair, pure ---------------- *)
Definition rowN_step (w x cq A0 A1 A2 : Z) (st : dstate) : Z * Z * Z * Z * Z * dstate :=
  let cq := Z.lor cq (Z.lor (Z.shiftl (Z.land A0 160) 2) (Z.shiftl (Z.land A1 32) 4)) in
  let t0 := lut vlc_lookup1 cq (snd st) in
  let z0 := if cq =? 0 then zero_run t0 st else (t0, st) in
  let t0 := fst z0 in
  let cq := Z.lor (Z.shiftl (Z.land t0 64) 2) (Z.shiftl (Z.land t0 128) 1) in
  let cq := Z.lor cq (Z.land A0 128) in
  let cq := Z.lor cq (Z.lor (Z.shiftl (Z.land A1 160) 2) (Z.shiftl (Z.land A2 32) 4)) in
  let st := adv (snd z0) (Z.land t0 7) in
  let t1 := lut vlc_lookup1 cq (snd st) in
  let z1 := if (cq =? 0) && (x + 2 <? w) then zero_run t1 st else (t1, st) in
  let t1 := if x + 2 >=? w then 0 else fst z1 in
  let cq := Z.lor (Z.shiftl (Z.land t1 64) 2) (Z.shiftl (Z.land t1 128) 1) in
  let cq := Z.lor cq (Z.land A1 128) in
  let st := adv (snd z1) (Z.land t1 7) in
  let z3 := dec_uvlc false (uvlc_mode t0 t1) st in
  (t0, t1, fst (fst z3), snd (fst z3), cq, snd z3).

Lemma dec_rowN_S : forall k arow w x j cq st,
  dec_rowN (S k) arow w x j cq st =
  let '(t0, t1, u0, u1, cq', st') :=
    rowN_step w x cq (above arow j) (above arow (j + 1)) (above arow (j + 2)) st in
  let '(rest, st'') := dec_rowN k arow w (x + 4) (j + 2) cq' st' in
  ((t0, wrapU 16 u0) :: (t1, wrapU 16 u1) :: rest, st'').
Proof.
  intros. cbn [dec_rowN]. unfold rowN_step. cbv zeta.
  repeat (match goal with |- (match ?e with (_, _) => _ end) = _ => destruct e end; cbn [fst snd]).
  reflexivity.
Qed.

(* the third cell above only feeds the context of a quad that exists *)
Lemma rowN_step_phantom : forall w x cq A0 A1 A2 st, w <= x + 2 ->
  rowN_step w x cq A0 A1 A2 st = rowN_step w x cq A0 A1 0 st.
Proof.
  intros w x cq A0 A1 A2 st H. unfold rowN_step. cbv zeta.
  replace (x + 2 <? w) with false by (symmetry; apply Z.ltb_ge; lia).
  replace (x + 2 >=? w) with true by (symmetry; apply Z.geb_le; lia).
  rewrite !andb_false_r. cbv iota. cbn [fst snd]. reflexivity.
Qed.

Lemma rowN_step_facts : forall w x cq A0 A1 A2 st, c8 cq -> w16 A0 -> w16 A1 -> w16 A2 -> melk_ok st ->
  let '(t0, t1, u0, u1, cq', st') := rowN_step w x cq A0 A1 A2 st in
  w16 t0 /\ w16 t1 /\ c8 cq' /\ melk_ok st'.
Proof.
  intros w x cq A0 A1 A2 st Hc H0 H1 H2 Hk. unfold rowN_step. cbv zeta.
  set (z0 := if _ =? 0 then zero_run _ st else _).
  assert (W0 : w16 (fst z0)) by (apply cond_zr_w16; apply (lut_w16 false)).
  assert (K0 : melk_ok (snd z0)) by (apply cond_zr_k; exact Hk).
  set (z1 := if (_ =? 0) && _ then zero_run _ _ else _).
  assert (W1 : w16 (fst z1)) by (apply cond_zr_w16; apply (lut_w16 false)).
  assert (K1 : melk_ok (snd z1)) by (apply cond_zr_k; apply adv_k; exact K0).
  pose proof (w16_if0 (x + 2 >=? w) _ W1) as W1b.
  split; [exact W0|]. split; [exact W1b|]. split; [apply ctxN_carry_c8; assumption|].
  apply dec_uvlc_k; apply adv_k; exact K1.
Qed.

Lemma hrowN_pair_eq : forall n w sstr r i cq s,
  5 <= sstr -> 0 <= r * sstr + 4 * i - sstr -> r * sstr + 4 * i + 3 < n -> c8 cq -> melk_ok (h_d s) ->
  let '(t0, t1, u0, u1, cq', st') :=
    rowN_step w (4 * i) cq (rd16 (h_s s) (r * sstr + 4 * i - sstr)) (rd16 (h_s s) (r * sstr + 4 * i - sstr + 2))
              (rd16 (h_s s) (r * sstr + 4 * i - sstr + 4)) (h_d s) in
  exists wk, hrowN_pair n w sstr r i (cq, s) =
    Ok (cq', mkH (fset (fset (fset (fset (h_s s) (r * sstr + 4 * i) (wrapU 16 t0)) (r * sstr + 4 * i + 2) (wrapU 16 t1))
                             (r * sstr + 4 * i + 1) (wrapU 16 u0)) (r * sstr + 4 * i + 3) (wrapU 16 u1)) st' wk).
Proof.
  intros n w sstr r i cq s Hs Hlo Hhi Hc Hk. unfold rowN_step, hrowN_pair. cbv zeta.
  set (sp := r * sstr + 4 * i) in *.
  rewrite (sget_ok n s (sp - sstr)) by lia. cbn [obind].
  rewrite (sget_ok n s (sp - sstr + 2)) by lia. cbn [obind].
  set (A0 := rd16 (h_s s) (sp - sstr)). set (A1 := rd16 (h_s s) (sp - sstr + 2)).
  set (A2 := rd16 (h_s s) (sp - sstr + 4)).
  assert (HA0 : w16 A0) by apply rd16_w16. assert (HA1 : w16 A1) by apply rd16_w16.
  assert (HA2 : w16 A2) by apply rd16_w16.
  pose proof (ctxN_first_c8 cq A0 A1 Hc HA0 HA1) as C0.
  rewrite (hlut_ok false _ s C0). cbn [obind]. change (lookup_of false) with vlc_lookup1.
  rewrite (cond_zero_run_eq _ _ s Hk). cbn [obind].
  set (z0 := if _ =? 0 then zero_run _ (h_d s) else _).
  assert (W0 : w16 (fst z0)) by (apply cond_zr_w16; apply (lut_w16 false)).
  assert (K0 : melk_ok (snd z0)) by (apply cond_zr_k; exact Hk).
  rewrite sset_eq by lia. cbn [obind h_s h_d h_work].
  rewrite !sget_ok by lia. cbn [obind h_s h_d h_work].
  rewrite !rd16_set_other by lia. fold A0 A1 A2.
  pose proof (ctxN_second_c8 (fst z0) A0 A1 A2 W0 HA0 HA1 HA2) as C1.
  rewrite (hlut_ok false _ _ C1). cbn [obind]. change (lookup_of false) with vlc_lookup1.
  unfold hadv. cbn [h_s h_d h_work].
  rewrite cond_zero_run_eq by (cbn [h_d]; apply adv_k; exact K0). cbn [obind h_s h_d h_work].
  set (z1 := if (_ =? 0) && _ then zero_run _ _ else _).
  assert (W1 : w16 (fst z1)) by (apply cond_zr_w16; apply (lut_w16 false)).
  assert (K1 : melk_ok (snd z1)) by (apply cond_zr_k; apply adv_k; exact K0).
  pose proof (w16_if0 (4 * i + 2 >=? w) _ W1) as W1b.
  set (t1 := if 4 * i + 2 >=? w then 0 else fst z1) in *.
  rewrite sset_eq by lia. cbn [obind h_s h_d h_work].
  rewrite !sget_ok by lia. cbn [obind h_s h_d h_work].
  rewrite !rd16_set_other by lia. fold A1.
  rewrite huvlc_eq.
  2:{ cbn [h_d]. destruct (uvlc_index_in_table (fst z0) t1 (vlc_peek (snd (adv (snd z1) (Z.land t1 7)))) W0 W1b) as (_ & I2 & _).
      cbv zeta in I2. cbv iota. exact I2. }
  cbn [obind h_s h_d h_work].
  rewrite sset_eq by lia. cbn [obind h_s h_d h_work].
  rewrite sset_eq by lia. cbn [obind h_s h_d h_work].
  eexists. reflexivity.
Qed.

(* ---------------- later rows: the pair loop and the row loop ---------------- *)
Section RowsN.
  Variables n w sstr R : Z.
  Variable NPn : nat.
  Let NP := Z.of_nat NPn.
  Hypothesis Hsstr : 5 <= sstr.
  Hypothesis Hsw : w + 2 <= sstr.
  Hypothesis Hnp : 4 * NP <= sstr.
  Hypothesis Hn : n = sstr * (R + 1) + 8.

  (* stripe r-1 of tree T read through `above` is arow; the cell after the last pair counts
     only when a real quad looks at it *)
  Definition above_ok (T : tree) (r : Z) (arow : list (Z * Z)) : Prop :=
    forall j, 0 <= j <= 2 * NP -> (j < 2 * NP \/ 4 * NP <= w + 1) ->
      rd16 T ((r - 1) * sstr + 2 * j) = above arow j.

  Lemma hrowN_loop_eq : forall r arow, 1 <= r < R ->
    forall k i cq s,
    0 <= i -> i + Z.of_nat k <= NP -> c8 cq -> melk_ok (h_d s) -> above_ok (h_s s) r arow ->
    exists cq' wk T',
      hfor k i (hrowN_pair n w sstr r) (cq, s)
        = Ok (cq', mkH T' (snd (dec_rowN k arow w (4 * i) (2 * i) cq (h_d s))) wk) /\
      rdq (k + k) T' (r * sstr + 4 * i) = fst (dec_rowN k arow w (4 * i) (2 * i) cq (h_d s)) /\
      melk_ok (snd (dec_rowN k arow w (4 * i) (2 * i) cq (h_d s))) /\
      (forall c, 0 <= c -> c < r * sstr + 4 * i \/ r * sstr + 4 * (i + Z.of_nat k) <= c ->
                 fget T' c = fget (h_s s) c).
  Proof.
    intros r arow Hr k. induction k as [|k IH]; intros i cq s Hi Hik Hc Hk HA.
    - cbn [hfor dec_rowN fst snd Nat.add rdq]. exists cq, (h_work s), (h_s s).
      rewrite mkH_eta. auto.
    - cbn [hfor]. rewrite dec_rowN_S.
      assert (I1 : 0 <= r * sstr + 4 * i - sstr) by nia.
      assert (I2 : r * sstr + 4 * i + 3 < n) by nia.
      pose proof (hrowN_pair_eq n w sstr r i cq s Hsstr I1 I2 Hc Hk) as P.
      pose proof (rowN_step_facts w (4 * i) cq _ _ _ (h_d s) Hc
                    (rd16_w16 (h_s s) (r * sstr + 4 * i - sstr))
                    (rd16_w16 (h_s s) (r * sstr + 4 * i - sstr + 2))
                    (rd16_w16 (h_s s) (r * sstr + 4 * i - sstr + 4)) Hk) as F.
      assert (ES : rowN_step w (4 * i) cq (rd16 (h_s s) (r * sstr + 4 * i - sstr))
                     (rd16 (h_s s) (r * sstr + 4 * i - sstr + 2))
                     (rd16 (h_s s) (r * sstr + 4 * i - sstr + 4)) (h_d s)
                 = rowN_step w (4 * i) cq (above arow (2 * i)) (above arow (2 * i + 1))
                     (above arow (2 * i + 2)) (h_d s)).
      { replace (r * sstr + 4 * i - sstr) with ((r - 1) * sstr + 2 * (2 * i)) by lia.
        replace ((r - 1) * sstr + 2 * (2 * i) + 2) with ((r - 1) * sstr + 2 * (2 * i + 1)) by lia.
        replace ((r - 1) * sstr + 2 * (2 * i) + 4) with ((r - 1) * sstr + 2 * (2 * i + 2)) by lia.
        rewrite (HA (2 * i)) by lia. rewrite (HA (2 * i + 1)) by lia.
        destruct (Z_lt_le_dec (4 * i + 2) w) as [L|L].
        - rewrite (HA (2 * i + 2)) by lia. reflexivity.
        - rewrite rowN_step_phantom by lia. symmetry. rewrite rowN_step_phantom by lia. reflexivity. }
      rewrite ES in P, F. clear ES.
      destruct (rowN_step w (4 * i) cq (above arow (2 * i)) (above arow (2 * i + 1)) (above arow (2 * i + 2)) (h_d s))
        as [[[[[t0 t1] u0] u1] cq1] st1].
      destruct F as (W0 & W1 & C1 & K1). destruct P as (wk & E). rewrite E. cbn [obind]. clear E.
      match goal with |- context [hfor k (i + 1) _ (cq1, ?s1)] => set (S1 := s1) end.
      assert (HA1 : above_ok (h_s S1) r arow).
      { intros j Hj Hc2. unfold S1. cbn [h_s]. rewrite !rd16_set_other by nia. apply HA; assumption. }
      destruct (IH (i + 1) cq1 S1 ltac:(lia) ltac:(lia) C1 K1 HA1) as (cq' & wk' & T' & E' & R' & K' & Fr').
      unfold S1 in *. cbn [h_s h_d] in *.
      replace (4 * (i + 1)) with (4 * i + 4) in * by lia. replace (2 * (i + 1)) with (2 * i + 2) in * by lia.
      destruct (dec_rowN k arow w (4 * i + 4) (2 * i + 2) cq1 st1) as [rest st2]. cbn [fst snd] in *.
      exists cq', wk', T'. split; [exact E'|]. split; [|split; [exact K'|]].
      + replace (S k + S k)%nat with (S (S (k + k))) by lia. cbn [rdq].
        replace (r * sstr + 4 * i + 2 + 2) with (r * sstr + (4 * i + 4)) by lia. rewrite R'.
        unfold rd16. rewrite !Fr' by lia.
        replace (r * sstr + 4 * i + 2 + 1) with (r * sstr + 4 * i + 3) by lia.
        rewrite fget_fset_same.
        rewrite !(fget_fset_other _ (r * sstr + 4 * i + 3)) by nia. rewrite fget_fset_same.
        rewrite !(fget_fset_other _ (r * sstr + 4 * i + 1)) by nia. rewrite fget_fset_same.
        rewrite !(fget_fset_other _ (r * sstr + 4 * i + 2)) by nia. rewrite fget_fset_same.
        rewrite !wrapU_idem by lia. rewrite (w16_wrap t0 W0), (w16_wrap t1 W1). reflexivity.
      + intros c Hc0 Hcr. rewrite Fr' by lia. rewrite !fget_fset_other by nia. reflexivity.
  Qed.
End RowsN.
