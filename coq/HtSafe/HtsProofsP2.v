(* HtSafe proofs, part 3: phase 2 (MagSgn) returns Ok or Err, never Panic: scratch / vnScratch /
   out indices, and the shift count mn = U_q - e_k >= 0 of MagSgnDecoder.readBits. *)
From V Require Import Common.Base Gen.HtTables_gen HT.HtMel HT.HtVlc HT.HtUvlc HT.HtLevels HT.HtBlockBits
  HT.HtBlockDec HT.HtBlockProofsTotal T1.T1Store T1.T1ProofsBase HtSafe.HtsModel HtSafe.HtsProofsBase HtSafe.HtsProofsP1.

Lemma scget_ok : forall n sc i, 0 <= i < n -> scget n sc i = Ok (rd16 sc i).
Proof. intros n sc i H. unfold scget. rewrite hchk_in by lia. reflexivity. Qed.

Lemma vget_ok : forall nv m i, 0 <= i < nv ->
  exists v, vget nv m i = Ok v /\ 0 <= v.
Proof.
  intros nv m i H. unfold vget. rewrite hchk_in by lia. eexists. split; [reflexivity|].
  apply (wrapU_range 32). lia.
Qed.

Lemma vset_ok : forall nv i x m, 0 <= i < nv ->
  exists m', vset nv i x m = Ok m' /\ m_work m' = m_work m + 1.
Proof. intros nv i x m H. unfold vset. rewrite hchk_in by lia. eexists. split; [reflexivity|]. reflexivity. Qed.

Lemma oset_ok : forall no i x m, 0 <= i < no ->
  exists m', oset no i x m = Ok m' /\ m_work m' = m_work m + 1.
Proof. intros no i x m H. unfold oset. rewrite hchk_in by lia. eexists. split; [reflexivity|]. reflexivity. Qed.

Lemma cond_oset : forall (b : bool) no i x m, (b = true -> 0 <= i < no) ->
  exists m', (if b then oset no i x m else Ok m) = Ok m' /\ m_work m' <= m_work m + 1.
Proof.
  intros b no i x m H. destruct b.
  - destruct (oset_ok no i x m (H eq_refl)) as (m' & E & W). exists m'. split; [exact E|lia].
  - exists m. split; [reflexivity|lia].
Qed.

Lemma land1_range : forall x, 0 <= Z.land x 1 <= 1.
Proof. intros x. change 1 with (Z.ones 1) at 1 2. pose proof (land_ones_range x 1 ltac:(lia)). change (2 ^ 1) with 2 in H. lia. Qed.

(* mn = uq - e_k bit >= 0 because U_q >= 1 *)
Lemma hsample_ok : forall m inf uq bit p, 1 <= uq ->
  exists v vn m', hsample m inf uq bit p = Ok (v, vn, m') /\ m_work m' = m_work m + 1.
Proof.
  intros m inf uq bit p Hu. unfold hsample.
  destruct (Z.land inf (Z.shiftl 1 (4 + bit)) =? 0); [eexists _, _, _; split; reflexivity|].
  pose proof (land1_range (Z.shiftr inf (12 + bit))).
  replace (uq - Z.land (Z.shiftr inf (12 + bit)) 1 <? 0) with false by (symmetry; apply Z.ltb_ge; lia).
  destruct (dec_sample (m_ms m) inf uq bit p) as [[val vn] ms'].
  eexists _, _, _. split; reflexivity.
Qed.

Lemma lor2_ge : forall x, 0 <= x -> 2 <= Z.lor x 2.
Proof.
  intros x Hx. assert (Hn : 0 <= Z.lor x 2) by (apply Z.lor_nonneg; lia).
  assert (T : Z.testbit (Z.lor x 2) 1 = true) by (rewrite Z.lor_spec; cbn; apply orb_true_r).
  destruct (Z_lt_le_dec (Z.lor x 2) 2) as [L|L]; [|exact L].
  assert (C : Z.lor x 2 = 0 \/ Z.lor x 2 = 1) by lia.
  destruct C as [C|C]; rewrite C in T; cbn in T; discriminate.
Qed.

Lemma emax_ge1 : forall a b, 0 <= a -> 0 <= b -> 1 <= bitlen32_d (Z.lor (Z.lor a b) 2) - 1.
Proof.
  intros a b Ha Hb. assert (H0 : 0 <= Z.lor a b) by (apply Z.lor_nonneg; lia).
  pose proof (lor2_ge _ H0) as H2. unfold bitlen32_d.
  replace (Z.lor (Z.lor a b) 2 <=? 0) with false by (symmetry; apply Z.leb_gt; lia).
  pose proof (Z.log2_le_mono 2 _ H2) as L. change (Z.log2 2) with 1 in L. lia.
Qed.

Lemma hms_quad_ok : forall n nv no sc w h sstr p mm r (first : bool) q prevvn m,
  0 <= r * sstr + 2 * q -> r * sstr + 2 * q + 1 < n ->
  0 <= q -> q + 1 < nv ->
  0 <= 2 * r < h -> 0 <= 2 * q < w -> no = w * h ->
  (first = true -> 1 <= rd16 sc (r * sstr + 2 * q + 1)) ->
  hms_quad n nv no sc w h sstr p mm r first q (prevvn, m) = Err \/
  exists pm', hms_quad n nv no sc w h sstr p mm r first q (prevvn, m) = Ok pm' /\
              m_work (snd pm') <= m_work m + 9.
Proof.
  intros n nv no sc w h sstr p mm r first q prevvn m I1 I2 Q1 Q2 Hy Hx Hno Hf. unfold hms_quad.
  rewrite (scget_ok n sc (r * sstr + 2 * q)) by lia. cbn [obind].
  rewrite (scget_ok n sc (r * sstr + 2 * q + 1)) by lia. cbn [obind].
  set (inf := rd16 sc (r * sstr + 2 * q)). set (uq0 := rd16 sc (r * sstr + 2 * q + 1)) in *.
  assert (HU : exists uq,
    (if first then Ok uq0
     else
       do va <- vget nv m q; do vb <- vget nv m (q + 1);
       Ok (uq0 + (if negb (Z.land (Z.land inf 240) (wrapU 32 (Z.land inf 240 - 16)) =? 0)
                  then bitlen32_d (Z.lor (Z.lor va vb) 2) - 1 else 1))) = Ok uq /\ 1 <= uq).
  { destruct first.
    - exists uq0. split; [reflexivity|apply Hf; reflexivity].
    - destruct (vget_ok nv m q ltac:(lia)) as (va & Ea & Pa). rewrite Ea. cbn [obind].
      destruct (vget_ok nv m (q + 1) ltac:(lia)) as (vb & Eb & Pb). rewrite Eb. cbn [obind].
      eexists. split; [reflexivity|].
      pose proof (emax_ge1 va vb Pa Pb). pose proof (rd16_w16 sc (r * sstr + 2 * q + 1)) as U. unfold w16 in U.
      fold uq0 in U. destruct (negb _); lia. }
  destruct HU as (uq & EU & Huq). rewrite EU. cbn [obind]. clear EU.
  destruct (uq >? mm); [left; reflexivity|]. right.
  destruct (hsample_ok m inf uq 0 p Huq) as (v0 & n0 & m1 & E1 & W1). rewrite E1. cbn [obind]. clear E1.
  destruct (oset_ok no (2 * r * w + 2 * q) v0 m1 ltac:(nia)) as (m2 & E2 & W2). rewrite E2. cbn [obind]. clear E2.
  destruct (hsample_ok m2 inf uq 1 p Huq) as (v1 & n1 & m3 & E3 & W3). rewrite E3. cbn [obind]. clear E3.
  destruct (cond_oset (2 * r + 1 <? h) no ((2 * r + 1) * w + 2 * q) v1 m3) as (m4 & E4 & W4).
  { intros B. apply Z.ltb_lt in B. nia. }
  rewrite E4. cbn [obind]. clear E4.
  destruct (vset_ok nv q (Z.lor prevvn n1) m4 ltac:(lia)) as (m5 & E5 & W5). rewrite E5. cbn [obind]. clear E5.
  destruct (2 * q + 1 >=? w) eqn:EW.
  - eexists. split; [reflexivity|]. cbn [snd]. lia.
  - assert (2 * q + 1 < w) by (destruct (Z.geb_spec (2 * q + 1) w); [discriminate|lia]).
    destruct (hsample_ok m5 inf uq 2 p Huq) as (v2 & n2 & m6 & E6 & W6). rewrite E6. cbn [obind]. clear E6.
    destruct (oset_ok no (2 * r * w + (2 * q + 1)) v2 m6 ltac:(nia)) as (m7 & E7 & W7). rewrite E7. cbn [obind]. clear E7.
    destruct (hsample_ok m7 inf uq 3 p Huq) as (v3 & n3 & m8 & E8 & W8). rewrite E8. cbn [obind]. clear E8.
    destruct (cond_oset (2 * r + 1 <? h) no ((2 * r + 1) * w + (2 * q + 1)) v3 m8) as (m9 & E9 & W9).
    { intros B. apply Z.ltb_lt in B. nia. }
    rewrite E9. cbn [obind]. clear E9.
    eexists. split; [reflexivity|]. cbn [snd]. lia.
Qed.

Section Phase2.
  Variables w h n nv no sstr R NQ : Z.
  Variable sc : tree.
  Variables p mm : Z.
  Hypothesis Hw : 1 <= w.
  Hypothesis Hh : 1 <= h.
  Hypothesis Hsstr : w + 2 <= sstr.
  Hypothesis HR : 2 * R <= h + 1.       (* R = (h+1)/2 quad rows *)
  Hypothesis Hn : n = sstr * (R + 1) + 8.
  Hypothesis Hnv : nv = w + 4.
  Hypothesis Hno : no = w * h.
  Hypothesis HNQ : 0 <= NQ /\ 2 * NQ <= w + 1 /\ hts_nquads w = Z.to_nat NQ.
  Hypothesis Hrem : 0 <= Z.rem w 2 <= 1.
  Hypothesis HR0 : R0 NQ sc.

  Lemma hms_row_ok : forall r m, 0 <= r < R ->
    hms_row n nv no sc w h sstr p mm r m = Err \/
    exists m', hms_row n nv no sc w h sstr p mm r m = Ok m' /\ m_work m' <= m_work m + (NQ * 9 + 1).
  Proof.
    intros r m Hr. unfold hms_row. destruct HNQ as (Q0 & Q1 & Q2). rewrite Q2.
    destruct (hfor_ok_err (Z * mst) (fun _ _ => True) (fun pm => m_work (snd pm)) 9
                (hms_quad n nv no sc w h sstr p mm r (r =? 0)) (Z.to_nat NQ) 0 (0, m))
      as [E | (pm' & E & _ & W)].
    - intros q [pv m0] Hq _. rewrite Z2Nat.id in Hq by lia.
      assert (I1 : 0 <= r * sstr + 2 * q) by nia.
      assert (I2 : r * sstr + 2 * q + 1 < n) by nia.
      destruct (hms_quad_ok n nv no sc w h sstr p mm r (r =? 0) q pv m0 I1 I2) as [E | (pm' & E & W)];
        try lia.
      + intros F. apply Z.eqb_eq in F. subst r. replace (0 * sstr + 2 * q + 1) with (2 * q + 1) by lia.
        apply HR0. lia.
      + left. exact E.
      + right. exists pm'. cbn [snd]. auto.
    - exact I.
    - left. rewrite E. reflexivity.
    - right. rewrite E. cbn [obind]. rewrite Z2Nat.id in * by lia. cbn [snd] in W.
      destruct (vset_ok nv (NQ + Z.rem w 2) (fst pm') (snd pm') ltac:(lia)) as (m' & E' & W').
      exists m'. split; [exact E'|]. lia.
  Qed.

  Lemma hts_phase2_ok : forall m NR, 0 <= NR -> NR + 1 <= R -> hts_nrowsN h = Z.to_nat NR ->
    hts_phase2 n nv no sc w h sstr p mm m = Err \/
    exists m', hts_phase2 n nv no sc w h sstr p mm m = Ok m' /\
               m_work m' <= m_work m + (NR + 1) * (NQ * 9 + 1).
  Proof.
    intros m NR H0 H1 E. unfold hts_phase2. rewrite E.
    destruct (hfor_ok_err mst (fun _ _ => True) m_work (NQ * 9 + 1)
                (hms_row n nv no sc w h sstr p mm) (S (Z.to_nat NR)) 0 m) as [E1 | (m' & E1 & _ & W)].
    - intros r m0 Hr _. rewrite Nat2Z.inj_succ, Z2Nat.id in Hr by lia.
      destruct (hms_row_ok r m0 ltac:(lia)) as [E1 | (m' & E1 & W)]; [left; exact E1|].
      right. exists m'. auto.
    - exact I.
    - left. exact E1.
    - right. exists m'. split; [exact E1|]. rewrite Nat2Z.inj_succ, Z2Nat.id in W by lia. lia.
  Qed.
End Phase2.
