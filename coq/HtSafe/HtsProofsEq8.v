(* HtSafe proofs, part 12: the C06 cleanup-pass round trip carried over to the panic-explicit
   decoder model, so that the C06 round trip and the C08 / C09 totality and resource theorems are
   statements about one and the same decoder model. *)
From V Require Import Common.Base HT.HtBlockBits HT.HtBlockEnc HT.HtBlockDec HT.HtBlockProofsQuad HT.HtBlockProofsSize
  HtSafe.HtsModel HtSafe.HtsProofsEq1 HtSafe.HtsProofsEq7.

Theorem htsafe_cleanup_roundtrip_validated : forall w h W0 H0 kmax data,
  1 <= w <= W0 -> 1 <= h <= H0 -> W0 mod 4 = 0 -> H0 mod 2 = 0 -> W0 * H0 <= 4096 ->
  1 <= kmax <= 30 -> zlen data = w * h -> good kmax data ->
  exists block, ht_block_encode w h kmax data = Ok block /\
                hts_samples w h kmax (kmax - 1) block = Ok data /\
                hts_decode w h kmax (kmax - 1) block <> Panic.
Proof.
  intros w h W0 H0 kmax data Hw Hh HW HH HWH Hk Hl Hg.
  destruct (ht_cleanup_roundtrip_validated w h W0 H0 kmax data Hw Hh HW HH HWH Hk Hl Hg) as (block & E & D).
  exists block. split; [exact E|].
  assert (Bw : 1 <= w <= 65536) by nia. assert (Bh : 1 <= h <= 65536) by nia.
  assert (S : hts_samples w h kmax (kmax - 1) block = Ok data) by (rewrite hts_refines_gen by assumption; exact D).
  split; [exact S|]. intros P. unfold hts_samples in S. rewrite P in S. discriminate.
Qed.
