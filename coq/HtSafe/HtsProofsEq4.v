(* HtSafe proofs, part 8 (refinement, fourth file): phase 2, one quad.  The checked quad step
   hms_quad computed exactly; ranges of what dec_sample returns (so that the uint32 stores into
   vnScratch and out are the identity). *)
From V Require Import Common.Base Gen.HtTables_gen HT.HtMel HT.HtVlc HT.HtUvlc HT.HtLevels HT.HtBlockBits
  HT.HtBlockDec HT.HtProofsTables HT.HtBlockProofsTotal T1.T1Store T1.T1ProofsBase
  HtSafe.HtsModel HtSafe.HtsProofsBase HtSafe.HtsProofsP1 HtSafe.HtsProofsP2 HtSafe.HtsProofsTop
  HtSafe.HtsProofsEq1 HtSafe.HtsProofsEq2.

Lemma lor_range : forall n a b, 0 <= n -> 0 <= a < 2 ^ n -> 0 <= b < 2 ^ n -> 0 <= Z.lor a b < 2 ^ n.
Proof.
  intros n a b Hn Ha Hb.
  rewrite <- (Z.mod_small a (2 ^ n)) by exact Ha. rewrite <- (Z.mod_small b (2 ^ n)) by exact Hb.
  rewrite <- !Z.land_ones by exact Hn. rewrite <- Z.land_lor_distr_l. apply land_ones_range. exact Hn.
Qed.

Lemma dec_sample_val_range : forall m inf uq bit p,
  0 <= fst (fst (dec_sample m inf uq bit p)) < 2 ^ 32.
Proof.
  intros. unfold dec_sample. destruct (Z.land inf (Z.shiftl 1 (4 + bit)) =? 0); [cbn; lia|].
  destruct (ms_fetch m _) as [msVal m']. cbn [fst snd].
  apply lor_range; [lia| |]; apply wrapU_range; lia.
Qed.

Lemma dec_sample_vn_range : forall m inf uq bit p,
  0 <= uq - Z.land (Z.shiftr inf (12 + bit)) 1 <= 31 ->
  0 <= snd (fst (dec_sample m inf uq bit p)) < 2 ^ 32.
Proof.
  intros m inf uq bit p H. unfold dec_sample. destruct (Z.land inf (Z.shiftl 1 (4 + bit)) =? 0); [cbn; lia|].
  set (mn := uq - Z.land (Z.shiftr inf (12 + bit)) 1) in *.
  destruct (ms_fetch m mn) as [msVal m']. cbn [fst snd].
  apply lor_range; [lia| |cbn; lia]. apply lor_range; [lia| |apply wrapU_range; lia].
  rewrite Z.shiftl_mul_pow2 by lia. rewrite Z.mul_1_l.
  assert (P : 0 < 2 ^ mn) by (apply Z.pow_pos_nonneg; lia).
  assert (Q : 2 ^ mn < 2 ^ 32) by (apply Z.pow_lt_mono_r; lia).
  rewrite wrapU_small by lia. replace (2 ^ mn - 1) with (Z.ones mn) by (unfold Z.ones; rewrite Z.shiftl_mul_pow2 by lia; lia).
  pose proof (land_ones_range msVal mn ltac:(lia)). lia.
Qed.

Lemma hsample_eq : forall m inf uq bit p, 1 <= uq ->
  hsample m inf uq bit p =
  Ok (fst (fst (dec_sample (m_ms m) inf uq bit p)), snd (fst (dec_sample (m_ms m) inf uq bit p)),
      mkM (snd (dec_sample (m_ms m) inf uq bit p)) (m_vn m) (m_out m) (m_work m + 1)).
Proof.
  intros m inf uq bit p Hu. unfold hsample.
  destruct (Z.land inf (Z.shiftl 1 (4 + bit)) =? 0) eqn:E.
  - unfold dec_sample. rewrite E. reflexivity.
  - pose proof (land1_range (Z.shiftr inf (12 + bit))).
    replace (uq - Z.land (Z.shiftr inf (12 + bit)) 1 <? 0) with false by (symmetry; apply Z.ltb_ge; lia).
    destruct (dec_sample (m_ms m) inf uq bit p) as [[val vn] ms']. reflexivity.
Qed.

Definition oset_p (b : bool) (o : tree) (i x : Z) : tree := if b then fset o i (wrapU 32 x) else o.

Lemma cond_oset_eq : forall (b : bool) no i x m, (b = true -> 0 <= i < no) ->
  (if b then oset no i x m else Ok m)
    = Ok (mkM (m_ms m) (m_vn m) (oset_p b (m_out m) i x) (m_work m + (if b then 1 else 0))).
Proof.
  intros b no i x m H. destruct b.
  - unfold oset. rewrite hchk_in by (apply H; reflexivity). reflexivity.
  - destruct m as [a c d e]. cbn. rewrite Z.add_0_r. reflexivity.
Qed.

Definition quad_uq (first : bool) (inf uq0 va vb : Z) : Z :=
  if first then uq0
  else uq0 + (if negb (Z.land (Z.land inf 240) (wrapU 32 (Z.land inf 240 - 16)) =? 0)
              then bitlen32_d (Z.lor (Z.lor va vb) 2) - 1 else 1).

Definition quad_pure (w h p r q inf uq prevvn : Z) (ms : msr) (vn out : tree) : Z * msr * tree * tree :=
  let D0 := dec_sample ms inf uq 0 p in
  let D1 := dec_sample (snd D0) inf uq 1 p in
  let o1 := fset out (2 * r * w + 2 * q) (wrapU 32 (fst (fst D0))) in
  let o2 := oset_p (2 * r + 1 <? h) o1 ((2 * r + 1) * w + 2 * q) (fst (fst D1)) in
  let vn' := fset vn q (wrapU 32 (Z.lor prevvn (snd (fst D1)))) in
  if 2 * q + 1 >=? w then (0, snd D1, vn', o2)
  else
    let D2 := dec_sample (snd D1) inf uq 2 p in
    let D3 := dec_sample (snd D2) inf uq 3 p in
    let o3 := fset o2 (2 * r * w + (2 * q + 1)) (wrapU 32 (fst (fst D2))) in
    let o4 := oset_p (2 * r + 1 <? h) o3 ((2 * r + 1) * w + (2 * q + 1)) (fst (fst D3)) in
    (snd (fst D3), snd D3, vn', o4).

Section Quad.
  Variables n nv no : Z.
  Variable sc : tree.
  Variables w h sstr p mm r : Z.
  Variable first : bool.
  Variables q prevvn : Z.
  Variable m : mst.
  Hypothesis I1 : 0 <= r * sstr + 2 * q.
  Hypothesis I2 : r * sstr + 2 * q + 1 < n.
  Hypothesis Q1 : 0 <= q.
  Hypothesis Q2 : q + 1 < nv.
  Hypothesis Hy : 0 <= 2 * r < h.
  Hypothesis Hx : 0 <= 2 * q < w.
  Hypothesis Hno : no = w * h.

  Let inf := rd16 sc (r * sstr + 2 * q).
  Let uq := quad_uq first inf (rd16 sc (r * sstr + 2 * q + 1))
                    (wrapU 32 (fget (m_vn m) q)) (wrapU 32 (fget (m_vn m) (q + 1))).

  Lemma hms_quad_head :
    hms_quad n nv no sc w h sstr p mm r first q (prevvn, m) =
    (if uq >? mm then Err else
       do (v0, n0, m) <- hsample m inf uq 0 p;
       do m <- oset no (2 * r * w + 2 * q) v0 m;
       do (v1, n1, m) <- hsample m inf uq 1 p;
       do m <- (if 2 * r + 1 <? h then oset no ((2 * r + 1) * w + 2 * q) v1 m else Ok m);
       do m <- vset nv q (Z.lor prevvn n1) m;
       if 2 * q + 1 >=? w then Ok (0, m)
       else
         do (v2, n2, m) <- hsample m inf uq 2 p;
         do m <- oset no (2 * r * w + (2 * q + 1)) v2 m;
         do (v3, n3, m) <- hsample m inf uq 3 p;
         do m <- (if 2 * r + 1 <? h then oset no ((2 * r + 1) * w + (2 * q + 1)) v3 m else Ok m);
         Ok (n3, m)).
  Proof.
    unfold hms_quad. cbv zeta.
    rewrite (scget_ok n sc (r * sstr + 2 * q)) by lia. cbn [obind].
    rewrite (scget_ok n sc (r * sstr + 2 * q + 1)) by lia. cbn [obind].
    unfold uq, quad_uq, inf. destruct first; cbn [obind]; [reflexivity|].
    unfold vget. rewrite !hchk_in by lia. cbn [obind]. reflexivity.
  Qed.

  Lemma hms_quad_err : uq >? mm = true ->
    hms_quad n nv no sc w h sstr p mm r first q (prevvn, m) = Err.
  Proof. intros H. rewrite hms_quad_head. rewrite H. reflexivity. Qed.

  Lemma hms_quad_eq : 1 <= uq -> uq >? mm = false ->
    exists wk,
      hms_quad n nv no sc w h sstr p mm r first q (prevvn, m) =
      Ok (fst (fst (fst (quad_pure w h p r q inf uq prevvn (m_ms m) (m_vn m) (m_out m)))),
          mkM (snd (fst (fst (quad_pure w h p r q inf uq prevvn (m_ms m) (m_vn m) (m_out m)))))
              (snd (fst (quad_pure w h p r q inf uq prevvn (m_ms m) (m_vn m) (m_out m))))
              (snd (quad_pure w h p r q inf uq prevvn (m_ms m) (m_vn m) (m_out m))) wk).
  Proof.
    intros Hu Hm. unfold quad_pure. cbv zeta.
    destruct (2 * q + 1 >=? w) eqn:EW; eexists; rewrite hms_quad_head, Hm, EW.
    - rewrite hsample_eq by exact Hu. cbn [obind m_ms m_vn m_out m_work].
      unfold oset at 1. rewrite hchk_in by nia. cbn [obind m_ms m_vn m_out m_work].
      rewrite hsample_eq by exact Hu. cbn [obind m_ms m_vn m_out m_work].
      rewrite cond_oset_eq by (intros B; apply Z.ltb_lt in B; nia). cbn [obind m_ms m_vn m_out m_work].
      unfold vset. rewrite hchk_in by lia. cbn [obind m_ms m_vn m_out m_work].
      cbn [fst snd]. reflexivity.
    - assert (2 * q + 1 < w) by (destruct (Z.geb_spec (2 * q + 1) w); [discriminate|lia]).
      rewrite hsample_eq by exact Hu. cbn [obind m_ms m_vn m_out m_work].
      unfold oset at 1. rewrite hchk_in by nia. cbn [obind m_ms m_vn m_out m_work].
      rewrite hsample_eq by exact Hu. cbn [obind m_ms m_vn m_out m_work].
      rewrite cond_oset_eq by (intros B; apply Z.ltb_lt in B; nia). cbn [obind m_ms m_vn m_out m_work].
      unfold vset. rewrite hchk_in by lia. cbn [obind m_ms m_vn m_out m_work].
      rewrite hsample_eq by exact Hu. cbn [obind m_ms m_vn m_out m_work].
      unfold oset at 1. rewrite hchk_in by nia. cbn [obind m_ms m_vn m_out m_work].
      rewrite hsample_eq by exact Hu. cbn [obind m_ms m_vn m_out m_work].
      rewrite cond_oset_eq by (intros B; apply Z.ltb_lt in B; nia). cbn [obind m_ms m_vn m_out m_work fst snd].
      reflexivity.
  Qed.
End Quad.
