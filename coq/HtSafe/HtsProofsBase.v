(* HtSafe proofs, part 1: checked accessors, the generic loop lemmas, geometry of the scratch
   array, the MelE index, the Scup parser. *)
From V Require Import Common.Base Gen.HtTables_gen HT.HtMel HT.HtVlc HT.HtUvlc HT.HtLevels HT.HtBlockBits
  HT.HtBlockDec T1.T1Store T1.T1ProofsBase HtSafe.HtsModel.

Lemma hchk_in : forall A i n (k : outcome A), 0 <= i < n -> hchk i n k = k.
Proof.
  intros A i n k H. unfold hchk.
  replace (0 <=? i) with true by (symmetry; apply Z.leb_le; lia).
  replace (i <? n) with true by (symmetry; apply Z.ltb_lt; lia). reflexivity.
Qed.

(* loop lemma: index-dependent invariant P, measure wk growing by at most c per iteration *)
Lemma hfor_ok : forall (S : Type) (P : Z -> S -> Prop) (wk : S -> Z) (c : Z) body n i0 (s : S),
  (forall i s, i0 <= i < i0 + Z.of_nat n -> P i s ->
     exists s', body i s = Ok s' /\ P (i + 1) s' /\ wk s' <= wk s + c) ->
  P i0 s ->
  exists s', hfor n i0 body s = Ok s' /\ P (i0 + Z.of_nat n) s' /\ wk s' <= wk s + Z.of_nat n * c.
Proof.
  intros S P wk c body n. induction n as [|n IH]; intros i0 s Hb Hs.
  - exists s. cbn [hfor]. replace (i0 + Z.of_nat 0) with i0 by lia. repeat split; auto. lia.
  - cbn [hfor]. destruct (Hb i0 s) as (s1 & E1 & P1 & W1); [lia | auto |].
    rewrite E1. cbn [obind].
    destruct (IH (i0 + 1) s1) as (s2 & E2 & P2 & W2); [| auto |].
    + intros i s0 Hi Hp. apply Hb; [lia | auto].
    + exists s2. replace (i0 + Z.of_nat (Datatypes.S n)) with (i0 + 1 + Z.of_nat n) by lia.
      repeat split; auto. lia.
Qed.

(* the same with a body that may return Err *)
Lemma hfor_ok_err : forall (S : Type) (P : Z -> S -> Prop) (wk : S -> Z) (c : Z) body n i0 (s : S),
  (forall i s, i0 <= i < i0 + Z.of_nat n -> P i s ->
     body i s = Err \/ exists s', body i s = Ok s' /\ P (i + 1) s' /\ wk s' <= wk s + c) ->
  P i0 s ->
  hfor n i0 body s = Err \/
  exists s', hfor n i0 body s = Ok s' /\ P (i0 + Z.of_nat n) s' /\ wk s' <= wk s + Z.of_nat n * c.
Proof.
  intros S P wk c body n. induction n as [|n IH]; intros i0 s Hb Hs.
  - right. exists s. cbn [hfor]. replace (i0 + Z.of_nat 0) with i0 by lia. repeat split; auto. lia.
  - cbn [hfor]. destruct (Hb i0 s) as [E1 | (s1 & E1 & P1 & W1)]; [lia | auto | |].
    + left. rewrite E1. reflexivity.
    + rewrite E1. cbn [obind].
      destruct (IH (i0 + 1) s1) as [E2 | (s2 & E2 & P2 & W2)]; [| auto | |].
      * intros i s0 Hi Hp. apply Hb; [lia | auto].
      * left. exact E2.
      * right. exists s2. replace (i0 + Z.of_nat (Datatypes.S n)) with (i0 + 1 + Z.of_nat n) by lia.
        repeat split; auto. lia.
Qed.

(* ---------------- store ---------------- *)
Lemma fget_fset_other : forall t i x j, 0 <= i -> 0 <= j -> i <> j -> fget (fset t i x) j = fget t j.
Proof.
  intros t i x j Hi Hj Hne. rewrite fget_fset.
  destruct (Pos.eqb_spec (key j) (key i)) as [E|E]; [|reflexivity].
  exfalso. unfold key in E. apply Z2Pos.inj in E; lia.
Qed.

Lemma wrapU_range : forall n x, 0 <= n -> 0 <= wrapU n x < 2 ^ n.
Proof. intros n x Hn. unfold wrapU. apply Z.mod_pos_bound. apply Z.pow_pos_nonneg; lia. Qed.
Lemma wrapU_idem : forall n x, 0 <= n -> wrapU n (wrapU n x) = wrapU n x.
Proof. intros n x Hn. unfold wrapU. apply Z.mod_mod. apply Z.pow_nonzero; lia. Qed.
Lemma wrapU_small : forall n x, 0 <= x < 2 ^ n -> wrapU n x = x.
Proof. intros n x H. unfold wrapU. apply Z.mod_small. exact H. Qed.

(* ---------------- geometry ---------------- *)
(* sstr = 8 * ((w + 9) / 8) *)
Lemma hts_sstr_eq : forall w, 0 <= w -> hts_sstr w = 8 * ((w + 9) / 8).
Proof.
  intros w Hw. unfold hts_sstr. change 7 with (Z.ones 3) at 2.
  rewrite Z.ldiff_ones_r by lia. rewrite Z.shiftl_mul_pow2, Z.shiftr_div_pow2 by lia.
  change (2 ^ 3) with 8. replace (w + 2 + 7) with (w + 9) by lia. lia.
Qed.

Record geom (w h : Z) : Prop := mkGeom {
  g_np : Z.of_nat (hts_npairs w) = (w + 3) / 4;
  g_nq : Z.of_nat (hts_nquads w) = (w + 1) / 2;
  g_nr : Z.of_nat (hts_nrowsN h) = (h - 1) / 2;
  g_sent : Z.quot (w + 3) 4 * 4 = 4 * ((w + 3) / 4);
  g_rows : Z.quot (h + 1) 2 = (h + 1) / 2;
  g_rem : Z.rem w 2 = w mod 2;
  g_sstr_lo : w + 2 <= hts_sstr w;
  g_sstr_hi : hts_sstr w <= w + 9;
  g_sstr_np : 4 * ((w + 3) / 4) <= hts_sstr w;
  g_slen : hts_slen w h = hts_sstr w * ((h + 1) / 2 + 1) + 8 }.

Lemma geom_of : forall w h, 1 <= w -> 1 <= h -> geom w h.
Proof.
  intros w h Hw Hh.
  assert (Es := hts_sstr_eq w ltac:(lia)).
  constructor.
  - unfold hts_npairs. rewrite Z.quot_div_nonneg by lia. rewrite Z2Nat.id; [reflexivity|].
    apply Z.div_pos; lia.
  - unfold hts_nquads. rewrite Z.quot_div_nonneg by lia. rewrite Z2Nat.id; [reflexivity|].
    apply Z.div_pos; lia.
  - unfold hts_nrowsN. rewrite Z.quot_div_nonneg by lia. rewrite Z2Nat.id; [reflexivity|].
    apply Z.div_pos; lia.
  - rewrite Z.quot_div_nonneg by lia. lia.
  - rewrite Z.quot_div_nonneg by lia. reflexivity.
  - apply Z.rem_mod_nonneg; lia.
  - rewrite Es. pose proof (Z.div_mod (w + 9) 8 ltac:(lia)). pose proof (Z.mod_pos_bound (w + 9) 8 ltac:(lia)). lia.
  - rewrite Es. pose proof (Z.div_mod (w + 9) 8 ltac:(lia)). pose proof (Z.mod_pos_bound (w + 9) 8 ltac:(lia)). lia.
  - rewrite Es. pose proof (Z.div_mod (w + 9) 8 ltac:(lia)). pose proof (Z.mod_pos_bound (w + 9) 8 ltac:(lia)).
    pose proof (Z.div_mod (w + 3) 4 ltac:(lia)). pose proof (Z.mod_pos_bound (w + 3) 4 ltac:(lia)). lia.
  - unfold hts_slen. rewrite Z.quot_div_nonneg by lia. reflexivity.
Qed.

(* an index r*sstr + o of quad row r < R with offset o inside one stripe plus the 8 spare cells
   lies inside the array of R+1 stripes plus 8 *)
Lemma stripe_idx : forall S R r o, 0 <= S -> 0 <= r < R -> 0 <= o < S + 8 ->
  0 <= r * S + o < S * (R + 1) + 8.
Proof. intros. nia. Qed.
Lemma stripe_idx_up : forall S R r o, 0 <= S -> 1 <= r < R -> 0 <= o < S + 8 ->
  0 <= r * S + o - S < S * (R + 1) + 8.
Proof. intros. nia. Qed.

(* ---------------- MelE index ---------------- *)
Definition krange (s : melr) : Prop := 0 <= mr_k s <= 12.

Lemma melr_read_bit_inv : forall s,
  mr_k (snd (melr_read_bit s)) = mr_k s /\ mr_runs (snd (melr_read_bit s)) = mr_runs s.
Proof.
  intros s. unfold melr_read_bit.
  destruct (mr_bitbuf s) as [|b r]; [|cbn; auto].
  destruct (mr_size s <=? 0); [cbn; auto|].
  destruct (mr_data s) as [|d0 dr]; destruct (mr_unstuff s); cbn; auto.
Qed.

Lemma melr_read_run_inv : forall n s acc,
  mr_k (snd (melr_read_run n s acc)) = mr_k s /\ mr_runs (snd (melr_read_run n s acc)) = mr_runs s.
Proof.
  induction n as [|n IH]; intros s acc; cbn [melr_read_run]; [cbn; auto|].
  pose proof (melr_read_bit_inv s) as [A B].
  destruct (melr_read_bit s) as [b s1]. cbn [snd] in A, B.
  destruct (IH s1 (Z.lor (Z.shiftl acc 1) b)) as [C D]. rewrite C, D, A, B. auto.
Qed.

Lemma melr_decode_one_inv : forall s, krange s ->
  krange (melr_decode_one s) /\ zlen (mr_runs (melr_decode_one s)) = zlen (mr_runs s) + 1.
Proof.
  intros s Hk. unfold krange in *. unfold melr_decode_one.
  pose proof (melr_read_bit_inv s) as [A B].
  destruct (melr_read_bit s) as [lead s1]. cbn [snd] in A, B.
  destruct (lead =? 1).
  - cbn [mr_k mr_runs]. rewrite A, B. unfold zlen. rewrite app_length. cbn [length].
    destruct (mr_k s <? 12) eqn:E; [apply Z.ltb_lt in E|]; lia.
  - pose proof (melr_read_run_inv (Z.to_nat (mel_e (mr_k s))) s1 0) as [C D].
    destruct (melr_read_run (Z.to_nat (mel_e (mr_k s))) s1 0) as [run s2]. cbn [snd] in C, D.
    cbn [mr_k mr_runs]. rewrite C, D, A, B. unfold zlen. rewrite app_length. cbn [length].
    destruct (mr_k s >? 0) eqn:E; [apply Z.gtb_lt in E|]; lia.
Qed.

Lemma hmel_more_ok : forall fuel s, krange s -> 8 <= Z.of_nat fuel + zlen (mr_runs s) ->
  exists s', hmel_more fuel s = Ok s' /\ krange s'.
Proof.
  induction fuel as [|f IH]; intros s Hk Hf.
  - cbn [hmel_more]. destruct (zlen (mr_runs s) <? 8) eqn:E; [apply Z.ltb_lt in E; lia|].
    exists s. auto.
  - cbn [hmel_more]. destruct (zlen (mr_runs s) <? 8) eqn:E; [|exists s; auto].
    unfold krange in Hk. rewrite hchk_in by lia.
    destruct (melr_decode_one_inv s Hk) as [K L].
    apply IH; [exact K | lia].
Qed.

Lemma hmel_get_run_ok : forall s, krange s ->
  exists r s', hmel_get_run s = Ok (r, s') /\ krange s'.
Proof.
  intros s Hk. unfold hmel_get_run.
  assert (H : exists s1, (match mr_runs s with [] => hmel_more 8 s | _ => Ok s end) = Ok s1 /\ krange s1).
  { destruct (mr_runs s) eqn:E; [|exists s; auto].
    apply hmel_more_ok; [exact Hk|]. rewrite E. cbn. lia. }
  destruct H as (s1 & E1 & K1). rewrite E1. cbn [obind].
  destruct (mr_runs s1) as [|r q]; [exists 1073741824, s1; auto|].
  eexists _, _. split; [reflexivity|]. unfold krange in *. cbn [mr_k]. exact K1.
Qed.

Lemma melr_init_krange : forall d, krange (melr_init d).
Proof. intros. unfold krange, melr_init. cbn. lia. Qed.

(* ---------------- Scup ---------------- *)
Lemma hts_scup_eq : forall cb, hts_scup cb = scup_parse cb.
Proof.
  intros cb. unfold hts_scup, scup_parse. cbv zeta.
  destruct (zlen cb <? 2) eqn:E; [reflexivity|]. apply Z.ltb_ge in E.
  rewrite !hchk_in by lia.
  set (scup := Z.lor _ _).
  destruct ((scup <? 2) || (scup >? zlen cb) || (scup >? 4079)) eqn:G; [reflexivity|].
  apply orb_false_iff in G. destruct G as [G G3]. apply orb_false_iff in G. destruct G as [G1 G2].
  apply Z.ltb_ge in G1. assert (scup <= zlen cb) by (destruct (Z.gtb_spec scup (zlen cb)); [discriminate|lia]).
  replace (zlen cb - scup <? 0) with false by (symmetry; apply Z.ltb_ge; lia).
  replace (zlen cb <? zlen cb - scup) with false by (symmetry; apply Z.ltb_ge; lia).
  reflexivity.
Qed.

Lemma scup_parse_cld_len : forall cb msd cld, scup_parse cb = Ok (msd, cld) -> 2 <= zlen cld <= 4079.
Proof.
  intros cb msd cld. unfold scup_parse. cbv zeta.
  destruct (zlen cb <? 2) eqn:E; [discriminate|]. apply Z.ltb_ge in E.
  set (scup := Z.lor _ _).
  destruct ((scup <? 2) || (scup >? zlen cb) || (scup >? 4079)) eqn:G; [discriminate|].
  apply orb_false_iff in G. destruct G as [G G3]. apply orb_false_iff in G. destruct G as [G1 G2].
  apply Z.ltb_ge in G1.
  assert (scup <= zlen cb) by (destruct (Z.gtb_spec scup (zlen cb)); [discriminate|lia]).
  assert (scup <= 4079) by (destruct (Z.gtb_spec scup 4079); [discriminate|lia]).
  intros H1. inversion H1. subst. unfold zlen in *. rewrite skipn_length. lia.
Qed.
