(* HtSafe proofs, part 2: phase 1 (MEL + VLC + U-VLC into the scratch array) never panics for
   any stream contents; what it leaves in the odd cells of the first stripe (the U values
   1 + u >= 1 that phase 2 turns into shift counts); work per quad pair. *)
From V Require Import Common.Base Gen.HtTables_gen HT.HtMel HT.HtVlc HT.HtUvlc HT.HtLevels HT.HtBlockBits
  HT.HtBlockDec HT.HtBitLemmas HT.HtProofsTables HT.HtBlockProofsRead HT.HtBlockProofsTotal
  T1.T1Store T1.T1ProofsBase HtSafe.HtsModel HtSafe.HtsProofsBase.

Definition melk_ok (d : dstate) : Prop := krange (snd (fst d)).
Definition rd16 (t : tree) (i : Z) : Z := wrapU 16 (fget t i).
(* the U cells of the first N quads of stripe 0 hold values >= 1 *)
Definition R0 (N : Z) (t : tree) : Prop := forall q, 0 <= q < N -> 1 <= rd16 t (2 * q + 1).

Lemma rd16_w16 : forall t i, w16 (rd16 t i).
Proof. intros. unfold w16, rd16. change 65536 with (2 ^ 16). apply wrapU_range. lia. Qed.

Lemma R0_fset : forall N t j x, R0 N t -> 0 <= j -> 2 * N <= j -> R0 N (fset t j x).
Proof.
  intros N t j x H Hj Hn q Hq. unfold rd16. rewrite fget_fset_other by lia. apply H. exact Hq.
Qed.

(* ---------------- primitives ---------------- *)
Lemma hlut_ok : forall first cq s, c8 cq ->
  hlut first cq s = Ok (lut (lookup_of first) cq (snd (h_d s))).
Proof.
  intros first cq s Hc. unfold hlut.
  rewrite hchk_in by (apply (lut_index_in_table cq (snd (h_d s)) Hc)). reflexivity.
Qed.

Lemma sset_ok : forall n i x s, 0 <= i < n ->
  exists s', sset n i x s = Ok s' /\ h_s s' = fset (h_s s) i (wrapU 16 x) /\ h_d s' = h_d s /\
             h_work s' = h_work s + 1.
Proof. intros n i x s H. unfold sset. rewrite hchk_in by lia. eexists. split; [reflexivity|]. cbn. auto. Qed.

Lemma sget_ok : forall n s i, 0 <= i < n -> sget n s i = Ok (rd16 (h_s s) i).
Proof. intros n s i H. unfold sget. rewrite hchk_in by lia. reflexivity. Qed.

Lemma hmel_event_ok : forall s, melk_ok (h_d s) ->
  exists ev s', hmel_event s = Ok (ev, s') /\ h_s s' = h_s s /\ melk_ok (h_d s') /\
                snd (h_d s') = snd (h_d s) /\ h_work s' = h_work s + 1.
Proof.
  intros s Hk. unfold hmel_event, melk_ok in *.
  destruct (h_d s) as [[run r] v]. cbn [fst snd] in Hk.
  destruct (run - 2 <? 0).
  - destruct (hmel_get_run_ok r Hk) as (r1 & r2 & E & K). rewrite E. cbn [obind].
    eexists _, _. split; [reflexivity|]. cbn. auto.
  - eexists _, _. split; [reflexivity|]. cbn. auto.
Qed.

Lemma cond_zero_run : forall (b : bool) t s, melk_ok (h_d s) ->
  exists t' s', (if b then hzero_run t s else Ok (t, s)) = Ok (t', s') /\ (t' = t \/ t' = 0) /\
                h_s s' = h_s s /\ melk_ok (h_d s') /\ h_work s' <= h_work s + 1.
Proof.
  intros b t s Hk. destruct b.
  - unfold hzero_run. destruct (hmel_event_ok s Hk) as (ev & s1 & E & A & B & _ & C).
    rewrite E. cbn [obind]. eexists _, _. split; [reflexivity|].
    split; [destruct ev; auto|]. split; [exact A|]. split; [exact B|]. lia.
  - exists t, s. split; [reflexivity|]. split; [auto|]. split; [reflexivity|]. split; [exact Hk|]. lia.
Qed.

Lemma hadv_s : forall n s, h_s (hadv n s) = h_s s.
Proof. reflexivity. Qed.
Lemma hadv_k : forall n s, melk_ok (h_d s) -> melk_ok (h_d (hadv n s)).
Proof. intros n s H. unfold hadv, melk_ok, adv in *. cbn [h_d]. destruct (h_d s) as [ms v]. exact H. Qed.
Lemma hadv_w : forall n s, h_work (hadv n s) = h_work s + 1.
Proof. reflexivity. Qed.

Lemma land_ones_range : forall x n, 0 <= n -> 0 <= Z.land x (Z.ones n) < 2 ^ n.
Proof. intros x n Hn. rewrite Z.land_ones by lia. apply Z.mod_pos_bound. apply Z.pow_pos_nonneg; lia. Qed.
Lemma land7_range : forall x, 0 <= Z.land x 7 <= 7.
Proof. intros x. change 7 with (Z.ones 3) at 1 2. pose proof (land_ones_range x 3 ltac:(lia)). change (2 ^ 3) with 8 in H. lia. Qed.
Lemma land15_range : forall x, 0 <= Z.land x 15 <= 15.
Proof. intros x. change 15 with (Z.ones 4) at 1 2. pose proof (land_ones_range x 4 ltac:(lia)). change (2 ^ 4) with 16 in H. lia. Qed.
Lemma shl1_ones : forall n, Z.shiftl 1 n - 1 = Z.ones n.
Proof. intros. unfold Z.ones. lia. Qed.

(* the two U values are small whatever the stream holds *)
Lemma uvlc_out_range : forall initial mode val u0 u1 k,
  ojph_uvlc_decode initial mode val = (u0, u1, k) -> 0 <= u0 < 65535 /\ 0 <= u1 < 65535.
Proof.
  intros initial mode val u0 u1 k. unfold ojph_uvlc_decode. cbv zeta.
  set (e := znth _ _ 0). intros H. inversion H; subst; clear H.
  unfold ue_u0, ue_u1, ue_u0suf, ue_ls, ue_lp. rewrite !shl1_ones.
  pose proof (land7_range (Z.shiftr e 10)). pose proof (land7_range (Z.shiftr e 13)).
  pose proof (land7_range (Z.shiftr e 7)) as Hs. pose proof (land15_range (Z.shiftr e 3)) as Hl.
  set (sl := Z.land (Z.shiftr e 7) 7) in *. set (ts := Z.land (Z.shiftr e 3) 15) in *.
  set (v' := Z.shiftr val (Z.land e 7)).
  pose proof (land_ones_range v' ts ltac:(lia)) as Ht.
  assert (2 ^ ts <= 2 ^ 15) by (apply Z.pow_le_mono_r; lia). change (2 ^ 15) with 32768 in *.
  set (tmp := Z.land v' (Z.ones ts)) in *.
  pose proof (land_ones_range tmp sl ltac:(lia)) as Hu.
  assert (2 ^ sl <= 2 ^ 7) by (apply Z.pow_le_mono_r; lia). change (2 ^ 7) with 128 in *.
  assert (0 <= Z.shiftr tmp sl <= tmp).
  { rewrite Z.shiftr_div_pow2 by lia. split; [apply Z.div_pos; [lia|apply Z.pow_pos_nonneg; lia]|].
    apply Z.div_le_upper_bound; [apply Z.pow_pos_nonneg; lia|].
    assert (0 < 2 ^ sl) by (apply Z.pow_pos_nonneg; lia). nia. }
  lia.
Qed.

Lemma huvlc_ok : forall initial mode s,
  0 <= mode + Z.land (vlc_peek (snd (h_d s))) 63 < (if initial : bool then 320 else 256) ->
  melk_ok (h_d s) ->
  exists u0 u1 s', huvlc initial mode s = Ok (u0, u1, s') /\ 0 <= u0 < 65535 /\ 0 <= u1 < 65535 /\
                   h_s s' = h_s s /\ melk_ok (h_d s') /\ h_work s' = h_work s + 1.
Proof.
  intros initial mode s Hi Hk. unfold huvlc. rewrite hchk_in by exact Hi.
  unfold dec_uvlc, melk_ok in *. destruct (h_d s) as [ms v]. cbn [fst snd] in *.
  destruct (ojph_uvlc_decode initial mode (vlc_peek v)) as [[u0 u1] k] eqn:E.
  destruct (uvlc_out_range _ _ _ _ _ _ E) as [A B].
  eexists _, _, _. split; [reflexivity|]. cbn. auto.
Qed.

(* the optional MEL event that lifts the U-VLC mode 0xC0 to 0x100 on the first row *)
Lemma cond_mode : forall mode s, melk_ok (h_d s) ->
  exists mode' s',
    (if mode =? 192
     then do (ev, s1) <- hmel_event s; Ok ((if ev : bool then mode + 64 else mode), s1)
     else Ok (mode, s)) = Ok (mode', s') /\
    (mode' = mode \/ mode' = mode + 64) /\ snd (h_d s') = snd (h_d s) /\
    h_s s' = h_s s /\ melk_ok (h_d s') /\ h_work s' <= h_work s + 1.
Proof.
  intros mode s Hk. destruct (mode =? 192).
  - destruct (hmel_event_ok s Hk) as (ev & s1 & E & A & B & V & C). rewrite E. cbn [obind].
    eexists _, _. split; [reflexivity|]. split; [destruct ev; auto|]. split; [exact V|]. split; [exact A|].
    split; [exact B|]. lia.
  - exists mode, s. split; [reflexivity|]. split; [auto|]. split; [reflexivity|]. split; [reflexivity|].
    split; [exact Hk|]. lia.
Qed.

Lemma w16_pick : forall t t', w16 t -> (t' = t \/ t' = 0) -> w16 t'.
Proof. intros t t' H [->| ->]; [exact H | unfold w16; lia]. Qed.
Lemma w16_if0 : forall (b : bool) t, w16 t -> w16 (if b then 0 else t).
Proof. intros b t H. destruct b; [unfold w16; lia | exact H]. Qed.

(* ---------------- first row, one quad pair ---------------- *)
Lemma hrow0_pair_ok : forall n w i cq s,
  0 <= i -> 4 * i + 3 < n -> c8 cq -> melk_ok (h_d s) -> R0 (2 * i) (h_s s) ->
  exists cs', hrow0_pair n w i (cq, s) = Ok cs' /\
    c8 (fst cs') /\ melk_ok (h_d (snd cs')) /\ R0 (2 * (i + 1)) (h_s (snd cs')) /\
    h_work (snd cs') <= h_work s + 10.
Proof.
  intros n w i cq s Hi Hn Hc Hk HR. unfold hrow0_pair.
  rewrite (hlut_ok true cq s Hc). cbn [obind].
  pose proof (lut_w16 true cq (snd (h_d s))) as W0r.
  destruct (cond_zero_run (cq =? 0) (lut (lookup_of true) cq (snd (h_d s))) s Hk) as (t0 & s1 & E1 & T0 & S1 & K1 & W1).
  rewrite E1. cbn [obind]. pose proof (w16_pick _ _ W0r T0) as W0. clear E1 T0 W0r.
  destruct (sset_ok n (4 * i) t0 s1 ltac:(lia)) as (s2 & E2 & S2 & D2 & W2). rewrite E2. cbn [obind]. clear E2.
  assert (K2 : melk_ok (h_d s2)) by (rewrite D2; exact K1).
  pose proof (ctx0_c8 t0 W0) as C1.
  set (s3 := hadv (Z.land t0 7) s2).
  rewrite (hlut_ok true _ s3 C1). cbn [obind].
  pose proof (lut_w16 true (ctx0_of t0) (snd (h_d s3))) as W1r.
  destruct (cond_zero_run ((ctx0_of t0 =? 0) && (4 * i + 2 <? w)) (lut (lookup_of true) (ctx0_of t0) (snd (h_d s3))) s3 (hadv_k _ _ K2))
    as (t1a & s4 & E4 & T1 & S4 & K4 & W4).
  rewrite E4. cbn [obind]. pose proof (w16_pick _ _ W1r T1) as W1a. clear E4 T1 W1r.
  pose proof (w16_if0 (4 * i + 2 >=? w) t1a W1a) as W1b. set (t1 := if 4 * i + 2 >=? w then 0 else t1a) in *.
  destruct (sset_ok n (4 * i + 2) t1 s4 ltac:(lia)) as (s5 & E5 & S5 & D5 & W5). rewrite E5. cbn [obind]. clear E5.
  assert (K5 : melk_ok (h_d s5)) by (rewrite D5; exact K4).
  set (s6 := hadv (Z.land t1 7) s5).
  destruct (cond_mode (uvlc_mode t0 t1) s6 (hadv_k _ _ K5)) as (mode' & s7 & E7 & M7 & V7 & S7 & K7 & W7).
  rewrite E7. cbn [obind]. clear E7.
  destruct (uvlc_index_in_table t0 t1 (vlc_peek (snd (h_d s7))) W0 W1b) as (I1 & I2 & _).
  destruct (huvlc_ok true mode' s7) as (u0 & u1 & s8 & E8 & U0 & U1 & S8 & K8 & W8); [|exact K7|].
  { cbv zeta in I1, I2. destruct M7 as [-> | ->]; lia. }
  rewrite E8. cbn [obind]. clear E8.
  destruct (sset_ok n (4 * i + 1) (1 + u0) s8 ltac:(lia)) as (s9 & E9 & S9 & D9 & W9). rewrite E9. cbn [obind]. clear E9.
  destruct (sset_ok n (4 * i + 3) (1 + u1) s9 ltac:(lia)) as (s10 & E10 & S10 & D10 & W10). rewrite E10. cbn [obind]. clear E10.
  eexists. split; [reflexivity|]. cbn [fst snd].
  split; [apply ctx0_c8; exact W1b|].
  split; [rewrite D10, D9; exact K8|].
  split.
  - rewrite S10, S9, S8, S7. unfold s6. rewrite hadv_s, S5, S4. unfold s3. rewrite hadv_s, S2, S1.
    intros q Hq. unfold rd16.
    destruct (Z.eq_dec q (2 * i + 1)) as [->|N1].
    + replace (2 * (2 * i + 1) + 1) with (4 * i + 3) by lia. rewrite fget_fset_same.
      rewrite wrapU_idem by lia. rewrite wrapU_small; [lia|]. change (2 ^ 16) with 65536. lia.
    + destruct (Z.eq_dec q (2 * i)) as [->|N2].
      * replace (2 * (2 * i) + 1) with (4 * i + 1) by lia.
        rewrite fget_fset_other by lia. rewrite fget_fset_same.
        rewrite wrapU_idem by lia. rewrite wrapU_small; [lia|]. change (2 ^ 16) with 65536. lia.
      * rewrite !fget_fset_other by lia. apply HR. lia.
  - rewrite W10, W9, W8. unfold s6 in W7. rewrite hadv_w in W7. unfold s3 in W4. rewrite hadv_w in W4. lia.
Qed.

(* ---------------- later rows, one quad pair ---------------- *)
Lemma hrowN_pair_ok : forall n w sstr r i cq s N,
  1 <= sstr -> 0 <= r * sstr + 4 * i - sstr -> r * sstr + 4 * i + 3 < n -> 2 * N <= r * sstr + 4 * i ->
  c8 cq -> melk_ok (h_d s) -> R0 N (h_s s) ->
  exists cs', hrowN_pair n w sstr r i (cq, s) = Ok cs' /\
    c8 (fst cs') /\ melk_ok (h_d (snd cs')) /\ R0 N (h_s (snd cs')) /\
    h_work (snd cs') <= h_work s + 9.
Proof.
  intros n w sstr r i cq s N Hs Hlo Hhi HN Hc Hk HR. unfold hrowN_pair.
  set (sp := r * sstr + 4 * i) in *.
  rewrite (sget_ok n s (sp - sstr)) by lia. cbn [obind].
  rewrite (sget_ok n s (sp - sstr + 2)) by lia. cbn [obind].
  pose proof (ctxN_first_c8 cq _ _ Hc (rd16_w16 (h_s s) (sp - sstr)) (rd16_w16 (h_s s) (sp - sstr + 2))) as C0.
  rewrite (hlut_ok false _ s C0). cbn [obind].
  pose proof (lut_w16 false (Z.lor cq (Z.lor (Z.shiftl (Z.land (rd16 (h_s s) (sp - sstr)) 160) 2)
     (Z.shiftl (Z.land (rd16 (h_s s) (sp - sstr + 2)) 32) 4))) (snd (h_d s))) as W0r.
  destruct (cond_zero_run (Z.lor cq (Z.lor (Z.shiftl (Z.land (rd16 (h_s s) (sp - sstr)) 160) 2)
     (Z.shiftl (Z.land (rd16 (h_s s) (sp - sstr + 2)) 32) 4)) =? 0)
     (lut (lookup_of false) (Z.lor cq (Z.lor (Z.shiftl (Z.land (rd16 (h_s s) (sp - sstr)) 160) 2)
     (Z.shiftl (Z.land (rd16 (h_s s) (sp - sstr + 2)) 32) 4))) (snd (h_d s))) s Hk) as (t0 & s1 & E1 & T0 & S1 & K1 & W1).
  rewrite E1. cbn [obind]. pose proof (w16_pick _ _ W0r T0) as W0. clear E1 T0 W0r C0.
  destruct (sset_ok n sp t0 s1 ltac:(lia)) as (s2 & E2 & S2 & D2 & W2). rewrite E2. cbn [obind]. clear E2.
  assert (K2 : melk_ok (h_d s2)) by (rewrite D2; exact K1).
  rewrite (sget_ok n s2 (sp - sstr)) by lia. cbn [obind].
  rewrite (sget_ok n s2 (sp - sstr + 2)) by lia. cbn [obind].
  rewrite (sget_ok n s2 (sp - sstr + 4)) by lia. cbn [obind].
  pose proof (ctxN_second_c8 t0 _ _ _ W0 (rd16_w16 (h_s s2) (sp - sstr)) (rd16_w16 (h_s s2) (sp - sstr + 2))
                (rd16_w16 (h_s s2) (sp - sstr + 4))) as C1.
  set (cq1 := Z.lor (Z.lor (Z.lor (Z.shiftl (Z.land t0 64) 2) (Z.shiftl (Z.land t0 128) 1)) _) _) in *.
  set (s3 := hadv (Z.land t0 7) s2).
  rewrite (hlut_ok false cq1 s3 C1). cbn [obind].
  pose proof (lut_w16 false cq1 (snd (h_d s3))) as W1r.
  destruct (cond_zero_run ((cq1 =? 0) && (4 * i + 2 <? w)) (lut (lookup_of false) cq1 (snd (h_d s3))) s3 (hadv_k _ _ K2))
    as (t1a & s4 & E4 & T1 & S4 & K4 & W4).
  rewrite E4. cbn [obind]. pose proof (w16_pick _ _ W1r T1) as W1a. clear E4 T1 W1r.
  pose proof (w16_if0 (4 * i + 2 >=? w) t1a W1a) as W1b. set (t1 := if 4 * i + 2 >=? w then 0 else t1a) in *.
  destruct (sset_ok n (sp + 2) t1 s4 ltac:(lia)) as (s5 & E5 & S5 & D5 & W5). rewrite E5. cbn [obind]. clear E5.
  assert (K5 : melk_ok (h_d s5)) by (rewrite D5; exact K4).
  rewrite (sget_ok n s5 (sp - sstr + 2)) by lia. cbn [obind].
  set (s6 := hadv (Z.land t1 7) s5).
  destruct (uvlc_index_in_table t0 t1 (vlc_peek (snd (h_d s6))) W0 W1b) as (_ & I2 & _).
  destruct (huvlc_ok false (uvlc_mode t0 t1) s6) as (u0 & u1 & s8 & E8 & U0 & U1 & S8 & K8 & W8);
    [exact I2 | apply hadv_k; exact K5 |].
  rewrite E8. cbn [obind]. clear E8.
  destruct (sset_ok n (sp + 1) u0 s8 ltac:(lia)) as (s9 & E9 & S9 & D9 & W9). rewrite E9. cbn [obind]. clear E9.
  destruct (sset_ok n (sp + 3) u1 s9 ltac:(lia)) as (s10 & E10 & S10 & D10 & W10). rewrite E10. cbn [obind]. clear E10.
  eexists. split; [reflexivity|]. cbn [fst snd].
  split; [apply ctxN_carry_c8; [exact W1b | apply rd16_w16]|].
  split; [rewrite D10, D9; exact K8|].
  split.
  - rewrite S10, S9, S8. unfold s6. rewrite hadv_s, S5, S4. unfold s3. rewrite hadv_s, S2, S1.
    repeat apply R0_fset; try lia. exact HR.
  - rewrite W10, W9, W8. unfold s6. rewrite hadv_w. unfold s3 in W4. rewrite hadv_w in W4. lia.
Qed.

(* ---------------- rows and phase 1 ---------------- *)
Section Phase1.
  Variables w h n sstr NP R : Z.
  Hypothesis Hsstr : 1 <= sstr.
  Hypothesis HNP : 0 <= NP.
  Hypothesis Hnp : 4 * NP <= sstr.
  Hypothesis HR : 1 <= R.
  Hypothesis Hn : n = sstr * (R + 1) + 8.

  Lemma hrow0_ok : forall s, melk_ok (h_d s) ->
    exists cs', hfor (Z.to_nat NP) 0 (hrow0_pair n w) (0, s) = Ok cs' /\
      melk_ok (h_d (snd cs')) /\ R0 (2 * NP) (h_s (snd cs')) /\ h_work (snd cs') <= h_work s + NP * 10.
  Proof.
    intros s Hk.
    destruct (hfor_ok (Z * hst)
                (fun i cs => c8 (fst cs) /\ melk_ok (h_d (snd cs)) /\ R0 (2 * i) (h_s (snd cs)))
                (fun cs => h_work (snd cs)) 10 (hrow0_pair n w) (Z.to_nat NP) 0 (0, s))
      as (cs' & E & (C & K & R') & W).
    - intros i [cq s0] Hi (C & K & R'). cbn [fst snd] in *. rewrite Z2Nat.id in Hi by lia.
      assert (I1 : 4 * i + 3 < n) by nia.
      destruct (hrow0_pair_ok n w i cq s0 ltac:(lia) I1 C K R') as (cs' & E & C' & K' & R'' & W').
      exists cs'. auto.
    - cbn [fst snd]. split; [apply c8_0|]. split; [exact Hk|]. intros q Hq. lia.
    - exists cs'. rewrite Z2Nat.id in * by lia. cbn [snd] in W. replace (0 + NP) with NP in R' by lia.
      split; [exact E|]. split; [exact K|]. split; [exact R'|]. exact W.
  Qed.

  Lemma hrowN_ok : forall r s, 1 <= r < R -> melk_ok (h_d s) -> R0 (2 * NP) (h_s s) ->
    exists s', hrowN n w sstr (Z.to_nat NP) r s = Ok s' /\
      melk_ok (h_d s') /\ R0 (2 * NP) (h_s s') /\ h_work s' <= h_work s + (NP * 9 + 2).
  Proof.
    intros r s Hr Hk HR0. unfold hrowN.
    destruct (hfor_ok (Z * hst)
                (fun (_ : Z) cs => c8 (fst cs) /\ melk_ok (h_d (snd cs)) /\ R0 (2 * NP) (h_s (snd cs)))
                (fun cs => h_work (snd cs)) 9 (hrowN_pair n w sstr r) (Z.to_nat NP) 0 (0, s))
      as (cs' & E & (C & K & R') & W).
    - intros i [cq s0] Hi (C & K & R'). cbn [fst snd] in *. rewrite Z2Nat.id in Hi by lia.
      assert (I1 : 0 <= r * sstr + 4 * i - sstr) by nia.
      assert (I2 : r * sstr + 4 * i + 3 < n) by nia.
      assert (I3 : 2 * (2 * NP) <= r * sstr + 4 * i) by nia.
      destruct (hrowN_pair_ok n w sstr r i cq s0 (2 * NP) Hsstr I1 I2 I3 C K R') as (cs' & E & C' & K' & R'' & W').
      exists cs'. auto.
    - cbn [fst snd]. split; [apply c8_0|]. auto.
    - rewrite E. cbn [obind]. rewrite Z2Nat.id in * by lia. cbn [snd] in W.
      destruct (sset_ok n (r * sstr + 4 * NP) 0 (snd cs') ltac:(nia)) as (s1 & E1 & S1 & D1 & W1).
      rewrite E1. cbn [obind].
      destruct (sset_ok n (r * sstr + 4 * NP + 1) 0 s1 ltac:(nia)) as (s2 & E2 & S2 & D2 & W2).
      rewrite E2. exists s2. split; [reflexivity|].
      split; [rewrite D2, D1; exact K|].
      split; [rewrite S2, S1; repeat apply R0_fset; try nia; exact R'|]. lia.
  Qed.

  Lemma hts_phase1_ok : forall s NR, 0 <= NR -> NR + 1 <= R ->
    Z.quot (w + 3) 4 * 4 = 4 * NP -> hts_npairs w = Z.to_nat NP -> hts_nrowsN h = Z.to_nat NR ->
    melk_ok (h_d s) ->
    exists s', hts_phase1 n w h sstr s = Ok s' /\ R0 (2 * NP) (h_s s') /\
      h_work s' <= h_work s + (NP * 10 + 2 + NR * (NP * 9 + 2)).
  Proof.
    intros s NR HNR HNRR Hsent Enp Enr Hk. unfold hts_phase1. rewrite Enp, Enr, Hsent.
    destruct (hrow0_ok s Hk) as (cs' & E & K & R' & W). rewrite E. cbn [obind].
    destruct (sset_ok n (4 * NP + 0) 0 (snd cs') ltac:(nia)) as (s1 & E1 & S1 & D1 & W1).
    rewrite E1. cbn [obind].
    destruct (sset_ok n (4 * NP + 1) 0 s1 ltac:(nia)) as (s2 & E2 & S2 & D2 & W2).
    rewrite E2. cbn [obind].
    destruct (hfor_ok hst (fun (_ : Z) s => melk_ok (h_d s) /\ R0 (2 * NP) (h_s s)) h_work (NP * 9 + 2)
                (hrowN n w sstr (Z.to_nat NP)) (Z.to_nat NR) 1 s2) as (s' & E' & (K' & R'') & W').
    - intros r s0 Hr (K0 & R0'). rewrite Z2Nat.id in Hr by lia.
      destruct (hrowN_ok r s0 ltac:(lia) K0 R0') as (s0' & E0 & K0' & R0'' & W0).
      exists s0'. auto.
    - split; [rewrite D2, D1; exact K|]. rewrite S2, S1. repeat apply R0_fset; try lia; exact R'.
    - exists s'. rewrite Z2Nat.id in W' by lia. split; [exact E'|]. split; [exact R''|]. lia.
  Qed.
End Phase1.
