(* HtSafe proofs, part 9 (refinement, fifth file): phase 2, one quad row.  The loop over the
   quads of a row against dec_ms_row: same MagSgn stream, the two output lines, the new
   vnScratch contents (updated in place: quad q reads cells q, q+1 before it writes cell q). *)
From V Require Import Common.Base Gen.HtTables_gen HT.HtMel HT.HtVlc HT.HtUvlc HT.HtLevels HT.HtBlockBits
  HT.HtBlockDec HT.HtProofsTables HT.HtBlockProofsTotal T1.T1Store T1.T1ProofsBase
  HtSafe.HtsModel HtSafe.HtsProofsBase HtSafe.HtsProofsP1 HtSafe.HtsProofsP2 HtSafe.HtsProofsTop
  HtSafe.HtsProofsEq1 HtSafe.HtsProofsEq2 HtSafe.HtsProofsEq4.

Fixpoint rdo (k : nat) (t : tree) (base : Z) : list Z :=
  match k with O => [] | S k' => fget t base :: rdo k' t (base + 1) end.

Lemma rdo_ext : forall k t t' base,
  (forall c, base <= c < base + Z.of_nat k -> fget t c = fget t' c) -> rdo k t base = rdo k t' base.
Proof.
  induction k as [|k IH]; intros t t' base H; cbn [rdo]; [reflexivity|].
  rewrite (H base) by lia. rewrite (IH t t' (base + 1)); [reflexivity|]. intros c Hc. apply H. lia.
Qed.

Lemma rdo_app : forall a b t base, rdo (a + b) t base = rdo a t base ++ rdo b t (base + Z.of_nat a).
Proof.
  induction a as [|a IH]; intros b t base.
  - cbn. rewrite Z.add_0_r. reflexivity.
  - cbn [Nat.add rdo app]. rewrite IH. do 3 f_equal. lia.
Qed.

Lemma rdo_hzseq : forall k t i, map (fget t) (hzseq k i) = rdo k t i.
Proof. induction k as [|k IH]; intros; cbn [hzseq map rdo]; [reflexivity|]. rewrite IH. reflexivity. Qed.

Lemma mkM_eta : forall m, mkM (m_ms m) (m_vn m) (m_out m) (m_work m) = m.
Proof. intros [a b c d]. reflexivity. Qed.

Lemma znth_z0 : forall (a : Z) l, znth (a :: l) 0 0 = a.
Proof. reflexivity. Qed.

Lemma firstn_S_rdq : forall k (rowsuf : list (Z * Z)) sc b,
  firstn (S k) rowsuf = rdq (S k) sc b ->
  exists row', rowsuf = (rd16 sc b, rd16 sc (b + 1)) :: row' /\ firstn k row' = rdq k sc (b + 2).
Proof.
  intros k rowsuf sc b H. destruct rowsuf as [|x row']; cbn [firstn rdq] in H; [discriminate|].
  injection H as -> H'. exists row'. auto.
Qed.

Section Row.
  Variables n nv no : Z.
  Variable sc : tree.
  Variables w h sstr p mm r : Z.
  Variable first : bool.
  Variable vnp : list Z.
  Hypothesis Hw : 1 <= w.
  Hypothesis Hno : no = w * h.
  Hypothesis Hnv : nv = w + 4.
  Hypothesis Hy : 0 <= 2 * r < h.
  Hypothesis Hmm : mm <= 31.
  Hypothesis Hidx : forall q, 0 <= 2 * q < w -> 0 <= r * sstr + 2 * q /\ r * sstr + 2 * q + 1 < n.
  Hypothesis HR0 : first = true -> forall q, 0 <= 2 * q < w -> 1 <= rd16 sc (r * sstr + 2 * q + 1).

  Lemma quad_uq_ge1 : forall q a b, 0 <= 2 * q < w ->
    1 <= quad_uq first (rd16 sc (r * sstr + 2 * q)) (rd16 sc (r * sstr + 2 * q + 1)) (wrapU 32 a) (wrapU 32 b).
  Proof.
    intros q a b Hq. unfold quad_uq. destruct first eqn:F.
    - apply HR0; [reflexivity|exact Hq].
    - pose proof (rd16_w16 sc (r * sstr + 2 * q + 1)) as U. unfold w16 in U.
      pose proof (emax_ge1 (wrapU 32 a) (wrapU 32 b)
                    (proj1 (wrapU_range 32 a ltac:(lia))) (proj1 (wrapU_range 32 b ltac:(lia)))).
      destruct (negb _); lia.
  Qed.

  Lemma hms_loop_eq : forall k q rowsuf prevvn m,
    0 <= q -> w <= 2 * (q + Z.of_nat k) <= w + 1 -> (k = O -> 2 * q = w) ->
    firstn k rowsuf = rdq k sc (r * sstr + 2 * q) ->
    0 <= prevvn < 2 ^ 32 ->
    (first = false -> forall j, q <= j <= q + Z.of_nat k -> wrapU 32 (fget (m_vn m) j) = znth vnp j 0) ->
    match dec_ms_row rowsuf first vnp w (2 * q) q p mm prevvn (m_ms m) with
    | None => hfor k q (hms_quad n nv no sc w h sstr p mm r first) (prevvn, m) = Err
    | Some (tops, bots, vns, ms') =>
      exists pv vn' out' wk,
        hfor k q (hms_quad n nv no sc w h sstr p mm r first) (prevvn, m) = Ok (pv, mkM ms' vn' out' wk) /\
        length tops = Z.to_nat (w - 2 * q) /\ length bots = Z.to_nat (w - 2 * q) /\
        rdo (Z.to_nat (w - 2 * q)) out' (2 * r * w + 2 * q) = tops /\
        (2 * r + 1 < h -> rdo (Z.to_nat (w - 2 * q)) out' ((2 * r + 1) * w + 2 * q) = bots) /\
        (forall c, 0 <= c -> ~ (2 * r * w + 2 * q <= c < 2 * r * w + w) ->
                   ~ ((2 * r + 1) * w + 2 * q <= c < (2 * r + 1) * w + w) -> fget out' c = fget (m_out m) c) /\
        (forall j, 0 <= j < Z.of_nat k -> wrapU 32 (fget vn' (q + j)) = znth vns j 0) /\
        (2 * (q + Z.of_nat k) = w -> znth vns (Z.of_nat k) 0 = pv /\ 0 <= pv < 2 ^ 32) /\
        (2 * (q + Z.of_nat k) = w + 1 -> pv = 0 /\ znth vns (Z.of_nat k) 0 = 0) /\
        (forall j, 0 <= j -> j < q \/ q + Z.of_nat k <= j -> fget vn' j = fget (m_vn m) j)
    end.
  Proof.
    induction k as [|k IH]; intros q rowsuf prevvn m Hq Hb Hk0 Hrow Hpv Hvn.
    - specialize (Hk0 eq_refl).
      assert (ED : dec_ms_row rowsuf first vnp w (2 * q) q p mm prevvn (m_ms m) = Some ([], [], [prevvn], m_ms m)).
      { destruct rowsuf; cbn [dec_ms_row]; replace (2 * q >=? w) with true by (symmetry; apply Z.geb_le; lia);
          reflexivity. }
      rewrite ED. exists prevvn, (m_vn m), (m_out m), (m_work m). cbn [hfor]. rewrite mkM_eta.
      replace (w - 2 * q) with 0 by lia. change (Z.to_nat 0) with O. cbn [rdo length].
      repeat split; auto; try lia.
    - rewrite Nat2Z.inj_succ in *. cbn [hfor].
      destruct (firstn_S_rdq _ _ _ _ Hrow) as (row' & -> & Hrow'). clear Hrow.
      assert (Hx : 0 <= 2 * q < w) by lia. destruct (Hidx q Hx) as [I1 I2].
      set (INF := rd16 sc (r * sstr + 2 * q)) in *.
      set (UQ := quad_uq first INF (rd16 sc (r * sstr + 2 * q + 1))
                   (wrapU 32 (fget (m_vn m) q)) (wrapU 32 (fget (m_vn m) (q + 1)))).
      assert (HU : 1 <= UQ) by (apply quad_uq_ge1; exact Hx).
      cbn [dec_ms_row]. replace (2 * q >=? w) with false by (destruct (Z.geb_spec (2 * q) w); [exfalso; lia|reflexivity]).
      cbv zeta.
      match goal with |- context [if first then rd16 sc (r * sstr + 2 * q + 1) else ?e] =>
        assert (EU : (if first then rd16 sc (r * sstr + 2 * q + 1) else e) = UQ) end.
      { unfold UQ, quad_uq. destruct first eqn:F; [reflexivity|].
        rewrite (Hvn eq_refl q) by lia. rewrite (Hvn eq_refl (q + 1)) by lia. reflexivity. }
      rewrite EU. clear EU.
      destruct (UQ >? mm) eqn:EM.
      + rewrite hms_quad_err; try lia; try assumption. reflexivity.
      + assert (HUm : UQ <= mm) by (destruct (Z.gtb_spec UQ mm); [discriminate|lia]).
        pose proof (hms_quad_eq n nv no sc w h sstr p mm r first q prevvn m) as QE.
        repeat (match type of QE with ?A -> _ =>
                  let H := fresh in assert (H : A) by (first [lia | assumption]); specialize (QE H); clear H end).
        destruct QE as (wk & E). rewrite E. cbn [obind]. clear E. fold INF. fold UQ.
        unfold quad_pure. cbv zeta.
        assert (MN : forall bit, 0 <= UQ - Z.land (Z.shiftr INF (12 + bit)) 1 <= 31).
        { intros bit. pose proof (land1_range (Z.shiftr INF (12 + bit))). lia. }
        pose proof (dec_sample_val_range (m_ms m) INF UQ 0 p) as V0.
        destruct (dec_sample (m_ms m) INF UQ 0 p) as [[v0 n0] ms0]. cbn [fst snd] in *.
        pose proof (dec_sample_val_range ms0 INF UQ 1 p) as V1.
        pose proof (dec_sample_vn_range ms0 INF UQ 1 p (MN 1)) as N1.
        destruct (dec_sample ms0 INF UQ 1 p) as [[v1 n1] ms1]. cbn [fst snd] in *.
        pose proof (lor_range 32 prevvn n1 ltac:(lia) Hpv N1) as VJ.
        destruct (2 * q + 1 >=? w) eqn:EW.
        * assert (w <= 2 * q + 1) by (destruct (Z.geb_spec (2 * q + 1) w); [lia|discriminate]).
          destruct k as [|k]; [|lia]. cbn [hfor fst snd].
          eexists _, _, _, _. split; [reflexivity|].
          replace (w - 2 * q) with 1 by lia. change (Z.to_nat 1) with 1%nat. cbn [rdo length].
          split; [reflexivity|]. split; [reflexivity|].
          split.
          { f_equal. unfold oset_p. destruct (2 * r + 1 <? h); rewrite ?fget_fset_other by nia;
              rewrite fget_fset_same; apply wrapU_small; exact V0. }
          split.
          { intros B. replace (2 * r + 1 <? h) with true by (symmetry; apply Z.ltb_lt; lia).
            unfold oset_p. rewrite fget_fset_same. f_equal. apply wrapU_small; exact V1. }
          split.
          { intros c Hc A B. unfold oset_p. destruct (2 * r + 1 <? h); rewrite ?fget_fset_other by nia; reflexivity. }
          split.
          { intros j Hj. replace (q + j) with q by lia. replace j with 0 by lia.
            rewrite fget_fset_same. rewrite wrapU_idem by lia. rewrite znth_z0. apply wrapU_small; exact VJ. }
          split; [intros; lia|].
          split; [intros _; split; reflexivity|].
          intros j Hj Hjq. rewrite fget_fset_other by lia. reflexivity.
        * assert (2 * q + 1 < w) by (destruct (Z.geb_spec (2 * q + 1) w); [discriminate|lia]).
          pose proof (dec_sample_val_range ms1 INF UQ 2 p) as V2.
          destruct (dec_sample ms1 INF UQ 2 p) as [[v2 n2] ms2]. cbn [fst snd] in *.
          pose proof (dec_sample_val_range ms2 INF UQ 3 p) as V3.
          pose proof (dec_sample_vn_range ms2 INF UQ 3 p (MN 3)) as N3.
          destruct (dec_sample ms2 INF UQ 3 p) as [[v3 n3] ms3]. cbn [fst snd] in *.
          match goal with |- context [hfor k (q + 1) _ (n3, ?m1)] => set (M1 := m1) end.
          specialize (IH (q + 1) row' n3 M1 ltac:(lia) ltac:(lia) ltac:(intros ->; lia)).
          replace (r * sstr + 2 * (q + 1)) with (r * sstr + 2 * q + 2) in IH by lia.
          specialize (IH Hrow' N3).
          assert (Hvn1 : first = false -> forall j, q + 1 <= j <= q + 1 + Z.of_nat k ->
                                            wrapU 32 (fget (m_vn M1) j) = znth vnp j 0).
          { intros F j Hj. unfold M1. cbn [m_vn]. rewrite fget_fset_other by lia. apply (Hvn F). lia. }
          specialize (IH Hvn1). clear Hvn1.
          replace (2 * (q + 1)) with (2 * q + 2) in IH by lia.
          unfold M1 in IH at 1. cbn [m_ms] in IH.
          destruct (dec_ms_row row' first vnp w (2 * q + 2) (q + 1) p mm n3 ms3) as [[[[tops' bots'] vns'] ms']|].
          2:{ exact IH. }
          destruct IH as (pv & vn' & out' & wk' & E' & L1 & L2 & O1 & O2 & OF & V1' & VE & VO & VF).
          exists pv, vn', out', wk'. split; [exact E'|].
          unfold M1 in OF, VF. cbn [m_out m_vn] in OF, VF.
          replace (Z.to_nat (w - 2 * q)) with (S (S (Z.to_nat (w - (2 * q + 2))))) by lia.
          cbn [length rdo].
          split; [rewrite L1; reflexivity|]. split; [rewrite L2; reflexivity|].
          split.
          { replace (2 * r * w + 2 * q + 1 + 1) with (2 * r * w + (2 * q + 2)) by lia. rewrite O1.
            replace (2 * r * w + 2 * q + 1) with (2 * r * w + (2 * q + 1)) by lia.
            rewrite !OF by nia. unfold oset_p.
            destruct (2 * r + 1 <? h); rewrite ?fget_fset_other by nia; rewrite !fget_fset_same;
              rewrite ?fget_fset_other by nia; rewrite ?fget_fset_same;
              rewrite (wrapU_small 32 v0 V0), (wrapU_small 32 v2 V2); reflexivity. }
          split.
          { intros B. replace ((2 * r + 1) * w + 2 * q + 1 + 1) with ((2 * r + 1) * w + (2 * q + 2)) by lia.
            rewrite (O2 B).
            replace ((2 * r + 1) * w + 2 * q + 1) with ((2 * r + 1) * w + (2 * q + 1)) by lia.
            rewrite !OF by nia. unfold oset_p.
            replace (2 * r + 1 <? h) with true by (symmetry; apply Z.ltb_lt; lia).
            rewrite fget_fset_same. rewrite ?fget_fset_other by nia. rewrite fget_fset_same.
            rewrite (wrapU_small 32 v1 V1), (wrapU_small 32 v3 V3). reflexivity. }
          split.
          { intros c Hc A B. rewrite OF by nia. unfold oset_p.
            destruct (2 * r + 1 <? h); rewrite ?fget_fset_other by nia; reflexivity. }
          split.
          { intros j Hj. destruct (Z.eq_dec j 0) as [->|NJ].
            - rewrite znth_z0. rewrite VF by lia. replace (q + 0) with q by lia.
              rewrite fget_fset_same. rewrite wrapU_idem by lia. apply wrapU_small; exact VJ.
            - rewrite znth_cons_p by lia. rewrite <- V1' by lia. do 2 f_equal. lia. }
          split.
          { intros B. rewrite znth_cons_p by lia. replace (Z.succ (Z.of_nat k) - 1) with (Z.of_nat k) by lia.
            apply VE. lia. }
          split.
          { intros B. rewrite znth_cons_p by lia. replace (Z.succ (Z.of_nat k) - 1) with (Z.of_nat k) by lia.
            apply VO. lia. }
          intros j Hj Hjq. rewrite VF by lia. rewrite fget_fset_other by lia. reflexivity.
  Qed.
End Row.
