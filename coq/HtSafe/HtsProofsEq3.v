(* HtSafe proofs, part 7 (refinement, third file): phase 1 as a whole.  After hts_phase1 the
   stripes of the scratch array are the rows of dec_row0 / dec_rows. *)
From V Require Import Common.Base Gen.HtTables_gen HT.HtMel HT.HtVlc HT.HtUvlc HT.HtLevels HT.HtBlockBits
  HT.HtBlockDec HT.HtProofsTables HT.HtBlockProofsTotal T1.T1Store T1.T1ProofsBase
  HtSafe.HtsModel HtSafe.HtsProofsBase HtSafe.HtsProofsP1 HtSafe.HtsProofsP2 HtSafe.HtsProofsTop
  HtSafe.HtsProofsEq1 HtSafe.HtsProofsEq2.

Section Phase1Eq.
  Variables n w h sstr R : Z.
  Variable NPn : nat.
  Let NP := Z.of_nat NPn.
  Hypothesis Hsstr : 5 <= sstr.
  Hypothesis Hsw : w + 2 <= sstr.
  Hypothesis Hnp : 4 * NP <= sstr.
  Hypothesis Hn : n = sstr * (R + 1) + 8.
  Hypothesis HR : 1 <= R.

  Fixpoint stripes (t : tree) (r : Z) (rows : list (list (Z * Z))) : Prop :=
    match rows with
    | [] => True
    | row :: rest => rdq (NPn + NPn) t (r * sstr) = row /\ stripes t (r + 1) rest
    end.

  Lemma above_of_rdq : forall T b row,
    rdq (NPn + NPn) T b = row -> rd16 T (b + 4 * NP) = 0 ->
    forall j, 0 <= j <= 2 * NP -> rd16 T (b + 2 * j) = above row j.
  Proof.
    intros T b row H H0 j Hj. unfold above. destruct (Z.eq_dec j (2 * NP)) as [->|N].
    - replace (b + 2 * (2 * NP)) with (b + 4 * NP) by lia. rewrite H0.
      rewrite znth_over; [reflexivity|]. rewrite <- H, rdq_length. unfold NP. lia.
    - rewrite <- H. rewrite rdq_znth by (unfold NP in *; lia). reflexivity.
  Qed.

  Lemma hrows_loop_eq : forall k r arow s,
    1 <= r -> r + Z.of_nat k <= R -> above_ok w sstr NPn (h_s s) r arow -> melk_ok (h_d s) ->
    exists s', hfor k r (hrowN n w sstr NPn) s = Ok s' /\
      stripes (h_s s') r (dec_rows k NPn arow w (h_d s)) /\
      (forall c, 0 <= c < r * sstr -> fget (h_s s') c = fget (h_s s) c).
  Proof.
    induction k as [|k IH]; intros r arow s Hr Hrk HA Hk.
    - cbn [hfor dec_rows stripes]. exists s. auto.
    - cbn [hfor]. unfold hrowN.
      destruct (hrowN_loop_eq n w sstr R NPn Hsstr Hsw Hnp Hn r arow ltac:(lia) NPn 0 0 s
                  ltac:(lia) ltac:(lia) c8_0 Hk HA) as (cq' & wk & T1 & E1 & R1 & K1 & Fr1).
      change (4 * 0) with 0 in *. change (2 * 0) with 0 in *. rewrite Z.add_0_r in R1.
      rewrite E1. cbn [obind snd]. clear E1.
      fold NP. rewrite sset_eq by (cbn [h_s]; nia). cbn [obind h_s h_d h_work].
      rewrite sset_eq by (cbn [h_s]; nia). cbn [obind h_s h_d h_work].
      cbn [dec_rows]. destruct (dec_rowN NPn arow w 0 0 0 (h_d s)) as [row st1]. cbn [fst snd] in *.
      match goal with |- context [hfor k (r + 1) _ ?s2] => set (S2 := s2) end.
      assert (HA2 : above_ok w sstr NPn (h_s S2) (r + 1) row).
      { intros j Hj Hc. fold NP in Hj, Hc. replace ((r + 1 - 1) * sstr + 2 * j) with (r * sstr + 2 * j) by lia.
        apply (above_of_rdq (h_s S2) (r * sstr) row); [| |exact Hj].
        - rewrite <- R1. apply rdq_ext. intros c Hc'. unfold S2. cbn [h_s].
          rewrite !fget_fset_other by (unfold NP in *; nia). reflexivity.
        - unfold S2. cbn [h_s]. rewrite rd16_set_other by nia. rewrite rd16_set_same. reflexivity. }
      destruct (IH (r + 1) row S2 ltac:(lia) ltac:(lia) HA2 K1) as (s' & E' & St' & Fr').
      exists s'. split; [exact E'|]. split; [split; [|exact St']|].
      + rewrite <- R1. apply rdq_ext. intros c Hc'. rewrite Fr' by (unfold NP in *; nia).
        unfold S2. cbn [h_s]. rewrite !fget_fset_other by (unfold NP in *; nia). reflexivity.
      + intros c Hc'. rewrite Fr' by nia. unfold S2. cbn [h_s].
        rewrite !fget_fset_other by nia. apply Fr1; lia.
  Qed.

  Lemma hts_phase1_eq : forall s NRn,
    hts_npairs w = NPn -> hts_nrowsN h = NRn -> Z.of_nat NRn + 1 <= R -> Z.quot (w + 3) 4 * 4 = 4 * NP ->
    melk_ok (h_d s) ->
    exists s', hts_phase1 n w h sstr s = Ok s' /\
      stripes (h_s s') 0 (fst (dec_row0 NPn w 0 0 (h_d s)) ::
                          dec_rows NRn NPn (fst (dec_row0 NPn w 0 0 (h_d s))) w (snd (dec_row0 NPn w 0 0 (h_d s)))).
  Proof.
    intros s NRn Enp Enr HNR Hsent Hk. unfold hts_phase1. rewrite Enp, Enr, Hsent.
    destruct (hrow0_loop_eq n w NPn 0 0 s ltac:(lia) ltac:(fold NP; nia) c8_0 Hk)
      as (cq' & wk & T1 & E1 & R1 & K1 & Fr1).
    change (4 * 0) with 0 in *. rewrite E1. cbn [obind snd]. clear E1.
    rewrite sset_eq by (cbn [h_s]; nia). cbn [obind h_s h_d h_work].
    rewrite sset_eq by (cbn [h_s]; nia). cbn [obind h_s h_d h_work].
    destruct (dec_row0 NPn w 0 0 (h_d s)) as [row0 st1]. cbn [fst snd] in *.
    match goal with |- context [hfor NRn 1 _ ?s2] => set (S2 := s2) end.
    assert (HA2 : above_ok w sstr NPn (h_s S2) 1 row0).
    { intros j Hj Hc. fold NP in Hj, Hc. replace ((1 - 1) * sstr + 2 * j) with (0 + 2 * j) by lia.
      apply (above_of_rdq (h_s S2) 0 row0); [| |exact Hj].
      - rewrite <- R1. apply rdq_ext. intros c Hc'. unfold S2. cbn [h_s].
        rewrite !fget_fset_other by (unfold NP in *; lia). reflexivity.
      - unfold S2. cbn [h_s]. rewrite rd16_set_other by lia.
        replace (0 + 4 * NP) with (4 * NP + 0) by lia. rewrite rd16_set_same. reflexivity. }
    destruct (hrows_loop_eq NRn 1 row0 S2 ltac:(lia) ltac:(lia) HA2 K1) as (s' & E' & St' & Fr').
    exists s'. split; [exact E'|]. cbn [stripes]. split; [|exact St'].
    rewrite <- R1. replace (0 * sstr) with 0 by lia. apply rdq_ext. intros c Hc'.
    rewrite Fr' by (unfold NP in *; lia). unfold S2. cbn [h_s].
    rewrite !fget_fset_other by (unfold NP in *; lia). reflexivity.
  Qed.
End Phase1Eq.
