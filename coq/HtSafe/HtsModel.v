(* EXTRACT *)
(* HtSafe: PANIC-EXPLICIT model of the HTJ2K cleanup-pass block DECODER on ARBITRARY input
   (properties C08 / C09).

   Which Go path.  jpeg2000.Decoder reaches the HT block decoder only through the factory that
   htj2k/codec.go:274-275 installs: NewHTDecoder(width, height); t2/tile_decoder.go:591 calls it
   with the clipped block size, :606 calls SetCodingContext(bandNumbps, htj2kMissingMSBs), :711-716
   call DecodeLayered / DecodeWithBitplane, both of which are HTDecoder.Decode(data, _)
   (htj2k/decoder.go:43-57) = decodeOpenJPHCleanup (openjph_cleanup_decoder.go:114-165).
   HTBlockDecoder (ht_block_decoder.go: quad-pair decoder, exponent predictor) is NOT on that path
   (only tests construct it) and is not modelled.

   What is explicit (every line reference is to /repo/jpeg2000/htj2k/openjph_cleanup_decoder.go
   unless a file is named):
     - every index into scratch (134-148, 184-261, 293-329), vnScratch (287, 304, 321, 332, 347,
       364) and out (286, 299-316, 342-359), with the lengths the make() calls give them;
     - every index into VLCLookupTable0/1 [1024] (187, 196, 230, 241), UVLCTbl0 [320] / UVLCTbl1
       [256] (268, 270) and MelE [13] (46);
     - the slice expressions of parseStandardSegments (decoder.go:59-71);
     - the only signed shift count of the path: MagSgnDecoder.readBits `1 << n` (magsgn.go:199),
       reached from decodeOJPHSampleMS (439-440) with n = mn = uq - e_k bit: Panic when mn < 0
       (all other shift counts are converted to uint in the source, or are non-negative
       constants / counters: MelE entries, numRuns*7, bitCount);
     - make() with a negative or oversized length (runtime.makeslice).
   There is no division on the path ((width+3)/4 etc. divide by constants).
   What is abstracted: the three byte readers are the integer streams of HT/HtBlockBits.v and
   HT/HtMel.v (validated byte-exact, incl. damaged blocks, by the C06 suite).  Their own byte
   indices are guarded in the same statement and are monotone: ojphMELReader.readBit
   `if m.pos < len(m.data) { d = m.data[m.pos]` (79-80, pos only grows from 0);
   reverseBitReader.init `len(r.data) < 2 -> false` then data[len-2] (vlc_reverse_decoder.go:23-28),
   readChunk `i < 4 && r.pos >= 0` then data[pos], pos only decreases (:48-49);
   MagSgnDecoder.readBits `m.pos < len(m.data)` then data[pos] (magsgn.go:173-174).
   Loops: the Go loops `for x < width; x += 4 / 2` and `for y := 2; y < height; y += 2` are count
   loops; the model runs them over the pair / quad / quad-row index and writes the carried
   variables x, sp, vp in closed form (x = 4i, sp = r*sstr + 4i, ...).  The MEL refill loop
   `for m.numRuns < 8` runs on fuel 8 with OutOfFuel.
   Work: one unit per primitive (scratch / vn / out access, table lookup, MEL event, VLC
   advance, U-VLC decode, sample decode); every primitive executes a bounded number of Go loop
   iterations (MEL getRun: <= 8 codewords of <= 6 bits, one byte refill per bit at most;
   readMore: <= 2 chunks of 4 bytes; readBits: <= 5 + 5 byte steps), so Go steps <= 64 * work.
   Plus the lengths of the zero-initialised arrays and the final conversion loop. *)
From V Require Import Common.Base Gen.HtTables_gen HT.HtMel HT.HtVlc HT.HtUvlc HT.HtLevels HT.HtBlockBits
  HT.HtBlockDec T1.T1Store.

Notation "'do' x <- m ; f" := (obind m (fun x => f))
  (at level 200, x pattern, m at level 100, f at level 200, right associativity).

(* a[i] with len(a) = n *)
Definition hchk {A} (i n : Z) (k : outcome A) : outcome A :=
  if (0 <=? i) && (i <? n) then k else Panic.

(* make([]T, n) with esz-byte elements: runtime.makeslice panics for n < 0 or more than
   maxAlloc = 2^48 bytes *)
Definition hmake (n esz : Z) : outcome Z :=
  if (n <? 0) || (2 ^ 48 <? n * esz) then Panic else Ok n.

(* for i := i0; i < i0 + n; i++ { body } *)
Fixpoint hfor {S : Type} (n : nat) (i : Z) (body : Z -> S -> outcome S) (s : S) : outcome S :=
  match n with
  | O => Ok s
  | Datatypes.S m => do s1 <- body i s; hfor m (i + 1) body s1
  end.

(* ---------- parseStandardSegments (decoder.go:59-71) ---------- *)
Definition hts_scup (cb : list Z) : outcome (list Z * list Z) :=
  let lcup := zlen cb in
  if lcup <? 2 then Err
  else
    hchk (lcup - 1) lcup (hchk (lcup - 2) lcup (
      let scup := Z.lor (Z.shiftl (znth cb (lcup - 1) 0) 4) (Z.land (znth cb (lcup - 2) 0) 15) in
      if (scup <? 2) || (scup >? lcup) || (scup >? 4079) then Err
      else
        let ml := lcup - scup in
        (* codeblock[:magsgnLen], codeblock[magsgnLen:] *)
        if (ml <? 0) || (lcup <? ml) then Panic
        else Ok (firstn (Z.to_nat ml) cb, skipn (Z.to_nat ml) cb))).

(* ---------- ojphMELReader with the MelE index explicit ---------- *)
(* decodeMore (44-71): eval := MelE[m.k] *)
Fixpoint hmel_more (fuel : nat) (s : melr) : outcome melr :=
  if zlen (mr_runs s) <? 8 then
    match fuel with
    | O => OutOfFuel
    | S f => hchk (mr_k s) 13 (hmel_more f (melr_decode_one s))
    end
  else Ok s.

(* getRun (24-38) *)
Definition hmel_get_run (s : melr) : outcome (Z * melr) :=
  do s1 <- (match mr_runs s with [] => hmel_more 8 s | _ => Ok s end);
  match mr_runs s1 with
  | [] => Ok (1073741824, s1)
  | r :: q => Ok (r, mk_melr (mr_data s1) (mr_size s1) (mr_unstuff s1) (mr_k s1) q (mr_bitbuf s1))
  end.

(* ---------- phase 1: MEL + VLC + U-VLC into scratch ---------- *)
Record hst : Type := mkH {
  h_s : tree;       (* scratch []uint16 *)
  h_d : dstate;     (* ((run, MEL reader), VLC stream) *)
  h_work : Z }.

(* scratch[i] (read); the element type is uint16 *)
Definition sget (n : Z) (s : hst) (i : Z) : outcome Z := hchk i n (Ok (wrapU 16 (fget (h_s s) i))).
(* scratch[i] = uint16(x) *)
Definition sset (n i x : Z) (s : hst) : outcome hst :=
  hchk i n (Ok (mkH (fset (h_s s) i (wrapU 16 x)) (h_d s) (h_work s + 1))).

(* VLCLookupTable0/1[cq + int(readerPeek() & 0x7F)] *)
Definition hlut (first : bool) (cq : Z) (s : hst) : outcome Z :=
  let idx := cq + Z.land (vlc_peek (snd (h_d s))) 127 in
  hchk idx 1024 (Ok (lut (if first then vlc_lookup0 else vlc_lookup1) cq (snd (h_d s)))).

(* run -= 2; ev := run == -1; if run < 0 { run = mel.getRun() } (173-182, 210-216) *)
Definition hmel_event (s : hst) : outcome (bool * hst) :=
  let '((run, r), v) := h_d s in
  let run := run - 2 in
  let ev := run =? -1 in
  if run <? 0 then
    do rr <- hmel_get_run r; Ok (ev, mkH (h_s s) (rr, v) (h_work s + 1))
  else Ok (ev, mkH (h_s s) ((run, r), v) (h_work s + 1)).

(* applyZeroRun *)
Definition hzero_run (t : Z) (s : hst) : outcome (Z * hst) :=
  do (ev, s1) <- hmel_event s; Ok ((if ev : bool then t else 0), s1).

(* readerAdvance(n) *)
Definition hadv (n : Z) (s : hst) : hst := mkH (h_s s) (adv (h_d s) n) (h_work s + 1).

(* decodeOJPHUVLC (263-281): UVLCTbl0[tableIndex] / UVLCTbl1[tableIndex] *)
Definition huvlc (initial : bool) (mode : Z) (s : hst) : outcome (Z * Z * hst) :=
  let idx := mode + Z.land (vlc_peek (snd (h_d s))) 63 in
  hchk idx (if initial then 320 else 256)
    (let '(u0, u1, d) := dec_uvlc initial mode (h_d s) in
     Ok (u0, u1, mkH (h_s s) d (h_work s + 1))).

(* decodeOpenJPHInitialRow (184-222), pair i: x = sp = 4i *)
Definition hrow0_pair (n w : Z) (i : Z) (cs : Z * hst) : outcome (Z * hst) :=
  let '(cq, s) := cs in
  let sp := 4 * i in
  let x := 4 * i + 2 in
  do t0 <- hlut true cq s;
  do (t0, s) <- (if cq =? 0 then hzero_run t0 s else Ok (t0, s));
  do s <- sset n sp t0 s;
  let cq := ctx0_of t0 in
  let s := hadv (Z.land t0 7) s in
  do t1 <- hlut true cq s;
  do (t1, s) <- (if (cq =? 0) && (x <? w) then hzero_run t1 s else Ok (t1, s));
  let t1 := if x >=? w then 0 else t1 in
  do s <- sset n (sp + 2) t1 s;
  let cq := ctx0_of t1 in
  let s := hadv (Z.land t1 7) s in
  let mode := uvlc_mode t0 t1 in
  do (mode, s) <- (if mode =? 192
                   then do (ev, s1) <- hmel_event s; Ok ((if ev : bool then mode + 64 else mode), s1)
                   else Ok (mode, s));
  do (u0, u1, s) <- huvlc true mode s;
  do s <- sset n (sp + 1) (1 + u0) s;
  do s <- sset n (sp + 3) (1 + u1) s;
  Ok (cq, s).

(* decodeOpenJPHRemainingRows (224-261), quad row r (y = 2r), pair i: sp = r*sstr + 4i *)
Definition hrowN_pair (n w sstr r : Z) (i : Z) (cs : Z * hst) : outcome (Z * hst) :=
  let '(cq, s) := cs in
  let sp := r * sstr + 4 * i in
  let x := 4 * i + 2 in
  do a0 <- sget n s (sp - sstr);
  do a2 <- sget n s (sp - sstr + 2);
  let cq := Z.lor cq (Z.lor (Z.shiftl (Z.land a0 160) 2) (Z.shiftl (Z.land a2 32) 4)) in
  do t0 <- hlut false cq s;
  do (t0, s) <- (if cq =? 0 then hzero_run t0 s else Ok (t0, s));
  do s <- sset n sp t0 s;
  let cq := Z.lor (Z.shiftl (Z.land t0 64) 2) (Z.shiftl (Z.land t0 128) 1) in
  do a0 <- sget n s (sp - sstr);
  let cq := Z.lor cq (Z.land a0 128) in
  do a2 <- sget n s (sp - sstr + 2);
  do a4 <- sget n s (sp - sstr + 4);
  let cq := Z.lor cq (Z.lor (Z.shiftl (Z.land a2 160) 2) (Z.shiftl (Z.land a4 32) 4)) in
  let s := hadv (Z.land t0 7) s in
  do t1 <- hlut false cq s;
  do (t1, s) <- (if (cq =? 0) && (x <? w) then hzero_run t1 s else Ok (t1, s));
  let t1 := if x >=? w then 0 else t1 in
  do s <- sset n (sp + 2) t1 s;
  let cq := Z.lor (Z.shiftl (Z.land t1 64) 2) (Z.shiftl (Z.land t1 128) 1) in
  do a2 <- sget n s (sp - sstr + 2);
  let cq := Z.lor cq (Z.land a2 128) in
  let s := hadv (Z.land t1 7) s in
  do (u0, u1, s) <- huvlc false (uvlc_mode t0 t1) s;
  do s <- sset n (sp + 1) u0 s;
  do s <- sset n (sp + 3) u1 s;
  Ok (cq, s).

(* one quad row r >= 1 with its sentinel (258-259) *)
Definition hrowN (n w sstr : Z) (npairs : nat) (r : Z) (s : hst) : outcome hst :=
  do cs <- hfor npairs 0 (hrowN_pair n w sstr r) (0, s);
  let sp := r * sstr + 4 * Z.of_nat npairs in
  do s1 <- sset n sp 0 (snd cs);
  sset n (sp + 1) 0 s1.

(* number of quad pairs per row, of quads per row, of quad rows after the first *)
Definition hts_npairs (w : Z) : nat := Z.to_nat (Z.quot (w + 3) 4).
Definition hts_nquads (w : Z) : nat := Z.to_nat (Z.quot (w + 1) 2).
Definition hts_nrowsN (h : Z) : nat := Z.to_nat (Z.quot (h - 1) 2).
(* sstr := ((width + 2) + 7) &^ 7 ; len(scratch) = sstr*((height+1)/2+1)+8 *)
Definition hts_sstr (w : Z) : Z := Z.ldiff (w + 2 + 7) 7.
Definition hts_slen (w h : Z) : Z := hts_sstr w * (Z.quot (h + 1) 2 + 1) + 8.

(* lines 142-148 *)
Definition hts_phase1 (n w h sstr : Z) (s : hst) : outcome hst :=
  do cs <- hfor (hts_npairs w) 0 (hrow0_pair n w) (0, s);
  let sent := Z.quot (w + 3) 4 * 4 in
  do s1 <- sset n (sent + 0) 0 (snd cs);
  do s2 <- sset n (sent + 1) 0 s1;
  hfor (hts_nrowsN h) 1 (hrowN n w sstr (hts_npairs w)) s2.

(* ---------- phase 2: MagSgn (283-368) ---------- *)
Record mst : Type := mkM {
  m_ms : msr;      (* MagSgn stream *)
  m_vn : tree;     (* vnScratch []uint32, len width+4 *)
  m_out : tree;    (* out []uint32, len width*height *)
  m_work : Z }.

Definition mtick (m : mst) : mst := mkM (m_ms m) (m_vn m) (m_out m) (m_work m + 1).
(* scratch[i], read only here *)
Definition scget (n : Z) (sc : tree) (i : Z) : outcome Z := hchk i n (Ok (wrapU 16 (fget sc i))).
Definition vget (nv : Z) (m : mst) (i : Z) : outcome Z := hchk i nv (Ok (wrapU 32 (fget (m_vn m) i))).
Definition vset (nv i x : Z) (m : mst) : outcome mst :=
  hchk i nv (Ok (mkM (m_ms m) (fset (m_vn m) i (wrapU 32 x)) (m_out m) (m_work m + 1))).
Definition oset (no i x : Z) (m : mst) : outcome mst :=
  hchk i no (Ok (mkM (m_ms m) (m_vn m) (fset (m_out m) i (wrapU 32 x)) (m_work m + 1))).

(* decodeOJPHSampleMS (435-447); ms.fetch(mn) -> readBits(mn): `1 << n` panics for n < 0 *)
Definition hsample (m : mst) (inf uq bit p : Z) : outcome (Z * Z * mst) :=
  if Z.land inf (Z.shiftl 1 (4 + bit)) =? 0 then Ok (0, 0, mtick m)
  else
    let mn := uq - Z.land (Z.shiftr inf (12 + bit)) 1 in
    if mn <? 0 then Panic
    else
      let '(val, vn, ms') := dec_sample (m_ms m) inf uq bit p in
      Ok (val, vn, mkM ms' (m_vn m) (m_out m) (m_work m + 1)).

(* one quad of a quad row (292-320 for y = 0, 327-363 for y = 2r): x = 2q, sp = r*sstr + 2q,
   vp = q.  State: (prevVN, m).  first = the first loop (U_q taken from scratch as it is). *)
Definition hms_quad (n nv no : Z) (sc : tree) (w h sstr p mmsbp2 r : Z) (first : bool)
           (q : Z) (pm : Z * mst) : outcome (Z * mst) :=
  let '(prevvn, m) := pm in
  let y := 2 * r in
  let x := 2 * q in
  let sp := r * sstr + 2 * q in
  let vp := q in
  do inf <- scget n sc sp;
  do uq0 <- scget n sc (sp + 1);
  do uq <- (if first then Ok uq0
            else
              let gamma := Z.land inf 240 in
              let gamma := Z.land gamma (wrapU 32 (gamma - 16)) in
              do va <- vget nv m vp;
              do vb <- vget nv m (vp + 1);
              let emax := bitlen32_d (Z.lor (Z.lor va vb) 2) - 1 in
              let kappa := if negb (gamma =? 0) then emax else 1 in
              Ok (uq0 + kappa));
  if uq >? mmsbp2 then Err
  else
    do (v0, n0, m) <- hsample m inf uq 0 p;
    do m <- oset no (y * w + x) v0 m;
    do (v1, n1, m) <- hsample m inf uq 1 p;
    do m <- (if y + 1 <? h then oset no ((y + 1) * w + x) v1 m else Ok m);
    do m <- vset nv vp (Z.lor prevvn n1) m;
    if x + 1 >=? w then Ok (0, m)
    else
      do (v2, n2, m) <- hsample m inf uq 2 p;
      do m <- oset no (y * w + (x + 1)) v2 m;
      do (v3, n3, m) <- hsample m inf uq 3 p;
      do m <- (if y + 1 <? h then oset no ((y + 1) * w + (x + 1)) v3 m else Ok m);
      Ok (n3, m).

(* one quad row; after the loop vnScratch[vp] = prevVN with vp = number of quads (+1 when the
   width is odd: the break path increments vp twice) *)
Definition hms_row (n nv no : Z) (sc : tree) (w h sstr p mmsbp2 : Z) (r : Z) (m : mst) : outcome mst :=
  do pm <- hfor (hts_nquads w) 0 (hms_quad n nv no sc w h sstr p mmsbp2 r (r =? 0)) (0, m);
  vset nv (Z.of_nat (hts_nquads w) + Z.rem w 2) (fst pm) (snd pm).

Definition hts_phase2 (n nv no : Z) (sc : tree) (w h sstr p mmsbp2 : Z) (m : mst) : outcome mst :=
  hfor (S (hts_nrowsN h)) 0 (hms_row n nv no sc w h sstr p mmsbp2) m.

Fixpoint hzseq (k : nat) (i : Z) : list Z :=
  match k with O => [] | S k' => i :: hzseq k' (i + 1) end.

(* ---------- NewHTDecoder + SetCodingContext(kmax, missing) + Decode(cb, _) ----------
   result: (coefficients, work, bytes requested with make()/append) *)
Definition hts_decode (w h kmax missing : Z) (cb : list Z) : outcome (list Z * Z * Z) :=
  (* NewHTDecoder: make([]int32, width*height) *)
  do no <- hmake (w * h) 4;
  if zlen cb =? 0 then Ok (repeat 0 (Z.to_nat no), no, 4 * no)
  else if kmax <=? 0 then Err
  else if missing <? 0 then Err
  else if missing >=? 30 then Err
  else
    do segs <- hts_scup cb;
    let '(msd, cld) := segs in
    let p := 30 - missing in
    let sstr := hts_sstr w in
    do n <- hmake (hts_slen w h) 2;
    (* newOJPHMELReader, reverseBitReader, run: mel.getRun() *)
    do mr <- hmel_get_run (melr_init cld);
    do s1 <- hts_phase1 n w h sstr (mkH Leaf (mr, rev_stream cld) 0);
    (* decodeOJPHScratchMagSgn: make([]uint32, width*height), make([]uint32, width+4) *)
    do no2 <- hmake (w * h) 4;
    do nv <- hmake (w + 4) 4;
    do m <- hts_phase2 n nv no2 (h_s s1) w h sstr p (missing + 2) (mkM (ms_stream msd) Leaf Leaf 0);
    (* out := make([]int32, width*height); for i, v := range cb { out[i] = ... } *)
    do no3 <- hmake (w * h) 4;
    Ok (map (fun i => word_to_coef kmax (fget (m_out m) i)) (hzseq (Z.to_nat no2) 0),
        h_work s1 + m_work m + n + no + no2 + nv + 2 * no3,
        4 * no + 2 * n + 4 * no2 + 4 * nv + 4 * no3 + 8 * zlen cld).

(* observables of the correspondence run *)
Definition hts_samples (w h kmax missing : Z) (cb : list Z) : outcome (list Z) :=
  match hts_decode w h kmax missing cb with
  | Ok (l, _, _) => Ok l | Err => Err | Panic => Panic | OutOfFuel => OutOfFuel end.
