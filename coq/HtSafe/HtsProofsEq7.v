(* HtSafe proofs, part 11 (refinement, last file): the panic-explicit decoder model and the
   valid-input decoder model of C06 are the same function on every input inside the geometry. *)
From V Require Import Common.Base Gen.HtTables_gen HT.HtMel HT.HtVlc HT.HtUvlc HT.HtLevels HT.HtBlockBits
  HT.HtBlockDec HT.HtProofsTables HT.HtBlockProofsTotal T1.T1Store T1.T1ProofsBase
  HtSafe.HtsModel HtSafe.HtsProofsBase HtSafe.HtsProofsP1 HtSafe.HtsProofsP2 HtSafe.HtsProofsTop
  HtSafe.HtsProofsEq1 HtSafe.HtsProofsEq2 HtSafe.HtsProofsEq3 HtSafe.HtsProofsEq4 HtSafe.HtsProofsEq5
  HtSafe.HtsProofsEq6.

Lemma dec_rows_length : forall k np arow w st, length (dec_rows k np arow w st) = k.
Proof.
  induction k as [|k IH]; intros; cbn [dec_rows length]; [reflexivity|].
  destruct (dec_rowN np arow w 0 0 0 st) as [row st']. cbn [length]. rewrite IH. reflexivity.
Qed.

(* the geometry bound only keeps the make() calls below maxAlloc; 65536 covers every block size
   the C06 theorems speak about (C08 needs no more than the 1024 the parser admits) *)
Theorem hts_refines_gen : forall w h kmax missing cb, 1 <= w <= 65536 -> 1 <= h <= 65536 ->
  hts_samples w h kmax missing cb = ht_block_decode w h kmax missing cb.
Proof.
  intros w h kmax missing cb Hw Hh.
  destruct (Z.eq_dec (zlen cb) 0) as [E0|E0]; [apply hts_refines_early_exits; auto|].
  destruct (Z_le_gt_dec kmax 0) as [E1|E1]; [apply hts_refines_early_exits; auto|].
  destruct (Z_lt_le_dec missing 0) as [E2|E2]; [apply hts_refines_early_exits; auto|].
  destruct (Z_le_gt_dec 30 missing) as [E3|E3]; [apply hts_refines_early_exits; auto|].
  destruct (scup_parse_class cb) as [ES | (msd & cld & ES)];
    [apply hts_refines_early_exits; auto 10|].
  pose proof (geom_of w h ltac:(lia) ltac:(lia)) as G.
  destruct G as [g_np0 g_nq0 g_nr0 g_sent0 g_rows0 g_rem0 g_lo g_hi g_snp g_slen0].
  assert (Hwh : 0 <= w * h <= 65536 * 65536) by nia.
  unfold hts_samples, hts_decode, ht_block_decode.
  rewrite (hmake_ok (w * h) 4) by (change (2 ^ 48) with 281474976710656; lia). cbn [obind].
  replace (zlen cb =? 0) with false by (symmetry; apply Z.eqb_neq; lia).
  replace (kmax <=? 0) with false by (symmetry; apply Z.leb_gt; lia).
  replace (missing <? 0) with false by (symmetry; apply Z.ltb_ge; lia).
  replace (missing >=? 30) with false by (destruct (Z.geb_spec missing 30); [exfalso; lia|reflexivity]).
  rewrite hts_scup_eq, ES. cbn [obind].
  set (NP := (w + 3) / 4) in *. set (NQ := (w + 1) / 2) in *. set (NR := (h - 1) / 2) in *.
  assert (P0 : 0 <= NP /\ 4 * NP <= w + 3 /\ w <= 4 * NP).
  { unfold NP. pose proof (Z.div_mod (w + 3) 4 ltac:(lia)). pose proof (Z.mod_pos_bound (w + 3) 4 ltac:(lia)). lia. }
  assert (Q0 : 0 <= NQ /\ 2 * NQ <= w + 1 /\ w <= 2 * NQ).
  { unfold NQ. pose proof (Z.div_mod (w + 1) 2 ltac:(lia)). pose proof (Z.mod_pos_bound (w + 1) 2 ltac:(lia)). lia. }
  assert (R0' : 0 <= NR /\ 2 * NR <= h - 1 /\ h - 2 <= 2 * NR /\ (h + 1) / 2 = NR + 1).
  { unfold NR. pose proof (Z.div_mod (h - 1) 2 ltac:(lia)). pose proof (Z.mod_pos_bound (h - 1) 2 ltac:(lia)).
    pose proof (Z.div_mod (h + 1) 2 ltac:(lia)). pose proof (Z.mod_pos_bound (h + 1) 2 ltac:(lia)). lia. }
  destruct P0 as (P0 & P1 & P2). destruct Q0 as (Q0 & Q1 & Q2). destruct R0' as (R0' & R1 & R2 & R3).
  set (sstr := hts_sstr w) in *.
  assert (S8 : 8 <= sstr).
  { unfold sstr. rewrite hts_sstr_eq by lia. pose proof (Z.div_mod (w + 9) 8 ltac:(lia)).
    pose proof (Z.mod_pos_bound (w + 9) 8 ltac:(lia)). lia. }
  assert (En : hts_slen w h = sstr * (NR + 1 + 1) + 8) by (rewrite g_slen0, R3; reflexivity).
  assert (Hn : 0 <= hts_slen w h <= 65545 * 32770 + 8).
  { rewrite En. assert (sstr * (NR + 1 + 1) <= 65545 * 32770) by (apply Z.mul_le_mono_nonneg; lia). nia. }
  rewrite (hmake_ok (hts_slen w h) 2) by (change (2 ^ 48) with 281474976710656; lia). cbn [obind].
  rewrite (hmel_get_run_eq (melr_init cld) (melr_init_krange cld)). cbn [obind].
  set (s0 := mkH Leaf (melr_get_run (melr_init cld), rev_stream cld) 0).
  assert (K0 : melk_ok (h_d s0)).
  { unfold melk_ok, s0. cbn [h_d fst snd]. apply melr_get_run_krange. apply melr_init_krange. }
  set (NPn := hts_npairs w) in *. set (NQn := hts_nquads w) in *. set (NRn := hts_nrowsN h) in *.
  assert (Hsent : Z.quot (w + 3) 4 * 4 = 4 * Z.of_nat NPn) by (rewrite g_np0; exact g_sent0).
  (* phase 1 *)
  pose proof (hts_phase1_eq (hts_slen w h) w h sstr (NR + 1) NPn) as PH1.
  repeat (match type of PH1 with ?A -> _ =>
            let H := fresh in assert (H : A) by (first [lia | assumption]); specialize (PH1 H); clear H end).
  destruct (PH1 s0 NRn eq_refl eq_refl ltac:(lia) Hsent K0) as (s1 & EP1 & ST). clear PH1.
  destruct (hts_phase1_ok w h (hts_slen w h) sstr NP (NR + 1) ltac:(lia) P0 ltac:(lia) ltac:(lia) En
              s0 NR R0' ltac:(lia)) as (s1' & EP1' & RR & _).
  { rewrite g_sent0. reflexivity. }
  { unfold NPn in g_np0. rewrite <- g_np0. rewrite Nat2Z.id. reflexivity. }
  { unfold NRn in g_nr0. rewrite <- g_nr0. rewrite Nat2Z.id. reflexivity. }
  { exact K0. }
  rewrite EP1 in EP1'. inversion EP1'. subst s1'. clear EP1'.
  rewrite EP1. cbn [obind].
  cbn [obind].
  rewrite (hmake_ok (w + 4) 4) by (change (2 ^ 48) with 281474976710656; lia). cbn [obind].
  (* the other model, same names *)
  change (Z.to_nat (Z.quot (w + 3) 4)) with NPn.
  replace (Z.to_nat (Z.quot (h + 1) 2 - 1)) with NRn
    by (unfold NRn, hts_nrowsN; rewrite !Z.quot_div_nonneg by lia; rewrite R3; fold NR; f_equal; lia).
  change (ojph_mel_start cld, rev_stream cld) with (h_d s0).
  destruct (dec_row0 NPn w 0 0 (h_d s0)) as [row0 st1]. cbn [fst snd] in ST.
  (* phase 2 *)
  unfold hts_phase2. fold NRn.
  set (m0 := mkM (ms_stream msd) Leaf Leaf 0).
  pose proof (hms_rows_eq (hts_slen w h) (w + 4) (w * h) (h_s s1) w h sstr (30 - missing) (missing + 2)
                (NR + 1) NQn NPn) as PH2.
  assert (Hrem : (2 * Z.of_nat NQn = w -> Z.rem w 2 = 0) /\ (2 * Z.of_nat NQn = w + 1 -> Z.rem w 2 = 1)).
  { rewrite g_rem0, g_nq0. fold NQ. pose proof (Z.div_mod w 2 ltac:(lia)). pose proof (Z.mod_pos_bound w 2 ltac:(lia)). lia. }
  assert (HR0q : R0 (Z.of_nat NQn) (h_s s1)) by (apply (R0_mono (2 * NP)); [exact RR | lia]).
  assert (HNQP : (NQn <= NPn + NPn)%nat) by lia.
  assert (Hqq : hts_nquads w = NQn) by reflexivity.
  repeat (match type of PH2 with ?A -> _ =>
            let H := fresh in assert (H : A) by (first [lia | assumption | reflexivity]); specialize (PH2 H); clear H end).
  specialize (PH2 (row0 :: dec_rows NRn NPn row0 w st1) 0 [] m0 ltac:(lia)).
  cbn [length] in PH2. rewrite dec_rows_length in PH2.
  specialize (PH2 ltac:(lia) ST ltac:(cbn; discriminate) ltac:(intros; apply fget_leaf)).
  change (0 =? 0) with true in PH2. cbn [m_ms m0] in PH2.
  destruct (dec_ms_rows (row0 :: dec_rows NRn NPn row0 w st1) true [] w (30 - missing) (missing + 2) (ms_stream msd))
    as [l|].
  2:{ rewrite PH2. reflexivity. }
  destruct PH2 as (m' & EP2 & A & _). rewrite EP2. cbn [obind].
  cbn [obind].
  f_equal. change (2 * 0) with 0 in A. rewrite <- A. rewrite <- rdo_hzseq, map_map.
  replace (Z.to_nat (h * w - 0 * w)) with (Z.to_nat (w * h)) by (f_equal; lia).
  replace (0 * w) with 0 by lia. reflexivity.
Qed.

Theorem hts_refines_ht_block_decode : hts_refines_ht_block_decode_statement.
Proof. intros w h kmax missing data Hw Hh. apply hts_refines_gen; lia. Qed.

(* what C06 needs: a block the valid-input model decodes is decoded to the same samples by the
   panic-explicit model (and conversely) *)
Corollary hts_ok_iff : forall w h kmax missing cb l, 1 <= w <= 65536 -> 1 <= h <= 65536 ->
  (ht_block_decode w h kmax missing cb = Ok l <-> hts_samples w h kmax missing cb = Ok l).
Proof. intros. rewrite hts_refines_gen by assumption. tauto. Qed.

Corollary hts_err_iff : forall w h kmax missing cb, 1 <= w <= 65536 -> 1 <= h <= 65536 ->
  (ht_block_decode w h kmax missing cb = Err <-> hts_samples w h kmax missing cb = Err).
Proof. intros. rewrite hts_refines_gen by assumption. tauto. Qed.
