(* Unconditional C11 bound for one greyscale 8x8 block through the coded integer kernels:
   instantiate the abstract chain (DctNumProofsE) with the rounding facts of the coded passes. *)
From Coq Require Import Reals Lra Lia List ZArith.
From V Require Import Common.Base JpegDCT.DctQuant JpegDCT.DctIslow JpegDCT.DctBound
  JpegDCT.DctProofsA JpegDCT.DctProofsR JpegDCT.DctNumDefs JpegDCT.DctNumProofsI JpegDCT.DctNumProofsJ
  JpegDCT.DctNumProofsK JpegDCT.DctNumProofsL JpegDCT.DctNumDefsF JpegDCT.DctNumProofsF JpegDCT.DctNumProofsE.
Import ListNotations.

Lemma IZR_lin8 : forall m f : nat -> Z,
  IZR (zsum8 (fun k => m k * f k)%Z) = rsum8 (fun k => IZR (m k) * IZR (f k))%R.
Proof. intros. unfold zsum8, rsum8. rewrite !plus_IZR, !mult_IZR. reflexivity. Qed.

Section Pipe.
  Variable s q : nat -> Z.
  Hypothesis Hs : forall k, (k < 64)%nat -> (Z.abs (s k) <= 128)%Z.
  Hypothesis Hq : forall k, (k < 64)%nat -> (1 <= q k <= 255)%Z.

  Lemma deq_abs : forall k, (k < 64)%nat -> (Z.abs (pipe_deq s q k) <= 1151)%Z.
  Proof.
    intros k Hk. unfold pipe_deq, pipe_coef.
    assert (Hd : (k / 8 < 8)%nat) by (apply Nat.div_lt_upper_bound; lia).
    assert (Hm : (k mod 8 < 8)%nat) by (apply Nat.mod_upper_bound; lia).
    pose proof (fc_abs s Hs (k / 8) (k mod 8) Hd Hm) as Hc.
    set (c := fdct_fun s (k / 8) (k mod 8)) in *.
    pose proof (quant8_error c (q k) ltac:(lia) (Hq k Hk)) as He.
    pose proof (Hq k Hk) as Hqk.
    replace (8 * q k * quant8 c (q k))%Z with (8 * (quant8 c (q k) * q k))%Z in He by ring.
    lia.
  Qed.

  Lemma HB1151 : (0 <= 1151 <= 1173)%Z.
  Proof. lia. Qed.

  Open Scope R_scope.

  Theorem pipe_pre_bound : forall y' x', (y' < 8)%nat -> (x' < 8)%nat ->
    Rabs (IZR (idct_pre (pipe_deq s q) y' x') - IZR (s (8 * y' + x')%nat))
    <= rsum8 (fun u => rsum8 (fun v => Cw u * Cw v / 4 * IZR (q (8 * v + u)%nat))) / 2 + pipe_delta.
  Proof.
    intros y' x' Hy Hx.
    apply (chain_bound y' x' Hy Hx (fun k => IZR (s k))
             (fun y u => IZR (fdct_fw s y u)) (fun v u => IZR (fdct_fun s v u))
             (fun v u => IZR (pipe_deq s q (8 * v + u)%nat)) (fun v u => IZR (q (8 * v + u)%nat))
             (fun u => IZR (idct_ws (pipe_deq s q) y' u))).
    - intros x Hx0. rewrite <- abs_IZR. apply IZR_le. apply Hs. lia.
    - intros u Hu. pose proof (fw_round s Hs y' u Hy Hu) as [A B].
      apply IZR_le in A. apply IZR_le in B. rewrite minus_IZR, mult_IZR in A, B.
      unfold fdct_fsum in A, B. rewrite IZR_lin8 in A, B. apply Rabs_le. lra.
    - intros y u Hy0 Hu. rewrite <- abs_IZR. apply IZR_le. apply fw_abs; assumption.
    - intros v u Hv Hu. pose proof (fc_round s Hs v u Hv Hu) as [A B].
      apply IZR_le in A. apply IZR_le in B. rewrite minus_IZR, mult_IZR in A, B.
      unfold fdct_csum in A, B. rewrite IZR_lin8 in A, B. apply Rabs_le. lra.
    - intros v u Hv Hu. unfold pipe_deq, pipe_coef.
      destruct (divmod8 v u Hv Hu) as [Ed Em]. rewrite Ed, Em.
      apply quant8_error_R.
      + pose proof (fc_abs s Hs v u Hv Hu). lia.
      + apply Hq. lia.
    - intros u Hu. pose proof (ws_round (pipe_deq s q) 1151 HB1151 deq_abs y' u Hy Hu) as [A B].
      apply IZR_le in A. apply IZR_le in B. rewrite minus_IZR, mult_IZR in A, B.
      unfold idct_wsum in A, B. rewrite IZR_lin8 in A, B. apply Rabs_le. lra.
    - pose proof (pre_round (pipe_deq s q) 1151 HB1151 deq_abs y' x' Hy Hx) as [A B].
      apply IZR_le in A. apply IZR_le in B. rewrite minus_IZR, mult_IZR in A, B.
      unfold idct_osum in A, B. rewrite IZR_lin8 in A, B. apply Rabs_le.
      replace (2 ^ 18) with 262144 by lra. lra.
  Qed.
End Pipe.
