(* Restart intervals: segments = split at RSTn; MCU k uses interval k / restartInt; the DC
   predictors are reset exactly at the MCUs k > 0 with k mod restartInt = 0. *)
From V Require Import Common.Base JpegDCT.DctRestart.

(* well-formed entropy-coded data: every FF is followed by a stuffed 00 *)
Fixpoint clean_fuel (n : nat) (s : list Z) : bool :=
  match n with
  | O => match s with [] => true | _ => false end
  | S m =>
    match s with
    | [] => true
    | b :: t => if b =? 255 then
                  match t with 0 :: t2 => clean_fuel m t2 | _ => false end
                else clean_fuel m t
    end
  end.
Definition clean (s : list Z) : bool := clean_fuel (length s) s.

Lemma clean_fuel_irrel : forall n m s, (length s <= n)%nat -> (length s <= m)%nat ->
  clean_fuel n s = clean_fuel m s.
Proof.
  induction n as [|n IH]; intros m s Hn Hm.
  - destruct s; [destruct m; reflexivity | simpl in Hn; lia].
  - destruct s as [|b t]; [destruct m; reflexivity|].
    destruct m; [simpl in Hm; lia|]. cbn [clean_fuel].
    destruct (b =? 255).
    + destruct t as [|z t2]; [reflexivity|]. destruct z; try reflexivity.
      apply IH; simpl in *; lia.
    + apply IH; simpl in *; lia.
Qed.

(* a clean segment is consumed whole into the current interval *)
Lemma split_clean : forall n s, (length s <= n)%nat -> clean s = true ->
  forall ron tail cur acc, split_go ron (s ++ tail) cur acc = split_go ron tail (rev s ++ cur) acc.
Proof.
  induction n as [|n IH]; intros s Hl Hc ron tail cur acc.
  - destruct s; [reflexivity | simpl in Hl; lia].
  - destruct s as [|b t]; [reflexivity|].
    unfold clean in Hc. cbn [length clean_fuel] in Hc. cbn [app split_go].
    destruct (b =? 255) eqn:Eb.
    + apply Z.eqb_eq in Eb. subst b.
      destruct t as [|z t2]; [discriminate|]. destruct z; try discriminate.
      cbn [app]. change (0 =? 0) with true. cbv iota.
      assert (Hc2 : clean t2 = true).
      { unfold clean. rewrite <- Hc. apply clean_fuel_irrel; simpl; lia. }
      rewrite (IH t2) by (simpl in Hl; try lia; assumption).
      f_equal. cbn [rev]. rewrite <- !app_assoc. reflexivity.
    + assert (Hc2 : clean t = true) by (unfold clean; exact Hc).
      rewrite (IH t) by (simpl in Hl; try lia; assumption).
      f_equal. cbn [rev]. rewrite <- app_assoc. reflexivity.
Qed.

(* a scan body: clean segments, each followed by FF m *)
Fixpoint join (segs : list (list Z * Z)) : list Z :=
  match segs with
  | [] => []
  | (s, m) :: rest => s ++ 255 :: m :: join rest
  end.

(* all separators but the last are RSTn; the last is some other marker (EOI, ...) *)
Fixpoint seps_ok (segs : list (list Z * Z)) : bool :=
  match segs with
  | [] => false
  | [(s, m)] => clean s && negb (m =? 0) && negb (is_rst m)
  | (s, m) :: rest => clean s && is_rst m && seps_ok rest
  end.

Lemma split_join : forall segs cur acc, seps_ok segs = true ->
  split_go true (join segs) cur acc =
  rev acc ++ match segs with
             | [] => []
             | (s, _) :: rest => (rev cur ++ s) :: map fst rest
             end.
Proof.
  induction segs as [|[s m] rest IH]; intros cur acc H; [discriminate|].
  cbn [join]. destruct rest as [|p rest'].
  - cbn [seps_ok] in H. apply andb_true_iff in H. destruct H as [H Hr].
    apply andb_true_iff in H. destruct H as [Hc Hz].
    rewrite (split_clean (length s) s (le_n _) Hc).
    cbn [join split_go]. change (255 =? 255) with true. cbv iota.
    apply negb_true_iff in Hz. apply negb_true_iff in Hr. rewrite Hz, Hr.
    cbn [rev map]. rewrite rev_app_distr, rev_involutive. reflexivity.
  - assert (H' : clean s && is_rst m && seps_ok (p :: rest') = true) by exact H.
    apply andb_true_iff in H'. destruct H' as [H1 Hrest].
    apply andb_true_iff in H1. destruct H1 as [Hc Hm].
    rewrite (split_clean (length s) s (le_n _) Hc).
    cbn [split_go]. change (255 =? 255) with true. cbv iota.
    assert (Hz : (m =? 0) = false).
    { unfold is_rst in Hm. apply andb_true_iff in Hm. destruct (Z.eqb_spec m 0); [lia | reflexivity]. }
    rewrite Hz, Hm. rewrite (IH [] (rev (rev s ++ cur) :: acc) Hrest).
    destruct p as [s' m']. cbn [rev map fst app].
    rewrite rev_app_distr, rev_involutive. rewrite <- app_assoc. reflexivity.
Qed.

(* segments = split at RSTn *)
Theorem split_rst_segments : forall ri segs, 0 < ri -> seps_ok segs = true ->
  split_rst ri (join segs) = map fst segs.
Proof.
  intros ri segs Hri H. unfold split_rst.
  replace (0 <? ri) with true by (symmetry; apply Z.ltb_lt; exact Hri).
  rewrite (split_join segs [] [] H). destruct segs as [|[s m] rest]; [discriminate|]. reflexivity.
Qed.

(* MCU k uses interval k / restartInt, and is preceded by a DC reset iff k > 0 and
   k mod restartInt = 0 *)
Lemma mcu_walk_spec : forall ri nint n k interval l, 0 < ri -> 0 <= k ->
  interval = (if k =? 0 then 0 else (k - 1) / ri) ->
  mcu_walk ri nint n k interval = Some l ->
  length l = n /\
  forall j, (j < n)%nat ->
    nth j l (0, false) = ((k + Z.of_nat j) / ri, (0 <? k + Z.of_nat j) && ((k + Z.of_nat j) mod ri =? 0)).
Proof.
  intros ri nint n. induction n as [|n IH]; intros k interval l Hri Hk Hinv H.
  - inversion H. split; [reflexivity | intros j Hj; lia].
  - cbn [mcu_walk] in H. replace (0 <? ri) with true in H by (symmetry; apply Z.ltb_lt; lia).
    rewrite Z.rem_mod_nonneg in H by lia. cbn [andb] in H.
    set (rs := (0 <? k) && (k mod ri =? 0)) in *.
    set (interval' := if rs then interval + 1 else interval) in *.
    assert (Hi' : interval' = k / ri).
    { unfold interval', rs. subst interval.
      destruct (Z.ltb_spec 0 k) as [Hp|Hp]; cbn [andb].
      - replace (k =? 0) with false by (symmetry; apply Z.eqb_neq; lia).
        destruct (Z.eqb_spec (k mod ri) 0) as [Hm|Hm].
        + pose proof (Z.div_mod k ri ltac:(lia)) as E. rewrite Hm in E.
          assert (E2 : k / ri - 1 = (k - 1) / ri) by (apply Z.div_unique with (r := ri - 1); [left; lia | lia]).
          lia.
        + pose proof (Z.div_mod k ri ltac:(lia)) as E. pose proof (Z.mod_pos_bound k ri Hri) as B.
          assert (E2 : k / ri = (k - 1) / ri) by (apply Z.div_unique with (r := k mod ri - 1); [left; lia | lia]).
          lia.
      - assert (k = 0) by lia. subst k. reflexivity. }
    destruct (rs && (nint <=? interval')); [discriminate|].
    destruct (mcu_walk ri nint n (k + 1) interval') as [l'|] eqn:E; [|discriminate].
    inversion H; subst l; clear H.
    specialize (IH (k + 1) interval' l' Hri ltac:(lia)).
    assert (Hinv' : interval' = (if k + 1 =? 0 then 0 else (k + 1 - 1) / ri)).
    { replace (k + 1 =? 0) with false by (symmetry; apply Z.eqb_neq; lia).
      replace (k + 1 - 1) with k by lia. exact Hi'. }
    specialize (IH Hinv' E). destruct IH as [Hl Hn].
    split; [cbn [length]; lia|].
    intros [|j] Hj.
    + cbn [nth]. rewrite Z.add_0_r. rewrite Hi'. reflexivity.
    + cbn [nth]. rewrite (Hn j ltac:(lia)). replace (k + 1 + Z.of_nat j) with (k + Z.of_nat (S j)) by lia.
      reflexivity.
Qed.

Theorem mcu_plan_spec : forall ri nint n l, 0 < ri -> mcu_plan ri nint n = Some l ->
  length l = n /\
  forall j, (j < n)%nat ->
    nth j l (0, false) = (Z.of_nat j / ri, (0 <? Z.of_nat j) && (Z.of_nat j mod ri =? 0)).
Proof.
  intros ri nint n l Hri H. unfold mcu_plan in H.
  pose proof (mcu_walk_spec ri nint n 0 0 l Hri ltac:(lia) eq_refl H) as [Hl Hn].
  split; [exact Hl|]. intros j Hj. rewrite (Hn j Hj). reflexivity.
Qed.

(* with restartInt = 0 nothing is ever reset and only interval 0 is used *)
Theorem mcu_plan_no_restart : forall nint n, mcu_plan 0 nint n = Some (repeat (0, false) n).
Proof.
  intros nint n. unfold mcu_plan. generalize 0 at 2 as k. induction n as [|n IH]; intros k; [reflexivity|].
  cbn [mcu_walk repeat]. change (0 <? 0) with false. cbn [andb]. rewrite IH. reflexivity.
Qed.

Example split_rst_instance :
  split_rst 1 (join [([96], 208); ([255; 0; 7], 209); ([], 217)]) = [[96]; [255; 0; 7]; []] /\
  split_rst 0 (join [([96], 208); ([255; 0; 7], 209); ([], 217)]) = [[96; 255; 0; 7]] /\
  mcu_plan 2 3 5 = Some [(0, false); (0, false); (1, true); (1, false); (2, true)] /\
  mcu_plan 2 2 5 = None.
Proof. repeat split; vm_compute; reflexivity. Qed.
