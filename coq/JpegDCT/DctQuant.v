(* EXTRACT *)
(* Model of jpeg/standard/tables.go : ScaleQuantTable, and of the quantisers/dequantisers
   coded in jpeg/baseline/encoder.go (quantizeBlock), jpeg/extended/sequential12.go
   (sequential12Quantize), jpeg/standard/idct_ijg.go (coef*qtable) and
   sequential12.go decodeBlock (value*qtable). *)
From V Require Import Common.Base Gen.JpegTables_gen.

Definition i32 (x : Z) : Z := wrapS 32 x.

(* Go:  if quality < 50 { scale = 5000 / quality } else { scale = 200 - quality*2 }
   (Go int; quality = 0 is a division by zero in Go — every caller guards 1..100, and so do
   the theorems). *)
Definition quality_scale (quality : Z) : Z :=
  if quality <? 50 then Z.quot 5000 quality else 200 - quality * 2.

(* Go (int32 arithmetic):  val := (baseTable[i]*int32(scale) + 50) / 100 ; clamp to 1..255 *)
Definition scale_entry (b scale : Z) : Z :=
  let v := Z.quot (i32 (i32 (b * i32 scale) + 50)) 100 in
  let v := if v <? 1 then 1 else v in
  if 255 <? v then 255 else v.

Definition scale_quant_table (base : list Z) (quality : Z) : list Z :=
  map (fun b => scale_entry b (quality_scale quality)) base.

(* Quantiser as coded (both encoders):
     if c < 0 { -((-c + d/2) / d) } else { (c + d/2) / d }        d = divisor *)
Definition quant_coded (c d : Z) : Z :=
  if c <? 0 then - (Z.quot (- c + Z.quot d 2) d) else Z.quot (c + Z.quot d 2) d.

(* the same with Go's int32 narrowing written out *)
Definition quant_coded32 (c d : Z) : Z :=
  if c <? 0 then i32 (- (Z.quot (i32 (i32 (- c) + Z.quot d 2)) d))
  else Z.quot (i32 (c + Z.quot d 2)) d.

(* baseline: divisor := qtable[i] * 8  (the islow output is scaled by 8) *)
Definition quant8 (c q : Z) : Z := quant_coded32 c (i32 (q * 8)).
(* 12-bit: sequential12Quantize(coefficient, e.qtable[i]<<3) *)
Definition quant12 (c q : Z) : Z := quant_coded32 c (i32 (Z.shiftl q 3)).

Definition quant_block8 (coef qt : list Z) : list Z :=
  map (fun cq => quant8 (fst cq) (snd cq)) (combine coef qt).
Definition quant_block12 (coef qt : list Z) : list Z :=
  map (fun cq => quant12 (fst cq) (snd cq)) (combine coef qt).

(* Dequantiser: IDCTISlow multiplies coef[i]*qtable[i] in int32; the 12-bit decoder
   multiplies in int and converts to float64. *)
Definition dequant (k q : Z) : Z := k * q.
Definition dequant32 (k q : Z) : Z := i32 (k * q).
Definition dequant_block (ks qt : list Z) : list Z :=
  map (fun kq => dequant (fst kq) (snd kq)) (combine ks qt).
