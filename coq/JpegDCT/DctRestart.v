(* EXTRACT *)
(* Restart-interval bookkeeping of jpeg/baseline decodeScan (after fix F15):
   the entropy-coded bytes are collected up to the first marker that is neither a stuffed
   FF 00 nor RSTn; with restartInt > 0 every RSTn closes the current restart interval;
   MCU k then switches to the next interval (fresh bit reader, DC predictors zeroed) whenever
   k > 0 and k % restartInt == 0, and a missing interval is ErrInvalidData. *)
From V Require Import Common.Base.

Definition is_rst (b : Z) : bool := (208 <=? b) && (b <=? 215).   (* FF D0 .. FF D7 *)

(* the byte loop: cur = current interval (reversed), acc = closed intervals (reversed).
   ron = (restartInt > 0). Result: intervals in order, the last one being what was open when
   the loop stopped (Go: intervals = append(intervals, scanData.Bytes())). *)
Fixpoint split_go (ron : bool) (data cur : list Z) (acc : list (list Z)) : list (list Z) :=
  match data with
  | [] => rev (rev cur :: acc)
  | b :: t =>
    if b =? 255 then
      match t with
      | [] => rev (rev (255 :: cur) :: acc)          (* FF then EOF: FF is kept *)
      | b2 :: t2 =>
        if b2 =? 0 then split_go ron t2 (0 :: 255 :: cur) acc       (* stuffing kept *)
        else if is_rst b2 then
          (if ron then split_go ron t2 [] (rev cur :: acc)         (* close the interval *)
           else split_go ron t2 cur acc)                           (* marker dropped *)
        else rev (rev cur :: acc)                                  (* any other marker ends the scan *)
      end
    else split_go ron t (b :: cur) acc
  end.
Definition split_rst (restart_int : Z) (data : list Z) : list (list Z) :=
  split_go (0 <? restart_int) data [] [].

(* the MCU loop: for MCUs k, k+1, ... (n of them) the interval index used and whether the
   DC predictors were reset before it; None = ErrInvalidData (interval missing) *)
Fixpoint mcu_walk (ri nint : Z) (n : nat) (k interval : Z) : option (list (Z * bool)) :=
  match n with
  | O => Some []
  | S n' =>
    let rs := (0 <? ri) && (0 <? k) && (Z.rem k ri =? 0) in
    let interval' := if rs then interval + 1 else interval in
    if rs && (nint <=? interval') then None else
    match mcu_walk ri nint n' (k + 1) interval' with
    | Some l => Some ((interval', rs) :: l)
    | None => None
    end
  end.
Definition mcu_plan (ri nint : Z) (n : nat) : option (list (Z * bool)) := mcu_walk ri nint n 0 0.
