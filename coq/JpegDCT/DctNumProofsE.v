(* End to end over the reals: coded DCTISlow -> quant8 -> dequantise -> IDCTISlow on one block.
   The composite of the coded integer passes is Mi*Mi^T = 2^29 I + Dz (exact integer fact), so no
   hypothesis on the kernels' accuracy remains: the only inputs are the sample range and the
   range of the quantisation table. *)
From Coq Require Import Reals Lra Lia List ZArith.
From V Require Import Common.Base JpegDCT.DctQuant JpegDCT.DctIslow JpegDCT.DctBound
  JpegDCT.DctProofsA JpegDCT.DctProofsR JpegDCT.DctNumDefs JpegDCT.DctNumProofsI JpegDCT.DctNumProofsJ
  JpegDCT.DctNumDefsF.
Import ListNotations.
Open Scope R_scope.

Notation Mr n k := (IZR (Mz n k)).

(* ---------- generic linear lemmas ---------- *)

Lemma lin_diff : forall n (d d' : nat -> R) D, (n < 8)%nat ->
  (forall k, (k < 8)%nat -> Rabs (d k - d' k) <= D) ->
  Rabs (rsum8 (fun k => Mr n k * d k) - rsum8 (fun k => Mr n k * d' k)) <= sM * D.
Proof.
  intros n d d' D Hn Hd.
  replace (rsum8 (fun k => Mr n k * d k) - rsum8 (fun k => Mr n k * d' k))
    with (rsum8 (fun k => Mr n k * (d k - d' k))) by (unfold rsum8; ring).
  apply lin1d_M_abs; assumption.
Qed.

(* the pass pair  Mi * Mi^T  is 2^29 * identity up to sD (row sums of |Dz|) *)
Lemma colcomp : forall n' (w : nat -> R) Wb, (n' < 8)%nat ->
  (forall n, (n < 8)%nat -> Rabs (w n) <= Wb) ->
  Rabs (rsum8 (fun k => Mr n' k * rsum8 (fun n => Mr n k * w n)) - 2 ^ 29 * w n') <= sD * Wb.
Proof.
  intros n' w Wb Hn Hw.
  pose proof (Rabs_le_iv _ _ (Hw 0%nat ltac:(lia))) as H0. pose proof (Rabs_le_iv _ _ (Hw 1%nat ltac:(lia))) as H1.
  pose proof (Rabs_le_iv _ _ (Hw 2%nat ltac:(lia))) as H2. pose proof (Rabs_le_iv _ _ (Hw 3%nat ltac:(lia))) as H3.
  pose proof (Rabs_le_iv _ _ (Hw 4%nat ltac:(lia))) as H4. pose proof (Rabs_le_iv _ _ (Hw 5%nat ltac:(lia))) as H5.
  pose proof (Rabs_le_iv _ _ (Hw 6%nat ltac:(lia))) as H6. pose proof (Rabs_le_iv _ _ (Hw 7%nat ltac:(lia))) as H7.
  clear Hw. unfold sD. replace (2 ^ 29) with 536870912 by lra.
  do 8 (destruct n' as [|n']; [unfold rsum8, Mz, Mi; cbn [nth]; apply Rabs_le; lra|]).
  lia.
Qed.

(* ---------- |Mi n k| <= 2^13 sqrt 2 * C(k): the coded synthesis weights never exceed the
   weights C(u)C(v)/4 used by the property's bound ---------- *)

Lemma sqrt2_sqr : sqrt 2 * sqrt 2 = 2.
Proof. apply sqrt_sqrt. lra. Qed.

Lemma Mabs_cw : forall n k, (n < 8)%nat -> (k < 8)%nat -> Rabs (Mr n k) <= 8192 * sqrt 2 * Cw k.
Proof.
  intros n k Hn Hk. rewrite <- abs_IZR.
  destruct k as [|k].
  - replace (8192 * sqrt 2 * Cw 0) with 8192.
    2:{ unfold Cw. field. pose proof sqrt2_ge1. lra. }
    do 8 (destruct n as [|n]; [unfold Mz, Mi; cbn [nth Z.abs]; lra|]). lia.
  - replace (Cw (S k)) with 1 by reflexivity.
    assert (Hs2 : 14 / 10 <= sqrt 2).
    { rewrite <- (sqrt_square (14 / 10)) by lra. apply sqrt_le_1; lra. }
    assert (H : 11400 <= 8192 * sqrt 2 * 1) by lra.
    eapply Rle_trans; [|exact H]. apply IZR_le.
    do 8 (destruct n as [|n]; [do 7 (destruct k as [|k]; [unfold Mz, Mi; cbn [nth Z.abs]; lia|]); lia|]). lia.
Qed.

Lemma rsum8_le : forall f g : nat -> R, (forall k, (k < 8)%nat -> f k <= g k) -> rsum8 f <= rsum8 g.
Proof.
  intros f g H. unfold rsum8.
  pose proof (H 0%nat ltac:(lia)). pose proof (H 1%nat ltac:(lia)). pose proof (H 2%nat ltac:(lia)).
  pose proof (H 3%nat ltac:(lia)). pose proof (H 4%nat ltac:(lia)). pose proof (H 5%nat ltac:(lia)).
  pose proof (H 6%nat ltac:(lia)). pose proof (H 7%nat ltac:(lia)). lra.
Qed.

(* quantisation-error term: e v u within q v u / 2, synthesised by the CODED integer passes *)
Lemma eps_bound : forall x' y' (e qR : nat -> nat -> R), (x' < 8)%nat -> (y' < 8)%nat ->
  (forall v u, (v < 8)%nat -> (u < 8)%nat -> Rabs (e v u) <= qR v u / 2) ->
  Rabs (rsum8 (fun u => Mr x' u * (rsum8 (fun v => Mr y' v * e v u) / 2048))) / 2 ^ 18
  <= rsum8 (fun u => rsum8 (fun v => Cw u * Cw v / 4 * qR v u)) / 2.
Proof.
  intros x' y' e qR Hx Hy He.
  set (b := 8192 * sqrt 2).
  assert (Hin : forall u, (u < 8)%nat ->
            Rabs (rsum8 (fun v => Mr y' v * e v u)) <= rsum8 (fun v => b * Cw v * (qR v u / 2))).
  { intros u Hu. apply rsum8_abs_le. intros v Hv. apply Rabs_mult_le2; [apply Mabs_cw; assumption | apply He; assumption]. }
  assert (Hout : Rabs (rsum8 (fun u => Mr x' u * (rsum8 (fun v => Mr y' v * e v u) / 2048)))
                 <= rsum8 (fun u => b * Cw u * (rsum8 (fun v => b * Cw v * (qR v u / 2)) / 2048))).
  { apply rsum8_abs_le. intros u Hu. apply Rabs_mult_le2; [apply Mabs_cw; assumption|].
    pose proof (Hin u Hu) as H. apply Rabs_le_iv in H. apply Rabs_le. lra. }
  assert (Heq : rsum8 (fun u => b * Cw u * (rsum8 (fun v => b * Cw v * (qR v u / 2)) / 2048)) / 2 ^ 18
                = rsum8 (fun u => rsum8 (fun v => Cw u * Cw v / 4 * qR v u)) / 2).
  { unfold b. pose proof sqrt2_sqr as Hs. set (s := sqrt 2) in *.
    replace (/ 4) with (s * s * / 8) by (rewrite Hs; lra).
    replace (rsum8 (fun u => rsum8 (fun v => Cw u * Cw v / 4 * qR v u)))
      with (rsum8 (fun u => rsum8 (fun v => Cw u * Cw v * (s * s * / 8) * qR v u))).
    2:{ rewrite Hs. unfold rsum8. field. }
    unfold rsum8. field. }
  rewrite <- Heq. unfold Rdiv. apply Rmult_le_compat_r; [|exact Hout].
  apply Rlt_le. apply Rinv_0_lt_compat. lra.
Qed.

(* ---------- the five roundings chained (abstract: any reals with these rounding facts) ---------- *)

Lemma Rabs_tri3 : forall a b c d D1 D2 D3, Rabs (a - b) <= D1 -> Rabs (b - c) <= D2 -> Rabs (c - d) <= D3 ->
  Rabs (a - d) <= D1 + D2 + D3.
Proof.
  intros a b c d D1 D2 D3 H1 H2 H3. apply Rabs_le_iv in H1. apply Rabs_le_iv in H2. apply Rabs_le_iv in H3.
  apply Rabs_le. lra.
Qed.

Section Chain.
  Variable y' x' : nat.
  Hypothesis Hy' : (y' < 8)%nat.
  Hypothesis Hx' : (x' < 8)%nat.
  Variable sR : nat -> R.                (* level-shifted samples, index 8*y+x *)
  Variable fwR cR : nat -> nat -> R.     (* forward workspace / coded coefficients (8x scaled) *)
  Variable XR : nat -> nat -> R.         (* dequantised coefficients, v u *)
  Variable qR : nat -> nat -> R.         (* table entries, v u *)
  Variable wsR : nat -> R.               (* inverse workspace, row y' *)
  Variable preR : R.                     (* inverse output before +128 and range limit *)

  Hypothesis Hs : forall x, (x < 8)%nat -> Rabs (sR (8 * y' + x)%nat) <= 128.
  Hypothesis H1 : forall u, (u < 8)%nat ->
    Rabs (fwR y' u - rsum8 (fun x => Mr x u * sR (8 * y' + x)%nat) / 2048) <= 1 / 2.
  Hypothesis H1b : forall y u, (y < 8)%nat -> (u < 8)%nat -> Rabs (fwR y u) <= 4096.
  Hypothesis H2 : forall v u, (v < 8)%nat -> (u < 8)%nat ->
    Rabs (cR v u - rsum8 (fun y => Mr y v * fwR y u) / 32768) <= 1 / 2.
  Hypothesis H3 : forall v u, (v < 8)%nat -> (u < 8)%nat -> Rabs (XR v u - cR v u / 8) <= qR v u / 2.
  Hypothesis H4 : forall u, (u < 8)%nat ->
    Rabs (wsR u - rsum8 (fun v => Mr y' v * XR v u) / 2048) <= 1 / 2.
  Hypothesis H5 : Rabs (preR - rsum8 (fun u => Mr x' u * wsR u) / 2 ^ 18) <= 1 / 2.

  Definition eR (v u : nat) : R := XR v u - cR v u / 8.
  Definition bR (u : nat) : R := rsum8 (fun v => Mr y' v * eR v u).

  (* inverse column pass: ws = (quantisation-error part) + forward workspace + delta1 *)
  Lemma chain_ws : forall u, (u < 8)%nat -> Rabs (wsR u - bR u / 2048 - fwR y' u) <= pipe_eta1.
  Proof.
    intros u Hu.
    set (a := rsum8 (fun v => Mr y' v * XR v u)).
    set (c := rsum8 (fun v => Mr y' v * (cR v u / 8))).
    set (d := rsum8 (fun v => Mr y' v * (rsum8 (fun y => Mr y v * fwR y u) / 2 ^ 18))).
    assert (Hab : a = bR u + c).
    { unfold a, bR, c, eR, rsum8. ring. }
    assert (Hcd : Rabs (c - d) <= sM * (1 / 16)).
    { unfold c, d. apply lin_diff; [exact Hy'|]. intros v Hv.
      pose proof (H2 v u Hv Hu) as H. apply Rabs_le_iv in H. apply Rabs_le.
      replace (2 ^ 18) with 262144 by lra. lra. }
    assert (Hd : Rabs (rsum8 (fun v => Mr y' v * rsum8 (fun y => Mr y v * fwR y u)) - 2 ^ 29 * fwR y' u) <= sD * 4096).
    { apply (colcomp y' (fun y => fwR y u) 4096 Hy'). intros n Hn. apply H1b; assumption. }
    assert (Hdd : d = rsum8 (fun v => Mr y' v * rsum8 (fun y => Mr y v * fwR y u)) / 2 ^ 18).
    { unfold d, rsum8. field. }
    pose proof (H4 u Hu) as Hw. fold a in Hw.
    apply Rabs_le_iv in Hcd. apply Rabs_le_iv in Hd. apply Rabs_le_iv in Hw.
    unfold pipe_eta1, sM, sD in *.
    replace (2 ^ 18) with 262144 in Hdd by lra. replace (2 ^ 29) with 536870912 in * by lra.
    replace (2 ^ 15) with 32768 by lra.
    generalize dependent (rsum8 (fun v => Mr y' v * rsum8 (fun y => Mr y v * fwR y u))).
    intros r Hd Hdd. clearbody a c d.
    generalize dependent (bR u). generalize dependent (fwR y' u). generalize dependent (wsR u).
    intros w Hw f Hd b Hab.
    clear - Hab Hcd Hd Hdd Hw. apply Rabs_le. lra.
  Qed.

  Theorem chain_bound :
    Rabs (preR - sR (8 * y' + x')%nat)
    <= rsum8 (fun u => rsum8 (fun v => Cw u * Cw v / 4 * qR v u)) / 2 + pipe_delta.
  Proof.
    set (P := rsum8 (fun u => Mr x' u * wsR u)).
    set (Pb := rsum8 (fun u => Mr x' u * (bR u / 2048))).
    set (Pf := rsum8 (fun u => Mr x' u * fwR y' u)).
    set (Pg := rsum8 (fun u => Mr x' u * (rsum8 (fun x => Mr x u * sR (8 * y' + x)%nat) / 2048))).
    assert (HP : Rabs (P - (Pb + Pf)) <= sM * pipe_eta1).
    { replace (P - (Pb + Pf)) with (rsum8 (fun u => Mr x' u * (wsR u - bR u / 2048 - fwR y' u)))
        by (unfold P, Pb, Pf, rsum8; ring).
      apply lin1d_M_abs; [exact Hx'|]. exact chain_ws. }
    assert (Hfg : Rabs (Pf - Pg) <= sM * (1 / 2)).
    { unfold Pf, Pg. apply lin_diff; [exact Hx'|]. exact H1. }
    assert (Hg : Rabs (rsum8 (fun u => Mr x' u * rsum8 (fun x => Mr x u * sR (8 * y' + x)%nat))
                       - 2 ^ 29 * sR (8 * y' + x')%nat) <= sD * 128).
    { apply (colcomp x' (fun x => sR (8 * y' + x)%nat) 128 Hx'). exact Hs. }
    assert (Hgg : Pg = rsum8 (fun u => Mr x' u * rsum8 (fun x => Mr x u * sR (8 * y' + x)%nat)) / 2048).
    { unfold Pg, rsum8. field. }
    assert (Hb : Rabs Pb / 2 ^ 18 <= rsum8 (fun u => rsum8 (fun v => Cw u * Cw v / 4 * qR v u)) / 2).
    { unfold Pb, bR. apply (eps_bound x' y' eR qR Hx' Hy'). intros v u Hv Hu. unfold eR. apply H3; assumption. }
    pose proof H5 as Hp. fold P in Hp.
    assert (Hb' : - (rsum8 (fun u => rsum8 (fun v => Cw u * Cw v / 4 * qR v u)) / 2) * 2 ^ 18 <= Pb
                  <= rsum8 (fun u => rsum8 (fun v => Cw u * Cw v / 4 * qR v u)) / 2 * 2 ^ 18).
    { revert Hb. generalize (rsum8 (fun u => rsum8 (fun v => Cw u * Cw v / 4 * qR v u)) / 2). intros t Hb.
      unfold Rdiv in Hb. replace (2 ^ 18) with 262144 in * by lra.
      assert (Hb2 : Rabs Pb <= t * 262144) by lra. apply Rabs_le_iv in Hb2. lra. }
    clear Hb.
    apply Rabs_le_iv in HP. apply Rabs_le_iv in Hfg. apply Rabs_le_iv in Hg. apply Rabs_le_iv in Hp.
    unfold pipe_delta, pipe_eta1, sM, sD in *.
    replace (2 ^ 18) with 262144 in * by lra. replace (2 ^ 29) with 536870912 in * by lra.
    replace (2 ^ 15) with 32768 in * by lra. replace (2 ^ 19) with 524288 by lra.
    generalize dependent (rsum8 (fun u => Mr x' u * rsum8 (fun x => Mr x u * sR (8 * y' + x)%nat))).
    intros r Hg Hgg. clearbody P Pb Pf Pg.
    generalize dependent (rsum8 (fun u => rsum8 (fun v => Cw u * Cw v / 4 * qR v u)) / 2).
    generalize dependent (sR (8 * y' + x')%nat).
    intros sv Hg t Hb'.
    clear - HP Hfg Hg Hgg Hp Hb'. apply Rabs_le. lra.
  Qed.
End Chain.

Lemma pipe_delta_val : pipe_delta <= 1437 / 1000.
Proof. unfold pipe_delta, pipe_eta1, sM, sD. lra. Qed.
