(* Concrete instances of the hypotheses of the C11 numeric theorems (for Props/C11_num.v). *)
From Coq Require Import Reals Lra Lia List ZArith.
From V Require Import Common.Base Gen.JpegTables_gen JpegDCT.DctQuant JpegDCT.DctIslow JpegDCT.DctBound
  JpegDCT.DctProofsA JpegDCT.DctNumDefs JpegDCT.DctNumProofsI JpegDCT.DctNumDefsF.
Import ListNotations.
Open Scope Z_scope.

Lemma forall_lt64 : forall P : nat -> bool, forallb P (seq 0 64) = true -> forall k, (k < 64)%nat -> P k = true.
Proof.
  intros P H k Hk. rewrite forallb_forall in H. apply H. apply in_seq. lia.
Qed.

(* a textured block (a ramp with a superposed pattern) and the standard luminance table *)
Definition ex_block : list Z := map (fun k => (Z.of_nat k * 37 + 11) mod 256) (seq 0 64).
Definition ex_qt : list Z := jpeg_qt_luma.
Definition ex_coef : list Z := quant_block8 (dct_islow ex_block) ex_qt.

Lemma ex_block_hyps :
  length ex_block = 64%nat /\ length ex_qt = 64%nat /\
  (forall k, (k < 64)%nat -> 0 <= nth k ex_block 0 <= 255) /\
  (forall k, (k < 64)%nat -> 1 <= nth k ex_qt 0 <= 255).
Proof.
  split; [reflexivity|]. split; [reflexivity|]. split; intros k Hk.
  - pose proof (forall_lt64 (fun k => (0 <=? nth k ex_block 0) && (nth k ex_block 0 <=? 255)) eq_refl k Hk) as H.
    cbv beta in H. apply andb_prop in H. destruct H as [H1 H2]. apply Z.leb_le in H1. apply Z.leb_le in H2. lia.
  - pose proof (forall_lt64 (fun k => (1 <=? nth k ex_qt 0) && (nth k ex_qt 0 <=? 255)) eq_refl k Hk) as H.
    cbv beta in H. apply andb_prop in H. destruct H as [H1 H2]. apply Z.leb_le in H1. apply Z.leb_le in H2. lia.
Qed.

(* the decoded block differs from the source; the largest deviation on this instance is 52 grey levels *)
Lemma ex_block_decoded :
  fold_right Z.max 0 (map (fun p => Z.abs (fst p - snd p)) (combine (idct_islow ex_coef ex_qt) ex_block)) = 52
  /\ nth 0 ex_block 0 = 11 /\ nth 0 (idct_islow ex_coef ex_qt) 0 = 0.
Proof. vm_compute. repeat split. Qed.

Lemma ex_coef_hyps :
  length ex_coef = 64%nat /\ length ex_qt = 64%nat /\ 0 <= 220 <= 1173 /\
  (forall k, (k < 64)%nat -> Z.abs (nth k ex_coef 0 * nth k ex_qt 0) <= 220).
Proof.
  split; [reflexivity|]. split; [reflexivity|]. split; [lia|]. intros k Hk.
  pose proof (forall_lt64 (fun k => Z.abs (nth k ex_coef 0 * nth k ex_qt 0) <=? 220) eq_refl k Hk) as H.
  cbv beta in H. apply Z.leb_le in H. exact H.
Qed.

Lemma ex_pass : (3 < 8)%nat /\
  oget 3 (idct_1d ijg_consts (octf (fun k => Z.of_nat k + 1))) = zsum8 (fun k => Mz 3 k * (Z.of_nat k + 1)) /\
  zsum8 (fun k => Mz 3 k * (Z.of_nat k + 1)) = -68318.
Proof. split; [lia|]. split; vm_compute; reflexivity. Qed.

Lemma ex_descale : 1 <= 11 /\ - 2 ^ 31 <= 3071 + 2 ^ (11 - 1) < 2 ^ 31 /\ descale 3071 11 = 1 /\ descale 3072 11 = 2.
Proof. repeat split; vm_compute; congruence. Qed.
