(* Definitions for the accuracy statement of the forward kernel against the exact real DCT-II. *)
From Coq Require Import Reals List ZArith.
From V Require Import Common.Base JpegDCT.DctBound JpegDCT.DctNumDefs.
Open Scope R_scope.

(* exact orthonormal 2-D DCT-II coefficient (v,u) of the (level-shifted) block S, index 8*y+x *)
Definition exact_fdct (S : nat -> R) (v u : nat) : R :=
  rsum8 (fun y => rsum8 (fun x => basis x y u v * S (8 * y + x)%nat)).

(* column sums: sum_n |Mi n k| <= sMc, sum_n MuT n k / 10000 <= smuc *)
Definition sMc : R := 65536.
Definition smuc : R := 4878 / 1000.

(* |coded coefficient - 8 * exact coefficient| for samples of magnitude <= 128 *)
Definition fdct_err8 : R := 1 / 2 + sMc / 2 ^ 16 + 128 * (2 * sMc * smuc + smuc * smuc) / 2 ^ 26.
