(* EXTRACT *)
(* Model of the fixed-point colour conversions of jpeg/baseline: Encoder.rgbToYCbCr (per
   pixel) and ycbcrToRGB. The integer literals are taken, by position, from the literal
   lists the translator regenerates from the two function bodies (source order), so a changed
   coefficient changes the model. Go int is 64 bit: no narrowing occurs. *)
From V Require Import Common.Base Gen.JpegTables_gen JpegDCT.DctIslow.

Definition e_lit (i : nat) : Z := nth i baseline_rgb2ycc_lits 0.
Definition d_lit (i : nat) : Z := nth i baseline_ycc2rgb_lits 0.

(* yy    := (19595*r + 38470*g + 7471*b + 32768) >> 16
   cbVal := (-11056*r - 21712*g + 32768*b + 8421376) >> 16
   crVal := (32768*r - 27440*g - 5328*b + 8421376) >> 16 ; each clamped to 0..255 *)
Definition rgb_to_ycc (r g b : Z) : Z * Z * Z :=
  let yy := Z.shiftr (e_lit 12 * r + e_lit 13 * g + e_lit 14 * b + e_lit 15) (e_lit 16) in
  let cb := Z.shiftr (- e_lit 17 * r - e_lit 18 * g + e_lit 19 * b + e_lit 20) (e_lit 21) in
  let cr := Z.shiftr (e_lit 22 * r - e_lit 23 * g - e_lit 24 * b + e_lit 25) (e_lit 26) in
  (clamp yy (e_lit 27) (e_lit 28), clamp cb (e_lit 29) (e_lit 30), clamp cr (e_lit 31) (e_lit 32)).

(* cbVal := cb - 128 ; crVal := cr - 128
   r := y + (91881*crVal)>>16 ; g := y - ((22554*cbVal + 46802*crVal) >> 16)
   b := y + (116130*cbVal)>>16 ; each clamped to 0..255     (>> binds tighter than +) *)
Definition ycc_to_rgb (y cb cr : Z) : Z * Z * Z :=
  let cbv := cb - d_lit 0 in
  let crv := cr - d_lit 1 in
  let r := y + Z.shiftr (d_lit 2 * crv) (d_lit 3) in
  let g := y - Z.shiftr (d_lit 4 * cbv + d_lit 5 * crv) (d_lit 6) in
  let b := y + Z.shiftr (d_lit 7 * cbv) (d_lit 8) in
  (clamp r (d_lit 9) (d_lit 10), clamp g (d_lit 11) (d_lit 12), clamp b (d_lit 13) (d_lit 14)).

Fixpoint rgb_to_ycc_list (px : list Z) : list Z :=
  match px with
  | r :: g :: b :: t => let '(y, cb, cr) := rgb_to_ycc r g b in y :: cb :: cr :: rgb_to_ycc_list t
  | _ => []
  end.
Fixpoint ycc_to_rgb_list (px : list Z) : list Z :=
  match px with
  | y :: cb :: cr :: t => let '(r, g, b) := ycc_to_rgb y cb cr in r :: g :: b :: ycc_to_rgb_list t
  | _ => []
  end.
