(* Proofs about the quantiser, table scaling, zig-zag order, DQT writer/parser and the
   standard Huffman tables (all over the regenerated tables). *)
From V Require Import Common.Base Gen.JpegTables_gen JpegDCT.DctQuant JpegDCT.DctZigzag.

(* ---------- quantiser ---------- *)

(* |c - d*q(c)| <= d/2, as integers: 2*|c - d*q| <= d, for the quantiser exactly as coded
   (sign split, truncating divisions). *)
Lemma quant_error : forall c d, 0 < d -> 2 * Z.abs (c - d * quant_coded c d) <= d.
Proof.
  intros c d Hd. unfold quant_coded.
  destruct (Z.ltb_spec c 0) as [Hc|Hc].
  - assert (H2 : 0 <= Z.quot d 2) by (apply Z.quot_pos; lia).
    rewrite (Z.quot_div_nonneg d 2) in * by lia.
    rewrite (Z.quot_div_nonneg (- c + d / 2) d) by lia.
    pose proof (Z.div_mod (- c + d / 2) d ltac:(lia)) as E.
    pose proof (Z.mod_pos_bound (- c + d / 2) d Hd) as B.
    pose proof (Z.div_mod d 2 ltac:(lia)) as E2.
    pose proof (Z.mod_pos_bound d 2 ltac:(lia)) as B2.
    lia.
  - rewrite (Z.quot_div_nonneg d 2) in * by lia.
    assert (H2 : 0 <= d / 2) by (apply Z.div_pos; lia).
    rewrite (Z.quot_div_nonneg (c + d / 2) d) by lia.
    pose proof (Z.div_mod (c + d / 2) d ltac:(lia)) as E.
    pose proof (Z.mod_pos_bound (c + d / 2) d Hd) as B.
    pose proof (Z.div_mod d 2 ltac:(lia)) as E2.
    pose proof (Z.mod_pos_bound d 2 ltac:(lia)) as B2.
    lia.
Qed.

Lemma i32_id : forall x, - 2 ^ 31 <= x < 2 ^ 31 -> i32 x = x.
Proof.
  intros x Hx. unfold i32, wrapS. change (2 ^ (32 - 1)) with 2147483648.
  change (2 ^ 32) with 4294967296. change (2 ^ 31) with 2147483648 in Hx.
  destruct (Z_lt_le_dec x 0) as [Hneg|Hpos].
  - assert (Hm : x mod 4294967296 = x + 4294967296).
    { symmetry. apply Z.mod_unique with (q := -1); lia. }
    rewrite Hm. destruct (Z.ltb_spec (x + 4294967296) 2147483648); lia.
  - rewrite Z.mod_small by lia. destruct (Z.ltb_spec x 2147483648); lia.
Qed.

(* inside |c| <= 2^29, 0 < d <= 2^29 the int32 quantiser is the integer quantiser *)
Lemma quant_coded32_eq : forall c d, Z.abs c <= 2 ^ 29 -> 0 < d <= 2 ^ 29 ->
  quant_coded32 c d = quant_coded c d.
Proof.
  intros c d Hc Hd. unfold quant_coded32, quant_coded.
  change (2 ^ 29) with 536870912 in *.
  assert (H2 : 0 <= Z.quot d 2 <= d).
  { rewrite Z.quot_div_nonneg by lia. split; [apply Z.div_pos; lia|].
    apply Z.div_le_upper_bound; lia. }
  destruct (Z.ltb_spec c 0) as [Hneg|Hpos].
  - rewrite (i32_id (- c)) by (change (2 ^ 31) with 2147483648; lia).
    rewrite (i32_id (- c + Z.quot d 2)) by (change (2 ^ 31) with 2147483648; lia).
    assert (Hq : 0 <= Z.quot (- c + Z.quot d 2) d <= - c + Z.quot d 2).
    { rewrite (Z.quot_div_nonneg (- c + Z.quot d 2) d) by lia. split; [apply Z.div_pos; lia|].
      apply Z.div_le_upper_bound; nia. }
    apply i32_id. change (2 ^ 31) with 2147483648. lia.
  - rewrite (i32_id (c + Z.quot d 2)) by (change (2 ^ 31) with 2147483648; lia). reflexivity.
Qed.

(* quant8 / quant12 obey the error bound with divisor 8q, for every table entry 1..255 and
   every coefficient the int32 kernels can produce without wrapping *)
Lemma quant8_error : forall c q, Z.abs c <= 2 ^ 29 -> 1 <= q <= 255 ->
  2 * Z.abs (c - 8 * q * quant8 c q) <= 8 * q.
Proof.
  intros c q Hc Hq. unfold quant8.
  rewrite (i32_id (q * 8)) by (change (2 ^ 31) with 2147483648; lia).
  rewrite quant_coded32_eq by (change (2 ^ 29) with 536870912 in *; lia).
  pose proof (quant_error c (q * 8) ltac:(lia)) as H.
  replace (8 * q) with (q * 8) by ring. exact H.
Qed.

Lemma quant12_error : forall c q, Z.abs c <= 2 ^ 29 -> 1 <= q <= 255 ->
  2 * Z.abs (c - 8 * q * quant12 c q) <= 8 * q.
Proof.
  intros c q Hc Hq. unfold quant12. rewrite Z.shiftl_mul_pow2 by lia. change (2 ^ 3) with 8.
  rewrite (i32_id (q * 8)) by (change (2 ^ 31) with 2147483648; lia).
  rewrite quant_coded32_eq by (change (2 ^ 29) with 536870912 in *; lia).
  pose proof (quant_error c (q * 8) ltac:(lia)) as H.
  replace (8 * q) with (q * 8) by ring. exact H.
Qed.

(* ---------- table scaling (finite: quality 1..100 x 64 entries x both base tables) ---------- *)

Definition qualities : list Z := map Z.of_nat (seq 1 100).

Definition entry_ok (v : Z) : bool := (1 <=? v) && (v <=? 255).
Definition table_ok (t : list Z) : bool := (length t =? 64)%nat && forallb entry_ok t.

Lemma scale_table_range_b :
  forallb (fun q => table_ok (scale_quant_table jpeg_qt_luma q) && table_ok (scale_quant_table jpeg_qt_chroma q))
          qualities = true.
Proof. vm_compute. reflexivity. Qed.

Lemma qualities_spec : forall q, 1 <= q <= 100 -> In q qualities.
Proof.
  intros q Hq. unfold qualities. apply in_map_iff. exists (Z.to_nat q). split; [lia|].
  apply in_seq. lia.
Qed.

(* every entry the encoders can put into a DQT segment is in 1..255 (so it fits the 8-bit
   precision both encoders declare) and every table has 64 entries *)
Theorem scale_table_range : forall q base, 1 <= q <= 100 -> base = jpeg_qt_luma \/ base = jpeg_qt_chroma ->
  length (scale_quant_table base q) = 64%nat /\
  forall v, In v (scale_quant_table base q) -> 1 <= v <= 255.
Proof.
  intros q base Hq Hb.
  pose proof scale_table_range_b as H. rewrite forallb_forall in H.
  specialize (H q (qualities_spec q Hq)). apply andb_true_iff in H. destruct H as [Hl Hc].
  assert (Ht : table_ok (scale_quant_table base q) = true) by (destruct Hb; subst; assumption).
  unfold table_ok in Ht. apply andb_true_iff in Ht. destruct Ht as [Hlen Hall].
  split; [apply Nat.eqb_eq; exact Hlen|].
  intros v Hv. rewrite forallb_forall in Hall. specialize (Hall v Hv).
  unfold entry_ok in Hall. apply andb_true_iff in Hall. lia.
Qed.

(* quality 100 gives the all-ones table; this is what "no greyscale sample is off by more
   than 10 at quality 100" rests on *)
Lemma scale_table_q100 : scale_quant_table jpeg_qt_luma 100 = repeat 1 64 /\
                         scale_quant_table jpeg_qt_chroma 100 = repeat 1 64.
Proof. split; vm_compute; reflexivity. Qed.

(* ---------- zig-zag ---------- *)

Definition idx64 : list Z := map Z.of_nat (seq 0 64).

Lemma zigzag_perm_b :
  (length zigzag =? 64)%nat && (length unzig =? 64)%nat &&
  forallb (fun i => (0 <=? znth zigzag i (-1)) && (znth zigzag i (-1) <? 64)) idx64 &&
  forallb (fun i => znth unzig (znth zigzag i (-1)) (-1) =? i) idx64 &&
  forallb (fun k => znth zigzag (znth unzig k (-1)) (-1) =? k) idx64 = true.
Proof. vm_compute. reflexivity. Qed.

Lemma idx64_spec : forall i, 0 <= i < 64 -> In i idx64.
Proof.
  intros i Hi. unfold idx64. apply in_map_iff. exists (Z.to_nat i). split; [lia|].
  apply in_seq. lia.
Qed.

(* ZigZag is a permutation of 0..63 and Unzig (as init() builds it) is its inverse *)
Theorem zigzag_perm :
  length zigzag = 64%nat /\ length unzig = 64%nat /\
  (forall i, 0 <= i < 64 -> 0 <= znth zigzag i (-1) < 64) /\
  (forall i, 0 <= i < 64 -> znth unzig (znth zigzag i (-1)) (-1) = i) /\
  (forall k, 0 <= k < 64 -> znth zigzag (znth unzig k (-1)) (-1) = k).
Proof.
  pose proof zigzag_perm_b as H.
  apply andb_true_iff in H; destruct H as [H Hc].
  apply andb_true_iff in H; destruct H as [H Hb].
  apply andb_true_iff in H; destruct H as [H Ha].
  apply andb_true_iff in H; destruct H as [Hl1 Hl2].
  rewrite forallb_forall in Ha, Hb, Hc.
  split; [apply Nat.eqb_eq; exact Hl1|].
  split; [apply Nat.eqb_eq; exact Hl2|].
  split; [|split].
  - intros i Hi. specialize (Ha i (idx64_spec i Hi)). apply andb_true_iff in Ha. lia.
  - intros i Hi. specialize (Hb i (idx64_spec i Hi)). lia.
  - intros k Hk. specialize (Hc k (idx64_spec k Hk)). lia.
Qed.

(* the order is the one of T.81 Figure A.6 (typed here independently of the source) *)
Lemma zigzag_is_T81 : zigzag =
  [0; 1; 8; 16; 9; 2; 3; 10; 17; 24; 32; 25; 18; 11; 4; 5; 12; 19; 26; 33; 40; 48; 41; 34;
   27; 20; 13; 6; 7; 14; 21; 28; 35; 42; 49; 56; 57; 50; 43; 36; 29; 22; 15; 23; 30; 37; 44; 51;
   58; 59; 52; 45; 38; 31; 39; 46; 53; 60; 61; 54; 47; 55; 62; 63].
Proof. vm_compute. reflexivity. Qed.

(* ---------- the DQT a decoder parses is the table the encoder quantised with ---------- *)

Fixpoint list_eqb (a b : list Z) : bool :=
  match a, b with
  | [], [] => true
  | x :: a', y :: b' => (x =? y) && list_eqb a' b'
  | _, _ => false
  end.
Lemma list_eqb_eq : forall a b, list_eqb a b = true -> a = b.
Proof.
  induction a as [|x a IH]; destruct b as [|y b]; simpl; intros H; try discriminate; auto.
  apply andb_true_iff in H. destruct H as [H1 H2]. apply Z.eqb_eq in H1. subst. f_equal. auto.
Qed.

Definition dqt_roundtrip_ok (id : Z) (t : list Z) : bool :=
  match parse_dqt (length (dqt_payload id t)) (dqt_payload id t) with
  | Some [(id', t')] => (id' =? id) && list_eqb t' t
  | _ => false
  end.

Lemma dqt_written_is_used_b :
  forallb (fun q => dqt_roundtrip_ok 0 (scale_quant_table jpeg_qt_luma q) &&
                    dqt_roundtrip_ok 1 (scale_quant_table jpeg_qt_chroma q)) qualities = true.
Proof. vm_compute. reflexivity. Qed.

Lemma dqt_roundtrip_ok_spec : forall id t, dqt_roundtrip_ok id t = true ->
  parse_dqt (length (dqt_payload id t)) (dqt_payload id t) = Some [(id, t)].
Proof.
  intros id t. unfold dqt_roundtrip_ok.
  generalize (parse_dqt (length (dqt_payload id t)) (dqt_payload id t)). intros o H.
  destruct o as [[|[id' t'] [|? ?]]|]; try discriminate.
  apply andb_true_iff in H. destruct H as [Hi Ht]. apply Z.eqb_eq in Hi. apply list_eqb_eq in Ht.
  subst. reflexivity.
Qed.

Theorem dqt_written_is_used : forall q, 1 <= q <= 100 ->
  parse_dqt (length (dqt_payload 0 (scale_quant_table jpeg_qt_luma q))) (dqt_payload 0 (scale_quant_table jpeg_qt_luma q))
    = Some [(0, scale_quant_table jpeg_qt_luma q)] /\
  parse_dqt (length (dqt_payload 1 (scale_quant_table jpeg_qt_chroma q))) (dqt_payload 1 (scale_quant_table jpeg_qt_chroma q))
    = Some [(1, scale_quant_table jpeg_qt_chroma q)].
Proof.
  intros q Hq. pose proof dqt_written_is_used_b as H. rewrite forallb_forall in H.
  specialize (H q (qualities_spec q Hq)). apply andb_true_iff in H. destruct H as [Hl Hc].
  split; apply dqt_roundtrip_ok_spec; assumption.
Qed.

(* ---------- Huffman table descriptions (BITS / HUFFVAL) ---------- *)

Definition zsum (l : list Z) : Z := fold_left Z.add l 0.

(* Kraft sum scaled by 2^16: sum_l BITS[l] * 2^(16-l), l = 1..16 *)
Fixpoint kraft16 (bits : list Z) (l : Z) : Z :=
  match bits with
  | [] => 0
  | b :: t => b * 2 ^ (16 - l) + kraft16 t (l + 1)
  end.

Fixpoint nodupb (l : list Z) : bool :=
  match l with
  | [] => true
  | x :: t => negb (existsb (Z.eqb x) t) && nodupb t
  end.

(* a valid prefix code description: 16 counts, each >= 0; their sum is the number of
   HUFFVAL entries; the code lengths satisfy Kraft's inequality strictly (the all-ones code
   word of the longest length stays free, as T.81 requires); symbols are bytes without repeats *)
Definition huff_ok (t : list Z * list Z) : bool :=
  let (bits, vals) := t in
  (length bits =? 16)%nat && forallb (fun b => 0 <=? b) bits &&
  (zsum bits =? zlen vals) && (kraft16 bits 1 <? 2 ^ 16) &&
  forallb is_byte vals && nodupb vals.

Definition ext_dc_chroma : list Z * list Z :=
  (jpeg_huff_extended_dc_chrominance_bits, jpeg_huff_extended_dc_chrominance_vals).
Definition pair_eqb (a b : list Z * list Z) : bool :=
  list_eqb (fst a) (fst b) && list_eqb (snd a) (snd b).

Lemma std_huffman_tables_ok_b :
  forallb (fun t => huff_ok t || pair_eqb t ext_dc_chroma) jpeg_huff_all = true.
Proof. vm_compute. reflexivity. Qed.

(* Every BITS/HUFFVAL pair of jpeg/standard — the four standard DCT tables, the lossless DC
   tables and the extended luminance DC table — is a valid prefix code description; the one
   exception is named (see the _refuted lemma below). *)
Theorem std_huffman_tables_ok : forall bits vals, In (bits, vals) jpeg_huff_all ->
  (bits, vals) = ext_dc_chroma \/
  (length bits = 16%nat /\ (forall b, In b bits -> 0 <= b) /\
   zsum bits = zlen vals /\ kraft16 bits 1 < 2 ^ 16 /\
   (forall v, In v vals -> 0 <= v < 256) /\ nodupb vals = true).
Proof.
  intros bits vals Hin. pose proof std_huffman_tables_ok_b as H. rewrite forallb_forall in H.
  specialize (H _ Hin). apply orb_true_iff in H. destruct H as [H|H].
  2:{ left. unfold pair_eqb in H. apply andb_true_iff in H. destruct H as [H1 H2].
      apply list_eqb_eq in H1. apply list_eqb_eq in H2. simpl in H1, H2. subst. reflexivity. }
  right. unfold huff_ok in H.
  apply andb_true_iff in H; destruct H as [H Hnd].
  apply andb_true_iff in H; destruct H as [H Hby].
  apply andb_true_iff in H; destruct H as [H Hk].
  apply andb_true_iff in H; destruct H as [H Hs].
  apply andb_true_iff in H; destruct H as [Hl Hp].
  rewrite forallb_forall in Hp, Hby.
  split; [apply Nat.eqb_eq; exact Hl|].
  split; [intros b Hb; specialize (Hp b Hb); lia|].
  split; [lia|]. split; [lia|].
  split; [|exact Hnd].
  intros v Hv. specialize (Hby v Hv). unfold is_byte in Hby. apply andb_true_iff in Hby. lia.
Qed.

(* ExtendedDCChrominanceBits sums to 18 but ExtendedDCChrominanceValues has 17 entries: not a
   BITS/HUFFVAL description of any code (a DHT built from it would declare one symbol more
   than it carries). No non-test code of /repo refers to this table. *)
Lemma ext_dc_chroma_table_refuted :
  In ext_dc_chroma jpeg_huff_all /\ zsum (fst ext_dc_chroma) = 18 /\ zlen (snd ext_dc_chroma) = 17.
Proof. split; [unfold jpeg_huff_all, ext_dc_chroma; simpl; intuition | split; vm_compute; reflexivity]. Qed.

(* the four tables the DCT encoders start from are among the checked ones *)
Lemma std_tables_listed :
  In (jpeg_huff_standard_dc_luminance_bits, jpeg_huff_standard_dc_luminance_vals) jpeg_huff_all /\
  In (jpeg_huff_standard_ac_luminance_bits, jpeg_huff_standard_ac_luminance_vals) jpeg_huff_all /\
  In (jpeg_huff_standard_dc_chrominance_bits, jpeg_huff_standard_dc_chrominance_vals) jpeg_huff_all /\
  In (jpeg_huff_standard_ac_chrominance_bits, jpeg_huff_standard_ac_chrominance_vals) jpeg_huff_all.
Proof. unfold jpeg_huff_all. simpl. intuition. Qed.

(* The source's "standard" luminance DC table is NOT T.81 Table K.3 (BITS 0,1,5,1,1,1,1,1,1;
   values 0..11): it repeats the chrominance BITS and lists category 15 in place of 11.
   It is still a valid prefix code (above), and both DCT encoders replace it by an optimised
   table before anything is written, so no stream depends on it. Recorded as a fact. *)
Lemma std_dc_luminance_is_not_K3 :
  jpeg_huff_standard_dc_luminance_bits <> [0; 1; 5; 1; 1; 1; 1; 1; 1; 0; 0; 0; 0; 0; 0; 0] /\
  existsb (Z.eqb 11) jpeg_huff_standard_dc_luminance_vals = false.
Proof. split; [intro H; vm_compute in H; discriminate | vm_compute; reflexivity]. Qed.
