(* The unconditional grey-block bound for every table the encoders can declare
   (ScaleQuantTable of either base table at quality 1..100). *)
From Coq Require Import Reals Lra Lia List ZArith.
From V Require Import Common.Base Gen.JpegTables_gen JpegDCT.DctQuant JpegDCT.DctIslow JpegDCT.DctBound
  JpegDCT.DctProofsA JpegDCT.DctNumDefs JpegDCT.DctNumDefsF JpegDCT.DctNumProofsN.
Import ListNotations.
Open Scope R_scope.

Theorem grey_block_quality : forall quality base block,
  (1 <= quality <= 100)%Z -> base = jpeg_qt_luma \/ base = jpeg_qt_chroma ->
  length block = 64%nat -> (forall k, (k < 64)%nat -> (0 <= nth k block 0 <= 255)%Z) ->
  forall y x, (y < 8)%nat -> (x < 8)%nat ->
  let qt := scale_quant_table base quality in
  Rabs (IZR (nth (8 * y + x) (idct_islow (quant_block8 (dct_islow block) qt) qt) 0%Z)
        - IZR (nth (8 * y + x) block 0%Z)) <= boundGrey qt.
Proof.
  intros quality base block Hq Hbase Hb Hbr y x Hy Hx qt.
  destruct (scale_table_range quality base Hq Hbase) as [Hl Hr]. fold qt in Hl, Hr.
  apply grey_block_boundGrey; try assumption.
  intros k Hk. apply Hr. apply nth_In. lia.
Qed.
