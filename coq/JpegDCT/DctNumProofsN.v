(* List-level statement of the unconditional C11 bound for one greyscale block:
   idct_islow (quant_block8 (dct_islow block) qt) qt  against  block. *)
From Coq Require Import Reals Lra Lia List ZArith.
From V Require Import Common.Base JpegDCT.DctQuant JpegDCT.DctIslow JpegDCT.DctBound
  JpegDCT.DctProofsA JpegDCT.DctProofsR JpegDCT.DctNumDefs JpegDCT.DctNumProofsI JpegDCT.DctNumProofsJ
  JpegDCT.DctNumProofsK JpegDCT.DctNumProofsL JpegDCT.DctNumDefsF JpegDCT.DctNumProofsF JpegDCT.DctNumProofsE
  JpegDCT.DctNumProofsM.
Import ListNotations.
Open Scope Z_scope.

(* ---------- structure of fdct_2d ---------- *)

Definition two_passF (P1 P2 : oct -> oct) (l : list Z) : list Z :=
  concat (transpose8 (map (fun c => list_of_oct (P2 (oct_of_list c)))
            (transpose8 (map (fun r => list_of_oct (P1 (oct_of_list r))) (rows8 8 l))))).

Lemma two_passF_nth : forall P1 P2 l, length l = 64%nat ->
  length (two_passF P1 P2 l) = 64%nat /\
  forall v u, (v < 8)%nat -> (u < 8)%nat ->
  nth (8 * v + u) (two_passF P1 P2 l) 0 =
  oget v (P2 (octf (fun y => oget u (P1 (octf (fun x => nth (8 * y + x) l 0)))))).
Proof.
  intros P1 P2 l Hl.
  do 64 (destruct l as [|? l]; [discriminate Hl|]). destruct l; [|discriminate Hl].
  split; [reflexivity|].
  intros v u Hv Hu.
  do 8 (destruct v as [|v]; [do 8 (destruct u as [|u]; [reflexivity|]); lia|]). lia.
Qed.

Lemma dct_islow_two_pass : forall block,
  dct_islow block = two_passF fdct_p1 fdct_p2 (map (fun t => t - 128) block).
Proof. intros. reflexivity. Qed.

Lemma nth_quant_block8 : forall (coef qt : list Z) k, length coef = length qt -> (k < length coef)%nat ->
  nth k (quant_block8 coef qt) 0 = quant8 (nth k coef 0) (nth k qt 0).
Proof.
  unfold quant_block8.
  induction coef as [|c coef IH]; intros qt k Hl Hk; [simpl in Hk; lia|].
  destruct qt as [|q qt]; [discriminate Hl|]. destruct k as [|k]; [reflexivity|].
  cbn [combine map nth]. apply IH; simpl in *; lia.
Qed.

Lemma idct_fun_ext : forall X X' y x, (forall k, (k < 64)%nat -> X k = X' k) -> idct_fun X y x = idct_fun X' y x.
Proof.
  intros X X' y x H. unfold idct_fun, idct_pre, idct_osum, idct_ws, idct_wsum, zsum8.
  repeat rewrite H by lia. reflexivity.
Qed.

Lemma nth_centred : forall block k, (k < length block)%nat ->
  nth k (map (fun t => t - 128) block) 0 = nth k block 0 - 128.
Proof.
  intros block k Hk. rewrite (nth_indep _ 0 (0 - 128)) by (rewrite map_length; exact Hk).
  apply (map_nth (fun t => t - 128)).
Qed.

Open Scope R_scope.

Lemma tableBound_rsum8 : forall qt, length qt = 64%nat ->
  tableBound qt = rsum8 (fun u => rsum8 (fun v => Cw u * Cw v / 4 * IZR (nth (8 * v + u) qt 0%Z))) / 2.
Proof.
  intros qt Hl.
  do 64 (destruct qt as [|? qt]; [discriminate Hl|]). destruct qt; [|discriminate Hl].
  unfold tableBound. cbn [length seq combine map fst snd]. unfold rsum, wIdct, rsum8.
  cbn [fold_right Nat.modulo Nat.div Nat.divmod fst snd Nat.sub nth Nat.mul Nat.add].
  field.
Qed.

Theorem grey_block_bound : forall block qt, length block = 64%nat -> length qt = 64%nat ->
  (forall k, (k < 64)%nat -> (0 <= nth k block 0 <= 255)%Z) ->
  (forall k, (k < 64)%nat -> (1 <= nth k qt 0 <= 255)%Z) ->
  forall y x, (y < 8)%nat -> (x < 8)%nat ->
  Rabs (IZR (nth (8 * y + x) (idct_islow (quant_block8 (dct_islow block) qt) qt) 0%Z)
        - IZR (nth (8 * y + x) block 0%Z)) <= tableBound qt + pipe_delta.
Proof.
  intros block qt Hb Hq Hbr Hqr y x Hy Hx.
  set (cen := map (fun t => (t - 128)%Z) block).
  assert (Hcen : length cen = 64%nat) by (unfold cen; rewrite map_length; exact Hb).
  destruct (two_passF_nth fdct_p1 fdct_p2 cen Hcen) as [HDl HDn].
  set (s := fun k => nth k cen 0%Z). set (q := fun k => nth k qt 0%Z).
  assert (Hs : forall k, (k < 64)%nat -> (Z.abs (s k) <= 128)%Z).
  { intros k Hk. unfold s, cen. rewrite nth_centred by lia. pose proof (Hbr k Hk). lia. }
  assert (Hsb : forall k, (k < 64)%nat -> s k = (nth k block 0 - 128)%Z).
  { intros k Hk. unfold s, cen. apply nth_centred. lia. }
  rewrite dct_islow_two_pass. fold cen.
  assert (Hql : length (quant_block8 (two_passF fdct_p1 fdct_p2 cen) qt) = 64%nat).
  { unfold quant_block8. rewrite map_length, combine_length. lia. }
  rewrite idct_islow_fun by assumption.
  rewrite (idct_fun_ext _ (pipe_deq s q) y x).
  2:{ intros k Hk. rewrite nth_quant_block8 by lia. unfold pipe_deq, pipe_coef, q. do 2 f_equal.
      rewrite (Nat.div_mod k 8) at 1 by lia.
      apply HDn; [apply Nat.div_lt_upper_bound; lia | apply Nat.mod_upper_bound; lia]. }
  unfold idct_fun. rewrite clamp_IZR. rewrite plus_IZR.
  pose proof (pipe_pre_bound s q Hs Hqr y x Hy Hx) as H.
  rewrite (tableBound_rsum8 qt Hq).
  eapply Rle_trans; [apply clamp_contracts|].
  - pose proof (Hbr (8 * y + x)%nat ltac:(lia)) as [A B]. apply IZR_le in A. apply IZR_le in B. lra.
  - rewrite Hsb in H by lia. rewrite minus_IZR in H.
    replace (IZR (idct_pre (pipe_deq s q) y x) + 128 - IZR (nth (8 * y + x) block 0%Z))
      with (IZR (idct_pre (pipe_deq s q) y x) - (IZR (nth (8 * y + x) block 0%Z) - 128)) by ring.
    exact H.
Qed.

Theorem grey_block_boundGrey : forall block qt, length block = 64%nat -> length qt = 64%nat ->
  (forall k, (k < 64)%nat -> (0 <= nth k block 0 <= 255)%Z) ->
  (forall k, (k < 64)%nat -> (1 <= nth k qt 0 <= 255)%Z) ->
  forall y x, (y < 8)%nat -> (x < 8)%nat ->
  Rabs (IZR (nth (8 * y + x) (idct_islow (quant_block8 (dct_islow block) qt) qt) 0%Z)
        - IZR (nth (8 * y + x) block 0%Z)) <= boundGrey qt.
Proof.
  intros block qt Hb Hq Hbr Hqr y x Hy Hx.
  pose proof (grey_block_bound block qt Hb Hq Hbr Hqr y x Hy Hx) as H.
  pose proof pipe_delta_val. unfold boundGrey. lra.
Qed.
