(* idct_islow_accuracy: range limit and the list-level statement (continues DctNumProofsK). *)
From Coq Require Import Reals Lra Lia List ZArith.
From V Require Import Common.Base JpegDCT.DctQuant JpegDCT.DctIslow JpegDCT.DctBound
  JpegDCT.DctProofsA JpegDCT.DctNumDefs JpegDCT.DctNumProofsI JpegDCT.DctNumProofsJ JpegDCT.DctNumProofsK.
Import ListNotations.

(* ---------- range limit ---------- *)
Open Scope R_scope.

Lemma clamp_IZR : forall z, IZR (clamp z 0 255) = clampR (IZR z).
Proof.
  intros z. unfold clamp, clampR, Rmax, Rmin.
  destruct (Z.ltb_spec z 0) as [H|H]; [|destruct (Z.ltb_spec 255 z) as [H'|H']].
  - apply IZR_lt in H. destruct (Rle_dec 255 (IZR z)); [lra|]. destruct (Rle_dec 0 (IZR z)); lra.
  - apply IZR_lt in H'. destruct (Rle_dec 255 (IZR z)); [|lra]. destruct (Rle_dec 0 255); lra.
  - apply IZR_le in H. apply IZR_le in H'.
    destruct (Rle_dec 255 (IZR z)); [destruct (Rle_dec 0 255); lra|]. destruct (Rle_dec 0 (IZR z)); lra.
Qed.

Lemma clampR_lip : forall a b, Rabs (clampR a - clampR b) <= Rabs (a - b).
Proof.
  intros a b. unfold clampR, Rmax, Rmin.
  destruct (Rle_dec 255 a); destruct (Rle_dec 255 b); destruct (Rle_dec 0 255);
    destruct (Rle_dec 0 a); destruct (Rle_dec 0 b);
    unfold Rabs; repeat destruct Rcase_abs; lra.
Qed.

Theorem idct_islow_accuracy : forall (coef qt : list Z) (B : Z),
  length coef = 64%nat -> length qt = 64%nat -> (0 <= B <= 1173)%Z ->
  (forall k, (k < 64)%nat -> (Z.abs (nth k coef 0%Z * nth k qt 0%Z) <= B)%Z) ->
  forall y x, (y < 8)%nat -> (x < 8)%nat ->
  Rabs (IZR (nth (8 * y + x) (idct_islow coef qt) 0%Z)
        - clampR (exact_idct (fun k => IZR (nth k coef 0%Z * nth k qt 0%Z)) y x + 128)) <= idct_di0 B.
Proof.
  intros coef qt B Hc Hq HB HX y x Hy Hx.
  rewrite idct_islow_fun by assumption. unfold idct_fun. rewrite clamp_IZR.
  eapply Rle_trans; [apply clampR_lip|].
  rewrite plus_IZR.
  pose proof (pre_err (fun k => (nth k coef 0%Z * nth k qt 0%Z)%Z) B HB HX y x Hy Hx) as H.
  match goal with |- Rabs ?e <= _ => replace e with
    (IZR (idct_pre (fun k => (nth k coef 0%Z * nth k qt 0%Z)%Z) y x)
     - exact_idct (fun k => IZR (nth k coef 0%Z * nth k qt 0%Z)) y x) by ring end.
  exact H.
Qed.

(* numeric instances of the bound *)
Lemma idct_rho_val : idct_rho <= 6168 / 10000.
Proof. unfold idct_rho, sM. lra. Qed.
Lemma idct_kappa_val : idct_kappa <= 8110 / 10000000.
Proof. unfold idct_kappa, sM, smu. lra. Qed.
Lemma idct_di0_1152 : idct_di0 1152 <= 1552 / 1000.
Proof. unfold idct_di0, idct_rho, idct_kappa, sM, smu. lra. Qed.
Lemma idct_di0_0 : idct_di0 0 <= 6168 / 10000.
Proof. unfold idct_di0, idct_rho, idct_kappa, sM, smu. lra. Qed.
