(* EXTRACT *)
(* Block / MCU geometry of jpeg/baseline: the decoder (parseSOF, decodeScan, decodeBlock,
   convertToPixels) and the encoder (block grid, edge replication), as index functions.
   A component is a pair (H, V) of sampling factors. *)
From V Require Import Common.Base.

(* standard.DivCeil: (a + b - 1) / b   (Go int division truncates) *)
Definition div_ceil (a b : Z) : Z := Z.quot (a + b - 1) b.

Definition max_list (l : list Z) : Z := fold_left Z.max l 1.
Definition max_h (comps : list (Z * Z)) : Z := max_list (map fst comps).
Definition max_v (comps : list (Z * Z)) : Z := max_list (map snd comps).

Definition mcu_cols (width : Z) (comps : list (Z * Z)) : Z := div_ceil width (max_h comps * 8).
Definition mcu_rows (height : Z) (comps : list (Z * Z)) : Z := div_ceil height (max_v comps * 8).

(* parseSOF (after fix F16):  comp.width = mcuCols * comp.H ; comp.height = mcuRows * comp.V
   (in blocks: the grid the scan delivers, padding blocks included) ;
   len(comp.data) = comp.width*comp.height*64.
   Before the fix the grid was DivCeil(width*H, maxH*8) x DivCeil(height*V, maxV*8), smaller
   than the scan's grid when the luma block count per row is odd: witness 17x9 4:2:0, where
   scan block (3,0) landed on the cell of block (0,1). *)
Definition comp_wb (width : Z) (comps : list (Z * Z)) (hv : Z * Z) : Z :=
  mcu_cols width comps * fst hv.
Definition comp_hb (height : Z) (comps : list (Z * Z)) (hv : Z * Z) : Z :=
  mcu_rows height comps * snd hv.
Definition comp_len (width height : Z) (comps : list (Z * Z)) (hv : Z * Z) : Z :=
  comp_wb width comps hv * comp_hb height comps hv * 64.

(* decodeBlock:  blockOffset := (blockY*comp.width + blockX) * 64 ;
   if blockOffset+63 >= len(comp.data) { skip } *)
Definition block_offset (wb bx by_ : Z) : Z := (by_ * wb + bx) * 64.
Definition block_written (wb hb bx by_ : Z) : bool := negb (wb * hb * 64 <=? block_offset wb bx by_ + 63).

Definition zrange (n : Z) : list Z := map Z.of_nat (seq 0 (Z.to_nat n)).

(* decodeScan: the blocks of one component in scan order:
   for mcuY, mcuX, (component), v < V, h < H: (mcuX*H + h, mcuY*V + v) *)
Definition scan_blocks (width height : Z) (comps : list (Z * Z)) (hv : Z * Z) : list (Z * Z) :=
  flat_map (fun my => flat_map (fun mx => flat_map (fun v => map (fun h =>
    (mx * fst hv + h, my * snd hv + v)) (zrange (fst hv))) (zrange (snd hv)))
    (zrange (mcu_cols width comps))) (zrange (mcu_rows height comps)).

(* the scan block that finally owns a given offset (None = never written) *)
Definition last_writer (wb hb : Z) (blocks : list (Z * Z)) (off : Z) : option (Z * Z) :=
  fold_left (fun acc b =>
    if block_written wb hb (fst b) (snd b) && (block_offset wb (fst b) (snd b) =? off) then Some b else acc)
    blocks None.

(* convertToPixels, 3 components:  maxH := components[0].H (sic), maxV := components[0].V
   sx := (x*H)/maxH ; sy := (y*V)/maxV ; blockX := sx/8 ... guarded by
   blockX < comp.width && blockY < comp.height ; index = blockOffset + inBlockY*8 + inBlockX.
   Result: None when the guard fails (the sample stays 0). *)
Definition pixel_index (width height : Z) (comps : list (Z * Z)) (hv : Z * Z) (x y : Z) : option Z :=
  let h0 := match comps with c0 :: _ => fst c0 | [] => 1 end in
  let v0 := match comps with c0 :: _ => snd c0 | [] => 1 end in
  let sx := Z.quot (x * fst hv) h0 in
  let sy := Z.quot (y * snd hv) v0 in
  let bx := Z.quot sx 8 in let by_ := Z.quot sy 8 in
  let wb := comp_wb width comps hv in let hb := comp_hb height comps hv in
  if (bx <? wb) && (by_ <? hb)
  then Some (block_offset wb bx by_ + Z.rem sy 8 * 8 + Z.rem sx 8) else None.

(* the (block, sample) a pixel SHOULD be read from: block (sx/8, sy/8) of the component's
   own grid with maxH taken over all components *)
Definition pixel_block (comps : list (Z * Z)) (hv : Z * Z) (x y : Z) : Z * Z :=
  (Z.quot (Z.quot (x * fst hv) (max_h comps)) 8, Z.quot (Z.quot (y * snd hv) (max_v comps)) 8).

(* encoder (always 4:4:4 / grey): DivCeil(width,8) x DivCeil(height,8) blocks, sample
   (blockX*8+x, blockY*8+y) replicated from min(.., limit-1) *)
Definition enc_blocks_w (width : Z) : Z := div_ceil width 8.
Definition enc_blocks_h (height : Z) : Z := div_ceil height 8.
Definition enc_src (limit b i : Z) : Z := Z.min (b * 8 + i) (limit - 1).

(* grey block extraction as coded in quantizeBlock: stride = width, dataHeight = len/stride *)
Definition extract_block (data : list Z) (stride bx by_ : Z) : list Z :=
  let dh := Z.quot (zlen data) stride in
  flat_map (fun y => map (fun x =>
    znth data (Z.min (by_ * 8 + y) (dh - 1) * stride + Z.min (bx * 8 + x) (stride - 1)) 0) (zrange 8)) (zrange 8).

(* output sizes promised by Decode: width*height*components samples *)
Definition out_len (width height ncomp : Z) : Z := width * height * ncomp.
