(* Definitions for the forward kernel (dct_islow) in functional form and for the end-to-end
   composition  block -> DCTISlow -> quantise -> dequantise -> IDCTISlow.  Not extracted. *)
From Coq Require Import Reals List ZArith.
From V Require Import Common.Base JpegDCT.DctQuant JpegDCT.DctIslow JpegDCT.DctBound JpegDCT.DctNumDefs.
Import ListNotations.
Open Scope Z_scope.

(* the two passes of DCTISlow *)
Definition fdct_p1 (o : oct) : oct := fdct_1d ijg_consts (fun v => i32 (v * 2 ^ 2)) 11 o.
Definition fdct_p2 (o : oct) : oct := fdct_1d ijg_consts (fun v => descale v 2) 15 o.

(* s = level-shifted samples, index 8*y+x; result index 8*v+u *)
Definition fdct_fsum (s : nat -> Z) (y u : nat) : Z := zsum8 (fun x => Mz x u * s (8 * y + x)%nat).
Definition fdct_fw (s : nat -> Z) (y u : nat) : Z := oget u (fdct_p1 (octf (fun x => s (8 * y + x)%nat))).
Definition fdct_csum (s : nat -> Z) (v u : nat) : Z := zsum8 (fun y => Mz y v * fdct_fw s y u).
Definition fdct_fun (s : nat -> Z) (v u : nat) : Z := oget v (fdct_p2 (octf (fun y => fdct_fw s y u))).

(* coded pipeline on one block, functional form: q = quantisation table (natural order) *)
Definition pipe_coef (s : nat -> Z) (k : nat) : Z := fdct_fun s (k / 8) (k mod 8).
Definition pipe_deq (s q : nat -> Z) (k : nat) : Z := quant8 (pipe_coef s k) (q k) * q k.
Definition pipe_out (s q : nat -> Z) (y x : nat) : Z := idct_fun (pipe_deq s q) y x.

(* Q = Mi * Mi^T - 2^29 I : deviation of the coded pass pair from a scaled identity *)
Definition Dz (a b : nat) : Z := zsum8 (fun k => Mz a k * Mz b k) - (if Nat.eqb a b then 2 ^ 29 else 0).

Open Scope R_scope.
(* max_a sum_b |Dz a b| *)
Definition sD : R := 132002.
(* rounding allowance actually consumed by the coded kernels, end to end (grey levels) *)
Definition pipe_eta1 : R := 1 / 2 + sM / 2 ^ 15 + sD * 4096 / 2 ^ 29.
Definition pipe_delta : R := 1 / 2 + sM * pipe_eta1 / 2 ^ 18 + sM / 2 ^ 19 + sD * 128 / 2 ^ 29.
