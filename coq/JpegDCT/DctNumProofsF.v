(* Forward kernel DCTISlow (dct_islow): each 1-D pass is the transpose of the integer matrix Mi
   followed by round-to-nearest; int32 headroom; functional form of the list program. *)
From Coq Require Import Lia List ZArith.
From V Require Import Common.Base Gen.JpegTables_gen JpegDCT.DctQuant JpegDCT.DctIslow JpegDCT.DctBound
  JpegDCT.DctProofsA JpegDCT.DctNumDefs JpegDCT.DctNumProofsI JpegDCT.DctNumDefsF.
Import ListNotations.
Open Scope Z_scope.

Ltac fdct_unfold :=
  unfold oget, octf, fdct_1d, ijg_consts;
  cbn [nth list_of_oct f0298 f0390 f0541 f0765 f0899 f1175 f1501 f1847 f1961 f2053 f2562 f3072 cbits p1bits];
  unfold ijg_const_bits, ijg_fix_0298631336, ijg_fix_0390180644, ijg_fix_0541196100,
      ijg_fix_0765366865, ijg_fix_0899976223, ijg_fix_1175875602, ijg_fix_1501321110,
      ijg_fix_1847759065, ijg_fix_1961570560, ijg_fix_2053119869, ijg_fix_2562915447,
      ijg_fix_3072711026.

Lemma fdct_1d_ac : forall dc s (f : nat -> Z) k, (k < 8)%nat -> k <> 0%nat -> k <> 4%nat ->
  oget k (fdct_1d ijg_consts dc s (octf f)) = descale (zsum8 (fun n => Mz n k * f n)) s.
Proof.
  intros dc s f k Hk H0 H4.
  do 8 (destruct k as [|k]; [first [congruence | fdct_unfold; unfold zsum8, Mz, Mi; cbn [nth]; apply (f_equal2 descale); [ring|reflexivity]]|]).
  lia.
Qed.

Lemma fdct_1d_dc : forall dc s (f : nat -> Z) k, k = 0%nat \/ k = 4%nat ->
  exists t, zsum8 (fun n => Mz n k * f n) = 8192 * t /\ oget k (fdct_1d ijg_consts dc s (octf f)) = dc t.
Proof.
  intros dc s f k [-> | ->].
  - exists (f 0%nat + f 7%nat + (f 3%nat + f 4%nat) + (f 1%nat + f 6%nat + (f 2%nat + f 5%nat))).
    split; [unfold zsum8, Mz, Mi; cbn [nth]; ring | fdct_unfold; reflexivity].
  - exists (f 0%nat + f 7%nat + (f 3%nat + f 4%nat) - (f 1%nat + f 6%nat + (f 2%nat + f 5%nat))).
    split; [unfold zsum8, Mz, Mi; cbn [nth]; ring | fdct_unfold; reflexivity].
Qed.

Lemma zlin_abs_col : forall k (d : nat -> Z) D, (k < 8)%nat ->
  (forall n, (n < 8)%nat -> Z.abs (d n) <= D) ->
  Z.abs (zsum8 (fun n => Mz n k * d n)) <= 65536 * D.
Proof.
  intros k d D Hk Hd.
  pose proof (Hd 0%nat ltac:(lia)) as H0. pose proof (Hd 1%nat ltac:(lia)) as H1.
  pose proof (Hd 2%nat ltac:(lia)) as H2. pose proof (Hd 3%nat ltac:(lia)) as H3.
  pose proof (Hd 4%nat ltac:(lia)) as H4. pose proof (Hd 5%nat ltac:(lia)) as H5.
  pose proof (Hd 6%nat ltac:(lia)) as H6. pose proof (Hd 7%nat ltac:(lia)) as H7.
  do 8 (destruct k as [|k]; [unfold zsum8, Mz, Mi; cbn [nth]; lia|]).
  lia.
Qed.

Section Fwd.
  Variable s : nat -> Z.
  Hypothesis Hs : forall k, (k < 64)%nat -> Z.abs (s k) <= 128.

  Lemma fsum_abs : forall y u, (y < 8)%nat -> (u < 8)%nat -> Z.abs (fdct_fsum s y u) <= 65536 * 128.
  Proof. intros y u Hy Hu. unfold fdct_fsum. apply zlin_abs_col; [exact Hu|]. intros n Hn. apply Hs. lia. Qed.

  Lemma fw_round : forall y u, (y < 8)%nat -> (u < 8)%nat ->
    - 1024 <= 2048 * fdct_fw s y u - fdct_fsum s y u <= 1024.
  Proof.
    intros y u Hy Hu. pose proof (fsum_abs y u Hy Hu) as Hb. unfold fdct_fw, fdct_p1.
    destruct (Nat.eq_dec u 0) as [E0|N0]; [|destruct (Nat.eq_dec u 4) as [E4|N4]].
    - destruct (fdct_1d_dc (fun v => i32 (v * 2 ^ 2)) 11 (fun x => s (8 * y + x)%nat) u (or_introl E0)) as [t [Ht Ho]].
      rewrite Ho. fold (fdct_fsum s y u) in Ht. change (2 ^ 2) with 4. rewrite i32_id by (change (2 ^ 31) with 2147483648; lia). lia.
    - destruct (fdct_1d_dc (fun v => i32 (v * 2 ^ 2)) 11 (fun x => s (8 * y + x)%nat) u (or_intror E4)) as [t [Ht Ho]].
      rewrite Ho. fold (fdct_fsum s y u) in Ht. change (2 ^ 2) with 4. rewrite i32_id by (change (2 ^ 31) with 2147483648; lia). lia.
    - rewrite fdct_1d_ac by assumption. fold (fdct_fsum s y u).
      apply (descale_round (fdct_fsum s y u) 11); [lia|].
      change (2 ^ (11 - 1)) with 1024. change (2 ^ 31) with 2147483648. lia.
  Qed.

  Lemma fw_abs : forall y u, (y < 8)%nat -> (u < 8)%nat -> Z.abs (fdct_fw s y u) <= 4096.
  Proof. intros y u Hy Hu. pose proof (fsum_abs y u Hy Hu). pose proof (fw_round y u Hy Hu). lia. Qed.

  Lemma csum_abs : forall v u, (v < 8)%nat -> (u < 8)%nat -> Z.abs (fdct_csum s v u) <= 65536 * 4096.
  Proof. intros v u Hv Hu. unfold fdct_csum. apply zlin_abs_col; [exact Hv|]. intros n Hn. apply fw_abs; assumption. Qed.

  Lemma fc_round : forall v u, (v < 8)%nat -> (u < 8)%nat ->
    - 16384 <= 32768 * fdct_fun s v u - fdct_csum s v u <= 16384.
  Proof.
    intros v u Hv Hu. pose proof (csum_abs v u Hv Hu) as Hb. unfold fdct_fun, fdct_p2.
    destruct (Nat.eq_dec v 0) as [E0|N0]; [|destruct (Nat.eq_dec v 4) as [E4|N4]].
    - destruct (fdct_1d_dc (fun v => descale v 2) 15 (fun y => fdct_fw s y u) v (or_introl E0)) as [t [Ht Ho]].
      rewrite Ho. fold (fdct_csum s v u) in Ht.
      pose proof (descale_round t 2 ltac:(lia)) as Hr. change (2 ^ (2 - 1)) with 2 in Hr. change (2 ^ 2) with 4 in Hr.
      change (2 ^ 31) with 2147483648 in Hr. lia.
    - destruct (fdct_1d_dc (fun v => descale v 2) 15 (fun y => fdct_fw s y u) v (or_intror E4)) as [t [Ht Ho]].
      rewrite Ho. fold (fdct_csum s v u) in Ht.
      pose proof (descale_round t 2 ltac:(lia)) as Hr. change (2 ^ (2 - 1)) with 2 in Hr. change (2 ^ 2) with 4 in Hr.
      change (2 ^ 31) with 2147483648 in Hr. lia.
    - rewrite fdct_1d_ac by assumption. fold (fdct_csum s v u).
      apply (descale_round (fdct_csum s v u) 15); [lia|].
      change (2 ^ (15 - 1)) with 16384. change (2 ^ 31) with 2147483648. lia.
  Qed.

  Lemma fc_abs : forall v u, (v < 8)%nat -> (u < 8)%nat -> Z.abs (fdct_fun s v u) <= 8192.
  Proof. intros v u Hv Hu. pose proof (csum_abs v u Hv Hu). pose proof (fc_round v u Hv Hu). lia. Qed.
End Fwd.

Lemma divmod8 : forall v u, (v < 8)%nat -> (u < 8)%nat -> ((8 * v + u) / 8 = v /\ (8 * v + u) mod 8 = u)%nat.
Proof.
  intros v u Hv Hu.
  do 8 (destruct v as [|v]; [do 8 (destruct u as [|u]; [split; reflexivity|]); lia|]). lia.
Qed.
