(* Numeric accuracy of the coded integer inverse DCT (idct_islow) against the exact real
   2-D IDCT: integer side (linear form + descale rounding) and structure of the kernel. *)
From Coq Require Import Reals Lra Lia List ZArith.
From V Require Import Common.Base Gen.JpegTables_gen JpegDCT.DctQuant JpegDCT.DctIslow JpegDCT.DctBound
  JpegDCT.DctProofsA JpegDCT.DctNumDefs.
Import ListNotations.
Open Scope Z_scope.

(* ---------- one 1-D pass is the integer matrix Mi ---------- *)

Lemma idct_1d_lin : forall (f : nat -> Z) n, (n < 8)%nat ->
  oget n (idct_1d ijg_consts (octf f)) = zsum8 (fun k => Mz n k * f k).
Proof.
  intros f n Hn.
  do 8 (destruct n as [|n]; [unfold oget, octf, idct_1d, zsum8, Mz, Mi, ijg_consts;
    cbn [nth list_of_oct f0298 f0390 f0541 f0765 f0899 f1175 f1501 f1847 f1961 f2053 f2562 f3072 cbits p1bits];
    unfold ijg_const_bits, ijg_fix_0298631336, ijg_fix_0390180644, ijg_fix_0541196100,
      ijg_fix_0765366865, ijg_fix_0899976223, ijg_fix_1175875602, ijg_fix_1501321110,
      ijg_fix_1847759065, ijg_fix_1961570560, ijg_fix_2053119869, ijg_fix_2562915447,
      ijg_fix_3072711026; change (2 ^ 13) with 8192; ring|]).
  lia.
Qed.

(* ---------- descale = round to nearest, when the int32 narrowing is the identity ---------- *)

Lemma descale_round : forall v s, 1 <= s -> - 2 ^ 31 <= v + 2 ^ (s - 1) < 2 ^ 31 ->
  - 2 ^ (s - 1) <= 2 ^ s * descale v s - v <= 2 ^ (s - 1).
Proof.
  intros v s Hs Hv. unfold descale. rewrite i32_id by exact Hv.
  rewrite Z.shiftr_div_pow2 by lia.
  replace (2 ^ s) with (2 * 2 ^ (s - 1)) by (rewrite <- Z.pow_succ_r by lia; f_equal; lia).
  assert (Hh : 0 < 2 ^ (s - 1)) by (apply Z.pow_pos_nonneg; lia).
  set (h := 2 ^ (s - 1)) in *.
  pose proof (Z.div_mod (v + h) (2 * h) ltac:(lia)) as Hd.
  pose proof (Z.mod_pos_bound (v + h) (2 * h) ltac:(lia)) as Hm.
  lia.
Qed.

(* ---------- absolute row sums of Mi ---------- *)

Lemma zlin_abs : forall n (d : nat -> Z) D, (n < 8)%nat ->
  (forall k, (k < 8)%nat -> Z.abs (d k) <= D) ->
  Z.abs (zsum8 (fun k => Mz n k * d k)) <= 61214 * D.
Proof.
  intros n d D Hn Hd.
  pose proof (Hd 0%nat ltac:(lia)) as H0. pose proof (Hd 1%nat ltac:(lia)) as H1.
  pose proof (Hd 2%nat ltac:(lia)) as H2. pose proof (Hd 3%nat ltac:(lia)) as H3.
  pose proof (Hd 4%nat ltac:(lia)) as H4. pose proof (Hd 5%nat ltac:(lia)) as H5.
  pose proof (Hd 6%nat ltac:(lia)) as H6. pose proof (Hd 7%nat ltac:(lia)) as H7.
  do 8 (destruct n as [|n]; [unfold zsum8, Mz, Mi; cbn [nth]; lia|]).
  lia.
Qed.

(* ---------- structure: sample (x,y) of the kernel as a function of the coefficients ---------- *)

Lemma list_of_oct_length : forall o, length (list_of_oct o) = 8%nat.
Proof. intros [[[[[[[a b] c] d] e] f] g] h]. reflexivity. Qed.

Lemma nth_concat8 : forall (ls : list (list Z)) y x,
  (forall l, In l ls -> length l = 8%nat) -> (x < 8)%nat ->
  nth (8 * y + x) (concat ls) 0 = nth x (nth y ls []) 0.
Proof.
  induction ls as [|l ls IH]; intros y x Hl Hx.
  - simpl. destruct (8 * y + x)%nat; destruct y; destruct x; reflexivity.
  - cbn [concat]. destruct y as [|y].
    + rewrite app_nth1 by (rewrite (Hl l (or_introl eq_refl)); lia).
      replace (8 * 0 + x)%nat with x by lia. reflexivity.
    + rewrite app_nth2 by (rewrite (Hl l (or_introl eq_refl)); lia).
      rewrite (Hl l (or_introl eq_refl)).
      replace (8 * S y + x - 8)%nat with (8 * y + x)%nat by lia.
      cbn [nth]. apply IH; [|exact Hx]. intros l' Hin. apply Hl. right. exact Hin.
Qed.

Definition two_pass (P1 P2 : oct -> oct) (l : list Z) : list Z :=
  concat (map (fun r => list_of_oct (P2 (oct_of_list r)))
              (transpose8 (map (fun c => list_of_oct (P1 (oct_of_list c))) (transpose8 (rows8 8 l))))).

Lemma two_pass_nth : forall P1 P2 l, length l = 64%nat -> forall y x, (y < 8)%nat -> (x < 8)%nat ->
  nth (8 * y + x) (two_pass P1 P2 l) 0 =
  oget x (P2 (octf (fun u => oget y (P1 (octf (fun v => nth (8 * v + u) l 0)))))).
Proof.
  intros P1 P2 l Hl y x Hy Hx. unfold two_pass.
  rewrite nth_concat8; [| |exact Hx].
  2:{ intros l0 Hin. apply in_map_iff in Hin. destruct Hin as [r [Hr _]]. subst l0. apply list_of_oct_length. }
  unfold oget. f_equal.
  do 64 (destruct l as [|? l]; [discriminate Hl|]). destruct l; [|discriminate Hl].
  do 8 (destruct y as [|y]; [reflexivity|]). lia.
Qed.

Lemma idct_islow_two_pass : forall coef qt,
  idct_islow coef qt = two_pass idct_p1 idct_p2 (map (fun cq => fst cq * snd cq) (combine coef qt)).
Proof. intros. reflexivity. Qed.

Lemma nth_deq : forall (coef qt : list Z) k, length coef = length qt ->
  nth k (map (fun cq => fst cq * snd cq) (combine coef qt)) 0 = nth k coef 0 * nth k qt 0.
Proof.
  induction coef as [|c coef IH]; intros qt k Hl.
  - destruct qt; [|discriminate Hl]. destruct k; reflexivity.
  - destruct qt as [|q qt]; [discriminate Hl|]. destruct k as [|k]; [reflexivity|].
    cbn [combine map nth]. apply IH. simpl in Hl. lia.
Qed.
