(* C11 for a whole greyscale image of any size: lift the one-block theorem through the model of
   the codec's geometry (DctPipeline.pipeline8 with comps = 1: block grid with edge
   replication -> DCTISlow -> quantiser -> IDCTISlow -> block placement -> pixel read-back). *)
From Coq Require Import Reals Lra Lia List ZArith.
From V Require Import Common.Base Gen.JpegTables_gen JpegDCT.DctQuant JpegDCT.DctIslow JpegDCT.DctBound
  JpegDCT.DctGeometry JpegDCT.DctPipeline JpegDCT.DctProofsA
  JpegDCT.DctNumDefs JpegDCT.DctNumDefsF JpegDCT.DctNumProofsI JpegDCT.DctNumProofsE JpegDCT.DctNumProofsN JpegDCT.DctNumProofsQ.
Import ListNotations.
Open Scope Z_scope.

(* ---------- lists made of equal-length chunks ---------- *)

Lemma nth_flat_map_const : forall {A B} (f : A -> list B) (l : list A) (n k i : nat) (d : B) (da : A),
  (forall a, In a l -> length (f a) = n) -> (k < length l)%nat -> (i < n)%nat ->
  nth (k * n + i) (flat_map f l) d = nth i (f (nth k l da)) d.
Proof.
  intros A B f l n. induction l as [|a l IH]; intros k i d da Hlen Hk Hi; [simpl in Hk; lia|].
  cbn [flat_map]. destruct k as [|k].
  - rewrite app_nth1 by (rewrite (Hlen a (or_introl eq_refl)); lia). reflexivity.
  - rewrite app_nth2 by (rewrite (Hlen a (or_introl eq_refl)); lia).
    rewrite (Hlen a (or_introl eq_refl)).
    replace (S k * n + i - n)%nat with (k * n + i)%nat by lia.
    cbn [nth]. apply IH; [intros a' Ha'; apply Hlen; right; exact Ha' | simpl in Hk; lia | exact Hi].
Qed.

Lemma length_flat_map_const : forall {A B} (f : A -> list B) (l : list A) (n : nat),
  (forall a, In a l -> length (f a) = n) -> length (flat_map f l) = (length l * n)%nat.
Proof.
  intros A B f l n. induction l as [|a l IH]; intros Hlen; [reflexivity|].
  cbn [flat_map length]. rewrite app_length, (Hlen a (or_introl eq_refl)), IH; [lia|].
  intros a' Ha'. apply Hlen. right. exact Ha'.
Qed.

Lemma zrange_length : forall n, length (zrange n) = Z.to_nat n.
Proof. intros. unfold zrange. rewrite map_length, seq_length. reflexivity. Qed.

Lemma zrange_nth : forall n k d, (k < Z.to_nat n)%nat -> nth k (zrange n) d = Z.of_nat k.
Proof.
  intros n k d Hk. unfold zrange.
  rewrite (nth_indep _ d (Z.of_nat 0)) by (rewrite map_length, seq_length; exact Hk).
  rewrite map_nth, seq_nth by exact Hk. reflexivity.
Qed.

Lemma nth_map_lt : forall {A B} (g : A -> B) (l : list A) k d d0, (k < length l)%nat ->
  nth k (map g l) d = g (nth k l d0).
Proof.
  intros A B g l k d d0 Hk. rewrite (nth_indep _ d (g d0)) by (rewrite map_length; exact Hk).
  apply map_nth.
Qed.

(* raster of w columns and h rows *)
Definition raster {B} (f : Z -> Z -> B) (w h : Z) : list B :=
  flat_map (fun y => map (fun x => f x y) (zrange w)) (zrange h).

Lemma raster_length : forall {B} (f : Z -> Z -> B) w h, length (raster f w h) = (Z.to_nat h * Z.to_nat w)%nat.
Proof.
  intros. unfold raster. rewrite (length_flat_map_const _ _ (Z.to_nat w)), zrange_length; [reflexivity|].
  intros a _. rewrite map_length. apply zrange_length.
Qed.

Lemma raster_nth : forall {B} (f : Z -> Z -> B) w h (X Y : nat) d,
  (X < Z.to_nat w)%nat -> (Y < Z.to_nat h)%nat ->
  nth (Y * Z.to_nat w + X) (raster f w h) d = f (Z.of_nat X) (Z.of_nat Y).
Proof.
  intros B f w h X Y d HX HY. unfold raster.
  rewrite (nth_flat_map_const _ _ (Z.to_nat w) Y X d 0).
  - rewrite (nth_map_lt _ _ _ _ 0) by (rewrite zrange_length; exact HX).
    rewrite !zrange_nth by assumption. reflexivity.
  - intros a _. rewrite map_length. apply zrange_length.
  - rewrite zrange_length. exact HY.
  - exact HX.
Qed.

Lemma raster_znth : forall {B} (f : Z -> Z -> B) w h x y d,
  0 <= x < w -> 0 <= y < h -> znth (raster f w h) (y * w + x) d = f x y.
Proof.
  intros B f w h x y d Hx Hy. unfold znth.
  destruct (Z.ltb_spec (y * w + x) 0) as [H|H]; [nia|].
  replace (Z.to_nat (y * w + x)) with (Z.to_nat y * Z.to_nat w + Z.to_nat x)%nat by nia.
  rewrite raster_nth by lia. rewrite !Z2Nat.id by lia. reflexivity.
Qed.

(* ---------- the pipeline as rasters ---------- *)

Lemma idct_islow_length : forall b qt, length (idct_islow b qt) = 64%nat.
Proof.
  intros b qt. rewrite idct_islow_two_pass. unfold two_pass. unfold transpose8 at 1.
  cbn [map concat]. rewrite !app_length, !list_of_oct_length. reflexivity.
Qed.

Lemma pipeline8_grey : forall w h quality px,
  pipeline8 w h 1 quality px =
  raster (fun x y => plane_at (dec_plane (enc_plane px w (div_ceil w 8) (div_ceil h 8)
                                  (scale_quant_table jpeg_qt_luma quality))
                                (scale_quant_table jpeg_qt_luma quality)) (div_ceil w 8) x y) w h.
Proof. reflexivity. Qed.

Lemma enc_plane_raster : forall data stride bw bh qt,
  enc_plane data stride bw bh qt =
  raster (fun bx by_ => quant_block8 (dct_islow (extract_block data stride bx by_)) qt) bw bh.
Proof. reflexivity. Qed.

Definition src_index (dh stride bx by_ x y : Z) : Z :=
  Z.min (by_ * 8 + y) (dh - 1) * stride + Z.min (bx * 8 + x) (stride - 1).

Lemma extract_block_raster : forall data stride bx by_,
  extract_block data stride bx by_ =
  raster (fun x y => znth data (src_index (Z.quot (zlen data) stride) stride bx by_ x y) 0) 8 8.
Proof. reflexivity. Qed.

Lemma div_ceil8_gt : forall w x, 0 <= x < w -> x / 8 < div_ceil w 8.
Proof.
  intros w x Hx. unfold div_ceil. rewrite Z.quot_div_nonneg by lia.
  pose proof (Z.div_mod x 8 ltac:(lia)). pose proof (Z.mod_pos_bound x 8 ltac:(lia)).
  pose proof (Z.div_mod (w + 8 - 1) 8 ltac:(lia)). pose proof (Z.mod_pos_bound (w + 8 - 1) 8 ltac:(lia)).
  lia.
Qed.

(* ---------- blocks handed to DCTISlow: 64 existing pixels ---------- *)

Section Image.
  Variable w h : Z.
  Variable px : list Z.
  Hypothesis Hw : 1 <= w.
  Hypothesis Hh : 1 <= h.
  Hypothesis Hlen : length px = Z.to_nat (w * h).
  Hypothesis Hpx : Forall (fun v => 0 <= v <= 255) px.

  Lemma dh_eq : Z.quot (zlen px) w = h.
  Proof.
    unfold zlen. rewrite Hlen, Z2Nat.id by nia. rewrite Z.mul_comm. apply Z.quot_mul. lia.
  Qed.

  Lemma src_in_image : forall bx by_ x y, 0 <= bx -> 0 <= by_ -> 0 <= x -> 0 <= y ->
    0 <= src_index h w bx by_ x y < w * h.
  Proof. intros. unfold src_index. nia. Qed.

  Lemma px_range : forall i, 0 <= i < w * h -> 0 <= znth px i 0 <= 255.
  Proof.
    intros i Hi. unfold znth. destruct (Z.ltb_spec i 0) as [H|H]; [lia|].
    rewrite Forall_forall in Hpx. apply Hpx. apply nth_In. rewrite Hlen. lia.
  Qed.

  Lemma block_length : forall bx by_, length (extract_block px w bx by_) = 64%nat.
  Proof. intros. rewrite extract_block_raster, raster_length. reflexivity. Qed.

  Lemma block_nth : forall bx by_ (X Y : nat), (X < 8)%nat -> (Y < 8)%nat ->
    nth (8 * Y + X) (extract_block px w bx by_) 0 = znth px (src_index h w bx by_ (Z.of_nat X) (Z.of_nat Y)) 0.
  Proof.
    intros bx by_ X Y HX HY. rewrite extract_block_raster, dh_eq.
    replace (8 * Y + X)%nat with (Y * Z.to_nat 8 + X)%nat by (change (Z.to_nat 8) with 8%nat; lia).
    apply (raster_nth (fun x y => znth px (src_index h w bx by_ x y) 0) 8 8 X Y 0);
      change (Z.to_nat 8) with 8%nat; assumption.
  Qed.

  Lemma block_range : forall bx by_ k, 0 <= bx -> 0 <= by_ -> (k < 64)%nat ->
    0 <= nth k (extract_block px w bx by_) 0 <= 255.
  Proof.
    intros bx by_ k Hbx Hby Hk.
    rewrite (Nat.div_mod k 8) by lia.
    rewrite block_nth; [| apply Nat.mod_upper_bound; lia | apply Nat.div_lt_upper_bound; lia].
    apply px_range. apply src_in_image; lia.
  Qed.
End Image.

(* ---------- the whole image ---------- *)

Theorem grey_image_bound_delta : forall w h quality px,
  1 <= w -> 1 <= h -> 1 <= quality <= 100 ->
  length px = Z.to_nat (w * h) -> Forall (fun v => 0 <= v <= 255) px ->
  forall x y, 0 <= x < w -> 0 <= y < h ->
  (Rabs (IZR (znth (pipeline8 w h 1 quality px) (y * w + x)%Z 0%Z) - IZR (znth px (y * w + x)%Z 0%Z))
   <= tableBound (scale_quant_table jpeg_qt_luma quality) + pipe_delta)%R.
Proof.
  intros w h quality px Hw Hh Hq Hlen Hpx x y Hx Hy.
  rewrite pipeline8_grey, raster_znth by lia.
  set (ql := scale_quant_table jpeg_qt_luma quality).
  set (bw := div_ceil w 8). set (bh := div_ceil h 8).
  unfold plane_at, dec_plane, block_offset.
  rewrite !Z.quot_div_nonneg, !Z.rem_mod_nonneg by lia.
  pose proof (Z.div_mod x 8 ltac:(lia)) as Ex. pose proof (Z.mod_pos_bound x 8 ltac:(lia)) as Mx.
  pose proof (Z.div_mod y 8 ltac:(lia)) as Ey. pose proof (Z.mod_pos_bound y 8 ltac:(lia)) as My.
  pose proof (div_ceil8_gt w x Hx) as Bx. pose proof (div_ceil8_gt h y Hy) as By. fold bw in Bx. fold bh in By.
  assert (Dx : 0 <= x / 8) by (apply Z.div_pos; lia).
  assert (Dy : 0 <= y / 8) by (apply Z.div_pos; lia).
  set (bx := x / 8) in *. set (by_ := y / 8) in *. set (xx := x mod 8) in *. set (yy := y mod 8) in *.
  unfold znth at 1.
  destruct (Z.ltb_spec ((by_ * bw + bx) * 64 + yy * 8 + xx) 0) as [Hneg|_]; [nia|].
  replace (Z.to_nat ((by_ * bw + bx) * 64 + yy * 8 + xx))
    with ((Z.to_nat by_ * Z.to_nat bw + Z.to_nat bx) * 64 + (8 * Z.to_nat yy + Z.to_nat xx))%nat by nia.
  rewrite (nth_flat_map_const (fun b => idct_islow b ql) _ 64 _ _ 0 []).
  2:{ intros a _. apply idct_islow_length. }
  2:{ rewrite enc_plane_raster, raster_length. nia. }
  2:{ lia. }
  rewrite enc_plane_raster, raster_nth by lia. rewrite !Z2Nat.id by lia.
  assert (HYY : (Z.to_nat yy < 8)%nat) by lia. assert (HXX : (Z.to_nat xx < 8)%nat) by lia.
  destruct (scale_table_range quality jpeg_qt_luma Hq (or_introl eq_refl)) as [Hql Hqr]. fold ql in Hql, Hqr.
  assert (Hqr' : forall k, (k < 64)%nat -> 1 <= nth k ql 0 <= 255) by (intros k Hk; apply Hqr; apply nth_In; lia).
  pose proof (grey_block_bound (extract_block px w bx by_) ql
                (block_length w px bx by_) Hql
                (fun k Hk => block_range w h px Hw Hh Hlen Hpx bx by_ k Dx Dy Hk)
                Hqr'
                (Z.to_nat yy) (Z.to_nat xx) HYY HXX) as H.
  rewrite (block_nth w h px Hw Hh Hlen bx by_) in H by lia.
  rewrite !Z2Nat.id in H by lia.
  replace (src_index h w bx by_ xx yy) with (y * w + x) in H
    by (unfold src_index; rewrite !Z.min_l by lia; replace (by_ * 8 + yy) with y by lia; replace (bx * 8 + xx) with x by lia; reflexivity).
  exact H.
Qed.

Theorem grey_image_bound : forall w h quality px,
  1 <= w -> 1 <= h -> 1 <= quality <= 100 ->
  length px = Z.to_nat (w * h) -> Forall (fun v => 0 <= v <= 255) px ->
  forall x y, 0 <= x < w -> 0 <= y < h ->
  (Rabs (IZR (znth (pipeline8 w h 1 quality px) (y * w + x)%Z 0%Z) - IZR (znth px (y * w + x)%Z 0%Z))
   <= boundGrey (scale_quant_table jpeg_qt_luma quality))%R.
Proof.
  intros w h quality px Hw Hh Hq Hlen Hpx x y Hx Hy.
  pose proof (grey_image_bound_delta w h quality px Hw Hh Hq Hlen Hpx x y Hx Hy) as H.
  pose proof pipe_delta_val. unfold boundGrey. lra.
Qed.

(* a concrete non-aligned image: 11 x 5, quality 90 *)
Definition ex_img : list Z := map (fun k => (Z.of_nat k * 37 + 11) mod 256) (seq 0 55).

Lemma ex_img_hyps : 1 <= 11 /\ 1 <= 5 /\ 1 <= 90 <= 100 /\ length ex_img = Z.to_nat (11 * 5) /\
  Forall (fun v => 0 <= v <= 255) ex_img /\ (0 <= 9 < 11 /\ 0 <= 3 < 5) /\
  znth (pipeline8 11 5 1 90 ex_img) (3 * 11 + 9) 0 = 28 /\ znth ex_img (3 * 11 + 9) 0 = 29.
Proof.
  split; [lia|]. split; [lia|]. split; [lia|]. split; [reflexivity|]. split.
  - apply Forall_forall. intros v Hv.
    assert (Hb : forallb (fun v => (0 <=? v) && (v <=? 255)) ex_img = true) by (vm_compute; reflexivity).
    rewrite forallb_forall in Hb. apply Hb in Hv. apply andb_prop in Hv. destruct Hv as [A B].
    apply Z.leb_le in A. apply Z.leb_le in B. lia.
  - split; [lia|]. split; vm_compute; reflexivity.
Qed.

(* identical geometry: the decoded grey image has exactly w*h samples *)
Lemma grey_image_length : forall w h quality px, 0 <= w -> 0 <= h ->
  length (pipeline8 w h 1 quality px) = Z.to_nat (w * h).
Proof.
  intros w h quality px Hw Hh. rewrite pipeline8_grey, raster_length.
  rewrite Z2Nat.inj_mul by lia. lia.
Qed.
