(* EXTRACT *)
(* Model of jpeg/standard/utils.go : ZigZag (regenerated), Unzig (built by init()), and of
   the DQT writer / parser of jpeg/baseline (writeDQT, parseDQT) and of the 12-bit codec. *)
From V Require Import Common.Base Gen.JpegTables_gen JpegDCT.DctQuant.

Definition zigzag : list Z := jpeg_zigzag.

Fixpoint list_set (l : list Z) (i : nat) (v : Z) : list Z :=
  match l, i with
  | [], _ => []
  | _ :: t, O => v :: t
  | h :: t, S k => h :: list_set t k v
  end.

(* init():  for i := range ZigZag { Unzig[ZigZag[i]] = i }   over a zeroed [64]int *)
Fixpoint unzig_fill (zs : list Z) (i : Z) (acc : list Z) : list Z :=
  match zs with
  | [] => acc
  | z :: t => unzig_fill t (i + 1) (list_set acc (Z.to_nat z) i)
  end.
Definition unzig : list Z := unzig_fill zigzag 0 (repeat 0 64).

(* data[1+j] = byte(table[ZigZag[j]]) *)
Definition to_zigzag (table : list Z) : list Z := map (fun k => znth table k 0) zigzag.
(* table[ZigZag[i]] = data[i] *)
Fixpoint from_zigzag_fill (zs data acc : list Z) : list Z :=
  match zs, data with
  | z :: zt, d :: dt => from_zigzag_fill zt dt (list_set acc (Z.to_nat z) d)
  | _, _ => acc
  end.
Definition from_zigzag (data : list Z) : list Z := from_zigzag_fill zigzag data (repeat 0 64).

(* writeDQT: payload of one DQT segment = (Pq=0,Tq=id) then 64 bytes in zig-zag order *)
Definition dqt_payload (id : Z) (table : list Z) : list Z :=
  wrapU 8 id :: map (wrapU 8) (to_zigzag table).
Definition segment (marker_lo : Z) (payload : list Z) : list Z :=
  let len := zlen payload + 2 in
  255 :: marker_lo :: wrapU 8 (Z.shiftr len 8) :: wrapU 8 len :: payload.
Definition dqt_segment (id : Z) (table : list Z) : list Z := segment 219 (dqt_payload id table).

(* 16-bit entries: hi<<8 | lo *)
Fixpoint pairs16 (l : list Z) : list Z :=
  match l with
  | hi :: lo :: t => (hi * 256 + lo) :: pairs16 t
  | _ => []
  end.

(* parseDQT over a segment payload: list of (table id, natural-order table); None = ErrInvalidDQT.
   fuel = payload length (each table consumes at least 65 bytes). *)
Fixpoint parse_dqt (fuel : nat) (data : list Z) : option (list (Z * list Z)) :=
  match fuel with
  | O => match data with [] => Some [] | _ => None end
  | S f =>
    match data with
    | [] => Some []
    | pqtq :: rest =>
      let pq := Z.shiftr pqtq 4 in
      let tq := Z.land pqtq 15 in
      if 3 <? tq then None else
      if pq =? 0 then
        if zlen rest <? 64 then None else
        match parse_dqt f (skipn 64 rest) with
        | Some more => Some ((tq, from_zigzag (firstn 64 rest)) :: more)
        | None => None
        end
      else
        if zlen rest <? 128 then None else
        match parse_dqt f (skipn 128 rest) with
        | Some more => Some ((tq, from_zigzag (pairs16 (firstn 128 rest))) :: more)
        | None => None
        end
    end
  end.

(* writeSOF0 payload (baseline encoder): precision 8, height, width, components, then
   (id, 0x11, tq) per component: grey id 0 / table 0; colour ids 1,2,3 / tables 0,1,1. *)
Definition sof0_payload (width height comps : Z) : list Z :=
  [8; wrapU 8 (Z.shiftr height 8); wrapU 8 height; wrapU 8 (Z.shiftr width 8); wrapU 8 width; wrapU 8 comps] ++
  (if comps =? 1 then [0; 17; 0] else [1; 17; 0; 2; 17; 1; 3; 17; 1]).
