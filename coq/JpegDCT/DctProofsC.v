(* C11_bound_linear over the rationals (axiom-free): the triangle-inequality core of the
   property's bound, for term lists of any length. *)
From Coq Require Import QArith Qabs List Lia.
From V Require Import JpegDCT.DctBound.
Import ListNotations.
Open Scope Q_scope.

Lemma Qabs_mult_le : forall g e w h, Qabs g <= w -> Qabs e <= h -> Qabs (g * e) <= w * h.
Proof.
  intros g e w h Hg He. rewrite Qabs_Qmult.
  apply Qle_trans with (Qabs g * h).
  - rewrite (Qmult_comm (Qabs g) (Qabs e)), (Qmult_comm (Qabs g) h).
    apply Qmult_le_compat_r; [exact He | apply Qabs_nonneg].
  - apply Qmult_le_compat_r; [exact Hg|].
    apply Qle_trans with (Qabs e); [apply Qabs_nonneg | exact He].
Qed.

(* for any coefficient errors e with |e_k| <= Q_k/2 and any synthesis weights G with
   |G_k| <= w_k :  |sum G_k e_k| <= (1/2) sum w_k Q_k *)
Theorem C11_bound_linear : forall l : list qterm,
  Forall (fun t => Qabs (tg t) <= tw t /\ Qabs (te t) <= tq t / 2) l ->
  Qabs (qsum_ge l) <= (1 # 2) * qsum_wq l.
Proof.
  induction l as [|t l IH]; intros HF.
  - simpl. unfold Qle; simpl; lia.
  - inversion HF as [|t' l' [Hg He] HF']; subst.
    cbn [qsum_ge qsum_wq fold_right].
    fold (qsum_ge l). fold (qsum_wq l).
    apply Qle_trans with (Qabs (tg t * te t) + Qabs (qsum_ge l)); [apply Qabs_triangle|].
    setoid_replace ((1 # 2) * (tw t * tq t + qsum_wq l)) with (tw t * (tq t / 2) + (1 # 2) * qsum_wq l)
      by (field).
    apply Qplus_le_compat; [apply Qabs_mult_le; assumption | apply IH; assumption].
Qed.

(* non-vacuity: a two-term instance with both bounds attained *)
Example C11_bound_linear_instance :
  let l := [ {| tg := 1 # 4; te := - (3 # 2); tw := 1 # 4; tq := 3 |};
             {| tg := - (1 # 8); te := 8; tw := 1 # 8; tq := 16 |} ] in
  Forall (fun t => Qabs (tg t) <= tw t /\ Qabs (te t) <= tq t / 2) l /\
  Qabs (qsum_ge l) == (1 # 2) * qsum_wq l.
Proof.
  cbv zeta. split.
  - repeat constructor; simpl; unfold Qle; simpl; lia.
  - vm_compute. reflexivity.
Qed.
