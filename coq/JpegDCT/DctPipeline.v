(* EXTRACT *)
(* The whole lossy path of the baseline codec without the (lossless) entropy layer:
   baseline.Encode = tables, colour conversion with edge replication, block extraction,
   DCTISlow, quantiser;  baseline.Decode = IDCTISlow with the parsed tables, block placement,
   convertToPixels. Used for the end-to-end correspondence model vs Go on small images. *)
From V Require Import Common.Base Gen.JpegTables_gen JpegDCT.DctQuant JpegDCT.DctZigzag
  JpegDCT.DctIslow JpegDCT.DctColor JpegDCT.DctGeometry.

(* quantizeBlock over a plane *)
Definition enc_plane (data : list Z) (stride bw bh : Z) (qt : list Z) : list (list Z) :=
  flat_map (fun by_ => map (fun bx =>
    quant_block8 (dct_islow (extract_block data stride bx by_)) qt) (zrange bw)) (zrange bh).

(* rgbToYCbCr: three planes of (DivCeil(w,8)*8) x (DivCeil(h,8)*8), edges replicated *)
Definition ycc_planes (rgb : list Z) (w h : Z) : list Z * list Z * list Z :=
  let stride := div_ceil w 8 * 8 in
  let hh := div_ceil h 8 * 8 in
  let trip := flat_map (fun row => map (fun c =>
      let off := (Z.min row (h - 1) * w + Z.min c (w - 1)) * 3 in
      rgb_to_ycc (znth rgb off 0) (znth rgb (off + 1) 0) (znth rgb (off + 2) 0)) (zrange stride)) (zrange hh) in
  (map (fun t => fst (fst t)) trip, map (fun t => snd (fst t)) trip, map snd trip).

(* decodeBlock for every block of a 1x1-sampled component, in scan = raster order *)
Definition dec_plane (blocks : list (list Z)) (qt : list Z) : list Z :=
  flat_map (fun b => idct_islow b qt) blocks.

Definition plane_at (data : list Z) (wb x y : Z) : Z :=
  znth data (block_offset wb (Z.quot x 8) (Z.quot y 8) + Z.rem y 8 * 8 + Z.rem x 8) 0.

(* the tables a decoder obtains are the ones written (DctProofsA.dqt_written_is_used), so
   the same qt is used on both sides *)
Definition pipeline8 (w h comps quality : Z) (px : list Z) : list Z :=
  let bw := div_ceil w 8 in let bh := div_ceil h 8 in
  let ql := scale_quant_table jpeg_qt_luma quality in
  let qc := scale_quant_table jpeg_qt_chroma quality in
  if comps =? 1 then
    let d := dec_plane (enc_plane px w bw bh ql) ql in
    flat_map (fun y => map (fun x => plane_at d bw x y) (zrange w)) (zrange h)
  else
    let '(py, pcb, pcr) := ycc_planes px w h in
    let stride := bw * 8 in
    let dy := dec_plane (enc_plane py stride bw bh ql) ql in
    let dcb := dec_plane (enc_plane pcb stride bw bh qc) qc in
    let dcr := dec_plane (enc_plane pcr stride bw bh qc) qc in
    flat_map (fun y => flat_map (fun x =>
      let '(r, g, b) := ycc_to_rgb (plane_at dy bw x y) (plane_at dcb bw x y) (plane_at dcr bw x y) in
      [r; g; b]) (zrange w)) (zrange h).

(* the quantised coefficient blocks of a grey image (what the entropy coder is given) *)
Definition enc_grey_coefs (w h quality : Z) (px : list Z) : list (list Z) :=
  enc_plane px w (div_ceil w 8) (div_ceil h 8) (scale_quant_table jpeg_qt_luma quality).

(* 12-bit encoder (sequential12Encoder.quantizeBlock): samples clamped by index to the
   w x h image, centred by 2048, 12-bit islow port, quantiser with divisor q<<3 *)
Definition extract_block12 (px : list Z) (w h bx by_ : Z) : list Z :=
  flat_map (fun y => map (fun x =>
    znth px (Z.min (by_ * 8 + y) (h - 1) * w + Z.min (bx * 8 + x) (w - 1)) 0) (zrange 8)) (zrange 8).
Definition enc12_coefs (w h quality : Z) (px : list Z) : list (list Z) :=
  let ql := scale_quant_table jpeg_qt_luma quality in
  flat_map (fun by_ => map (fun bx =>
    quant_block12 (dct_islow12 (extract_block12 px w h bx by_)) ql) (zrange (div_ceil w 8))) (zrange (div_ceil h 8)).

(* which scan block's data convertToPixels shows at pixel (x,y) for a component: the last
   writer of the block the guarded index falls into; None = guard failed or never written *)
Definition pixel_owner (w h : Z) (comps : list (Z * Z)) (hv : Z * Z) (x y : Z) : option (Z * Z) :=
  match pixel_index w h comps hv x y with
  | None => None
  | Some i =>
    last_writer (comp_wb w comps hv) (comp_hb h comps hv) (scan_blocks w h comps hv) (Z.quot i 64 * 64)
  end.
Definition pixel_owners (w h : Z) (comps : list (Z * Z)) (hv : Z * Z) : list (option (Z * Z)) :=
  flat_map (fun y => map (fun x => pixel_owner w h comps hv x y) (zrange w)) (zrange h).
