(* Definitions for the numeric-accuracy theorems of the coded integer DCT kernels (C11).
   Like DctBound.v this file is not extracted (it mentions the reals); definitions only.
   Mi is the integer matrix computed by one 1-D pass of idct_1d with the coded FIX constants
   (proved in DctNumProofsI.idct_1d_lin); A is 2^13 * sqrt 8 * (exact 1-D synthesis basis). *)
From Coq Require Import Reals List ZArith.
From V Require Import Common.Base JpegDCT.DctQuant JpegDCT.DctIslow JpegDCT.DctBound.
Import ListNotations.

Definition Mi : list (list Z) :=
 [[8192;11363;10703;9633;8192;6437;4433;2260];
  [8192;9633;4433;-2259;-8192;-11362;-10704;-6436];
  [8192;6437;-4433;-11362;-8192;2261;10704;9633];
  [8192;2260;-10703;-6436;8192;9633;-4433;-11363];
  [8192;-2260;-10703;6436;8192;-9633;-4433;11363];
  [8192;-6437;-4433;11362;-8192;-2261;10704;-9633];
  [8192;-9633;4433;2259;-8192;11362;-10704;6436];
  [8192;-11363;10703;-9633;8192;-6437;4433;-2260]]%Z.

(* |Mi n k - A n k| <= MuT n k / 10000 (proved with interval arithmetic) *)
Definition MuT : list (list Z) :=
 [[2;3697;3640;2272;2;5871;4786;1679];
  [2;2272;4786;11679;2;6306;6363;4132];
  [2;5871;4786;6306;2;8324;6363;2272];
  [2;1679;3640;4132;2;2272;4786;3697];
  [2;1679;3640;4132;2;2272;4786;3697];
  [2;5871;4786;6306;2;8324;6363;2272];
  [2;2272;4786;11679;2;6306;6363;4132];
  [2;3697;3640;2272;2;5871;4786;1679]]%Z.

Definition Mz (n k : nat) : Z := nth k (nth n Mi []) 0%Z.
Definition muz (n k : nat) : Z := nth k (nth n MuT []) 0%Z.

Definition zsum8 (f : nat -> Z) : Z :=
  (f 0%nat + f 1%nat + f 2%nat + f 3%nat + f 4%nat + f 5%nat + f 6%nat + f 7%nat)%Z.

Definition octf (f : nat -> Z) : oct :=
  (f 0%nat, f 1%nat, f 2%nat, f 3%nat, f 4%nat, f 5%nat, f 6%nat, f 7%nat).
Definition oget (n : nat) (o : oct) : Z := nth n (list_of_oct o) 0%Z.

(* the two passes of IDCTISlow as oct -> oct maps *)
Definition idct_p1 (o : oct) : oct := oct_map (fun v => descale v 11) (idct_1d ijg_consts o).
Definition idct_p2 (o : oct) : oct :=
  oct_map (fun v => clamp (descale v 18 + 128) 0 255) (idct_1d ijg_consts o).

(* functional form of the integer kernel: X k = dequantised coefficient k = v*8+u *)
Definition idct_wsum (X : nat -> Z) (y u : nat) : Z := zsum8 (fun v => Mz y v * X (8 * v + u)%nat)%Z.
Definition idct_ws (X : nat -> Z) (y u : nat) : Z := descale (idct_wsum X y u) 11.
Definition idct_osum (X : nat -> Z) (y x : nat) : Z := zsum8 (fun u => Mz x u * idct_ws X y u)%Z.
Definition idct_pre (X : nat -> Z) (y x : nat) : Z := descale (idct_osum X y x) 18.
Definition idct_fun (X : nat -> Z) (y x : nat) : Z := clamp (idct_pre X y x + 128) 0 255.

Open Scope R_scope.

Definition rsum8 (f : nat -> R) : R :=
  f 0%nat + f 1%nat + f 2%nat + f 3%nat + f 4%nat + f 5%nat + f 6%nat + f 7%nat.

(* exact 1-D synthesis basis: x_n = sum_k E1 n k * X_k ; basis x y u v = E1 x u * E1 y v *)
Definition E1 (n k : nat) : R := Cw k / 2 * cos ((2 * INR n + 1) * INR k * PI / 16).
Definition A1 (n k : nat) : R := 8192 * sqrt 8 * E1 n k.

(* exact real 2-D inverse DCT of the coefficient block X (k = v*8+u) at sample (x,y) *)
Definition exact_idct (X : nat -> R) (y x : nat) : R :=
  rsum8 (fun v => rsum8 (fun u => basis x y u v * X (8 * v + u)%nat)).

(* sum_k |Mi n k| <= sM, sum_k MuT n k / 10000 <= smu for every row n *)
Definition sM : R := 61214.
Definition smu : R := 3556 / 1000.

(* constant-mismatch coefficient of the 2-D kernel per unit of coefficient magnitude *)
Definition idct_kappa : R := (2 * sM * smu + smu * smu) / 2 ^ 29.
(* rounding part: final descale (1/2) + first-pass descale propagated through the row pass *)
Definition idct_rho : R := 1 / 2 + sM / 2 ^ 19.
Definition idct_di0 (B : Z) : R := idct_rho + IZR B * idct_kappa.
