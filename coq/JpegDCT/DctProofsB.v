(* Geometry of the baseline decoder (as fixed by F16: comp.width = mcuCols*H, comp.height =
   mcuRows*V): for all sampling factors and all widths/heights, every scan block lands on
   its own distinct cell of the component grid, every index is in range, every grid cell is
   delivered by the scan, and every pixel the converter reads comes from the block the scan
   wrote for it.
   Historical witness of the defect this replaces (finding F16): 17x9 4:2:0 — the luma grid
   was allocated DivCeil(17*2,16) = 3 blocks wide while the scan visits mcuCols*H = 4 blocks
   per row, so padding block (3,0) landed on the cell of block (0,1). *)
From V Require Import Common.Base JpegDCT.DctGeometry JpegDCT.DctPipeline.

Lemma div_ceil_pos : forall a b, 1 <= a -> 1 <= b -> 1 <= div_ceil a b.
Proof.
  intros a b Ha Hb. unfold div_ceil. rewrite Z.quot_div_nonneg by lia.
  apply Z.div_le_lower_bound; lia.
Qed.

(* a <= DivCeil(a,b) * b : the MCU grid covers the image *)
Lemma div_ceil_covers : forall a b, 0 <= a -> 1 <= b -> a <= div_ceil a b * b.
Proof.
  intros a b Ha Hb. unfold div_ceil. rewrite Z.quot_div_nonneg by lia.
  pose proof (Z.div_mod (a + b - 1) b ltac:(lia)) as E.
  pose proof (Z.mod_pos_bound (a + b - 1) b ltac:(lia)) as B. nia.
Qed.

Lemma fold_max_ge_init : forall l a, a <= fold_left Z.max l a.
Proof. induction l as [|x l IH]; intros a; simpl; [lia|]. specialize (IH (Z.max a x)). lia. Qed.
Lemma fold_max_ge_elem : forall l a x, In x l -> x <= fold_left Z.max l a.
Proof.
  induction l as [|y l IH]; intros a x Hin; [inversion Hin|]. simpl. destruct Hin as [->|Hin].
  - pose proof (fold_max_ge_init l (Z.max a x)). lia.
  - apply IH. exact Hin.
Qed.
Lemma max_list_ge1 : forall l, 1 <= max_list l.
Proof. intros l. unfold max_list. apply fold_max_ge_init. Qed.
Lemma max_h_ge : forall comps hv, In hv comps -> fst hv <= max_h comps.
Proof. intros comps hv Hin. unfold max_h, max_list. apply fold_max_ge_elem. apply in_map. exact Hin. Qed.
Lemma max_v_ge : forall comps hv, In hv comps -> snd hv <= max_v comps.
Proof. intros comps hv Hin. unfold max_v, max_list. apply fold_max_ge_elem. apply in_map. exact Hin. Qed.

Lemma mcu_cols_pos : forall width comps, 1 <= width -> 1 <= mcu_cols width comps.
Proof. intros. unfold mcu_cols. apply div_ceil_pos; [lia|]. pose proof (max_list_ge1 (map fst comps)). unfold max_h. lia. Qed.
Lemma mcu_rows_pos : forall height comps, 1 <= height -> 1 <= mcu_rows height comps.
Proof. intros. unfold mcu_rows. apply div_ceil_pos; [lia|]. pose proof (max_list_ge1 (map snd comps)). unfold max_v. lia. Qed.

Lemma zrange_spec : forall n k, In k (zrange n) <-> 0 <= k < n.
Proof.
  intros n k. unfold zrange. rewrite in_map_iff. split.
  - intros [i [E Hi]]. apply in_seq in Hi. lia.
  - intros H. exists (Z.to_nat k). split; [lia|]. apply in_seq. lia.
Qed.

(* allocation: every component buffer is non-empty and a whole number of blocks *)
Lemma comp_len_pos : forall width height comps hv, 1 <= width -> 1 <= height ->
  1 <= fst hv -> 1 <= snd hv -> 64 <= comp_len width height comps hv.
Proof.
  intros width height comps hv Hw Hh HH HV. unfold comp_len, comp_wb, comp_hb.
  pose proof (mcu_cols_pos width comps Hw). pose proof (mcu_rows_pos height comps Hh). nia.
Qed.

(* decodeBlock: a block that passes the guard is written entirely inside the buffer *)
Lemma block_write_in_range : forall wb hb bx by_ i, 0 <= wb -> 0 <= bx -> 0 <= by_ ->
  block_written wb hb bx by_ = true -> 0 <= i < 64 ->
  0 <= block_offset wb bx by_ + i < wb * hb * 64.
Proof.
  intros wb hb bx by_ i Hwb Hbx Hby Hw Hi. unfold block_written in Hw.
  apply negb_true_iff in Hw. apply Z.leb_gt in Hw. unfold block_offset in *. nia.
Qed.

(* a cell of the grid always passes decodeBlock's guard, and distinct cells have distinct offsets *)
Lemma cell_written : forall wb hb bx by_, 0 <= bx < wb -> 0 <= by_ < hb -> block_written wb hb bx by_ = true.
Proof.
  intros wb hb bx by_ Hx Hy. unfold block_written, block_offset.
  apply negb_true_iff. apply Z.leb_gt. nia.
Qed.
Lemma cell_offset_inj : forall wb bx by_ bx' by', 0 <= bx < wb -> 0 <= bx' < wb ->
  block_offset wb bx by_ = block_offset wb bx' by' -> bx = bx' /\ by_ = by'.
Proof.
  intros wb bx by_ bx' by' Hx Hx' E. unfold block_offset in E.
  assert (E' : (by_ - by') * wb = bx' - bx) by lia.
  destruct (Z.lt_trichotomy by_ by') as [L|[Eq|G]].
  - exfalso. assert ((by' - by_) * wb >= wb) by nia. lia.
  - subst. split; lia.
  - exfalso. assert ((by_ - by') * wb >= wb) by nia. lia.
Qed.

(* ---------- the scan against the grid ---------- *)

(* every block the scan forms, (mcuX*H+h, mcuY*V+v), is a cell of the component grid *)
Theorem scan_block_in_grid : forall width height comps hv b,
  1 <= fst hv -> 1 <= snd hv ->
  In b (scan_blocks width height comps hv) ->
  0 <= fst b < comp_wb width comps hv /\ 0 <= snd b < comp_hb height comps hv.
Proof.
  intros width height comps hv b HH HV Hin. unfold scan_blocks in Hin.
  apply in_flat_map in Hin. destruct Hin as [my [Hmy Hin]].
  apply in_flat_map in Hin. destruct Hin as [mx [Hmx Hin]].
  apply in_flat_map in Hin. destruct Hin as [v [Hv Hin]].
  apply in_map_iff in Hin. destruct Hin as [h [E Hh]].
  apply zrange_spec in Hmy, Hmx, Hv, Hh. subst b. unfold comp_wb, comp_hb. simpl. nia.
Qed.

(* conversely every cell of the grid is delivered by the scan *)
Theorem grid_cell_in_scan : forall width height comps hv bx by_,
  1 <= fst hv -> 1 <= snd hv ->
  0 <= bx < comp_wb width comps hv -> 0 <= by_ < comp_hb height comps hv ->
  In (bx, by_) (scan_blocks width height comps hv).
Proof.
  intros width height comps hv bx by_ HH HV Hx Hy. unfold comp_wb, comp_hb in *. unfold scan_blocks.
  apply in_flat_map. exists (by_ / snd hv). split.
  { apply zrange_spec. split; [apply Z.div_pos; lia | apply Z.div_lt_upper_bound; lia]. }
  apply in_flat_map. exists (bx / fst hv). split.
  { apply zrange_spec. split; [apply Z.div_pos; lia | apply Z.div_lt_upper_bound; lia]. }
  apply in_flat_map. exists (by_ mod snd hv). split.
  { apply zrange_spec. apply Z.mod_pos_bound. lia. }
  apply in_map_iff. exists (bx mod fst hv). split.
  { f_equal.
    - pose proof (Z.div_mod bx (fst hv) ltac:(lia)). lia.
    - pose proof (Z.div_mod by_ (snd hv) ltac:(lia)). lia. }
  apply zrange_spec. apply Z.mod_pos_bound. lia.
Qed.

(* fold characterisation of last_writer *)
Lemma last_writer_spec : forall wb hb off l acc,
  let hit := fun b : Z * Z => block_written wb hb (fst b) (snd b) && (block_offset wb (fst b) (snd b) =? off) in
  let r := fold_left (fun acc b => if hit b then Some b else acc) l acc in
  (r = acc /\ forall b, In b l -> hit b = false) \/ (exists b, In b l /\ hit b = true /\ r = Some b).
Proof.
  intros wb hb off l. induction l as [|a l IH]; intros acc hit r.
  - left. split; [reflexivity | intros b []].
  - subst r. cbn [fold_left].
    specialize (IH (if hit a then Some a else acc)). cbv zeta in IH. fold hit in IH.
    destruct IH as [[E Hn]|[b [Hb [Hh E]]]].
    + destruct (hit a) eqn:Ha.
      * right. exists a. split; [left; reflexivity | split; [exact Ha | exact E]].
      * left. split; [exact E|]. intros b [<-|Hb]; [exact Ha | apply Hn; exact Hb].
    + right. exists b. split; [right; exact Hb | split; assumption].
Qed.

(* THE GRID THEOREM: after the scan every cell (bx,by) of the component grid holds the data
   of scan block (bx,by) — all sampling factors >= 1 (in particular 1..4), all widths and
   heights. *)
Theorem scan_grid_ok : forall width height comps hv bx by_,
  1 <= fst hv -> 1 <= snd hv ->
  0 <= bx < comp_wb width comps hv -> 0 <= by_ < comp_hb height comps hv ->
  last_writer (comp_wb width comps hv) (comp_hb height comps hv)
              (scan_blocks width height comps hv)
              (block_offset (comp_wb width comps hv) bx by_) = Some (bx, by_).
Proof.
  intros width height comps hv bx by_ HH HV Hx Hy.
  set (wb := comp_wb width comps hv) in *. set (hb := comp_hb height comps hv) in *.
  unfold last_writer.
  pose proof (last_writer_spec wb hb (block_offset wb bx by_) (scan_blocks width height comps hv) None) as S.
  cbv zeta in S. destruct S as [[_ Hn]|[b [Hb [Hh E]]]].
  - exfalso. specialize (Hn (bx, by_) (grid_cell_in_scan width height comps hv bx by_ HH HV Hx Hy)).
    cbn [fst snd] in Hn. fold wb in Hn. rewrite (cell_written wb hb bx by_ Hx Hy) in Hn.
    rewrite Z.eqb_refl in Hn. discriminate.
  - rewrite E. f_equal.
    apply andb_true_iff in Hh. destruct Hh as [_ Ho]. apply Z.eqb_eq in Ho.
    pose proof (scan_block_in_grid width height comps hv b HH HV Hb) as [Gx Gy]. fold wb hb in Gx, Gy.
    destruct b as [x' y']. cbn [fst snd] in *.
    pose proof (cell_offset_inj wb x' y' bx by_ Gx Hx Ho) as [-> ->]. reflexivity.
Qed.

(* every scan block passes the guard (none is skipped) and is written inside the buffer *)
Corollary scan_block_written : forall width height comps hv b i,
  1 <= fst hv -> 1 <= snd hv -> In b (scan_blocks width height comps hv) -> 0 <= i < 64 ->
  block_written (comp_wb width comps hv) (comp_hb height comps hv) (fst b) (snd b) = true /\
  0 <= block_offset (comp_wb width comps hv) (fst b) (snd b) + i < comp_len width height comps hv.
Proof.
  intros width height comps hv b i HH HV Hin Hi.
  pose proof (scan_block_in_grid width height comps hv b HH HV Hin) as [Gx Gy].
  pose proof (cell_written _ _ _ _ Gx Gy) as W. split; [exact W|].
  unfold comp_len. apply block_write_in_range; try lia. exact W.
Qed.

(* ---------- convertToPixels ---------- *)

(* every sample index that passes the guard is inside the buffer *)
Theorem geometry_in_range : forall width height comps hv x y i,
  1 <= width -> 1 <= height -> In hv comps ->
  (forall c, In c comps -> 1 <= fst c <= 4 /\ 1 <= snd c <= 4) ->
  0 <= x < width -> 0 <= y < height ->
  pixel_index width height comps hv x y = Some i ->
  0 <= i < comp_len width height comps hv.
Proof.
  intros width height comps hv x y i Hw Hh Hin Hall Hx Hy Hpi.
  unfold pixel_index in Hpi.
  destruct comps as [|c0 rest]; [inversion Hin|].
  pose proof (Hall c0 (or_introl eq_refl)) as [Hc0h Hc0v].
  pose proof (Hall hv Hin) as [Hh1 Hv1].
  set (sx := Z.quot (x * fst hv) (fst c0)) in *.
  set (sy := Z.quot (y * snd hv) (snd c0)) in *.
  assert (Hsx : 0 <= sx) by (unfold sx; apply Z.quot_pos; nia).
  assert (Hsy : 0 <= sy) by (unfold sy; apply Z.quot_pos; nia).
  set (wb := comp_wb width (c0 :: rest) hv) in *.
  set (hb := comp_hb height (c0 :: rest) hv) in *.
  destruct ((Z.quot sx 8 <? wb) && (Z.quot sy 8 <? hb)) eqn:G; [|discriminate].
  apply andb_true_iff in G. destruct G as [G1 G2]. apply Z.ltb_lt in G1. apply Z.ltb_lt in G2.
  inversion Hpi; subst i; clear Hpi.
  unfold comp_len. fold wb hb. unfold block_offset.
  assert (Hbx : 0 <= Z.quot sx 8) by (apply Z.quot_pos; lia).
  assert (Hby : 0 <= Z.quot sy 8) by (apply Z.quot_pos; lia).
  assert (Hrx : 0 <= Z.rem sx 8 < 8) by (apply Z.rem_bound_pos; lia).
  assert (Hry : 0 <= Z.rem sy 8 < 8) by (apply Z.rem_bound_pos; lia).
  nia.
Qed.

(* the guard never fails when the first component carries the largest sampling factors
   (every stream in the property's scope: Y first): no sample is left at 0 *)
Theorem pixel_guard_passes : forall width height c0 rest hv x y,
  1 <= width -> 1 <= height -> In hv (c0 :: rest) ->
  (forall c, In c (c0 :: rest) -> 1 <= fst c /\ 1 <= snd c) ->
  max_h (c0 :: rest) = fst c0 -> max_v (c0 :: rest) = snd c0 ->
  0 <= x < width -> 0 <= y < height ->
  pixel_index width height (c0 :: rest) hv x y <> None.
Proof.
  intros width height c0 rest hv x y Hw Hh Hin Hall Mh Mv Hx Hy.
  pose proof (Hall c0 (or_introl eq_refl)) as [Hc0h Hc0v].
  pose proof (Hall hv Hin) as [Hh1 Hv1].
  unfold pixel_index.
  set (sx := Z.quot (x * fst hv) (fst c0)). set (sy := Z.quot (y * snd hv) (snd c0)).
  assert (Cw : width <= mcu_cols width (c0 :: rest) * (fst c0 * 8)).
  { unfold mcu_cols. rewrite Mh. apply div_ceil_covers; lia. }
  assert (Ch : height <= mcu_rows height (c0 :: rest) * (snd c0 * 8)).
  { unfold mcu_rows. rewrite Mv. apply div_ceil_covers; lia. }
  assert (Bx : Z.quot sx 8 < comp_wb width (c0 :: rest) hv).
  { unfold comp_wb, sx. rewrite (Z.quot_div_nonneg (x * fst hv) (fst c0)) by nia.
    assert (0 <= x * fst hv / fst c0) by (apply Z.div_pos; nia).
    rewrite Z.quot_div_nonneg by lia.
    apply Z.div_lt_upper_bound; [lia|]. apply Z.div_lt_upper_bound; [lia|]. nia. }
  assert (By : Z.quot sy 8 < comp_hb height (c0 :: rest) hv).
  { unfold comp_hb, sy. rewrite (Z.quot_div_nonneg (y * snd hv) (snd c0)) by nia.
    assert (0 <= y * snd hv / snd c0) by (apply Z.div_pos; nia).
    rewrite Z.quot_div_nonneg by lia.
    apply Z.div_lt_upper_bound; [lia|]. apply Z.div_lt_upper_bound; [lia|]. nia. }
  apply Z.ltb_lt in Bx. apply Z.ltb_lt in By. rewrite Bx, By. simpl. discriminate.
Qed.

(* the sample a pixel is read from belongs to the scan block (sx/8, sy/8) — the block the
   scan wrote for that position: pixel_owner (= last writer of the cell the index falls in)
   is that block, for every pixel whose guard passes *)
Theorem pixel_read_ok : forall width height c0 rest hv x y i,
  1 <= width -> 1 <= height -> In hv (c0 :: rest) ->
  (forall c, In c (c0 :: rest) -> 1 <= fst c /\ 1 <= snd c) ->
  0 <= x < width -> 0 <= y < height ->
  pixel_index width height (c0 :: rest) hv x y = Some i ->
  pixel_owner width height (c0 :: rest) hv x y =
    Some (Z.quot (Z.quot (x * fst hv) (fst c0)) 8, Z.quot (Z.quot (y * snd hv) (snd c0)) 8).
Proof.
  intros width height c0 rest hv x y i Hw Hh Hin Hall Hx Hy Hpi.
  pose proof (Hall c0 (or_introl eq_refl)) as [Hc0h Hc0v].
  pose proof (Hall hv Hin) as [Hh1 Hv1].
  unfold pixel_owner. rewrite Hpi. unfold pixel_index in Hpi.
  set (sx := Z.quot (x * fst hv) (fst c0)) in *.
  set (sy := Z.quot (y * snd hv) (snd c0)) in *.
  assert (Hsx : 0 <= sx) by (unfold sx; apply Z.quot_pos; nia).
  assert (Hsy : 0 <= sy) by (unfold sy; apply Z.quot_pos; nia).
  set (wb := comp_wb width (c0 :: rest) hv) in *.
  set (hb := comp_hb height (c0 :: rest) hv) in *.
  destruct ((Z.quot sx 8 <? wb) && (Z.quot sy 8 <? hb)) eqn:G; [|discriminate].
  apply andb_true_iff in G. destruct G as [G1 G2]. apply Z.ltb_lt in G1. apply Z.ltb_lt in G2.
  inversion Hpi; subst i; clear Hpi.
  assert (Hbx : 0 <= Z.quot sx 8) by (apply Z.quot_pos; lia).
  assert (Hby : 0 <= Z.quot sy 8) by (apply Z.quot_pos; lia).
  assert (Hrx : 0 <= Z.rem sx 8 < 8) by (apply Z.rem_bound_pos; lia).
  assert (Hry : 0 <= Z.rem sy 8 < 8) by (apply Z.rem_bound_pos; lia).
  assert (E : Z.quot (block_offset wb (Z.quot sx 8) (Z.quot sy 8) + Z.rem sy 8 * 8 + Z.rem sx 8) 64 * 64
              = block_offset wb (Z.quot sx 8) (Z.quot sy 8)).
  { unfold block_offset.
    set (k := Z.quot sy 8 * wb + Z.quot sx 8). assert (0 <= k) by (unfold k; nia).
    rewrite Z.quot_div_nonneg by lia.
    replace (k * 64 + Z.rem sy 8 * 8 + Z.rem sx 8) with ((Z.rem sy 8 * 8 + Z.rem sx 8) + k * 64) by ring.
    rewrite Z.div_add by lia. rewrite Z.div_small by lia. ring. }
  rewrite E. apply scan_grid_ok; lia.
Qed.

(* output: width*height*components samples, one index per (pixel, channel) *)
Lemma out_index_in_range : forall width height ncomp x y ch,
  0 <= x < width -> 0 <= y < height -> 0 <= ch < ncomp ->
  0 <= (y * width + x) * ncomp + ch < out_len width height ncomp.
Proof.
  intros width height ncomp x y ch Hx Hy Hc. unfold out_len.
  assert (A : 0 <= y * width + x <= width * height - 1) by nia.
  assert (B : (y * width + x) * ncomp <= (width * height - 1) * ncomp) by (apply Z.mul_le_mono_nonneg_r; lia).
  nia.
Qed.

(* executable form used by the finite cross-checks below *)
Definition sizes40 : list Z := map Z.of_nat (seq 1 40).
Definition grid_ok (width height : Z) (comps : list (Z * Z)) (hv : Z * Z) : bool :=
  let wb := comp_wb width comps hv in let hb := comp_hb height comps hv in
  let sb := scan_blocks width height comps hv in
  forallb (fun by_ => forallb (fun bx =>
    match last_writer wb hb sb (block_offset wb bx by_) with
    | Some (a, b) => (a =? bx) && (b =? by_)
    | None => false
    end) (zrange wb)) (zrange hb).

(* sanity: the historical witness is fine now *)
Example scan_grid_17x9_420_now_ok : grid_ok 17 9 [(2, 2); (1, 1); (1, 1)] (2, 2) = true.
Proof. vm_compute. reflexivity. Qed.
