(* Geometry of the baseline decoder: every index it forms is inside the component buffer;
   the scan's block grid versus the allocated block grid (refuted for subsampled luma). *)
From V Require Import Common.Base JpegDCT.DctGeometry.

Lemma div_ceil_pos : forall a b, 1 <= a -> 1 <= b -> 1 <= div_ceil a b.
Proof.
  intros a b Ha Hb. unfold div_ceil. rewrite Z.quot_div_nonneg by lia.
  apply Z.div_le_lower_bound; lia.
Qed.

Lemma fold_max_ge_init : forall l a, a <= fold_left Z.max l a.
Proof. induction l as [|x l IH]; intros a; simpl; [lia|]. specialize (IH (Z.max a x)). lia. Qed.
Lemma max_list_ge1 : forall l, 1 <= max_list l.
Proof. intros l. unfold max_list. apply fold_max_ge_init. Qed.

(* allocation: every component buffer is non-empty and a whole number of blocks *)
Lemma comp_len_pos : forall width height comps hv, 1 <= width -> 1 <= height ->
  1 <= fst hv -> 1 <= snd hv -> 64 <= comp_len width height comps hv.
Proof.
  intros width height comps hv Hw Hh HH HV. unfold comp_len, comp_wb, comp_hb.
  pose proof (max_list_ge1 (map fst comps)) as M1. pose proof (max_list_ge1 (map snd comps)) as M2.
  fold (max_h comps) in M1. fold (max_v comps) in M2.
  pose proof (div_ceil_pos (width * fst hv) (max_h comps * 8) ltac:(nia) ltac:(lia)).
  pose proof (div_ceil_pos (height * snd hv) (max_v comps * 8) ltac:(nia) ltac:(lia)).
  nia.
Qed.

(* decodeBlock: a block that passes the guard is written entirely inside the buffer
   (IDCTISlow writes out[0..63] relative to blockOffset) *)
Lemma block_write_in_range : forall wb hb bx by_ i, 0 <= wb -> 0 <= bx -> 0 <= by_ ->
  block_written wb hb bx by_ = true -> 0 <= i < 64 ->
  0 <= block_offset wb bx by_ + i < wb * hb * 64.
Proof.
  intros wb hb bx by_ i Hwb Hbx Hby Hw Hi. unfold block_written in Hw.
  apply negb_true_iff in Hw. apply Z.leb_gt in Hw. unfold block_offset in *. nia.
Qed.

(* convertToPixels: every sample index that passes the guard is inside the buffer, for any
   sampling factors >= 1 (in particular all H,V in 1..4) and any width, height >= 1 *)
Theorem geometry_in_range : forall width height comps hv x y i,
  1 <= width -> 1 <= height -> In hv comps ->
  (forall c, In c comps -> 1 <= fst c <= 4 /\ 1 <= snd c <= 4) ->
  0 <= x < width -> 0 <= y < height ->
  pixel_index width height comps hv x y = Some i ->
  0 <= i < comp_len width height comps hv.
Proof.
  intros width height comps hv x y i Hw Hh Hin Hall Hx Hy Hpi.
  unfold pixel_index in Hpi.
  destruct comps as [|c0 rest]; [inversion Hin|].
  pose proof (Hall c0 (or_introl eq_refl)) as [Hc0h Hc0v].
  pose proof (Hall hv Hin) as [Hh1 Hv1].
  set (sx := Z.quot (x * fst hv) (fst c0)) in *.
  set (sy := Z.quot (y * snd hv) (snd c0)) in *.
  assert (Hsx : 0 <= sx) by (unfold sx; apply Z.quot_pos; nia).
  assert (Hsy : 0 <= sy) by (unfold sy; apply Z.quot_pos; nia).
  set (wb := comp_wb width (c0 :: rest) hv) in *.
  set (hb := comp_hb height (c0 :: rest) hv) in *.
  destruct ((Z.quot sx 8 <? wb) && (Z.quot sy 8 <? hb)) eqn:G; [|discriminate].
  apply andb_true_iff in G. destruct G as [G1 G2]. apply Z.ltb_lt in G1. apply Z.ltb_lt in G2.
  inversion Hpi; subst i; clear Hpi.
  unfold comp_len. fold wb hb. unfold block_offset.
  assert (Hbx : 0 <= Z.quot sx 8) by (apply Z.quot_pos; lia).
  assert (Hby : 0 <= Z.quot sy 8) by (apply Z.quot_pos; lia).
  assert (Hrx : 0 <= Z.rem sx 8 < 8) by (apply Z.rem_bound_pos; lia).
  assert (Hry : 0 <= Z.rem sy 8 < 8) by (apply Z.rem_bound_pos; lia).
  nia.
Qed.

(* ---------- the scan's block grid against the allocated grid ---------- *)

(* What a correct decoder needs: after the scan, every block (bx,by) of the component's
   allocated grid holds the data of scan block (bx,by). *)
Definition scan_grid_statement : Prop :=
  forall width height comps hv bx by_,
    1 <= width -> 1 <= height -> In hv comps ->
    (forall c, In c comps -> 1 <= fst c <= 4 /\ 1 <= snd c <= 4) ->
    0 <= bx < comp_wb width comps hv -> 0 <= by_ < comp_hb height comps hv ->
    last_writer (comp_wb width comps hv) (comp_hb height comps hv)
                (scan_blocks width height comps hv)
                (block_offset (comp_wb width comps hv) bx by_) = Some (bx, by_).

(* Refuted by ordinary 4:2:0: a 17x9 image. The luma grid is allocated 3 blocks wide
   (DivCeil(17*2,16)) but the scan visits mcuCols*H = 4 blocks per row; padding block (3,0)
   lands on the offset of block (0,1), which was decoded earlier in the same MCU row. *)
Theorem scan_grid_refuted : ~ scan_grid_statement.
Proof.
  intro H.
  specialize (H 17 9 [(2, 2); (1, 1); (1, 1)] (2, 2) 0 1).
  assert (E : last_writer (comp_wb 17 [(2, 2); (1, 1); (1, 1)] (2, 2)) (comp_hb 9 [(2, 2); (1, 1); (1, 1)] (2, 2))
                (scan_blocks 17 9 [(2, 2); (1, 1); (1, 1)] (2, 2))
                (block_offset (comp_wb 17 [(2, 2); (1, 1); (1, 1)] (2, 2)) 0 1) = Some (3, 0))
    by (vm_compute; reflexivity).
  rewrite E in H.
  assert (Hc : Some (3, 0) = Some (0, 1)).
  { apply H; try lia.
    - simpl; auto.
    - intros c Hc. simpl in Hc. destruct Hc as [Hc|[Hc|[Hc|[]]]]; subst; simpl; lia.
    - replace (comp_wb 17 [(2, 2); (1, 1); (1, 1)] (2, 2)) with 3 by (vm_compute; reflexivity). lia.
    - replace (comp_hb 9 [(2, 2); (1, 1); (1, 1)] (2, 2)) with 2 by (vm_compute; reflexivity). lia. }
  discriminate.
Qed.

(* The encoders of /repo only ever emit 1x1 sampling. For that case the grid is right: checked
   exhaustively for every width and height 1..40 (all partial block shapes, up to 5x5 blocks),
   one and three components. *)
Definition sizes40 : list Z := map Z.of_nat (seq 1 40).

Definition grid_ok (width height : Z) (comps : list (Z * Z)) (hv : Z * Z) : bool :=
  let wb := comp_wb width comps hv in let hb := comp_hb height comps hv in
  let sb := scan_blocks width height comps hv in
  forallb (fun by_ => forallb (fun bx =>
    match last_writer wb hb sb (block_offset wb bx by_) with
    | Some (a, b) => (a =? bx) && (b =? by_)
    | None => false
    end) (zrange wb)) (zrange hb).

Lemma scan_grid_ok_444_b :
  forallb (fun w => forallb (fun h =>
    grid_ok w h [(1, 1)] (1, 1) && grid_ok w h [(1, 1); (1, 1); (1, 1)] (1, 1)) sizes40) sizes40 = true.
Proof. vm_compute. reflexivity. Qed.

Lemma sizes40_spec : forall n, 1 <= n <= 40 -> In n sizes40.
Proof.
  intros n Hn. unfold sizes40. apply in_map_iff. exists (Z.to_nat n). split; [lia|]. apply in_seq. lia.
Qed.

Theorem scan_grid_ok_444 : forall w h, 1 <= w <= 40 -> 1 <= h <= 40 ->
  grid_ok w h [(1, 1)] (1, 1) = true /\ grid_ok w h [(1, 1); (1, 1); (1, 1)] (1, 1) = true.
Proof.
  intros w h Hw Hh. pose proof scan_grid_ok_444_b as H. rewrite forallb_forall in H.
  specialize (H w (sizes40_spec w Hw)). rewrite forallb_forall in H.
  specialize (H h (sizes40_spec h Hh)). apply andb_true_iff in H. exact H.
Qed.

(* 4:2:0 goes wrong exactly when the luma block count per row is odd and greater than one
   and there is more than one block row; characterised on the same finite range: for every
   w,h in 1..40 the 4:2:0 luma grid is right iff DivCeil(w,8) is even or 1, or h <= 8.
   4:2:2 and 4:4:0 come out right on the whole range (the stray block is overwritten later
   or falls outside the buffer and is skipped). *)
Lemma scan_grid_420_characterised :
  forallb (fun w => forallb (fun h =>
    Bool.eqb (grid_ok w h [(2, 2); (1, 1); (1, 1)] (2, 2))
             (Z.even (div_ceil w 8) || (div_ceil w 8 =? 1) || (h <=? 8))) sizes40) sizes40 = true.
Proof. vm_compute. reflexivity. Qed.

Lemma scan_grid_422_440_ok :
  forallb (fun w => forallb (fun h =>
    grid_ok w h [(2, 1); (1, 1); (1, 1)] (2, 1) && grid_ok w h [(2, 1); (1, 1); (1, 1)] (1, 1) &&
    grid_ok w h [(1, 2); (1, 1); (1, 1)] (1, 2) && grid_ok w h [(1, 2); (1, 1); (1, 1)] (1, 1) &&
    grid_ok w h [(2, 2); (1, 1); (1, 1)] (1, 1)) sizes40) sizes40 = true.
Proof. vm_compute. reflexivity. Qed.
