(* Numeric accuracy of the coded integer inverse DCT against the exact real 2-D IDCT:
   real side.  Main result: idct_islow_accuracy. *)
From Coq Require Import Reals Lra Lia List ZArith.
From Interval Require Import Tactic.
From V Require Import Common.Base JpegDCT.DctQuant JpegDCT.DctIslow JpegDCT.DctBound
  JpegDCT.DctProofsA JpegDCT.DctNumDefs JpegDCT.DctNumProofsI.
Import ListNotations.
Open Scope R_scope.

(* ---------- the coded FIX constants against the exact cosines ---------- *)

Lemma mu_bound : forall n k, (n < 8)%nat -> (k < 8)%nat ->
  Rabs (IZR (Mz n k) - A1 n k) <= IZR (muz n k) / 10000.
Proof.
  intros n k Hn Hk.
  do 8 (destruct n as [|n]; [
    do 8 (destruct k as [|k]; [unfold Mz, muz, Mi, MuT, A1, E1; cbn [nth Cw INR]; interval with (i_prec 50)|]); lia |]).
  lia.
Qed.

Lemma smu_bound : forall n, (n < 8)%nat -> rsum8 (fun k => IZR (muz n k) / 10000) <= smu.
Proof.
  intros n Hn. unfold smu.
  do 8 (destruct n as [|n]; [unfold rsum8, muz, MuT; cbn [nth]; lra|]). lia.
Qed.

Lemma sM_bound : forall n, (n < 8)%nat -> rsum8 (fun k => Rabs (IZR (Mz n k))) <= sM.
Proof.
  intros n Hn. unfold sM.
  do 8 (destruct n as [|n]; [unfold rsum8, Mz, Mi; cbn [nth];
    repeat match goal with |- context [Rabs (IZR ?z)] => rewrite <- (abs_IZR z) end;
    cbn [Z.abs]; lra|]). lia.
Qed.

(* ---------- generic 8-term sums ---------- *)

Lemma Rabs_le_iv : forall a b, Rabs a <= b -> - b <= a <= b.
Proof. intros a b. unfold Rabs. destruct (Rcase_abs a); lra. Qed.

Lemma rsum8_abs_le : forall f g : nat -> R,
  (forall k, (k < 8)%nat -> Rabs (f k) <= g k) -> Rabs (rsum8 f) <= rsum8 g.
Proof.
  intros f g H. unfold rsum8.
  pose proof (H 0%nat ltac:(lia)). pose proof (H 1%nat ltac:(lia)). pose proof (H 2%nat ltac:(lia)).
  pose proof (H 3%nat ltac:(lia)). pose proof (H 4%nat ltac:(lia)). pose proof (H 5%nat ltac:(lia)).
  pose proof (H 6%nat ltac:(lia)). pose proof (H 7%nat ltac:(lia)).
  repeat match goal with Hh : Rabs _ <= _ |- _ => apply Rabs_le_iv in Hh end.
  apply Rabs_le. lra.
Qed.

Lemma Rabs_mult_le2 : forall g e w h, Rabs g <= w -> Rabs e <= h -> Rabs (g * e) <= w * h.
Proof.
  intros g e w h Hg He. rewrite Rabs_mult.
  apply Rmult_le_compat; try apply Rabs_pos; assumption.
Qed.

Lemma IZR_zsum8 : forall f, IZR (zsum8 f) = rsum8 (fun k => IZR (f k)).
Proof. intros f. unfold zsum8, rsum8. rewrite !plus_IZR. reflexivity. Qed.

(* ---------- one pass against the exact (scaled) 1-D synthesis ---------- *)

Lemma lin1d_mismatch : forall n (d : nat -> R) D, (n < 8)%nat ->
  (forall k, (k < 8)%nat -> Rabs (d k) <= D) ->
  Rabs (rsum8 (fun k => IZR (Mz n k) * d k) - rsum8 (fun k => A1 n k * d k)) <= smu * D.
Proof.
  intros n d D Hn Hd.
  assert (HD : 0 <= D) by (eapply Rle_trans; [apply Rabs_pos | apply (Hd 0%nat); lia]).
  replace (rsum8 (fun k => IZR (Mz n k) * d k) - rsum8 (fun k => A1 n k * d k))
    with (rsum8 (fun k => (IZR (Mz n k) - A1 n k) * d k)) by (unfold rsum8; ring).
  eapply Rle_trans; [apply (rsum8_abs_le _ (fun k => IZR (muz n k) / 10000 * D))|].
  - intros k Hk. apply Rabs_mult_le2; [apply mu_bound; assumption | apply Hd; assumption].
  - replace (rsum8 (fun k => IZR (muz n k) / 10000 * D)) with (rsum8 (fun k => IZR (muz n k) / 10000) * D)
      by (unfold rsum8; ring).
    apply Rmult_le_compat_r; [exact HD | apply smu_bound; exact Hn].
Qed.

Lemma lin1d_M_abs : forall n (d : nat -> R) D, (n < 8)%nat ->
  (forall k, (k < 8)%nat -> Rabs (d k) <= D) ->
  Rabs (rsum8 (fun k => IZR (Mz n k) * d k)) <= sM * D.
Proof.
  intros n d D Hn Hd.
  assert (HD : 0 <= D) by (eapply Rle_trans; [apply Rabs_pos | apply (Hd 0%nat); lia]).
  eapply Rle_trans; [apply (rsum8_abs_le _ (fun k => Rabs (IZR (Mz n k)) * D))|].
  - intros k Hk. apply Rabs_mult_le2; [apply Rle_refl | apply Hd; assumption].
  - replace (rsum8 (fun k => Rabs (IZR (Mz n k)) * D)) with (rsum8 (fun k => Rabs (IZR (Mz n k))) * D)
      by (unfold rsum8; ring).
    apply Rmult_le_compat_r; [exact HD | apply sM_bound; exact Hn].
Qed.

Lemma lin1d_A_abs : forall n (d : nat -> R) D, (n < 8)%nat ->
  (forall k, (k < 8)%nat -> Rabs (d k) <= D) ->
  Rabs (rsum8 (fun k => A1 n k * d k)) <= (sM + smu) * D.
Proof.
  intros n d D Hn Hd.
  pose proof (lin1d_mismatch n d D Hn Hd) as H1. pose proof (lin1d_M_abs n d D Hn Hd) as H2.
  apply Rabs_le_iv in H1. apply Rabs_le_iv in H2. apply Rabs_le. lra.
Qed.

(* ---------- the exact 2-D IDCT as two scaled 1-D passes ---------- *)

Lemma basis_E1 : forall x y u v, basis x y u v = E1 x u * E1 y v.
Proof. intros. unfold basis, E1. field. Qed.

Lemma sqrt8_sqr : sqrt 8 * sqrt 8 = 8.
Proof. apply sqrt_sqrt. lra. Qed.

Lemma two_pass_exact : forall (X : nat -> R) y x,
  rsum8 (fun u => A1 x u * (rsum8 (fun v => A1 y v * X (8 * v + u)%nat) / 2048)) =
  2 ^ 18 * exact_idct X y x.
Proof.
  intros X y x. unfold exact_idct.
  replace (rsum8 (fun v => rsum8 (fun u => basis x y u v * X (8 * v + u)%nat)))
    with (rsum8 (fun v => rsum8 (fun u => E1 x u * E1 y v * X (8 * v + u)%nat))).
  2:{ unfold rsum8. rewrite !basis_E1. reflexivity. }
  unfold A1. pose proof sqrt8_sqr as Hs. set (s := sqrt 8) in *.
  replace (2 ^ 18) with (s * s * 2 ^ 15) by (rewrite Hs; lra).
  unfold rsum8. field.
Qed.
