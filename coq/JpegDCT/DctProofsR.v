(* C11 over the reals: the bound instantiated to the exact 8x8 inverse DCT basis (only
   |cos| <= 1 is used), the end-to-end per-sample argument with the coded integer kernels'
   deviations as explicit Section hypotheses (hence _partial), the quality-100 corollary and
   the propagation through the inverse colour matrix.
   Uses Coq's Reals: their axioms appear under Print Assumptions. *)
From Coq Require Import Reals Lra Lia List ZArith Psatz.
From V Require Import Common.Base JpegDCT.DctQuant JpegDCT.DctBound JpegDCT.DctProofsA.
Import ListNotations.
Open Scope R_scope.

(* ---------- linear core over R ---------- *)

Lemma rsum_cons : forall a l, rsum (a :: l) = a + rsum l.
Proof. reflexivity. Qed.

Lemma Rabs_mult_le : forall g e w h, Rabs g <= w -> Rabs e <= h -> Rabs (g * e) <= w * h.
Proof.
  intros g e w h Hg He. rewrite Rabs_mult.
  apply Rmult_le_compat; try apply Rabs_pos; assumption.
Qed.

Lemma C11_bound_linear_R : forall (A : Type) (g e w h : A -> R) (l : list A),
  Forall (fun t => Rabs (g t) <= w t /\ Rabs (e t) <= h t) l ->
  Rabs (rsum (map (fun t => g t * e t) l)) <= rsum (map (fun t => w t * h t) l).
Proof.
  intros A g e w h l. induction l as [|t l IH]; intros HF.
  - simpl. rewrite Rabs_R0. lra.
  - inversion HF as [|t' l' [Hg He] HF']; subst. cbn [map]. rewrite !rsum_cons.
    eapply Rle_trans; [apply Rabs_triang|].
    apply Rplus_le_compat; [apply Rabs_mult_le; assumption | apply IH; assumption].
Qed.

(* ---------- the exact IDCT basis obeys |G| <= C(u)C(v)/4 ---------- *)

Lemma sqrt2_ge1 : 1 <= sqrt 2.
Proof. rewrite <- sqrt_1 at 1. apply sqrt_le_1; lra. Qed.

Lemma Cw_pos : forall k, 0 < Cw k.
Proof.
  intros [|k]; simpl; [|lra]. apply Rinv_0_lt_compat. pose proof sqrt2_ge1. lra.
Qed.

Lemma Cw_le1 : forall k, Cw k <= 1.
Proof.
  intros [|k]; simpl; [|lra]. pose proof sqrt2_ge1 as H.
  apply Rle_trans with (/ 1); [apply Rinv_le_contravar; lra | rewrite Rinv_1; lra].
Qed.

Lemma Cw0_sqr : Cw 0 * Cw 0 = / 2.
Proof.
  simpl. rewrite <- Rinv_mult. rewrite sqrt_sqrt by lra. reflexivity.
Qed.

Lemma Rabs_cos_le1 : forall a, Rabs (cos a) <= 1.
Proof. intros a. pose proof (COS_bound a) as [H1 H2]. apply Rabs_le. lra. Qed.

Theorem idct_basis_bound : forall x y u v, Rabs (basis x y u v) <= Cw u * Cw v / 4.
Proof.
  intros x y u v. unfold basis.
  pose proof (Cw_pos u) as Hu. pose proof (Cw_pos v) as Hv.
  assert (Hc : 0 < Cw u * Cw v / 4) by (apply Rdiv_lt_0_compat; [apply Rmult_lt_0_compat; assumption | lra]).
  rewrite !Rabs_mult. rewrite (Rabs_right (Cw u * Cw v / 4)) by lra.
  pose proof (Rabs_cos_le1 ((2 * INR x + 1) * INR u * PI / 16)) as C1.
  pose proof (Rabs_cos_le1 ((2 * INR y + 1) * INR v * PI / 16)) as C2.
  pose proof (Rabs_pos (cos ((2 * INR x + 1) * INR u * PI / 16))) as P1.
  pose proof (Rabs_pos (cos ((2 * INR y + 1) * INR v * PI / 16))) as P2.
  set (c := Cw u * Cw v / 4) in *.
  set (a := Rabs (cos ((2 * INR x + 1) * INR u * PI / 16))) in *.
  set (b := Rabs (cos ((2 * INR y + 1) * INR v * PI / 16))) in *.
  assert (E1 : c * a <= c * 1) by (apply Rmult_le_compat_l; lra).
  assert (E0 : 0 <= c * a) by (apply Rmult_le_pos; lra).
  assert (E2 : c * a * b <= c * a * 1) by (apply Rmult_le_compat_l; lra).
  lra.
Qed.

Lemma wIdct_basis : forall x y k, Rabs (basis x y (k mod 8) (k / 8)) <= wIdct k.
Proof. intros. apply idct_basis_bound. Qed.

Lemma in_combine_seq : forall (qt : list Z) s k q,
  In (k, q) (combine (seq s (length qt)) qt) ->
  (s <= k < s + length qt)%nat /\ q = nth (k - s) qt 0%Z.
Proof.
  induction qt as [|a qt IH]; intros s k q H; [inversion H|].
  simpl in H. destruct H as [H|H].
  - inversion H; subst. split; [simpl; lia|]. replace (k - k)%nat with 0%nat by lia. reflexivity.
  - apply IH in H. destruct H as [H1 H2]. split; [simpl; lia|].
    replace (k - s)%nat with (S (k - S s)) by lia. simpl. exact H2.
Qed.

Lemma rsum_half : forall (A : Type) (f : A -> R) (l : list A),
  rsum (map (fun t => f t / 2) l) = rsum (map f l) / 2.
Proof.
  intros A f l. induction l as [|a l IH]; [unfold rsum; simpl; lra|].
  cbn [map]. rewrite !rsum_cons, IH. lra.
Qed.

(* the statement's bound for one block: any coefficient errors within half a quantiser step,
   synthesised by the exact inverse DCT, move a sample by at most (1/8) sum C(u)C(v) Q *)
Theorem C11_bound_idct : forall (x y : nat) (qt : list Z) (err : nat -> R),
  (forall k, (k < length qt)%nat -> Rabs (err k) <= IZR (nth k qt 0%Z) / 2) ->
  Rabs (rsum (map (fun kq : nat * Z => basis x y (fst kq mod 8) (fst kq / 8) * err (fst kq))
                  (combine (seq 0 (length qt)) qt)))
  <= tableBound qt.
Proof.
  intros x y qt err Herr. unfold tableBound.
  set (l := combine (seq 0 (length qt)) qt).
  assert (HF : Forall (fun kq : nat * Z => Rabs (basis x y (fst kq mod 8) (fst kq / 8)) <= wIdct (fst kq) /\
                                  Rabs (err (fst kq)) <= IZR (snd kq) / 2) l).
  { apply Forall_forall. intros [k q] Hin. simpl. split; [apply wIdct_basis|].
    unfold l in Hin. apply in_combine_seq in Hin. destruct Hin as [Hk Hq].
    replace (k - 0)%nat with k in Hq by lia. subst q. apply Herr. lia. }
  pose proof (C11_bound_linear_R _ (fun kq : nat * Z => basis x y (fst kq mod 8) (fst kq / 8))
                (fun kq => err (fst kq)) (fun kq => wIdct (fst kq)) (fun kq => IZR (snd kq) / 2) l HF) as H.
  eapply Rle_trans; [exact H|].
  apply Req_le. rewrite <- rsum_half. f_equal. apply map_ext. intros a. lra.
Qed.

(* ---------- clamping towards an in-range source never increases the error ---------- *)

Lemma clamp_contracts : forall z x, 0 <= x <= 255 -> Rabs (clampR z - x) <= Rabs (z - x).
Proof.
  intros z x Hx. unfold clampR, Rmax, Rmin.
  destruct (Rle_dec 255 z); destruct (Rle_dec 0 255); destruct (Rle_dec 0 z);
    unfold Rabs; repeat destruct Rcase_abs; lra.
Qed.

(* ---------- integer quantiser error carried to the reals ---------- *)

Lemma quant8_error_R : forall c q, (Z.abs c <= 2 ^ 29)%Z -> (1 <= q <= 255)%Z ->
  Rabs (IZR (quant8 c q * q) - IZR c / 8) <= IZR q / 2.
Proof.
  intros c q Hc Hq. pose proof (quant8_error c q Hc Hq) as H.
  set (k := quant8 c q) in *.
  assert (H' : (- (4 * q) <= c - 8 * q * k <= 4 * q)%Z) by lia.
  destruct H' as [H1 H2]. apply IZR_le in H1. apply IZR_le in H2.
  rewrite opp_IZR in H1. rewrite minus_IZR in H1, H2. rewrite !mult_IZR in *.
  apply Rabs_le. lra.
Qed.

(* ---------- end-to-end, one sample of one greyscale block ---------- *)

Section C11_end_to_end.
  (* one eterm per DCT coefficient of the block *)
  Variable terms : list eterm.
  Variable x : R.          (* source sample *)
  Variable y : Z.          (* decoded sample *)
  Variable af : R.         (* deviation of the coded forward kernel, seen in the sample domain *)
  Variable di : R.         (* deviation of the coded inverse kernel (incl. its final rounding) *)

  Definition kq (t : eterm) : Z := quant8 (ecq t) (eq_ t).

  (* the exact transform pair reconstructs the sample from the exact coefficients *)
  Hypothesis Hexact : x = rsum (map (fun t => eg t * ec t) terms).
  Hypothesis Hx : 0 <= x <= 255.
  (* per coefficient: synthesis weight bound, table entry as the encoders write them,
     coded coefficient inside int32 headroom *)
  Hypothesis Hterms : Forall (fun t =>
      Rabs (eg t) <= ew t /\ (1 <= eq_ t <= 255)%Z /\ (Z.abs (ecq t) <= 2 ^ 29)%Z) terms.
  (* "the coded DCT/IDCT pair is within delta of an exact inverse pair":
     the exact inverse applied to (coded forward coefficients / 8 - exact coefficients)
     moves the sample by at most af ... *)
  Hypothesis Hfwd : Rabs (rsum (map (fun t => eg t * (IZR (ecq t) / 8 - ec t)) terms)) <= af.
  (* ... and the coded inverse kernel is within di of the clamped exact inverse of the
     dequantised coefficients *)
  Hypothesis Hinv : Rabs (IZR y - clampR (rsum (map (fun t => eg t * IZR (kq t * eq_ t)) terms))) <= di.

  Lemma rsum_minus : forall (f g : eterm -> R) (l : list eterm),
    rsum (map f l) - rsum (map g l) = rsum (map (fun t => f t - g t) l).
  Proof.
    intros f g l. induction l as [|a l IH]; [unfold rsum; simpl; lra|].
    cbn [map]. rewrite !rsum_cons. rewrite <- IH. lra.
  Qed.

  Lemma rsum_plus : forall (f g : eterm -> R) (l : list eterm),
    rsum (map (fun t => f t + g t) l) = rsum (map f l) + rsum (map g l).
  Proof.
    intros f g l. induction l as [|a l IH]; [unfold rsum; simpl; lra|].
    cbn [map]. rewrite !rsum_cons. rewrite IH. lra.
  Qed.

  Theorem C11_sample_bound_partial :
    Rabs (IZR y - x) <= rsum (map (fun t => ew t * IZR (eq_ t)) terms) / 2 + af + di.
  Proof.
    set (z := rsum (map (fun t => eg t * IZR (kq t * eq_ t)) terms)) in *.
    replace (IZR y - x) with ((IZR y - clampR z) + (clampR z - x)) by lra.
    eapply Rle_trans; [apply Rabs_triang|].
    pose proof (clamp_contracts z x Hx) as Hcl.
    assert (Hz : Rabs (z - x) <= rsum (map (fun t => ew t * IZR (eq_ t)) terms) / 2 + af).
    { unfold z. rewrite Hexact. rewrite rsum_minus.
      replace (map (fun t => eg t * IZR (kq t * eq_ t) - eg t * ec t) terms)
        with (map (fun t => eg t * (IZR (kq t * eq_ t) - IZR (ecq t) / 8) + eg t * (IZR (ecq t) / 8 - ec t)) terms)
        by (apply map_ext; intros; lra).
      rewrite rsum_plus.
      eapply Rle_trans; [apply Rabs_triang|]. apply Rplus_le_compat; [|exact Hfwd].
      rewrite <- rsum_half.
      replace (map (fun t => ew t * IZR (eq_ t) / 2) terms) with (map (fun t => ew t * (IZR (eq_ t) / 2)) terms)
        by (apply map_ext; intros; lra).
      apply (C11_bound_linear_R eterm eg (fun t => IZR (kq t * eq_ t) - IZR (ecq t) / 8) ew (fun t => IZR (eq_ t) / 2)).
      eapply Forall_impl; [|exact Hterms]. intros t [Hg [Hq Hc]]. split; [exact Hg|].
      unfold kq. apply quant8_error_R; assumption. }
    lra.
  Qed.

  (* with the weights of the 8x8 IDCT and the table of the stream: the property's bound,
     provided the kernels' deviations fit the fixed allowance of 2 grey levels *)
  Variable qt : list Z.
  Hypothesis Hshape : map eq_ terms = qt /\ map ew terms = map wIdct (seq 0 (length terms)).
  Hypothesis Hallow : af + di <= 2.

  Lemma shape_sum : forall (l : list eterm) s, map ew l = map wIdct (seq s (length l)) ->
    rsum (map (fun t => ew t * IZR (eq_ t)) l) =
    rsum (map (fun kq0 : nat * Z => wIdct (fst kq0) * IZR (snd kq0)) (combine (seq s (length (map eq_ l))) (map eq_ l))).
  Proof.
    induction l as [|a l IH]; intros s H; [reflexivity|].
    simpl in H. inversion H as [[Ha Hl]]. cbn [map length seq combine]. rewrite !rsum_cons. cbn [fst snd]. rewrite Ha.
    f_equal. apply IH. exact Hl.
  Qed.

  Theorem C11_grey_bound_partial : Rabs (IZR y - x) <= boundGrey qt.
  Proof.
    pose proof C11_sample_bound_partial as H. destruct Hshape as [Hq Hw].
    unfold boundGrey, tableBound. rewrite <- Hq.
    rewrite <- (shape_sum terms 0 Hw). lra.
  Qed.
End C11_end_to_end.

(* ---------- quality 100 ---------- *)

Lemma tableBound_ones : tableBound (repeat 1%Z 64) = (7 + Cw 0) * (7 + Cw 0) / 8.
Proof.
  unfold tableBound. cbn [repeat length seq combine map fst snd].
  unfold wIdct. cbn [Nat.modulo Nat.div Nat.divmod fst snd Nat.sub Cw].
  unfold rsum. cbn [fold_right]. set (s := / sqrt 2). lra.
Qed.

(* at quality 100 both base tables scale to all ones, and then the property's bound is < 10 *)
Theorem C11_q100_le_10 :
  scale_quant_table Gen.JpegTables_gen.jpeg_qt_luma 100 = repeat 1%Z 64 /\
  boundGrey (repeat 1%Z 64) <= 10.
Proof.
  split; [apply scale_table_q100|].
  unfold boundGrey. rewrite tableBound_ones.
  pose proof (Cw_pos 0) as H0. pose proof (Cw_le1 0) as H1. nra.
Qed.

(* ---------- propagation through |inverse colour matrix| ---------- *)

Theorem C11_rgb_propagate : forall dy dcb dcr by_ bcb bcr,
  Rabs dy <= by_ -> Rabs dcb <= bcb -> Rabs dcr <= bcr ->
  Rabs (dy + 1.402 * dcr) <= by_ + 1.402 * bcr /\
  Rabs (dy - 0.344136 * dcb - 0.714136 * dcr) <= by_ + 0.344136 * bcb + 0.714136 * bcr /\
  Rabs (dy + 1.772 * dcb) <= by_ + 1.772 * bcb.
Proof.
  intros dy dcb dcr by_ bcb bcr Hy Hb Hr.
  assert (Hy' : - by_ <= dy <= by_) by (revert Hy; unfold Rabs; destruct Rcase_abs; lra).
  assert (Hb' : - bcb <= dcb <= bcb) by (revert Hb; unfold Rabs; destruct Rcase_abs; lra).
  assert (Hr' : - bcr <= dcr <= bcr) by (revert Hr; unfold Rabs; destruct Rcase_abs; lra).
  repeat split; apply Rabs_le; lra.
Qed.
