(* dct_islow_accuracy: every coded forward coefficient (DCTISlow, scaled by 8) is within
   fdct_err8 (< 2.72, i.e. 0.34 in coefficient units) of 8 * the exact real DCT-II coefficient
   of the level-shifted block. *)
From Coq Require Import Reals Lra Lia List ZArith.
From V Require Import Common.Base JpegDCT.DctQuant JpegDCT.DctIslow JpegDCT.DctBound
  JpegDCT.DctProofsA JpegDCT.DctNumDefs JpegDCT.DctNumProofsI JpegDCT.DctNumProofsJ
  JpegDCT.DctNumProofsK JpegDCT.DctNumDefsF JpegDCT.DctNumProofsF JpegDCT.DctNumProofsM
  JpegDCT.DctNumProofsN JpegDCT.DctNumDefsG.
Import ListNotations.
Open Scope R_scope.

Notation Mr n k := (IZR (Mz n k)).

Lemma smuc_bound : forall k, (k < 8)%nat -> rsum8 (fun n => IZR (muz n k) / 10000) <= smuc.
Proof.
  intros k Hk. unfold smuc.
  do 8 (destruct k as [|k]; [unfold rsum8, muz, MuT; cbn [nth]; lra|]). lia.
Qed.

Lemma sMc_bound : forall k, (k < 8)%nat -> rsum8 (fun n => Rabs (Mr n k)) <= sMc.
Proof.
  intros k Hk. unfold sMc.
  do 8 (destruct k as [|k]; [unfold rsum8, Mz, Mi; cbn [nth];
    repeat match goal with |- context [Rabs (IZR ?z)] => rewrite <- (abs_IZR z) end;
    cbn [Z.abs]; lra|]). lia.
Qed.

Lemma col_mismatch : forall k (d : nat -> R) D, (k < 8)%nat ->
  (forall n, (n < 8)%nat -> Rabs (d n) <= D) ->
  Rabs (rsum8 (fun n => Mr n k * d n) - rsum8 (fun n => A1 n k * d n)) <= smuc * D.
Proof.
  intros k d D Hk Hd.
  assert (HD : 0 <= D) by (eapply Rle_trans; [apply Rabs_pos | apply (Hd 0%nat); lia]).
  replace (rsum8 (fun n => Mr n k * d n) - rsum8 (fun n => A1 n k * d n))
    with (rsum8 (fun n => (Mr n k - A1 n k) * d n)) by (unfold rsum8; ring).
  eapply Rle_trans; [apply (rsum8_abs_le _ (fun n => IZR (muz n k) / 10000 * D))|].
  - intros n Hn. apply Rabs_mult_le2; [apply mu_bound; assumption | apply Hd; assumption].
  - replace (rsum8 (fun n => IZR (muz n k) / 10000 * D)) with (rsum8 (fun n => IZR (muz n k) / 10000) * D)
      by (unfold rsum8; ring).
    apply Rmult_le_compat_r; [exact HD | apply smuc_bound; exact Hk].
Qed.

Lemma col_M_abs : forall k (d : nat -> R) D, (k < 8)%nat ->
  (forall n, (n < 8)%nat -> Rabs (d n) <= D) ->
  Rabs (rsum8 (fun n => Mr n k * d n)) <= sMc * D.
Proof.
  intros k d D Hk Hd.
  assert (HD : 0 <= D) by (eapply Rle_trans; [apply Rabs_pos | apply (Hd 0%nat); lia]).
  eapply Rle_trans; [apply (rsum8_abs_le _ (fun n => Rabs (Mr n k) * D))|].
  - intros n Hn. apply Rabs_mult_le2; [apply Rle_refl | apply Hd; assumption].
  - replace (rsum8 (fun n => Rabs (Mr n k) * D)) with (rsum8 (fun n => Rabs (Mr n k)) * D)
      by (unfold rsum8; ring).
    apply Rmult_le_compat_r; [exact HD | apply sMc_bound; exact Hk].
Qed.

Lemma col_A_abs : forall k (d : nat -> R) D, (k < 8)%nat ->
  (forall n, (n < 8)%nat -> Rabs (d n) <= D) ->
  Rabs (rsum8 (fun n => A1 n k * d n)) <= (sMc + smuc) * D.
Proof.
  intros k d D Hk Hd.
  pose proof (col_mismatch k d D Hk Hd) as H1. pose proof (col_M_abs k d D Hk Hd) as H2.
  apply Rabs_le_iv in H1. apply Rabs_le_iv in H2. apply Rabs_le. lra.
Qed.

Lemma two_pass_exact_fwd : forall (S : nat -> R) v u,
  rsum8 (fun y => A1 y v * (rsum8 (fun x => A1 x u * S (8 * y + x)%nat) / 2048)) =
  2 ^ 18 * exact_fdct S v u.
Proof.
  intros S v u. unfold exact_fdct.
  replace (rsum8 (fun y => rsum8 (fun x => basis x y u v * S (8 * y + x)%nat)))
    with (rsum8 (fun y => rsum8 (fun x => E1 x u * E1 y v * S (8 * y + x)%nat))).
  2:{ unfold rsum8. rewrite !basis_E1. reflexivity. }
  unfold A1. pose proof sqrt8_sqr as Hs. set (s := sqrt 8) in *.
  replace (2 ^ 18) with (s * s * 2 ^ 15) by (rewrite Hs; lra).
  unfold rsum8. field.
Qed.

Theorem fdct_fun_accuracy : forall (s : nat -> Z),
  (forall k, (k < 64)%nat -> (Z.abs (s k) <= 128)%Z) ->
  forall v u, (v < 8)%nat -> (u < 8)%nat ->
  Rabs (IZR (fdct_fun s v u) - 8 * exact_fdct (fun k => IZR (s k)) v u) <= fdct_err8.
Proof.
  intros s Hs v u Hv Hu.
  pose proof (fc_round s Hs v u Hv Hu) as [C1 C2]. apply IZR_le in C1. apply IZR_le in C2.
  rewrite minus_IZR, mult_IZR in C1, C2. unfold fdct_csum in C1, C2. rewrite IZR_lin8 in C1, C2.
  set (SR := fun k => IZR (s k)).
  set (Fex := fun y => rsum8 (fun x => A1 x u * SR (8 * y + x)%nat)).
  assert (HT : rsum8 (fun y => A1 y v * (Fex y / 2048)) = 2 ^ 18 * exact_fdct SR v u)
    by exact (two_pass_exact_fwd SR v u).
  assert (HS : forall y x, (y < 8)%nat -> (x < 8)%nat -> Rabs (SR (8 * y + x)%nat) <= 128).
  { intros y x Hy Hx. unfold SR. rewrite <- abs_IZR. apply IZR_le. apply Hs. lia. }
  assert (He1 : forall y, (y < 8)%nat -> Rabs (IZR (fdct_fw s y u) - Fex y / 2048) <= 1 / 2 + smuc * 128 / 2048).
  { intros y Hy. pose proof (fw_round s Hs y u Hy Hu) as [A B].
    apply IZR_le in A. apply IZR_le in B. rewrite minus_IZR, mult_IZR in A, B.
    unfold fdct_fsum in A, B. rewrite IZR_lin8 in A, B.
    assert (Hm : Rabs (rsum8 (fun x => Mr x u * IZR (s (8 * y + x)%nat)) - Fex y) <= smuc * 128).
    { unfold Fex. apply (col_mismatch u (fun x => SR (8 * y + x)%nat) 128 Hu). intros n Hn. apply HS; assumption. }
    apply Rabs_le_iv in Hm. apply Rabs_le. lra. }
  assert (HF : forall y, (y < 8)%nat -> Rabs (Fex y / 2048) <= (sMc + smuc) * 128 / 2048).
  { intros y Hy.
    assert (H : Rabs (Fex y) <= (sMc + smuc) * 128)
      by exact (col_A_abs u (fun x => SR (8 * y + x)%nat) 128 Hu (fun n Hn => HS y n Hy Hn)).
    apply Rabs_le_iv in H. apply Rabs_le. lra. }
  assert (Ha : Rabs (rsum8 (fun y => Mr y v * (IZR (fdct_fw s y u) - Fex y / 2048)))
               <= sMc * (1 / 2 + smuc * 128 / 2048)).
  { apply col_M_abs; [exact Hv|]. exact He1. }
  assert (Hb : Rabs (rsum8 (fun y => Mr y v * (Fex y / 2048)) - rsum8 (fun y => A1 y v * (Fex y / 2048)))
               <= smuc * ((sMc + smuc) * 128 / 2048)).
  { apply col_mismatch; [exact Hv|]. exact HF. }
  pose proof (rsum8_split (fun y => Mr y v) (fun y => IZR (fdct_fw s y u)) (fun y => Fex y / 2048)) as Hsplit.
  cbv beta in Hsplit.
  apply Rabs_le_iv in Ha. apply Rabs_le_iv in Hb.
  unfold fdct_err8, sMc, smuc in *.
  replace (2 ^ 18) with 262144 in HT by lra. replace (2 ^ 16) with 65536 by lra.
  replace (2 ^ 26) with 67108864 by lra.
  generalize dependent (rsum8 (fun y => Mr y v * (IZR (fdct_fw s y u) - Fex y / 2048))).
  generalize dependent (rsum8 (fun y => Mr y v * (Fex y / 2048))).
  generalize dependent (rsum8 (fun y => A1 y v * (Fex y / 2048))).
  generalize dependent (rsum8 (fun k => Mr k v * IZR (fdct_fw s k u))).
  generalize dependent (exact_fdct SR v u). generalize dependent (IZR (fdct_fun s v u)).
  intros c ex cs C1 C2 t HT m Hb a Hsplit Ha.
  clear - C1 C2 HT Hb Hsplit Ha. apply Rabs_le. lra.
Qed.

Lemma fdct_err8_val : fdct_err8 <= 2720 / 1000.
Proof. unfold fdct_err8, sMc, smuc. lra. Qed.

(* list level: DCTISlow on a block of 8-bit samples *)
Theorem dct_islow_accuracy : forall block, length block = 64%nat ->
  (forall k, (k < 64)%nat -> (0 <= nth k block 0 <= 255)%Z) ->
  forall v u, (v < 8)%nat -> (u < 8)%nat ->
  Rabs (IZR (nth (8 * v + u) (dct_islow block) 0%Z) / 8
        - exact_fdct (fun k => IZR (nth k block 0%Z) - 128) v u) <= fdct_err8 / 8.
Proof.
  intros block Hb Hbr v u Hv Hu.
  set (cen := map (fun t => (t - 128)%Z) block).
  assert (Hcen : length cen = 64%nat) by (unfold cen; rewrite map_length; exact Hb).
  destruct (two_passF_nth fdct_p1 fdct_p2 cen Hcen) as [_ HDn].
  rewrite dct_islow_two_pass. fold cen. rewrite HDn by assumption.
  set (s := fun k => nth k cen 0%Z).
  assert (Hs : forall k, (k < 64)%nat -> (Z.abs (s k) <= 128)%Z).
  { intros k Hk. unfold s, cen. rewrite nth_centred by lia. pose proof (Hbr k Hk). lia. }
  pose proof (fdct_fun_accuracy s Hs v u Hv Hu) as H.
  assert (Hex : exact_fdct (fun k => IZR (s k)) v u = exact_fdct (fun k => IZR (nth k block 0%Z) - 128) v u).
  { unfold exact_fdct, rsum8, s, cen. rewrite !nth_centred by lia. rewrite !minus_IZR. reflexivity. }
  rewrite Hex in H. change (oget v (fdct_p2 (octf (fun y => oget u (fdct_p1 (octf (fun x => nth (8 * y + x) cen 0%Z)))))))
    with (fdct_fun s v u).
  apply Rabs_le_iv in H. apply Rabs_le. lra.
Qed.
