(* EXTRACT *)
(* Bit-exact integer models of jpeg/standard/dct_ijg.go (DCTISlow), idct_ijg.go (IDCTISlow)
   and of the 12-bit port sequential12DCTISlow in jpeg/extended/sequential12.go.
   Blocks are lists of 64 Z in natural (row-major) order.
   int32: +,-,*,<< are ring operations modulo 2^32, so narrowing is written out where a
   value is stored and — decisive — before every arithmetic right shift (descale). *)
From V Require Import Common.Base Gen.JpegTables_gen JpegDCT.DctQuant.

Record fixc : Type := {
  cbits : Z; p1bits : Z;
  f0298 : Z; f0390 : Z; f0541 : Z; f0765 : Z; f0899 : Z; f1175 : Z;
  f1501 : Z; f1847 : Z; f1961 : Z; f2053 : Z; f2562 : Z; f3072 : Z }.

Definition ijg_consts : fixc := {|
  cbits := ijg_const_bits; p1bits := ijg_pass_1_bits;
  f0298 := ijg_fix_0298631336; f0390 := ijg_fix_0390180644; f0541 := ijg_fix_0541196100;
  f0765 := ijg_fix_0765366865; f0899 := ijg_fix_0899976223; f1175 := ijg_fix_1175875602;
  f1501 := ijg_fix_1501321110; f1847 := ijg_fix_1847759065; f1961 := ijg_fix_1961570560;
  f2053 := ijg_fix_2053119869; f2562 := ijg_fix_2562915447; f3072 := ijg_fix_3072711026 |}.

Definition seq12_consts : fixc := {|
  cbits := seq12_const_bits; p1bits := seq12_pass_1_bits;
  f0298 := seq12_fix_0298631336; f0390 := seq12_fix_0390180644; f0541 := seq12_fix_0541196100;
  f0765 := seq12_fix_0765366865; f0899 := seq12_fix_0899976223; f1175 := seq12_fix_1175875602;
  f1501 := seq12_fix_1501321110; f1847 := seq12_fix_1847759065; f1961 := seq12_fix_1961570560;
  f2053 := seq12_fix_2053119869; f2562 := seq12_fix_2562915447; f3072 := seq12_fix_3072711026 |}.

(* func ijgDescale(value int32, shift uint) int32 { return (value + (1 << (shift - 1))) >> shift } *)
Definition descale (v s : Z) : Z := Z.shiftr (i32 (v + 2 ^ (s - 1))) s.

Definition oct : Type := (Z * Z * Z * Z * Z * Z * Z * Z)%type.

(* forward 1-D butterfly shared by both passes; [dc] finishes outputs 0 and 4, the other
   six are descaled by [s]. *)
Definition fdct_1d (k : fixc) (dc : Z -> Z) (s : Z) (d : oct) : oct :=
  let '(d0, d1, d2, d3, d4, d5, d6, d7) := d in
  let tmp0 := d0 + d7 in let tmp7 := d0 - d7 in
  let tmp1 := d1 + d6 in let tmp6 := d1 - d6 in
  let tmp2 := d2 + d5 in let tmp5 := d2 - d5 in
  let tmp3 := d3 + d4 in let tmp4 := d3 - d4 in
  let tmp10 := tmp0 + tmp3 in let tmp13 := tmp0 - tmp3 in
  let tmp11 := tmp1 + tmp2 in let tmp12 := tmp1 - tmp2 in
  let o0 := dc (tmp10 + tmp11) in
  let o4 := dc (tmp10 - tmp11) in
  let z1 := (tmp12 + tmp13) * f0541 k in
  let o2 := descale (z1 + tmp13 * f0765 k) s in
  let o6 := descale (z1 - tmp12 * f1847 k) s in
  let z1 := tmp4 + tmp7 in
  let z2 := tmp5 + tmp6 in
  let z3 := tmp4 + tmp6 in
  let z4 := tmp5 + tmp7 in
  let z5 := (z3 + z4) * f1175 k in
  let tmp4 := tmp4 * f0298 k in
  let tmp5 := tmp5 * f2053 k in
  let tmp6 := tmp6 * f3072 k in
  let tmp7 := tmp7 * f1501 k in
  let z1 := z1 * - f0899 k in
  let z2 := z2 * - f2562 k in
  let z3 := z3 * - f1961 k in
  let z4 := z4 * - f0390 k in
  let z3 := z3 + z5 in
  let z4 := z4 + z5 in
  let o7 := descale (tmp4 + z1 + z3) s in
  let o5 := descale (tmp5 + z2 + z4) s in
  let o3 := descale (tmp6 + z2 + z3) s in
  let o1 := descale (tmp7 + z1 + z4) s in
  (o0, o1, o2, o3, o4, o5, o6, o7).

Definition oct_of_list (l : list Z) : oct :=
  match l with
  | [a; b; c; d; e; f; g; h] => (a, b, c, d, e, f, g, h)
  | _ => (0, 0, 0, 0, 0, 0, 0, 0)
  end.
Definition list_of_oct (o : oct) : list Z :=
  let '(a, b, c, d, e, f, g, h) := o in [a; b; c; d; e; f; g; h].

Fixpoint rows8 (n : nat) (l : list Z) : list (list Z) :=
  match n with O => [] | S m => firstn 8 l :: rows8 m (skipn 8 l) end.

(* column j of a list of rows *)
Definition col (j : nat) (rows : list (list Z)) : list Z := map (fun r => nth j r 0) rows.
Definition transpose8 (rows : list (list Z)) : list (list Z) :=
  map (fun j => col j rows) [0; 1; 2; 3; 4; 5; 6; 7]%nat.

Definition fdct_2d (k : fixc) (centred : list Z) : list Z :=
  let p1 := p1bits k in
  let rows := map (fun r => list_of_oct (fdct_1d k (fun v => i32 (v * 2 ^ p1)) (cbits k - p1) (oct_of_list r)))
                  (rows8 8 centred) in
  let cols := map (fun c => list_of_oct (fdct_1d k (fun v => descale v p1) (cbits k + p1) (oct_of_list c)))
                  (transpose8 rows) in
  concat (transpose8 cols).

(* DCTISlow(input []byte, 8, coef): data = int32(input) - 128 *)
Definition dct_islow (block : list Z) : list Z :=
  fdct_2d ijg_consts (map (fun s => s - 128) block).

(* sequential12DCTISlow on transformed[i] = int32(value - 2048) *)
Definition dct_islow12 (block : list Z) : list Z :=
  fdct_2d seq12_consts (map (fun s => i32 (s - 2048)) block).

(* inverse 1-D butterfly (pre-descale sums); inputs are already dequantised *)
Definition idct_1d (k : fixc) (d : oct) : oct :=
  let '(i0, i1, i2, i3, i4, i5, i6, i7) := d in
  let z2 := i2 in let z3 := i6 in
  let z1 := (z2 + z3) * f0541 k in
  let tmp2 := z1 - z3 * f1847 k in
  let tmp3 := z1 + z2 * f0765 k in
  let tmp0 := (i0 + i4) * 2 ^ cbits k in
  let tmp1 := (i0 - i4) * 2 ^ cbits k in
  let tmp10 := tmp0 + tmp3 in let tmp13 := tmp0 - tmp3 in
  let tmp11 := tmp1 + tmp2 in let tmp12 := tmp1 - tmp2 in
  let tmp0 := i7 in let tmp1 := i5 in let tmp2 := i3 in let tmp3 := i1 in
  let z1 := tmp0 + tmp3 in
  let z2 := tmp1 + tmp2 in
  let z3 := tmp0 + tmp2 in
  let z4 := tmp1 + tmp3 in
  let z5 := (z3 + z4) * f1175 k in
  let tmp0 := tmp0 * f0298 k in
  let tmp1 := tmp1 * f2053 k in
  let tmp2 := tmp2 * f3072 k in
  let tmp3 := tmp3 * f1501 k in
  let z1 := z1 * - f0899 k in
  let z2 := z2 * - f2562 k in
  let z3 := z3 * - f1961 k in
  let z4 := z4 * - f0390 k in
  let z3 := z3 + z5 in
  let z4 := z4 + z5 in
  let tmp0 := tmp0 + (z1 + z3) in
  let tmp1 := tmp1 + (z2 + z4) in
  let tmp2 := tmp2 + (z2 + z3) in
  let tmp3 := tmp3 + (z1 + z4) in
  (tmp10 + tmp3, tmp11 + tmp2, tmp12 + tmp1, tmp13 + tmp0,
   tmp13 - tmp0, tmp12 - tmp1, tmp11 - tmp2, tmp10 - tmp3).

Definition oct_map (f : Z -> Z) (o : oct) : oct :=
  let '(a, b, c, d, e, f0, g, h) := o in (f a, f b, f c, f d, f e, f f0, f g, f h).

(* standard.Clamp(v, 0, 255) *)
Definition clamp (v lo hi : Z) : Z := if v <? lo then lo else if hi <? v then hi else v.

(* IDCTISlow(coef, qtable, out, 8): column pass into the workspace, then row pass *)
Definition idct_islow (coef qt : list Z) : list Z :=
  let k := ijg_consts in
  let deq := map (fun cq => fst cq * snd cq) (combine coef qt) in
  let cols := map (fun c => list_of_oct (oct_map (fun v => descale v (cbits k - p1bits k)) (idct_1d k (oct_of_list c))))
                  (transpose8 (rows8 8 deq)) in
  let rows := map (fun r => list_of_oct (oct_map (fun v => clamp (descale v (cbits k + p1bits k + 3) + 128) 0 255)
                                                  (idct_1d k (oct_of_list r))))
                  (transpose8 cols) in
  concat rows.
