(* idct_islow_accuracy: the coded integer IDCTISlow (dequantise, column pass, row pass, range
   limit) is within idct_di0 B of the clamped exact real IDCT whenever every dequantised
   coefficient has magnitude <= B <= 1173 (the int32 headroom of the row pass). *)
From Coq Require Import Reals Lra Lia List ZArith.
From V Require Import Common.Base JpegDCT.DctQuant JpegDCT.DctIslow JpegDCT.DctBound
  JpegDCT.DctProofsA JpegDCT.DctNumDefs JpegDCT.DctNumProofsI JpegDCT.DctNumProofsJ.
Import ListNotations.

(* ---------- integer kernel in functional form ---------- *)
Open Scope Z_scope.

Lemma oget_oct_map : forall g o n, (n < 8)%nat -> oget n (oct_map g o) = g (oget n o).
Proof.
  intros g [[[[[[[a b] c] d] e] f] h] i] n Hn. unfold oget.
  do 8 (destruct n as [|n]; [reflexivity|]). lia.
Qed.

Lemma p1_fun : forall deq (X : nat -> Z) y u, (forall k, nth k deq 0 = X k) -> (y < 8)%nat ->
  oget y (idct_p1 (octf (fun v => nth (8 * v + u) deq 0))) = idct_ws X y u.
Proof.
  intros deq X y u HX Hy. unfold idct_p1, idct_ws, idct_wsum.
  rewrite oget_oct_map, idct_1d_lin by assumption. unfold zsum8. rewrite !HX. reflexivity.
Qed.

Lemma idct_islow_fun : forall coef qt, length coef = 64%nat -> length qt = 64%nat ->
  forall y x, (y < 8)%nat -> (x < 8)%nat ->
  nth (8 * y + x) (idct_islow coef qt) 0 = idct_fun (fun k => nth k coef 0 * nth k qt 0) y x.
Proof.
  intros coef qt Hc Hq y x Hy Hx.
  rewrite idct_islow_two_pass, two_pass_nth; [| rewrite map_length, combine_length; lia | exact Hy | exact Hx].
  unfold idct_p2 at 1. rewrite oget_oct_map, idct_1d_lin by assumption.
  unfold idct_fun, idct_pre, idct_osum. do 3 f_equal. unfold zsum8.
  rewrite !(p1_fun _ (fun k => nth k coef 0 * nth k qt 0)); try assumption; try reflexivity;
    intros k; apply nth_deq; lia.
Qed.

(* ---------- int32 headroom and rounding of the two passes ---------- *)

Lemma rsum8_split : forall m a b : nat -> R,
  (rsum8 (fun u => m u * a u) = rsum8 (fun u => m u * (a u - b u)) + rsum8 (fun u => m u * b u))%R.
Proof. intros. unfold rsum8. ring. Qed.

Section Kernel.
  Variable X : nat -> Z.
  Variable B : Z.
  Hypothesis HB : 0 <= B <= 1173.
  Hypothesis HX : forall k, (k < 64)%nat -> Z.abs (X k) <= B.

  Lemma wsum_abs : forall y u, (y < 8)%nat -> (u < 8)%nat -> Z.abs (idct_wsum X y u) <= 61214 * B.
  Proof.
    intros y u Hy Hu. unfold idct_wsum. apply zlin_abs; [exact Hy|].
    intros k Hk. apply HX. lia.
  Qed.

  Lemma ws_round : forall y u, (y < 8)%nat -> (u < 8)%nat ->
    - 1024 <= 2048 * idct_ws X y u - idct_wsum X y u <= 1024.
  Proof.
    intros y u Hy Hu. pose proof (wsum_abs y u Hy Hu) as H.
    unfold idct_ws. apply (descale_round (idct_wsum X y u) 11); [lia|].
    change (2 ^ (11 - 1)) with 1024. change (2 ^ 31) with 2147483648. lia.
  Qed.

  Lemma ws_abs : forall y u, (y < 8)%nat -> (u < 8)%nat -> Z.abs (idct_ws X y u) <= 35061.
  Proof.
    intros y u Hy Hu. pose proof (wsum_abs y u Hy Hu). pose proof (ws_round y u Hy Hu). lia.
  Qed.

  Lemma osum_abs : forall y x, (y < 8)%nat -> (x < 8)%nat -> Z.abs (idct_osum X y x) <= 61214 * 35061.
  Proof.
    intros y x Hy Hx. unfold idct_osum. apply zlin_abs; [exact Hx|].
    intros k Hk. apply ws_abs; assumption.
  Qed.

  Lemma pre_round : forall y x, (y < 8)%nat -> (x < 8)%nat ->
    - 131072 <= 262144 * idct_pre X y x - idct_osum X y x <= 131072.
  Proof.
    intros y x Hy Hx. pose proof (osum_abs y x Hy Hx) as H.
    unfold idct_pre. apply (descale_round (idct_osum X y x) 18); [lia|].
    change (2 ^ (18 - 1)) with 131072. change (2 ^ 31) with 2147483648. lia.
  Qed.

  (* ---------- reals ---------- *)
  Open Scope R_scope.

  Let XR (k : nat) : R := IZR (X k).
  Let W (y u : nat) : R := rsum8 (fun v => A1 y v * XR (8 * v + u)%nat).

  Lemma XR_abs : forall k, (k < 64)%nat -> Rabs (XR k) <= IZR B.
  Proof. intros k Hk. unfold XR. rewrite <- abs_IZR. apply IZR_le. apply HX. exact Hk. Qed.

  Lemma IZR_wsum : forall y u, IZR (idct_wsum X y u) = rsum8 (fun v => IZR (Mz y v) * XR (8 * v + u)%nat).
  Proof. intros. unfold idct_wsum. rewrite IZR_zsum8. unfold rsum8, XR. rewrite !mult_IZR. reflexivity. Qed.

  Lemma IZR_osum : forall y x, IZR (idct_osum X y x) = rsum8 (fun u => IZR (Mz x u) * IZR (idct_ws X y u)).
  Proof. intros. unfold idct_osum. rewrite IZR_zsum8. unfold rsum8. rewrite !mult_IZR. reflexivity. Qed.

  Lemma B_nonneg : 0 <= IZR B.
  Proof. apply IZR_le. lia. Qed.

  Lemma W_abs : forall y u, (y < 8)%nat -> (u < 8)%nat -> Rabs (W y u) <= (sM + smu) * IZR B.
  Proof. intros y u Hy Hu. unfold W. apply lin1d_A_abs; [exact Hy|]. intros k Hk. apply XR_abs. lia. Qed.

  Lemma ws_err : forall y u, (y < 8)%nat -> (u < 8)%nat ->
    Rabs (IZR (idct_ws X y u) - W y u / 2048) <= 1 / 2 + smu * IZR B / 2048.
  Proof.
    intros y u Hy Hu.
    pose proof (ws_round y u Hy Hu) as [H1 H2]. apply IZR_le in H1. apply IZR_le in H2.
    rewrite minus_IZR, mult_IZR in H1, H2.
    assert (Hm : Rabs (IZR (idct_wsum X y u) - W y u) <= smu * IZR B).
    { rewrite IZR_wsum. unfold W. apply lin1d_mismatch; [exact Hy|]. intros k Hk. apply XR_abs. lia. }
    apply Rabs_le_iv in Hm. apply Rabs_le. lra.
  Qed.

  Lemma pre_err : forall y x, (y < 8)%nat -> (x < 8)%nat ->
    Rabs (IZR (idct_pre X y x) - exact_idct XR y x) <= idct_di0 B.
  Proof.
    intros y x Hy Hx.
    pose proof (pre_round y x Hy Hx) as [H1 H2]. apply IZR_le in H1. apply IZR_le in H2.
    rewrite minus_IZR, mult_IZR in H1, H2.
    assert (HT : rsum8 (fun u => A1 x u * (W y u / 2048)) = 2 ^ 18 * exact_idct XR y x)
      by exact (two_pass_exact XR y x).
    pose proof B_nonneg as HBn.
    (* row pass applied to the first-pass error *)
    assert (Ha : Rabs (rsum8 (fun u => IZR (Mz x u) * (IZR (idct_ws X y u) - W y u / 2048)))
                 <= sM * (1 / 2 + smu * IZR B / 2048)).
    { apply lin1d_M_abs; [exact Hx|]. intros k Hk. apply ws_err; assumption. }
    (* constant mismatch of the row pass on the exact first-pass values *)
    assert (Hb : Rabs (rsum8 (fun u => IZR (Mz x u) * (W y u / 2048)) - rsum8 (fun u => A1 x u * (W y u / 2048)))
                 <= smu * ((sM + smu) * IZR B / 2048)).
    { apply lin1d_mismatch; [exact Hx|]. intros k Hk.
      pose proof (W_abs y k Hy Hk) as Hw. apply Rabs_le_iv in Hw. apply Rabs_le. lra. }
    assert (Hsplit : IZR (idct_osum X y x) =
              rsum8 (fun u => IZR (Mz x u) * (IZR (idct_ws X y u) - W y u / 2048)) +
              rsum8 (fun u => IZR (Mz x u) * (W y u / 2048))).
    { rewrite IZR_osum.
      exact (rsum8_split (fun u => IZR (Mz x u)) (fun u => IZR (idct_ws X y u)) (fun u => W y u / 2048)). }
    apply Rabs_le_iv in Ha. apply Rabs_le_iv in Hb.
    unfold idct_di0, idct_rho, idct_kappa. unfold sM, smu in *.
    replace (2 ^ 18) with 262144 in HT by lra.
    replace (2 ^ 19) with 524288 by lra. replace (2 ^ 29) with 536870912 by lra.
    generalize dependent (rsum8 (fun u => IZR (Mz x u) * (IZR (idct_ws X y u) - W y u / 2048))).
    generalize dependent (rsum8 (fun u => IZR (Mz x u) * (W y u / 2048))).
    generalize dependent (rsum8 (fun u => A1 x u * (W y u / 2048))).
    generalize dependent (exact_idct XR y x).
    generalize dependent (IZR (idct_osum X y x)). generalize dependent (IZR (idct_pre X y x)).
    generalize dependent (IZR B).
    intros r HBn r0 r1 H1 H2 r2 r3 HT r4 Hb r5 Ha Hsplit.
    clear - HBn H1 H2 HT Hb Ha Hsplit. apply Rabs_le. lra.
  Qed.
End Kernel.
