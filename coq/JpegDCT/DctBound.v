(* Definitions for the C11 bound (not extracted: rationals and reals).
   The property's per-sample bound for a component with quantisation table Qt (natural
   order) is  B(Qt) = (1/8) * sum_{u,v} C(u) C(v) Qt[v*8+u] + 2 , C(0) = 1/sqrt 2, C(k) = 1. *)
From Coq Require Import QArith Qabs Reals Lra List ZArith.
Import ListNotations.

(* ----- generic linear core over Q: one term of sum_k G_k e_k ----- *)
Record qterm : Type := { tg : Q; te : Q; tw : Q; tq : Q }.

Definition qsum_ge (l : list qterm) : Q := fold_right (fun t acc => tg t * te t + acc)%Q 0%Q l.
Definition qsum_wq (l : list qterm) : Q := fold_right (fun t acc => tw t * tq t + acc)%Q 0%Q l.

(* ----- reals: weights and the exact 8x8 synthesis basis ----- *)
Open Scope R_scope.

Definition Cw (k : nat) : R := match k with O => / sqrt 2 | _ => 1 end.

(* weight of coefficient k = v*8+u *)
Definition wIdct (k : nat) : R := Cw (k mod 8) * Cw (k / 8) / 4.

(* exact inverse DCT basis: contribution of coefficient (u,v) to sample (x,y) *)
Definition basis (x y u v : nat) : R :=
  Cw u * Cw v / 4 * cos ((2 * INR x + 1) * INR u * PI / 16) * cos ((2 * INR y + 1) * INR v * PI / 16).

Definition rsum (l : list R) : R := fold_right Rplus 0 l.

(* (1/8) * sum C(u)C(v) Qt[k]  — the "worst-case effect of the table" *)
Definition tableBound (qt : list Z) : R :=
  rsum (map (fun kq => wIdct (fst kq) * IZR (snd kq)) (combine (seq 0 (length qt)) qt)) / 2.

Definition boundGrey (qt : list Z) : R := tableBound qt + 2.

(* RGB: propagate through |inverse colour matrix|, allowance 5 *)
Definition boundR (qy qcb qcr : list Z) : R := tableBound qy + 1.402 * tableBound qcr + 5.
Definition boundG (qy qcb qcr : list Z) : R := tableBound qy + 0.344136 * tableBound qcb + 0.714136 * tableBound qcr + 5.
Definition boundB (qy qcb qcr : list Z) : R := tableBound qy + 1.772 * tableBound qcb + 5.

(* one coefficient of the end-to-end argument:
   eg  synthesis weight G[p][k] of the exact inverse transform
   ew  bound on |eg|
   ec  exact (real) forward coefficient of the source block
   ecq coded forward coefficient (integer, scaled by 8 as DCTISlow leaves it)
   eq_ quantisation table entry *)
Record eterm : Type := { eg : R; ew : R; ec : R; ecq : Z; eq_ : Z }.

Definition clampR (z : R) : R := Rmax 0 (Rmin 255 z).
