(* pipe-HT: the hypothesis hyp_ht_block_sizes of PhtProofsMain.pht_roundtrip_partial discharged.
   Every code-block of the tile is inside the nominal code-block (area <= 4096, width a multiple of
   4, height a multiple of 2), its band's Kmax is in 1..30 (HtProofsLevels.kmax_consistent), and under
   hyp_kmax_fit its coefficients have at most Kmax magnitude bits; HtBlockProofsBytes.ht_block_bytes
   then bounds the cleanup segment HTEncoder.Encode returns by 22219 bytes (MagSgn <= 18140, MEL+VLC
   suffix <= 4079).  The other results of encodeCodeBlock ("minimal code-block on error": one byte;
   no passes: no data) are trivially small.  No non-zero-block assumption is needed. *)
From V Require Import Common.Base J2KGeo.GeoModel T2.T2Header T2.T2Packets
  HT.HtLevels HT.HtProofsLevels HT.HtBlockEnc HT.HtBlockProofsQuad HT.HtBlockProofsBytes
  Pipe.PipeModel Pipe.PipeProofsFront Pipe.PipeProofsGeo Pipe.PipeProofsBlock
  PipeHT.PhtModel PipeHT.PhtProofsBlock PipeHT.PhtProofsEnc PipeHT.PhtProofsMain
  PipeHT.PhtProofsKmax PipeHT.PhtProofsKmax1.
Require V.Pipe.PipeProofsMain V.PipeHT.PhtProofsCheck.

Module M := V.Pipe.PipeProofsMain.

(* the bound the proof gives *)
Definition pht_block_bytes_max : Z := 22219.

Definition pht_blocks_bounded (p : pparams) (B : Z) (coeffs : list (list Z)) : Prop :=
  forall d, In d coeffs -> forall r cb, In (r, cb) (enc_blocks p d) ->
  forall b, pht_enc_code_block p r cb (cb_cbx cb) (cb_cby cb) = Ok b -> zlen (eb_data b) <= B.

Lemma pht_band_kmax_range : forall p r band, 1 <= pp_prec p <= 16 -> 0 <= pp_levels p <= 6 -> rb_valid p r band ->
  1 <= pht_enc_band_numbps p r band <= 30.
Proof.
  intros p r band HP HL Hv.
  pose proof (ht_subband_index_valid p r band Hv) as Hidx.
  assert (Hres : -1 <= r <= 7) by (destruct Hv as [? _]; lia).
  assert (Hband : -1 <= band <= 4) by (destruct Hv as [_ [[_ ->]|[_ ?]]]; lia).
  destruct (kmax_consistent (pp_prec p) (pht_rct p) (pp_levels p) r band 1 HP HL Hres Hband ltac:(lia))
    as (_ & _ & Hc). specialize (Hc ltac:(lia)).
  destruct Hc as (_ & _ & Hkok & _).
  fold (pht_enc_band_numbps p r band) in Hkok.
  unfold ht_kmax_ok in Hkok. apply andb_prop in Hkok. destruct Hkok as [A B].
  apply Z.ltb_lt in A. apply Z.ltb_lt in B. lia.
Qed.

(* one code-block *)
Lemma pht_enc_code_block_bytes : forall p r cb cbx cby b,
  1 <= pp_prec p <= 16 -> 0 <= pp_levels p <= 6 -> pow2_size (pp_cbw p) -> pow2_size (pp_cbh p) -> pp_cbw p * pp_cbh p <= 4096 ->
  rb_valid p r (cb_band cb) -> 1 <= cb_w cb <= pp_cbw p -> 1 <= cb_h cb <= pp_cbh p ->
  good (pht_enc_band_numbps p r (cb_band cb)) (cb_data cb) ->
  pht_enc_code_block p r cb cbx cby = Ok b -> zlen (eb_data b) <= pht_block_bytes_max.
Proof.
  intros p r cb cbx cby b HP HL HCW HCH HCA Hv Hw Hh Hgood He.
  pose proof (pht_band_kmax_range p r (cb_band cb) HP HL Hv) as Hk.
  assert (Hm4 : pp_cbw p mod 4 = 0) by (destruct HCW as [->|[->|[->|[->| ->]]]]; reflexivity).
  assert (Hm2 : pp_cbh p mod 2 = 0) by (destruct HCH as [->|[->|[->|[->| ->]]]]; reflexivity).
  unfold pht_enc_code_block in He. cbv zeta in He.
  set (k := pht_enc_band_numbps p r (cb_band cb)) in *.
  destruct (Z.leb_spec k 0); [lia|].
  destruct (fst (ht_pass_layout (pht_cblk_numbps (cb_data cb)) k) =? 0).
  - injection He as <-. unfold mk_eblock. cbn [eb_data]. unfold pht_block_bytes_max. cbn. lia.
  - destruct (ht_block_encode (cb_w cb) (cb_h cb) k (cb_data cb)) as [bytes| | |] eqn:Ee; try discriminate.
    + injection He as <-. unfold mk_eblock. cbn [eb_data].
      apply (ht_block_bytes_validated (cb_w cb) (cb_h cb) (pp_cbw p) (pp_cbh p) k (cb_data cb) bytes); assumption.
    + injection He as <-. unfold mk_eblock. cbn [eb_data]. unfold pht_block_bytes_max. cbn. lia.
Qed.

Section Sizes.
Variable p : pparams.
Hypothesis Hsc : pp_scope p.

(* the blocks of one component *)
Lemma pht_comp_blocks_bounded : forall d, zlen d = pp_w p * pp_h p -> (forall v, In v d -> - 2 ^ 25 < v < 2 ^ 25) ->
  (forall r cb, In (r, cb) (enc_blocks p d) -> good (pht_enc_band_numbps p r (cb_band cb)) (cb_data cb)) ->
  forall r cb, In (r, cb) (enc_blocks p d) ->
  forall b, pht_enc_code_block p r cb (cb_cbx cb) (cb_cby cb) = Ok b -> zlen (eb_data b) <= pht_block_bytes_max.
Proof.
  intros d Hlen Hb Hfit r cb Hin b He.
  destruct (block_facts p Hsc d Hlen Hb r cb Hin) as (Hv & (_ & Hw1 & Hh1 & _) & _).
  destruct (in_enc_blocks p d r cb Hin) as [_ [bd [_ Hcb]]].
  destruct (cb_range p Hsc) as [Cw Ch].
  destruct (partition_wh_le _ _ (pp_cbw p) (pp_cbh p) cb ltac:(lia) ltac:(lia) Hcb) as [Wl Hl'].
  destruct (scope_parts p Hsc) as (HL & HCW & HCH & HCA).
  apply (pht_enc_code_block_bytes p r cb (cb_cbx cb) (cb_cby cb) b (HP p Hsc) HL HCW HCH HCA Hv); try lia; try assumption.
  apply Hfit. exact Hin.
Qed.

Theorem pht_planes_blocks_bounded : forall planes, planes_ok p (2 ^ pp_prec p) planes ->
  kmax_fit p (map (pipe_fdwt p) planes) -> pht_blocks_bounded p pht_block_bytes_max (map (pipe_fdwt p) planes).
Proof.
  intros planes Hplok Hkf d Hd r cb Hin b He.
  pose proof Hplok as [Hnp Hpl].
  pose proof (M.coeff_fit_sharp p Hsc planes Hplok) as Hcf.
  assert (Hlen : zlen d = pp_w p * pp_h p).
  { apply in_map_iff in Hd as [pl [<- Hpi]]. apply (M.fdwt_length p Hsc).
    rewrite Forall_forall in Hpl. apply (Hpl pl Hpi). }
  apply (pht_comp_blocks_bounded d Hlen (Hcf d Hd) (Hkf d Hd) r cb Hin b He).
Qed.

Theorem pht_block_sizes_bounded_section : forall samples, samples_ok p samples ->
  let pix := pack_image p samples in
  hyp_kmax_fit p pix ->
  forall coeffs, pipe_coeffs p pix = Ok coeffs -> pht_blocks_bounded p pht_block_bytes_max coeffs.
Proof.
  intros samples Hsm pix Hkf coeffs Ec.
  destruct (front_ok p samples Hsc Hsm) as [planes [Efront [Hplok _]]]. fold pix in Efront.
  assert (Ecoeffs : pipe_coeffs p pix = Ok (map (pipe_fdwt p) planes)) by (unfold pipe_coeffs; rewrite Efront; reflexivity).
  rewrite Ecoeffs in Ec. injection Ec as <-.
  apply (pht_planes_blocks_bounded planes Hplok). apply Hkf. exact Ecoeffs.
Qed.

End Sizes.

(* ---------- hyp_ht_block_sizes is a consequence of hyp_kmax_fit ---------- *)
Theorem pht_block_sizes_from_kmax_fit : forall p samples, pht_scope p -> samples_ok p samples ->
  hyp_kmax_fit p (pack_image p samples) -> hyp_ht_block_sizes p (pack_image p samples).
Proof.
  intros p samples [Hsc _] Hsm Hkf coeffs Ec d Hd r cb Hin b He.
  pose proof (pht_block_sizes_bounded_section p Hsc samples Hsm Hkf coeffs Ec d Hd r cb Hin b He) as H.
  unfold pht_block_bytes_max in H. lia.
Qed.

(* the sharper form: no HT code-block of the tile is longer than 22219 bytes *)
Theorem pht_block_sizes_22219 : forall p samples, pht_scope p -> samples_ok p samples ->
  hyp_kmax_fit p (pack_image p samples) ->
  forall coeffs, pipe_coeffs p (pack_image p samples) = Ok coeffs -> pht_blocks_bounded p 22219 coeffs.
Proof. intros p samples [Hsc _] Hsm Hkf. exact (pht_block_sizes_bounded_section p Hsc samples Hsm Hkf). Qed.

(* ---------- the frame-level theorem with two hypotheses ---------- *)
Theorem pht_roundtrip_two_hyps : forall p samples, pht_scope p -> samples_ok p samples ->
  let pix := pack_image p samples in
  hyp_kmax_fit p pix -> hyp_no_zero_block p pix ->
  exists tile, pht_encode_tile p pix = Ok tile /\ pht_decode_tile p tile = Ok pix.
Proof.
  intros p samples Hs Hsm pix Hkf Hnz.
  exact (pht_roundtrip_partial p samples Hs Hsm Hkf Hnz (pht_block_sizes_from_kmax_fit p samples Hs Hsm Hkf)).
Qed.

(* zero levels / one level (tile origin (0,0)): hyp_kmax_fit is a theorem there, so only
   hyp_no_zero_block remains *)
Theorem pht_block_sizes_levels0 : forall p samples, pht_scope p -> pp_levels p = 0 -> samples_ok p samples ->
  hyp_ht_block_sizes p (pack_image p samples).
Proof.
  intros p samples Hs HL0 Hsm.
  exact (pht_block_sizes_from_kmax_fit p samples Hs Hsm (pht_kmax_fit_levels0 p samples Hs HL0 Hsm)).
Qed.

Theorem pht_block_sizes_levels1 : forall p samples, pht_scope p -> pp_levels p = 1 -> pp_x0 p = 0 -> pp_y0 p = 0 ->
  samples_ok p samples -> hyp_ht_block_sizes p (pack_image p samples).
Proof.
  intros p samples Hs HL1 Hx0 Hy0 Hsm.
  exact (pht_block_sizes_from_kmax_fit p samples Hs Hsm (pht_kmax_fit_levels1 p samples Hs HL1 Hx0 Hy0 Hsm)).
Qed.

Theorem pht_roundtrip_one_hyp_levels0 : forall p samples, pht_scope p -> pp_levels p = 0 -> samples_ok p samples ->
  let pix := pack_image p samples in
  hyp_no_zero_block p pix ->
  exists tile, pht_encode_tile p pix = Ok tile /\ pht_decode_tile p tile = Ok pix.
Proof.
  intros p samples Hs HL0 Hsm pix Hnz.
  exact (pht_roundtrip_two_hyps p samples Hs Hsm (pht_kmax_fit_levels0 p samples Hs HL0 Hsm) Hnz).
Qed.

Theorem pht_roundtrip_one_hyp_levels1 : forall p samples, pht_scope p -> pp_levels p = 1 -> pp_x0 p = 0 -> pp_y0 p = 0 ->
  samples_ok p samples ->
  let pix := pack_image p samples in
  hyp_no_zero_block p pix ->
  exists tile, pht_encode_tile p pix = Ok tile /\ pht_decode_tile p tile = Ok pix.
Proof.
  intros p samples Hs HL1 Hx0 Hy0 Hsm pix Hnz.
  exact (pht_roundtrip_two_hyps p samples Hs Hsm (pht_kmax_fit_levels1 p samples Hs HL1 Hx0 Hy0 Hsm) Hnz).
Qed.

(* the two remaining hypotheses for a concrete image, by computation *)
Lemma two_hyps_by_computation : forall p pix,
  match pipe_coeffs p pix with
  | Ok coeffs => PhtProofsCheck.kmax_fit_b p coeffs && PhtProofsCheck.no_zero_block_b p coeffs
  | _ => false
  end = true ->
  hyp_kmax_fit p pix /\ hyp_no_zero_block p pix.
Proof.
  intros p pix H. destruct (pipe_coeffs p pix) as [coeffs| | |] eqn:Ec; try discriminate.
  apply andb_prop in H. destruct H as [H1 H2].
  split; intros c Ec'; rewrite Ec in Ec'; injection Ec' as <-.
  - apply PhtProofsCheck.kmax_fit_b_ok. exact H1.
  - apply PhtProofsCheck.no_zero_block_b_ok. exact H2.
Qed.
