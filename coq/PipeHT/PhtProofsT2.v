(* pipe, part 8: tier 2.  The geometry hypotheses G1..G4 of packets_deliver_fields discharged
   from the glue model (same precinct index sets, position keys, band order, grids), and what
   gatherCBData then holds for every code-block of every component. *)
From V Require Import Common.Base J2KGeo.GeoModel J2KGeo.GeoProofsBlocks T2.T2Header T2.T2Packets
  T2.T2ProofsHeader T2.T2ProofsHeader3 T2.T2ProofsPackets1 T2.T2ProofsPackets2 T2.T2ProofsPackets4 T2.T2ProofsPackets5 T2.T2ProofsGather
  Pipe.PipeModel Pipe.PipeProofsPgeom Pipe.PipeProofsFront Pipe.PipeProofsLists Pipe.PipeProofsStore Pipe.PipeProofsGeo
  Pipe.PipeProofsDecGeo Pipe.PipeProofsBlock Pipe.PipeCellRel PipeHT.PhtModel PipeHT.PhtProofsEnc PipeHT.PhtProofsCells
  Pipe.PipeGatherOnce.
Require V.T2.T2ProofsProg V.J2KGeo.GeoLayers V.HT.HtBlockProofsQuad.
Require Import Coq.Lists.List.

(* ---------- helpers ---------- *)

Lemma nodup_app_intro : forall {A} (a b : list A), NoDup a -> NoDup b -> (forall x, In x a -> ~ In x b) -> NoDup (a ++ b).
Proof.
  induction a as [|x a IH]; intros b Ha Hb Hd; cbn [app]; [exact Hb|].
  inversion Ha as [|? ? Hni Ha']; subst. constructor.
  - intros Hin. apply in_app_or in Hin as [Hin|Hin]; [contradiction|]. apply (Hd x (or_introl eq_refl) Hin).
  - apply IH; [exact Ha' | exact Hb|]. intros y Hy. apply Hd. right. exact Hy.
Qed.

Lemma nodup_flat_map_tag : forall {A B T} (tag : A -> T) (f : A -> list B) (l : list A),
  NoDup (map tag l) -> (forall x, In x l -> NoDup (f x)) ->
  (forall x y k, In x l -> In y l -> In k (f x) -> In k (f y) -> tag x = tag y) ->
  NoDup (flat_map f l).
Proof.
  intros A B T tag f l. induction l as [|a l IH]; intros Hnd Hf Hd; cbn [flat_map]; [constructor|].
  cbn [map] in Hnd. inversion Hnd as [|? ? Hni Hnd']; subst.
  apply nodup_app_intro.
  - apply Hf. left. reflexivity.
  - apply IH; [exact Hnd' | intros x Hx; apply Hf; right; exact Hx|].
    intros x y k Hx Hy. apply Hd; right; assumption.
  - intros k Hk Hk'. apply in_flat_map in Hk' as [y [Hy Hky]]. apply Hni.
    rewrite (Hd a y k (or_introl eq_refl) (or_intror Hy) Hk Hky). apply in_map. exact Hy.
Qed.

Lemma forall2_and : forall {A B} (R S : A -> B -> Prop) l l', Forall2 R l l' -> Forall2 S l l' -> Forall2 (fun a b => R a b /\ S a b) l l'.
Proof. intros A B R S l l' H. induction H; intros H2; inversion H2; subst; constructor; auto. Qed.

Lemma forall2_forall_l : forall {A B} (P : A -> Prop) (R : A -> B -> Prop) l l', Forall P l -> Forall2 R l l' -> Forall2 (fun a b => P a /\ R a b) l l'.
Proof. intros A B P R l l' HP H. induction H; inversion HP; subst; constructor; auto. Qed.

Lemma forall2_in_l : forall {A B} (R : A -> B -> Prop) l l' a, Forall2 R l l' -> In a l -> exists b, In b l' /\ R a b.
Proof.
  intros A B R l l' a H. induction H as [|x y l l' Hxy _ IH]; intros Hin; [destruct Hin|].
  destruct Hin as [->|Hin]; [exists y; split; [left; reflexivity | exact Hxy]|].
  destruct (IH Hin) as [b [Hb Hr]]. exists b. split; [right; exact Hb | exact Hr].
Qed.

Lemma forall2_in_r : forall {A B} (R : A -> B -> Prop) l l' b, Forall2 R l l' -> In b l' -> exists a, In a l /\ R a b.
Proof.
  intros A B R l l' b H. induction H as [|x y l l' Hxy _ IH]; intros Hin; [destruct Hin|].
  destruct Hin as [->|Hin]; [exists x; split; [left; reflexivity | exact Hxy]|].
  destruct (IH Hin) as [a [Ha Hr]]. exists a. split; [right; exact Ha | exact Hr].
Qed.

Lemma forall2_nth : forall {A B} (R : A -> B -> Prop) l l' j a, Forall2 R l l' -> nth_error l j = Some a ->
  exists b, nth_error l' j = Some b /\ R a b.
Proof.
  intros A B R l l' j a H. revert j. induction H as [|x y l l' Hxy _ IH]; intros j Hj; [destruct j; discriminate|].
  destruct j as [|j]; cbn [nth_error] in *; [injection Hj as <-; exists y; split; [reflexivity | exact Hxy] | apply IH; exact Hj].
Qed.

Lemma forall2_map_fst : forall {A B} (f : A -> B) l, Forall2 (fun a b => b = f a) l (map f l).
Proof. induction l; cbn [map]; constructor; auto. Qed.

(* every key is visited exactly once: the keys of the visiting sequence are distinct *)
Lemma visits_once_nodup : forall items,
  (forall it, In it items -> length (visits (item_key it) items) = 1%nat) -> NoDup (map item_key items).
Proof.
  induction items as [|it items IH]; intros H; cbn [map]; [constructor|].
  assert (Hvis : forall k, visits k (it :: items) = (if key3_eqb (item_key it) k then [item_layer it] else []) ++ visits k items) by reflexivity.
  pose proof (H it (or_introl eq_refl)) as H0. rewrite Hvis, key3_eqb_refl in H0. cbn [app length] in H0.
  assert (Hnone : visits (item_key it) items = []) by (destruct (visits (item_key it) items); [reflexivity | cbn in H0; lia]).
  assert (Hni : ~ In (item_key it) (map item_key items)).
  { intros Hin. apply in_map_iff in Hin as [it' [E Hit']].
    assert (Hne : visits (item_key it) items <> []).
    { unfold visits. intros E0. assert (Hin2 : In (item_layer it') (flat_map (fun it0 => if key3_eqb (item_key it0) (item_key it) then [item_layer it0] else []) items)).
      { apply in_flat_map. exists it'. split; [exact Hit'|]. rewrite E, key3_eqb_refl. left. reflexivity. }
      unfold visits in E0. rewrite E0 in Hin2. destruct Hin2. }
    contradiction. }
  constructor; [exact Hni|]. apply IH. intros it' Hit'.
  pose proof (H it' (or_intror Hit')) as H1. rewrite Hvis in H1.
  destruct (key3_eqb (item_key it) (item_key it')) eqn:Ek; [|exact H1].
  apply key3_eqb_eq in Ek. exfalso. apply Hni. rewrite Ek. apply in_map. exact Hit'.
Qed.

Section T2.
Variable p : pparams.
Hypothesis Hsc : pp_scope p.
Variable coeffs : list (list Z).
Hypothesis Hnc : length coeffs = Z.to_nat (pp_nc p).
Hypothesis Hlen : forall d, In d coeffs -> zlen d = pp_w p * pp_h p.
Hypothesis Hbound : forall d, In d coeffs -> forall v, In v d -> - 2 ^ 25 < v < 2 ^ 25.
Hypothesis Hfit : forall d, In d coeffs -> forall r cb, In (r, cb) (enc_blocks p d) ->
  HtBlockProofsQuad.good (pht_enc_band_numbps p r (cb_band cb)) (cb_data cb).
Hypothesis Hnz : forall d, In d coeffs -> forall r cb, In (r, cb) (enc_blocks p d) -> exists v, In v (cb_data cb) /\ v <> 0.
Hypothesis Hsmall : forall d, In d coeffs -> forall r cb, In (r, cb) (enc_blocks p d) -> zlen (eb_data (hblk p r cb)) <= 65535.
Variable cells : ecells.
Hypothesis Ecells : pht_cells p coeffs = Ok cells.

Let L := pp_levels p.
Let nc := pp_nc p.
Let cf := coef coeffs.

Lemma cf_in : forall c, 0 <= c < nc -> In (cf c) coeffs.
Proof. intros c Hc. apply (coef_in p coeffs Hnc c Hc). Qed.

(* the facts about the store (pht_cells is a function: the witness of pht_cells_spec is cells) *)
Lemma cells_facts : cells_norm cells /\ keys0 cells /\
  (forall c r, 0 <= c < nc -> 0 <= r <= L -> cget cells (c, r, 0) = map bs_eband (res_specs p (cf c) r)) /\
  (forall c r pi, ~ (0 <= c < nc /\ 0 <= r <= L /\ pi = 0) -> cget cells (c, r, pi) = []).
Proof.
  destruct (pht_cells_spec p Hsc coeffs Hnc Hlen Hbound Hfit Hnz) as [cells2 [E F]].
  rewrite Ecells in E. injection E as <-. exact F.
Qed.

(* blocks of a cell, in header order *)
Lemma specs_blocks : forall d r, flat_map bs_blocks (res_specs p d r) = map (hblk p r) (enc_blocks_res p d r).
Proof.
  intros d r. unfold res_specs. rewrite flat_map_flat_map', enc_blocks_res_bands, map_flat_map.
  apply flat_map_ext. intros b. unfold band_spec. destruct (band_blocks p d b) as [|c0 bl] eqn:Eb; [reflexivity|].
  rewrite <- Eb. cbn [flat_map bs_blocks snd]. apply app_nil_r.
Qed.

Lemma specs_nil_iff : forall d r, 0 <= r <= L -> res_specs p d r = [] <-> NEr p d r = [].
Proof.
  intros d r Hr. split; intros H.
  - assert (E : map snd (NEr p d r) = []).
    { rewrite (NEr_blocks p d r Hr). pose proof (specs_blocks d r) as S. rewrite H in S. cbn [flat_map] in S.
      destruct (enc_blocks_res p d r); [reflexivity | discriminate]. }
    destruct (NEr p d r); [reflexivity | discriminate].
  - assert (E : enc_blocks_res p d r = []).
    { pose proof (NEr_blocks p d r Hr) as S. rewrite H in S. cbn [map] in S. destruct (enc_blocks_res p d r); [reflexivity | discriminate]. }
    rewrite enc_blocks_res_bands in E. unfold res_specs. apply flat_map_all_nil. intros b Hb.
    unfold band_spec. destruct (band_blocks p d b) as [|c0 bl] eqn:Eb; [reflexivity|]. exfalso.
    assert (Hin : In c0 (flat_map (band_blocks p d) (rbands p r))) by (apply in_flat_map; exists b; split; [exact Hb | rewrite Eb; left; reflexivity]).
    rewrite E in Hin. destruct Hin.
Qed.

Lemma aget_cells : forall c r, 0 <= c < nc -> 0 <= r <= L ->
  aget key3_eqb cells (c, r, 0) = match res_specs p (cf c) r with [] => None | _ => Some (map bs_eband (res_specs p (cf c) r)) end.
Proof.
  intros c r Hc Hr. destruct cells_facts as [Hn [_ [Hg _]]]. rewrite (Hn (c, r, 0)), (Hg c r Hc Hr).
  destruct (res_specs p (cf c) r); reflexivity.
Qed.

Lemma dec_pidx_res_out : forall c r, ~ (0 <= r <= L) -> dec_pidx p c r = [].
Proof.
  intros c r Hr. unfold dec_pidx. destruct ((c <? 0) || (c >=? pp_nc p)); [reflexivity|].
  rewrite (comp_entries_blocks p Hsc []), filter_map_comm.
  rewrite (filter_none _ (NE p [])); [reflexivity|].
  intros [i [r' cb]] Hin. cbn [entry_of ce_res fst snd]. apply Z.eqb_neq. intros ->. apply Hr.
  unfold NE in Hin. apply znumber_in in Hin as [_ Hn]. apply nth_error_In in Hn.
  unfold enc_blocks in Hn. apply in_flat_map in Hn as [r2 [Hr2 Hn]]. apply GeoProofsBlocks.in_zrange in Hr2.
  apply in_map_iff in Hn as [c0 [E0 _]]. injection E0 as -> _. fold L in Hr2. lia.
Qed.

(* G2: sortedPrecincts = precinctIndicesForResolution *)
Lemma G2_pidx : forall c r, enc_pidx cells c r = dec_pidx p c r.
Proof.
  intros c r. destruct cells_facts as [Hn [Hk [Hg Ho]]]. rewrite (enc_pidx_keys0 cells c r Hk).
  destruct (Z_le_gt_dec 0 c) as [Hc0|Hc0]; [destruct (Z_lt_ge_dec c nc) as [Hc1|Hc1]|].
  - destruct (Z_le_gt_dec 0 r) as [Hr0|Hr0]; [destruct (Z_le_gt_dec r L) as [Hr1|Hr1]|].
    + rewrite (aget_cells c r ltac:(lia) ltac:(lia)), (dec_pidx_spec p Hsc (cf c) c r ltac:(fold nc; lia) ltac:(fold L; lia)).
      pose proof (specs_nil_iff (cf c) r ltac:(lia)) as Hiff.
      destruct (res_specs p (cf c) r) eqn:Es; destruct (NEr p (cf c) r) eqn:En; try reflexivity.
      * exfalso. assert (A : p0 :: l = []) by (apply Hiff; reflexivity). discriminate.
      * exfalso. assert (A : b :: l = []) by (apply Hiff; reflexivity). discriminate.
    + rewrite (Hn (c, r, 0)), (Ho c r 0) by lia. rewrite dec_pidx_res_out by (fold L; lia). reflexivity.
    + rewrite (Hn (c, r, 0)), (Ho c r 0) by lia. rewrite dec_pidx_res_out by (fold L; lia). reflexivity.
  - rewrite (Hn (c, r, 0)), (Ho c r 0) by lia. rewrite dec_pidx_out by (fold nc; lia). reflexivity.
  - rewrite (Hn (c, r, 0)), (Ho c r 0) by lia. rewrite dec_pidx_out by (fold nc; lia). reflexivity.
Qed.

Lemma pidx_shape : forall c r, dec_pidx p c r = [] \/ dec_pidx p c r = [0].
Proof.
  intros c r. rewrite <- G2_pidx. destruct cells_facts as [_ [Hk _]]. rewrite (enc_pidx_keys0 cells c r Hk).
  destruct (aget key3_eqb cells (c, r, 0)); auto.
Qed.

Lemma G2'_nodup : forall c r, NoDup (dec_pidx p c r).
Proof. intros c r. destruct (pidx_shape c r) as [-> | ->]; repeat constructor. intros []. Qed.

(* G3: every precinct index has a position key (one precinct per resolution) *)
Lemma G3_keys : T2ProofsProg.pk_ok (L + 1) nc (dec_pidx p) (precinct_position_key (pipe_pgeom_dec p) (L + 1)).
Proof. apply (pk_ok_dec p Hsc). apply pidx_shape. Qed.

(* the encoder's tile-local bounds give the same packet sequence as the decoder's bounds *)
Lemma enc_geom_G3_keys : forall nl', enc_packets (pp_order p) nl' (L + 1) nc (pipe_pgeom p) cells =
  enc_packets (pp_order p) nl' (L + 1) nc (pipe_pgeom_dec p) cells.
Proof. intros nl'. apply (enc_packets_geom p Hsc). intros c r. rewrite G2_pidx. apply pidx_shape. Qed.

(* G4: every cell is related to the decoder's fresh state *)
Lemma G4_cells : forall k, In k (T2ProofsProg.cell_keys (L + 1) nc (dec_pidx p)) ->
  CellRel false 1 (dec_geo p) 0 k cells [].
Proof.
  intros [[c r] pi] Hk. apply (T2ProofsProg.in_cell_keys 1 (L + 1) nc (dec_pidx p) (fun _ _ _ => None)) in Hk as (Hc & Hr & Hpi).
  assert (Hpidx : dec_pidx p c r = [0]) by (destruct (pidx_shape c r) as [E|E]; [rewrite E in Hpi; destruct Hpi | exact E]).
  rewrite Hpidx in Hpi. destruct Hpi as [<-|[]].
  assert (Hr' : 0 <= r <= L) by lia.
  set (d := cf c). assert (Hd : In d coeffs) by (apply cf_in; exact Hc).
  assert (Hne : res_specs p d r <> []).
  { intros E. apply (specs_nil_iff d r Hr') in E. rewrite (dec_pidx_spec p Hsc d c r ltac:(fold nc; lia) ltac:(fold L; lia)), E in Hpidx. discriminate. }
  apply (cellrel_fresh (dec_geo p) cells c r (res_specs p d r) Hne).
  - apply (res_specs_ids p d r). fold L. exact Hr'.
  - apply (res_specs_ok p Hsc d (Hlen d Hd) (Hbound d Hd) (Hfit d Hd) (Hnz d Hd) (Hsmall d Hd) r). fold L. exact Hr'.
  - rewrite (aget_cells c r Hc Hr'). fold d. destruct (res_specs p d r); [congruence | reflexivity].
  - intros band Hband. destruct (band_of_id p r band Hband) as [b [Hb <-]].
    rewrite (dec_geo_spec p Hsc d c r b ltac:(fold nc; lia) ltac:(fold L; lia) Hb).
    rewrite (res_specs_find p d r b ltac:(fold L; lia) Hb).
    destruct (bgrid p b) eqn:Eg; [reflexivity|]. rewrite <- Eg. reflexivity.
Qed.

(* ---------- what one packet carries ---------- *)

Lemma fresh_contrib : forall r cb c, 0 <= c < nc -> In (r, cb) (enc_blocks p (cf c)) ->
  let b := hblk p r cb in
  b_inc b 0 = true /\ b_np b 0 = eb_npt b /\ b_data b 0 = eb_data b /\ expect_pls false b 0 = [].
Proof.
  intros r cb c Hc Hin b. pose proof (cf_in c Hc) as Hd.
  destruct (hblk_fields p Hsc (cf c) (Hlen _ Hd) (Hbound _ Hd) (Hfit _ Hd) (Hnz _ Hd) r cb Hin) as (_ & _ & _ & _ & _ & F6 & F7 & _ & _ & _ & F11 & _).
  fold b in F6, F7, F11.
  unfold b_inc, b_np, b_data, contrib, GeoLayers.layer_contribution. rewrite F6. cbn [fst snd].
  split; [apply Z.gtb_lt; lia|]. repeat split; reflexivity.
Qed.

Lemma cell_blocks : forall c r, 0 <= c < nc -> 0 <= r <= L ->
  flat_map ebn_blocks (map bs_eband (res_specs p (cf c) r)) = map (hblk p r) (enc_blocks_res p (cf c) r).
Proof.
  intros c r Hc Hr. rewrite flat_map_map. rewrite <- specs_blocks. reflexivity.
Qed.

Lemma cell_exp_e : forall c r, 0 <= c < nc -> 0 <= r <= L ->
  exp_e 0 (map bs_eband (res_specs p (cf c) r)) =
  map (fun cb => expect_eincl (hblk p r cb) 0) (enc_blocks_res p (cf c) r).
Proof.
  intros c r Hc Hr. unfold exp_e.
  rewrite <- (map_map (hblk p r) (fun b => expect_eincl b 0)), <- (cell_blocks c r Hc Hr).
  rewrite map_flat_map. reflexivity.
Qed.

Lemma in_NE_blocks : forall d i r cb, In (i, (r, cb)) (NE p d) -> In (r, cb) (enc_blocks p d) /\ 0 <= r <= L.
Proof.
  intros d i r cb Hin. unfold NE in Hin. apply znumber_in in Hin as [_ Hn]. apply nth_error_In in Hn.
  split; [exact Hn|]. destruct (in_enc_blocks p d r cb Hn) as [Hr _]. exact Hr.
Qed.

Lemma NEr_fst_nodup : forall d r, NoDup (map fst (NEr p d r)).
Proof.
  intros d r. unfold NEr, NE. generalize (znumber_fst_nodup (enc_blocks p d) 0). generalize (znumber 0 (enc_blocks p d)).
  induction l as [|x l IH]; intros Hnd; cbn [filter map]; [constructor|]. cbn [map] in Hnd. inversion Hnd as [|? ? Hni Hnd']; subst.
  destruct (fst (snd x) =? r); [|apply IH; exact Hnd']. cbn [map]. constructor; [|apply IH; exact Hnd'].
  intros Hin. apply Hni. apply in_map_iff in Hin as [y [E Hy]]. apply filter_In in Hy as [Hy _]. rewrite <- E. apply in_map. exact Hy.
Qed.

(* ---------- the delivery theorem ---------- *)

Theorem t2_delivers : forall eps cells',
  0 <= pp_order p <= 4 ->
  enc_packets (pp_order p) 1 (L + 1) nc (pipe_pgeom p) cells = Ok (eps, cells') -> small_packets eps ->
  exists dps,
    dec_packets (packets_bytes eps) (pp_order p) 1 (L + 1) nc (pipe_pgeom_dec p) (dec_pidx p) (dec_geo p) 0 false false = Ok dps /\
    forall c, 0 <= c < nc -> forall i r cb, In (i, (r, cb)) (NE p (cf c)) ->
      exists ci, aget key2_eqb (gather c (dec_order p) [] dps) (r, i) = Some ci /\ delivers (hblk p r cb) ci.
Proof.
  intros eps cells' Hord He Hsm. rewrite enc_geom_G3_keys in He.
  destruct (packets_deliver_fields false 0 1 (L + 1) nc (pp_order p) (pipe_pgeom_dec p) (dec_pidx p) (dec_geo p) false false cells
              eq_refl G2_pidx G2'_nodup (fun _ => G3_keys) G4_cells Hord ltac:(lia) eps cells' He Hsm)
    as [dps [items [Ed [Eseq [[Hkeys Hvis] [Hitems [HM [Hok HF]]]]]]]].
  exists dps. split; [exact Ed|].
  (* bodies *)
  assert (Hbody : Forall (fun ep => ep_body ep = packet_body (ep_incls ep)) eps).
  { unfold enc_packets in He. destruct (prog_seq _ _ _ _ _ _) as [its|]; [|discriminate]. apply (enc_items_body its cells eps cells' He). }
  (* everything known about a matched pair *)
  set (R := fun ep dp => (incls_ok cells ep /\ ep_body ep = packet_body (ep_incls ep)) /\ PktMatch ep dp /\ PktFields false cells ep dp).
  assert (HR : Forall2 R eps dps).
  { unfold R. apply forall2_forall_l.
    - clear - Hok Hbody. induction Hok; inversion Hbody; subst; constructor; auto.
    - apply forall2_and; assumption. }
  (* the items: in range, layer 0, distinct cells *)
  assert (Hit : forall it, In it items -> exists r c, it = (0, r, c, 0) /\ 0 <= c < nc /\ 0 <= r <= L /\ dec_pidx p c r = [0]).
  { intros [[[l r] c] pi] Hin. pose proof (Hkeys _ Hin) as Hk. cbn [item_key] in Hk.
    pose proof Hk as Hk2. apply (T2ProofsProg.in_cell_keys 1 (L + 1) nc (dec_pidx p) (fun _ _ _ => None)) in Hk2 as (Hc & Hr & Hpi).
    assert (Hpidx : dec_pidx p c r = [0]) by (destruct (pidx_shape c r) as [E|E]; [rewrite E in Hpi; destruct Hpi | exact E]).
    rewrite Hpidx in Hpi. destruct Hpi as [<-|[]].
    assert (Hl : In l (visits (c, r, 0) items)).
    { unfold visits. apply in_flat_map. exists (l, r, c, 0). split; [exact Hin|]. cbn [item_key item_layer]. rewrite key3_eqb_refl. left. reflexivity. }
    rewrite (Hvis _ Hk) in Hl. unfold layers_from in Hl. change (zseq (1 - 0)) with [0] in Hl. cbn [map] in Hl. destruct Hl as [<-|[]].
    exists r, c. repeat split; try lia. exact Hpidx. }
  assert (Hnd : NoDup (map item_key items)).
  { apply visits_once_nodup. intros it Hin. rewrite (Hvis _ (Hkeys _ Hin)). reflexivity. }
  assert (Hdpi : map dp_item dps = items).
  { rewrite <- Hitems. clear - HM. induction HM as [|ep dp eps dps [E _] _ IH]; [reflexivity|]. cbn [map]. rewrite E, IH. reflexivity. }
  intros c Hc.
  pose proof (cf_in c Hc) as Hd.
  (* per packet of this component *)
  assert (Hpk : forall dp r, In dp dps -> dp_item dp = (0, r, c, 0) ->
            0 <= r <= L /\ dec_order p r 0 = Some (map fst (NEr p (cf c) r)) /\ dp_wf dp /\
            Forall2 (fun (cb : cblock) (t : trip) =>
                       body_match (expect_eincl (hblk p r cb) 0) t /\
                       (di_included (fst (fst t)) = true -> di_zbp (fst (fst t)) = eb_zbp (hblk p r cb) /\
                          di_pl (fst (fst t)) = expect_pls false (hblk p r cb) 0))
                    (enc_blocks_res p (cf c) r) (dp_incls dp)).
  { intros dp r Hdp Eit.
    destruct (forall2_in_r R eps dps dp HR Hdp) as [ep [Hep [[[bands0 [Hget Hinc]] Hb] [HPM [bands1 [Hget1 Hfld]]]]]].
    pose proof HPM as [Eitem [Hbm Ebody]]. rewrite Eit in Eitem.
    assert (Hin_it : In (0, r, c, 0) items) by (rewrite <- Hdpi; rewrite <- Eit; apply in_map; exact Hdp).
    destruct (Hit _ Hin_it) as [r' [c' [E0 [_ [Hr Hpidx]]]]]. injection E0 as <- <-.
    rewrite <- Eitem in Hget, Hget1, Hinc, Hfld. cbn [item_key item_layer] in Hget, Hget1, Hinc, Hfld.
    rewrite (aget_cells c r Hc Hr) in Hget, Hget1.
    assert (Hne : NEr p (cf c) r <> []).
    { intros E. rewrite (dec_pidx_spec p Hsc (cf c) c r ltac:(fold nc; lia) ltac:(fold L; lia)), E in Hpidx. discriminate. }
    assert (Hsn : res_specs p (cf c) r <> []) by (intros E; apply Hne; apply (specs_nil_iff (cf c) r Hr); exact E).
    destruct (res_specs p (cf c) r) as [|s0 sl] eqn:Es; [congruence|]. rewrite <- Es in *. clear Hsn.
    injection Hget as <-. injection Hget1 as <-.
    rewrite (cell_exp_e c r Hc Hr) in Hinc. rewrite (cell_blocks c r Hc Hr) in Hfld.
    split; [exact Hr|]. split.
    { rewrite (dec_order_spec p Hsc (cf c) r ltac:(fold L; lia)). destruct (NEr p (cf c) r); [congruence | reflexivity]. }
    split.
    { apply (pktmatch_wf ep dp HPM Hb). }
    (* the entries *)
    rewrite Hinc in Hbm.
    clear - Hbm Hfld. revert Hbm Hfld. generalize (dp_incls dp) as ts. generalize (enc_blocks_res p (cf c) r) as bl.
    induction bl as [|cb bl IH]; intros ts Hbm Hfld; cbn [map] in Hbm, Hfld; inversion Hbm; subst; [constructor|].
    inversion Hfld; subst. constructor; [|apply IH; assumption].
    split; [assumption|]. intros Hi. match goal with H : di_included _ = true -> _ |- _ => destruct (H Hi) as [A [B _]] end. split; assumption. }
  (* gather_once *)
  destruct (gather_once c (dec_order p) dps []) as [Hgo _].
  - (* pkt_full *)
    apply Forall_forall. intros dp Hdp. unfold pkt_full.
    assert (Hin_it : In (dp_item dp) items) by (rewrite <- Hdpi; apply in_map; exact Hdp).
    destruct (Hit _ Hin_it) as [r [c' [Eit [Hc' [Hr Hpidx]]]]]. rewrite Eit. intros ->.
    destruct (Hpk dp r Hdp Eit) as [_ [Ho [Hwf Hf2]]].
    exists (map fst (NEr p (cf c) r)). split; [exact Ho|]. split.
    + transitivity (length (enc_blocks_res p (cf c) r)); [|exact (forall2_len _ _ _ Hf2)].
      rewrite map_length. rewrite <- (map_length snd (NEr p (cf c) r)), (NEr_blocks p (cf c) r Hr), map_length. reflexivity.
    + split; [|exact Hwf].
      assert (G : forall bl ts, (forall cb, In cb bl -> In (r, cb) (enc_blocks p (cf c))) ->
                Forall2 (fun (cb : cblock) (t : trip) =>
                       body_match (expect_eincl (hblk p r cb) 0) t /\
                       (di_included (fst (fst t)) = true -> di_zbp (fst (fst t)) = eb_zbp (hblk p r cb) /\
                          di_pl (fst (fst t)) = expect_pls false (hblk p r cb) 0)) bl ts -> Forall (fun t => t_inc t = true) ts).
      { induction bl as [|cb bl IH]; intros ts Hbl H; inversion H; subst; constructor.
        - match goal with H1 : body_match _ _ /\ _ |- _ => destruct H1 as [[A _] _] end.
          destruct (fresh_contrib r cb c Hc (Hbl cb (or_introl eq_refl))) as [Hi _]. cbv zeta in Hi.
          unfold t_inc. rewrite A. unfold expect_eincl. rewrite Hi. reflexivity.
        - apply IH; [intros cb' Hcb'; apply Hbl; right; exact Hcb' | assumption]. }
      apply (G (enc_blocks_res p (cf c) r) (dp_incls dp)); [|exact Hf2].
      intros cb Hcb. unfold enc_blocks. apply in_flat_map. exists r. split; [apply in_zrange; fold L; lia | apply in_map; exact Hcb].
  - (* distinct keys *)
    apply (nodup_flat_map_tag (fun dp => item_key (dp_item dp))).
    + rewrite <- (map_map dp_item item_key), Hdpi. exact Hnd.
    + intros dp Hdp.
      assert (Hin_it : In (dp_item dp) items) by (rewrite <- Hdpi; apply in_map; exact Hdp).
      destruct (Hit _ Hin_it) as [r [c' [Eit [Hc' [Hr _]]]]]. unfold pkt_keys. rewrite Eit.
      destruct (Z.eqb_spec c' c) as [->|Hne]; [|constructor].
      destruct (Hpk dp r Hdp Eit) as [_ [Ho _]]. rewrite Ho.
      pose proof (NEr_fst_nodup (cf c) r) as Hn. revert Hn. generalize (map fst (NEr p (cf c) r)) as ord.
      induction ord as [|g ord IHo]; intros Hn; cbn [map]; [constructor|]. inversion Hn as [|? ? Hni Hn']; subst.
      constructor; [|apply IHo; exact Hn']. intros Hin. apply Hni. apply in_map_iff in Hin as [g' [E Hg']]. injection E as <-. exact Hg'.
    + intros x y k Hx Hy Hkx Hky.
      assert (Hix : In (dp_item x) items) by (rewrite <- Hdpi; apply in_map; exact Hx).
      assert (Hiy : In (dp_item y) items) by (rewrite <- Hdpi; apply in_map; exact Hy).
      destruct (Hit _ Hix) as [rx [cx [Ex _]]]. destruct (Hit _ Hiy) as [ry [cy [Ey _]]].
      unfold pkt_keys in Hkx, Hky. rewrite Ex in Hkx. rewrite Ey in Hky. rewrite Ex, Ey. cbn [item_key].
      destruct (Z.eqb_spec cx c) as [Ecx|]; [|destruct Hkx]. destruct (Z.eqb_spec cy c) as [Ecy|]; [|destruct Hky]. rewrite Ecx, Ecy.
      destruct (dec_order p rx 0); [|destruct Hkx]. destruct (dec_order p ry 0); [|destruct Hky].
      apply in_map_iff in Hkx as [gx [<- _]]. apply in_map_iff in Hky as [gy [E _]]. injection E as -> _. reflexivity.
  - intros k Hk. reflexivity.
  - (* the block *)
    intros i r cb Hin. destruct (in_NE_blocks (cf c) i r cb Hin) as [Hin_b Hr].
    assert (HinR : In (i, (r, cb)) (NEr p (cf c) r)).
    { unfold NEr. apply filter_In. split; [exact Hin|]. cbn [fst snd]. apply Z.eqb_refl. }
    apply In_nth_error in HinR as [j Hj].
    assert (Hne : NEr p (cf c) r <> []) by (intros E; rewrite E in Hj; destruct j; discriminate).
    assert (Hpidx : dec_pidx p c r = [0]).
    { rewrite (dec_pidx_spec p Hsc (cf c) c r ltac:(fold nc; lia) ltac:(fold L; lia)). destruct (NEr p (cf c) r); [congruence | reflexivity]. }
    assert (Hkey : In (c, r, 0) (T2ProofsProg.cell_keys (L + 1) nc (dec_pidx p))).
    { apply (T2ProofsProg.in_cell_keys 1 (L + 1) nc (dec_pidx p) (fun _ _ _ => None)). split; [lia|]. split; [lia|]. rewrite Hpidx. left. reflexivity. }
    (* the packet of this cell *)
    assert (Hex : exists it, In it items /\ item_key it = (c, r, 0)).
    { pose proof (Hvis _ Hkey) as Hv. unfold layers_from in Hv. change (zseq (1 - 0)) with [0] in Hv. cbn [map] in Hv.
      assert (Hl : In (0 + 0) (visits (c, r, 0) items)) by (rewrite Hv; left; reflexivity).
      unfold visits in Hl. apply in_flat_map in Hl as [it [Hit_in Hl]]. exists it. split; [exact Hit_in|].
      destruct (key3_eqb (item_key it) (c, r, 0)) eqn:Ek; [apply key3_eqb_eq; exact Ek | destruct Hl]. }
    destruct Hex as [it [Hit_in Hit_key]].
    destruct (Hit _ Hit_in) as [r' [c' [Eit _]]]. subst it. cbn [item_key] in Hit_key. injection Hit_key as -> ->.
    rewrite <- Hdpi in Hit_in. apply in_map_iff in Hit_in as [dp [Eit Hdp]].
    destruct (Hpk dp r Hdp Eit) as [_ [Ho [_ Hf2]]].
    (* entry j *)
    assert (Hcb : nth_error (enc_blocks_res p (cf c) r) j = Some cb).
    { pose proof (NEr_blocks p (cf c) r Hr) as Hs.
      assert (E1 : nth_error (map snd (NEr p (cf c) r)) j = Some (r, cb)) by (rewrite nth_error_map, Hj; reflexivity).
      rewrite Hs, nth_error_map in E1. destruct (nth_error (enc_blocks_res p (cf c) r) j); [|discriminate]. cbn [option_map] in E1. congruence. }
    destruct (forall2_nth _ _ _ j cb Hf2 Hcb) as [t [Ht [Hbm Hfl]]].
    specialize (Hgo dp 0 r 0 (map fst (NEr p (cf c) r)) j t Hdp Eit Ho Ht).
    assert (Enth : nth j (map fst (NEr p (cf c) r)) 0 = i).
    { rewrite (nth_error_nth (map fst (NEr p (cf c) r)) j 0 (x := i)); [reflexivity|]. rewrite nth_error_map, Hj. reflexivity. }
    rewrite Enth in Hgo. eexists. split; [exact Hgo|].
    destruct (fresh_contrib r cb c Hc Hin_b) as [Hi [Hnp [Hdata Hpls]]]. cbv zeta in Hi, Hnp, Hdata, Hpls.
    pose proof (cf_in c Hc) as Hd2.
    destruct (hblk_fields p Hsc (cf c) (Hlen _ Hd2) (Hbound _ Hd2) (Hfit _ Hd2) (Hnz _ Hd2) r cb Hin_b) as (_ & _ & _ & _ & Fz & _).
    destruct Hbm as [B1 [B2 _]]. unfold expect_eincl in B1, B2. rewrite Hi in B1, B2. cbn [ei_included ei_np ei_data] in B1, B2.
    destruct (B2 eq_refl) as [Bnp [_ Bdata]]. destruct (Hfl B1) as [Fzb Fpl].
    unfold delivers, ci_of, t_data. cbn [ci_data ci_passes ci_zbp ci_zbpset ci_pl].
    rewrite Bdata, Bnp, Fzb, Fpl, Hpls, Hnp, Hdata.
    destruct (Z.leb_spec 0 (eb_zbp (hblk p r cb))); [|lia]. repeat split; reflexivity.
Qed.

(* no contribution exceeds 65535 bytes when no code-block does *)
Lemma small_from_blocks : forall eps, Forall (incls_ok cells) eps -> small_packets eps.
Proof.
  intros eps Hok. unfold small_packets. eapply Forall_impl; [|exact Hok]. intros ep [bands0 [Hget Hinc]].
  destruct (item_key (ep_item ep)) as [[c r] pi] eqn:Ek.
  destruct cells_facts as [Hn [_ [Hg Ho]]].
  assert (Hcg : cget cells (c, r, pi) = bands0) by (unfold cget; rewrite Hget; reflexivity).
  assert (Hne : bands0 <> []).
  { intros ->. rewrite (Hn (c, r, pi)), Hcg in Hget. discriminate. }
  destruct (Z_le_gt_dec 0 c) as [Hc0|]; [destruct (Z_lt_ge_dec c nc) as [Hc1|]|]; try (rewrite Ho in Hcg by lia; congruence).
  destruct (Z_le_gt_dec 0 r) as [Hr0|]; [destruct (Z_le_gt_dec r L) as [Hr1|]|]; try (rewrite Ho in Hcg by lia; congruence).
  destruct (Z.eq_dec pi 0) as [->|]; [|rewrite Ho in Hcg by lia; congruence].
  rewrite (Hg c r ltac:(lia) ltac:(lia)) in Hcg. subst bands0.
  rewrite Hinc. unfold exp_e. apply Forall_forall. intros e He. apply in_flat_map in He as [bd [Hbd He]].
  apply in_map_iff in He as [b [<- Hb]].
  assert (Hbb : In b (flat_map ebn_blocks (map bs_eband (res_specs p (cf c) r)))) by (apply in_flat_map; exists bd; split; assumption).
  rewrite (cell_blocks c r ltac:(lia) ltac:(lia)) in Hbb. apply in_map_iff in Hbb as [cb [<- Hcb]].
  assert (Hin : In (r, cb) (enc_blocks p (cf c))).
  { unfold enc_blocks. apply in_flat_map. exists r. split; [apply in_zrange; fold L; lia | apply in_map; exact Hcb]. }
  pose proof (Hsmall (cf c) (cf_in c ltac:(lia)) r cb Hin) as Hs.
  destruct (fresh_contrib r cb c ltac:(lia) Hin) as [_ [_ [Hdata _]]]. cbv zeta in Hdata.
  unfold expect_eincl. destruct (b_inc (hblk p r cb) (item_layer (ep_item ep))); cbn [ei_data eincl_skip].
  - unfold b_data, contrib in *. 
    destruct (hblk_fields p Hsc (cf c) (Hlen _ (cf_in c ltac:(lia))) (Hbound _ (cf_in c ltac:(lia))) (Hfit _ (cf_in c ltac:(lia))) (Hnz _ (cf_in c ltac:(lia))) r cb Hin) as (_ & _ & _ & _ & _ & F6 & _).
    unfold GeoLayers.layer_contribution in *. rewrite F6 in *. cbn [snd] in *. exact Hs.
  - change (zlen (@nil Z)) with 0. lia.
Qed.

(* EncodePackets succeeds (packets_encode_total with G2..G4 discharged) and stays small *)
Theorem t2_encodes : 0 <= pp_order p <= 4 ->
  exists eps cells', enc_packets (pp_order p) 1 (L + 1) nc (pipe_pgeom p) cells = Ok (eps, cells') /\ small_packets eps.
Proof.
  intros Hord.
  destruct (packets_encode_total false 1 (L + 1) nc (pp_order p) (pipe_pgeom_dec p) (dec_pidx p) (dec_geo p) cells
              G2_pidx G2'_nodup (fun _ => G3_keys) G4_cells Hord ltac:(lia)) as [eps [cells' [E Hok]]].
  rewrite <- enc_geom_G3_keys in E.
  exists eps, cells'. split; [exact E | apply small_from_blocks; exact Hok].
Qed.

End T2.
