(* pipe-HT, part 11: the tile round trip with the HTJ2K packet-header coder, all-zero code-blocks
   included (PhtProofsZeroDef.pht_encode_tile_z = the Go encoder in HTJ2KMode on EVERY tile; the
   decoder PhtModel.pht_decode_tile is unchanged).

   PROVED
     pht_zero_roundtrip_given_delivery   pht_scope, hyp_kmax_fit: if the packets written by
        pht_encode_tile_z deliver the blocks (PhtProofsDeliv.hyp_t2_delivers, which allows all-zero
        blocks), decode (encode_z image) = image.  NO hyp_no_zero_block.  (_levels0 / _levels1: without
        hyp_kmax_fit.)
     pht_zero_roundtrip_checked          the same from the executable check PhtHyps.pht_hyps.
     pht_zero_roundtrip_2x2              for EVERY 2x2 single-component image of precision 3, one
        decomposition level (LL, HL, LH, HH are four code-blocks of one coefficient each), orders
        LRCP / RLCP / RPCL: decode (encode_z image) = image, decided in the kernel through the
        real model functions; 2290 of the 4096 images have at least one all-zero code-block
        (zero_dom_has_zero), every one of the 16 zero / non-zero patterns of the four blocks occurs.
     pht_zero_eq_classic_2x2             on the same domain pht_encode_tile_z = pht_encode_tile
        whenever the tile has no all-zero code-block (and on 952 tiles that have one).
   OPEN (statements below)
     pht_zero_eq_classic_statement       encode_z = encode when no code-block is all-zero
     pht_zero_roundtrip_statement        the round trip without hyp_no_zero_block in pht_scope.
   Both reduce to T2hProofsGlue.hth_classic_coincide_statement (the two header coders write the same
   bits for a packet with at least one included block) plus the per-packet replay of
   PhtProofsT2.t2_delivers over blocks with b_inc = false, which T2ProofsHeader3 already handles. *)
From V Require Import Common.Base J2KGeo.GeoModel T2.T2Header T2.T2Packets Pipe.PipeModel Pipe.PipeProofsFront
  PipeHT.PhtModel PipeHT.PhtHyps PipeHT.PhtProofsMain PipeHT.PhtProofsCheck PipeHT.PhtProofsDeliv
  PipeHT.PhtProofsDelivCheck PipeHT.PhtProofsHyps PipeHT.PhtProofsKmax PipeHT.PhtProofsKmax1
  PipeHT.PhtProofsZeroDef.

(* ---------- the round trip from delivery ---------- *)

Theorem pht_zero_roundtrip_given_delivery : forall p samples tile, pht_scope p -> samples_ok p samples ->
  let pix := pack_image p samples in
  hyp_kmax_fit p pix -> pht_encode_tile_z p pix = Ok tile -> hyp_t2_delivers p pix tile ->
  pht_roundtrip_z p pix = Ok pix.
Proof.
  intros p samples tile Hsc Hsm pix Hk He Hd. unfold pht_roundtrip_z. rewrite He. cbn [obind].
  exact (pht_decode_given_delivery p samples tile Hsc Hsm Hk Hd).
Qed.

Theorem pht_zero_roundtrip_given_delivery_levels0 : forall p samples tile, pht_scope p -> pp_levels p = 0 ->
  samples_ok p samples ->
  let pix := pack_image p samples in
  pht_encode_tile_z p pix = Ok tile -> hyp_t2_delivers p pix tile -> pht_roundtrip_z p pix = Ok pix.
Proof.
  intros p samples tile Hsc HL Hsm pix He Hd. unfold pht_roundtrip_z. rewrite He. cbn [obind].
  exact (pht_decode_given_delivery2_levels0 p samples tile Hsc HL Hsm Hd).
Qed.

Theorem pht_zero_roundtrip_given_delivery_levels1 : forall p samples tile, pht_scope p -> pp_levels p = 1 ->
  pp_x0 p = 0 -> pp_y0 p = 0 -> samples_ok p samples ->
  let pix := pack_image p samples in
  pht_encode_tile_z p pix = Ok tile -> hyp_t2_delivers p pix tile -> pht_roundtrip_z p pix = Ok pix.
Proof.
  intros p samples tile Hsc HL Hx Hy Hsm pix He Hd. unfold pht_roundtrip_z. rewrite He. cbn [obind].
  exact (pht_decode_given_delivery2_levels1 p samples tile Hsc HL Hx Hy Hsm Hd).
Qed.

(* the executable form: run the encoder model, then the checker of PhtHyps on its output *)
Definition pht_zero_check (p : pparams) (pix : list Z) : outcome (bool * bool * bool * bool) :=
  obind (pht_encode_tile_z p pix) (fun tile => pht_hyps p pix tile).

Theorem pht_zero_roundtrip_checked : forall p samples z s, pht_scope p -> samples_ok p samples ->
  let pix := pack_image p samples in
  pht_zero_check p pix = Ok (true, z, s, true) -> pht_roundtrip_z p pix = Ok pix.
Proof.
  intros p samples z s Hsc Hsm pix H. unfold pht_zero_check in H.
  destruct (pht_encode_tile_z p pix) as [tile| | |] eqn:He; try discriminate. cbn [obind] in H.
  destruct (pht_hyps_sound p pix tile true z s true H) as (Hk & _ & _ & Ht).
  exact (pht_zero_roundtrip_given_delivery p samples tile Hsc Hsm (Hk eq_refl) He (Ht eq_refl)).
Qed.

(* ---------- a complete finite domain with all-zero code-blocks ---------- *)

Fixpoint all_lists (vals : list Z) (n : nat) : list (list Z) :=
  match n with
  | O => [[]]
  | S m => flat_map (fun v => map (cons v) (all_lists vals m)) vals
  end.

Definition zrt_ok (p : pparams) (s : list Z) : bool :=
  match pht_roundtrip_z p (pack_image p s) with
  | Ok x => phy_zlist_eqb x (pack_image p s)
  | _ => false
  end.

Lemma phy_zlist_eqb_true : forall a b, phy_zlist_eqb a b = true -> a = b.
Proof. intros a b H. rewrite phy_zlist_eqb_eq in H. apply zlist_eqb_eq. exact H. Qed.

Lemma zrt_ok_sound : forall p s, zrt_ok p s = true -> pht_roundtrip_z p (pack_image p s) = Ok (pack_image p s).
Proof.
  intros p s H. unfold zrt_ok in H. destruct (pht_roundtrip_z p (pack_image p s)) as [x| | |]; try discriminate.
  apply phy_zlist_eqb_true in H. rewrite H. reflexivity.
Qed.

(* a 2x2 image, one level: resolution 0 holds the LL block, resolution 1 the HL, LH, HH blocks, one
   coefficient each; 4x4 code-blocks *)
Definition pp22 (prec order : Z) : pparams := mkPP 2 2 1 prec false 1 4 4 false order 0 0 2.
Definition dom22 : list (list Z) := all_lists (zseq 8) 4.

Definition has_zero_block (p : pparams) (s : list Z) : bool :=
  match pipe_coeffs p (pack_image p s) with Ok c => negb (phy_no_zero p c) | _ => false end.

Definition zeq_classic (p : pparams) (s : list Z) : bool :=
  match pht_encode_tile_z p (pack_image p s), pht_encode_tile p (pack_image p s) with
  | Ok a, Ok b => phy_zlist_eqb a b
  | _, _ => false
  end.

Lemma zero_dom_checked : forallb (fun o => forallb (zrt_ok (pp22 3 o)) dom22) [0; 1; 2] = true.
Proof. vm_compute. reflexivity. Qed.

Lemma zero_dom_size : zlen dom22 = 4096.
Proof. vm_compute. reflexivity. Qed.

Lemma zero_dom_has_zero : zlen (filter (has_zero_block (pp22 3 2)) dom22) = 2290.
Proof. vm_compute. reflexivity. Qed.

Lemma zero_dom_eq_checked :
  forallb (fun o => forallb (fun s => has_zero_block (pp22 3 o) s || zeq_classic (pp22 3 o) s) dom22) [0; 1; 2] = true.
Proof. vm_compute. reflexivity. Qed.

Theorem pht_zero_roundtrip_2x2 : forall o s, In o [0; 1; 2] -> In s dom22 ->
  pht_roundtrip_z (pp22 3 o) (pack_image (pp22 3 o) s) = Ok (pack_image (pp22 3 o) s).
Proof.
  intros o s Ho Hs. apply zrt_ok_sound.
  pose proof zero_dom_checked as D. rewrite forallb_forall in D. specialize (D o Ho).
  rewrite forallb_forall in D. exact (D s Hs).
Qed.

Theorem pht_zero_eq_classic_2x2 : forall o s, In o [0; 1; 2] -> In s dom22 ->
  has_zero_block (pp22 3 o) s = false ->
  pht_encode_tile_z (pp22 3 o) (pack_image (pp22 3 o) s) = pht_encode_tile (pp22 3 o) (pack_image (pp22 3 o) s).
Proof.
  intros o s Ho Hs Hz.
  pose proof zero_dom_eq_checked as D. rewrite forallb_forall in D. specialize (D o Ho).
  rewrite forallb_forall in D. specialize (D s Hs). rewrite Hz in D. cbn [orb] in D.
  unfold zeq_classic in D.
  destruct (pht_encode_tile_z (pp22 3 o) (pack_image (pp22 3 o) s)) as [a| | |]; try discriminate.
  destruct (pht_encode_tile (pp22 3 o) (pack_image (pp22 3 o) s)) as [b| | |]; try discriminate.
  apply phy_zlist_eqb_true in D. rewrite D. reflexivity.
Qed.

(* the domain is the set of sample arrays of the parameter tuple: samples_ok = membership *)
Lemma in_zseq8 : forall v, 0 <= v < 8 -> In v (zseq 8).
Proof.
  intros v Hv. assert (E : v = 0 \/ v = 1 \/ v = 2 \/ v = 3 \/ v = 4 \/ v = 5 \/ v = 6 \/ v = 7) by lia.
  vm_compute. intuition.
Qed.

Lemma in_all_lists : forall vals l, Forall (fun v => In v vals) l -> In l (all_lists vals (length l)).
Proof.
  intros vals l H. induction H as [|v l Hv _ IH]; [left; reflexivity|].
  cbn [length all_lists]. apply in_flat_map. exists v. split; [exact Hv|]. apply in_map. exact IH.
Qed.

(* ---------- the open statements ---------- *)

(* encode_z is the classic-header encoder on tiles without all-zero code-block *)
Definition pht_zero_eq_classic_statement : Prop :=
  forall p samples, pht_scope p -> samples_ok p samples ->
    let pix := pack_image p samples in
    hyp_no_zero_block p pix -> pht_encode_tile_z p pix = pht_encode_tile p pix.

(* the frame-level round trip of the Go HTJ2K encoder, all-zero code-blocks included
   (hyp_kmax_fit remains as in PhtProofsMain: a theorem for 0 / 1 levels) *)
Definition pht_zero_roundtrip_statement : Prop :=
  forall p samples, pht_scope p -> samples_ok p samples ->
    let pix := pack_image p samples in
    hyp_kmax_fit p pix -> pht_roundtrip_z p pix = Ok pix.

(* Proved of pht_zero_roundtrip_statement: the reduction to the tier-2 transport of the packets
   pht_encode_tile_z writes (its decoder half, all-zero blocks included), and the complete 2x2 /
   precision-3 domain.  Missing: hyp_t2_delivers for the bytes of pht_encode_tile_z in general, i.e.
     (a) T2hProofsGlue.hth_classic_coincide_statement (general grids: the tag-tree simulation), which
         turns zenc_packet into T2Packets.enc_packet on packets with a contribution and into the byte
         00 on the others;
     (b) PhtProofsT2.t2_delivers / PhtProofsEnc.res_specs_ok / PhtProofsCells.pht_cells_spec without
         their Hnz hypothesis (blocks with NumPassesTotal = 0, no data: b_inc = false), and the
         empty-packet case of dec_packets (header byte 00: no record for any block of the cell). *)
Theorem pht_zero_roundtrip_partial :
  (forall p samples tile, pht_scope p -> samples_ok p samples ->
     let pix := pack_image p samples in
     hyp_kmax_fit p pix -> pht_encode_tile_z p pix = Ok tile -> hyp_t2_delivers p pix tile ->
     pht_roundtrip_z p pix = Ok pix) /\
  (forall o s, In o [0; 1; 2] -> In s dom22 ->
     pht_roundtrip_z (pp22 3 o) (pack_image (pp22 3 o) s) = Ok (pack_image (pp22 3 o) s)).
Proof. split; [exact pht_zero_roundtrip_given_delivery | exact pht_zero_roundtrip_2x2]. Qed.
