(* pipe-HT, part 11: ONE level of the 5/3 transform on samples in the two's-complement range
   [-A, A-1] (even origin): every coefficient is within +-(4A - 2).
   1-D (fwd53_even as coded: predict o - ((a + c) >> 1), update e + ((d + d' + 2) >> 2), symmetric
   boundary forms): samples in [-A, A-1] give low and high outputs within +-(2A - 1); the second
   (row) pass on values within +-(2A - 1) doubles the bound (DwtGrowth.fwd53_bound). *)
From V Require Import Common.Base DWT.DwtModel DWT.DwtProofs DWT.DwtGrowth.

Definition abnd (A : Z) (l : list Z) : Prop := Forall (fun v => - A <= v <= A - 1) l.

Lemma abnd_zn : forall A l i, 1 <= A -> abnd A l -> - A <= zn l i <= A - 1.
Proof.
  intros A l i HA H. unfold zn. destruct (nth_in_or_default i l 0) as [Hin|E]; [|rewrite E; lia].
  unfold abnd in H. rewrite Forall_forall in H. apply H. exact Hin.
Qed.

Lemma abnd_bnd : forall A B l, 1 <= A -> A <= B -> abnd A l -> bnd B l.
Proof. intros A B l HA HB H. unfold abnd, bnd in *. eapply Forall_impl; [|exact H]. intros v Hv. cbv beta in Hv. lia. Qed.

Lemma apredict : forall A p q r, - A <= p <= A - 1 -> - A <= q <= A - 1 -> - A <= r <= A - 1 ->
  - (2 * A - 1) <= p - sr1 (q + r) <= 2 * A - 1.
Proof. intros. rewrite sr1_div. lia. Qed.

Lemma aupdate : forall A p h h', - A <= p <= A - 1 -> - (2 * A - 1) <= h <= 2 * A - 1 -> - (2 * A - 1) <= h' <= 2 * A - 1 ->
  - (2 * A - 1) <= p + sr2 (h + h' + 2) <= 2 * A - 1.
Proof. intros. rewrite sr2_div. lia. Qed.

Section OneDAsym.
  Variable A : Z.
  Variable x : list Z.
  Hypothesis HA : 1 <= A.
  Hypothesis Hx : abnd A x.

  Let X := fun i => abnd_zn A x i HA Hx.

  Lemma hiE_ab : bnd (2 * A - 1) (hiE x).
  Proof.
    unfold hiE. apply bnd_app; [apply bnd_map_seq; intros i; apply apredict; apply X|].
    apply bnd_opt. pose proof (X (2 * (Nat.div2 (length x + 1) - 1) + 1)%nat).
    pose proof (X ((Nat.div2 (length x + 1) - 1) * 2)%nat). lia.
  Qed.

  Lemma loE_ab : bnd (2 * A - 1) (loE x).
  Proof.
    assert (HH : forall i, - (2 * A - 1) <= zn (hiE x) i <= 2 * A - 1) by (intros i; apply bnd_zn; [lia|apply hiE_ab]).
    unfold loE. apply bnd_app; [apply bnd_one; apply aupdate; auto|].
    apply bnd_app; [apply bnd_map_seq; intros i; apply aupdate; auto|].
    apply bnd_opt. apply aupdate; auto.
  Qed.

  Lemma fwd53_even_ab : bnd (2 * A - 1) (fwd53 true x).
  Proof.
    cbn [fwd53]. destruct (Nat.leb_spec (length x) 1) as [H|H].
    - unfold fwd53_even. destruct (Nat.leb_spec (length x) 1); [|lia]. apply abnd_bnd with A; [exact HA|lia|exact Hx].
    - rewrite fwd53_even_eq by lia. apply bnd_app; [apply loE_ab|apply hiE_ab].
  Qed.
End OneDAsym.

(* ---- 2-D ---- *)
Definition mabnd (A : Z) (M : list (list Z)) : Prop := Forall (abnd A) M.

Lemma abnd_firstn : forall A n l, abnd A l -> abnd A (firstn n l).
Proof.
  intros A n l H. unfold abnd in *. rewrite Forall_forall in *. intros v Hv. apply H.
  rewrite <- (firstn_skipn n l). apply in_or_app. left. exact Hv.
Qed.
Lemma abnd_skipn : forall A n l, abnd A l -> abnd A (skipn n l).
Proof.
  intros A n l H. unfold abnd in *. rewrite Forall_forall in *. intros v Hv. apply H.
  rewrite <- (firstn_skipn n l). apply in_or_app. right. exact Hv.
Qed.

Lemma split_win_abnd : forall A w stride h d, abnd A d ->
  mabnd A (map fst (fst (split_win w stride h d))) /\ mabnd A (map snd (fst (split_win w stride h d))) /\
  abnd A (snd (split_win w stride h d)).
Proof.
  intros A w stride h. induction h as [|h IH]; intros d Hd.
  - cbn. repeat split; try constructor. exact Hd.
  - cbn [split_win]. destruct (IH (skipn stride d) (abnd_skipn _ _ _ Hd)) as (I1 & I2 & I3).
    destruct (split_win w stride h (skipn stride d)) as [rs tl]. cbn [fst snd map] in *.
    repeat split; try assumption; constructor; try assumption.
    + apply abnd_firstn, abnd_firstn, Hd.
    + apply abnd_skipn, abnd_firstn, Hd.
Qed.

Lemma abnd_map_hd : forall A M, 1 <= A -> mabnd A M -> abnd A (map (fun r => hd 0 r) M).
Proof.
  intros A M HA H. induction H as [|r M Hr HM IH]; cbn [map]; constructor; [|exact IH].
  destruct r as [|a r]; cbn [hd]; [lia|]. exact (Forall_inv Hr).
Qed.
Lemma mabnd_map_tl : forall A M, mabnd A M -> mabnd A (map (@tl Z) M).
Proof.
  intros A M H. induction H as [|r M Hr HM IH]; cbn [map]; constructor; [|exact IH].
  destruct r as [|a r]; cbn [tl]; [constructor|]. exact (Forall_inv_tail Hr).
Qed.
Lemma mabnd_mbnd : forall A B M, 1 <= A -> A <= B -> mabnd A M -> mbnd B M.
Proof. intros A B M HA HB H. unfold mabnd, mbnd in *. eapply Forall_impl; [|exact H]. intros l. apply abnd_bnd; assumption. Qed.

Lemma cols_map_ab : forall A B f w M, 1 <= A -> A <= B -> (forall l, abnd A l -> bnd B (f l)) ->
  mabnd A M -> mbnd B (cols_map f w M).
Proof.
  intros A B f w. induction w as [|w IH]; intros M HA HAB Hf HM.
  - apply mabnd_mbnd with A; assumption.
  - cbn [cols_map]. apply mbnd_zip_cons.
    + apply Hf. apply abnd_map_hd; assumption.
    + apply IH; try assumption. apply mabnd_map_tl. exact HM.
Qed.

Theorem fwd53_2d_ab : forall A d w h stride, 1 <= A -> abnd A d ->
  bnd (4 * A - 2) (fwd53_2d d w h stride true true).
Proof.
  intros A d w h stride HA Hd. unfold fwd53_2d.
  destruct ((w <=? 1)%nat && (h <=? 1)%nat); [apply abnd_bnd with A; [exact HA|lia|exact Hd]|].
  destruct (split_win_abnd A w stride h d Hd) as (B1 & B2 & B3).
  destruct (split_win w stride h d) as [rs tl]. cbn [fst snd] in *.
  apply join_win_bnd; [|apply mabnd_mbnd with A; [exact HA|lia|exact B2]|apply abnd_bnd with A; [exact HA|lia|exact B3]].
  assert (M1 : mbnd (2 * A - 1) (if (1 <? h)%nat then cols_map (fwd53 true) w (map fst rs) else map fst rs)).
  { destruct (1 <? h)%nat.
    - apply cols_map_ab with A; try lia; [|exact B1]. intros l Hl. apply fwd53_even_ab; assumption.
    - apply mabnd_mbnd with A; [exact HA|lia|exact B1]. }
  destruct (1 <? w)%nat.
  - apply mbnd_map with (2 * A - 1); [|exact M1]. intros l Hl.
    replace (4 * A - 2) with (2 * (2 * A - 1)) by lia. apply fwd53_bound; [lia|exact Hl].
  - apply mbnd_mono with (2 * A - 1); [lia|exact M1].
Qed.

(* ForwardMultilevelWithParity with ONE level at origin (0, 0) *)
Theorem fwd53_ml1_ab : forall A d w h, 1 <= A -> abnd A d -> bnd (4 * A - 2) (fwd53_ml d w h 1 0 0).
Proof.
  intros A d w h HA Hd. unfold fwd53_ml. cbn [fwd53_ml_loop].
  destruct ((w <=? 1)%nat && (h <=? 1)%nat); [apply abnd_bnd with A; [exact HA|lia|exact Hd]|].
  change (is_even 0) with true. apply fwd53_2d_ab; assumption.
Qed.
