(* pipe-HT, part 12: hyp_kmax_fit is a theorem for ONE decomposition level (tile origin (0, 0)).
   The level-shifted samples lie in [-2^(P-1), 2^(P-1) - 1]; with the RCT the three planes lie in
   [-2^P, 2^P - 1] (Y in the sample range, Cb / Cr within +-(2^P - 1)).  One level of the 5/3
   transform keeps every coefficient within +-(4A - 2) (PhtProofsDwt1.fwd53_ml1_ab), and every band of
   a one-level decomposition has Kmax = P + 1 (P + 2 with the RCT bit): 4A - 2 < 4A = 2^Kmax. *)
From V Require Import Common.Base J2K.RCT J2K.RCTProofs J2KGeo.GeoModel J2KGeo.GeoProofsSamples J2KGeo.GeoProofsPixels
  J2KGeo.GeoProofsBlocks T2.T2Header DWT.DwtModel DWT.DwtGrowth HT.HtLevels HT.HtProofsLevels
  Pipe.PipeModel Pipe.PipeProofsFront Pipe.PipeProofsGeo Pipe.PipeProofsBlock
  PipeHT.PhtModel PipeHT.PhtProofsEnc PipeHT.PhtProofsMain PipeHT.PhtProofsDeliv PipeHT.PhtProofsKmax PipeHT.PhtProofsDwt1.
Require V.HT.HtBlockProofsQuad V.HT.HtProofsTables V.Pipe.PipeProofsMain V.DWT.DwtGrowth2.

(* ---------- RCT on two's-complement ranges ---------- *)
Lemma rct_fwd32_ab : forall a r g b, 1 <= a <= 2 ^ 27 -> - a <= r <= a - 1 -> - a <= g <= a - 1 -> - a <= b <= a - 1 ->
  let '(y, cb, cr) := rct_fwd32 r g b in
  - (2 * a) <= y <= 2 * a - 1 /\ - (2 * a) <= cb <= 2 * a - 1 /\ - (2 * a) <= cr <= 2 * a - 1.
Proof.
  intros a r g b Ha Hr Hg Hb. change (2 ^ 27) with 134217728 in Ha.
  rewrite rct_fwd32_eq by (unfold in28; change (2 ^ 28) with 268435456; lia).
  unfold rct_fwd. rewrite Z.shiftr_div_pow2 by lia. change (2 ^ 2) with 4.
  pose proof (Z.div_mod (r + 2 * g + b) 4 ltac:(lia)). pose proof (Z.mod_pos_bound (r + 2 * g + b) 4 ltac:(lia)). lia.
Qed.

Lemma rct_fwd_list_ab : forall a r g b, 1 <= a <= 2 ^ 27 -> abnd a r -> abnd a g -> abnd a b ->
  Forall (fun t : Z * Z * Z => (- (2 * a) <= fst (fst t) <= 2 * a - 1) /\ (- (2 * a) <= snd (fst t) <= 2 * a - 1) /\
                               (- (2 * a) <= snd t <= 2 * a - 1)) (rct_fwd_list r g b).
Proof.
  intros a r. induction r as [|r0 r IH]; intros g b Ha Fr Fg Fb; [constructor|].
  destruct g as [|g0 g]; [constructor|]. destruct b as [|b0 b]; [constructor|].
  inversion Fr; inversion Fg; inversion Fb; subst. cbn [rct_fwd_list]. constructor; [|apply IH; assumption].
  pose proof (rct_fwd32_ab a r0 g0 b0 Ha ltac:(assumption) ltac:(assumption) ltac:(assumption)) as H.
  destruct (rct_fwd32 r0 g0 b0) as [[y cb] cr]. exact H.
Qed.

(* planes: nc lists of w*h values in the two's-complement range of A *)
Definition planes_ab (p : pparams) (A : Z) (planes : list (list Z)) : Prop :=
  length planes = Z.to_nat (pp_nc p) /\
  Forall (fun pl => length pl = Z.to_nat (pp_w p * pp_h p) /\ abnd A pl) planes.

Section FrontAsym.
Variables (p : pparams) (samples : list Z).
Hypothesis Hsc : pp_scope p.
Hypothesis Hsm : samples_ok p samples.

Let P := pp_prec p.
Let sg := pp_signed p.
Let np := pp_w p * pp_h p.
Let nc := pp_nc p.

(* PipeProofsFront.shifted_planes with the two's-complement range kept *)
Lemma shifted_planes_ab : exists data,
  convert_pixel_data np nc P sg (pack_image p samples) = Ok data /\
  planes_ab p (2 ^ (P - 1)) (level_shift_all P sg data).
Proof.
  destruct Hsc as (Hw & Hh & Hnc & HP & _). destruct Hsm as [Hlen Hrng].
  assert (Hnp : 0 <= np) by (unfold np; nia).
  destruct (pixel_roundtrip P sg np nc samples HP Hnp ltac:(unfold nc; lia) ltac:(unfold np, nc; lia) Hrng)
    as [data [Ec [_ [Hent Hget]]]].
  exists data. split; [exact Ec|].
  pose proof Ec as Ec'. unfold convert_pixel_data in Ec'.
  destruct (zlen (flat_map (pack_sample P) samples) <? np * nc * bytes_per_sample P); [discriminate|].
  assert (Ed := f_equal (fun o => match o with Ok x => x | _ => [] end) Ec'). cbv beta iota in Ed. clear Ec'.
  set (F := fun c : Z => map (fun i : Z =>
            let s := Z.to_nat (i * nc + c) in
            if P <=? 8 then enc_sample8 P sg (zn0 (flat_map (pack_sample P) samples) s)
            else enc_sample16 P sg (zn0 (flat_map (pack_sample P) samples) (2 * s))
                                   (zn0 (flat_map (pack_sample P) samples) (2 * s + 1))) (zrange np)) in Ed.
  assert (HFlen : forall c, length (F c) = Z.to_nat np)
    by (intros c; unfold F, zrange; rewrite !map_length, seq_length; reflexivity).
  unfold planes_ab. fold np nc P. split.
  - unfold level_shift_all. rewrite map_length, <- Ed, map_length. unfold zrange. rewrite map_length, seq_length. reflexivity.
  - unfold level_shift_all. apply Forall_map_iff. rewrite <- Ed. apply Forall_map_iff.
    apply Forall_forall. intros c Hc. apply in_zrange in Hc. split; [rewrite map_length; apply HFlen|].
    unfold abnd. apply Forall_map_iff. apply Forall_forall. intros v Hv.
    apply In_nth with (d := 0) in Hv. destruct Hv as [i [Hi Ev]]. rewrite HFlen in Hi.
    specialize (Hent c (Z.of_nat i) Hc ltac:(lia)). rewrite <- Ed in Hent.
    rewrite (nth_zrange_map p F nc c [] Hc), Nat2Z.id in Hent. unfold zn0 in Hent. rewrite Ev in Hent.
    assert (Hin : in_sample_range P sg v).
    { rewrite Hent. rewrite Forall_forall in Hrng. apply Hrng. apply nth_In. unfold zlen in Hlen. fold np nc in Hlen. nia. }
    pose proof (dc_shift_range P sg v HP Hin) as [Hr _]. lia.
Qed.

Lemma front_ab : exists planes,
  pipe_front p (pack_image p samples) = Ok planes /\
  planes_ab p (if uses_rct p then 2 ^ P else 2 ^ (P - 1)) planes.
Proof.
  destruct shifted_planes_ab as [data [Ec Hok]].
  destruct Hsc as (Hw & Hh & Hnc & HP & _).
  assert (Hpp : 1 <= 2 ^ (P - 1) /\ 2 ^ P = 2 * 2 ^ (P - 1) /\ 2 ^ (P - 1) <= 32768)
    by (destruct (pow2_bounds P HP) as [A B]; lia).
  unfold pipe_front. fold np nc P sg. rewrite Ec. cbn [obind].
  destruct (uses_rct p) eqn:Er.
  - unfold uses_rct in Er. apply andb_true_iff in Er as [Em E3]. apply Z.eqb_eq in E3.
    destruct Hok as [Hl3 Hall]. rewrite E3 in Hl3.
    destruct (level_shift_all P sg data) as [|r [|g [|b [|x rest]]]] eqn:Ed; try discriminate.
    inversion Hall as [|? ? [Lr Fr] Hall1]; subst. inversion Hall1 as [|? ? [Lg Fg] Hall2]; subst.
    inversion Hall2 as [|? ? [Lb Fb] _]; subst.
    eexists. split; [reflexivity|].
    assert (Hlen1 : length r = length g) by congruence. assert (Hlen2 : length g = length b) by congruence.
    pose proof (rct_fwd_list_ab (2 ^ (P - 1)) r g b ltac:(change (2 ^ 27) with 134217728; lia) Fr Fg Fb) as Hb.
    unfold planes_ab. rewrite E3. split; [reflexivity|]. unfold rct_planes. cbn [nth].
    repeat constructor; rewrite ?map_length, ?rct_fwd_list_length by assumption; try assumption;
      unfold abnd; apply Forall_map_iff; eapply Forall_impl; [|exact Hb| |exact Hb| |exact Hb]; intros t [A [B C]]; lia.
  - eexists. split; [reflexivity|]. exact Hok.
Qed.
End FrontAsym.

(* ---------- Kmax of a one-level decomposition ---------- *)
Lemma kmax_levels1_table : forall rct,
  forallb (fun P => forallb (fun rb => HtLevels.enc_band_numbps 1 P rct (fst rb) (snd rb) =? (if rct then P + 2 else P + 1))
                            [(0, 0); (1, 1); (1, 2); (1, 3)]) (HtProofsTables.zrange 1 16) = true.
Proof. intros [|]; vm_compute; reflexivity. Qed.

Lemma kmax_levels1 : forall P rct res band, 1 <= P <= 16 -> ((res = 0 /\ band = 0) \/ (res = 1 /\ 1 <= band <= 3)) ->
  HtLevels.enc_band_numbps 1 P rct res band = if rct then P + 2 else P + 1.
Proof.
  intros P rct res band HP Hrb.
  pose proof (proj1 (forallb_forall _ _) (kmax_levels1_table rct) P (HtProofsTables.In_zrange 1 16 P HP)) as H. cbv beta in H.
  rewrite forallb_forall in H.
  assert (Hin : In (res, band) [(0, 0); (1, 1); (1, 2); (1, 3)]).
  { destruct Hrb as [[-> ->]|[-> Hb]]; [left; reflexivity|].
    assert (band = 1 \/ band = 2 \/ band = 3) as [->|[->| ->]] by lia; cbn; auto. }
  specialize (H _ Hin). cbn [fst snd] in H. apply Z.eqb_eq in H. exact H.
Qed.

(* ---------- the theorem ---------- *)
Theorem pht_kmax_fit_levels1 : forall p samples, pht_scope p -> pp_levels p = 1 -> pp_x0 p = 0 -> pp_y0 p = 0 ->
  samples_ok p samples -> hyp_kmax_fit p (pack_image p samples).
Proof.
  intros p samples [Hsc _] HL1 Hx0 Hy0 Hsm coeffs Ec d Hd r cb Hin.
  destruct (front_ab p samples Hsc Hsm) as [planes [Ef [Hnp Hpl]]].
  unfold pipe_coeffs in Ec. rewrite Ef in Ec. cbn [obind] in Ec. injection Ec as <-.
  apply in_map_iff in Hd as [pl [Epl Hplin]].
  rewrite Forall_forall in Hpl. destruct (Hpl pl Hplin) as [Hlen Hab].
  pose proof Hsc as (Hw & Hh & Hnc & HP & _).
  assert (Hpp : 1 <= 2 ^ (pp_prec p - 1) /\ 2 ^ pp_prec p = 2 * 2 ^ (pp_prec p - 1) /\ 2 ^ (pp_prec p - 1) <= 32768)
    by (destruct (pow2_bounds (pp_prec p) HP) as [A B]; lia).
  set (A := if uses_rct p then 2 ^ pp_prec p else 2 ^ (pp_prec p - 1)) in *.
  assert (HA : 1 <= A <= 65536) by (unfold A; destruct (uses_rct p); lia).
  (* one level: every coefficient within 4A - 2 *)
  assert (Hbd : bnd (4 * A - 2) d).
  { rewrite <- Epl. unfold pipe_fdwt. rewrite HL1, Hx0, Hy0. change (1 =? 0) with false. cbv iota.
    change (Z.to_nat 1) with 1%nat. apply fwd53_ml1_ab; [lia|exact Hab]. }
  assert (Hzl : zlen d = pp_w p * pp_h p) by (rewrite <- Epl; apply (PipeProofsMain.fdwt_length p Hsc); exact Hlen).
  assert (Hbound : forall v, In v d -> - 2 ^ 25 < v < 2 ^ 25).
  { intros v Hv. unfold bnd in Hbd. rewrite Forall_forall in Hbd. specialize (Hbd v Hv). cbv beta in Hbd.
    change (2 ^ 25) with 33554432. lia. }
  destruct (block_facts p Hsc d Hzl Hbound r cb Hin) as ([Hr Hrb] & _).
  rewrite HL1 in Hr.
  assert (Hrb' : (r = 0 /\ cb_band cb = 0) \/ (r = 1 /\ 1 <= cb_band cb <= 3)) by (destruct Hrb as [[? ?]|[? ?]]; [left; lia|right; lia]).
  unfold pht_enc_band_numbps. rewrite HL1, (kmax_levels1 (pp_prec p) (pht_rct p) r (cb_band cb) HP Hrb').
  unfold HtBlockProofsQuad.good. apply Forall_forall. intros v Hv.
  pose proof (block_values_in p Hsc d Hzl r cb Hin v Hv) as Hvin.
  unfold bnd in Hbd. rewrite Forall_forall in Hbd. specialize (Hbd v Hvin). cbv beta in Hbd.
  unfold A in Hbd. destruct (uses_rct p) eqn:Er.
  - assert (Erct : pht_rct p = true).
    { unfold uses_rct in Er. apply andb_true_iff in Er as [Em E3]. apply Z.eqb_eq in E3. unfold pht_rct. rewrite Em, E3. reflexivity. }
    rewrite Erct. rewrite Z.pow_add_r by lia. change (2 ^ 2) with 4. lia.
  - destruct (pht_rct p).
    + rewrite Z.pow_add_r by lia. change (2 ^ 2) with 4. lia.
    + rewrite Z.pow_add_r by lia. change (2 ^ 1) with 2. lia.
Qed.

(* ---------- corollaries: one level, without the Kmax hypothesis ---------- *)
Theorem pht_roundtrip_partial2_levels1 : forall p samples, pht_scope p -> pp_levels p = 1 -> pp_x0 p = 0 -> pp_y0 p = 0 ->
  samples_ok p samples ->
  let pix := pack_image p samples in
  hyp_no_zero_block p pix -> hyp_ht_block_sizes p pix ->
  exists tile, pht_encode_tile p pix = Ok tile /\ pht_decode_tile p tile = Ok pix.
Proof.
  intros p samples Hs HL1 Hx0 Hy0 Hsm pix Hnz Hbs.
  exact (pht_roundtrip_partial p samples Hs Hsm (pht_kmax_fit_levels1 p samples Hs HL1 Hx0 Hy0 Hsm) Hnz Hbs).
Qed.

Theorem pht_decode_given_delivery2_levels1 : forall p samples tile, pht_scope p -> pp_levels p = 1 -> pp_x0 p = 0 -> pp_y0 p = 0 ->
  samples_ok p samples ->
  let pix := pack_image p samples in
  hyp_t2_delivers p pix tile -> pht_decode_tile p tile = Ok pix.
Proof.
  intros p samples tile Hs HL1 Hx0 Hy0 Hsm pix Ht.
  exact (pht_decode_given_delivery p samples tile Hs Hsm (pht_kmax_fit_levels1 p samples Hs HL1 Hx0 Hy0 Hsm) Ht).
Qed.

(* ---------- why this argument stops at one level ----------
   The per-pass bounds compose level by level (DwtGrowth2.fwd_pass_sharp: the LL window of a level is
   within Lb (Lb B), Lb a = (3a + 1) / 2, everything else within 4 B).  Already at depth 2 that
   composition is too weak for the Kmax of the band: the HH band of depth 2 would need
   4 * Lb (Lb A) < 2^Kmax = 8 A, but 4 * Lb (Lb A) >= 9 A.  The true gains (6.25 for that band, 2.64
   for LL of depth 2) come from cancellation ACROSS levels (the composite filter), which no bound of
   the form "sup of the previous level's window" can see; a proof for >= 2 levels has to bound the L1
   norm of the composite multi-level filters (with folding at the borders) plus the rounding terms. *)
Lemma level_recursion_insufficient : forall rct,
  forallb (fun P => 2 ^ kmax_of 2 P rct 3 <=? 4 * DwtGrowth2.Lb (DwtGrowth2.Lb (2 ^ (prec_of P rct - 1))))
          (HtProofsTables.zrange 1 16) = true.
Proof. intros [|]; vm_compute; reflexivity. Qed.
