(* pipe-HT, part 7: the decoder half WITHOUT the restriction to tiles free of all-zero code-blocks,
   with the tier-2 transport as an explicit hypothesis.  If the packets the packet decoder returned
   (from ANY tile bytes, e.g. those written by PacketEncoder.encodeHTJ2KPacketHeader) deliver every
   non-zero code-block as Encoder.encodeCodeBlock made it (bytes, one pass, Kmax - 1 zero bit
   planes) and carry nothing (no entry, or an entry without data) for the all-zero code-blocks,
   then TileDecoder.Decode + inverse RCT / DC shift return the image.  Covers: HT block coder with
   Kmax / missing-MSB signalling, the all-zero block convention, code-block geometry, assembly,
   inverse 5/3 DWT, inverse RCT, sample packing.  Does NOT cover: that the packet headers deliver. *)
From V Require Import Common.Base J2KGeo.GeoModel J2KGeo.GeoProofsBands J2KGeo.GeoProofsBlocks
  T1.T1Model T1.T1ProofsSeq T2.T2Header T2.T2Packets
  Pipe.PipeModel Pipe.PipeProofsFront Pipe.PipeProofsLists Pipe.PipeProofsStore Pipe.PipeProofsGeo
  Pipe.PipeProofsDecGeo Pipe.PipeProofsBlock Pipe.PipeCellRel
  PipeHT.PhtModel PipeHT.PhtProofsBlock PipeHT.PhtProofsEnc PipeHT.PhtProofsCells PipeHT.PhtProofsMain.
Require V.Pipe.PipeProofsMain V.HT.HtBlockProofsQuad V.HT.HtLevels.

Module M := V.Pipe.PipeProofsMain.

Lemma all_zero_repeat : forall l : list Z, (forall v, In v l -> v = 0) -> l = repeat 0 (length l).
Proof.
  induction l as [|a l IH]; intros H; [reflexivity|]. cbn [length repeat].
  rewrite (H a (or_introl eq_refl)). f_equal. apply IH. intros v Hv. apply H. right. exact Hv.
Qed.

Section Deliv.
Variable p : pparams.
Hypothesis Hsc : pp_scope p.

Let w := pp_w p.
Let h := pp_h p.
Let L := pp_levels p.
Let nc := pp_nc p.

Definition blk_nonzero (cb : cblock) : Prop := exists v, In v (cb_data cb) /\ v <> 0.
Definition blk_zero (cb : cblock) : Prop := forall v, In v (cb_data cb) -> v = 0.

(* what the gathered packet data must hold for the block with global index i at resolution r *)
Definition delivered (m : list ((Z * Z) * cbinfo)) (r i : Z) (cb : cblock) : Prop :=
  (blk_nonzero cb /\ exists ci, aget key2_eqb m (r, i) = Some ci /\ delivers (hblk p r cb) ci) \/
  (blk_zero cb /\ (aget key2_eqb m (r, i) = None \/ exists ci, aget key2_eqb m (r, i) = Some ci /\ ci_data ci = [])).

(* the all-zero block on the encoder side: zero passes, no data (never included in a packet) *)
Lemma zero_block_encodes : forall r cb cbx cby, blk_zero cb ->
  exists z, pht_enc_code_block p r cb cbx cby = Ok (mk_eblock cbx cby z [] 0).
Proof.
  intros r cb cbx cby Hz. unfold pht_enc_code_block.
  assert (Hok : data_ok (cb_data cb)).
  { intros v Hv. rewrite (Hz v Hv). change (2 ^ 31) with 2147483648. lia. }
  assert (Ec : pht_cblk_numbps (cb_data cb) = 0).
  { unfold pht_cblk_numbps. destruct (find_max_bitplane_spec (cb_data cb) Hok) as [[E _]|[Hm Hsh]].
    - rewrite E. reflexivity.
    - unfold find_max_bitplane in *. assert (Em : max_abs (cb_data cb) = 0).
      { unfold max_abs.
        assert (G : forall l m0, (forall v, In v l -> v = 0) -> 0 <= m0 -> fold_left (fun m v => Z.max m (abs32 v)) l m0 = m0).
        { induction l as [|a l0 IH]; intros m0 H Hm0; cbn [fold_left]; [reflexivity|].
          rewrite (H a (or_introl eq_refl)). change (abs32 0) with 0. rewrite Z.max_l by lia.
          apply IH; [intros v Hv; apply H; right; exact Hv | exact Hm0]. }
        rewrite (G (cb_data cb) 0 Hz) by lia. reflexivity. }
      rewrite Em. reflexivity. }
  rewrite Ec. unfold HtLevels.ht_pass_layout. cbn [fst snd]. change (0 =? 0) with true. cbv iota.
  eexists. reflexivity.
Qed.

(* one block, non-zero or zero *)
Lemma blk_decodes : forall d, zlen d = w * h -> (forall v, In v d -> - 2 ^ 25 < v < 2 ^ 25) ->
  forall r cb m idx, In (r, cb) (enc_blocks p d) ->
  HtBlockProofsQuad.good (pht_enc_band_numbps p r (cb_band cb)) (cb_data cb) ->
  delivered m r idx cb ->
  pht_dec_code_block p m idx (r, cell_of_block cb) =
    Ok (cb_gx0 cb, cb_gy0 cb, cb_gx0 cb + cb_w cb, cb_gy0 cb + cb_h cb, cb_data cb).
Proof.
  intros d Hlen Hb r cb m idx Hin Hgood Hdel.
  destruct (block_facts p Hsc d Hlen Hb r cb Hin) as (Hv & (Hl & Hw1 & Hh1 & Hrng) & Hband & _).
  destruct Hdel as [[Hnz [ci [Hget Hd]]]|[Hz Hnone]].
  - (* non-zero: the HT round trip *)
    destruct (in_enc_blocks p d r cb Hin) as [Hr [b [Hbb Hcb]]].
    destruct (cb_range p Hsc) as [Cw Ch].
    destruct (partition_wh_le _ _ (pp_cbw p) (pp_cbh p) cb ltac:(lia) ltac:(lia) Hcb) as [Wl Hl'].
    assert (Hco : ht_coef_ok p r cb).
    { unfold ht_coef_ok. split; [unfold zlen; rewrite Hl; lia|]. split; [lia|]. split; [lia|]. split; [exact Hgood | exact Hnz]. }
    destruct (scope_parts p Hsc) as (S1 & S2 & S3 & S4).
    destruct (pht_enc_code_block_spec p (HP p Hsc) S1 S2 S3 S4 r cb (cb_cbx cb) (cb_cby cb) Hv Hco) as [eb [E F]].
    assert (Eh : hblk p r cb = eb) by (unfold hblk; rewrite E; reflexivity).
    rewrite Eh in Hd.
    destruct F as (_ & _ & _ & _ & _ & _ & _ & _ & _ & _ & _ & _ & Fd).
    unfold cell_of_block. apply (Fd m idx (cb_gx0 cb) (cb_gy0 cb) ci Hband Hget Hd).
  - (* all-zero: nothing delivered, the decoder fills zeros *)
    assert (Ed : cb_data cb = repeat 0 (Z.to_nat (cb_w cb) * Z.to_nat (cb_h cb))).
    { rewrite <- Hl. apply all_zero_repeat. exact Hz. }
    unfold cell_of_block, pht_dec_code_block.
    replace (cb_gx0 cb + cb_w cb - cb_gx0 cb) with (cb_w cb) by lia.
    replace (cb_gy0 cb + cb_h cb - cb_gy0 cb) with (cb_h cb) by lia.
    destruct Hnone as [En|[ci [Eg Edat]]].
    + rewrite En, <- Ed. reflexivity.
    + rewrite Eg. unfold should_decode. rewrite Edat. change (zlen [] =? 0) with true. cbn [orb negb].
      rewrite <- Ed. reflexivity.
Qed.

(* the whole grid of one component *)
Lemma blocks_all_delivered : forall d m, zlen d = w * h -> M.coeff_fit [d] -> kmax_fit p [d] ->
  (forall i r cb, In (i, (r, cb)) (NE p d) -> delivered m r i cb) ->
  pht_dec_code_blocks p m 0 (dec_cells_res p) = Ok (blocks_for_assembly (map snd (enc_blocks p d))).
Proof.
  intros d m Hlen Hfit Hkf Hdel. rewrite (M.dec_cells_blocks p Hsc d). unfold NE in Hdel.
  assert (Hb : forall v, In v d -> - 2 ^ 25 < v < 2 ^ 25) by (intros v Hv; apply (Hfit d (or_introl eq_refl) v Hv)).
  pose proof (Hkf d (or_introl eq_refl)) as Hk1.
  assert (G : forall l k, (forall rc, In rc l -> In rc (enc_blocks p d)) ->
            (forall i r cb, In (i, (r, cb)) (znumber k l) -> delivered m r i cb) ->
            pht_dec_code_blocks p m k (map (fun rc => (fst rc, cell_of_block (snd rc))) l) = Ok (map M.blk_asm (map snd l))).
  { induction l as [|[r cb] l IH]; intros k Hsub Hd; cbn [map pht_dec_code_blocks]; [reflexivity|].
    pose proof (Hsub (r, cb) (or_introl eq_refl)) as Hin.
    destruct (block_facts p Hsc d Hlen Hb r cb Hin) as (_ & (_ & Hw1 & Hh1 & _) & _).
    cbn [fst snd]. unfold cell_of_block at 1.
    destruct (Z.leb_spec (cb_gx0 cb + cb_w cb - cb_gx0 cb) 0); [lia|].
    destruct (Z.leb_spec (cb_gy0 cb + cb_h cb - cb_gy0 cb) 0); [lia|]. cbn [orb].
    fold (cell_of_block cb).
    rewrite (blk_decodes d Hlen Hb r cb m k Hin (Hk1 r cb Hin)); [|apply Hd; cbn [znumber]; left; reflexivity].
    cbn [obind]. rewrite IH.
    - reflexivity.
    - intros rc Hrc. apply Hsub. right. exact Hrc.
    - intros i r' cb' Hin'. apply Hd. cbn [znumber]. right. exact Hin'. }
  rewrite (G (enc_blocks p d) 0); [reflexivity | auto | exact Hdel].
Qed.

(* all components: from delivered packets to the component planes *)
Theorem planes_given_delivery : forall planes dps, planes_ok p (2 ^ pp_prec p) planes ->
  kmax_fit p (map (pipe_fdwt p) planes) ->
  (forall c, 0 <= c < nc -> forall i r cb, In (i, (r, cb)) (NE p (coef (map (pipe_fdwt p) planes) c)) ->
     delivered (gather c (dec_order p) [] dps) r i cb) ->
  pht_dec_components p dps (zrange nc) = Ok planes.
Proof.
  intros planes dps Hplok Hkf Hdel.
  pose proof Hplok as [Hnp Hpl].
  set (coeffs := map (pipe_fdwt p) planes) in *.
  pose proof (M.coeff_fit_sharp p Hsc planes Hplok) as Hcf. fold coeffs in Hcf.
  assert (Hnc : length coeffs = Z.to_nat nc) by (unfold coeffs; rewrite map_length; exact Hnp).
  assert (Hlen : forall d, In d coeffs -> zlen d = w * h).
  { intros d Hd. unfold coeffs in Hd. apply in_map_iff in Hd as [pl [<- Hin]]. apply (M.fdwt_length p Hsc).
    rewrite Forall_forall in Hpl. apply (Hpl pl Hin). }
  assert (Hcomp : forall c, 0 <= c < nc -> pht_dec_component p dps c = Ok (nth (Z.to_nat c) planes [])).
  { intros c Hc. unfold pht_dec_component.
    set (d := coef coeffs c). assert (Hd : In d coeffs) by (apply (coef_in p coeffs Hnc c Hc)).
    rewrite (blocks_all_delivered d _ (Hlen d Hd)).
    - cbn [obind]. f_equal. rewrite (M.enc_blocks_all p). fold w h L.
      destruct (wh_range p Hsc) as (A & B & C). destruct (cb_range p Hsc) as [Cw Ch]. fold w h L in A, B, C.
      rewrite (extract_assemble_subbands_id w h (pp_x0 p) (pp_y0 p) L (pp_cbw p) (pp_cbh p) ltac:(lia) ltac:(lia) ltac:(lia) ltac:(lia) ltac:(lia) d (Hlen d Hd)).
      unfold d, coef, coeffs.
      rewrite (nth_indep _ [] (pipe_fdwt p [])) by (rewrite map_length, Hnp; lia). rewrite map_nth.
      apply (M.idwt_fdwt p Hsc). rewrite Forall_forall in Hpl. apply Hpl. apply nth_In. rewrite Hnp. lia.
    - intros d' [<-|[]]. apply Hcf. exact Hd.
    - intros d' [<-|[]]. apply Hkf. exact Hd.
    - apply (Hdel c Hc). }
  assert (Hall : forall cs, (forall c, In c cs -> 0 <= c < nc) ->
            pht_dec_components p dps cs = Ok (map (fun c => nth (Z.to_nat c) planes []) cs)).
  { induction cs as [|c cs IH]; intros Hin; cbn [pht_dec_components map]; [reflexivity|].
    rewrite (Hcomp c (Hin c (or_introl eq_refl))). cbn [obind]. rewrite IH by (intros c' Hc'; apply Hin; right; exact Hc').
    reflexivity. }
  rewrite (Hall (zrange nc)) by (intros c Hc; apply in_zrange in Hc; exact Hc). f_equal.
  unfold zrange, nc. rewrite map_map. rewrite <- Hnp. clear. induction planes as [|x l IH] using rev_ind; [reflexivity|].
  rewrite app_length. cbn [length]. rewrite Nat.add_1_r, seq_S, map_app. cbn [map]. rewrite Nat.add_0_l.
  f_equal.
  - rewrite <- IH at 2. apply map_ext_in. intros i Hi. apply in_seq in Hi. rewrite Nat2Z.id. apply app_nth1. lia.
  - rewrite Nat2Z.id, app_nth2 by lia. rewrite Nat.sub_diag. reflexivity.
Qed.

(* (T) the tier-2 transport as a hypothesis on the tile bytes: DecodePackets succeeds and what
   gatherCBData collects delivers every code-block of every component *)
Definition hyp_t2_delivers (pix tile : list Z) : Prop :=
  forall coeffs, pipe_coeffs p pix = Ok coeffs ->
  exists dps,
    dec_packets tile (pp_order p) 1 (pp_levels p + 1) (pp_nc p) (pipe_pgeom_dec p) (dec_pidx p) (dec_geo p) 64 false false = Ok dps /\
    forall c, 0 <= c < pp_nc p -> forall i r cb, In (i, (r, cb)) (NE p (coef coeffs c)) ->
      delivered (gather c (dec_order p) [] dps) r i cb.

Theorem decode_given_delivery_section : forall samples tile, samples_ok p samples ->
  let pix := pack_image p samples in
  hyp_kmax_fit p pix -> hyp_t2_delivers pix tile ->
  pht_decode_tile p tile = Ok pix.
Proof.
  intros samples tile Hsm pix Hkf Ht2.
  destruct (front_ok p samples Hsc Hsm) as [planes [Efront [Hplok Eback]]]. fold pix in Efront, Eback.
  assert (Ecoeffs : pipe_coeffs p pix = Ok (map (pipe_fdwt p) planes)) by (unfold pipe_coeffs; rewrite Efront; reflexivity).
  destruct (Ht2 _ Ecoeffs) as [dps [Edec Hdel]].
  unfold pht_decode_tile, pht_dec_planes. rewrite Edec. cbn [obind]. fold nc.
  rewrite (planes_given_delivery planes dps Hplok (Hkf _ Ecoeffs) Hdel). cbn [obind]. rewrite Eback. reflexivity.
Qed.

End Deliv.

Theorem pht_decode_given_delivery : forall p samples tile, pht_scope p -> samples_ok p samples ->
  let pix := pack_image p samples in
  hyp_kmax_fit p pix -> hyp_t2_delivers p pix tile ->
  pht_decode_tile p tile = Ok pix.
Proof. intros p samples tile [Hsc _]. exact (decode_given_delivery_section p Hsc samples tile). Qed.
