(* pipe-HT, part 5: the end-to-end theorem for the HTJ2K tile path.
   pht_decode_tile (pht_encode_tile image) = image for the reversible single-tile, single-layer,
   default-precinct path with the HT cleanup block coder, by chaining
     PipeProofsFront.front_ok (sample codec, DC shift, RCT)
     PipeProofsMain.idwt_fdwt / fdwt_length / coeff_fit_sharp / dec_cells_blocks / enc_blocks_all
       (5/3 DWT inverse, band and code-block geometry) -- reused unchanged
     PhtProofsBlock.pht_enc_code_block_spec: HtBlockProofsSize.ht_cleanup_roundtrip_validated +
       HtProofsLevels.kmax_consistent (the HT block coder with Kmax / missing-MSB signalling)
     PhtProofsT2.t2_encodes / t2_delivers (the T2 proofs of Pipe/PipeProofsT2.v replayed over the
       HT code-blocks: one pass, Kmax - 1 zero bit planes)
   Remaining hypotheses (named below): hyp_kmax_fit, hyp_no_zero_block, hyp_ht_block_sizes. *)
From V Require Import Common.Base J2KGeo.GeoModel J2KGeo.GeoProofsBands J2KGeo.GeoProofsBlocks
  DWT.DwtModel T2.T2Header T2.T2Packets T2.T2ProofsPackets2
  Pipe.PipeModel Pipe.PipeProofsFront Pipe.PipeProofsLists Pipe.PipeProofsStore Pipe.PipeProofsGeo
  Pipe.PipeProofsDecGeo Pipe.PipeProofsBlock Pipe.PipeCellRel
  PipeHT.PhtModel PipeHT.PhtProofsBlock PipeHT.PhtProofsEnc PipeHT.PhtProofsCells PipeHT.PhtProofsT2.
Require V.Pipe.PipeProofsMain V.HT.HtBlockProofsQuad.

Module M := V.Pipe.PipeProofsMain.

(* COD code-block style 0x40 (HT) has bit 2 (TERMALL) clear: DecodePackets runs as for style 0 *)
Lemma dec_packets_style64 : forall d o nl nr nc g dp geo s r,
  dec_packets d o nl nr nc g dp geo 64 s r = dec_packets d o nl nr nc g dp geo 0 s r.
Proof. reflexivity. Qed.

Section Main.
Variable p : pparams.
Hypothesis Hsc : pp_scope p.

Let w := pp_w p.
Let h := pp_h p.
Let L := pp_levels p.
Let nc := pp_nc p.

(* every coefficient of every code-block fits the Kmax magnitude bits of its band
   (Kmax = bandNumbps = QCD exponent + guard bits - 1, HtLevels.enc_band_numbps) *)
Definition kmax_fit (coeffs : list (list Z)) : Prop :=
  forall d, In d coeffs -> forall r cb, In (r, cb) (enc_blocks p d) ->
  HtBlockProofsQuad.good (pht_enc_band_numbps p r (cb_band cb)) (cb_data cb).

(* no code-block is all-zero (an all-zero block is never included in a packet; the packet-header
   round trip for such blocks is not part of the T2 theorems used here) *)
Definition no_zero_block (coeffs : list (list Z)) : Prop :=
  forall d, In d coeffs -> forall r cb, In (r, cb) (enc_blocks p d) -> exists v, In v (cb_data cb) /\ v <> 0.

(* no HT code-block is longer than 65535 bytes *)
Definition pht_blocks_small (coeffs : list (list Z)) : Prop :=
  forall d, In d coeffs -> forall r cb, In (r, cb) (enc_blocks p d) ->
  forall b, pht_enc_code_block p r cb (cb_cbx cb) (cb_cby cb) = Ok b -> zlen (eb_data b) <= 65535.

(* buildAndDecodeCodeBlocks over the whole grid, given that T2 delivered every block *)
Lemma pht_dec_code_blocks_all : forall d m, zlen d = w * h -> M.coeff_fit [d] -> kmax_fit [d] -> no_zero_block [d] ->
  (forall i r cb, In (i, (r, cb)) (NE p d) -> exists ci, aget key2_eqb m (r, i) = Some ci /\ delivers (hblk p r cb) ci) ->
  pht_dec_code_blocks p m 0 (dec_cells_res p) = Ok (blocks_for_assembly (map snd (enc_blocks p d))).
Proof.
  intros d m Hlen Hfit Hkf Hnzb Hdel. rewrite (M.dec_cells_blocks p Hsc d). unfold NE in Hdel.
  assert (Hb : forall v, In v d -> - 2 ^ 25 < v < 2 ^ 25) by (intros v Hv; apply (Hfit d (or_introl eq_refl) v Hv)).
  pose proof (Hkf d (or_introl eq_refl)) as Hk1. pose proof (Hnzb d (or_introl eq_refl)) as Hn1.
  assert (G : forall l k, (forall rc, In rc l -> In rc (enc_blocks p d)) ->
            (forall i r cb, In (i, (r, cb)) (znumber k l) -> exists ci, aget key2_eqb m (r, i) = Some ci /\ delivers (hblk p r cb) ci) ->
            pht_dec_code_blocks p m k (map (fun rc => (fst rc, cell_of_block (snd rc))) l) = Ok (map M.blk_asm (map snd l))).
  { induction l as [|[r cb] l IH]; intros k Hsub Hd; cbn [map pht_dec_code_blocks]; [reflexivity|].
    pose proof (Hsub (r, cb) (or_introl eq_refl)) as Hin.
    destruct (block_facts p Hsc d Hlen Hb r cb Hin) as (_ & (_ & Hw1 & Hh1 & _) & _).
    cbn [fst snd]. unfold cell_of_block at 1.
    destruct (Z.leb_spec (cb_gx0 cb + cb_w cb - cb_gx0 cb) 0); [lia|].
    destruct (Z.leb_spec (cb_gy0 cb + cb_h cb - cb_gy0 cb) 0); [lia|]. cbn [orb].
    destruct (Hd k r cb) as [ci [Hget Hdl]]; [cbn [znumber]; left; reflexivity|].
    fold (cell_of_block cb).
    rewrite (hblk_decodes p Hsc d Hlen Hb Hk1 Hn1 r cb m k ci Hin Hget Hdl). cbn [obind].
    rewrite IH.
    - reflexivity.
    - intros rc Hrc. apply Hsub. right. exact Hrc.
    - intros i r' cb' Hin'. apply Hd. cbn [znumber]. right. exact Hin'. }
  rewrite (G (enc_blocks p d) 0); [reflexivity | auto | exact Hdel].
Qed.

(* ---------- remaining hypotheses ---------- *)

(* (H1) about Encoder.applyWaveletTransform output vs. calculateOpenJPHQuantizationParams: every
   wavelet coefficient has at most Kmax magnitude bits, Kmax the value Encoder.bandNumbps hands to
   HTEncoder.SetKMax.  HtProofsLevels.kmax_sufficient derives this from the BIBO bound
   |c| <= gain * 2^(p-1) of the band; the BIBO bound itself is not proved for DWT.DwtModel. *)
Definition hyp_kmax_fit (pix : list Z) : Prop :=
  forall coeffs, pipe_coeffs p pix = Ok coeffs -> kmax_fit coeffs.

(* (H2) no code-block of the tile is all-zero.  (Encoder.encodeSingleLayerCodeBlock gives such a
   block NumPassesTotal = 0 and no data; PacketEncoder.encodeHTJ2KPacketHeader then codes it as
   not included.  Neither that header coder nor the not-included case of the classic one is
   covered by the packet-header theorems used here.) *)
Definition hyp_no_zero_block (pix : list Z) : Prop :=
  forall coeffs, pipe_coeffs p pix = Ok coeffs -> no_zero_block coeffs.

(* (H3) about HTEncoder.Encode: no code-block's compressed data exceeds 65535 bytes
   (PacketDecoder.decodePacket clamps longer contributions). *)
Definition hyp_ht_block_sizes (pix : list Z) : Prop :=
  forall coeffs, pipe_coeffs p pix = Ok coeffs -> pht_blocks_small coeffs.

(* ---------- the theorem ---------- *)

Theorem pht_planes_roundtrip : forall planes, planes_ok p (2 ^ pp_prec p) planes ->
  kmax_fit (map (pipe_fdwt p) planes) -> no_zero_block (map (pipe_fdwt p) planes) ->
  pht_blocks_small (map (pipe_fdwt p) planes) ->
  exists tile, obind (pht_cells p (map (pipe_fdwt p) planes)) (pipe_tile_bytes p) = Ok tile /\
               pht_dec_planes p tile = Ok planes.
Proof.
  intros planes Hplok Hkf Hnzb Hbs.
  pose proof Hplok as [Hnp Hpl].
  set (coeffs := map (pipe_fdwt p) planes). fold coeffs in Hbs, Hkf, Hnzb.
  pose proof (M.coeff_fit_sharp p Hsc planes Hplok) as Hcf. fold coeffs in Hcf.
  assert (Hnc : length coeffs = Z.to_nat nc) by (unfold coeffs; rewrite map_length; exact Hnp).
  assert (Hlen : forall d, In d coeffs -> zlen d = w * h).
  { intros d Hd. unfold coeffs in Hd. apply in_map_iff in Hd as [pl [<- Hin]]. apply (M.fdwt_length p Hsc).
    rewrite Forall_forall in Hpl. apply (Hpl pl Hin). }
  destruct (pht_cells_spec p Hsc coeffs Hnc Hlen Hcf Hkf Hnzb) as [cells [Ecells _]].
  assert (Hsmall : forall d, In d coeffs -> forall r cb, In (r, cb) (enc_blocks p d) -> zlen (eb_data (hblk p r cb)) <= 65535).
  { intros d Hd r cb Hin. apply (Hbs d Hd r cb Hin). apply (hblk_spec p Hsc d (Hlen d Hd) (Hcf d Hd) (Hkf d Hd) (Hnzb d Hd) r cb Hin). }
  assert (Hord0 : 0 <= pp_order p <= 4) by (destruct Hsc as (_ & _ & _ & _ & _ & _ & _ & _ & H & _); exact H).
  destruct (t2_encodes p Hsc coeffs Hnc Hlen Hcf Hkf Hnzb Hsmall cells Ecells Hord0) as [eps [cells' [Eenc Hsp]]].
  exists (packets_bytes eps). split.
  - rewrite Ecells. cbn [obind].
    unfold pipe_tile_bytes. rewrite Eenc. reflexivity.
  - destruct (t2_delivers p Hsc coeffs Hnc Hlen Hcf Hkf Hnzb Hsmall cells Ecells eps cells' Hord0 Eenc Hsp) as [dps [Edec Hdel]].
    unfold pht_dec_planes. rewrite dec_packets_style64, Edec. cbn [obind].
    (* every component *)
    assert (Hcomp : forall c, 0 <= c < nc -> pht_dec_component p dps c = Ok (nth (Z.to_nat c) planes [])).
    { intros c Hc. unfold pht_dec_component.
      set (d := coef coeffs c). assert (Hd : In d coeffs) by (apply (coef_in p coeffs Hnc c Hc)).
      rewrite (pht_dec_code_blocks_all d _ (Hlen d Hd)).
      - cbn [obind]. f_equal. rewrite (M.enc_blocks_all p). fold w h L.
        destruct (wh_range p Hsc) as (A & B & C). destruct (cb_range p Hsc) as [Cw Ch]. fold w h L in A, B, C.
        rewrite (extract_assemble_subbands_id w h (pp_x0 p) (pp_y0 p) L (pp_cbw p) (pp_cbh p) ltac:(lia) ltac:(lia) ltac:(lia) ltac:(lia) ltac:(lia) d (Hlen d Hd)).
        unfold d, coef, coeffs.
        rewrite (nth_indep _ [] (pipe_fdwt p [])) by (rewrite map_length, Hnp; lia). rewrite map_nth.
        apply (M.idwt_fdwt p Hsc). rewrite Forall_forall in Hpl. apply Hpl. apply nth_In. rewrite Hnp. lia.
      - intros d' [<-|[]]. apply Hcf. exact Hd.
      - intros d' [<-|[]]. apply Hkf. exact Hd.
      - intros d' [<-|[]]. apply Hnzb. exact Hd.
      - apply (Hdel c Hc). }
    assert (Hall : forall cs, (forall c, In c cs -> 0 <= c < nc) ->
              pht_dec_components p dps cs = Ok (map (fun c => nth (Z.to_nat c) planes []) cs)).
    { induction cs as [|c cs IH]; intros Hin; cbn [pht_dec_components map]; [reflexivity|].
      rewrite (Hcomp c (Hin c (or_introl eq_refl))). cbn [obind]. rewrite IH by (intros c' Hc'; apply Hin; right; exact Hc').
      reflexivity. }
    fold nc. rewrite (Hall (zrange nc)) by (intros c Hc; apply in_zrange in Hc; exact Hc). f_equal.
    assert (Epl : map (fun c => nth (Z.to_nat c) planes []) (zrange nc) = planes).
    { unfold zrange, nc. rewrite map_map. rewrite <- Hnp. clear. induction planes as [|x l IH] using rev_ind; [reflexivity|].
      rewrite app_length. cbn [length]. rewrite Nat.add_1_r, seq_S, map_app. cbn [map]. rewrite Nat.add_0_l.
      f_equal.
      - rewrite <- IH at 2. apply map_ext_in. intros i Hi. apply in_seq in Hi. rewrite Nat2Z.id. apply app_nth1. lia.
      - rewrite Nat2Z.id, app_nth2 by lia. rewrite Nat.sub_diag. reflexivity. }
    exact Epl.
Qed.

Theorem pht_roundtrip_section : forall samples, samples_ok p samples ->
  let pix := pack_image p samples in
  hyp_kmax_fit pix -> hyp_no_zero_block pix -> hyp_ht_block_sizes pix ->
  exists tile, pht_encode_tile p pix = Ok tile /\ pht_decode_tile p tile = Ok pix.
Proof.
  intros samples Hsm pix Hkf Hnzb Hbs.
  destruct (front_ok p samples Hsc Hsm) as [planes [Efront [Hplok Eback]]]. fold pix in Efront, Eback.
  assert (Ecoeffs : pipe_coeffs p pix = Ok (map (pipe_fdwt p) planes)) by (unfold pipe_coeffs; rewrite Efront; reflexivity).
  destruct (pht_planes_roundtrip planes Hplok (Hkf _ Ecoeffs) (Hnzb _ Ecoeffs) (Hbs _ Ecoeffs)) as [tile [Eenc Edec]].
  exists tile. split.
  - unfold pht_encode_tile. rewrite Ecoeffs. exact Eenc.
  - unfold pht_decode_tile. rewrite Edec. cbn [obind]. rewrite Eback. reflexivity.
Qed.

End Main.

(* ---------- the statement, the partial theorem, what is missing ---------- *)

(* scope of the HTJ2K path: the pipe scope (1 <= w, h <= 32768, 1..4 components, precision 1..16,
   0..6 levels, code-block sizes 4..64 with area <= 4096, one layer, default precincts) with a
   RESOLUTION-MAJOR progression order (0 = LRCP with its single layer, 1 = RLCP, 2 = RPCL, the one
   htj2k/codec.go uses).  The tile bytes are the packet sequence; Encoder.writeHTJ2KTileParts
   stores it as one tile-part per resolution, which is the same byte sequence exactly for these
   orders.  (For PCRL / CPRL the regrouping by resolution permutes the packets and the Go decoder,
   which reads them in progression order, does not get the image back when there are >= 2
   components and >= 1 level - see harness/suites/pipeht.) *)
Definition pht_scope (p : pparams) : Prop := pp_scope p /\ pp_order p <= 2.

Definition pht_roundtrip_statement : Prop :=
  forall p samples, pht_scope p -> samples_ok p samples ->
    exists tile, pht_encode_tile p (pack_image p samples) = Ok tile /\
                 pht_decode_tile p tile = Ok (pack_image p samples).

(* Proved: the statement under THREE named hypotheses.
   Missing for the full statement:
   - hyp_kmax_fit: the BIBO bound of the 5/3 transform per band (then HtProofsLevels.kmax_sufficient
     gives the Kmax fit).
   - hyp_no_zero_block: the packet-header round trip with code-blocks that are never included, and
     the HTJ2K packet-header coder (encodeHTJ2KPacketHeader) itself.
   - hyp_ht_block_sizes: a bound of 65535 bytes on the HT cleanup segment of a code-block of at most
     4096 samples (MagSgn bytes + MEL/VLC suffix <= 4079). *)
Theorem pht_roundtrip_partial : forall p samples, pht_scope p -> samples_ok p samples ->
  let pix := pack_image p samples in
  hyp_kmax_fit p pix -> hyp_no_zero_block p pix -> hyp_ht_block_sizes p pix ->
  exists tile, pht_encode_tile p pix = Ok tile /\ pht_decode_tile p tile = Ok pix.
Proof. intros p samples [Hsc _]. exact (pht_roundtrip_section p Hsc samples). Qed.
