(* EXTRACT *)
(* pipe-HT with the HTJ2K packet-header coder: the tile encoder as the Go encoder runs it in
   HTJ2KMode, all-zero code-blocks included.  (Definitions only; proofs in PhtProofsZero.v.)

   PhtModel.pht_encode_tile writes the packet headers with the classic coder (T2Packets.enc_packets ->
   T2Header.enc_header); the Go encoder in HTJ2K mode takes the branch
       encodePacketHeaderWithTagTreeMulti: if pe.htj2kMode { return pe.encodeHTJ2KPacketHeader(...) }
   i.e. T2Ht.T2hModel.hth_header.  An all-zero code-block (NumPassesTotal = 0, Data = nil, made by
   PhtModel.pht_enc_code_block) is "not included" there; a packet in which no block is included is
   the single byte 00.

   pht_encode_tile_z = pht_encode_tile with PacketEncoder.encodePacket calling hth_header:
     encodePacket          ordered := orderPrecinctsByBand; header, cbIncls := encodeHTJ2KPacketHeader;
                           body := the Data of the included records            (zenc_packet)
     encodeLRCP/RLCP/...   the progression loops, `continue` for absent / empty precinct lists
                           (zenc_items over T2Packets.prog_seq, as T2Packets.enc_items)
   The HTJ2K coder updates cb.Included / cb.NumLenBits of the blocks it codes.  With the single
   layer of the HTJ2K path every precinct is visited exactly once, so the updated blocks are never
   read again; the store is therefore not threaded through zenc_items. *)
From V Require Import Common.Base.
Require V.Pipe.PipeModel V.PipeHT.PhtModel V.T2Ht.T2hModel.

Module PM := V.Pipe.PipeModel.
Module H := V.T2.T2Header.
Module K := V.T2.T2Packets.
Module HT := V.T2Ht.T2hModel.
Module PH := V.PipeHT.PhtModel.

(* encodePacket in HTJ2K mode: (header, body, CodeBlockIncls) *)
Definition zenc_packet (bands : list H.eband) (layer res : Z) : outcome (list Z * list Z * list H.eincl) :=
  obind (HT.hth_header (K.order_bands bands res) layer) (fun h =>
    let '(hdr, incs, _) := h in Ok (hdr, K.packet_body incs, incs)).

Fixpoint zenc_items (cells : K.ecells) (items : list K.seq_item) : outcome (list K.epacket) :=
  match items with
  | [] => Ok []
  | (l, r, c, pi) :: rest =>
    match K.aget K.key3_eqb cells (c, r, pi) with
    | None => zenc_items cells rest
    | Some [] => zenc_items cells rest
    | Some bands =>
      obind (zenc_packet bands l r) (fun res =>
        let '(hdr, body, incs) := res in
        obind (zenc_items cells rest) (fun ps =>
          Ok ({| K.ep_item := (l, r, c, pi); K.ep_header := hdr; K.ep_body := body; K.ep_incls := incs |} :: ps)))
    end
  end.

(* EncodePackets, one layer *)
Definition zenc_packets (order nr nc : Z) (g : K.pgeom) (cells : K.ecells) : outcome (list K.epacket) :=
  match K.prog_seq order 1 nr nc (K.enc_pidx cells) (K.precinct_position_key g nr) with
  | None => Err
  | Some items => zenc_items cells items
  end.

(* as PM.pipe_tile_bytes *)
Definition pht_tile_bytes_z (p : PM.pparams) (cells : K.ecells) : outcome (list Z) :=
  match zenc_packets (PM.pp_order p) (PM.pp_levels p + 1) (PM.pp_nc p) (PM.pipe_pgeom p) cells with
  | Ok r => Ok (K.packets_bytes r)
  | Err => Ok [0]
  | Panic => Panic
  | OutOfFuel => OutOfFuel
  end.

(* ===== pixel bytes -> the tile's packet bytes, HTJ2K packet headers ===== *)
Definition pht_encode_tile_z (p : PM.pparams) (pix : list Z) : outcome (list Z) :=
  obind (PM.pipe_coeffs p pix) (fun coeffs =>
  obind (PH.pht_cells p coeffs) (fun cells => pht_tile_bytes_z p cells)).

(* encoder, then decoder: what the correspondence / the examples evaluate *)
Definition pht_roundtrip_z (p : PM.pparams) (pix : list Z) : outcome (list Z) :=
  obind (pht_encode_tile_z p pix) (fun tile => PH.pht_decode_tile p tile).
