(* EXTRACT *)
(* Executable forms of the named hypotheses of the pipe-HT theorems (PhtProofsMain.hyp_kmax_fit,
   hyp_no_zero_block, hyp_ht_block_sizes; PhtProofsDeliv.hyp_t2_delivers), so that the
   correspondence suite can evaluate them on every generated case with the tile bytes the Go
   encoder wrote.  PhtProofsHyps.v proves that `true` here implies the hypothesis. *)
From V Require Import Common.Base.
Require V.Pipe.PipeModel V.PipeHT.PhtModel.

Module PM := V.Pipe.PipeModel.
Module G := V.J2KGeo.GeoModel.
Module H := V.T2.T2Header.
Module K := V.T2.T2Packets.

Fixpoint phy_number {A} (k : Z) (l : list A) : list (Z * A) :=
  match l with [] => [] | a :: r => (k, a) :: phy_number (k + 1) r end.

(* every coefficient of every code-block has at most Kmax magnitude bits *)
Definition phy_kmax_fit (p : PM.pparams) (coeffs : list (list Z)) : bool :=
  forallb (fun d => forallb (fun rc =>
    forallb (fun v => Z.abs v <? 2 ^ PhtModel.pht_enc_band_numbps p (fst rc) (G.cb_band (snd rc))) (G.cb_data (snd rc)))
    (PM.enc_blocks p d)) coeffs.

(* no code-block is all-zero *)
Definition phy_no_zero (p : PM.pparams) (coeffs : list (list Z)) : bool :=
  forallb (fun d => forallb (fun rc => existsb (fun v => negb (v =? 0)) (G.cb_data (snd rc))) (PM.enc_blocks p d)) coeffs.

(* no HT code-block is longer than 65535 bytes *)
Definition phy_small (p : PM.pparams) (coeffs : list (list Z)) : bool :=
  forallb (fun d => forallb (fun rc =>
    match PhtModel.pht_enc_code_block p (fst rc) (snd rc) (G.cb_cbx (snd rc)) (G.cb_cby (snd rc)) with
    | Ok b => zlen (H.eb_data b) <=? 65535
    | _ => true
    end) (PM.enc_blocks p d)) coeffs.

Fixpoint phy_zlist_eqb (a b : list Z) : bool :=
  match a, b with
  | [], [] => true
  | x :: a', y :: b' => (x =? y) && phy_zlist_eqb a' b'
  | _, _ => false
  end.

Definition phy_delivers (b : H.eblock) (ci : K.cbinfo) : bool :=
  phy_zlist_eqb (K.ci_data ci) (H.eb_data b) && (K.ci_passes ci =? H.eb_npt b) && (K.ci_zbp ci =? H.eb_zbp b) && K.ci_zbpset ci &&
  match K.ci_pl ci with None => true | Some _ => false end.

Definition phy_hblk (p : PM.pparams) (r : Z) (cb : G.cblock) : H.eblock :=
  match PhtModel.pht_enc_code_block p r cb (G.cb_cbx cb) (G.cb_cby cb) with Ok b => b | _ => PM.mk_eblock 0 0 0 [] 0 end.

(* a non-zero block arrives as encoded (bytes, 1 pass, Kmax - 1 zero bit planes); an all-zero block
   has no entry or an entry without data *)
Definition phy_delivered (p : PM.pparams) (m : list ((Z * Z) * K.cbinfo)) (r i : Z) (cb : G.cblock) : bool :=
  if existsb (fun v => negb (v =? 0)) (G.cb_data cb) then
    match K.aget K.key2_eqb m (r, i) with Some ci => phy_delivers (phy_hblk p r cb) ci | None => false end
  else
    match K.aget K.key2_eqb m (r, i) with Some ci => zlen (K.ci_data ci) =? 0 | None => true end.

Definition phy_t2_delivers (p : PM.pparams) (coeffs : list (list Z)) (tile : list Z) : bool :=
  match K.dec_packets tile (PM.pp_order p) 1 (PM.pp_levels p + 1) (PM.pp_nc p) (PM.pipe_pgeom_dec p) (PM.dec_pidx p) (PM.dec_geo p) 64 false false with
  | Ok dps =>
    forallb (fun c => forallb (fun x => phy_delivered p (K.gather c (PM.dec_order p) [] dps) (fst (snd x)) (fst x) (snd (snd x)))
                              (phy_number 0 (PM.enc_blocks p (nth (Z.to_nat c) coeffs []))))
            (G.zrange (PM.pp_nc p))
  | _ => false
  end.

(* all four on the coefficients of an image: (kmax_fit, no_zero_block, block_sizes, t2_delivers) *)
Definition pht_hyps (p : PM.pparams) (pix tile : list Z) : outcome (bool * bool * bool * bool) :=
  obind (PM.pipe_coeffs p pix) (fun coeffs =>
    Ok (phy_kmax_fit p coeffs, phy_no_zero p coeffs, phy_small p coeffs, phy_t2_delivers p coeffs tile)).
