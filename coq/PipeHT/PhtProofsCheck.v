(* pipe-HT, part 6: executable checkers for the three named hypotheses of pht_roundtrip_partial
   (used for the concrete instances in Props/C06_pipe.v), and hyp_kmax_fit as a theorem for zero
   decomposition levels is NOT attempted here. *)
From V Require Import Common.Base J2KGeo.GeoModel T2.T2Header
  Pipe.PipeModel Pipe.PipeProofsFront PipeHT.PhtModel PipeHT.PhtProofsMain.
Require V.HT.HtBlockProofsQuad.

Definition kmax_fit_b (p : pparams) (coeffs : list (list Z)) : bool :=
  forallb (fun d => forallb (fun rc =>
    forallb (fun v => Z.abs v <? 2 ^ pht_enc_band_numbps p (fst rc) (cb_band (snd rc))) (cb_data (snd rc)))
    (enc_blocks p d)) coeffs.

Definition no_zero_block_b (p : pparams) (coeffs : list (list Z)) : bool :=
  forallb (fun d => forallb (fun rc => existsb (fun v => negb (v =? 0)) (cb_data (snd rc))) (enc_blocks p d)) coeffs.

Definition blocks_small_b (p : pparams) (coeffs : list (list Z)) : bool :=
  forallb (fun d => forallb (fun rc =>
    match pht_enc_code_block p (fst rc) (snd rc) (cb_cbx (snd rc)) (cb_cby (snd rc)) with
    | Ok b => zlen (eb_data b) <=? 65535
    | _ => true
    end) (enc_blocks p d)) coeffs.

Lemma kmax_fit_b_ok : forall p coeffs, kmax_fit_b p coeffs = true -> kmax_fit p coeffs.
Proof.
  intros p coeffs H d Hd r cb Hin. unfold kmax_fit_b in H. rewrite forallb_forall in H. specialize (H d Hd).
  rewrite forallb_forall in H. specialize (H (r, cb) Hin). cbn [fst snd] in H.
  unfold HtBlockProofsQuad.good. apply Forall_forall. intros v Hv. rewrite forallb_forall in H.
  apply Z.ltb_lt. apply H. exact Hv.
Qed.

Lemma no_zero_block_b_ok : forall p coeffs, no_zero_block_b p coeffs = true -> no_zero_block p coeffs.
Proof.
  intros p coeffs H d Hd r cb Hin. unfold no_zero_block_b in H. rewrite forallb_forall in H. specialize (H d Hd).
  rewrite forallb_forall in H. specialize (H (r, cb) Hin). cbn [fst snd] in H.
  apply existsb_exists in H. destruct H as [v [Hv Hn]]. exists v. split; [exact Hv|].
  apply negb_true_iff in Hn. apply Z.eqb_neq. exact Hn.
Qed.

Lemma blocks_small_b_ok : forall p coeffs, blocks_small_b p coeffs = true -> pht_blocks_small p coeffs.
Proof.
  intros p coeffs H d Hd r cb Hin b Eb. unfold blocks_small_b in H. rewrite forallb_forall in H. specialize (H d Hd).
  rewrite forallb_forall in H. specialize (H (r, cb) Hin). cbn [fst snd] in H. rewrite Eb in H. apply Z.leb_le. exact H.
Qed.

(* the three hypotheses for a concrete image, by computation *)
Lemma hyps_by_computation : forall p pix coeffs, pipe_coeffs p pix = Ok coeffs ->
  kmax_fit_b p coeffs = true -> no_zero_block_b p coeffs = true -> blocks_small_b p coeffs = true ->
  hyp_kmax_fit p pix /\ hyp_no_zero_block p pix /\ hyp_ht_block_sizes p pix.
Proof.
  intros p pix coeffs Ec H1 H2 H3. repeat split; intros c Ec'; rewrite Ec in Ec'; injection Ec' as <-.
  - apply kmax_fit_b_ok. exact H1.
  - apply no_zero_block_b_ok. exact H2.
  - apply blocks_small_b_ok. exact H3.
Qed.
