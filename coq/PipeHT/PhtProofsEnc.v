(* pipe, part 6: the encoder up to the precinct store - every code-block is encoded
   (pht_enc_one_block succeeds, precinct index 0, CBX/CBY = the block's grid position), and the
   store after buildTilePacketEncoderAt holds, per (component, resolution, 0), one Precinct per
   non-empty band with the grid and blocks the decoder expects (bspec). *)
From V Require Import Common.Base J2KGeo.GeoModel J2KGeo.GeoProofsLists J2KGeo.GeoProofsBlocks
  T2.T2Header T2.T2Packets T2.T2ProofsPackets1
  Pipe.PipeModel Pipe.PipeProofsFront Pipe.PipeProofsLists Pipe.PipeProofsStore Pipe.PipeProofsGeo
  Pipe.PipeProofsBlock Pipe.PipeCellRel PipeHT.PhtModel PipeHT.PhtProofsBlock.
Require V.T2.T2ProofsProg V.T2.T2ProofsPackets2 V.HT.HtBlockProofsQuad.

(* a code-block is not larger than the nominal code-block *)
Lemma partition_wh_le : forall b bd cbw cbh c, 1 <= cbw -> 1 <= cbh -> In c (enc_partition (b, bd) cbw cbh) ->
  cb_w c <= cbw /\ cb_h c <= cbh.
Proof.
  intros b bd cbw cbh c Hw Hh Hc. unfold enc_partition in Hc. apply in_flat_map in Hc as [cby [_ Hc]].
  apply in_map_iff in Hc as [cbx [<- _]]. cbn [cb_w cb_h].
  destruct (Z.gtb_spec (cbx * cbw + cbw) (b_w b)); destruct (Z.gtb_spec (cby * cbh + cbh) (b_h b)); lia.
Qed.

Lemma omap_map : forall {A B} (f : A -> outcome B) (g : A -> B) l,
  (forall a, In a l -> f a = Ok (g a)) -> omap f l = Ok (map g l).
Proof.
  induction l as [|a l IH]; intros H; cbn [omap map]; [reflexivity|].
  rewrite (H a (or_introl eq_refl)). cbn [obind]. rewrite IH by (intros b Hb; apply H; right; exact Hb). reflexivity.
Qed.

Lemma in_firstn' : forall {A} n (l : list A) v, In v (firstn n l) -> In v l.
Proof. induction n as [|n IH]; intros l v H; [destruct H|]. destruct l as [|a l]; [destruct H|]. cbn [firstn] in H. destruct H as [->|H]; [left; reflexivity | right; apply IH; exact H]. Qed.

Lemma in_skipn' : forall {A} n (l : list A) v, In v (skipn n l) -> In v l.
Proof. induction n as [|n IH]; intros l v H; [exact H|]. destruct l as [|a l]; [destruct H|]. cbn [skipn] in H. right. apply IH. exact H. Qed.

Lemma in_row_slice : forall l off n v, In v (row_slice l off n) -> In v l.
Proof. intros l off n v H. unfold row_slice in H. apply in_firstn' in H. apply in_skipn' in H. exact H. Qed.

Lemma in_crop : forall data stride x0 y0 w h v, In v (crop data stride x0 y0 w h) -> In v data.
Proof.
  intros data stride x0 y0 w h v H. unfold crop in H. apply in_flat_map in H as [ty [_ H]]. eapply in_row_slice. exact H.
Qed.

Section Enc.
Variable p : pparams.
Hypothesis Hsc : pp_scope p.
Variable d : list Z.                          (* the wavelet coefficients of one component *)
Hypothesis Hlen : zlen d = pp_w p * pp_h p.
Hypothesis Hbound : forall v, In v d -> - 2 ^ 25 < v < 2 ^ 25.
(* every coefficient of a code-block fits the Kmax magnitude bits of its band *)
Hypothesis Hfit : forall r cb, In (r, cb) (enc_blocks p d) ->
  HtBlockProofsQuad.good (pht_enc_band_numbps p r (cb_band cb)) (cb_data cb).
(* no code-block is all-zero *)
Hypothesis Hnz : forall r cb, In (r, cb) (enc_blocks p d) -> exists v, In v (cb_data cb) /\ v <> 0.

Let w := pp_w p.
Let h := pp_h p.
Let L := pp_levels p.
Let cbw := pp_cbw p.
Let cbh := pp_cbh p.

(* the block encodeCodeBlock produces *)
Definition hblk (r : Z) (cb : cblock) : eblock :=
  match pht_enc_code_block p r cb (cb_cbx cb) (cb_cby cb) with Ok b => b | _ => mk_eblock 0 0 0 [] 0 end.

Lemma HP : 1 <= pp_prec p <= 16.
Proof. destruct Hsc as (_ & _ & _ & H & _). exact H. Qed.

(* membership in the block list *)
Lemma in_enc_blocks : forall r cb, In (r, cb) (enc_blocks p d) ->
  0 <= r <= L /\ exists b, In b (rbands p r) /\ In cb (band_blocks p d b).
Proof.
  intros r cb H. unfold enc_blocks in H. apply in_flat_map in H as [r' [Hr' H]]. apply in_zrange in Hr'.
  apply in_map_iff in H as [c [E Hc]]. injection E as -> ->. fold L in Hr'. split; [lia|].
  rewrite enc_blocks_res_bands in Hc. apply in_flat_map in Hc. exact Hc.
Qed.

Lemma in_all_blocks : forall r cb, In (r, cb) (enc_blocks p d) -> In cb (enc_all_blocks d w h (pp_x0 p) (pp_y0 p) L cbw cbh).
Proof.
  intros r cb H. unfold enc_blocks in H. apply in_flat_map in H as [r' [Hr' H]].
  apply in_map_iff in H as [c [E Hc]]. injection E as -> ->.
  unfold enc_all_blocks. apply in_flat_map. exists r. split; [exact Hr'|exact Hc].
Qed.

Lemma block_facts : forall r cb, In (r, cb) (enc_blocks p d) ->
  rb_valid p r (cb_band cb) /\ coef_ok cb /\ 0 <= cb_band cb <= 3 /\
  0 <= cb_cbx cb * cbw < 32768 /\ 0 <= cb_cby cb * cbh < 32768 /\ 0 <= cb_cbx cb /\ 0 <= cb_cby cb.
Proof.
  intros r cb Hin. destruct (in_enc_blocks r cb Hin) as [Hr [b [Hb Hcb]]].
  destruct (wh_range p Hsc) as (Hw & Hh & HL). destruct (cb_range p Hsc) as [Cw Ch]. fold w h L in Hw, Hh, HL. fold cbw cbh in Cw, Ch.
  pose proof (encs_good w h (pp_x0 p) (pp_y0 p) L cbw cbh ltac:(lia) ltac:(lia) ltac:(lia) ltac:(lia) d Hlen cb (in_all_blocks r cb Hin))
    as (G1 & G2 & G3 & G4 & G5 & G6 & G7).
  assert (Hband : cb_band cb = b_id b) by (apply (partition_band _ _ _ _ _ Hcb)).
  assert (Hbo : In (b_id b) (band_order r)) by (rewrite <- (rbands_ids p r); apply in_map; exact Hb).
  assert (Hpos : In (cb_cbx cb, cb_cby cb) (bgrid p b)).
  { pose proof Hcb as Hcb2. unfold band_blocks in Hcb2.
    apply (in_map (fun c => (cb_cbx c, cb_cby c))) in Hcb2. rewrite partition_grid in Hcb2. exact Hcb2. }
  apply in_grid_positions in Hpos. destruct Hpos as [Hx Hy].
  pose proof (nx_bound p Hsc r b _ Hr Hb Hx) as Nx. pose proof (ny_bound p Hsc r b _ Hr Hb Hy) as Ny.
  fold cbw in Nx. fold cbh in Ny.
  split; [|split; [|split]].
  - unfold rb_valid. fold L. split; [exact Hr|]. rewrite Hband. unfold band_order in Hbo.
    destruct (Z.eqb_spec r 0) as [->|Hne]; cbn [In] in Hbo; [left; lia | right; lia].
  - unfold coef_ok. split; [|split; [lia|split; [lia|]]].
    + rewrite G7. rewrite crop_length.
      * lia.
      * lia.
      * unfold zlen in Hlen. nia.
    + intros v Hv. rewrite G7 in Hv. apply in_crop in Hv. apply Hbound. exact Hv.
  - rewrite Hband. unfold band_order in Hbo. destruct (r =? 0); cbn [In] in Hbo; lia.
  - repeat split; lia.
Qed.

Lemma block_facts_ht : forall r cb, In (r, cb) (enc_blocks p d) -> ht_coef_ok p r cb.
Proof.
  intros r cb Hin. destruct (block_facts r cb Hin) as (_ & (Hl & Hw1 & Hh1 & _) & _).
  destruct (in_enc_blocks r cb Hin) as [Hr [b [Hb Hcb]]].
  destruct (cb_range p Hsc) as [Cw Ch]. fold cbw cbh in Cw, Ch.
  destruct (partition_wh_le _ _ cbw cbh cb ltac:(lia) ltac:(lia) Hcb) as [Wl Hl'].
  unfold ht_coef_ok. fold cbw cbh. split; [|split; [lia|split; [lia|split; [apply Hfit; exact Hin | apply (Hnz r cb Hin)]]]].
  unfold zlen. rewrite Hl. lia.
Qed.

Lemma scope_parts : 0 <= pp_levels p <= 6 /\ pow2_size (pp_cbw p) /\ pow2_size (pp_cbh p) /\ pp_cbw p * pp_cbh p <= 4096.
Proof. destruct Hsc as (_ & _ & _ & _ & A & B & C & D & _). auto. Qed.

Lemma hblk_spec : forall r cb, In (r, cb) (enc_blocks p d) ->
  pht_enc_code_block p r cb (cb_cbx cb) (cb_cby cb) = Ok (hblk r cb).
Proof.
  intros r cb Hin. destruct (block_facts r cb Hin) as (Hv & Hco & _).
  destruct (pht_enc_code_block_spec p HP (proj1 scope_parts) (proj1 (proj2 scope_parts)) (proj1 (proj2 (proj2 scope_parts))) (proj2 (proj2 (proj2 scope_parts))) r cb (cb_cbx cb) (cb_cby cb) Hv (block_facts_ht r cb Hin)) as [b [E _]].
  unfold hblk. rewrite E. reflexivity.
Qed.

Lemma pht_enc_one_block_ok : forall r cb, In (r, cb) (enc_blocks p d) ->
  pht_enc_one_block p (r, cb) = Ok (r, 0, cb_band cb, hblk r cb).
Proof.
  intros r cb Hin. destruct (block_facts r cb Hin) as (_ & _ & _ & Hx & Hy & Hx0 & Hy0).
  destruct (cb_range p Hsc) as [Cw Ch]. fold cbw cbh in Cw, Ch.
  unfold pht_enc_one_block. fold cbw cbh.
  assert (Epi : enc_precinct_index p (cb_cbx cb * cbw) (cb_cby cb * cbh) r = 0).
  { unfold enc_precinct_index, prec_sz. rewrite (Z.quot_small (cb_cbx cb * cbw)), (Z.quot_small (cb_cby cb * cbh)) by lia. lia. }
  rewrite Epi. unfold prec_sz. rewrite (Z.quot_small (cb_cbx cb * cbw)), (Z.quot_small (cb_cby cb * cbh)) by lia.
  rewrite !Z.mul_0_l, !Z.sub_0_r. rewrite !Z.quot_mul by lia.
  rewrite (hblk_spec r cb Hin). reflexivity.
Qed.

(* fields of the block *)
Lemma hblk_fields : forall r cb, In (r, cb) (enc_blocks p d) ->
  eb_cbx (hblk r cb) = cb_cbx cb /\ eb_cby (hblk r cb) = cb_cby cb /\
  eb_included (hblk r cb) = false /\ eb_nlb (hblk r cb) = 0 /\ 0 <= eb_zbp (hblk r cb) < 32 /\
  eb_ld (hblk r cb) = None /\ eb_lp (hblk r cb) = [] /\ eb_pl (hblk r cb) = [] /\ eb_passes (hblk r cb) = [] /\
  eb_termall (hblk r cb) = false /\ 0 < zlen (eb_data (hblk r cb)) /\ 1 <= eb_npt (hblk r cb) <= 164.
Proof.
  intros r cb Hin. destruct (block_facts r cb Hin) as (Hv & Hco & _).
  destruct (pht_enc_code_block_spec p HP (proj1 scope_parts) (proj1 (proj2 scope_parts)) (proj1 (proj2 (proj2 scope_parts))) (proj2 (proj2 (proj2 scope_parts))) r cb (cb_cbx cb) (cb_cby cb) Hv (block_facts_ht r cb Hin)) as [b [E F]].
  rewrite (hblk_spec r cb Hin) in E. injection E as <-.
  destruct F as (F1 & F2 & F3 & F4 & F5 & F6 & F7 & F8 & F9 & F10 & F11 & F12 & _). repeat split; assumption || lia.
Qed.

(* the block comes back when T2 delivers it *)
Lemma hblk_decodes : forall r cb m idx ci, In (r, cb) (enc_blocks p d) ->
  aget key2_eqb m (r, idx) = Some ci -> delivers (hblk r cb) ci ->
  pht_dec_code_block p m idx (r, cell_of_block cb) =
    Ok (cb_gx0 cb, cb_gy0 cb, cb_gx0 cb + cb_w cb, cb_gy0 cb + cb_h cb, cb_data cb).
Proof.
  intros r cb m idx ci Hin Hget Hdel. destruct (block_facts r cb Hin) as (Hv & Hco & Hb & _).
  destruct (pht_enc_code_block_spec p HP (proj1 scope_parts) (proj1 (proj2 scope_parts)) (proj1 (proj2 (proj2 scope_parts))) (proj2 (proj2 (proj2 scope_parts))) r cb (cb_cbx cb) (cb_cby cb) Hv (block_facts_ht r cb Hin)) as [b [E F]].
  rewrite (hblk_spec r cb Hin) in E. injection E as <-.
  destruct F as (_ & _ & _ & _ & _ & _ & _ & _ & _ & _ & _ & _ & Fd).
  unfold cell_of_block. apply (Fd m idx (cb_gx0 cb) (cb_gy0 cb) ci Hb Hget Hdel).
Qed.

(* ---------- the groups handed to AddCodeBlock ---------- *)

Definition band_group (r : Z) (b : band) : list (Z * list eblock) :=
  match band_blocks p d b with [] => [] | bl => [(b_id b, map (hblk r) bl)] end.
Definition res_group (r : Z) : group := (r, flat_map (band_group r) (rbands p r)).
Definition comp_groups : list group := map res_group (zrange (L + 1)).

Definition band_spec (r : Z) (b : band) : list bspec :=
  match band_blocks p d b with [] => [] | bl => [(b_id b, bnx p b, bny p b, map (hblk r) bl)] end.
Definition res_specs (r : Z) : list bspec := flat_map (band_spec r) (rbands p r).

Lemma enc_comp_ok :
  omap (pht_enc_one_block p) (enc_blocks p d) = Ok (comp_adds comp_groups).
Proof.
  rewrite (omap_map (pht_enc_one_block p) (fun rc => (fst rc, 0, cb_band (snd rc), hblk (fst rc) (snd rc)))).
  2:{ intros [r cb] Hin. apply pht_enc_one_block_ok. exact Hin. }
  f_equal. unfold enc_blocks, comp_adds, comp_groups. fold L. rewrite map_flat_map, flat_map_map.
  apply flat_map_ext_in. intros r _. unfold group_adds, res_group. cbn [fst snd].
  rewrite map_map. cbn [fst snd]. rewrite enc_blocks_res_bands.
  unfold cell_adds. rewrite flat_map_flat_map'. rewrite !map_flat_map.
  apply flat_map_ext_in. intros b _. unfold band_group.
  destruct (band_blocks p d b) as [|c0 bl] eqn:Eb; [reflexivity|]. rewrite <- Eb. clear Eb c0 bl.
  cbn [flat_map fst snd]. rewrite app_nil_r, !map_map. apply map_ext_in. intros c Hc. cbn [fst snd].
  rewrite (partition_band _ _ _ _ _ Hc). reflexivity.
Qed.

(* ---------- the Precinct objects as band specifications ---------- *)

Hypothesis Hsmall : forall r cb, In (r, cb) (enc_blocks p d) -> zlen (eb_data (hblk r cb)) <= 65535.

Lemma band_blocks_in : forall r b c, 0 <= r <= L -> In b (rbands p r) -> In c (band_blocks p d b) -> In (r, c) (enc_blocks p d).
Proof.
  intros r b c Hr Hb Hc. unfold enc_blocks. apply in_flat_map. exists r. split; [apply in_zrange; fold L; lia|].
  apply in_map. rewrite enc_blocks_res_bands. apply in_flat_map. exists b. split; assumption.
Qed.

Lemma band_blocks_pos : forall b, map (fun c => (cb_cbx c, cb_cby c)) (band_blocks p d b) = bgrid p b.
Proof. intros b. unfold band_blocks. apply partition_grid. Qed.

Lemma band_blocks_nil_iff : forall b, band_blocks p d b = [] <-> bgrid p b = [].
Proof.
  intros b. rewrite <- band_blocks_pos. split; [intros ->; reflexivity|]. intros H. destruct (band_blocks p d b); [reflexivity | discriminate].
Qed.

Lemma grid_dims_pos : forall b, bgrid p b <> [] -> 0 < bnx p b /\ 0 < bny p b.
Proof.
  intros b Hne. destruct (Z_le_gt_dec (bnx p b) 0) as [H0|H0].
  - exfalso. apply Hne. apply grid_positions_nil. left. exact H0.
  - destruct (Z_le_gt_dec (bny p b) 0) as [H1|H1]; [|lia]. exfalso. apply Hne. apply grid_positions_nil. right. exact H1.
Qed.

Lemma hblk_positions : forall r b, 0 <= r <= L -> In b (rbands p r) ->
  map (fun e => (eb_cbx e, eb_cby e)) (map (hblk r) (band_blocks p d b)) = bgrid p b.
Proof.
  intros r b Hr Hb. rewrite <- band_blocks_pos, map_map. apply map_ext_in. intros c Hc.
  destruct (hblk_fields r c (band_blocks_in r b c Hr Hb Hc)) as (A & B & _). rewrite A, B. reflexivity.
Qed.

Lemma band_of_spec : forall r b, 0 <= r <= L -> In b (rbands p r) -> band_blocks p d b <> [] ->
  band_of (b_id b) (map (hblk r) (band_blocks p d b)) = bs_eband (b_id b, bnx p b, bny p b, map (hblk r) (band_blocks p d b)).
Proof.
  intros r b Hr Hb Hne. unfold band_of, bs_eband, bs_id, bs_nx, bs_ny, bs_blocks. cbn [fst snd].
  pose proof (hblk_positions r b Hr Hb) as Hpos.
  assert (Hg : bgrid p b <> []) by (intros E; apply Hne; apply band_blocks_nil_iff; exact E).
  destruct (grid_dims_pos b Hg) as [Hx Hy].
  assert (Ex : map eb_cbx (map (hblk r) (band_blocks p d b)) = map fst (bgrid p b)) by (rewrite <- Hpos, !map_map; reflexivity).
  assert (Ey : map eb_cby (map (hblk r) (band_blocks p d b)) = map snd (bgrid p b)) by (rewrite <- Hpos, !map_map; reflexivity).
  rewrite Ex, Ey.
  rewrite (maxp1_bound (map fst (bgrid p b)) (bnx p b)), (maxp1_bound (map snd (bgrid p b)) (bny p b)); try lia; try reflexivity.
  - intros v Hv. apply in_map_iff in Hv as [[x y] [<- Hxy]]. apply in_grid_positions in Hxy. cbn [snd]. lia.
  - apply in_map_iff. exists (0, bny p b - 1). split; [reflexivity|]. apply in_grid_positions. lia.
  - intros v Hv. apply in_map_iff in Hv as [[x y] [<- Hxy]]. apply in_grid_positions in Hxy. cbn [fst]. lia.
  - apply in_map_iff. exists (bnx p b - 1, 0). split; [reflexivity|]. apply in_grid_positions. lia.
Qed.

Lemma group_bands_specs : forall r, 0 <= r <= L -> group_bands (res_group r) = map bs_eband (res_specs r).
Proof.
  intros r Hr. unfold group_bands, res_group, res_specs. cbn [snd]. rewrite !map_flat_map.
  apply flat_map_ext_in. intros b Hb. unfold band_group, band_spec.
  destruct (band_blocks p d b) as [|c0 bl] eqn:Eb; [reflexivity|]. rewrite <- Eb.
  cbn [map fst snd]. f_equal. apply (band_of_spec r b Hr Hb). rewrite Eb. discriminate.
Qed.

Lemma res_specs_ok : forall r, 0 <= r <= L -> Forall bspec_ok (res_specs r).
Proof.
  intros r Hr. unfold res_specs. apply Forall_forall. intros s Hs. apply in_flat_map in Hs as [b [Hb Hs]].
  unfold band_spec in Hs. destruct (band_blocks p d b) as [|c0 bl] eqn:Eb; [destruct Hs|]. rewrite <- Eb in Hs.
  destruct Hs as [<-|[]].
  assert (Hne : band_blocks p d b <> []) by (rewrite Eb; discriminate).
  assert (Hg : bgrid p b <> []) by (intros E; apply Hne; apply band_blocks_nil_iff; exact E).
  destruct (grid_dims_pos b Hg) as [Hx Hy].
  unfold bspec_ok, bs_nx, bs_ny, bs_blocks. cbn [fst snd]. split; [exact Hx|]. split; [exact Hy|]. split.
  - apply (hblk_positions r b Hr Hb).
  - apply Forall_forall. intros e He. apply in_map_iff in He as [c [<- Hc]].
    pose proof (band_blocks_in r b c Hr Hb Hc) as Hin.
    destruct (hblk_fields r c Hin) as (_ & _ & F3 & F4 & F5 & F6 & F7 & F8 & F9 & F10 & F11 & F12).
    pose proof (Hsmall r c Hin). unfold fresh_block. repeat split; assumption || lia.
Qed.

Lemma band_spec_ids : forall r b, map bs_id (band_spec r b) = match band_blocks p d b with [] => [] | _ => [b_id b] end.
Proof. intros r b. unfold band_spec. destruct (band_blocks p d b); reflexivity. Qed.

Lemma res_specs_ids : forall r, 0 <= r <= L -> T2ProofsPackets1.ids_ok r (map bs_id (res_specs r)).
Proof.
  intros r Hr. unfold res_specs. rewrite map_flat_map.
  pose proof (rbands_ids p r) as Hid. unfold T2ProofsPackets1.ids_ok, band_order in *.
  destruct (rbands p r) as [|b1 [|b2 [|b3 [|b4 l]]]]; destruct (r =? 0); cbn [map] in Hid; try discriminate.
  - injection Hid as E1. cbn [flat_map]. rewrite app_nil_r, band_spec_ids, E1. destruct (band_blocks p d b1); auto.
  - injection Hid as E1 E2 E3. cbn [flat_map]. rewrite app_nil_r, !band_spec_ids, E1, E2, E3.
    destruct (band_blocks p d b1); destruct (band_blocks p d b2); destruct (band_blocks p d b3); cbn [app]; auto 10.
Qed.

Lemma find_app' : forall {A} (P : A -> bool) a b, find P (a ++ b) = match find P a with Some x => Some x | None => find P b end.
Proof. induction a as [|x a IH]; intros b; cbn [app find]; [reflexivity|]. destruct (P x); [reflexivity | apply IH]. Qed.

Lemma find_none' : forall {A} (P : A -> bool) l, (forall x, In x l -> P x = false) -> find P l = None.
Proof. induction l as [|x l IH]; intros H; cbn [find]; [reflexivity|]. rewrite (H x (or_introl eq_refl)). apply IH. intros y Hy. apply H. right. exact Hy. Qed.

Lemma find_flat_map_band : forall (f : band -> list bspec) (l : list band) b,
  (forall b' s, In b' l -> In s (f b') -> bs_id s = b_id b') -> In b l ->
  (forall b', In b' l -> b_id b' = b_id b -> b' = b) ->
  find (fun s => bs_id s =? b_id b) (flat_map f l) = find (fun s => bs_id s =? b_id b) (f b).
Proof.
  intros f l b Hid Hb Hinj.
  destruct (find (fun s => bs_id s =? b_id b) (f b)) as [s0|] eqn:Ef.
  - induction l as [|b0 l IH]; [destruct Hb|]. cbn [flat_map]. rewrite find_app'.
    destruct (Z.eq_dec (b_id b0) (b_id b)) as [E|Hne].
    + assert (b0 = b) by (apply Hinj; [left; reflexivity | exact E]). subst b0. rewrite Ef. reflexivity.
    + rewrite (find_none' _ (f b0)).
      * destruct Hb as [->|Hb]; [contradiction|]. apply IH; [|exact Hb|].
        -- intros b' s Hb' Hs. apply Hid; [right; exact Hb' | exact Hs].
        -- intros b' Hb' E'. apply Hinj; [right; exact Hb' | exact E'].
      * intros s Hs. apply Z.eqb_neq. rewrite (Hid b0 s (or_introl eq_refl) Hs). exact Hne.
  - apply find_none'. intros s Hs. apply in_flat_map in Hs as [b' [Hb' Hs]].
    destruct (Z.eq_dec (b_id b') (b_id b)) as [E|Hne].
    + assert (b' = b) by (apply Hinj; assumption). subst b'. apply (find_none _ _ Ef s Hs).
    + apply Z.eqb_neq. rewrite (Hid b' s Hb' Hs). exact Hne.
Qed.

Lemma res_specs_find : forall r b, 0 <= r <= L -> In b (rbands p r) ->
  find (fun s => bs_id s =? b_id b) (res_specs r) =
    match bgrid p b with [] => None | _ => Some (b_id b, bnx p b, bny p b, map (hblk r) (band_blocks p d b)) end.
Proof.
  intros r b Hr Hb. unfold res_specs. rewrite (find_flat_map_band (band_spec r) (rbands p r) b).
  - unfold band_spec. destruct (band_blocks p d b) as [|c0 bl] eqn:Eb.
    + assert (Hg : bgrid p b = []) by (apply band_blocks_nil_iff; exact Eb). rewrite Hg. reflexivity.
    + rewrite <- Eb. cbn [find bs_id fst]. rewrite Z.eqb_refl.
      assert (Hg : bgrid p b <> []) by (intros E'; apply band_blocks_nil_iff in E'; rewrite Eb in E'; discriminate).
      destruct (bgrid p b); [congruence | reflexivity].
  - intros b' s _ Hs. unfold band_spec in Hs. destruct (band_blocks p d b'); [destruct Hs|]. destruct Hs as [<-|[]]. reflexivity.
  - exact Hb.
  - intros b' Hb' E. apply (rbands_id_inj p r b' b Hb' Hb E).
Qed.

Lemma comp_groups_ok : NoDup (map fst comp_groups) /\ Forall group_ok comp_groups.
Proof.
  unfold comp_groups. split.
  - rewrite map_map. cbn [res_group fst]. rewrite map_id. apply (T2ProofsProg.nodup_zseq (L + 1)).
  - apply Forall_forall. intros g Hg. apply in_map_iff in Hg as [r [<- Hr]]. apply in_zrange in Hr.
    unfold group_ok, res_group. cbn [snd]. split.
    + (* band ids are distinct *)
      assert (Hnd : NoDup (map b_id (rbands p r))) by (rewrite rbands_ids; apply T2ProofsPackets2.band_order_nodup).
      revert Hnd. generalize (rbands p r) as l. induction l as [|b l IH]; intros Hnd; [constructor|].
      cbn [flat_map map] in *. inversion Hnd as [|? ? Hni Hnd']; subst. rewrite map_app.
      unfold band_group at 1. destruct (band_blocks p d b); cbn [map app fst]; [apply IH; exact Hnd'|].
      constructor; [|apply IH; exact Hnd'].
      intros Hin. apply Hni. apply in_map_iff in Hin as [x [Ex Hx]]. apply in_flat_map in Hx as [b' [Hb' Hx]].
      unfold band_group in Hx. destruct (band_blocks p d b'); [destruct Hx|]. destruct Hx as [<-|[]]. cbn [fst] in Ex. rewrite <- Ex. apply in_map. exact Hb'.
    + intros x Hx. apply in_flat_map in Hx as [b [_ Hx]]. unfold band_group in Hx.
      destruct (band_blocks p d b) eqn:Eb; [destruct Hx|]. destruct Hx as [<-|[]]. cbn [snd map]. discriminate.
Qed.

End Enc.
