(* pipe-HT, part 10: the Kmax-fit hypothesis.
   (A) The route "sharp multilevel growth bound => Kmax fit" CANNOT work: DwtGrowth2.fwd53_ml_bound_sharp
       bounds the WHOLE coefficient array by 231 * A + 227 (A the sample bound), whereas Kmax of a band
       is only P + 1 .. P + 3 (+ 1 with the RCT bit) bits: growth_bound_above_kmax shows, by computation
       over the whole domain (precision 1..16, levels 1..6, every band, with / without the RCT bit), that
       even with the tight sample bound A = 2^(P-1) the growth bound is >= 2^Kmax for EVERY band.  The
       fit needs the per-band BIBO gains of the composite multi-level filters (HtProofsLevels.kmax_sufficient
       takes them as a premise) plus a bound < 4 on the accumulated rounding of the integer lifting
       steps; the tightest band is HH at decomposition depth 5 (gain 7.9513 of 8: at 8 bits the BIBO
       pattern reaches |c| = 1015 of the 1023 allowed).  That analysis is NOT done here.
   (B) For ZERO decomposition levels the fit is a theorem (pht_kmax_fit_levels0): the level-shifted
       samples are within 2^(P-1) (Kmax = P) and the RCT outputs within 2^P (Kmax = P + 1). *)
From V Require Import Common.Base J2KGeo.GeoModel J2KGeo.GeoProofsSamples J2KGeo.GeoProofsBlocks T2.T2Header
  HT.HtLevels HT.HtProofsLevels
  Pipe.PipeModel Pipe.PipeProofsFront Pipe.PipeProofsGeo Pipe.PipeProofsBlock
  PipeHT.PhtModel PipeHT.PhtProofsEnc PipeHT.PhtProofsMain PipeHT.PhtProofsDeliv.
Require V.HT.HtBlockProofsQuad V.HT.HtProofsTables.

(* ---------- (A) ---------- *)
Lemma growth_bound_above_kmax : forall rct,
  forallb (fun P => forallb (fun L => forallb (fun idx =>
      2 ^ kmax_of L P rct idx <=? 231 * 2 ^ (P - 1) + 227) (HtProofsTables.zrange 0 (3 * L))) (HtProofsTables.zrange 1 6)) (HtProofsTables.zrange 1 16) = true.
Proof. intros [|]; vm_compute; reflexivity. Qed.

(* ---------- (B) ---------- *)
Lemma kmax_levels0_table : forall rct,
  forallb (fun P => HtLevels.enc_band_numbps 0 P rct 0 0 =? (if rct then P + 1 else P)) (HtProofsTables.zrange 1 16) = true.
Proof. intros [|]; vm_compute; reflexivity. Qed.

Lemma kmax_levels0 : forall P rct, 1 <= P <= 16 -> HtLevels.enc_band_numbps 0 P rct 0 0 = if rct then P + 1 else P.
Proof.
  intros P rct HP. pose proof (proj1 (forallb_forall _ _) (kmax_levels0_table rct) P (HtProofsTables.In_zrange 1 16 P HP)) as H.
  cbv beta in H. apply Z.eqb_eq in H. exact H.
Qed.

(* the planes after DC shift and (when it applies) RCT, with the tight bounds *)
Lemma front_tight : forall p samples, pp_scope p -> samples_ok p samples ->
  exists planes, pipe_front p (pack_image p samples) = Ok planes /\
    planes_ok p (if uses_rct p then 2 ^ pp_prec p else 2 ^ (pp_prec p - 1)) planes.
Proof.
  intros p samples Hsc Hsm. destruct (shifted_planes p samples Hsc Hsm) as [data [Ec [Hok _]]].
  pose proof Hsc as (Hw & Hh & Hnc & HP & _).
  assert (Hpp : 0 < 2 ^ (pp_prec p - 1) /\ 2 ^ pp_prec p = 2 * 2 ^ (pp_prec p - 1) /\ 2 ^ (pp_prec p - 1) <= 32768)
    by (destruct (pow2_bounds (pp_prec p) HP) as [A B]; lia).
  unfold pipe_front. rewrite Ec. cbn [obind].
  destruct (uses_rct p) eqn:Er.
  - unfold uses_rct in Er. apply andb_true_iff in Er as [Em E3]. apply Z.eqb_eq in E3.
    destruct Hok as [Hl3 Hall]. rewrite E3 in Hl3.
    destruct (level_shift_all (pp_prec p) (pp_signed p) data) as [|r [|g [|b [|x rest]]]] eqn:Ed; try discriminate.
    inversion Hall as [|? ? [Lr Fr] Hall1]; subst. inversion Hall1 as [|? ? [Lg Fg] Hall2]; subst.
    inversion Hall2 as [|? ? [Lb Fb] _]; subst.
    eexists. split; [reflexivity|].
    assert (Hlen1 : length r = length g) by congruence. assert (Hlen2 : length g = length b) by congruence.
    pose proof (rct_fwd_list_bound (2 ^ (pp_prec p - 1)) r g b ltac:(change (2 ^ 27) with 134217728; lia) Fr Fg Fb) as Hb.
    unfold planes_ok. rewrite E3. split; [reflexivity|]. unfold rct_planes. cbn [nth].
    repeat constructor; rewrite ?map_length, ?rct_fwd_list_length by assumption; try assumption;
      apply Forall_map_iff; eapply Forall_impl; [|exact Hb| |exact Hb| |exact Hb]; intros t [A [B C]]; lia.
  - eexists. split; [reflexivity|]. exact Hok.
Qed.

(* the coefficients of a code-block are coefficients of the component *)
Lemma block_values_in : forall p, pp_scope p -> forall d, zlen d = pp_w p * pp_h p ->
  forall r cb, In (r, cb) (enc_blocks p d) -> forall v, In v (cb_data cb) -> In v d.
Proof.
  intros p Hsc d Hlen r cb Hin v Hv.
  destruct (wh_range p Hsc) as (Hw & Hh & HL). destruct (cb_range p Hsc) as [Cw Ch].
  pose proof (encs_good (pp_w p) (pp_h p) (pp_x0 p) (pp_y0 p) (pp_levels p) (pp_cbw p) (pp_cbh p)
                ltac:(lia) ltac:(lia) ltac:(lia) ltac:(lia) d Hlen cb (in_all_blocks p d r cb Hin))
    as (_ & _ & _ & _ & _ & _ & G7).
  rewrite G7 in Hv. apply in_crop in Hv. exact Hv.
Qed.

Theorem pht_kmax_fit_levels0 : forall p samples, pht_scope p -> pp_levels p = 0 -> samples_ok p samples ->
  hyp_kmax_fit p (pack_image p samples).
Proof.
  intros p samples [Hsc _] HL0 Hsm coeffs Ec d Hd r cb Hin.
  destruct (front_tight p samples Hsc Hsm) as [planes [Ef [Hnp Hpl]]].
  unfold pipe_coeffs in Ec. rewrite Ef in Ec. cbn [obind] in Ec. injection Ec as <-.
  apply in_map_iff in Hd as [pl [Epl Hplin]].
  assert (Eid : pipe_fdwt p pl = pl) by (unfold pipe_fdwt; rewrite HL0; reflexivity).
  rewrite Eid in Epl. subst d.
  rewrite Forall_forall in Hpl. destruct (Hpl pl Hplin) as [Hlen Hb].
  pose proof Hsc as (Hw & Hh & Hnc & HP & _).
  assert (Hpp : 0 < 2 ^ (pp_prec p - 1) /\ 2 ^ pp_prec p = 2 * 2 ^ (pp_prec p - 1) /\ 2 ^ (pp_prec p - 1) <= 32768)
    by (destruct (pow2_bounds (pp_prec p) HP) as [A B]; lia).
  assert (Hzl : zlen pl = pp_w p * pp_h p) by (unfold zlen; rewrite Hlen; nia).
  assert (Hbound : forall v, In v pl -> - 2 ^ 25 < v < 2 ^ 25).
  { intros v Hv. rewrite Forall_forall in Hb. specialize (Hb v Hv). cbv beta in Hb. change (2 ^ 25) with 33554432.
    destruct (uses_rct p); lia. }
  destruct (block_facts p Hsc pl Hzl Hbound r cb Hin) as ([Hr Hrb] & _).
  rewrite HL0 in Hr. assert (r = 0) by lia. subst r.
  destruct Hrb as [[_ Eb]|[Hr1 _]]; [|lia].
  rewrite Eb. unfold pht_enc_band_numbps. rewrite HL0, (kmax_levels0 (pp_prec p) (pht_rct p) HP).
  unfold HtBlockProofsQuad.good. apply Forall_forall. intros v Hv.
  pose proof (block_values_in p Hsc pl Hzl 0 cb Hin v Hv) as Hvin.
  rewrite Forall_forall in Hb. specialize (Hb v Hvin). cbv beta in Hb.
  destruct (uses_rct p) eqn:Er.
  - assert (Erct : pht_rct p = true).
    { unfold uses_rct in Er. apply andb_true_iff in Er as [Em E3]. apply Z.eqb_eq in E3. unfold pht_rct. rewrite Em, E3. reflexivity. }
    rewrite Erct. rewrite Z.pow_add_r by lia. change (2 ^ 1) with 2. lia.
  - destruct (pht_rct p).
    + rewrite Z.pow_add_r by lia. change (2 ^ 1) with 2. lia.
    + lia.
Qed.

(* ---------- corollaries: zero levels, without the Kmax hypothesis ---------- *)
Theorem pht_roundtrip_partial2_levels0 : forall p samples, pht_scope p -> pp_levels p = 0 -> samples_ok p samples ->
  let pix := pack_image p samples in
  hyp_no_zero_block p pix -> hyp_ht_block_sizes p pix ->
  exists tile, pht_encode_tile p pix = Ok tile /\ pht_decode_tile p tile = Ok pix.
Proof.
  intros p samples Hs HL0 Hsm pix Hnz Hbs.
  exact (pht_roundtrip_partial p samples Hs Hsm (pht_kmax_fit_levels0 p samples Hs HL0 Hsm) Hnz Hbs).
Qed.

Theorem pht_decode_given_delivery2_levels0 : forall p samples tile, pht_scope p -> pp_levels p = 0 -> samples_ok p samples ->
  let pix := pack_image p samples in
  hyp_t2_delivers p pix tile -> pht_decode_tile p tile = Ok pix.
Proof.
  intros p samples tile Hs HL0 Hsm pix Ht.
  exact (pht_decode_given_delivery p samples tile Hs Hsm (pht_kmax_fit_levels0 p samples Hs HL0 Hsm) Ht).
Qed.

(* ---------- the full statement (OPEN: neither proved nor refuted) ---------- *)
(* For >= 1 decomposition level the fit is tight: the BIBO sign pattern of the HH band at depth 5
   gives |c| = 1015 at 8 bits (allowed < 1024), 965 at depth 3, 796 at depth 2; a hill-climbing
   search around these patterns (precision 1, 2, 3, 8; depths 2..5; /verif/.work/pht-prog34/kmax,
   whose integer 5/3 replica equals PipeModel.pipe_coeffs) found no coefficient reaching 2^Kmax, and
   the Go HTJ2K codec round-trips every pattern.  The correspondence suite evaluates the fit on every
   generated case (check (e), PhtHyps.phy_kmax_fit). *)
Definition pht_kmax_fit_statement : Prop :=
  forall p samples, pht_scope p -> samples_ok p samples -> hyp_kmax_fit p (pack_image p samples).
