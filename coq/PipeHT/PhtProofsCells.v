(* pipe, part 7: the packet encoder's precinct store after buildTilePacketEncoderAt, for all
   components: cell (c, r, 0) holds the Precinct objects of resolution r of component c. *)
From V Require Import Common.Base J2KGeo.GeoModel T2.T2Header T2.T2Packets T2.T2ProofsPackets1
  Pipe.PipeModel Pipe.PipeProofsFront Pipe.PipeProofsLists Pipe.PipeProofsStore Pipe.PipeProofsGeo
  Pipe.PipeProofsBlock Pipe.PipeCellRel PipeHT.PhtModel PipeHT.PhtProofsEnc.
Require V.HT.HtBlockProofsQuad.

Definition comp_ok (p : pparams) (d : list Z) (gs : list group) : Prop :=
  omap (pht_enc_one_block p) (enc_blocks p d) = Ok (comp_adds gs) /\ NoDup (map fst gs) /\ Forall group_ok gs.

Lemma pht_enc_add_comps_spec : forall p coeffs gss comp cells,
  Forall2 (comp_ok p) coeffs gss ->
  (forall i gs g, nth_error gss i = Some gs -> In g gs -> cget cells (comp + Z.of_nat i, fst g, 0) = []) ->
  exists cells', pht_enc_add_comps p comp cells coeffs = Ok cells' /\
    (forall i gs g, nth_error gss i = Some gs -> In g gs -> cget cells' (comp + Z.of_nat i, fst g, 0) = group_bands g) /\
    (forall k, (forall i gs g, nth_error gss i = Some gs -> In g gs -> k <> (comp + Z.of_nat i, fst g, 0)) ->
       cget cells' k = cget cells k) /\
    (cells_norm cells -> cells_norm cells') /\ (keys0 cells -> keys0 cells').
Proof.
  intros p coeffs gss comp cells H. revert comp cells. induction H as [|d gs ds gss' [Ho [Hnd Hok]] _ IH]; intros comp cells Hemp.
  - exists cells. cbn [pht_enc_add_comps]. split; [reflexivity|]. split; [intros i gs g Hi; destruct i; discriminate|]. repeat split; auto.
  - cbn [pht_enc_add_comps]. rewrite Ho. cbn [obind].
    set (cells1 := add_blocks comp cells (comp_adds gs)).
    destruct (comp_adds_spec gs cells comp Hnd Hok) as [A [B [C D]]].
    { intros g Hg. specialize (Hemp 0%nat gs g eq_refl Hg). rewrite Z.add_0_r in Hemp. exact Hemp. }
    cbv zeta in A, B, C, D. fold cells1 in A, B, C, D.
    destruct (IH (comp + 1) cells1) as [cells' [E [I1 [I2 [I3 I4]]]]].
    { intros i gs' g Hi Hg. rewrite B.
      - specialize (Hemp (S i) gs' g Hi Hg). replace (comp + 1 + Z.of_nat i) with (comp + Z.of_nat (S i)) by lia. exact Hemp.
      - intros g0 _ E0. injection E0 as E0 _. lia. }
    exists cells'. split; [exact E|]. split; [|split; [|split]].
    + intros [|i] gs' g Hi Hg; cbn [nth_error] in Hi.
      * injection Hi as <-. rewrite Z.add_0_r. rewrite I2; [apply A; exact Hg|].
        intros i gs2 g2 _ _ E0. injection E0 as E0 _. lia.
      * replace (comp + Z.of_nat (S i)) with (comp + 1 + Z.of_nat i) by lia. apply (I1 i gs' g Hi Hg).
    + intros k Hk. rewrite I2.
      * apply B. intros g Hg. specialize (Hk 0%nat gs g eq_refl Hg). rewrite Z.add_0_r in Hk. exact Hk.
      * intros i gs' g Hi Hg. specialize (Hk (S i) gs' g Hi Hg). replace (comp + 1 + Z.of_nat i) with (comp + Z.of_nat (S i)) by lia. exact Hk.
    + intros Hn. apply I3, C, Hn.
    + intros Hk. apply I4, D, Hk.
Qed.

Section Cells.
Variable p : pparams.
Hypothesis Hsc : pp_scope p.
Variable coeffs : list (list Z).
Hypothesis Hnc : length coeffs = Z.to_nat (pp_nc p).
Hypothesis Hlen : forall d, In d coeffs -> zlen d = pp_w p * pp_h p.
Hypothesis Hbound : forall d, In d coeffs -> forall v, In v d -> - 2 ^ 25 < v < 2 ^ 25.
Hypothesis Hfit : forall d, In d coeffs -> forall r cb, In (r, cb) (enc_blocks p d) ->
  HtBlockProofsQuad.good (pht_enc_band_numbps p r (cb_band cb)) (cb_data cb).
Hypothesis Hnz : forall d, In d coeffs -> forall r cb, In (r, cb) (enc_blocks p d) -> exists v, In v (cb_data cb) /\ v <> 0.
Hypothesis Hsmall : forall d, In d coeffs -> forall r cb, In (r, cb) (enc_blocks p d) -> zlen (eb_data (hblk p r cb)) <= 65535.

Let L := pp_levels p.

Definition coef (c : Z) : list Z := nth (Z.to_nat c) coeffs [].

Lemma coef_in : forall c, 0 <= c < pp_nc p -> In (coef c) coeffs.
Proof. intros c Hc. unfold coef. apply nth_In. lia. Qed.

Lemma comps_ok : Forall2 (comp_ok p) coeffs (map (comp_groups p) coeffs).
Proof.
  assert (G : forall l, (forall d, In d l -> In d coeffs) -> Forall2 (comp_ok p) l (map (comp_groups p) l)).
  { induction l as [|d l IH]; intros Hin; cbn [map]; constructor.
    - pose proof (Hin d (or_introl eq_refl)) as Hd. unfold comp_ok.
      split; [apply (enc_comp_ok p Hsc d (Hlen d Hd) (Hbound d Hd) (Hfit d Hd) (Hnz d Hd))|]. apply comp_groups_ok.
    - apply IH. intros d' Hd'. apply Hin. right. exact Hd'. }
  apply G. auto.
Qed.

(* the store *)
Lemma pht_cells_spec : exists cells, pht_cells p coeffs = Ok cells /\ cells_norm cells /\ keys0 cells /\
  (forall c r, 0 <= c < pp_nc p -> 0 <= r <= L ->
     cget cells (c, r, 0) = map bs_eband (res_specs p (coef c) r)) /\
  (forall c r pi, ~ (0 <= c < pp_nc p /\ 0 <= r <= L /\ pi = 0) -> cget cells (c, r, pi) = []).
Proof.
  destruct (pht_enc_add_comps_spec p coeffs (map (comp_groups p) coeffs) 0 [] comps_ok) as [cells [E [A [B [C D]]]]].
  { intros. reflexivity. }
  exists cells. split; [exact E|]. split; [apply C, norm_nil|]. split; [apply D; constructor|]. split.
  - intros c r Hc Hr.
    assert (Hi : nth_error (map (comp_groups p) coeffs) (Z.to_nat c) = Some (comp_groups p (coef c))).
    { rewrite nth_error_map. unfold coef. rewrite (nth_error_nth' coeffs []) by lia. reflexivity. }
    assert (Hg : In (res_group p (coef c) r) (comp_groups p (coef c))).
    { unfold comp_groups. apply in_map. apply GeoProofsBlocks.in_zrange. fold L. lia. }
    specialize (A (Z.to_nat c) _ _ Hi Hg). cbn [res_group fst] in A. replace (0 + Z.of_nat (Z.to_nat c)) with c in A by lia.
    rewrite A. apply (group_bands_specs p Hsc (coef c) (Hlen _ (coef_in c Hc)) (Hbound _ (coef_in c Hc)) (Hfit _ (coef_in c Hc)) (Hnz _ (coef_in c Hc))). fold L. exact Hr.
  - intros c r pi Hout. rewrite B; [reflexivity|].
    intros i gs g Hi Hg E0. apply Hout. rewrite nth_error_map in Hi.
    destruct (nth_error coeffs i) as [d|] eqn:Ed; [|discriminate]. cbn [option_map] in Hi. injection Hi as <-.
    assert (Hil : (i < length coeffs)%nat) by (apply nth_error_Some; congruence).
    unfold comp_groups in Hg. apply in_map_iff in Hg as [r' [<- Hr']]. apply GeoProofsBlocks.in_zrange in Hr'.
    cbn [res_group fst] in E0. injection E0 as -> -> ->. fold L in Hr'. lia.
Qed.

End Cells.
