(* pipe-HT, part 1: one code-block through encodeCodeBlock (HTJ2K mode) and back through
   buildAndDecodeCodeBlocks / estimateMaxBitplane / decodeCodeBlock with the HT block decoder,
   given that T2 delivered the block's bytes, pass count (1) and zero-bit-plane count (Kmax - 1).
   Chains HtBlockProofsSize.ht_cleanup_roundtrip_validated (the HT cleanup coder) and
   HtProofsLevels.kmax_consistent (Kmax as the encoder hands it to the block coder = Kmax as the
   decoder derives it from the QCD; zero bit planes Kmax - 1 = missing MSBs). *)
From V Require Import Common.Base T1.T1Model T1.T1ProofsSeq T2.T2Header T2.T2Packets
  HT.HtLevels HT.HtProofsLevels HT.HtBlockEnc HT.HtBlockDec HT.HtBlockProofsQuad HT.HtBlockProofsSize
  Pipe.PipeModel Pipe.PipeProofsFront Pipe.PipeProofsBlock PipeHT.PhtModel.
Require V.J2KGeo.GeoModel.

Module GM := V.J2KGeo.GeoModel.

(* what the HT path needs of a code-block: inside the nominal code-block, every coefficient fits
   the band's Kmax magnitude bits, and the block is not all-zero *)
Definition ht_coef_ok (p : pparams) (res : Z) (cb : GM.cblock) : Prop :=
  zlen (GM.cb_data cb) = GM.cb_w cb * GM.cb_h cb /\
  1 <= GM.cb_w cb <= pp_cbw p /\ 1 <= GM.cb_h cb <= pp_cbh p /\
  good (pht_enc_band_numbps p res (GM.cb_band cb)) (GM.cb_data cb) /\
  (exists v, In v (GM.cb_data cb) /\ v <> 0).

Lemma ht_subband_index_valid : forall p res band, rb_valid p res band ->
  0 <= HtLevels.subband_index (pp_levels p) res band <= 3 * pp_levels p.
Proof.
  intros p res band [Hr Hb]. unfold HtLevels.subband_index.
  destruct (Z.ltb_spec res 0); [lia|]. destruct (Z.gtb_spec res (pp_levels p)); [lia|]. cbn [orb].
  destruct Hb as [[-> ->]|[H1 H2]]; [rewrite !Z.eqb_refl; cbn [negb]; lia|].
  destruct (Z.eqb_spec res 0); [lia|]. destruct (Z.ltb_spec band 1); [lia|]. destruct (Z.gtb_spec band 3); [lia|]. cbn [orb]. nia.
Qed.

Lemma repeat0_all : forall n v, In v (repeat 0 n) -> v = 0.
Proof. intros n v H. apply repeat_spec in H. exact H. Qed.

Section Block.
Variable p : pparams.
Hypothesis HP : 1 <= pp_prec p <= 16.
Hypothesis HL : 0 <= pp_levels p <= 6.
Hypothesis HCW : pow2_size (pp_cbw p).
Hypothesis HCH : pow2_size (pp_cbh p).
Hypothesis HCA : pp_cbw p * pp_cbh p <= 4096.

(* what T2 has to deliver for the block: PipeProofsBlock.delivers *)

Lemma pht_enc_code_block_spec : forall res cb cbx cby, rb_valid p res (GM.cb_band cb) -> ht_coef_ok p res cb ->
  exists b, pht_enc_code_block p res cb cbx cby = Ok b /\
    eb_cbx b = cbx /\ eb_cby b = cby /\ eb_included b = false /\ eb_nlb b = 0 /\ 0 <= eb_zbp b < 32 /\
    eb_ld b = None /\ eb_lp b = [] /\ eb_pl b = [] /\ eb_passes b = [] /\ eb_termall b = false /\
    0 < zlen (eb_data b) /\ 1 <= eb_npt b <= 164 /\
    forall m idx x0 y0 ci, 0 <= GM.cb_band cb <= 3 ->
      aget key2_eqb m (res, idx) = Some ci -> delivers b ci ->
      pht_dec_code_block p m idx (res, (x0, y0, x0 + GM.cb_w cb, y0 + GM.cb_h cb, GM.cb_band cb)) =
        Ok (x0, y0, x0 + GM.cb_w cb, y0 + GM.cb_h cb, GM.cb_data cb).
Proof.
  intros res cb cbx cby Hv (Hlen & Hw & Hh & Hgood & v0 & Hv0in & Hv0).
  pose proof (ht_subband_index_valid p res (GM.cb_band cb) Hv) as Hidx.
  assert (Hres : -1 <= res <= 7) by (destruct Hv as [? _]; lia).
  assert (Hband : -1 <= GM.cb_band cb <= 4) by (destruct Hv as [_ [[_ ->]|[_ ?]]]; lia).
  destruct (kmax_consistent (pp_prec p) (pht_rct p) (pp_levels p) res (GM.cb_band cb) 1 HP HL Hres Hband ltac:(lia))
    as (_ & _ & Hc). specialize (Hc ltac:(lia)).
  destruct Hc as (_ & Edn & Hkok & Ezl & Emm & _ & _).
  fold (pht_enc_band_numbps p res (GM.cb_band cb)) in Edn, Hkok, Ezl, Emm |- *.
  set (k := pht_enc_band_numbps p res (GM.cb_band cb)) in *.
  fold (pht_qcd p) in Edn. fold (pht_dec_band_numbps p res (GM.cb_band cb)) in Edn.
  assert (Hk : 1 <= k <= 30).
  { unfold ht_kmax_ok in Hkok. apply andb_prop in Hkok. destruct Hkok as [A B].
    apply Z.ltb_lt in A. apply Z.ltb_lt in B. lia. }
  set (cs := GM.cb_data cb) in *.
  (* the block is not all-zero: cblkNumbps > 0 *)
  assert (Hok : data_ok cs).
  { intros v Hvin. unfold good in Hgood. rewrite Forall_forall in Hgood. specialize (Hgood v Hvin). cbv beta in Hgood.
    assert (2 ^ k <= 2 ^ 30) by (apply Z.pow_le_mono_r; lia). change (2 ^ 30) with 1073741824 in H.
    change (2 ^ 31) with 2147483648. lia. }
  assert (Hcb : 1 <= pht_cblk_numbps cs).
  { unfold pht_cblk_numbps. destruct (find_max_bitplane_spec cs Hok) as [[_ Hz]|[Hm _]].
    - exfalso. apply Hv0. apply Hz. exact Hv0in.
    - destruct (Z.ltb_spec (find_max_bitplane cs) 0); [lia|].
      destruct (Z.ltb_spec (find_max_bitplane cs + 1) 0); lia. }
  set (cblk := pht_cblk_numbps cs) in *.
  (* pass layout: one pass, Kmax - 1 zero bit planes *)
  assert (Enp : fst (ht_pass_layout cblk k) = 1).
  { unfold ht_pass_layout. cbn [fst]. destruct (Z.eqb_spec cblk 0); [lia | reflexivity]. }
  assert (Ezb : snd (ht_pass_layout cblk k) = k - 1).
  { unfold ht_pass_layout. cbn [snd]. destruct (Z.ltb_spec (k - 1) 0); [lia | reflexivity]. }
  (* the HT cleanup coder *)
  assert (Hm4 : pp_cbw p mod 4 = 0) by (destruct HCW as [->|[->|[->|[->| ->]]]]; reflexivity).
  assert (Hm2 : pp_cbh p mod 2 = 0) by (destruct HCH as [->|[->|[->|[->| ->]]]]; reflexivity).
  destruct (ht_cleanup_roundtrip_validated (GM.cb_w cb) (GM.cb_h cb) (pp_cbw p) (pp_cbh p) k cs
              Hw Hh Hm4 Hm2 HCA Hk Hlen Hgood) as [block [Ee Ed]].
  assert (Hne : 0 < zlen block).
  { destruct block as [|b0 bl]; [|unfold zlen; cbn [length]; lia]. exfalso.
    unfold ht_block_decode in Ed. change (zlen [] =? 0) with true in Ed. cbv iota in Ed.
    injection Ed as Ed. apply Hv0. apply (repeat0_all (Z.to_nat (GM.cb_w cb * GM.cb_h cb))). rewrite Ed. exact Hv0in. }
  unfold pht_enc_code_block. fold cs k cblk.
  destruct (Z.leb_spec k 0); [lia|]. rewrite Enp, Ezb. change (1 =? 0) with false. cbv iota.
  rewrite Ee. eexists. split; [reflexivity|].
  unfold mk_eblock. cbn [eb_cbx eb_cby eb_included eb_nlb eb_zbp eb_ld eb_lp eb_pl eb_passes eb_termall eb_data eb_npt].
  repeat (split; [first [reflexivity | lia | exact Hne]|]).
  intros m idx x0 y0 ci Hband' Hget (D1 & D2 & D3 & D4 & D5).
  cbn [eb_data eb_npt eb_zbp] in D1, D2, D3.
  unfold pht_dec_code_block. rewrite Hget.
  replace (x0 + GM.cb_w cb - x0) with (GM.cb_w cb) by lia. replace (y0 + GM.cb_h cb - y0) with (GM.cb_h cb) by lia.
  assert (Eest : pht_estimate_maxbp p res (GM.cb_band cb) ci = 1).
  { unfold pht_estimate_maxbp. rewrite D4, D3, D2, Edn.
    change (1 >? 0) with true. cbv iota. change (Z.quot (1 + 2) 3) with 1. change (1 <=? 0) with false. cbv iota.
    destruct (Z.gtb_spec k 0); [|lia]. replace (k - (k - 1)) with 1 by lia.
    change (1 >? 0) with true. cbv iota. change (1 >=? 0) with true. cbn [andb].
    change (1 >? 1) with false. cbv iota. reflexivity. }
  rewrite Eest. unfold should_decode. rewrite D1, D5.
  destruct (Z.eqb_spec (zlen block) 0); [lia|]. change (1 <? 0) with false. cbn [orb negb].
  rewrite Edn. cbn [fst snd]. rewrite D4, D3.
  replace (ht_missing_msbs true (k - 1) k) with (k - 1) by (unfold ht_missing_msbs; reflexivity).
  rewrite Ed. reflexivity.
Qed.

End Block.
