(* pipe-HT, part 8: an executable checker for hyp_t2_delivers (used for the concrete instance in
   Props/C06_pipe.v: tile bytes written by the Go HTJ2K encoder for an image with all-zero blocks). *)
From V Require Import Common.Base J2KGeo.GeoModel J2KGeo.GeoProofsBlocks T2.T2Header T2.T2Packets
  Pipe.PipeModel Pipe.PipeProofsFront Pipe.PipeProofsLists Pipe.PipeProofsGeo Pipe.PipeProofsBlock Pipe.PipeCellRel
  PipeHT.PhtModel PipeHT.PhtProofsEnc PipeHT.PhtProofsCells PipeHT.PhtProofsMain PipeHT.PhtProofsDeliv.

Fixpoint zlist_eqb (a b : list Z) : bool :=
  match a, b with
  | [], [] => true
  | x :: a', y :: b' => (x =? y) && zlist_eqb a' b'
  | _, _ => false
  end.

Lemma zlist_eqb_eq : forall a b, zlist_eqb a b = true -> a = b.
Proof.
  induction a as [|x a IH]; intros [|y b] H; cbn [zlist_eqb] in H; try discriminate; [reflexivity|].
  apply andb_prop in H. destruct H as [H1 H2]. apply Z.eqb_eq in H1. subst y. f_equal. apply IH. exact H2.
Qed.

Definition delivers_b (b : eblock) (ci : cbinfo) : bool :=
  zlist_eqb (ci_data ci) (eb_data b) && (ci_passes ci =? eb_npt b) && (ci_zbp ci =? eb_zbp b) && ci_zbpset ci &&
  match ci_pl ci with None => true | Some _ => false end.

Lemma delivers_b_ok : forall b ci, delivers_b b ci = true -> delivers b ci.
Proof.
  intros b ci H. unfold delivers_b in H. repeat (apply andb_prop in H; destruct H as [H ?]).
  unfold delivers. repeat split.
  - apply zlist_eqb_eq. exact H.
  - apply Z.eqb_eq. assumption.
  - apply Z.eqb_eq. assumption.
  - assumption.
  - destruct (ci_pl ci); [discriminate | reflexivity].
Qed.

Definition delivered_b (p : pparams) (m : list ((Z * Z) * cbinfo)) (r i : Z) (cb : cblock) : bool :=
  if existsb (fun v => negb (v =? 0)) (cb_data cb) then
    match aget key2_eqb m (r, i) with Some ci => delivers_b (hblk p r cb) ci | None => false end
  else
    match aget key2_eqb m (r, i) with Some ci => zlen (ci_data ci) =? 0 | None => true end.

Lemma delivered_b_ok : forall p m r i cb, delivered_b p m r i cb = true -> delivered p m r i cb.
Proof.
  intros p m r i cb H. unfold delivered_b in H. unfold delivered.
  destruct (existsb (fun v => negb (v =? 0)) (cb_data cb)) eqn:Ex.
  - left. split.
    + apply existsb_exists in Ex. destruct Ex as [v [Hv Hn]]. exists v. split; [exact Hv|].
      apply negb_true_iff in Hn. apply Z.eqb_neq. exact Hn.
    + destruct (aget key2_eqb m (r, i)) as [ci|]; [|discriminate]. exists ci. split; [reflexivity|]. apply delivers_b_ok. exact H.
  - right. split.
    + intros v Hv. destruct (Z.eqb_spec v 0) as [E|E]; [exact E|]. exfalso.
      assert (Ht : existsb (fun v => negb (v =? 0)) (cb_data cb) = true).
      { apply existsb_exists. exists v. split; [exact Hv|]. apply negb_true_iff. apply Z.eqb_neq. exact E. }
      rewrite Ht in Ex. discriminate.
    + destruct (aget key2_eqb m (r, i)) as [ci|]; [|left; reflexivity]. right. exists ci. split; [reflexivity|].
      apply Z.eqb_eq in H. destruct (ci_data ci); [reflexivity|]. unfold zlen in H. cbn [length] in H. lia.
Qed.

Definition t2_delivers_b (p : pparams) (coeffs : list (list Z)) (tile : list Z) : bool :=
  match dec_packets tile (pp_order p) 1 (pp_levels p + 1) (pp_nc p) (pipe_pgeom_dec p) (dec_pidx p) (dec_geo p) 64 false false with
  | Ok dps =>
    forallb (fun c => forallb (fun x => delivered_b p (gather c (dec_order p) [] dps) (fst (snd x)) (fst x) (snd (snd x)))
                              (NE p (coef coeffs c)))
            (zrange (pp_nc p))
  | _ => false
  end.

Lemma t2_delivers_b_ok : forall p pix coeffs tile, pipe_coeffs p pix = Ok coeffs ->
  t2_delivers_b p coeffs tile = true -> hyp_t2_delivers p pix tile.
Proof.
  intros p pix coeffs tile Ec H c' Ec'. rewrite Ec in Ec'. injection Ec' as <-.
  unfold t2_delivers_b in H. destruct (dec_packets _ _ _ _ _ _ _ _ _ _ _) as [dps| | |]; try discriminate.
  exists dps. split; [reflexivity|]. intros c Hc i r cb Hin.
  rewrite forallb_forall in H. specialize (H c (proj2 (GeoProofsBlocks.in_zrange _ _) Hc)).
  rewrite forallb_forall in H. specialize (H (i, (r, cb)) Hin). cbn [fst snd] in H.
  apply delivered_b_ok. exact H.
Qed.
