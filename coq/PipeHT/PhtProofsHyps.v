(* pipe-HT, part 9: the executable hypothesis checks of PhtHyps.v are sound. *)
From V Require Import Common.Base J2KGeo.GeoModel J2KGeo.GeoProofsBlocks T2.T2Header T2.T2Packets
  Pipe.PipeModel Pipe.PipeProofsFront Pipe.PipeProofsLists Pipe.PipeProofsGeo Pipe.PipeProofsBlock Pipe.PipeCellRel
  PipeHT.PhtModel PipeHT.PhtHyps PipeHT.PhtProofsEnc PipeHT.PhtProofsCells PipeHT.PhtProofsMain PipeHT.PhtProofsCheck
  PipeHT.PhtProofsDeliv PipeHT.PhtProofsDelivCheck.

Lemma phy_number_eq : forall {A} (l : list A) k, phy_number k l = znumber k l.
Proof. induction l as [|a l IH]; intros k; cbn [phy_number znumber]; [reflexivity | rewrite IH; reflexivity]. Qed.

Lemma phy_zlist_eqb_eq : forall a b, phy_zlist_eqb a b = zlist_eqb a b.
Proof. intros a b. reflexivity. Qed.

Lemma forallb_eq : forall {A} (f g : A -> bool) l, (forall x, f x = g x) -> forallb f l = forallb g l.
Proof. intros A f g l H. induction l as [|a l IH]; cbn [forallb]; [reflexivity | rewrite H, IH; reflexivity]. Qed.

Lemma phy_delivered_eq : forall p m r i cb, phy_delivered p m r i cb = delivered_b p m r i cb.
Proof.
  intros p m r i cb. unfold phy_delivered, delivered_b. change (phy_hblk p r cb) with (hblk p r cb).
  destruct (existsb _ _); destruct (aget key2_eqb m (r, i)); reflexivity.
Qed.

Lemma phy_t2_delivers_eq : forall p coeffs tile, phy_t2_delivers p coeffs tile = t2_delivers_b p coeffs tile.
Proof.
  intros p coeffs tile. unfold phy_t2_delivers, t2_delivers_b.
  destruct (dec_packets _ _ _ _ _ _ _ _ _ _ _); reflexivity.
Qed.

(* what a `true` reported by the extracted checker means *)
Theorem pht_hyps_sound : forall p pix tile k z s t, pht_hyps p pix tile = Ok (k, z, s, t) ->
  (k = true -> hyp_kmax_fit p pix) /\ (z = true -> hyp_no_zero_block p pix) /\
  (s = true -> hyp_ht_block_sizes p pix) /\ (t = true -> hyp_t2_delivers p pix tile).
Proof.
  intros p pix tile k z s t H. unfold pht_hyps in H.
  destruct (pipe_coeffs p pix) as [coeffs| | |] eqn:Ec; try discriminate. cbn [obind] in H. injection H as <- <- <- <-.
  repeat split; intros Ht.
  - intros c Ec'. rewrite Ec in Ec'. injection Ec' as <-. apply kmax_fit_b_ok. exact Ht.
  - intros c Ec'. rewrite Ec in Ec'. injection Ec' as <-. apply no_zero_block_b_ok. exact Ht.
  - intros c Ec'. rewrite Ec in Ec'. injection Ec' as <-. apply blocks_small_b_ok. exact Ht.
  - apply (t2_delivers_b_ok p pix coeffs tile Ec). rewrite <- phy_t2_delivers_eq. exact Ht.
Qed.
