(* EXTRACT *)
(* The reversible single-tile HTJ2K path (jpeg2000.Encoder with HTJ2KMode = true and the block
   encoder factory htj2k.NewHTEncoder; jpeg2000.Decoder / t2.TileDecoder with isHTJ2K = true and
   the block decoder factory htj2k.NewHTDecoder) as ONE function per direction: Pipe/PipeModel.v
   with the block-coder dependent parts replaced, everything else imported unchanged
   (pipe_front / pipe_fdwt / enc_blocks / add_code_block / pipe_tile_bytes / dec_pidx / dec_geo /
   dec_order / dec_cells_res / pipe_idwt / pipe_back).

   What differs from the classic path and is modelled HERE:
     Encoder.encodeCodeBlock           HTJ2KMode: NO `<<= 6` scaling
     Encoder.codeBlockNumBps           HTJ2KMode: rawMaxBitplane + 1 (no `- 6`)
     Encoder.bandNumbps                over quantizationInfo() in HTJ2K mode =
                                       calculateOpenJPHQuantizationParams (HT.HtLevels.enc_band_numbps:
                                       BIBO-gain exponents, ONE guard bit, the RCT bit when
                                       usesColorTransform() = EnableMCT && Components >= 3)
     Encoder.codeBlockPassLayout       HTJ2KMode: numPasses = 1 (0 for the all-zero block),
                                       zeroBitPlanes = bandNumbps - 1       (HT.HtLevels.ht_pass_layout)
     Encoder.newCodeBlockEncoder       BlockEncoderFactory(w, h) = htj2k.NewHTEncoder, SetKMax(bandNumbps)
     Encoder.encodeSingleLayerCodeBlock  numPasses == 0: NumPassesTotal = 0, Data = nil (the block is
                                       never included in a packet); HTEncoder.Encode
                                       (HT.HtBlockEnc.ht_block_encode, rejects Kmax <= 0 / >= 31);
                                       error fallback {0x00}, 1 pass, zeroBitPlanes = bandNumbps
     TileDecoder.buildAndDecodeCodeBlocks  blockDecoderFactory(w, h, style) = htj2k.NewHTDecoder,
                                       SetCodingContext(bandNumbpsFromQCD, htj2kMissingMSBs) only when
                                       bandNumbpsFromQCD succeeds (else the decoder keeps bandNumbps = 0
                                       and HTDecoder.Decode fails on non-empty data)
     TileDecoder.estimateMaxBitplane   with bandNumbpsFromQCD on the QCD the HTJ2K encoder writes
                                       (HT.HtLevels.qcd_rev_bytes / dec_band_numbps)
     TileDecoder.decodeCodeBlock       HTDecoder has no DecodeLayeredWithMode: DecodeLayered /
                                       DecodeWithBitplane -> HTDecoder.Decode(data) =
                                       HT.HtBlockDec.ht_block_decode w h bandNumbps missingMSBs;
                                       NO normalizeOpenJPEGReversibleT1Coefficients (`/= 2`)
     DecodePackets                     code-block style 0x40 (bit 2 clear: no TERMALL)

   NOT modelled here (see the correspondence suite harness/suites/pipeht for what is compared):
     - PacketEncoder.encodeHTJ2KPacketHeader (OpenJPH prepare_precinct).  pht_tile_bytes uses the
       classic header coder of T2.T2Packets.enc_packets.  The two produce the same bits when every
       code-block of the tile is included (no all-zero code-block); with an all-zero block the
       HTJ2K coder writes different (shorter) headers, which the SAME packet DECODER
       (K.dec_packets, used for both) reads back.  pht_decode_tile is therefore the Go decoder on
       every tile; pht_encode_tile is the Go encoder on tiles without all-zero code-blocks.
     - Encoder.writeHTJ2KTileParts: one tile-part per resolution, each holding the packets of that
       resolution in packet order.  The tile bytes here are the concatenation of the tile-part
       bodies, which is the packet sequence itself for the resolution-major progressions
       (LRCP with one layer, RLCP, RPCL).
     - main header (SIZ Rsiz 0x4000, CAP, COD style 0x40, QCD = HtLevels.qcd_rev_bytes, COM). *)
From V Require Import Common.Base.
Require V.Pipe.PipeModel V.T1.T1Model V.HT.HtLevels V.HT.HtBlockEnc V.HT.HtBlockDec.

Module PM := V.Pipe.PipeModel.
Module G := V.J2KGeo.GeoModel.
Module H := V.T2.T2Header.
Module K := V.T2.T2Packets.
Module HL := V.HT.HtLevels.

(* Encoder.usesColorTransform *)
Definition pht_rct (p : PM.pparams) : bool := PM.pp_mct p && (PM.pp_nc p >=? 3).

(* Encoder.bandNumbps in HTJ2K mode *)
Definition pht_enc_band_numbps (p : PM.pparams) (res band : Z) : Z :=
  HL.enc_band_numbps (PM.pp_levels p) (PM.pp_prec p) (pht_rct p) res band.

(* the QCD payload writeQCD emits in HTJ2K lossless mode, and bandNumbpsFromQCD on it *)
Definition pht_qcd (p : PM.pparams) : list Z := HL.qcd_rev_bytes (PM.pp_levels p) (PM.pp_prec p) (pht_rct p).
Definition pht_dec_band_numbps (p : PM.pparams) (res band : Z) : option Z :=
  HL.dec_band_numbps (pht_qcd p) (PM.pp_levels p) res band.

(* codeBlockNumBps, HTJ2KMode *)
Definition pht_cblk_numbps (data : list Z) : Z :=
  let raw := T1Model.find_max_bitplane data in
  if raw <? 0 then 0 else
  let n := raw + 1 in if n <? 0 then 0 else n.

(* encodeCodeBlock + encodeSingleLayerCodeBlock, HTJ2KMode *)
Definition pht_enc_code_block (p : PM.pparams) (res : Z) (cb : G.cblock) (cbx cby : Z) : outcome H.eblock :=
  let data := G.cb_data cb in
  let cblk := pht_cblk_numbps data in
  let bandn0 := pht_enc_band_numbps p res (G.cb_band cb) in
  let bandn := if bandn0 <=? 0 then cblk else bandn0 in
  let np := fst (HL.ht_pass_layout cblk bandn) in
  let zbp := snd (HL.ht_pass_layout cblk bandn) in
  if np =? 0 then Ok (PM.mk_eblock cbx cby zbp [] 0) else
  match HtBlockEnc.ht_block_encode (G.cb_w cb) (G.cb_h cb) bandn data with
  | Ok bytes => Ok (PM.mk_eblock cbx cby zbp bytes np)
  | Err => Ok (PM.mk_eblock cbx cby bandn [0] 1)          (* "minimal code-block on error" *)
  | Panic => Panic
  | OutOfFuel => OutOfFuel
  end.

(* the body of the innermost loop of buildTilePacketEncoderAt (PM.enc_one_block with the HT block) *)
Definition pht_enc_one_block (p : PM.pparams) (rc : Z * G.cblock) : outcome (Z * Z * Z * H.eblock) :=
  let '(res, cb) := rc in
  let rx := G.cb_cbx cb * PM.pp_cbw p in
  let ry := G.cb_cby cb * PM.pp_cbh p in
  let pidx := PM.enc_precinct_index p rx ry res in
  let lx := rx - Z.quot rx PM.prec_sz * PM.prec_sz in
  let ly := ry - Z.quot ry PM.prec_sz * PM.prec_sz in
  obind (pht_enc_code_block p res cb (Z.quot lx (PM.pp_cbw p)) (Z.quot ly (PM.pp_cbh p))) (fun b =>
    Ok (res, pidx, G.cb_band cb, b)).

Fixpoint pht_enc_add_comps (p : PM.pparams) (comp : Z) (cells : K.ecells) (coeffs : list (list Z)) : outcome K.ecells :=
  match coeffs with
  | [] => Ok cells
  | d :: r => obind (PM.omap (pht_enc_one_block p) (PM.enc_blocks p d)) (fun bl =>
              pht_enc_add_comps p (comp + 1) (PM.add_blocks comp cells bl) r)
  end.

Definition pht_cells (p : PM.pparams) (coeffs : list (list Z)) : outcome K.ecells :=
  pht_enc_add_comps p 0 [] coeffs.

(* ===== pixel bytes -> the tile's packet bytes (concatenated tile-part bodies) ===== *)
Definition pht_encode_tile (p : PM.pparams) (pix : list Z) : outcome (list Z) :=
  obind (PM.pipe_coeffs p pix) (fun coeffs =>
  obind (pht_cells p coeffs) (fun cells => PM.pipe_tile_bytes p cells)).

(* ------------------------------------------------------------------------------------ *)
(* decoder                                                                                *)

(* estimateMaxBitplane over the HTJ2K QCD *)
Definition pht_estimate_maxbp (p : PM.pparams) (res band : Z) (ci : K.cbinfo) : Z :=
  let zbp := if K.ci_zbpset ci then K.ci_zbp ci else 0 in
  let fromPass :=
    if K.ci_passes ci >? 0 then
      let n := Z.quot (K.ci_passes ci + 2) 3 in if n <=? 0 then -1 else n
    else -1 in
  let fromQCD :=
    match pht_dec_band_numbps p res band with
    | Some bn => if bn >? 0 then (if bn - zbp >? 0 then bn - zbp else -1) else -1
    | None => -1
    end in
  let m :=
    if (fromPass >=? 0) && (fromQCD >=? 0) then (if fromPass >? fromQCD then fromPass else fromQCD)
    else if fromQCD >=? 0 then fromQCD
    else if fromPass >=? 0 then fromPass
    else PM.pp_prec p + PM.pp_levels p - zbp in
  if m <? -1 then -1 else m.

(* one cell of buildAndDecodeCodeBlocks + decodeCodeBlock with the HT block decoder *)
Definition pht_dec_code_block (p : PM.pparams) (m : list ((Z * Z) * K.cbinfo)) (idx : Z) (rc : Z * (Z * Z * Z * Z * Z))
  : outcome (Z * Z * Z * Z * list Z) :=
  let '(res, (x0, y0, x1, y1, band)) := rc in
  let zeros := repeat 0 (Z.to_nat (x1 - x0) * Z.to_nat (y1 - y0)) in
  match K.aget K.key2_eqb m (res, idx) with
  | None => Ok (x0, y0, x1, y1, zeros)
  | Some ci =>
    let maxbp := pht_estimate_maxbp p res band ci in
    if negb (PM.should_decode ci maxbp) then Ok (x0, y0, x1, y1, zeros) else
    (* SetCodingContext is called only when bandNumbpsFromQCD succeeds; otherwise bandNumbps = 0 *)
    let ctx := match pht_dec_band_numbps p res band with
               | Some bn => (bn, HL.ht_missing_msbs (K.ci_zbpset ci) (K.ci_zbp ci) bn)
               | None => (0, 0)
               end in
    match HtBlockDec.ht_block_decode (x1 - x0) (y1 - y0) (fst ctx) (snd ctx) (K.ci_data ci) with
    | Ok coeffs => Ok (x0, y0, x1, y1, coeffs)
    | Err => Ok (x0, y0, x1, y1, zeros)
    | Panic => Panic
    | OutOfFuel => OutOfFuel
    end
  end.

Fixpoint pht_dec_code_blocks (p : PM.pparams) (m : list ((Z * Z) * K.cbinfo)) (idx : Z)
  (cells : list (Z * (Z * Z * Z * Z * Z))) : outcome (list (Z * Z * Z * Z * list Z)) :=
  match cells with
  | [] => Ok []
  | rc :: r =>
    let '(_, (x0, y0, x1, y1, _)) := rc in
    if (x1 - x0 <=? 0) || (y1 - y0 <=? 0) then pht_dec_code_blocks p m (idx + 1) r else
    obind (pht_dec_code_block p m idx rc) (fun b =>
    obind (pht_dec_code_blocks p m (idx + 1) r) (fun bs => Ok (b :: bs)))
  end.

Definition pht_dec_component (p : PM.pparams) (dps : list K.dpacket) (comp : Z) : outcome (list Z) :=
  let m := K.gather comp (PM.dec_order p) [] dps in
  obind (pht_dec_code_blocks p m 0 (PM.dec_cells_res p)) (fun blocks =>
    Ok (PM.pipe_idwt p (G.dec_assemble (PM.pp_w p) (PM.pp_h p) blocks))).

Fixpoint pht_dec_components (p : PM.pparams) (dps : list K.dpacket) (comps : list Z) : outcome (list (list Z)) :=
  match comps with
  | [] => Ok []
  | c :: r => obind (pht_dec_component p dps c) (fun d => obind (pht_dec_components p dps r) (fun ds => Ok (d :: ds)))
  end.

(* TileDecoder.Decode; COD code-block style 0x40 *)
Definition pht_dec_planes (p : PM.pparams) (tile : list Z) : outcome (list (list Z)) :=
  obind (K.dec_packets tile (PM.pp_order p) 1 (PM.pp_levels p + 1) (PM.pp_nc p) (PM.pipe_pgeom_dec p) (PM.dec_pidx p) (PM.dec_geo p)
                       64 false false) (fun dps =>
    pht_dec_components p dps (G.zrange (PM.pp_nc p))).

(* ===== the tile's packet bytes -> pixel bytes ===== *)
Definition pht_decode_tile (p : PM.pparams) (tile : list Z) : outcome (list Z) :=
  obind (pht_dec_planes p tile) (fun planes => Ok (PM.pipe_back p planes)).

(* per-block view for the correspondence: (res, band, cbx, cby, zbp, npt, data) of component planes *)
Definition pht_blocks_of (p : PM.pparams) (d : list Z) : outcome (list (Z * Z * Z * H.eblock)) :=
  PM.omap (pht_enc_one_block p) (PM.enc_blocks p d).
