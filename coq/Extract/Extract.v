(* Extraction of the executable models to OCaml (ExtrOcamlBasic only; Z/N/positive/nat stay
   Coq inductives). The file is compiled by the normal make; model.ml/.mli land in coq/. *)
From Coq Require Import Extraction ExtrOcamlBasic.
From V Require Import Common.Base J2K.RCT.
Extraction Language OCaml.
Extraction "model.ml"
  Z.to_nat Z.of_nat N.to_nat Z.of_N Z.to_N wrapU wrapS
  rct_fwd32 rct_inv32 rct_fwd_list rct_inv_list.
