(* Tie by translation, third list (JPEG 2000 part): the generated jpeg2000/t1 getMagRefinementContext
   equals T1Ctx.mr_ctx for all flag words; the generated jpeg2000 isPowerOfTwo equals
   FrmValidate.pow2_4_1024 on 4..1024, hence the code-block size guard of validateParams equals the
   guard of FrmValidate.j2k_accepts for ALL n. *)
From V Require Import Common.Base.
From Coq Require Import ZifyBool.
From V Require Import Gen.KernelsMore_gen.
Require V.T1.T1Ctx V.Framing.FrmValidate.
Module TC := V.T1.T1Ctx.
Module FV := V.Framing.FrmValidate.

(* ---------- jpeg2000/t1/context.go getMagRefinementContext ---------- *)
(* the constants 14, 4080 (T1SigNeighbors), 2 (T1Refine) of the translated body are the regenerated
   T1Tables_gen constants the model refers to *)
Lemma tie_t1_getMagRefinementContext : forall flags,
  jpeg2000_t1_getMagRefinementContext flags = TC.mr_ctx flags.
Proof.
  intros flags. unfold jpeg2000_t1_getMagRefinementContext, TC.mr_ctx, TC.has.
  change TC.T1Refine with 2. change TC.T1SigNeighbors with 4080. change TC.CTXMRSTART with 14.
  cbv zeta. destruct (Z.land flags 2 =? 0); destruct (Z.land flags 4080 =? 0); reflexivity.
Qed.

(* ---------- jpeg2000/encoder.go isPowerOfTwo ---------- *)
Definition pow2_agree (n : Z) : bool := Bool.eqb (jpeg2000_isPowerOfTwo n) (FV.pow2_4_1024 n).

Lemma pow2_agree_all : forallb pow2_agree (map Z.of_nat (seq 4 1021)) = true.
Proof. vm_compute. reflexivity. Qed.

Lemma tie_j2k_isPowerOfTwo : forall n, 4 <= n <= 1024 -> jpeg2000_isPowerOfTwo n = FV.pow2_4_1024 n.
Proof.
  intros n Hn. pose proof pow2_agree_all as H. rewrite forallb_forall in H.
  specialize (H n). apply Bool.eqb_prop. apply H.
  apply in_map_iff. exists (Z.to_nat n). split; [lia|]. apply in_seq. lia.
Qed.

(* validateParams: p.CodeBlockWidth < 4 || p.CodeBlockWidth > 1024 || !isPowerOfTwo(p.CodeBlockWidth) *)
Lemma tie_j2k_cb_guard : forall n,
  ((n <? 4) || (1024 <? n) || negb (jpeg2000_isPowerOfTwo n)) =
  ((n <? 4) || (1024 <? n) || negb (FV.pow2_4_1024 n)).
Proof.
  intros n. destruct (Z.ltb_spec n 4); [reflexivity|]. destruct (Z.ltb_spec 1024 n); [reflexivity|].
  rewrite tie_j2k_isPowerOfTwo by lia. reflexivity.
Qed.

(* outside 4..1024 the two differ (1, 2 and 2048, ... are powers of two) *)
Lemma j2k_isPowerOfTwo_differs :
  jpeg2000_isPowerOfTwo 2 = true /\ FV.pow2_4_1024 2 = false /\
  jpeg2000_isPowerOfTwo 2048 = true /\ FV.pow2_4_1024 2048 = false.
Proof. vm_compute. repeat split; reflexivity. Qed.
