(* Tie by translation: the neighbour selection (T.87 edge rules) of the JPEG-LS coders,
   jpegls/nearlossless: Encoder.getNeighbors / Encoder.sampleNeighbors / Decoder.getNeighbors /
   Decoder.sampleNeighbors, translated from the Go source with every slice bounds check explicit
   (Gen/KernelsNb_gen.v), against neighbors1 / sampleNeighbors of JpegLS/JlsModel.v.

   The Go functions index the whole sample buffer `pixels` (sample (x, y) of component comp at
   (y*width + x)*components + comp); the model takes `left` and a window of the previous line.
   The theorems say: for every position inside the image whose own index is inside `pixels`, the
   Go function does not panic and returns what the model returns on the window cut out of `pixels`.
   getNeighbors is only called for x > 0 (the x == 0 case is inlined in encodeComponent /
   decodeComponent and is the x = 0 branch of neighbors1), so its tie is stated for 0 < x < width. *)
From V Require Import Common.Base Tie.GoSem.
From V Require Import Gen.KernelsNb_gen Tie.TieNb.
Require V.JpegLS.JlsModel.
Module M := V.JpegLS.JlsModel.


(* ---------- jpegls/nearlossless ---------- *)

Theorem tie_nl_enc_sampleNeighbors : forall (r : jpegls_nearlossless_Encoder) pixels x y comp plf pplf,
  let w := jpegls_nearlossless_Encoder_width r in let nc := jpegls_nearlossless_Encoder_components r in
  in_image pixels w nc comp x y ->
  jpegls_nearlossless_Encoder_sampleNeighbors r pixels x y comp plf pplf =
  Some (M.sampleNeighbors w y x plf pplf
          (px pixels w nc comp (x - 1) y)
          (px pixels w nc comp (x - 1) (y - 1))
          (px pixels w nc comp x (y - 1))
          (px pixels w nc comp (Z.min (x + 1) (w - 1)) (y - 1))).
Proof.
  intros r pixels x y comp plf pplf w nc (Hx & Hy & Hc & Hl).
  unfold jpegls_nearlossless_Encoder_sampleNeighbors, M.sampleNeighbors.
  fold w. fold nc.
  assert (Hn : 1 <= nc) by lia.
  nb_cases w nc x y Hx Hy Hn.
Qed.

Theorem tie_nl_dec_sampleNeighbors : forall (r : jpegls_nearlossless_Decoder) pixels x y comp plf pplf,
  let w := jpegls_nearlossless_Decoder_width r in let nc := jpegls_nearlossless_Decoder_components r in
  in_image pixels w nc comp x y ->
  jpegls_nearlossless_Decoder_sampleNeighbors r pixels x y comp plf pplf =
  Some (M.sampleNeighbors w y x plf pplf
          (px pixels w nc comp (x - 1) y)
          (px pixels w nc comp (x - 1) (y - 1))
          (px pixels w nc comp x (y - 1))
          (px pixels w nc comp (Z.min (x + 1) (w - 1)) (y - 1))).
Proof.
  intros r pixels x y comp plf pplf w nc (Hx & Hy & Hc & Hl).
  unfold jpegls_nearlossless_Decoder_sampleNeighbors, M.sampleNeighbors.
  fold w. fold nc.
  assert (Hn : 1 <= nc) by lia.
  nb_cases w nc x y Hx Hy Hn.
Qed.

Theorem tie_nl_enc_getNeighbors : forall (r : jpegls_nearlossless_Encoder) pixels x y comp pfp pn1,
  let w := jpegls_nearlossless_Encoder_width r in let nc := jpegls_nearlossless_Encoder_components r in
  in_image pixels w nc comp x y -> 0 < x ->
  jpegls_nearlossless_Encoder_getNeighbors r pixels x y comp =
  Some (M.neighbors1 w y x pfp pn1 (px pixels w nc comp (x - 1) y) (win pixels w nc comp x y)).
Proof.
  intros r pixels x y comp pfp pn1 w nc (Hx & Hy & Hc & Hl) Hx0.
  unfold jpegls_nearlossless_Encoder_getNeighbors, M.neighbors1.
  fold w. fold nc.
  assert (Hn : 1 <= nc) by lia.
  nb_cases w nc x y Hx Hy Hn.
Qed.

Theorem tie_nl_dec_getNeighbors : forall (r : jpegls_nearlossless_Decoder) pixels x y comp pfp pn1,
  let w := jpegls_nearlossless_Decoder_width r in let nc := jpegls_nearlossless_Decoder_components r in
  in_image pixels w nc comp x y -> 0 < x ->
  jpegls_nearlossless_Decoder_getNeighbors r pixels x y comp =
  Some (M.neighbors1 w y x pfp pn1 (px pixels w nc comp (x - 1) y) (win pixels w nc comp x y)).
Proof.
  intros r pixels x y comp pfp pn1 w nc (Hx & Hy & Hc & Hl) Hx0.
  unfold jpegls_nearlossless_Decoder_getNeighbors, M.neighbors1.
  fold w. fold nc.
  assert (Hn : 1 <= nc) by lia.
  nb_cases w nc x y Hx Hy Hn.
Qed.

