(* Tie by translation, third list (HTJ2K): the generated jpeg2000/htj2k MagnitudeExponent and
   calculateMaxLevels (Gen/KernelsMore_gen.v, fuelled option-valued loops) return Some and equal
   HtLevels.mag_bits / HtLevels.calc_max_levels in the range in which the Go loops terminate
   without integer overflow. *)
From V Require Import Common.Base.
From Coq Require Import ZifyBool.
From V Require Import Gen.KernelsMore_gen.
Require V.HT.HtLevels.
Module HL := V.HT.HtLevels.

(* ---------- MagnitudeExponent(magnitude uint32) ---------- *)

(* number of binary digits of t (0 for t <= 0) *)
Definition nbits (t : Z) : Z := if t <=? 0 then 0 else Z.log2 t + 1.

Lemma nbits_half : forall t, 0 < t -> nbits t = nbits (Z.shiftr t 1) + 1.
Proof.
  intros t Ht. unfold nbits. destruct (Z.leb_spec t 0); [lia|].
  destruct (Z.eq_dec t 1) as [->|Hn]; [reflexivity|].
  assert (H2 : 0 < Z.shiftr t 1).
  { rewrite Z.shiftr_div_pow2 by lia. change (2 ^ 1) with 2. apply Z.div_str_pos. lia. }
  destruct (Z.leb_spec (Z.shiftr t 1) 0); [lia|].
  rewrite Z.log2_shiftr by lia. pose proof (Z.log2_pos t ltac:(lia)). lia.
Qed.

Lemma ht_MagnitudeExponent_loop : forall fuel m e t, t < 2 ^ Z.of_nat fuel ->
  option_map fst (jpeg2000_htj2k_MagnitudeExponent_loop1 (S fuel) m e t) = Some (e + nbits t).
Proof.
  induction fuel as [|f IH]; intros m e t Ht.
  - change (2 ^ Z.of_nat 0) with 1 in Ht. cbn [jpeg2000_htj2k_MagnitudeExponent_loop1].
    destruct (Z.gtb_spec t 0); [lia|]. cbn [option_map fst]. unfold nbits.
    destruct (Z.leb_spec t 0); [|lia]. f_equal. lia.
  - remember (S f) as sf. cbn [jpeg2000_htj2k_MagnitudeExponent_loop1]. subst sf.
    destruct (Z.gtb_spec t 0) as [Hp|Hz].
    + rewrite IH.
      * rewrite (nbits_half t) by lia. f_equal. lia.
      * rewrite Z.shiftr_div_pow2 by lia. change (2 ^ 1) with 2.
        rewrite Nat2Z.inj_succ, Z.pow_succ_r in Ht by lia. apply Z.div_lt_upper_bound; lia.
    + cbn [option_map fst]. unfold nbits. destruct (Z.leb_spec t 0); [|lia]. f_equal. lia.
Qed.

(* the argument is a uint32 in Go; the tie holds for every 0 <= m < 2^63 *)
Lemma tie_ht_MagnitudeExponent : forall m, 0 <= m < 2 ^ 63 ->
  jpeg2000_htj2k_MagnitudeExponent m = Some (HL.mag_bits m).
Proof.
  intros m Hm. unfold jpeg2000_htj2k_MagnitudeExponent, HL.mag_bits.
  destruct (Z.eqb_spec m 0) as [->|Hn]; [reflexivity|]. cbv zeta.
  pose proof (ht_MagnitudeExponent_loop 63 m 0 m ltac:(lia)) as H. change (S 63) with 64%nat in H.
  destruct (jpeg2000_htj2k_MagnitudeExponent_loop1 64 m 0 m) as [[e t]|]; [|discriminate H].
  cbn [option_map fst] in H. injection H as H. rewrite H. unfold nbits.
  destruct (Z.leb_spec m 0); [lia|]. rewrite Z.abs_eq by lia. f_equal.
Qed.

(* outside the range: a negative argument (impossible for a uint32) gives 0 in the translation,
   while mag_bits takes the absolute value *)
Lemma ht_MagnitudeExponent_neg : forall m, m < 0 -> jpeg2000_htj2k_MagnitudeExponent m = Some 0.
Proof.
  intros m Hm. unfold jpeg2000_htj2k_MagnitudeExponent. destruct (Z.eqb_spec m 0); [reflexivity|].
  cbv zeta. change 64%nat with (S 63). cbn [jpeg2000_htj2k_MagnitudeExponent_loop1].
  destruct (Z.gtb_spec m 0); [lia|reflexivity].
Qed.

(* ---------- calculateMaxLevels(width, height int) ---------- *)

(* with at least S f steps of fuel on both sides and minDim <= 2^(l+f), both loops stop at the same
   level, which is >= l *)
Lemma ht_cml_loops : forall f k w h m l, 0 <= l -> m <= 2 ^ (l + Z.of_nat f) ->
  jpeg2000_htj2k_calculateMaxLevels_loop1 (S f + k) w h m l = Some (HL.cml_loop (S f) l m)
  /\ l <= HL.cml_loop (S f) l m.
Proof.
  induction f as [|f IH]; intros k w h m l Hl Hm.
  - change (Z.of_nat 0) with 0 in Hm. rewrite Z.add_0_r in Hm.
    change (1 + k)%nat with (S k). cbn [jpeg2000_htj2k_calculateMaxLevels_loop1 HL.cml_loop].
    rewrite Z.shiftl_mul_pow2, Z.mul_1_l by lia.
    destruct (Z.ltb_spec (2 ^ l) m); [lia|]. split; [reflexivity|lia].
  - remember (S f) as sf. change (S sf + k)%nat with (S (sf + k)).
    cbn [jpeg2000_htj2k_calculateMaxLevels_loop1 HL.cml_loop]. subst sf.
    rewrite Z.shiftl_mul_pow2, Z.mul_1_l by lia.
    destruct (Z.ltb_spec (2 ^ l) m) as [Hlt|Hge]; [|split; [reflexivity|lia]].
    destruct (IH k w h m (l + 1) ltac:(lia)) as [A B].
    { rewrite Nat2Z.inj_succ in Hm. replace (l + 1 + Z.of_nat f) with (l + Z.succ (Z.of_nat f)) by lia. exact Hm. }
    split; [exact A|lia].
Qed.

(* Go's `1 << maxLevels` on int does not overflow and the loop terminates exactly when
   min(width,height) <= 2^62 (beyond that the Go loop does not terminate; the model returns -1) *)
Lemma tie_ht_calculateMaxLevels : forall w h, Z.min w h <= 2 ^ 62 ->
  jpeg2000_htj2k_calculateMaxLevels w h = Some (HL.calc_max_levels w h).
Proof.
  intros w h Hm. unfold jpeg2000_htj2k_calculateMaxLevels, HL.calc_max_levels. cbv zeta.
  set (m := if h <? w then h else w).
  assert (Hm' : m <= 2 ^ (0 + Z.of_nat 62)).
  { change (0 + Z.of_nat 62) with 62. subst m. destruct (Z.ltb_spec h w); lia. }
  destruct (m <=? 0); [reflexivity|].
  destruct (ht_cml_loops 62 1 w h m 0 ltac:(lia) Hm') as [A B].
  change (63 + 1)%nat with 64%nat in A. change (S 62) with 63%nat in A, B.
  rewrite A. set (r := HL.cml_loop 63 0 m) in *.
  destruct (Z.ltb_spec r 0); [lia|]. destruct (r >? 6); reflexivity.
Qed.
