(* Tie by translation, 5/3 lifting: Forward53_1DWithParity / Inverse53_1DWithParity of jpeg2000/wavelet/dwt53.go,
   translated from the Go source (Gen/KernelsSlices_gen.v: int32 wrap-around and every bounds check explicit), against
   DwtModel.fwd53 / inv53.  The general statement (all lengths, samples small enough that int32 does not wrap) is
   kept as a Definition; what is proved here is the equality on a complete SMALL domain, decided in the kernel:
   every list of length 0..5 over the alphabet {-3, 0, 2, 5} (1365 lists), both parities, both directions,
   and the panic behaviour (None exactly where dwt1d_panics). *)
From V Require Import Common.Base Tie.GoSem Gen.KernelsSlices_gen.
Require V.DWT.DwtModel.
Module D := V.DWT.DwtModel.

Definition dwt_tie_statement : Prop :=
  forall even x, Forall (fun v => - 2 ^ 28 <= v < 2 ^ 28) x -> D.dwt1d_panics even x = false ->
    jpeg2000_wavelet_Forward53_1DWithParity x even = Some (D.fwd53 even x) /\
    jpeg2000_wavelet_Inverse53_1DWithParity x even = Some (D.inv53 even x).

Fixpoint lists_upto (alphabet : list Z) (n : nat) : list (list Z) :=
  match n with
  | O => [[]]
  | S k => let ls := lists_upto alphabet k in
           ls ++ flat_map (fun l => if Nat.eqb (length l) k then map (fun a => a :: l) alphabet else []) ls
  end.

Definition small_lists : list (list Z) := lists_upto [-3; 0; 2; 5] 5.

Fixpoint zlist_eqb (a b : list Z) : bool :=
  match a, b with [], [] => true | x :: a', y :: b' => (x =? y) && zlist_eqb a' b' | _, _ => false end.

Lemma zlist_eqb_eq : forall a b, zlist_eqb a b = true -> a = b.
Proof.
  induction a as [|x a IH]; intros [|y b] H; cbn in H; try discriminate; [reflexivity|].
  apply andb_prop in H. destruct H as [H1 H2]. apply Z.eqb_eq in H1. subst y. f_equal. apply IH. exact H2.
Qed.

Definition agrees (f : list Z -> bool -> option (list Z)) (m : bool -> list Z -> list Z) (even : bool) (x : list Z) : bool :=
  if D.dwt1d_panics even x then match f x even with None => true | Some _ => false end
  else match f x even with Some y => zlist_eqb y (m even x) | None => false end.

Definition check_all : bool :=
  forallb (fun x => agrees jpeg2000_wavelet_Forward53_1DWithParity D.fwd53 true x &&
                    agrees jpeg2000_wavelet_Forward53_1DWithParity D.fwd53 false x &&
                    agrees jpeg2000_wavelet_Inverse53_1DWithParity D.inv53 true x &&
                    agrees jpeg2000_wavelet_Inverse53_1DWithParity D.inv53 false x) small_lists.

Lemma check_all_true : check_all = true.
Proof. vm_compute. reflexivity. Qed.

Lemma small_lists_count : length small_lists = 1365%nat.
Proof. vm_compute. reflexivity. Qed.

Theorem dwt_tie_small : forall x even, In x small_lists ->
  (D.dwt1d_panics even x = false ->
     jpeg2000_wavelet_Forward53_1DWithParity x even = Some (D.fwd53 even x) /\
     jpeg2000_wavelet_Inverse53_1DWithParity x even = Some (D.inv53 even x)) /\
  (D.dwt1d_panics even x = true ->
     jpeg2000_wavelet_Forward53_1DWithParity x even = None /\ jpeg2000_wavelet_Inverse53_1DWithParity x even = None).
Proof.
  intros x even Hin. pose proof check_all_true as H. unfold check_all in H.
  rewrite forallb_forall in H. specialize (H x Hin).
  apply andb_prop in H. destruct H as [H H4]. apply andb_prop in H. destruct H as [H H3].
  apply andb_prop in H. destruct H as [H1 H2].
  assert (A : forall f m e, agrees f m e x = true ->
     (D.dwt1d_panics e x = false -> f x e = Some (m e x)) /\ (D.dwt1d_panics e x = true -> f x e = None)).
  { intros f m e Ha. unfold agrees in Ha. destruct (D.dwt1d_panics e x); split; intros E; try discriminate.
    - destruct (f x e); [discriminate | reflexivity].
    - destruct (f x e) as [y|]; [|discriminate]. apply zlist_eqb_eq in Ha. subst y. reflexivity. }
  destruct even.
  - destruct (A _ _ _ H1) as [F1 F2]. destruct (A _ _ _ H3) as [I1 I2]. split; intros E; split; auto.
  - destruct (A _ _ _ H2) as [F1 F2]. destruct (A _ _ _ H4) as [I1 I2]. split; intros E; split; auto.
Qed.
