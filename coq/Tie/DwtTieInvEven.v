(* General tie, inverse 5/3 lifting, even = true. *)
From V Require Import Common.Base Tie.GoSem Gen.KernelsSlices_gen.
Require V.DWT.DwtModel.
From V Require Import Tie.DwtTieLib Tie.DwtTieFwdEven Tie.DwtTieInvEvenLoop.

Lemma go_copy_all : forall data tmp, zlen tmp = zlen data -> go_copy data 0 (zlen data) tmp 0 (zlen tmp) = tmp.
Proof.
  intros data tmp H. unfold go_copy. cbv zeta. rewrite H, !Z.sub_0_r, Z.min_id.
  change (Z.to_nat 0) with 0%nat. cbn [firstn skipn app Nat.add]. unfold zlen in *.
  rewrite Nat2Z.id. rewrite firstn_all2 by lia. rewrite skipn_all. apply app_nil_r.
Qed.

Lemma go_copy_all' : forall data tmp w, zlen data = w -> zlen tmp = w -> go_copy data 0 w tmp 0 w = tmp.
Proof. intros data tmp w Hd Ht. subst w. rewrite <- Ht at 2. apply go_copy_all. exact Ht. Qed.

Lemma land1_mod : forall a, Z.land a 1 = a mod 2.
Proof. intros. change 1 with (Z.ones 1) at 1. rewrite Z.land_ones by lia. reflexivity. Qed.

Lemma list_eq_znth : forall (a b : list Z), zlen a = zlen b ->
  (forall z, 0 <= z < zlen a -> znth a z 0 = znth b z 0) -> a = b.
Proof.
  intros a b Hl H. unfold zlen in *. apply (nth_ext a b 0 0); [lia|].
  intros j Hj. rewrite !nth_znth. apply H. lia.
Qed.

Theorem tie_inv53_even : forall x, Forall (fun v => - 2 ^ 28 <= v < 2 ^ 28) x -> zlen x < 2 ^ 31 ->
  jpeg2000_wavelet_Inverse53_1DWithParity x true = Some (D.inv53_even x).
Proof.
  intros x HF HL.
  pose proof (znth_bound x (2 ^ 28) ltac:(lia) HF) as Hb.
  unfold jpeg2000_wavelet_Inverse53_1DWithParity. cbv beta zeta match.
  destruct (Z.leb_spec (zlen x) 1) as [W1|W1].
  { unfold D.inv53_even. cbv zeta. destruct (Nat.leb_spec (length x) 1); [reflexivity | unfold zlen in W1; lia]. }
  assert (Esn : Z.shiftr (zlen x + 1) 1 = (zlen x + 1) / 2) by apply sr1_div.
  rewrite Esn.
  assert (Ew : zlen x = Z.of_nat (length x)) by reflexivity.
  assert (ESN : Z.of_nat (Nat.div2 (length x + 1)) = (zlen x + 1) / 2).
  { rewrite div2_Z. rewrite Nat2Z.inj_add. reflexivity. }
  assert (EN : Z.of_nat (Nat.div2 (length x - 2)) = (zlen x - 2) / 2).
  { rewrite div2_Z. rewrite Nat2Z.inj_sub by lia. reflexivity. }
  assert (EL : Z.of_nat (Nat.div2 (length x - 1)) = (zlen x - 1) / 2).
  { rewrite div2_Z. rewrite Nat2Z.inj_sub by lia. reflexivity. }
  assert (EQ : Z.quot (zlen x - 1) 2 = (zlen x - 1) / 2) by (apply Z.quot_div_nonneg; lia).
  rewrite !EQ. rewrite !land1_mod.
  unfold D.inv53_even. cbv zeta. destruct (Nat.leb_spec (length x) 1) as [|_]; [lia|].
  rewrite odd_nat_Z, <- Ew.
  remember (zlen x) as w eqn:Hw.
  pose proof (Z.div_mod (w + 1) 2 ltac:(lia)) as DM. pose proof (Z.mod_pos_bound (w + 1) 2 ltac:(lia)) as MB.
  pose proof (Z.div_mod w 2 ltac:(lia)) as DM'. pose proof (Z.mod_pos_bound w 2 ltac:(lia)) as MB'.
  pose proof (Z.div_mod (w - 2) 2 ltac:(lia)) as DM2. pose proof (Z.mod_pos_bound (w - 2) 2 ltac:(lia)) as MB2.
  pose proof (Z.div_mod (w - 1) 2 ltac:(lia)) as DM1. pose proof (Z.mod_pos_bound (w - 1) 2 ltac:(lia)) as MB1.
  rewrite (wrapS_small ((w + 1) / 2)) by lia.
  remember ((w + 1) / 2) as sn eqn:Hsn.
  remember ((w - 2) / 2) as nn eqn:Hnn.
  remember ((w - 1) / 2) as ql eqn:Hql.
  destruct (Z.leb_spec 0 w); [|lia].
  guards.
  pose proof (Hb 0) as Hx0. pose proof (Hb sn) as Hxs.
  rewrite (wrapS_small (znth x sn 0 + 1)) by lia.
  pose proof (sr1_bound2 (znth x sn 0 + 1) (2 ^ 28) ltac:(lia) ltac:(lia)) as Hsr.
  rewrite (wrapS_small (znth x 0 0 - Z.shiftr (znth x sn 0 + 1) 1)) by lia.
  remember (Nat.div2 (length x + 1)) as SN eqn:HSN.
  remember (Nat.div2 (length x - 2)) as N eqn:HN.
  assert (Em0 : D.zn x 0 - D.sr1 (D.zn x SN + 1) = znth x 0 0 - Z.shiftr (znth x sn 0 + 1) 1) by zn_eq.
  assert (Em1 : D.zn x SN = znth x sn 0) by zn_eq.
  rewrite Em0, Em1.
  set (s00 := znth x 0 0 - Z.shiftr (znth x sn 0 + 1) 1) in *.
  assert (ESNn : SN = Z.to_nat sn) by lia.
  destruct (inv_loop1_spec x Hb w sn Hw ltac:(lia) ltac:(lia) ltac:(lia) N 0 1 (S (length x)) true (go_make w) 0 (znth x sn 0) (znth x 0 0) 0 s00)
    as (tmp1 & d1c' & s1n' & s0c' & E1 & L1 & N1 & B1 & B2); try lia.
  { apply zlen_go_make. lia. }
  rewrite E1. cbv beta match.
  unfold ML in *. change (Z.to_nat 1) with 1%nat in *. rewrite <- ESNn in *.
  destruct (D.inv53_even_loop N 1 SN x (znth x sn 0) s00) as [out [d1n s0n]] eqn:EML.
  cbn [fst snd] in *.
  assert (Lout : length out = (2 * N)%nat).
  { pose proof (ML_length x w sn ltac:(lia) ltac:(lia) N 1 (znth x sn 0) s00 ltac:(lia)) as HL'. unfold ML in HL'.
    change (Z.to_nat 1) with 1%nat in HL'. rewrite <- ESNn, EML in HL'. exact HL'. }
  rewrite ?zlen_go_upd. rewrite L1. replace (0 + 2 * Z.of_nat N) with (2 * nn) in * by lia.
  guards.
  set (tmp2 := go_upd tmp1 (2 * nn) s0n).
  assert (L2 : zlen tmp2 = w) by (unfold tmp2; rewrite zlen_go_upd; exact L1).
  assert (N2 : forall j, znth tmp2 j 0 = if j =? 2 * nn then s0n else znth tmp1 j 0).
  { intros j. unfold tmp2. apply znth_go_upd. lia. }
  destruct (Z.eqb_spec (w mod 2) 0) as [Wev|Wodd]; cbn [negb].
  - (* even width *)
    rewrite ?zlen_go_upd, ?L2. guards.
    rewrite (wrapS_small (d1n + s0n)) by lia.
    repeat match goal with |- context [?a <=? ?b] => destruct (Z.leb_spec a b); [|lia] end. cbn [andb].
    rewrite go_copy_all' by (rewrite ?zlen_go_upd; lia). f_equal.
    apply list_eq_znth.
    + rewrite zlen_go_upd, L2. unfold zlen. rewrite !app_length. cbn [length]. lia.
    + intros z Hz. rewrite zlen_go_upd, L2 in Hz. rewrite znth_go_upd by lia. rewrite N2, N1.
      rewrite znth_go_make. rewrite (znth_to_nat (out ++ _)) by lia.
      destruct (Z.eqb_spec z (w - 1)).
      * rewrite app_nth2 by lia. rewrite Lout. replace (Z.to_nat z - 2 * N)%nat with 1%nat by lia. reflexivity.
      * destruct (Z.eqb_spec z (2 * nn)).
        -- rewrite app_nth2 by lia. rewrite Lout. replace (Z.to_nat z - 2 * N)%nat with 0%nat by lia. reflexivity.
        -- destruct (Z.leb_spec 0 z); [|lia]. destruct (Z.ltb_spec z (2 * nn)); [|lia]. cbn [andb].
           rewrite app_nth1 by lia. rewrite Z.sub_0_r. reflexivity.
  - (* odd width *)
    pose proof (Hb ql) as Hq.
    rewrite (wrapS_small (d1n + 1)) by lia.
    pose proof (sr1_bound2 (d1n + 1) (2 ^ 28) ltac:(lia) ltac:(lia)) as Hsr'.
    rewrite (wrapS_small (znth x ql 0 - Z.shiftr (d1n + 1) 1)) by lia.
    assert (Eml : D.zn x (Nat.div2 (length x - 1)) - D.sr1 (d1n + 1) = znth x ql 0 - Z.shiftr (d1n + 1) 1) by zn_eq.
    rewrite Eml.
    set (last := znth x ql 0 - Z.shiftr (d1n + 1) 1) in *.
    rewrite (znth_go_upd tmp2 (w - 1) last (w - 1)) by lia.
    destruct (Z.eqb_spec (w - 1) (w - 1)); [|lia].
    rewrite (wrapS_small (s0n + last)) by lia.
    pose proof (sr1_bound2 (s0n + last) (2 ^ 29) ltac:(lia) ltac:(lia)) as Hsr2.
    rewrite (wrapS_small (d1n + Z.shiftr (s0n + last) 1)) by lia.
    repeat match goal with |- context [?a <=? ?b] => destruct (Z.leb_spec a b); [|lia] end. cbn [andb].
    rewrite go_copy_all' by (rewrite ?zlen_go_upd; lia). f_equal.
    apply list_eq_znth.
    + rewrite !zlen_go_upd, L2. unfold zlen. rewrite !app_length. cbn [length]. lia.
    + intros z Hz. rewrite !zlen_go_upd, L2 in Hz.
      rewrite znth_go_upd by (rewrite zlen_go_upd; lia). rewrite znth_go_upd by lia. rewrite N2, N1.
      rewrite znth_go_make. rewrite (znth_to_nat (out ++ _)) by lia.
      destruct (Z.eqb_spec z (w - 2)).
      * rewrite app_nth2 by lia. rewrite Lout. replace (Z.to_nat z - 2 * N)%nat with 1%nat by lia. reflexivity.
      * destruct (Z.eqb_spec z (w - 1)).
        -- rewrite app_nth2 by lia. rewrite Lout. replace (Z.to_nat z - 2 * N)%nat with 2%nat by lia. reflexivity.
        -- destruct (Z.eqb_spec z (2 * nn)).
           ++ rewrite app_nth2 by lia. rewrite Lout. replace (Z.to_nat z - 2 * N)%nat with 0%nat by lia. reflexivity.
           ++ destruct (Z.leb_spec 0 z); [|lia]. destruct (Z.ltb_spec z (2 * nn)); [|lia]. cbn [andb].
              rewrite app_nth1 by lia. rewrite Z.sub_0_r. reflexivity.
Qed.

Print Assumptions tie_inv53_even.
