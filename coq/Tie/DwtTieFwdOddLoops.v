(* Loop specifications (frame style) for the even=false branch of the translated Forward53_1DWithParity. *)
From V Require Import Common.Base Tie.GoSem Gen.KernelsSlices_gen.
From V Require Import Tie.DwtTieLib.

Section FwdOdd.
Variable x : list Z.
Hypothesis Hb : forall z, - 2 ^ 28 <= znth x z 0 < 2 ^ 28.
Variables w sn dn : Z.
Hypothesis Hw : w = zlen x.
Hypothesis Hw2 : 2 <= w < 2 ^ 31.
Hypothesis Hsd : sn + dn = w.
Hypothesis Hdn : 1 <= sn <= dn.
Hypothesis Hdn' : dn <= sn + 1.

Definition Po (i : Z) : Z := znth x (2 * i) 0 - Z.shiftr (znth x (2 * i + 1) 0 + znth x (2 * (i - 1) + 1) 0) 1.

Lemma Po_bound : forall i, - 2 ^ 29 <= Po i < 2 ^ 29.
Proof.
  intros i. unfold Po. pose proof (Hb (2 * i)). pose proof (Hb (2 * i + 1)). pose proof (Hb (2 * (i - 1) + 1)).
  pose proof (sr1_bound2 (znth x (2 * i + 1) 0 + znth x (2 * (i - 1) + 1) 0) (2 ^ 28) ltac:(lia) ltac:(lia)). lia.
Qed.

Ltac unwrap_idx := repeat match goal with |- context [wrapS 32 ?e] => rewrite (wrapS_small e) by lia end.

Lemma loop4_spec : forall m k fuel even width tmp,
  1 <= k -> k + Z.of_nat m = sn -> (m < fuel)%nat -> zlen tmp = w ->
  exists tmp', jpeg2000_wavelet_Forward53_1DWithParity_loop4 fuel x even width sn dn tmp k = Some (tmp', sn) /\
    zlen tmp' = w /\
    forall j, znth tmp' j 0 = if (sn + k <=? j) && (j <? sn + sn) then Po (j - sn) else znth tmp j 0.
Proof.
  induction m as [|m IH]; intros k fuel even width tmp Hk Hkm Hf Ht;
    (destruct fuel as [|fuel]; [lia|]); cbn [jpeg2000_wavelet_Forward53_1DWithParity_loop4].
  - destruct (Z.ltb_spec k sn); [lia|].
    exists tmp. replace k with sn by lia. split; [reflexivity|]. split; [exact Ht|].
    intros j. destruct (Z.leb_spec (sn + sn) j); destruct (Z.ltb_spec j (sn + sn)); try reflexivity; lia.
  - destruct (Z.ltb_spec k sn); [|lia].
    unwrap_idx.
    rewrite !idx_ok by lia. cbn [andb].
    pose proof (Hb (2 * k)). pose proof (Hb (2 * k + 1)). pose proof (Hb (2 * (k - 1) + 1)).
    rewrite (wrapS_small (znth x (2 * k + 1) 0 + znth x (2 * (k - 1) + 1) 0)) by lia.
    fold (Po k). pose proof (Po_bound k). rewrite (wrapS_small (Po k)) by lia.
    destruct (IH (k + 1) fuel even width (go_upd tmp (sn + k) (Po k))) as (tmp' & E & L & N);
      [lia | lia | lia | rewrite zlen_go_upd; exact Ht |].
    exists tmp'. split; [exact E|]. split; [exact L|].
    intros j. rewrite N. rewrite znth_go_upd by lia.
    destruct (Z.leb_spec (sn + (k + 1)) j); destruct (Z.leb_spec (sn + k) j);
      destruct (Z.ltb_spec j (sn + sn)); destruct (Z.eqb_spec j (sn + k)); cbn [andb]; try reflexivity; try lia.
    subst j. f_equal. lia.
Qed.

Section Upd.
Variable tmp : list Z.
Hypothesis Ht : zlen tmp = w.
Hypothesis Htb : forall j, - 2 ^ 29 <= znth tmp j 0 < 2 ^ 29.

Definition Uo (i : Z) : Z :=
  znth x (2 * i + 1) 0 + Z.shiftr (znth tmp (sn + i) 0 + znth tmp (sn + i + 1) 0 + 2) 2.

Lemma Uo_bound : forall i, - 2 ^ 30 <= Uo i < 2 ^ 30.
Proof.
  intros i. unfold Uo. pose proof (Hb (2 * i + 1)). pose proof (Htb (sn + i)). pose proof (Htb (sn + i + 1)).
  pose proof (sr2_bound4' (znth tmp (sn + i) 0 + znth tmp (sn + i + 1) 0 + 2) (2 ^ 28) ltac:(lia) ltac:(lia)). lia.
Qed.

Lemma loop5_spec : forall m k fuel even width data,
  0 <= k -> k + Z.of_nat m = dn - 1 -> (m < fuel)%nat -> zlen data = w ->
  (forall j, k <= j -> znth data j 0 = znth x j 0) ->
  exists data', jpeg2000_wavelet_Forward53_1DWithParity_loop5 fuel even width sn dn tmp data k = Some (data', dn - 1) /\
    zlen data' = w /\
    forall j, znth data' j 0 = if (k <=? j) && (j <? dn - 1) then Uo j else znth data j 0.
Proof.
  induction m as [|m IH]; intros k fuel even width data Hk Hkm Hf Hd Hx;
    (destruct fuel as [|fuel]; [lia|]); cbn [jpeg2000_wavelet_Forward53_1DWithParity_loop5];
    rewrite (wrapS_small (dn - 1)) by lia.
  - destruct (Z.ltb_spec k (dn - 1)); [lia|].
    exists data. replace k with (dn - 1) by lia. split; [reflexivity|]. split; [exact Hd|].
    intros j. destruct (Z.leb_spec (dn - 1) j); destruct (Z.ltb_spec j (dn - 1)); try reflexivity; lia.
  - destruct (Z.ltb_spec k (dn - 1)); [|lia].
    unwrap_idx.
    rewrite !idx_ok by lia. cbn [andb].
    rewrite (Hx (2 * k + 1)) by lia.
    pose proof (Hb (2 * k + 1)). pose proof (Htb (sn + k)). pose proof (Htb (sn + k + 1)).
    rewrite (wrapS_small (znth tmp (sn + k) 0 + znth tmp (sn + k + 1) 0)) by lia.
    rewrite (wrapS_small (znth tmp (sn + k) 0 + znth tmp (sn + k + 1) 0 + 2)) by lia.
    fold (Uo k). pose proof (Uo_bound k). rewrite (wrapS_small (Uo k)) by lia.
    destruct (IH (k + 1) fuel even width (go_upd data k (Uo k))) as (data' & E & L & N);
      [lia | lia | lia | rewrite zlen_go_upd; exact Hd | |].
    { intros j Hj. rewrite znth_go_upd by lia. destruct (Z.eqb_spec j k); [lia|]. apply Hx. lia. }
    exists data'. split; [exact E|]. split; [exact L|].
    intros j. rewrite N. rewrite znth_go_upd by lia.
    destruct (Z.leb_spec (k + 1) j); destruct (Z.leb_spec k j);
      destruct (Z.ltb_spec j (dn - 1)); destruct (Z.eqb_spec j k); cbn [andb]; try reflexivity; try lia.
    subst j. reflexivity.
Qed.

Lemma loop6_spec : forall m k fuel even width data,
  0 <= k -> k + Z.of_nat m = dn - 1 -> (m < fuel)%nat -> zlen data = w ->
  (forall j, k <= j -> znth data j 0 = znth x j 0) ->
  exists data', jpeg2000_wavelet_Forward53_1DWithParity_loop6 fuel even width sn dn tmp data k = Some (data', dn - 1) /\
    zlen data' = w /\
    forall j, znth data' j 0 = if (k <=? j) && (j <? dn - 1) then Uo j else znth data j 0.
Proof.
  induction m as [|m IH]; intros k fuel even width data Hk Hkm Hf Hd Hx;
    (destruct fuel as [|fuel]; [lia|]); cbn [jpeg2000_wavelet_Forward53_1DWithParity_loop6];
    rewrite (wrapS_small (dn - 1)) by lia.
  - destruct (Z.ltb_spec k (dn - 1)); [lia|].
    exists data. replace k with (dn - 1) by lia. split; [reflexivity|]. split; [exact Hd|].
    intros j. destruct (Z.leb_spec (dn - 1) j); destruct (Z.ltb_spec j (dn - 1)); try reflexivity; lia.
  - destruct (Z.ltb_spec k (dn - 1)); [|lia].
    unwrap_idx.
    rewrite !idx_ok by lia. cbn [andb].
    rewrite (Hx (2 * k + 1)) by lia.
    pose proof (Hb (2 * k + 1)). pose proof (Htb (sn + k)). pose proof (Htb (sn + k + 1)).
    rewrite (wrapS_small (znth tmp (sn + k) 0 + znth tmp (sn + k + 1) 0)) by lia.
    rewrite (wrapS_small (znth tmp (sn + k) 0 + znth tmp (sn + k + 1) 0 + 2)) by lia.
    fold (Uo k). pose proof (Uo_bound k). rewrite (wrapS_small (Uo k)) by lia.
    destruct (IH (k + 1) fuel even width (go_upd data k (Uo k))) as (data' & E & L & N);
      [lia | lia | lia | rewrite zlen_go_upd; exact Hd | |].
    { intros j Hj. rewrite znth_go_upd by lia. destruct (Z.eqb_spec j k); [lia|]. apply Hx. lia. }
    exists data'. split; [exact E|]. split; [exact L|].
    intros j. rewrite N. rewrite znth_go_upd by lia.
    destruct (Z.leb_spec (k + 1) j); destruct (Z.leb_spec k j);
      destruct (Z.ltb_spec j (dn - 1)); destruct (Z.eqb_spec j k); cbn [andb]; try reflexivity; try lia.
    subst j. reflexivity.
Qed.
End Upd.
End FwdOdd.
Check loop4_spec. Check loop5_spec.
