(* General tie, forward 5/3 lifting, even = false. *)
From V Require Import Common.Base Tie.GoSem Gen.KernelsSlices_gen.
Require V.DWT.DwtModel.
From V Require Import Tie.DwtTieLib Tie.DwtTieFwdOddLoops Tie.DwtTieFwdEven.

Definition hi_odd (x : list Z) : list Z :=
  let w := length x in let sn := Nat.div2 w in
    [D.zn x 0 - D.zn x 1]
    ++ map (fun i => D.zn x (2 * i) - D.sr1 (D.zn x (2 * i + 1) + D.zn x (2 * (i - 1) + 1))) (seq 1 (sn - 1))
    ++ (if Nat.odd w then [D.zn x (2 * sn) - D.zn x (2 * (sn - 1) + 1)] else []).
Definition lo_odd (x hi : list Z) : list Z :=
  let w := length x in let sn := Nat.div2 w in let dn := (w - sn)%nat in
    map (fun i => D.zn x (2 * i + 1) + D.sr2 (D.zn hi i + D.zn hi (i + 1) + 2)) (seq 0 (dn - 1))
    ++ (if Nat.even w then [D.zn x (2 * (dn - 1) + 1) + D.sr2 (D.zn hi (dn - 1) + D.zn hi (dn - 1) + 2)] else []).
Lemma fwd53_odd_unf : forall x, (1 < length x)%nat -> D.fwd53_odd x = lo_odd x (hi_odd x) ++ hi_odd x.
Proof.
  intros x H. unfold D.fwd53_odd. cbv zeta.
  destruct (Nat.eqb_spec (length x) 1); [lia|]. destruct (Nat.eqb_spec (length x) 0); [lia | reflexivity].
Qed.

Theorem tie_fwd53_odd : forall x, Forall (fun v => - 2 ^ 28 <= v < 2 ^ 28) x -> zlen x < 2 ^ 31 -> x <> [] ->
  jpeg2000_wavelet_Forward53_1DWithParity x false = Some (D.fwd53_odd x).
Proof.
  intros x HF HL Hne.
  pose proof (znth_bound x (2 ^ 28) ltac:(lia) HF) as Hb.
  unfold jpeg2000_wavelet_Forward53_1DWithParity. cbv beta zeta match.
  destruct (Z.eqb_spec (zlen x) 1) as [W1|W1].
  { destruct x as [|a [|b t]]; [congruence | | unfold zlen in W1; cbn [length] in W1; lia].
    pose proof (Hb 0) as H0. rewrite idx_ok by (unfold zlen; cbn [length]; lia).
    rewrite wrapS_small by lia. reflexivity. }
  assert (W2 : 2 <= zlen x). { destruct x; [congruence|]. unfold zlen in *. cbn [length] in *. lia. }
  assert (Esn : Z.shiftr (zlen x) 1 = zlen x / 2) by apply sr1_div.
  rewrite Esn.
  assert (Ew : zlen x = Z.of_nat (length x)) by reflexivity.
  assert (ESN : Z.of_nat (Nat.div2 (length x)) = zlen x / 2) by apply div2_Z.
  assert (ERem : Z.rem (zlen x) 2 = zlen x mod 2) by (apply Z.rem_mod_nonneg; lia).
  rewrite !ERem.
  rewrite fwd53_odd_unf by lia.
  remember (zlen x) as w eqn:Hw.
  pose proof (Z.div_mod w 2 ltac:(lia)) as DM. pose proof (Z.mod_pos_bound w 2 ltac:(lia)) as MB.
  rewrite (wrapS_small (w / 2)) by lia.
  remember (w / 2) as sn eqn:Hsn.
  rewrite (wrapS_small (w - sn)) by lia.
  remember (w - sn) as dn eqn:Hdn.
  destruct (Z.leb_spec 0 w); [|lia].
  unwrap_idx. rewrite zlen_go_make by lia. guards.
  pose proof (Hb 0) as Hx0. pose proof (Hb 1) as Hx1.
  rewrite (wrapS_small (znth x 0 0 - znth x 1 0)) by lia.
  set (b0 := znth x 0 0 - znth x 1 0) in *.
  set (tmp1 := go_upd (go_make w) (sn + 0) b0).
  assert (L1 : zlen tmp1 = w) by (unfold tmp1; rewrite zlen_go_upd; apply zlen_go_make; lia).
  assert (N1 : forall j, znth tmp1 j 0 = if j =? sn + 0 then b0 else 0).
  { intros j. unfold tmp1. rewrite znth_go_upd by (rewrite zlen_go_make; lia). rewrite znth_go_make. reflexivity. }
  assert (exists tmp2, jpeg2000_wavelet_Forward53_1DWithParity_loop4 (S (length x)) x false w sn dn tmp1 1 = Some (tmp2, sn) /\
    zlen tmp2 = w /\
    forall j, znth tmp2 j 0 = if (sn + 1 <=? j) && (j <? sn + sn) then Po x (j - sn) else znth tmp1 j 0) as (tmp2 & E2 & L2 & N2).
  { apply (loop4_spec x Hb w sn dn) with (m := Z.to_nat (sn - 1)); try lia. }
  rewrite E2. cbv beta match.
  assert (Htb2 : forall j, - 2 ^ 29 <= znth tmp2 j 0 < 2 ^ 29).
  { intros j. rewrite N2, N1. destruct ((sn + 1 <=? j) && (j <? sn + sn)); [apply Po_bound; exact Hb |].
    destruct (j =? sn + 0); lia. }
  remember (Z.to_nat sn) as SN eqn:HSN.
  assert (ESN' : Nat.div2 (length x) = SN) by lia.
  assert (ZSN : Z.of_nat SN = sn) by lia.
  remember (length x - SN)%nat as DN eqn:HDN.
  assert (ZDN : Z.of_nat DN = dn) by lia.
  assert (Lhi : length (hi_odd x) = DN).
  { unfold hi_odd. cbv zeta. rewrite ESN'. cbn [app length]. rewrite app_length, map_length, seq_length, odd_nat_Z, <- Ew.
    destruct (Z.eqb_spec (w mod 2) 0); cbn [length negb]; lia. }
  assert (Hhi1 : forall j, (j < SN)%nat -> nth j (hi_odd x) 0 = znth tmp2 (Z.of_nat SN + Z.of_nat j) 0).
  { intros j Hj. unfold hi_odd. cbv zeta. rewrite ESN'. cbn [app]. rewrite N2, N1. destruct j as [|j']; cbn [nth].
    - destruct (Z.leb_spec (sn + 1) (Z.of_nat SN + Z.of_nat 0)); [lia|]. cbn [andb].
      destruct (Z.eqb_spec (Z.of_nat SN + Z.of_nat 0) (sn + 0)); [|lia]. unfold b0. zn_eq.
    - rewrite app_nth1 by (rewrite map_length, seq_length; lia). rewrite nth_map_seq by lia.
      destruct (Z.leb_spec (sn + 1) (Z.of_nat SN + Z.of_nat (S j'))); [|lia].
      destruct (Z.ltb_spec (Z.of_nat SN + Z.of_nat (S j')) (sn + sn)); [|lia]. cbn [andb].
      unfold Po. zn_eq. }
  assert (Llo : forall hi, length (lo_odd x hi) = SN).
  { intros hi. unfold lo_odd. cbv zeta. rewrite ESN', <- HDN.
    rewrite app_length, map_length, seq_length, even_nat_Z, <- Ew.
    destruct (Z.eqb_spec (w mod 2) 0); cbn [length]; lia. }
  destruct (Z.eqb_spec (w mod 2) 1) as [Wodd|Wev].
  - (* odd width: dn = sn + 1 *)
    unwrap_idx. rewrite ?L2. guards.
    pose proof (Hb (2 * sn)). pose proof (Hb (2 * (sn - 1) + 1)).
    rewrite (wrapS_small (znth x (2 * sn) 0 - znth x (2 * (sn - 1) + 1) 0)) by lia.
    set (bv := znth x (2 * sn) 0 - znth x (2 * (sn - 1) + 1) 0) in *.
    set (tmp3 := go_upd tmp2 (sn + sn) bv).
    assert (L3 : zlen tmp3 = w) by (unfold tmp3; rewrite zlen_go_upd; exact L2).
    assert (N3 : forall j, znth tmp3 j 0 = if j =? sn + sn then bv else znth tmp2 j 0).
    { intros j. unfold tmp3. apply znth_go_upd. lia. }
    assert (Htb3 : forall j, - 2 ^ 29 <= znth tmp3 j 0 < 2 ^ 29).
    { intros j. rewrite N3. destruct (j =? sn + sn); [lia | apply Htb2]. }
    assert (exists data2, jpeg2000_wavelet_Forward53_1DWithParity_loop5 (S (length x)) false w sn dn tmp3 x 0 = Some (data2, dn - 1) /\
      zlen data2 = w /\
      forall j, znth data2 j 0 = if (0 <=? j) && (j <? dn - 1) then Uo x sn tmp3 j else znth x j 0) as (data2 & E5 & Ld2 & Nd2).
    { apply (loop5_spec x Hb w sn dn) with (m := Z.to_nat (dn - 1)); try lia; try assumption. }
    rewrite E5. cbv beta match.
    destruct (Z.eqb_spec (w mod 2) 0); [lia|].
    unwrap_idx. rewrite ?Ld2, ?L3.
    replace (sn + dn) with w by lia.
    destruct (Z.leb_spec 0 sn); [|lia]. destruct (Z.leb_spec sn w); [|lia]. destruct (Z.leb_spec w w); [|lia]. cbn [andb].
    f_equal. rewrite go_copy_tail' by lia. rewrite <- HSN.
    assert (Hhi : forall j, (j < DN)%nat -> nth j (hi_odd x) 0 = znth tmp3 (Z.of_nat SN + Z.of_nat j) 0).
    { intros j Hj. rewrite N3.
      destruct (Z.eqb_spec (Z.of_nat SN + Z.of_nat j) (sn + sn)) as [Ej|Ej].
      - assert (j = SN) by lia. subst j.
        unfold hi_odd. cbv zeta. rewrite ESN'. cbn [app]. destruct SN as [|SN']; [lia|]. cbn [nth].
        rewrite app_nth2 by (rewrite map_length, seq_length; lia).
        rewrite map_length, seq_length. replace (SN' - (S SN' - 1))%nat with 0%nat by lia.
        rewrite odd_nat_Z, <- Ew. destruct (Z.eqb_spec (w mod 2) 0); [lia|]. cbn [negb nth]. unfold bv. zn_eq.
      - apply Hhi1. lia. }
    apply (assemble data2 tmp3 _ _ (length x) SN); try lia.
    + unfold zlen in Ld2. lia.
    + unfold zlen in L3. lia.
    + apply Llo.
    + intros j Hj. set (hi := hi_odd x) in *. unfold lo_odd. cbv zeta. rewrite ESN', <- HDN.
      rewrite app_nth1 by (rewrite map_length, seq_length; lia). rewrite nth_map_seq by lia.
      rewrite Nd2. destruct (Z.leb_spec 0 (Z.of_nat j)); [|lia].
      destruct (Z.ltb_spec (Z.of_nat j) (dn - 1)); [|lia]. cbn [andb].
      unfold Uo, D.zn, D.sr2. rewrite !Hhi by lia. rewrite nth_znth. repeat (f_equal; try lia).
    + intros j Hj. apply Hhi. lia.
  - (* even width: dn = sn *)
    assert (exists data2, jpeg2000_wavelet_Forward53_1DWithParity_loop6 (S (length x)) false w sn dn tmp2 x 0 = Some (data2, dn - 1) /\
      zlen data2 = w /\
      forall j, znth data2 j 0 = if (0 <=? j) && (j <? dn - 1) then Uo x sn tmp2 j else znth x j 0) as (data2 & E6 & Ld2 & Nd2).
    { apply (loop6_spec x Hb w sn dn) with (m := Z.to_nat (dn - 1)); try lia; try assumption. }
    rewrite E6. cbv beta match.
    destruct (Z.eqb_spec (w mod 2) 0); [|lia].
    unwrap_idx. rewrite ?Ld2, ?L2. guards.
    assert (Ex : znth data2 (2 * (dn - 1) + 1) 0 = znth x (2 * (dn - 1) + 1) 0).
    { rewrite Nd2. destruct (Z.ltb_spec (2 * (dn - 1) + 1) (dn - 1)); [lia|]. rewrite andb_false_r. reflexivity. }
    rewrite Ex.
    pose proof (Htb2 (sn + (dn - 1))) as Hs'. pose proof (Hb (2 * (dn - 1) + 1)).
    rewrite (wrapS_small (znth tmp2 (sn + (dn - 1)) 0 + znth tmp2 (sn + (dn - 1)) 0)) by lia.
    rewrite (wrapS_small (znth tmp2 (sn + (dn - 1)) 0 + znth tmp2 (sn + (dn - 1)) 0 + 2)) by lia.
    pose proof (sr2_bound4' (znth tmp2 (sn + (dn - 1)) 0 + znth tmp2 (sn + (dn - 1)) 0 + 2) (2 ^ 28) ltac:(lia) ltac:(lia)) as Hsr'.
    rewrite (wrapS_small (znth x (2 * (dn - 1) + 1) 0 + Z.shiftr (znth tmp2 (sn + (dn - 1)) 0 + znth tmp2 (sn + (dn - 1)) 0 + 2) 2)) by lia.
    set (vl := znth x (2 * (dn - 1) + 1) 0 + Z.shiftr (znth tmp2 (sn + (dn - 1)) 0 + znth tmp2 (sn + (dn - 1)) 0 + 2) 2) in *.
    set (data3 := go_upd data2 (dn - 1) vl).
    assert (Ld3 : zlen data3 = w) by (unfold data3; rewrite zlen_go_upd; lia).
    assert (Nd3 : forall j, znth data3 j 0 = if j =? dn - 1 then vl else znth data2 j 0).
    { intros j. unfold data3. apply znth_go_upd. lia. }
    rewrite Ld3. replace (sn + dn) with w by lia.
    destruct (Z.leb_spec 0 sn); [|lia]. destruct (Z.leb_spec sn w); [|lia]. destruct (Z.leb_spec w w); [|lia]. cbn [andb].
    f_equal. rewrite go_copy_tail' by lia. rewrite <- HSN.
    assert (Hhi : forall j, (j < DN)%nat -> nth j (hi_odd x) 0 = znth tmp2 (Z.of_nat SN + Z.of_nat j) 0).
    { intros j Hj. apply Hhi1. lia. }
    apply (assemble data3 tmp2 _ _ (length x) SN); try lia.
    + unfold zlen in Ld3. lia.
    + unfold zlen in L2. lia.
    + apply Llo.
    + intros j Hj. set (hi := hi_odd x) in *. unfold lo_odd. cbv zeta. rewrite ESN', <- HDN.
      destruct (Nat.lt_ge_cases j (DN - 1)) as [Lj|Lj].
      * rewrite app_nth1 by (rewrite map_length, seq_length; lia). rewrite nth_map_seq by lia.
        rewrite Nd3, Nd2. destruct (Z.eqb_spec (Z.of_nat j) (dn - 1)); [lia|].
        destruct (Z.leb_spec 0 (Z.of_nat j)); [|lia].
        destruct (Z.ltb_spec (Z.of_nat j) (dn - 1)); [|lia]. cbn [andb].
        unfold Uo, D.zn, D.sr2. rewrite !Hhi by lia. rewrite nth_znth. repeat (f_equal; try lia).
      * assert (j = DN - 1)%nat by lia.
        rewrite app_nth2 by (rewrite map_length, seq_length; lia). rewrite map_length, seq_length.
        replace (j - (DN - 1))%nat with 0%nat by lia.
        rewrite even_nat_Z, <- Ew. destruct (Z.eqb_spec (w mod 2) 0); [|lia]. cbn [nth].
        rewrite Nd3. destruct (Z.eqb_spec (Z.of_nat j) (dn - 1)); [|lia].
        unfold vl, D.zn, D.sr2. rewrite !Hhi by lia. rewrite nth_znth. repeat (f_equal; try lia).
    + intros j Hj. apply Hhi. lia.
Qed.

Print Assumptions tie_fwd53_odd.
