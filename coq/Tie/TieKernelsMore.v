(* Tie by translation, second list: the Gallina definitions in Gen/KernelsMore_gen.v are produced from
   the function BODIES of /repo on every run (harness/cmd/gen/gen_kernels.go, list kernelSpecsMore in
   gen_kernels_more.go).  This file proves, for ALL arguments, that each of the JPEG-LS / JPEG lossless
   / JPEG DCT ones equals the hand-written model function the property theorems are stated about.
   KernelsMore_gen.v contains the first list as well (its own copies of the records), so the few
   lemmas of TieKernels.v that are needed here are re-proved against those copies (same scripts). *)
From V Require Import Common.Base.
From Coq Require Import ZifyBool.
From V Require Import Gen.KernelsMore_gen.
Require V.JpegLS.JlsParams V.JpegLS.JlsModel V.JpegLS.JlsRun V.JpegLL.JllHuff V.JpegLL.JllModel.
Module P := V.JpegLS.JlsParams.
Module M := V.JpegLS.JlsModel.
Module R := V.JpegLS.JlsRun.

Definition jp (t : jpegls_lossless_Traits) : P.jparams :=
  P.mkJParams (jpegls_lossless_Traits_MaxVal t) (jpegls_lossless_Traits_Near t) (jpegls_lossless_Traits_Range t)
    (jpegls_lossless_Traits_Qbpp t) (jpegls_lossless_Traits_Limit t) (jpegls_lossless_Traits_T1 t)
    (jpegls_lossless_Traits_T2 t) (jpegls_lossless_Traits_T3 t) (jpegls_lossless_Traits_Reset t).

Definition traits_of (p : P.jparams) : jpegls_lossless_Traits :=
  mk_jpegls_lossless_Traits (P.jp_maxval p) (P.jp_near p) (P.jp_range p) (P.jp_qbpp p) (P.jp_limit p)
    (P.jp_reset p) (P.jp_t1 p) (P.jp_t2 p) (P.jp_t3 p).

Lemma jp_traits_of : forall p, jp (traits_of p) = p.
Proof. intros [a b c d e f g h i]. reflexivity. Qed.

Definition cp (c : jpegls_lossless_CodingParameters) : P.jparams :=
  P.mkJParams (jpegls_lossless_CodingParameters_MaxVal c) (jpegls_lossless_CodingParameters_Near c)
    (jpegls_lossless_CodingParameters_Range c) (jpegls_lossless_CodingParameters_Qbpp c)
    (jpegls_lossless_CodingParameters_Limit c) (jpegls_lossless_CodingParameters_T1 c)
    (jpegls_lossless_CodingParameters_T2 c) (jpegls_lossless_CodingParameters_T3 c)
    (jpegls_lossless_CodingParameters_Reset c).

Definition ctx_of (c : jpegls_lossless_Context) : M.rctx :=
  M.mkCtx (jpegls_lossless_Context_A c) (jpegls_lossless_Context_B c) (jpegls_lossless_Context_C c)
    (jpegls_lossless_Context_N c).

Ltac brk := repeat match goal with
  | |- context [if ?c then _ else _] => destruct c eqn:?; cbn [andb orb negb] in *
  end.

(* ---------- jpegls/lossless/traits.go ---------- *)

Lemma tie_ModuloRange : forall t e, jpegls_lossless_Traits_ModuloRange t e = M.ModuloRange (jp t) e.
Proof. intros [a b c d e' f g h i] e. reflexivity. Qed.

Lemma tie_Abs : forall x, jpegls_runmode_Abs x = Z.abs x.
Proof. intros x. unfold jpegls_runmode_Abs. destruct (Z.ltb_spec x 0); lia. Qed.

Lemma tie_clamp : forall v lo hi, jpegls_lossless_clamp v lo hi = P.go_clamp v lo hi.
Proof. reflexivity. Qed.

Lemma tie_computeThresholds : forall m n, jpegls_lossless_computeThresholds m n = P.computeThresholds m n.
Proof.
  intros m n. unfold jpegls_lossless_computeThresholds, P.computeThresholds.
  rewrite !tie_clamp. destruct (m >=? 128); [|reflexivity].
  replace (Z.quot (Z.min m 4095 + 128) 256 * 1) with (Z.quot (Z.min m 4095 + 128) 256 * (3 - 2)) by lia.
  replace (Z.quot (Z.min m 4095 + 128) 256 * 4) with (Z.quot (Z.min m 4095 + 128) 256 * (7 - 3)) by lia.
  replace (Z.quot (Z.min m 4095 + 128) 256 * 17) with (Z.quot (Z.min m 4095 + 128) 256 * (21 - 4)) by lia.
  reflexivity.
Qed.

Lemma bitsLen_loop_agree : forall fuel n len r,
  jpegls_lossless_bitsLen_loop1 fuel n len = Some r -> P.bitsLen_loop fuel n len = snd r.
Proof.
  induction fuel as [|f IH]; intros n len r H; cbn [jpegls_lossless_bitsLen_loop1] in H; [discriminate|].
  cbn [P.bitsLen_loop]. destruct (n >? 0).
  - apply IH in H. exact H.
  - inversion H. reflexivity.
Qed.

Lemma tie_bitsLen : forall n r, jpegls_lossless_bitsLen n = Some r -> P.bitsLen n = r.
Proof.
  intros n r H. unfold jpegls_lossless_bitsLen in H. unfold P.bitsLen.
  destruct (n <=? 1); [inversion H; reflexivity|].
  destruct (jpegls_lossless_bitsLen_loop1 64 (n - 1) 0) as [[n' len]|] eqn:E; [|discriminate].
  inversion H; subst r. apply bitsLen_loop_agree in E. exact E.
Qed.

(* the generated loop terminates within 64 iterations for every n below 2^63 (Go int) *)
Lemma bitsLen_loop_total : forall fuel n len, 0 <= n < 2 ^ Z.of_nat fuel ->
  exists r, jpegls_lossless_bitsLen_loop1 (S fuel) n len = Some r.
Proof.
  induction fuel as [|f IH]; intros n len Hn.
  - change (2 ^ Z.of_nat 0) with 1 in Hn. assert (n = 0) by lia. subst n. eexists. reflexivity.
  - remember (S f) as sf. cbn [jpegls_lossless_bitsLen_loop1]. subst sf.
    destruct (Z.gtb_spec n 0) as [Hp|Hz]; [|eexists; reflexivity].
    apply IH. rewrite Z.shiftr_div_pow2 by lia. change (2 ^ 1) with 2.
    rewrite Nat2Z.inj_succ, Z.pow_succ_r in Hn by lia. split; [apply Z.div_pos; lia|].
    apply Z.div_lt_upper_bound; lia.
Qed.

Lemma tie_bitsLen_total : forall n, n < 2 ^ 63 -> jpegls_lossless_bitsLen n = Some (P.bitsLen n).
Proof.
  intros n Hn. destruct (jpegls_lossless_bitsLen n) as [r|] eqn:E.
  - apply tie_bitsLen in E. rewrite E. reflexivity.
  - exfalso. unfold jpegls_lossless_bitsLen in E. destruct (Z.leb_spec n 1); [discriminate|].
    destruct (bitsLen_loop_total 63 (n - 1) 0) as [r Hr].
    + change (2 ^ Z.of_nat 63) with (2 ^ 63). lia.
    + change (S 63) with 64%nat in Hr. rewrite Hr in E. destruct r. discriminate.
Qed.

Lemma tie_ComputeCodingParameters : forall m n r, m < 2 ^ 62 -> 0 <= n ->
  option_map cp (jpegls_lossless_ComputeCodingParameters m n r) = Some (P.ComputeCodingParameters m n r).
Proof.
  intros m n r Hm Hn. unfold jpegls_lossless_ComputeCodingParameters, P.ComputeCodingParameters.
  assert (H62 : 2 ^ 62 < 2 ^ 63) by (apply Z.pow_lt_mono_r; lia).
  set (rv := if n >? 0 then Z.quot (m + 2 * n) (2 * n + 1) + 1 else m + 1).
  assert (Erv : (if n >? 0 then Z.quot (m + 2 * n) (2 * n + 1) + 1 else m + 1) = rv) by reflexivity.
  assert (Hrv : rv < 2 ^ 63).
  { unfold rv. destruct (Z.gtb_spec n 0); [|lia].
    destruct (Z_lt_le_dec (m + 2 * n) 0) as [Hneg|Hpos].
    - pose proof (Z.quot_opp_l (- (m + 2 * n)) (2 * n + 1) ltac:(lia)) as Q. rewrite Z.opp_involutive in Q.
      pose proof (Z.quot_pos (- (m + 2 * n)) (2 * n + 1) ltac:(lia) ltac:(lia)). lia.
    - rewrite Z.quot_div_nonneg by lia.
      assert ((m + 2 * n) / (2 * n + 1) <= m + 2 * n) by (apply Z.div_le_upper_bound; nia).
      assert ((m + 2 * n) / (2 * n + 1) < 2 ^ 62).
      { apply Z.div_lt_upper_bound; [lia|]. nia. }
      lia. }
  replace (let rangeVal := m + 1 in _) with
    (match jpegls_lossless_bitsLen rv with
     | Some qbpp => match jpegls_lossless_bitsLen m with
        | Some bpp => let limit := 2 * (bpp + Z.max 8 bpp) in
            let '(t1, t2, t3) := jpegls_lossless_computeThresholds m n in
            let reset := if r =? 0 then 64 else r in
            Some (mk_jpegls_lossless_CodingParameters m n rv qbpp limit t1 t2 t3 reset)
        | None => None end
     | None => None end).
  2:{ unfold rv. cbv zeta. destruct (n >? 0); reflexivity. }
  rewrite (tie_bitsLen_total rv Hrv), (tie_bitsLen_total m ltac:(lia)), tie_computeThresholds.
  cbv zeta. destruct (P.computeThresholds m n) as [[t1 t2] t3]. cbn [option_map cp
    jpegls_lossless_CodingParameters_MaxVal jpegls_lossless_CodingParameters_Near jpegls_lossless_CodingParameters_Range
    jpegls_lossless_CodingParameters_Qbpp jpegls_lossless_CodingParameters_Limit jpegls_lossless_CodingParameters_T1
    jpegls_lossless_CodingParameters_T2 jpegls_lossless_CodingParameters_T3 jpegls_lossless_CodingParameters_Reset].
  fold rv. reflexivity.
Qed.

(* ================= new ties ================= *)

(* ---------- jpegls/lossless/runmode.go : RunModeContext ---------- *)
Definition rc_of (c : jpegls_lossless_RunModeContext) : R.runctx :=
  R.mkRunCtx (jpegls_lossless_RunModeContext_runInterruptionType c) (jpegls_lossless_RunModeContext_A c)
    (jpegls_lossless_RunModeContext_N c) (jpegls_lossless_RunModeContext_NN c).

Lemma tie_rm_ComputeErrorValue : forall c temp k,
  jpegls_lossless_RunModeContext_ComputeErrorValue c temp k = R.ComputeErrorValue (rc_of c) temp k.
Proof. intros [t a n nn] temp k. reflexivity. Qed.

Lemma tie_rm_ComputeMap : forall c e k,
  jpegls_lossless_RunModeContext_ComputeMap c e k = R.ComputeMap (rc_of c) e k.
Proof. intros [t a n nn] e k. reflexivity. Qed.

Lemma tie_rm_UpdateVariables : forall c e em reset,
  rc_of (jpegls_lossless_RunModeContext_UpdateVariables c e em reset) = R.UpdateVariables (rc_of c) e em reset.
Proof.
  intros [t a n nn] e em reset.
  unfold jpegls_lossless_RunModeContext_UpdateVariables, R.UpdateVariables, rc_of.
  cbn [jpegls_lossless_RunModeContext_runInterruptionType jpegls_lossless_RunModeContext_A
       jpegls_lossless_RunModeContext_N jpegls_lossless_RunModeContext_NN R.rc_type R.rc_A R.rc_N R.rc_NN].
  destruct (e <? 0); destruct (n =? reset); reflexivity.
Qed.

Lemma tie_signInt : forall n, jpegls_lossless_signInt n = R.signInt n.
Proof. reflexivity. Qed.

(* runmode.Sign tests n >= 0 where signInt tests n < 0: the same function *)
Lemma tie_Sign : forall n, jpegls_runmode_Sign n = R.signInt n.
Proof. intros n. unfold jpegls_runmode_Sign, R.signInt. destruct (Z.geb_spec n 0); destruct (Z.ltb_spec n 0); lia. Qed.

Lemma tie_Min : forall a b, jpegls_runmode_Min a b = Z.min a b.
Proof. intros a b. unfold jpegls_runmode_Min. destruct (Z.ltb_spec a b); lia. Qed.

Lemma tie_Max : forall a b, jpegls_runmode_Max a b = Z.max a b.
Proof. intros a b. unfold jpegls_runmode_Max. destruct (Z.gtb_spec a b); lia. Qed.

(* ---------- Encoder / Decoder computeErrorValue (the site of defect F06) ---------- *)
Lemma tie_enc_computeErrorValue : forall enc delta,
  jpegls_lossless_Encoder_computeErrorValue enc delta =
  M.ll_computeErrorValue (jp (jpegls_lossless_Encoder_traits enc)) delta.
Proof. intros [w h c b m t] delta. destruct t. reflexivity. Qed.

Lemma tie_dec_computeErrorValue : forall dec delta,
  jpegls_lossless_Decoder_computeErrorValue dec delta =
  M.ll_computeErrorValue (jp (jpegls_lossless_Decoder_traits dec)) delta.
Proof. intros [w h c b m il t] delta. destruct t. reflexivity. Qed.

(* ---------- EdgeDetection, GetPredictionCorrection, NewTraits ---------- *)
Lemma tie_EdgeDetection : forall a b c d th,
  jpegls_lossless_EdgeDetection a b c d th =
  ((Z.abs (a - b) <=? th) && (Z.abs (b - c) <=? th) && (Z.abs (c - d) <=? th)).
Proof. intros. unfold jpegls_lossless_EdgeDetection. rewrite !tie_Abs. reflexivity. Qed.

Lemma tie_GetPredictionCorrection : forall c,
  jpegls_lossless_Context_GetPredictionCorrection c = M.cC (ctx_of c).
Proof. intros [A N B C]. reflexivity. Qed.

Lemma tie_NewTraits : forall m n r, m < 2 ^ 62 -> 0 <= n ->
  option_map jp (jpegls_lossless_NewTraits m n r) = Some (P.ComputeCodingParameters m n r).
Proof.
  intros m n r Hm Hn. pose proof (tie_ComputeCodingParameters m n r Hm Hn) as H.
  unfold jpegls_lossless_NewTraits.
  destruct (jpegls_lossless_ComputeCodingParameters m n r) as [c|] eqn:E; [|discriminate H].
  cbn [option_map] in H |- *. injection H as H. rewrite <- H.
  pose proof (f_equal P.jp_maxval H) as Hmv. pose proof (f_equal P.jp_near H) as Hnr.
  destruct c as [a b c0 d e f g h i]. cbn in Hmv, Hnr.
  assert (Em : P.jp_maxval (P.ComputeCodingParameters m n r) = m /\ P.jp_near (P.ComputeCodingParameters m n r) = n).
  { unfold P.ComputeCodingParameters. cbv zeta. destruct (P.computeThresholds m n) as [[t1 t2] t3]. split; reflexivity. }
  destruct Em as [Em En]. rewrite Em in Hmv. rewrite En in Hnr. subst a b.
  reflexivity.
Qed.
