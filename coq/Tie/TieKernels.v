(* Tie by translation: the Gallina definitions in Gen/Kernels_gen.v are produced from the function
   BODIES of /repo on every run (harness/cmd/gen/gen_kernels.go).  This file proves, for ALL
   arguments, that each of them equals the hand-written model function the property theorems are
   stated about.  A change of one of these Go functions therefore changes the generated
   definition and the lemma below is re-checked against it: it either still holds (a harmless
   rewrite with the same meaning that these short proofs can follow), or the build of this file
   fails and bin/check reports the broken obligation for the properties that depend on it.

   jp t : the jparams record of the hand model that corresponds to a Go Traits value. *)
From V Require Import Common.Base.
From Coq Require Import ZifyBool.
From V Require Import Gen.Kernels_gen.
Require V.JpegLS.JlsParams V.JpegLS.JlsModel V.JpegLS.JlsRun V.JpegLL.JllHuff V.JpegLL.JllModel.
Module P := V.JpegLS.JlsParams.
Module M := V.JpegLS.JlsModel.

Definition jp (t : jpegls_lossless_Traits) : P.jparams :=
  P.mkJParams (jpegls_lossless_Traits_MaxVal t) (jpegls_lossless_Traits_Near t) (jpegls_lossless_Traits_Range t)
    (jpegls_lossless_Traits_Qbpp t) (jpegls_lossless_Traits_Limit t) (jpegls_lossless_Traits_T1 t)
    (jpegls_lossless_Traits_T2 t) (jpegls_lossless_Traits_T3 t) (jpegls_lossless_Traits_Reset t).

Definition traits_of (p : P.jparams) : jpegls_lossless_Traits :=
  mk_jpegls_lossless_Traits (P.jp_maxval p) (P.jp_near p) (P.jp_range p) (P.jp_qbpp p) (P.jp_limit p)
    (P.jp_reset p) (P.jp_t1 p) (P.jp_t2 p) (P.jp_t3 p).

Lemma jp_traits_of : forall p, jp (traits_of p) = p.
Proof. intros [a b c d e f g h i]. reflexivity. Qed.

Definition cp (c : jpegls_lossless_CodingParameters) : P.jparams :=
  P.mkJParams (jpegls_lossless_CodingParameters_MaxVal c) (jpegls_lossless_CodingParameters_Near c)
    (jpegls_lossless_CodingParameters_Range c) (jpegls_lossless_CodingParameters_Qbpp c)
    (jpegls_lossless_CodingParameters_Limit c) (jpegls_lossless_CodingParameters_T1 c)
    (jpegls_lossless_CodingParameters_T2 c) (jpegls_lossless_CodingParameters_T3 c)
    (jpegls_lossless_CodingParameters_Reset c).

Definition ctx_of (c : jpegls_lossless_Context) : M.rctx :=
  M.mkCtx (jpegls_lossless_Context_A c) (jpegls_lossless_Context_B c) (jpegls_lossless_Context_C c)
    (jpegls_lossless_Context_N c).

Definition gq (g : jpegls_lossless_GradientQuantizer) : P.jparams :=
  P.mkJParams 0 (jpegls_lossless_GradientQuantizer_Near g) 0 0 0 (jpegls_lossless_GradientQuantizer_T1 g)
    (jpegls_lossless_GradientQuantizer_T2 g) (jpegls_lossless_GradientQuantizer_T3 g) 0.

Ltac brk := repeat match goal with
  | |- context [if ?c then _ else _] => destruct c eqn:?; cbn [andb orb negb] in *
  end.

(* ---------- jpegls/lossless/traits.go ---------- *)

Lemma tie_ModuloRange : forall t e, jpegls_lossless_Traits_ModuloRange t e = M.ModuloRange (jp t) e.
Proof. intros [a b c d e' f g h i] e. reflexivity. Qed.

Lemma tie_quantize : forall t e, jpegls_lossless_Traits_quantize t e = M.quantize (jp t) e.
Proof. intros [a b c d e' f g h i] e. reflexivity. Qed.

Lemma tie_ComputeErrorValue : forall t e,
  jpegls_lossless_Traits_ComputeErrorValue t e = M.Traits_ComputeErrorValue (jp t) e.
Proof. intros [a b c d e' f g h i] e. reflexivity. Qed.

Lemma tie_CorrectPrediction : forall t v, jpegls_lossless_Traits_CorrectPrediction t v = M.CorrectPrediction (jp t) v.
Proof. intros [a b c d e' f g h i] v. reflexivity. Qed.

Lemma tie_correctPrediction : forall t v, jpegls_lossless_Traits_correctPrediction t v = M.correctPrediction_lc (jp t) v.
Proof. intros [a b c d e' f g h i] v. reflexivity. Qed.

Lemma tie_fixReconstructedValue : forall t v,
  jpegls_lossless_Traits_fixReconstructedValue t v = M.fixReconstructedValue (jp t) v.
Proof.
  intros [a b c d e' f g h i] v.
  unfold jpegls_lossless_Traits_fixReconstructedValue, M.fixReconstructedValue, jp.
  cbn [jpegls_lossless_Traits_MaxVal jpegls_lossless_Traits_Near jpegls_lossless_Traits_Range
       jpegls_lossless_Traits_Qbpp jpegls_lossless_Traits_Limit jpegls_lossless_Traits_Reset
       jpegls_lossless_Traits_T1 jpegls_lossless_Traits_T2 jpegls_lossless_Traits_T3
       P.jp_maxval P.jp_near P.jp_range].
  rewrite tie_correctPrediction. unfold jp.
  cbn [jpegls_lossless_Traits_MaxVal jpegls_lossless_Traits_Near jpegls_lossless_Traits_Range
       jpegls_lossless_Traits_Qbpp jpegls_lossless_Traits_Limit jpegls_lossless_Traits_Reset
       jpegls_lossless_Traits_T1 jpegls_lossless_Traits_T2 jpegls_lossless_Traits_T3].
  brk; reflexivity.
Qed.

Lemma tie_ComputeReconstructedSample : forall t pr ev,
  jpegls_lossless_Traits_ComputeReconstructedSample t pr ev = M.ComputeReconstructedSample (jp t) pr ev.
Proof.
  intros t pr ev. unfold jpegls_lossless_Traits_ComputeReconstructedSample, M.ComputeReconstructedSample.
  destruct t as [a b c d e' f g h i].
  cbn [jpegls_lossless_Traits_MaxVal jpegls_lossless_Traits_Near jpegls_lossless_Traits_Range
       jpegls_lossless_Traits_Qbpp jpegls_lossless_Traits_Limit jpegls_lossless_Traits_Reset
       jpegls_lossless_Traits_T1 jpegls_lossless_Traits_T2 jpegls_lossless_Traits_T3].
  rewrite tie_fixReconstructedValue. reflexivity.
Qed.

Lemma tie_QuantizeGradient : forall t d, jpegls_lossless_Traits_QuantizeGradient t d = M.quantizeGradient (jp t) d.
Proof. intros [a b c d0 e' f g h i] d. reflexivity. Qed.

(* IsNear: |lhs - rhs| <= NEAR *)
Lemma tie_IsNear : forall t l r,
  jpegls_lossless_Traits_IsNear t l r = (Z.abs (l - r) <=? jpegls_lossless_Traits_Near t).
Proof.
  intros [a b c d e' f g h i] l r. unfold jpegls_lossless_Traits_IsNear.
  cbn [jpegls_lossless_Traits_Near]. destruct (Z.ltb_spec (l - r) 0); f_equal; lia.
Qed.

(* ---------- jpegls/lossless/predictor.go, context.go ---------- *)

Lemma tie_Predict : forall a b c, jpegls_lossless_Predict a b c = M.Predict a b c.
Proof. reflexivity. Qed.

Lemma tie_gq_quantizeGradient : forall g d,
  jpegls_lossless_GradientQuantizer_quantizeGradient g d = M.quantizeGradient (gq g) d.
Proof. intros [a b c n] d. reflexivity. Qed.

Lemma tie_gq_ComputeContext : forall g a b c d,
  jpegls_lossless_GradientQuantizer_ComputeContext g a b c d =
  (M.quantizeGradient (gq g) (d - b), M.quantizeGradient (gq g) (b - c), M.quantizeGradient (gq g) (c - a)).
Proof. intros [t1 t2 t3 n] a b c d. reflexivity. Qed.

Lemma tie_context_qs : forall g a b c d,
  (let '(q1, q2, q3) := jpegls_lossless_GradientQuantizer_ComputeContext g a b c d in
   jpegls_lossless_ComputeContextID q1 q2 q3) = M.context_qs (gq g) a b c d.
Proof. intros [t1 t2 t3 n] a b c d. reflexivity. Qed.

Lemma tie_BitwiseSign : forall i, jpegls_lossless_BitwiseSign i = M.BitwiseSign i.
Proof. reflexivity. Qed.

Lemma tie_ApplySign : forall i s, jpegls_lossless_ApplySign i s = M.ApplySign i s.
Proof. reflexivity. Qed.

Lemma tie_MapErrorValue : forall e, jpegls_lossless_MapErrorValue e = M.MapErrorValue e.
Proof. reflexivity. Qed.

Lemma tie_UnmapErrorValue : forall v, jpegls_lossless_UnmapErrorValue v = M.UnmapErrorValue v.
Proof. reflexivity. Qed.

Lemma tie_Abs : forall x, jpegls_runmode_Abs x = Z.abs x.
Proof. intros x. unfold jpegls_runmode_Abs. destruct (Z.ltb_spec x 0); lia. Qed.

Lemma tie_UpdateContext : forall c e near reset,
  ctx_of (jpegls_lossless_Context_UpdateContext c e near reset) = M.UpdateContext (ctx_of c) e near reset.
Proof.
  intros [A N B C] e near reset.
  unfold jpegls_lossless_Context_UpdateContext, M.UpdateContext, ctx_of.
  cbn [jpegls_lossless_Context_A jpegls_lossless_Context_N jpegls_lossless_Context_B jpegls_lossless_Context_C
       M.cA M.cB M.cC M.cN].
  rewrite !tie_Abs. cbv zeta.
  change (16777216 - 1) with 16777215. change (Z.opp 16777216 + 1) with (-16777215). change (Z.opp 16777216) with (-16777216).
  set (a0 := A + Z.abs e). set (b0 := B + e * (2 * near + 1)).
  destruct (a0 >=? 16777216) eqn:Ea; destruct (Z.abs b0 >=? 16777216) eqn:Eb; cbn [orb andb];
  destruct (b0 >=? 16777216) eqn:Eb1; destruct (b0 <=? -16777216) eqn:Eb2;
  destruct (N =? reset) eqn:En;
  brk; cbn [jpegls_lossless_Context_A jpegls_lossless_Context_N jpegls_lossless_Context_B jpegls_lossless_Context_C];
  try reflexivity; try (exfalso; lia).
Qed.

Lemma tie_GetErrorCorrection : forall c k near,
  jpegls_lossless_Context_GetErrorCorrection c k near = M.GetErrorCorrection (ctx_of c) k near.
Proof. intros [A N B C] k near. reflexivity. Qed.

(* loops: the generated loop returns None when its fuel runs out; the hand model's loop returns the
   current value.  They agree whenever the generated one terminates, and it always terminates
   within the configured fuel for ComputeGolombParameter (k counts to 16 at most). *)
Lemma cgp_loop_agree : forall fuel A N B C k r,
  jpegls_lossless_Context_ComputeGolombParameter_loop1 fuel A N B C k = Some r ->
  M.cgp_loop fuel N A k = r.
Proof.
  induction fuel as [|f IH]; intros A N B C k r H; cbn [jpegls_lossless_Context_ComputeGolombParameter_loop1] in H; [discriminate|].
  cbn [M.cgp_loop]. destruct ((Z.shiftl N k <? A) && (k <? 16)).
  - apply IH in H. exact H.
  - inversion H. reflexivity.
Qed.

Lemma cgp_loop_total : forall fuel A N B C k, 0 <= k -> (Z.to_nat (16 - k) < fuel)%nat ->
  exists r, jpegls_lossless_Context_ComputeGolombParameter_loop1 fuel A N B C k = Some r.
Proof.
  induction fuel as [|f IH]; intros A N B C k Hk Hf; [lia|].
  cbn [jpegls_lossless_Context_ComputeGolombParameter_loop1].
  destruct (Z.shiftl N k <? A); cbn [andb]; [|eexists; reflexivity].
  destruct (Z.ltb_spec k 16); [|eexists; reflexivity].
  apply IH; lia.
Qed.

Lemma tie_ComputeGolombParameter : forall c,
  jpegls_lossless_Context_ComputeGolombParameter c = Some (M.ComputeGolombParameter (ctx_of c)).
Proof.
  intros [A N B C]. unfold jpegls_lossless_Context_ComputeGolombParameter, M.ComputeGolombParameter, ctx_of.
  cbn [jpegls_lossless_Context_A jpegls_lossless_Context_N jpegls_lossless_Context_B jpegls_lossless_Context_C
       M.cA M.cN].
  destruct (cgp_loop_total 17 A N B C 0 ltac:(lia) ltac:(cbn; lia)) as [r Hr].
  rewrite Hr. apply cgp_loop_agree in Hr. rewrite Hr. reflexivity.
Qed.

(* ---------- coding parameters ---------- *)

Lemma tie_clamp : forall v lo hi, jpegls_lossless_clamp v lo hi = P.go_clamp v lo hi.
Proof. reflexivity. Qed.

Lemma tie_computeThresholds : forall m n, jpegls_lossless_computeThresholds m n = P.computeThresholds m n.
Proof.
  intros m n. unfold jpegls_lossless_computeThresholds, P.computeThresholds.
  rewrite !tie_clamp. destruct (m >=? 128); [|reflexivity].
  replace (Z.quot (Z.min m 4095 + 128) 256 * 1) with (Z.quot (Z.min m 4095 + 128) 256 * (3 - 2)) by lia.
  replace (Z.quot (Z.min m 4095 + 128) 256 * 4) with (Z.quot (Z.min m 4095 + 128) 256 * (7 - 3)) by lia.
  replace (Z.quot (Z.min m 4095 + 128) 256 * 17) with (Z.quot (Z.min m 4095 + 128) 256 * (21 - 4)) by lia.
  reflexivity.
Qed.

Lemma bitsLen_loop_agree : forall fuel n len r,
  jpegls_lossless_bitsLen_loop1 fuel n len = Some r -> P.bitsLen_loop fuel n len = snd r.
Proof.
  induction fuel as [|f IH]; intros n len r H; cbn [jpegls_lossless_bitsLen_loop1] in H; [discriminate|].
  cbn [P.bitsLen_loop]. destruct (n >? 0).
  - apply IH in H. exact H.
  - inversion H. reflexivity.
Qed.

Lemma tie_bitsLen : forall n r, jpegls_lossless_bitsLen n = Some r -> P.bitsLen n = r.
Proof.
  intros n r H. unfold jpegls_lossless_bitsLen in H. unfold P.bitsLen.
  destruct (n <=? 1); [inversion H; reflexivity|].
  destruct (jpegls_lossless_bitsLen_loop1 64 (n - 1) 0) as [[n' len]|] eqn:E; [|discriminate].
  inversion H; subst r. apply bitsLen_loop_agree in E. exact E.
Qed.

(* the generated loop terminates within 64 iterations for every n below 2^63 (Go int) *)
Lemma bitsLen_loop_total : forall fuel n len, 0 <= n < 2 ^ Z.of_nat fuel ->
  exists r, jpegls_lossless_bitsLen_loop1 (S fuel) n len = Some r.
Proof.
  induction fuel as [|f IH]; intros n len Hn.
  - change (2 ^ Z.of_nat 0) with 1 in Hn. assert (n = 0) by lia. subst n. eexists. reflexivity.
  - remember (S f) as sf. cbn [jpegls_lossless_bitsLen_loop1]. subst sf.
    destruct (Z.gtb_spec n 0) as [Hp|Hz]; [|eexists; reflexivity].
    apply IH. rewrite Z.shiftr_div_pow2 by lia. change (2 ^ 1) with 2.
    rewrite Nat2Z.inj_succ, Z.pow_succ_r in Hn by lia. split; [apply Z.div_pos; lia|].
    apply Z.div_lt_upper_bound; lia.
Qed.

Lemma tie_bitsLen_total : forall n, n < 2 ^ 63 -> jpegls_lossless_bitsLen n = Some (P.bitsLen n).
Proof.
  intros n Hn. destruct (jpegls_lossless_bitsLen n) as [r|] eqn:E.
  - apply tie_bitsLen in E. rewrite E. reflexivity.
  - exfalso. unfold jpegls_lossless_bitsLen in E. destruct (Z.leb_spec n 1); [discriminate|].
    destruct (bitsLen_loop_total 63 (n - 1) 0) as [r Hr].
    + change (2 ^ Z.of_nat 63) with (2 ^ 63). lia.
    + change (S 63) with 64%nat in Hr. rewrite Hr in E. destruct r. discriminate.
Qed.

Lemma tie_ComputeCodingParameters : forall m n r, m < 2 ^ 62 -> 0 <= n ->
  option_map cp (jpegls_lossless_ComputeCodingParameters m n r) = Some (P.ComputeCodingParameters m n r).
Proof.
  intros m n r Hm Hn. unfold jpegls_lossless_ComputeCodingParameters, P.ComputeCodingParameters.
  assert (H62 : 2 ^ 62 < 2 ^ 63) by (apply Z.pow_lt_mono_r; lia).
  set (rv := if n >? 0 then Z.quot (m + 2 * n) (2 * n + 1) + 1 else m + 1).
  assert (Erv : (if n >? 0 then Z.quot (m + 2 * n) (2 * n + 1) + 1 else m + 1) = rv) by reflexivity.
  assert (Hrv : rv < 2 ^ 63).
  { unfold rv. destruct (Z.gtb_spec n 0); [|lia].
    destruct (Z_lt_le_dec (m + 2 * n) 0) as [Hneg|Hpos].
    - pose proof (Z.quot_opp_l (- (m + 2 * n)) (2 * n + 1) ltac:(lia)) as Q. rewrite Z.opp_involutive in Q.
      pose proof (Z.quot_pos (- (m + 2 * n)) (2 * n + 1) ltac:(lia) ltac:(lia)). lia.
    - rewrite Z.quot_div_nonneg by lia.
      assert ((m + 2 * n) / (2 * n + 1) <= m + 2 * n) by (apply Z.div_le_upper_bound; nia).
      assert ((m + 2 * n) / (2 * n + 1) < 2 ^ 62).
      { apply Z.div_lt_upper_bound; [lia|]. nia. }
      lia. }
  replace (let rangeVal := m + 1 in _) with
    (match jpegls_lossless_bitsLen rv with
     | Some qbpp => match jpegls_lossless_bitsLen m with
        | Some bpp => let limit := 2 * (bpp + Z.max 8 bpp) in
            let '(t1, t2, t3) := jpegls_lossless_computeThresholds m n in
            let reset := if r =? 0 then 64 else r in
            Some (mk_jpegls_lossless_CodingParameters m n rv qbpp limit t1 t2 t3 reset)
        | None => None end
     | None => None end).
  2:{ unfold rv. cbv zeta. destruct (n >? 0); reflexivity. }
  rewrite (tie_bitsLen_total rv Hrv), (tie_bitsLen_total m ltac:(lia)), tie_computeThresholds.
  cbv zeta. destruct (P.computeThresholds m n) as [[t1 t2] t3]. cbn [option_map cp
    jpegls_lossless_CodingParameters_MaxVal jpegls_lossless_CodingParameters_Near jpegls_lossless_CodingParameters_Range
    jpegls_lossless_CodingParameters_Qbpp jpegls_lossless_CodingParameters_Limit jpegls_lossless_CodingParameters_T1
    jpegls_lossless_CodingParameters_T2 jpegls_lossless_CodingParameters_T3 jpegls_lossless_CodingParameters_Reset].
  fold rv. reflexivity.
Qed.

(* ---------- jpegls/runmode ---------- *)

Lemma tie_IncrementRunIndex : forall i, jpegls_runmode_IncrementRunIndex i = (if i <? 31 then i + 1 else i).
Proof. reflexivity. Qed.
Lemma tie_DecrementRunIndex : forall i, jpegls_runmode_DecrementRunIndex i = (if i >? 0 then i - 1 else i).
Proof. reflexivity. Qed.

(* ---------- jpeg/lossless ---------- *)

Lemma tie_Predictor : forall p ra rb rc, jpeg_lossless_Predictor p ra rb rc = V.JpegLL.JllModel.predictor p ra rb rc.
Proof. reflexivity. Qed.

Lemma bitlen_agree : forall fuel v c r,
  jpeg_lossless_diffCategory_loop1 fuel v c = Some r -> V.JpegLL.JllHuff.bitlen_loop fuel v c = snd r.
Proof.
  induction fuel as [|f IH]; intros v c r H; cbn [jpeg_lossless_diffCategory_loop1] in H; [discriminate|].
  cbn [V.JpegLL.JllHuff.bitlen_loop]. rewrite Z.gtb_ltb in H. destruct (0 <? v).
  - apply IH in H. exact H.
  - inversion H. reflexivity.
Qed.

Lemma tie_diffCategory : forall v r, jpeg_lossless_diffCategory v = Some r -> V.JpegLL.JllHuff.diff_category v = r.
Proof.
  intros v r H. unfold jpeg_lossless_diffCategory in H. unfold V.JpegLL.JllHuff.diff_category.
  destruct (v =? 0); [inversion H; reflexivity|].
  assert (Ea : (if v <? 0 then - v else v) = Z.abs v) by (destruct (Z.ltb_spec v 0); lia).
  cbv zeta in H. rewrite Ea in H.
  destruct (jpeg_lossless_diffCategory_loop1 64 (Z.abs v) 0) as [[v' c]|] eqn:E; [|discriminate].
  inversion H; subst r. apply bitlen_agree in E. exact E.
Qed.

(* ---------- jpeg2000/colorspace/rct.go (int32 arithmetic: every +, -, * wrapped as Go does) ---------- *)
Require V.J2K.RCT.

Lemma tie_RCTForward : forall r g b, jpeg2000_colorspace_RCTForward r g b = V.J2K.RCT.rct_fwd32 r g b.
Proof. reflexivity. Qed.

Lemma tie_RCTInverse : forall y cb cr, jpeg2000_colorspace_RCTInverse y cb cr = V.J2K.RCT.rct_inv32 y cb cr.
Proof. reflexivity. Qed.
