(* Tie by translation: the neighbour selection (T.87 edge rules) of the JPEG-LS coders,
   jpegls/lossless: Encoder.getNeighbors / Encoder.sampleNeighbors / Decoder.getNeighbors /
   Decoder.sampleNeighbors, translated from the Go source with every slice bounds check explicit
   (Gen/KernelsNb_gen.v), against neighbors1 / sampleNeighbors of JpegLS/JlsModel.v.

   The Go functions index the whole sample buffer `pixels` (sample (x, y) of component comp at
   (y*width + x)*components + comp); the model takes `left` and a window of the previous line.
   The theorems say: for every position inside the image whose own index is inside `pixels`, the
   Go function does not panic and returns what the model returns on the window cut out of `pixels`.
   getNeighbors is only called for x > 0 (the x == 0 case is inlined in encodeComponent /
   decodeComponent and is the x = 0 branch of neighbors1), so its tie is stated for 0 < x < width. *)
From V Require Import Common.Base Tie.GoSem.
From V Require Import Gen.KernelsNb_gen.
Require V.JpegLS.JlsModel.
Module M := V.JpegLS.JlsModel.

(* sample (x, y) of component comp in an interleaved buffer of width w with nc components *)
Definition px (pixels : list Z) (w nc comp x y : Z) : Z := znth pixels ((y * w + x) * nc + comp) 0.

(* the window of the previous line the one-component model looks at: prev[x-1], prev[x], prev[x+1] *)
Definition win (pixels : list Z) (w nc comp x y : Z) : list Z :=
  [px pixels w nc comp (x - 1) (y - 1); px pixels w nc comp x (y - 1); px pixels w nc comp (x + 1) (y - 1)].

Lemma some4 : forall (a b c d a' b' c' d' : Z), a = a' -> b = b' -> c = c' -> d = d' ->
  Some (a, b, c, d) = Some (a', b', c', d').
Proof. intros; subst; reflexivity. Qed.

Lemma znth_idx : forall (p : list Z) i j, i = j -> znth p i 0 = znth p j 0.
Proof. intros; subst; reflexivity. Qed.

(* the monomial facts lia needs (it treats y*w*nc, w*nc, x*nc as atoms) *)
Lemma nb_facts : forall w nc x y, 0 <= x < w -> 0 <= y -> 1 <= nc ->
  0 <= (w - x - 1) * nc /\ 0 <= x * nc /\ 0 <= y * w * nc /\ (1 <= x -> 0 <= (x - 1) * nc) /\
  (1 <= y -> 0 <= (y - 1) * w * nc).
Proof.
  intros w nc x y Hx Hy Hn. repeat split; intros.
  - apply Z.mul_nonneg_nonneg; lia.
  - apply Z.mul_nonneg_nonneg; lia.
  - apply Z.mul_nonneg_nonneg; [apply Z.mul_nonneg_nonneg|]; lia.
  - apply Z.mul_nonneg_nonneg; lia.
  - apply Z.mul_nonneg_nonneg; [apply Z.mul_nonneg_nonneg|]; lia.
Qed.

Ltac nb_cond :=
  match goal with
  | |- context [Z.geb ?a ?b] => destruct (Z.geb_spec a b); try lia
  | |- context [Z.eqb ?a ?b] => destruct (Z.eqb_spec a b); try lia
  | |- context [Z.gtb ?a ?b] => destruct (Z.gtb_spec a b); try lia
  | |- context [Z.leb ?a ?b] => destruct (Z.leb_spec a b); try lia
  | |- context [Z.ltb ?a ?b] => destruct (Z.ltb_spec a b); try lia
  end; cbn [andb orb negb]; cbv beta iota.

Ltac nb_fin :=
  cbn [M.win0 M.win1 M.win2 win]; unfold px;
  apply some4; first [reflexivity | apply znth_idx; lia].

Ltac nb_start w nc x y Hx Hy Hn :=
  destruct (nb_facts w nc x y Hx Hy Hn) as (F1 & F2 & F3 & F4 & F5).

Definition in_image (pixels : list Z) (w nc comp x y : Z) : Prop :=
  0 <= x < w /\ 0 <= y /\ 0 <= comp < nc /\ (y * w + x) * nc + comp < zlen pixels.

(* common proof: case analysis on x = 0 / y > 0 / x + 1 <= w - 1, every Go condition decided by lia *)
Ltac nb_cases w nc x y Hx Hy Hn :=
  cbv zeta;
  nb_start w nc x y Hx Hy Hn;
  destruct (Z.eq_dec x 0) as [X0|X0]; destruct (Z_gt_dec y 0) as [Y0|Y0];
    destruct (Z_le_dec (x + 1) (w - 1)) as [XW|XW];
    try (rewrite (Z.min_l (x + 1) (w - 1)) by lia); try (rewrite (Z.min_r (x + 1) (w - 1)) by lia);
    try lia; repeat nb_cond; try nb_fin.

(* ---------- jpegls/lossless ---------- *)

Theorem tie_ll_enc_sampleNeighbors : forall (r : jpegls_lossless_Encoder) pixels x y comp plf pplf,
  let w := jpegls_lossless_Encoder_width r in let nc := jpegls_lossless_Encoder_components r in
  in_image pixels w nc comp x y ->
  jpegls_lossless_Encoder_sampleNeighbors r pixels x y comp plf pplf =
  Some (M.sampleNeighbors w y x plf pplf
          (px pixels w nc comp (x - 1) y)
          (px pixels w nc comp (x - 1) (y - 1))
          (px pixels w nc comp x (y - 1))
          (px pixels w nc comp (Z.min (x + 1) (w - 1)) (y - 1))).
Proof.
  intros r pixels x y comp plf pplf w nc (Hx & Hy & Hc & Hl).
  unfold jpegls_lossless_Encoder_sampleNeighbors, M.sampleNeighbors.
  fold w. fold nc.
  assert (Hn : 1 <= nc) by lia.
  nb_cases w nc x y Hx Hy Hn.
Qed.

Theorem tie_ll_dec_sampleNeighbors : forall (r : jpegls_lossless_Decoder) pixels x y comp plf pplf,
  let w := jpegls_lossless_Decoder_width r in let nc := jpegls_lossless_Decoder_components r in
  in_image pixels w nc comp x y ->
  jpegls_lossless_Decoder_sampleNeighbors r pixels x y comp plf pplf =
  Some (M.sampleNeighbors w y x plf pplf
          (px pixels w nc comp (x - 1) y)
          (px pixels w nc comp (x - 1) (y - 1))
          (px pixels w nc comp x (y - 1))
          (px pixels w nc comp (Z.min (x + 1) (w - 1)) (y - 1))).
Proof.
  intros r pixels x y comp plf pplf w nc (Hx & Hy & Hc & Hl).
  unfold jpegls_lossless_Decoder_sampleNeighbors, M.sampleNeighbors.
  fold w. fold nc.
  assert (Hn : 1 <= nc) by lia.
  nb_cases w nc x y Hx Hy Hn.
Qed.

Theorem tie_ll_enc_getNeighbors : forall (r : jpegls_lossless_Encoder) pixels x y comp pfp pn1,
  let w := jpegls_lossless_Encoder_width r in let nc := jpegls_lossless_Encoder_components r in
  in_image pixels w nc comp x y -> 0 < x ->
  jpegls_lossless_Encoder_getNeighbors r pixels x y comp =
  Some (M.neighbors1 w y x pfp pn1 (px pixels w nc comp (x - 1) y) (win pixels w nc comp x y)).
Proof.
  intros r pixels x y comp pfp pn1 w nc (Hx & Hy & Hc & Hl) Hx0.
  unfold jpegls_lossless_Encoder_getNeighbors, M.neighbors1.
  fold w. fold nc.
  assert (Hn : 1 <= nc) by lia.
  nb_cases w nc x y Hx Hy Hn.
Qed.

Theorem tie_ll_dec_getNeighbors : forall (r : jpegls_lossless_Decoder) pixels x y comp pfp pn1,
  let w := jpegls_lossless_Decoder_width r in let nc := jpegls_lossless_Decoder_components r in
  in_image pixels w nc comp x y -> 0 < x ->
  jpegls_lossless_Decoder_getNeighbors r pixels x y comp =
  Some (M.neighbors1 w y x pfp pn1 (px pixels w nc comp (x - 1) y) (win pixels w nc comp x y)).
Proof.
  intros r pixels x y comp pfp pn1 w nc (Hx & Hy & Hc & Hl) Hx0.
  unfold jpegls_lossless_Decoder_getNeighbors, M.neighbors1.
  fold w. fold nc.
  assert (Hn : 1 <= nc) by lia.
  nb_cases w nc x y Hx Hy Hn.
Qed.

(* the hypothesis of the ties for a full sample buffer (len(pixels) = width*height*components),
   which is what Encode / Decode allocate *)
Lemma in_image_full : forall pixels w h nc comp x y,
  zlen pixels = w * h * nc -> 0 <= x < w -> 0 <= y < h -> 0 <= comp < nc ->
  in_image pixels w nc comp x y.
Proof.
  intros pixels w h nc comp x y Hlen Hx Hy Hc. unfold in_image. repeat split; try lia.
  rewrite Hlen.
  assert (E : w * h * nc = ((y * w + x) * nc + comp) + ((nc - 1 - comp) + ((h - 1 - y) * w + (w - 1 - x)) * nc + 1)) by ring.
  assert (0 <= (h - 1 - y) * w) by (apply Z.mul_nonneg_nonneg; lia).
  assert (0 <= ((h - 1 - y) * w + (w - 1 - x)) * nc) by (apply Z.mul_nonneg_nonneg; lia).
  lia.
Qed.
