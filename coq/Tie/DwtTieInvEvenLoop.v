(* Loop specification for the even=true branch of the translated Inverse53_1DWithParity (streaming form). *)
From V Require Import Common.Base Tie.GoSem Gen.KernelsSlices_gen.
Require V.DWT.DwtModel.
From V Require Import Tie.DwtTieLib Tie.DwtTieFwdEven.

Section InvEven.
Variable d : list Z.
Hypothesis Hb : forall z, - 2 ^ 28 <= znth d z 0 < 2 ^ 28.
Variables w sn : Z.
Hypothesis Hw : w = zlen d.
Hypothesis Hw2 : 2 <= w < 2 ^ 31.
Hypothesis Hsn : 2 * sn <= w + 1.
Hypothesis Hsn' : w <= 2 * sn.

Definition ML (n : nat) (j d1n s0n : Z) := D.inv53_even_loop n (Z.to_nat j) (Z.to_nat sn) d d1n s0n.

Lemma ML_S : forall n j d1n s0n, 0 <= j ->
  ML (S n) j d1n s0n =
    (let a := znth d j 0 in let b := znth d (sn + j) 0 in let s' := a - Z.shiftr (d1n + b + 2) 2 in
     (s0n :: (d1n + Z.shiftr (s0n + s') 1) :: fst (ML n (j + 1) b s'), snd (ML n (j + 1) b s'))).
Proof.
  intros n j d1n s0n Hj. unfold ML. cbn [D.inv53_even_loop]. cbv zeta.
  replace (Z.to_nat (j + 1)) with (S (Z.to_nat j)) by lia.
  unfold D.zn, D.sr1, D.sr2. rewrite (znth_to_nat d j) by lia. rewrite (znth_to_nat d (sn + j)) by lia.
  replace (Z.to_nat (sn + j)) with (Z.to_nat sn + Z.to_nat j)%nat by lia.
  destruct (D.inv53_even_loop n (S (Z.to_nat j)) (Z.to_nat sn) d _ _) as [out st]. reflexivity.
Qed.

Lemma ML_length : forall n j d1n s0n, 0 <= j -> length (fst (ML n j d1n s0n)) = (2 * n)%nat.
Proof.
  induction n as [|n IH]; intros j d1n s0n Hj; [reflexivity|].
  rewrite ML_S by lia. cbv zeta. cbn [fst length]. rewrite IH by lia. lia.
Qed.

Ltac unwrap_idx := repeat match goal with |- context [wrapS 32 ?e] => rewrite (wrapS_small e) by lia end.

Lemma inv_loop1_spec : forall n i j fuel even tmp d1c d1n s1n s0c s0n,
  1 <= j -> i = 2 * (j - 1) -> w - 3 <= i + 2 * Z.of_nat n < w - 1 -> (n < fuel)%nat -> zlen tmp = w ->
  - 2 ^ 28 <= d1n < 2 ^ 28 -> - 2 ^ 29 <= s0n < 2 ^ 29 ->
  exists tmp' d1c' s1n' s0c',
    jpeg2000_wavelet_Inverse53_1DWithParity_loop1 fuel d even w sn tmp d1c d1n s1n s0c s0n i j =
      Some (tmp', d1c', fst (snd (ML n j d1n s0n)), s1n', s0c', snd (snd (ML n j d1n s0n)), i + 2 * Z.of_nat n, j + Z.of_nat n) /\
    zlen tmp' = w /\
    (forall z, znth tmp' z 0 = if (i <=? z) && (z <? i + 2 * Z.of_nat n)
                               then nth (Z.to_nat (z - i)) (fst (ML n j d1n s0n)) 0 else znth tmp z 0) /\
    - 2 ^ 28 <= fst (snd (ML n j d1n s0n)) < 2 ^ 28 /\ - 2 ^ 29 <= snd (snd (ML n j d1n s0n)) < 2 ^ 29.
Proof.
  induction n as [|n IH]; intros i j fuel even tmp d1c d1n s1n s0c s0n Hj Hi Hn Hf Ht Hd1 Hs0;
    (destruct fuel as [|fuel]; [lia|]); cbn [jpeg2000_wavelet_Inverse53_1DWithParity_loop1];
    rewrite (wrapS_small w) by lia; rewrite (wrapS_small (w - 3)) by lia.
  - destruct (Z.ltb_spec i (w - 3)); [lia|].
    exists tmp, d1c, s1n, s0c. unfold ML. cbn [D.inv53_even_loop fst snd].
    replace (i + 2 * Z.of_nat 0) with i by lia. replace (j + Z.of_nat 0) with j by lia.
    split; [reflexivity|]. split; [exact Ht|]. split; [|split; assumption].
    intros z. destruct (Z.leb_spec i z); destruct (Z.ltb_spec z i); try reflexivity; lia.
  - destruct (Z.ltb_spec i (w - 3)); [|lia].
    cbv zeta. rewrite ?zlen_go_upd. rewrite <- Hw, Ht.
    unwrap_idx. guards.
    pose proof (Hb j) as Ha. pose proof (Hb (sn + j)) as Hb'.
    set (a := znth d j 0) in *. set (b := znth d (sn + j) 0) in *.
    rewrite (wrapS_small (d1n + b)) by lia. rewrite (wrapS_small (d1n + b + 2)) by lia.
    pose proof (sr2_bound4' (d1n + b + 2) (2 ^ 27) ltac:(lia) ltac:(lia)) as Hsr.
    rewrite (wrapS_small (a - Z.shiftr (d1n + b + 2) 2)) by lia.
    set (s' := a - Z.shiftr (d1n + b + 2) 2) in *.
    rewrite (wrapS_small (s0n + s')) by lia.
    pose proof (sr1_bound2 (s0n + s') (2 ^ 29) ltac:(lia) ltac:(lia)) as Hsr1.
    rewrite (wrapS_small (d1n + Z.shiftr (s0n + s') 1)) by lia.
    set (v := d1n + Z.shiftr (s0n + s') 1) in *.
    destruct (IH (i + 2) (j + 1) fuel even (go_upd (go_upd tmp i s0n) (i + 1) v) d1n b a s0n s')
      as (tmp' & d1c' & s1n' & s0c' & E & L & N & B1 & B2); try lia.
    { rewrite !zlen_go_upd. exact Ht. }
    exists tmp', d1c', s1n', s0c'.
    rewrite ML_S by lia. cbv zeta. fold a b s' v. cbn [fst snd].
    replace (i + 2 * Z.of_nat (S n)) with (i + 2 + 2 * Z.of_nat n) by lia.
    replace (j + Z.of_nat (S n)) with (j + 1 + Z.of_nat n) by lia.
    split; [exact E|]. split; [exact L|]. split; [|split; assumption].
    intros z. rewrite N. rewrite znth_go_upd by (rewrite zlen_go_upd; lia). rewrite znth_go_upd by lia.
    destruct (Z.leb_spec (i + 2) z); destruct (Z.leb_spec i z); destruct (Z.ltb_spec z (i + 2 + 2 * Z.of_nat n));
      destruct (Z.eqb_spec z (i + 1)); destruct (Z.eqb_spec z i); cbn [andb]; try reflexivity; try lia.
    + replace (Z.to_nat (z - i)) with (S (S (Z.to_nat (z - (i + 2))))) by lia. reflexivity.
    + subst z. replace (Z.to_nat (i + 1 - i)) with 1%nat by lia. reflexivity.
    + subst z. replace (Z.to_nat (i - i)) with 0%nat by lia. reflexivity.
Qed.
End InvEven.
