(* Loop specification for the even=false branch of the translated Inverse53_1DWithParity (streaming form). *)
From V Require Import Common.Base Tie.GoSem Gen.KernelsSlices_gen.
Require V.DWT.DwtModel.
From V Require Import Tie.DwtTieLib Tie.DwtTieFwdEven.

Section InvOdd.
Variable d : list Z.
Hypothesis Hb : forall z, - 2 ^ 28 <= znth d z 0 < 2 ^ 28.
Variables w sn limit : Z.
Hypothesis Hw : w = zlen d.
Hypothesis Hw2 : 3 <= w < 2 ^ 31.
Hypothesis Hsn : 0 <= sn.
Hypothesis Hlim : 2 * sn + limit + 2 < 2 * w.
Hypothesis Hlim' : limit <= w - 2.

Definition ML2 (n : nat) (j s1 dc : Z) := D.inv53_odd_loop n (Z.to_nat j) (Z.to_nat sn) d s1 dc.

Lemma ML2_S : forall n j s1 dc, 0 <= j ->
  ML2 (S n) j s1 dc =
    (let s2 := znth d (sn + j + 1) 0 in let dn := znth d j 0 - Z.shiftr (s1 + s2 + 2) 2 in
     (dc :: (s1 + Z.shiftr (dn + dc) 1) :: fst (ML2 n (j + 1) s2 dn), snd (ML2 n (j + 1) s2 dn))).
Proof.
  intros n j s1 dc Hj. unfold ML2. cbn [D.inv53_odd_loop]. cbv zeta.
  replace (Z.to_nat (j + 1)) with (S (Z.to_nat j)) by lia.
  unfold D.zn, D.sr1, D.sr2. rewrite (znth_to_nat d j) by lia. rewrite (znth_to_nat d (sn + j + 1)) by lia.
  replace (Z.to_nat (sn + j + 1)) with (Z.to_nat sn + Z.to_nat j + 1)%nat by lia.
  destruct (D.inv53_odd_loop n (S (Z.to_nat j)) (Z.to_nat sn) d _ _) as [out st]. reflexivity.
Qed.

Lemma ML2_length : forall n j s1 dc, 0 <= j -> length (fst (ML2 n j s1 dc)) = (2 * n)%nat.
Proof.
  induction n as [|n IH]; intros j s1 dc Hj; [reflexivity|].
  rewrite ML2_S by lia. cbv zeta. cbn [fst length]. rewrite IH by lia. lia.
Qed.

Ltac unwrap_idx := repeat match goal with |- context [wrapS 32 ?e] => rewrite (wrapS_small e) by lia end.

Lemma inv_loop2_spec : forall n i j fuel even notOdd tmp s1 s2 dc dnVar,
  1 <= j -> i = 2 * j - 1 -> limit <= i + 2 * Z.of_nat n < limit + 2 -> (n < fuel)%nat -> zlen tmp = w ->
  - 2 ^ 28 <= s1 < 2 ^ 28 -> - 2 ^ 29 <= dc < 2 ^ 29 ->
  exists tmp' s2' dnVar',
    jpeg2000_wavelet_Inverse53_1DWithParity_loop2 fuel d even w sn notOdd limit tmp s1 s2 dc dnVar i j =
      Some (tmp', fst (snd (ML2 n j s1 dc)), s2', snd (snd (ML2 n j s1 dc)), dnVar', i + 2 * Z.of_nat n, j + Z.of_nat n) /\
    zlen tmp' = w /\
    (forall z, znth tmp' z 0 = if (i <=? z) && (z <? i + 2 * Z.of_nat n)
                               then nth (Z.to_nat (z - i)) (fst (ML2 n j s1 dc)) 0 else znth tmp z 0) /\
    - 2 ^ 28 <= fst (snd (ML2 n j s1 dc)) < 2 ^ 28 /\ - 2 ^ 29 <= snd (snd (ML2 n j s1 dc)) < 2 ^ 29.
Proof.
  induction n as [|n IH]; intros i j fuel even notOdd tmp s1 s2 dc dnVar Hj Hi Hn Hf Ht Hs1 Hdc;
    (destruct fuel as [|fuel]; [lia|]); cbn [jpeg2000_wavelet_Inverse53_1DWithParity_loop2].
  - destruct (Z.ltb_spec i limit); [lia|].
    exists tmp, s2, dnVar. unfold ML2. cbn [D.inv53_odd_loop fst snd].
    replace (i + 2 * Z.of_nat 0) with i by lia. replace (j + Z.of_nat 0) with j by lia.
    split; [reflexivity|]. split; [exact Ht|]. split; [|split; assumption].
    intros z. destruct (Z.leb_spec i z); destruct (Z.ltb_spec z i); try reflexivity; lia.
  - destruct (Z.ltb_spec i limit); [|lia].
    cbv zeta. rewrite ?zlen_go_upd. rewrite <- Hw, Ht.
    unwrap_idx. guards.
    pose proof (Hb j) as Ha. pose proof (Hb (sn + j + 1)) as Hb'.
    set (a := znth d j 0) in *. set (b := znth d (sn + j + 1) 0) in *.
    rewrite (wrapS_small (s1 + b)) by lia. rewrite (wrapS_small (s1 + b + 2)) by lia.
    pose proof (sr2_bound4' (s1 + b + 2) (2 ^ 27) ltac:(lia) ltac:(lia)) as Hsr.
    rewrite (wrapS_small (a - Z.shiftr (s1 + b + 2) 2)) by lia.
    set (dn' := a - Z.shiftr (s1 + b + 2) 2) in *.
    rewrite (wrapS_small (dn' + dc)) by lia.
    pose proof (sr1_bound2 (dn' + dc) (2 ^ 29) ltac:(lia) ltac:(lia)) as Hsr1.
    rewrite (wrapS_small (s1 + Z.shiftr (dn' + dc) 1)) by lia.
    set (v := s1 + Z.shiftr (dn' + dc) 1) in *.
    destruct (IH (i + 2) (j + 1) fuel even notOdd (go_upd (go_upd tmp i dc) (i + 1) v) b b dn' dn')
      as (tmp' & s2' & dnVar' & E & L & N & B1 & B2); try lia.
    { rewrite !zlen_go_upd. exact Ht. }
    exists tmp', s2', dnVar'.
    rewrite ML2_S by lia. cbv zeta. fold a b dn' v. cbn [fst snd].
    replace (i + 2 * Z.of_nat (S n)) with (i + 2 + 2 * Z.of_nat n) by lia.
    replace (j + Z.of_nat (S n)) with (j + 1 + Z.of_nat n) by lia.
    split; [exact E|]. split; [exact L|]. split; [|split; assumption].
    intros z. rewrite N. rewrite znth_go_upd by (rewrite zlen_go_upd; lia). rewrite znth_go_upd by lia.
    destruct (Z.leb_spec (i + 2) z); destruct (Z.leb_spec i z); destruct (Z.ltb_spec z (i + 2 + 2 * Z.of_nat n));
      destruct (Z.eqb_spec z (i + 1)); destruct (Z.eqb_spec z i); cbn [andb]; try reflexivity; try lia.
    + replace (Z.to_nat (z - i)) with (S (S (Z.to_nat (z - (i + 2))))) by lia. reflexivity.
    + subst z. replace (Z.to_nat (i + 1 - i)) with 1%nat by lia. reflexivity.
    + subst z. replace (Z.to_nat (i - i)) with 0%nat by lia. reflexivity.
Qed.
End InvOdd.
Check inv_loop2_spec. Check ML2_length.
