(* EXTRACT *)
(* Semantics of the Go slice builtins used by the kernels the translator emits into
   Gen/KernelsSlices_gen.v (harness/cmd/gen/gen_kernels.go): make([]T, n) and s[i] = v.  The bounds
   checks Go performs are emitted by the translator in front of every statement (a failed check is
   None); these functions are only applied inside their checked domain. *)
From V Require Import Common.Base.

Definition go_make (n : Z) : list Z := repeat 0 (Z.to_nat n).

Fixpoint upd_nat (l : list Z) (i : nat) (v : Z) : list Z :=
  match l, i with
  | [], _ => []
  | _ :: t, O => v :: t
  | h :: t, S k => h :: upd_nat t k v
  end.

Definition go_upd (l : list Z) (i v : Z) : list Z := if i <? 0 then l else upd_nat l (Z.to_nat i) v.

(* copy(dst[dl:dh], src[sl:sh]): min(dh-dl, sh-sl) elements, the rest of dst unchanged (the slices the kernels
   copy between never overlap: source and destination are different arrays) *)
Definition go_copy (dst : list Z) (dl dh : Z) (src : list Z) (sl sh : Z) : list Z :=
  let n := Z.to_nat (Z.min (dh - dl) (sh - sl)) in
  firstn (Z.to_nat dl) dst ++ firstn n (skipn (Z.to_nat sl) src) ++ skipn (Z.to_nat dl + n) dst.
