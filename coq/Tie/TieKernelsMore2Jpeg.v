(* Tie by translation, third list (JPEG DCT part): the generated ijgDescale / sequential12Descale /
   sequential12Quantize of Gen/KernelsMore_gen.v (every int32 operation carries its own wrapS 32)
   equal DctIslow.descale / DctQuant.quant_coded32 (which narrow only where it matters). *)
From V Require Import Common.Base.
From Coq Require Import ZifyBool.
From V Require Import Gen.KernelsMore_gen.
Require V.JpegDCT.DctIslow V.JpegDCT.DctQuant.
Module DI := V.JpegDCT.DctIslow.
Module DQ := V.JpegDCT.DctQuant.

(* ---------- wrapS 32 is a ring morphism modulo 2^32 ---------- *)

Lemma wrapS32_mod : forall x, (wrapS 32 x) mod 2 ^ 32 = x mod 2 ^ 32.
Proof.
  intros x. unfold wrapS. cbv zeta. destruct (x mod 2 ^ 32 <? 2 ^ (32 - 1)).
  - apply Z.mod_mod. lia.
  - replace (x mod 2 ^ 32 - 2 ^ 32) with (x mod 2 ^ 32 + (-1) * 2 ^ 32) by lia.
    rewrite Z_mod_plus_full. apply Z.mod_mod. lia.
Qed.

Lemma wrapS32_congr : forall x y, x mod 2 ^ 32 = y mod 2 ^ 32 -> wrapS 32 x = wrapS 32 y.
Proof. intros x y H. unfold wrapS. cbv zeta. rewrite H. reflexivity. Qed.

Lemma wrapS32_add_r : forall a b, wrapS 32 (a + wrapS 32 b) = wrapS 32 (a + b).
Proof.
  intros a b. apply wrapS32_congr.
  rewrite (Z.add_mod a (wrapS 32 b)), wrapS32_mod, <- Z.add_mod by lia. reflexivity.
Qed.

Lemma wrapS32_opp : forall a, wrapS 32 (- wrapS 32 a) = wrapS 32 (- a).
Proof.
  intros a. apply wrapS32_congr.
  replace (- wrapS 32 a) with (0 - wrapS 32 a) by lia. replace (- a) with (0 - a) by lia.
  rewrite (Zminus_mod 0 (wrapS 32 a)), wrapS32_mod, <- Zminus_mod. reflexivity.
Qed.

Lemma wrapS32_range : forall x, - 2 ^ 31 <= wrapS 32 x < 2 ^ 31.
Proof.
  intros x. unfold wrapS. cbv zeta. change (32 - 1) with 31.
  pose proof (Z.mod_pos_bound x (2 ^ 32) ltac:(lia)).
  destruct (Z.ltb_spec (x mod 2 ^ 32) (2 ^ 31)); lia.
Qed.

Lemma wrapS32_id : forall x, - 2 ^ 31 <= x < 2 ^ 31 -> wrapS 32 x = x.
Proof.
  intros x H. unfold wrapS. cbv zeta. change (32 - 1) with 31.
  destruct (Z_le_gt_dec 0 x).
  - rewrite Z.mod_small by lia. destruct (Z.ltb_spec x (2 ^ 31)); lia.
  - assert (E : x mod 2 ^ 32 = x + 2 ^ 32).
    { replace x with (x + 2 ^ 32 + (-1) * 2 ^ 32) at 1 by lia. rewrite Z_mod_plus_full.
      apply Z.mod_small. lia. }
    rewrite E. destruct (Z.ltb_spec (x + 2 ^ 32) (2 ^ 31)); lia.
Qed.

(* 1 << n as the translator writes it (n may be negative: Z.shiftl shifts right, giving 0 = 2^n) *)
Lemma shiftl1_pow2 : forall n, Z.shiftl 1 n = 2 ^ n.
Proof.
  intros n. destruct (Z_le_gt_dec 0 n).
  - rewrite Z.shiftl_mul_pow2 by lia. lia.
  - rewrite Z.pow_neg_r by lia. rewrite <- (Z.opp_involutive n) at 1. rewrite Z.shiftl_opp_r.
    rewrite Z.shiftr_div_pow2 by lia. apply Z.div_small. split; [lia|].
    apply Z.pow_gt_1; lia.
Qed.

(* ---------- descale: for ALL arguments ---------- *)

Lemma tie_ijgDescale : forall v s, jpeg_standard_ijgDescale v s = DI.descale v s.
Proof.
  intros v s. unfold jpeg_standard_ijgDescale, DI.descale, DQ.i32.
  rewrite wrapS32_add_r, shiftl1_pow2. reflexivity.
Qed.

Lemma tie_sequential12Descale : forall v s, jpeg_extended_sequential12Descale v s = DI.descale v s.
Proof.
  intros v s. unfold jpeg_extended_sequential12Descale, DI.descale, DQ.i32.
  rewrite wrapS32_add_r, shiftl1_pow2. reflexivity.
Qed.

(* ---------- sequential12Quantize ---------- *)

(* an int32 divided (truncating) stays an int32 except for minint / -1 *)
Lemma quot_int32 : forall y d, - 2 ^ 31 <= y < 2 ^ 31 -> ~ (y = - 2 ^ 31 /\ d = -1) ->
  - 2 ^ 31 <= Z.quot y d < 2 ^ 31.
Proof.
  intros y d Hy Hn.
  destruct (Z.eq_dec d 0) as [->|Hd]; [replace (Z.quot y 0) with 0 by (destruct y; reflexivity); lia|].
  pose proof (Z.quot_abs y d Hd) as Ha.
  assert (Hle : Z.abs y / Z.abs d <= Z.abs y).
  { apply Z.div_le_upper_bound; [lia|]. nia. }
  rewrite Z.quot_div_nonneg in Ha by lia.
  destruct (Z.eq_dec d (-1)) as [->|Hd1].
  - assert (y <> - 2 ^ 31) by (intro; apply Hn; split; [assumption|reflexivity]).
    replace (-1) with (- (1)) by reflexivity. rewrite Z.quot_opp_r, Z.quot_1_r by lia. lia.
  - destruct (Z.eq_dec d 1) as [->|Hd2]; [rewrite Z.quot_1_r; lia|].
    assert (Hh : Z.abs y / Z.abs d <= Z.abs y / 2).
    { apply Z.div_le_compat_l; lia. }
    assert (Z.abs y / 2 <= 2 ^ 30).
    { apply Z.div_le_upper_bound; lia. }
    lia.
Qed.

(* exact agreement set: everything except coefficient >= 0, divisor = -1 and the int32 sum equal to
   minint (impossible when the coefficient is an int32) *)
Lemma tie_sequential12Quantize_gen : forall c d,
  ~ (0 <= c /\ d = -1 /\ wrapS 32 c = - 2 ^ 31) ->
  jpeg_extended_sequential12Quantize c d = DQ.quant_coded32 c d.
Proof.
  intros c d Hn. unfold jpeg_extended_sequential12Quantize, DQ.quant_coded32, DQ.i32.
  destruct (Z.ltb_spec c 0) as [Hc|Hc].
  - rewrite wrapS32_opp, wrapS32_add_r. reflexivity.
  - rewrite wrapS32_add_r. apply wrapS32_id. apply quot_int32; [apply wrapS32_range|].
    intros [A B]. apply Hn. subst d. change (Z.quot (-1) 2) with 0 in A. rewrite Z.add_0_r in A.
    repeat split; [lia|exact A].
Qed.

Lemma tie_sequential12Quantize : forall c d, - 2 ^ 31 <= c < 2 ^ 31 ->
  jpeg_extended_sequential12Quantize c d = DQ.quant_coded32 c d.
Proof.
  intros c d Hc. apply tie_sequential12Quantize_gen. intros [A [B C]].
  rewrite wrapS32_id in C by lia. lia.
Qed.

(* the hypothesis is exact: at coefficient = 2^31 (not an int32), divisor = -1 the two differ *)
Lemma sequential12Quantize_differs :
  jpeg_extended_sequential12Quantize (2 ^ 31) (-1) = - 2 ^ 31 /\ DQ.quant_coded32 (2 ^ 31) (-1) = 2 ^ 31.
Proof. vm_compute. split; reflexivity. Qed.
