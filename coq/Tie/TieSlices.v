(* Tie by translation, slices: ApplyRCTToComponents / ApplyInverseRCTToComponents of
   jpeg2000/colorspace/rct.go, translated from the Go source with the bounds checks of every index
   expression explicit (Gen/KernelsSlices_gen.v), against the list models of J2K/RCT.v.

   For planes of equal length the translated function returns exactly the three planes of
   rct_fwd_list / rct_inv_list; when g or b is SHORTER than r the Go code panics (index out of
   range) and the translation returns None. *)
From V Require Import Common.Base Tie.GoSem.
From V Require Import Gen.KernelsSlices_gen.
Require V.J2K.RCT.
Module R := V.J2K.RCT.

(* ---------- go_upd / go_make ---------- *)

Lemma upd_nat_length : forall l i v, length (upd_nat l i v) = length l.
Proof. induction l as [|h t IH]; intros [|i] v; cbn [upd_nat length]; try reflexivity. rewrite IH. reflexivity. Qed.

Lemma upd_nat_nth : forall l i v j, (i < length l)%nat ->
  nth j (upd_nat l i v) 0 = if Nat.eqb j i then v else nth j l 0.
Proof.
  induction l as [|h t IH]; intros i v j Hi; [cbn in Hi; lia|].
  destruct i as [|i]; destruct j as [|j]; cbn [upd_nat nth Nat.eqb]; try reflexivity.
  apply IH. cbn in Hi. lia.
Qed.

Lemma go_upd_length : forall l i v, length (go_upd l i v) = length l.
Proof. intros. unfold go_upd. destruct (i <? 0); [reflexivity | apply upd_nat_length]. Qed.

Lemma go_upd_nth : forall l (k : nat) v j, (k < length l)%nat ->
  nth j (go_upd l (Z.of_nat k) v) 0 = if Nat.eqb j k then v else nth j l 0.
Proof.
  intros l k v j Hk. unfold go_upd. destruct (Z.ltb_spec (Z.of_nat k) 0); [lia|].
  rewrite Nat2Z.id. apply upd_nat_nth. exact Hk.
Qed.

Lemma go_make_length : forall n : nat, length (go_make (Z.of_nat n)) = n.
Proof. intros. unfold go_make. rewrite Nat2Z.id. apply repeat_length. Qed.

Lemma znth_nat : forall l (k : nat), znth l (Z.of_nat k) 0 = nth k l 0.
Proof. intros. unfold znth. destruct (Z.ltb_spec (Z.of_nat k) 0); [lia|]. rewrite Nat2Z.id. reflexivity. Qed.

(* ---------- the list models, pointwise ---------- *)

Definition c1 (t : Z * Z * Z) : Z := fst (fst t).
Definition c2 (t : Z * Z * Z) : Z := snd (fst t).
Definition c3 (t : Z * Z * Z) : Z := snd t.

Lemma fwd_list_length : forall r g b, length g = length r -> length b = length r ->
  length (R.rct_fwd_list r g b) = length r.
Proof.
  induction r as [|r0 r IH]; intros [|g0 g] [|b0 b] Hg Hb; cbn in *; try lia. rewrite IH by lia. reflexivity.
Qed.

Lemma fwd_list_nth : forall r g b k, length g = length r -> length b = length r -> (k < length r)%nat ->
  nth k (R.rct_fwd_list r g b) (0, 0, 0) = R.rct_fwd32 (nth k r 0) (nth k g 0) (nth k b 0).
Proof.
  induction r as [|r0 r IH]; intros [|g0 g] [|b0 b] k Hg Hb Hk; cbn in *; try lia.
  destruct k as [|k]; [reflexivity|]. apply IH; lia.
Qed.

Lemma inv_list_nth : forall l k, (k < length l)%nat ->
  nth k (R.rct_inv_list l) (0, 0, 0) = (let '(y, cb, cr) := nth k l (0, 0, 0) in R.rct_inv32 y cb cr).
Proof.
  induction l as [|[[y cb] cr] l IH]; intros k Hk; [cbn in Hk; lia|].
  destruct k as [|k]; cbn [R.rct_inv_list nth]; [reflexivity|]. apply IH. cbn in Hk. lia.
Qed.

Lemma inv_list_length : forall l, length (R.rct_inv_list l) = length l.
Proof. induction l as [|[[y cb] cr] l IH]; cbn; [reflexivity | rewrite IH; reflexivity]. Qed.

Lemma list_eq_nth : forall (a b : list Z), length a = length b ->
  (forall j, (j < length a)%nat -> nth j a 0 = nth j b 0) -> a = b.
Proof. intros a b Hl H. apply (nth_ext a b 0 0 Hl H). Qed.

(* ---------- forward ---------- *)

Section Fwd.
Variables r g b : list Z.
Hypothesis Hg : length g = length r.
Hypothesis Hb : length b = length r.
Let n := length r.
Let T := R.rct_fwd_list r g b.

Definition agree (k : nat) (f : Z * Z * Z -> Z) (l : list Z) : Prop :=
  length l = n /\ forall j, (j < k)%nat -> nth j l 0 = f (nth j T (0, 0, 0)).

Lemma fwd_loop : forall m k fuel y cb cr, (k + m = n)%nat -> (m < fuel)%nat ->
  agree k c1 y -> agree k c2 cb -> agree k c3 cr ->
  exists y' cb' cr',
    jpeg2000_colorspace_ApplyRCTToComponents_loop1 fuel r g b (Z.of_nat n) y cb cr (Z.of_nat k)
      = Some (y', cb', cr', Z.of_nat n) /\
    agree n c1 y' /\ agree n c2 cb' /\ agree n c3 cr'.
Proof.
  induction m as [|m IH]; intros k fuel y cb cr Hkm Hf Ay Acb Acr;
    (destruct fuel as [|fuel]; [lia|]); cbn [jpeg2000_colorspace_ApplyRCTToComponents_loop1].
  - assert (k = n) by lia. subst k.
    destruct (Z.ltb_spec (Z.of_nat n) (Z.of_nat n)); [lia|].
    exists y, cb, cr. repeat split; try (destruct Ay, Acb, Acr; assumption); auto.
  - destruct (Z.ltb_spec (Z.of_nat k) (Z.of_nat n)); [|lia].
    destruct Ay as [Ly Ay], Acb as [Lcb Acb], Acr as [Lcr Acr].
    assert (G : ((0 <=? Z.of_nat k) && (Z.of_nat k <? zlen r)) && ((0 <=? Z.of_nat k) && (Z.of_nat k <? zlen g)) &&
                ((0 <=? Z.of_nat k) && (Z.of_nat k <? zlen b)) && ((0 <=? Z.of_nat k) && (Z.of_nat k <? zlen y)) &&
                ((0 <=? Z.of_nat k) && (Z.of_nat k <? zlen cb)) && ((0 <=? Z.of_nat k) && (Z.of_nat k <? zlen cr)) = true).
    { unfold zlen. rewrite Hg, Hb, Ly, Lcb, Lcr. fold n.
      destruct (Z.leb_spec 0 (Z.of_nat k)); [|lia]. destruct (Z.ltb_spec (Z.of_nat k) (Z.of_nat n)); [|lia]. reflexivity. }
    rewrite G. rewrite !znth_nat.
    assert (Hk : (k < length r)%nat) by (fold n; lia).
    pose proof (fwd_list_nth r g b k Hg Hb Hk) as Hn. fold T in Hn.
    change (jpeg2000_colorspace_RCTForward (nth k r 0) (nth k g 0) (nth k b 0)) with (R.rct_fwd32 (nth k r 0) (nth k g 0) (nth k b 0)).
    rewrite <- Hn. destruct (nth k T (0, 0, 0)) as [[t1 t2] t3] eqn:Et.
    replace (Z.of_nat k + 1) with (Z.of_nat (S k)) by lia.
    apply IH; [lia | lia | | |].
    + split; [rewrite go_upd_length; exact Ly|]. intros j Hj. rewrite go_upd_nth by lia.
      destruct (Nat.eqb_spec j k) as [E|E]; [subst j; rewrite Et; reflexivity | apply Ay; lia].
    + split; [rewrite go_upd_length; exact Lcb|]. intros j Hj. rewrite go_upd_nth by lia.
      destruct (Nat.eqb_spec j k) as [E|E]; [subst j; rewrite Et; reflexivity | apply Acb; lia].
    + split; [rewrite go_upd_length; exact Lcr|]. intros j Hj. rewrite go_upd_nth by lia.
      destruct (Nat.eqb_spec j k) as [E|E]; [subst j; rewrite Et; reflexivity | apply Acr; lia].
Qed.

Lemma agree_full : forall f l, agree n f l -> l = map f T.
Proof.
  intros f l [Ll A]. apply list_eq_nth.
  - rewrite map_length. unfold T. rewrite fwd_list_length by assumption. exact Ll.
  - intros j Hj. rewrite A by lia.
    rewrite (nth_indep (map f T) 0 (f (0, 0, 0))) by (rewrite map_length; unfold T; rewrite fwd_list_length by assumption; fold n; lia).
    rewrite map_nth. reflexivity.
Qed.

Theorem tie_ApplyRCTToComponents :
  jpeg2000_colorspace_ApplyRCTToComponents r g b = Some (map c1 T, map c2 T, map c3 T).
Proof.
  unfold jpeg2000_colorspace_ApplyRCTToComponents. cbv zeta.
  unfold zlen at 1 2 3. fold n. destruct (Z.leb_spec 0 (Z.of_nat n)); [|lia].
  unfold zlen. fold n.
  assert (A0 : forall f, agree 0 f (go_make (Z.of_nat n))).
  { intros f. split; [apply go_make_length | intros j Hj; lia]. }
  destruct (fwd_loop n 0 (S n) _ _ _ ltac:(lia) ltac:(lia) (A0 c1) (A0 c2) (A0 c3)) as (y' & cb' & cr' & E & Ay & Acb & Acr).
  change (Z.of_nat 0) with 0 in E. rewrite E.
  rewrite (agree_full _ _ Ay), (agree_full _ _ Acb), (agree_full _ _ Acr). reflexivity.
Qed.
End Fwd.

(* a shorter g: Go panics with index out of range at i = len(g); the translation returns None *)
Example tie_ApplyRCT_short_plane_panics :
  jpeg2000_colorspace_ApplyRCTToComponents [1; 2; 3] [1; 2] [1; 2; 3] = None.
Proof. vm_compute. reflexivity. Qed.

(* ---------- inverse ---------- *)

Section Inv.
Variables y cb cr : list Z.
Hypothesis Hcb : length cb = length y.
Hypothesis Hcr : length cr = length y.
Let n := length y.
Let L := combine (combine y cb) cr.
Let T := R.rct_inv_list L.

Lemma L_length : length L = n.
Proof. unfold L. rewrite !combine_length, Hcb, Hcr. fold n. lia. Qed.

Lemma L_nth : forall k, (k < n)%nat -> nth k L (0, 0, 0) = (nth k y 0, nth k cb 0, nth k cr 0).
Proof. intros k Hk. unfold L. rewrite !combine_nth by (rewrite ?combine_length; lia). reflexivity. Qed.

Definition agree_i (k : nat) (f : Z * Z * Z -> Z) (l : list Z) : Prop :=
  length l = n /\ forall j, (j < k)%nat -> nth j l 0 = f (nth j T (0, 0, 0)).

Lemma inv_loop : forall m k fuel r g b, (k + m = n)%nat -> (m < fuel)%nat ->
  agree_i k c1 r -> agree_i k c2 g -> agree_i k c3 b ->
  exists r' g' b',
    jpeg2000_colorspace_ApplyInverseRCTToComponents_loop1 fuel y cb cr (Z.of_nat n) r g b (Z.of_nat k)
      = Some (r', g', b', Z.of_nat n) /\
    agree_i n c1 r' /\ agree_i n c2 g' /\ agree_i n c3 b'.
Proof.
  induction m as [|m IH]; intros k fuel r g b Hkm Hf Ar Ag Ab;
    (destruct fuel as [|fuel]; [lia|]); cbn [jpeg2000_colorspace_ApplyInverseRCTToComponents_loop1].
  - assert (k = n) by lia. subst k.
    destruct (Z.ltb_spec (Z.of_nat n) (Z.of_nat n)); [lia|].
    exists r, g, b. repeat split; try (destruct Ar, Ag, Ab; assumption); auto.
  - destruct (Z.ltb_spec (Z.of_nat k) (Z.of_nat n)); [|lia].
    destruct Ar as [Lr Ar], Ag as [Lg Ag], Ab as [Lb Ab].
    assert (G : ((0 <=? Z.of_nat k) && (Z.of_nat k <? zlen y)) && ((0 <=? Z.of_nat k) && (Z.of_nat k <? zlen cb)) &&
                ((0 <=? Z.of_nat k) && (Z.of_nat k <? zlen cr)) && ((0 <=? Z.of_nat k) && (Z.of_nat k <? zlen r)) &&
                ((0 <=? Z.of_nat k) && (Z.of_nat k <? zlen g)) && ((0 <=? Z.of_nat k) && (Z.of_nat k <? zlen b)) = true).
    { unfold zlen. rewrite Hcb, Hcr, Lr, Lg, Lb. fold n.
      destruct (Z.leb_spec 0 (Z.of_nat k)); [|lia]. destruct (Z.ltb_spec (Z.of_nat k) (Z.of_nat n)); [|lia]. reflexivity. }
    rewrite G. rewrite !znth_nat.
    assert (Hk : (k < n)%nat) by lia.
    pose proof (inv_list_nth L k ltac:(rewrite L_length; exact Hk)) as Hn. fold T in Hn. rewrite (L_nth k Hk) in Hn.
    change (jpeg2000_colorspace_RCTInverse (nth k y 0) (nth k cb 0) (nth k cr 0)) with (R.rct_inv32 (nth k y 0) (nth k cb 0) (nth k cr 0)).
    rewrite <- Hn. destruct (nth k T (0, 0, 0)) as [[t1 t2] t3] eqn:Et.
    replace (Z.of_nat k + 1) with (Z.of_nat (S k)) by lia.
    apply IH; [lia | lia | | |].
    + split; [rewrite go_upd_length; exact Lr|]. intros j Hj. rewrite go_upd_nth by lia.
      destruct (Nat.eqb_spec j k) as [E|E]; [subst j; rewrite Et; reflexivity | apply Ar; lia].
    + split; [rewrite go_upd_length; exact Lg|]. intros j Hj. rewrite go_upd_nth by lia.
      destruct (Nat.eqb_spec j k) as [E|E]; [subst j; rewrite Et; reflexivity | apply Ag; lia].
    + split; [rewrite go_upd_length; exact Lb|]. intros j Hj. rewrite go_upd_nth by lia.
      destruct (Nat.eqb_spec j k) as [E|E]; [subst j; rewrite Et; reflexivity | apply Ab; lia].
Qed.

Lemma agree_i_full : forall f l, agree_i n f l -> l = map f T.
Proof.
  intros f l [Ll A]. apply list_eq_nth.
  - rewrite map_length. unfold T. rewrite inv_list_length, L_length. exact Ll.
  - intros j Hj. rewrite A by lia.
    rewrite (nth_indep (map f T) 0 (f (0, 0, 0))) by (rewrite map_length; unfold T; rewrite inv_list_length, L_length; lia).
    rewrite map_nth. reflexivity.
Qed.

Theorem tie_ApplyInverseRCTToComponents :
  jpeg2000_colorspace_ApplyInverseRCTToComponents y cb cr = Some (map c1 T, map c2 T, map c3 T).
Proof.
  unfold jpeg2000_colorspace_ApplyInverseRCTToComponents. cbv zeta.
  unfold zlen at 1 2 3. fold n. destruct (Z.leb_spec 0 (Z.of_nat n)); [|lia].
  unfold zlen. fold n.
  assert (A0 : forall f, agree_i 0 f (go_make (Z.of_nat n))).
  { intros f. split; [apply go_make_length | intros j Hj; lia]. }
  destruct (inv_loop n 0 (S n) _ _ _ ltac:(lia) ltac:(lia) (A0 c1) (A0 c2) (A0 c3)) as (r' & g' & b' & E & Ar & Ag & Ab).
  change (Z.of_nat 0) with 0 in E. rewrite E.
  rewrite (agree_i_full _ _ Ar), (agree_i_full _ _ Ag), (agree_i_full _ _ Ab). reflexivity.
Qed.
End Inv.
