(* Tie by translation, second list: kernels with loops (fuelled, option-valued in the translation). *)
From V Require Import Common.Base.
From Coq Require Import ZifyBool.
From V Require Import Gen.KernelsMore_gen.
Require V.T2.T2Bio.

(* the halving loop of floorLog2 / log2: within fuel for every n < 2^fuel, and it adds Z.log2 n *)
Lemma t2_floorLog2_loop : forall fuel n r, n < 2 ^ Z.of_nat fuel ->
  option_map snd (jpeg2000_t2_floorLog2_loop1 (S fuel) n r) = Some (r + Z.log2 n).
Proof.
  induction fuel as [|f IH]; intros n r Hn.
  - change (2 ^ Z.of_nat 0) with 1 in Hn. cbn [jpeg2000_t2_floorLog2_loop1].
    destruct (Z.gtb_spec n 1); [lia|]. cbn [option_map snd]. rewrite Z.log2_nonpos by lia. f_equal. lia.
  - remember (S f) as sf. cbn [jpeg2000_t2_floorLog2_loop1]. subst sf.
    destruct (Z.gtb_spec n 1) as [Hp|Hz].
    + rewrite IH.
      * rewrite Z.log2_shiftr by lia. pose proof (Z.log2_pos n ltac:(lia)). f_equal. lia.
      * rewrite Z.shiftr_div_pow2 by lia. change (2 ^ 1) with 2.
        rewrite Nat2Z.inj_succ, Z.pow_succ_r in Hn by lia. apply Z.div_lt_upper_bound; lia.
    + cbn [option_map snd]. f_equal.
      destruct (Z.eq_dec n 1) as [->|]; [change (Z.log2 1) with 0; lia|]. rewrite Z.log2_nonpos by lia. lia.
Qed.

Lemma tie_t2_floorLog2 : forall n, n < 2 ^ 63 -> jpeg2000_t2_floorLog2 n = Some (V.T2.T2Bio.floor_log2 n).
Proof.
  intros n Hn. unfold jpeg2000_t2_floorLog2, V.T2.T2Bio.floor_log2. destruct (n <=? 1); [reflexivity|].
  cbv zeta. pose proof (t2_floorLog2_loop 63 n 0 Hn) as H. change (S 63) with 64%nat in H.
  destruct (jpeg2000_t2_floorLog2_loop1 64 n 0) as [[n' r]|]; [|discriminate H].
  cbn [option_map snd] in H. injection H as H. rewrite H. reflexivity.
Qed.

Lemma j2k_log2_loop : forall fuel n r, n < 2 ^ Z.of_nat fuel ->
  option_map snd (jpeg2000_log2_loop1 (S fuel) n r) = Some (r + Z.log2 n).
Proof.
  induction fuel as [|f IH]; intros n r Hn.
  - change (2 ^ Z.of_nat 0) with 1 in Hn. cbn [jpeg2000_log2_loop1].
    destruct (Z.gtb_spec n 1); [lia|]. cbn [option_map snd]. rewrite Z.log2_nonpos by lia. f_equal. lia.
  - remember (S f) as sf. cbn [jpeg2000_log2_loop1]. subst sf.
    destruct (Z.gtb_spec n 1) as [Hp|Hz].
    + rewrite IH.
      * rewrite Z.log2_shiftr by lia. pose proof (Z.log2_pos n ltac:(lia)). f_equal. lia.
      * rewrite Z.shiftr_div_pow2 by lia. change (2 ^ 1) with 2.
        rewrite Nat2Z.inj_succ, Z.pow_succ_r in Hn by lia. apply Z.div_lt_upper_bound; lia.
    + cbn [option_map snd]. f_equal.
      destruct (Z.eq_dec n 1) as [->|]; [change (Z.log2 1) with 0; lia|]. rewrite Z.log2_nonpos by lia. lia.
Qed.

(* jpeg2000.log2 (encoder.go) is the same function as t2.floorLog2 *)
Lemma tie_j2k_log2 : forall n, n < 2 ^ 63 -> jpeg2000_log2 n = Some (V.T2.T2Bio.floor_log2 n).
Proof.
  intros n Hn. unfold jpeg2000_log2, V.T2.T2Bio.floor_log2. cbv zeta.
  pose proof (j2k_log2_loop 63 n 0 Hn) as H. change (S 63) with 64%nat in H.
  destruct (jpeg2000_log2_loop1 64 n 0) as [[n' r]|]; [|discriminate H].
  cbn [option_map snd] in H. injection H as H. rewrite H.
  destruct (Z.leb_spec n 1); [|reflexivity].
  destruct (Z.eq_dec n 1) as [->|]; [reflexivity|]. rewrite Z.log2_nonpos by lia. reflexivity.
Qed.
