(* General tie, inverse 5/3 lifting, even = false. *)
From V Require Import Common.Base Tie.GoSem Gen.KernelsSlices_gen.
Require V.DWT.DwtModel.
From V Require Import Tie.DwtTieLib Tie.DwtTieFwdEven Tie.DwtTieInvEven Tie.DwtTieInvOddLoop.

Theorem tie_inv53_odd : forall x, Forall (fun v => - 2 ^ 28 <= v < 2 ^ 28) x -> zlen x < 2 ^ 31 -> x <> [] ->
  jpeg2000_wavelet_Inverse53_1DWithParity x false = Some (D.inv53_odd x).
Proof.
  intros x HF HL Hne.
  pose proof (znth_bound x (2 ^ 28) ltac:(lia) HF) as Hb.
  unfold jpeg2000_wavelet_Inverse53_1DWithParity. cbv beta zeta match.
  destruct (Z.eqb_spec (zlen x) 1) as [W1|W1].
  { destruct x as [|a [|b t]]; [congruence | | unfold zlen in W1; cbn [length] in W1; lia].
    pose proof (Hb 0) as H0. change (znth [a] 0 0) with a in *. rewrite idx_ok by (unfold zlen; cbn [length]; lia).
    pose proof (Z.quot_rem' a 2). pose proof (Z.rem_bound_abs a 2 ltac:(lia)).
    rewrite wrapS_small by lia. reflexivity. }
  destruct (Z.eqb_spec (zlen x) 2) as [W2|W2].
  { destruct x as [|a [|b [|c t]]]; [congruence | unfold zlen in W1; cbn [length] in W1; lia | | unfold zlen in W2; cbn [length] in W2; lia].
    pose proof (Hb 0) as H0. pose proof (Hb 1) as H1.
    change (znth [a; b] 0 0) with a in *. change (znth [a; b] 1 0) with b in *.
    change (zlen [a; b]) with 2. cbn [Z.leb Z.ltb Z.compare andb].
    rewrite (wrapS_small (b + 1)) by lia.
    pose proof (sr1_bound2 (b + 1) (2 ^ 28) ltac:(lia) ltac:(lia)).
    rewrite (wrapS_small (a - Z.shiftr (b + 1) 1)) by lia.
    rewrite (wrapS_small (b + (a - Z.shiftr (b + 1) 1))) by lia.
    reflexivity. }
  assert (W3 : 3 <= zlen x). { destruct x; [congruence|]. unfold zlen in *. cbn [length] in *. lia. }
  assert (Esn : Z.shiftr (zlen x) 1 = zlen x / 2) by apply sr1_div.
  rewrite Esn.
  assert (Ew : zlen x = Z.of_nat (length x)) by reflexivity.
  assert (ESN : Z.of_nat (Nat.div2 (length x)) = zlen x / 2) by apply div2_Z.
  assert (EN : Z.of_nat (Nat.div2 (length x - 3)) = (zlen x - 3) / 2).
  { rewrite div2_Z. rewrite Nat2Z.inj_sub by lia. reflexivity. }
  assert (EQ : Z.quot (zlen x) 2 = zlen x / 2) by (apply Z.quot_div_nonneg; lia).
  rewrite !EQ. rewrite !land1_mod.
  unfold D.inv53_odd. cbv zeta.
  destruct (Nat.eqb_spec (length x) 1); [lia|]. destruct (Nat.eqb_spec (length x) 2); [lia|].
  destruct (Nat.eqb_spec (length x) 0); [lia|].
  rewrite even_nat_Z, <- Ew.
  remember (zlen x) as w eqn:Hw.
  pose proof (Z.div_mod w 2 ltac:(lia)) as DM'. pose proof (Z.mod_pos_bound w 2 ltac:(lia)) as MB'.
  pose proof (Z.div_mod (w - 3) 2 ltac:(lia)) as DM3. pose proof (Z.mod_pos_bound (w - 3) 2 ltac:(lia)) as MB3.
  rewrite (wrapS_small (w / 2)) by lia.
  remember (w / 2) as sn eqn:Hsn.
  remember ((w - 3) / 2) as nn eqn:Hnn.
  remember (Nat.div2 (length x)) as SN eqn:HSN.
  remember (Nat.div2 (length x - 3)) as N eqn:HN.
  assert (ESNn : SN = Z.to_nat sn) by lia.
  destruct (Z.leb_spec 0 w); [|lia].
  rewrite ?zlen_go_make by lia. unwrap_idx. guards.
  pose proof (Hb 0) as Hx0. pose proof (Hb sn) as Hxs. pose proof (Hb (sn + 1)) as Hxs1.
  rewrite (wrapS_small (znth x sn 0 + znth x (sn + 1) 0)) by lia.
  rewrite (wrapS_small (znth x sn 0 + znth x (sn + 1) 0 + 2)) by lia.
  pose proof (sr2_bound4' (znth x sn 0 + znth x (sn + 1) 0 + 2) (2 ^ 27) ltac:(lia) ltac:(lia)) as Hsr.
  rewrite (wrapS_small (znth x 0 0 - Z.shiftr (znth x sn 0 + znth x (sn + 1) 0 + 2) 2)) by lia.
  assert (Em0 : D.zn x 0 - D.sr2 (D.zn x SN + D.zn x (SN + 1) + 2) = znth x 0 0 - Z.shiftr (znth x sn 0 + znth x (sn + 1) 0 + 2) 2) by zn_eq.
  assert (Em1 : D.zn x SN = znth x sn 0) by zn_eq.
  assert (Em2 : D.zn x (SN + 1) = znth x (sn + 1) 0) by zn_eq.
  rewrite Em0, Em1, Em2.
  set (dc0 := znth x 0 0 - Z.shiftr (znth x sn 0 + znth x (sn + 1) 0 + 2) 2) in *.
  rewrite (wrapS_small (znth x sn 0 + dc0)) by lia.
  set (tmp0 := go_upd (go_make w) 0 (znth x sn 0 + dc0)).
  assert (L0 : zlen tmp0 = w) by (unfold tmp0; rewrite zlen_go_upd; apply zlen_go_make; lia).
  assert (N0 : forall j, znth tmp0 j 0 = if j =? 0 then znth x sn 0 + dc0 else 0).
  { intros j. unfold tmp0. rewrite znth_go_upd by (rewrite zlen_go_make; lia). rewrite znth_go_make. reflexivity. }
  assert (Bdc0 : - 2 ^ 29 <= dc0 < 2 ^ 29) by (unfold dc0; lia).
  destruct (Z.eqb_spec (w mod 2) 0) as [Wev|Wodd]; cbv beta match.
  - (* even width: limit = w - 3 *)
    rewrite (wrapS_small (w - 2 - 1)) by lia.
    destruct (inv_loop2_spec x Hb w sn (w - 2 - 1) Hw ltac:(lia) ltac:(lia) ltac:(lia) ltac:(lia)
                N 1 1 (S (length x)) false 1 tmp0 (znth x (sn + 1) 0) 0 dc0 0)
      as (tmp1 & s2' & dnV' & E1 & L1 & N1 & B1 & B2); try lia.
    rewrite E1. cbv beta match.
    unfold ML2 in *. change (Z.to_nat 1) with 1%nat in *. rewrite <- ESNn in *.
    pose proof (ML2_length x sn ltac:(lia) N 1 (znth x (sn + 1) 0) dc0 ltac:(lia)) as Lout. unfold ML2 in Lout.
    change (Z.to_nat 1) with 1%nat in Lout. rewrite <- ESNn in Lout.
    destruct (D.inv53_odd_loop N 1 SN x (znth x (sn + 1) 0) dc0) as [out [s1 dc]] eqn:EML.
    cbn [fst snd] in *.
    rewrite ?zlen_go_upd. rewrite L1. replace (1 + 2 * Z.of_nat N) with (w - 3) in * by lia.
    guards.
    pose proof (Hb (sn - 1)) as Hq.
    rewrite (wrapS_small (s1 + 1)) by lia.
    pose proof (sr1_bound2 (s1 + 1) (2 ^ 28) ltac:(lia) ltac:(lia)) as Hsr'.
    rewrite (wrapS_small (znth x (sn - 1) 0 - Z.shiftr (s1 + 1) 1)) by lia.
    assert (Eml : D.zn x (SN - 1) - D.sr1 (s1 + 1) = znth x (sn - 1) 0 - Z.shiftr (s1 + 1) 1) by zn_eq.
    rewrite Eml.
    set (last := znth x (sn - 1) 0 - Z.shiftr (s1 + 1) 1) in *.
    rewrite (wrapS_small (last + dc)) by lia.
    pose proof (sr1_bound2 (last + dc) (2 ^ 29) ltac:(lia) ltac:(lia)) as Hsr2.
    rewrite (wrapS_small (s1 + Z.shiftr (last + dc) 1)) by lia.
    repeat match goal with |- context [?a <=? ?b] => destruct (Z.leb_spec a b); [|lia] end. cbn [andb].
    rewrite go_copy_all' by (rewrite ?zlen_go_upd; lia). f_equal.
    apply list_eq_znth.
    + rewrite !zlen_go_upd, L1. unfold zlen. cbn [length]. rewrite !app_length. cbn [length]. lia.
    + intros z Hz. rewrite !zlen_go_upd, L1 in Hz.
      rewrite znth_go_upd by (rewrite !zlen_go_upd; lia). rewrite znth_go_upd by (rewrite zlen_go_upd; lia).
      rewrite znth_go_upd by lia. rewrite N1, N0.
      rewrite (znth_to_nat (_ :: _)) by lia.
      destruct (Z.eqb_spec z 0).
      * subst z. destruct (Z.eqb_spec 0 (w - 1)); [lia|]. destruct (Z.eqb_spec 0 (w - 2)); [lia|].
        destruct (Z.eqb_spec 0 (w - 3)); [lia|]. destruct (Z.leb_spec 1 0); [lia|]. reflexivity.
      * replace (Z.to_nat z) with (S (Z.to_nat (z - 1))) by lia. cbn [nth].
        destruct (Z.eqb_spec z (w - 1)).
        { rewrite app_nth2 by lia. rewrite Lout. replace (Z.to_nat (z - 1) - 2 * N)%nat with 2%nat by lia. reflexivity. }
        destruct (Z.eqb_spec z (w - 2)).
        { rewrite app_nth2 by lia. rewrite Lout. replace (Z.to_nat (z - 1) - 2 * N)%nat with 1%nat by lia. reflexivity. }
        destruct (Z.eqb_spec z (w - 3)).
        { rewrite app_nth2 by lia. rewrite Lout. replace (Z.to_nat (z - 1) - 2 * N)%nat with 0%nat by lia. reflexivity. }
        destruct (Z.leb_spec 1 z); [|lia]. destruct (Z.ltb_spec z (w - 3)); [|lia]. cbn [andb].
        rewrite app_nth1 by lia. reflexivity.
  - (* odd width: limit = w - 2 *)
    rewrite (wrapS_small (w - 2 - 0)) by lia.
    destruct (inv_loop2_spec x Hb w sn (w - 2 - 0) Hw ltac:(lia) ltac:(lia) ltac:(lia) ltac:(lia)
                N 1 1 (S (length x)) false 0 tmp0 (znth x (sn + 1) 0) 0 dc0 0)
      as (tmp1 & s2' & dnV' & E1 & L1 & N1 & B1 & B2); try lia.
    rewrite E1. cbv beta match.
    unfold ML2 in *. change (Z.to_nat 1) with 1%nat in *. rewrite <- ESNn in *.
    pose proof (ML2_length x sn ltac:(lia) N 1 (znth x (sn + 1) 0) dc0 ltac:(lia)) as Lout. unfold ML2 in Lout.
    change (Z.to_nat 1) with 1%nat in Lout. rewrite <- ESNn in Lout.
    destruct (D.inv53_odd_loop N 1 SN x (znth x (sn + 1) 0) dc0) as [out [s1 dc]] eqn:EML.
    cbn [fst snd] in *.
    rewrite ?zlen_go_upd. rewrite L1. replace (1 + 2 * Z.of_nat N) with (w - 2) in * by lia.
    guards.
    rewrite (wrapS_small (s1 + dc)) by lia.
    repeat match goal with |- context [?a <=? ?b] => destruct (Z.leb_spec a b); [|lia] end. cbn [andb].
    rewrite go_copy_all' by (rewrite ?zlen_go_upd; lia). f_equal.
    apply list_eq_znth.
    + rewrite !zlen_go_upd, L1. unfold zlen. cbn [length]. rewrite !app_length. cbn [length]. lia.
    + intros z Hz. rewrite !zlen_go_upd, L1 in Hz.
      rewrite znth_go_upd by (rewrite zlen_go_upd; lia).
      rewrite znth_go_upd by lia. rewrite N1, N0.
      rewrite (znth_to_nat (_ :: _)) by lia.
      destruct (Z.eqb_spec z 0).
      * subst z. destruct (Z.eqb_spec 0 (w - 1)); [lia|]. destruct (Z.eqb_spec 0 (w - 2)); [lia|].
        destruct (Z.leb_spec 1 0); [lia|]. reflexivity.
      * replace (Z.to_nat z) with (S (Z.to_nat (z - 1))) by lia. cbn [nth].
        destruct (Z.eqb_spec z (w - 1)).
        { rewrite app_nth2 by lia. rewrite Lout. replace (Z.to_nat (z - 1) - 2 * N)%nat with 1%nat by lia. reflexivity. }
        destruct (Z.eqb_spec z (w - 2)).
        { rewrite app_nth2 by lia. rewrite Lout. replace (Z.to_nat (z - 1) - 2 * N)%nat with 0%nat by lia. reflexivity. }
        destruct (Z.leb_spec 1 z); [|lia]. destruct (Z.ltb_spec z (w - 2)); [|lia]. cbn [andb].
        rewrite app_nth1 by lia. reflexivity.
Qed.

Print Assumptions tie_inv53_odd.
