(* Helper lemmas for the general tie of the translated 5/3 lifting (C20). *)
From V Require Import Common.Base Tie.GoSem.

Lemma wrapS_small : forall t, - 2 ^ 31 <= t < 2 ^ 31 -> wrapS 32 t = t.
Proof.
  intros t H. unfold wrapS. change (32 - 1) with 31. cbv zeta.
  change (2 ^ 32) with 4294967296 in *. change (2 ^ 31) with 2147483648 in *.
  destruct (Z.ltb_spec (t mod 4294967296) 2147483648) as [L|L].
  - destruct (Z_lt_le_dec t 0) as [N|N].
    + exfalso. assert (E : t mod 4294967296 = t + 4294967296).
      { symmetry. apply (Z.mod_unique t 4294967296 (-1)); lia. }
      lia.
    + apply Z.mod_small. lia.
  - destruct (Z_lt_le_dec t 0) as [N|N].
    + assert (E : t mod 4294967296 = t + 4294967296).
      { symmetry. apply (Z.mod_unique t 4294967296 (-1)); lia. }
      lia.
    + exfalso. rewrite Z.mod_small in L by lia. lia.
Qed.

Lemma sr1_div : forall a, Z.shiftr a 1 = a / 2.
Proof. intros. rewrite Z.shiftr_div_pow2 by lia. reflexivity. Qed.
Lemma sr2_div : forall a, Z.shiftr a 2 = a / 4.
Proof. intros. rewrite Z.shiftr_div_pow2 by lia. reflexivity. Qed.

Lemma sr1_bound : forall a B, 0 < B -> - B <= a < B -> - B <= Z.shiftr a 1 < B.
Proof.
  intros a B HB H. rewrite sr1_div.
  pose proof (Z.div_mod a 2 ltac:(lia)). pose proof (Z.mod_pos_bound a 2 ltac:(lia)). lia.
Qed.
Lemma sr2_bound : forall a B, 0 < B -> - B <= a < B -> - B <= Z.shiftr a 2 < B.
Proof.
  intros a B HB H. rewrite sr2_div.
  pose proof (Z.div_mod a 4 ltac:(lia)). pose proof (Z.mod_pos_bound a 4 ltac:(lia)). lia.
Qed.
Lemma sr2_bound4 : forall a B, 0 < B -> - (4 * B) <= a < 4 * B -> - B <= Z.shiftr a 2 < B.
Proof.
  intros a B HB H. rewrite sr2_div.
  pose proof (Z.div_mod a 4 ltac:(lia)). pose proof (Z.mod_pos_bound a 4 ltac:(lia)). lia.
Qed.
Lemma sr1_bound2 : forall a B, 0 < B -> - (2 * B) <= a < 2 * B -> - B <= Z.shiftr a 1 < B.
Proof.
  intros a B HB H. rewrite sr1_div.
  pose proof (Z.div_mod a 2 ltac:(lia)). pose proof (Z.mod_pos_bound a 2 ltac:(lia)). lia.
Qed.

Lemma idx_ok : forall (l : list Z) i, 0 <= i < zlen l -> (0 <=? i) && (i <? zlen l) = true.
Proof.
  intros l i H. destruct (Z.leb_spec 0 i); [|lia]. destruct (Z.ltb_spec i (zlen l)); [|lia]. reflexivity.
Qed.

Lemma upd_nat_length : forall l i v, length (upd_nat l i v) = length l.
Proof. induction l as [|h t IH]; intros [|i] v; cbn [upd_nat length]; try reflexivity. rewrite IH. reflexivity. Qed.

Lemma upd_nat_nth : forall l i v j, (i < length l)%nat ->
  nth j (upd_nat l i v) 0 = if Nat.eqb j i then v else nth j l 0.
Proof.
  induction l as [|h t IH]; intros i v j Hi; [cbn in Hi; lia|].
  destruct i as [|i]; destruct j as [|j]; cbn [upd_nat nth Nat.eqb]; try reflexivity.
  apply IH. cbn in Hi. lia.
Qed.

Lemma zlen_go_upd : forall l i v, zlen (go_upd l i v) = zlen l.
Proof. intros. unfold zlen, go_upd. destruct (i <? 0); [reflexivity | rewrite upd_nat_length; reflexivity]. Qed.

Lemma znth_go_upd : forall l i v j, 0 <= i < zlen l ->
  znth (go_upd l i v) j 0 = if j =? i then v else znth l j 0.
Proof.
  intros l i v j Hi. unfold zlen in Hi. unfold go_upd, znth.
  destruct (Z.ltb_spec i 0); [lia|].
  destruct (Z.ltb_spec j 0).
  - destruct (Z.eqb_spec j i); [lia | reflexivity].
  - rewrite upd_nat_nth by lia.
    destruct (Nat.eqb_spec (Z.to_nat j) (Z.to_nat i)); destruct (Z.eqb_spec j i); try reflexivity; lia.
Qed.

Lemma zlen_go_make : forall n, 0 <= n -> zlen (go_make n) = n.
Proof. intros. unfold zlen, go_make. rewrite repeat_length. lia. Qed.

Lemma znth_go_make : forall n j, znth (go_make n) j 0 = 0.
Proof.
  intros. unfold znth, go_make. destruct (j <? 0); [reflexivity|].
  generalize (Z.to_nat j) as k. generalize (Z.to_nat n) as m.
  induction m as [|m IH]; intros [|k]; cbn; auto.
Qed.

Lemma znth_to_nat : forall (l : list Z) z, 0 <= z -> znth l z 0 = nth (Z.to_nat z) l 0.
Proof. intros. unfold znth. destruct (Z.ltb_spec z 0); [lia | reflexivity]. Qed.

Lemma nth_znth : forall (l : list Z) k, nth k l 0 = znth l (Z.of_nat k) 0.
Proof. intros. rewrite znth_to_nat by lia. rewrite Nat2Z.id. reflexivity. Qed.

Lemma znth_bound : forall (x : list Z) B, 0 < B -> Forall (fun v => - B <= v < B) x ->
  forall z, - B <= znth x z 0 < B.
Proof.
  intros x B HB HF z. unfold znth. destruct (z <? 0); [lia|].
  destruct (Nat.lt_ge_cases (Z.to_nat z) (length x)) as [L|L].
  - rewrite Forall_forall in HF. apply HF. apply nth_In. exact L.
  - rewrite nth_overflow by lia. lia.
Qed.

Lemma nth_map_seq : forall (f : nat -> Z) n s i, (i < n)%nat -> nth i (map f (seq s n)) 0 = f (s + i)%nat.
Proof.
  induction n as [|n IH]; intros s i Hi; [lia|]. destruct i as [|i]; cbn [seq map nth].
  - f_equal. lia.
  - rewrite IH by lia. f_equal. lia.
Qed.

Lemma go_copy_tail : forall data tmp sn, 0 <= sn <= zlen data -> zlen tmp = zlen data ->
  go_copy data sn (zlen data) tmp sn (zlen data) = firstn (Z.to_nat sn) data ++ skipn (Z.to_nat sn) tmp.
Proof.
  intros data tmp sn Hs Hl. unfold go_copy. cbv zeta. unfold zlen in *.
  rewrite Z.min_id.
  assert (E : Z.to_nat (Z.of_nat (length data) - sn) = (length data - Z.to_nat sn)%nat) by lia.
  rewrite E. f_equal.
  rewrite (firstn_all2 (n := (length data - Z.to_nat sn)%nat)) by (rewrite skipn_length; lia).
  rewrite (skipn_all2 (n := (Z.to_nat sn + (length data - Z.to_nat sn))%nat)) by lia.
  apply app_nil_r.
Qed.

Lemma sr2_bound4' : forall a B, 0 < B -> - (4 * B) <= a < 4 * B + 4 -> - B <= Z.shiftr a 2 <= B.
Proof.
  intros a B HB H. rewrite sr2_div.
  pose proof (Z.div_mod a 4 ltac:(lia)). pose proof (Z.mod_pos_bound a 4 ltac:(lia)). lia.
Qed.
