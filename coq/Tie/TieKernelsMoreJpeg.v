(* Tie by translation, second list (JPEG part): generated definitions of Gen/KernelsMore_gen.v equal the
   hand-written model functions. *)
From V Require Import Common.Base.
From Coq Require Import ZifyBool.
From V Require Import Gen.KernelsMore_gen.
Require V.JpegLL.JllModel V.JpegDCT.DctIslow V.JpegDCT.DctGeometry V.JpegDCT.DctRestart.
Module LL := V.JpegLL.JllModel.

Lemma tie_ll_losslessDifference : forall s p, jpeg_lossless_losslessDifference s p = s - p.
Proof. reflexivity. Qed.
Lemma tie_sv1_losslessDifference : forall s p, jpeg_lossless14sv1_losslessDifference s p = s - p.
Proof. reflexivity. Qed.

Lemma tie_edgeAwarePrediction : forall pr row col ra rb rc dflt,
  jpeg_lossless_edgeAwarePrediction pr row col ra rb rc dflt =
  LL.edge_aware pr (row =? 0) (col =? 0) ra rb rc dflt.
Proof. reflexivity. Qed.

Lemma tie_std_Clamp : forall v lo hi, jpeg_standard_Clamp v lo hi = V.JpegDCT.DctIslow.clamp v lo hi.
Proof. intros. unfold jpeg_standard_Clamp, V.JpegDCT.DctIslow.clamp. rewrite Z.gtb_ltb. reflexivity. Qed.

Lemma tie_std_DivCeil : forall a b, jpeg_standard_DivCeil a b = V.JpegDCT.DctGeometry.div_ceil a b.
Proof. reflexivity. Qed.

(* IsRST takes the 16-bit marker 0xFF00 + b, the model the second byte b *)
Lemma tie_std_IsRST : forall b, jpeg_standard_IsRST (65280 + b) = V.JpegDCT.DctRestart.is_rst b.
Proof.
  intros b. unfold jpeg_standard_IsRST, V.JpegDCT.DctRestart.is_rst.
  destruct (Z.geb_spec (65280 + b) 65488); destruct (Z.leb_spec (65280 + b) 65495);
  destruct (Z.leb_spec 208 b); destruct (Z.leb_spec b 215); try reflexivity; lia.
Qed.
