(* Tie by translation, second list (JPEG 2000 part): generated definitions of Gen/KernelsMore_gen.v
   (translated from the function bodies of /repo/jpeg2000/...) equal the hand-written model functions,
   for all arguments unless a range hypothesis is stated. *)
From V Require Import Common.Base.
From Coq Require Import ZifyBool.
From V Require Import Gen.KernelsMore_gen.
Require V.J2KGeo.GeoModel V.DWT.DwtModel V.T2.T2Bio V.T2.T2Packets V.Pipe.PipeModel V.T1.T1Model
        V.HT.HtLevels V.HT.HtUvlc.
Module G := V.J2KGeo.GeoModel.
Module D := V.DWT.DwtModel.
Module PM := V.Pipe.PipeModel.
Module TP := V.T2.T2Packets.
Module T1M := V.T1.T1Model.
Module HL := V.HT.HtLevels.
Module HU := V.HT.HtUvlc.

(* ---------- ceilDiv / floorDiv / ceilDivPow2 ---------- *)
Lemma tie_j2k_ceilDiv : forall a b, jpeg2000_ceilDiv a b = G.ceil_div a b.
Proof. reflexivity. Qed.
Lemma tie_t2_ceilDiv : forall a b, jpeg2000_t2_ceilDiv a b = TP.ceil_div a b.
Proof. reflexivity. Qed.
Lemma tie_t2_floorDiv : forall a b, jpeg2000_t2_floorDiv a b = TP.floor_div a b.
Proof. reflexivity. Qed.

Lemma tie_j2k_ceilDivPow2 : forall n pow, jpeg2000_ceilDivPow2 n pow = PM.ceil_div_pow2 n pow.
Proof.
  intros n pow. unfold jpeg2000_ceilDivPow2, PM.ceil_div_pow2. destruct (Z.leb_spec pow 0); [reflexivity|].
  cbv zeta. rewrite Z.shiftl_1_l. reflexivity.
Qed.
Lemma tie_t2_ceilDivPow2 : forall n pow, jpeg2000_t2_ceilDivPow2 n pow = PM.ceil_div_pow2 n pow.
Proof.
  intros n pow. unfold jpeg2000_t2_ceilDivPow2, PM.ceil_div_pow2. destruct (Z.leb_spec pow 0); [reflexivity|].
  cbv zeta. rewrite Z.shiftl_1_l. reflexivity.
Qed.

(* ---------- parity helpers (three copies in the code) ---------- *)
Lemma tie_j2k_isEven : forall v, jpeg2000_isEven v = G.is_even_z v.
Proof. reflexivity. Qed.
Lemma tie_t2_isEven : forall v, jpeg2000_t2_isEven v = G.is_even_z v.
Proof. reflexivity. Qed.
Lemma tie_wav_isEven_z : forall v, jpeg2000_wavelet_isEven v = G.is_even_z v.
Proof. reflexivity. Qed.
(* DwtModel states it as Z.even *)
Lemma tie_wav_isEven : forall v, jpeg2000_wavelet_isEven v = D.is_even v.
Proof.
  intros v. unfold jpeg2000_wavelet_isEven, D.is_even.
  change 1 with (Z.ones 1) at 1. rewrite Z.land_ones by lia. change (2 ^ 1) with 2.
  rewrite Zmod_even. destruct (Z.even v); reflexivity.
Qed.

Lemma tie_j2k_nextCoord : forall v, jpeg2000_nextCoord v = G.next_coord_z v.
Proof. reflexivity. Qed.
Lemma tie_t2_nextCoord : forall v, jpeg2000_t2_nextCoord v = G.next_coord_z v.
Proof. reflexivity. Qed.
Lemma tie_wav_nextCoord : forall v, jpeg2000_wavelet_nextCoord v = D.next_coord v.
Proof. reflexivity. Qed.

Lemma tie_j2k_splitLengths : forall n e, jpeg2000_splitLengths n e = G.split_len n e.
Proof. reflexivity. Qed.
Lemma tie_t2_splitLengths : forall n e, jpeg2000_t2_splitLengths n e = G.split_len n e.
Proof. reflexivity. Qed.
Lemma tie_wav_splitLengths_z : forall n e, jpeg2000_wavelet_splitLengths n e = G.split_len n e.
Proof. reflexivity. Qed.
(* DwtModel's version works on nat lengths: equal for every non-negative n *)
Lemma div2_quot : forall k, Z.of_nat (Nat.div2 k) = Z.quot (Z.of_nat k) 2.
Proof.
  intros k. rewrite Nat.div2_div, Nat2Z.inj_div. rewrite Z.quot_div_nonneg by lia. reflexivity.
Qed.
Lemma tie_wav_splitLengths : forall n e,
  jpeg2000_wavelet_splitLengths (Z.of_nat n) e = Z.of_nat (D.split_lengths n e).
Proof.
  intros n e. unfold jpeg2000_wavelet_splitLengths, D.split_lengths. cbv zeta.
  destruct e; rewrite div2_quot; [rewrite Nat2Z.inj_add|]; reflexivity.
Qed.

Lemma tie_min32 : forall a b, jpeg2000_wavelet_min32 a b = Z.min a b.
Proof. intros a b. unfold jpeg2000_wavelet_min32. destruct (Z.ltb_spec a b); lia. Qed.

(* ---------- subband numbering ---------- *)
Lemma tie_j2k_losslessLog2Gain : forall r b, jpeg2000_losslessLog2Gain r b = PM.log2_gain r b.
Proof. reflexivity. Qed.

Lemma tie_j2k_subbandIndex : forall l r b, jpeg2000_subbandIndex l r b = PM.subband_index l r b.
Proof.
  intros l r b. unfold jpeg2000_subbandIndex, PM.subband_index.
  destruct ((r <? 0) || (r >? l)); [reflexivity|]. destruct (r =? 0); [|reflexivity]. destruct (b =? 0); reflexivity.
Qed.
Lemma tie_t2_subbandIndex : forall l r b, jpeg2000_t2_subbandIndex l r b = PM.subband_index l r b.
Proof.
  intros l r b. unfold jpeg2000_t2_subbandIndex, PM.subband_index.
  destruct ((r <? 0) || (r >? l)); [reflexivity|]. destruct (r =? 0); [|reflexivity]. destruct (b =? 0); reflexivity.
Qed.
Lemma tie_j2k_subbandIndex_ht : forall l r b, jpeg2000_subbandIndex l r b = HL.subband_index l r b.
Proof. reflexivity. Qed.

(* subbandIndexForResolutionBand (decoder side) is a different function: it answers 0 for res = 0
   whatever the band.  It agrees with subbandIndex exactly when res <> 0, or band = 0 and 0 <= numLevels. *)
Lemma tie_j2k_subbandIndexForResolutionBand : forall l r b, (r <> 0 \/ (b = 0 /\ 0 <= l)) ->
  jpeg2000_subbandIndexForResolutionBand l r b = PM.subband_index l r b.
Proof.
  intros l r b H. unfold jpeg2000_subbandIndexForResolutionBand, PM.subband_index.
  destruct (Z.eqb_spec r 0) as [E|E].
  - subst r. destruct H as [H|[Hb Hl]]; [lia|]. subst b.
    destruct (Z.ltb_spec 0 0); [lia|]. destruct (Z.gtb_spec 0 l); [lia|]. reflexivity.
  - destruct (r <? 0); destruct (r >? l); destruct (b <? 1); destruct (b >? 3); reflexivity.
Qed.

Definition layout_of (t : jpeg2000_TileLayout) : G.tile_layout :=
  G.mkLayout (jpeg2000_TileLayout_imageWidth t) (jpeg2000_TileLayout_imageHeight t)
    (jpeg2000_TileLayout_imageX0 t) (jpeg2000_TileLayout_imageY0 t) (jpeg2000_TileLayout_imageX1 t)
    (jpeg2000_TileLayout_imageY1 t) (jpeg2000_TileLayout_tileWidth t) (jpeg2000_TileLayout_tileHeight t)
    (jpeg2000_TileLayout_numTilesX t) (jpeg2000_TileLayout_numTilesY t)
    (jpeg2000_TileLayout_tileOffsetX t) (jpeg2000_TileLayout_tileOffsetY t).
Lemma tie_GetTileCount : forall t, jpeg2000_TileLayout_GetTileCount t = G.tile_count (layout_of t).
Proof. intros t. destruct t. reflexivity. Qed.

(* ---------- jpeg2000/t1 ---------- *)
Lemma tie_isLazyRawPass : forall bp m pt st, jpeg2000_t1_isLazyRawPass bp m pt st = T1M.is_lazy_raw bp m pt st.
Proof.
  intros. unfold jpeg2000_t1_isLazyRawPass, T1M.is_lazy_raw. rewrite Z.geb_leb. reflexivity.
Qed.
Lemma tie_isTerminatingPass : forall bp m pt st, jpeg2000_t1_isTerminatingPass bp m pt st = T1M.is_terminating bp m pt st.
Proof.
  intros. unfold jpeg2000_t1_isTerminatingPass, T1M.is_terminating. rewrite Z.gtb_ltb. reflexivity.
Qed.
Lemma tie_reconstructSignificantValue : forall bp s,
  jpeg2000_t1_reconstructSignificantValue bp s = T1M.recon_sig true bp s.
Proof. reflexivity. Qed.
Lemma tie_refineReconstructedValue : forall cur bp b,
  jpeg2000_t1_refineReconstructedValue cur bp b = T1M.recon_ref true cur bp b.
Proof.
  intros. unfold jpeg2000_t1_refineReconstructedValue, T1M.recon_ref. cbv zeta.
  destruct (negb (b =? 0)); destruct (cur <? 0); reflexivity.
Qed.

(* ---------- jpeg2000/htj2k ---------- *)
Definition uvlc_tuple (e : jpeg2000_htj2k_ojphUVLCEntry) : Z * Z * Z * Z * Z * Z :=
  (jpeg2000_htj2k_ojphUVLCEntry_pre e, jpeg2000_htj2k_ojphUVLCEntry_preLen e, jpeg2000_htj2k_ojphUVLCEntry_suf e,
   jpeg2000_htj2k_ojphUVLCEntry_sufLen e, jpeg2000_htj2k_ojphUVLCEntry_ext e, jpeg2000_htj2k_ojphUVLCEntry_extLen e).
Lemma tie_ojphUVLC : forall code, uvlc_tuple (jpeg2000_htj2k_ojphUVLC code) = HU.ojph_uvlc code.
Proof.
  intros code. unfold jpeg2000_htj2k_ojphUVLC, HU.ojph_uvlc.
  destruct (code <=? 0); [reflexivity|]. destruct (code =? 1); [reflexivity|]. destruct (code =? 2); [reflexivity|].
  destruct (code <=? 4); [reflexivity|]. destruct (code <=? 32); reflexivity.
Qed.
