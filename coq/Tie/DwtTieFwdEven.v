(* General tie, forward 5/3 lifting, even = true. *)
From V Require Import Common.Base Tie.GoSem Gen.KernelsSlices_gen.
Require V.DWT.DwtModel.
Module D := V.DWT.DwtModel.
From V Require Import Tie.DwtTieLib Tie.DwtTieFwdEvenLoops.

Lemma div2_Z : forall n, Z.of_nat (Nat.div2 n) = Z.of_nat n / 2.
Proof. intros. rewrite Nat.div2_div. rewrite Nat2Z.inj_div. reflexivity. Qed.

Lemma even_nat_Z : forall n, Nat.even n = (Z.of_nat n mod 2 =? 0).
Proof.
  intros n. pose proof (Z.div_mod (Z.of_nat n) 2 ltac:(lia)). pose proof (Z.mod_pos_bound (Z.of_nat n) 2 ltac:(lia)).
  destruct (Nat.even n) eqn:E.
  - apply Nat.even_spec in E. destruct E as [m E]. symmetry. apply Z.eqb_eq. lia.
  - assert (O : Nat.odd n = true) by (unfold Nat.odd; rewrite E; reflexivity).
    apply Nat.odd_spec in O. destruct O as [m O]. symmetry. apply Z.eqb_neq. lia.
Qed.

Lemma odd_nat_Z : forall n, Nat.odd n = negb (Z.of_nat n mod 2 =? 0).
Proof. intros. unfold Nat.odd. rewrite even_nat_Z. reflexivity. Qed.

Lemma length_go_upd : forall l i v, length (go_upd l i v) = length l.
Proof. intros. pose proof (zlen_go_upd l i v) as H. unfold zlen in H. lia. Qed.

Lemma nth_firstn_lt : forall (l : list Z) n j, (j < n)%nat -> nth j (firstn n l) 0 = nth j l 0.
Proof.
  induction l as [|h t IH]; intros [|n] [|j] H; cbn [firstn nth]; try reflexivity; try lia. apply IH. lia.
Qed.

Lemma nth_skipn' : forall (l : list Z) n j, nth j (skipn n l) 0 = nth (n + j) l 0.
Proof.
  induction l as [|h t IH]; intros [|n] j; cbn [skipn]; try reflexivity.
  - destruct j; reflexivity.
  - rewrite IH. reflexivity.
Qed.

Lemma go_copy_tail' : forall data tmp sn w, 0 <= sn <= w -> zlen data = w -> zlen tmp = w ->
  go_copy data sn w tmp sn w = firstn (Z.to_nat sn) data ++ skipn (Z.to_nat sn) tmp.
Proof. intros data tmp sn w H Hd Ht. subst w. apply go_copy_tail; [exact H | exact Ht]. Qed.

Lemma assemble : forall (dataF tmpF lo hi : list Z) W SN, (SN <= W)%nat ->
  length dataF = W -> length tmpF = W -> length lo = SN -> length hi = (W - SN)%nat ->
  (forall j, (j < SN)%nat -> nth j lo 0 = znth dataF (Z.of_nat j) 0) ->
  (forall j, (j < W - SN)%nat -> nth j hi 0 = znth tmpF (Z.of_nat SN + Z.of_nat j) 0) ->
  firstn SN dataF ++ skipn SN tmpF = lo ++ hi.
Proof.
  intros dataF tmpF lo hi W SN HS Ld Lt Llo Lhi Hlo Hhi. f_equal.
  - apply (nth_ext _ _ 0 0); [rewrite firstn_length; lia|].
    intros j Hj. rewrite firstn_length in Hj. rewrite nth_firstn_lt by lia. rewrite Hlo by lia. apply nth_znth.
  - apply (nth_ext _ _ 0 0); [rewrite skipn_length; lia|].
    intros j Hj. rewrite skipn_length in Hj. rewrite nth_skipn'. rewrite Hhi by lia. rewrite nth_znth. f_equal. lia.
Qed.

Definition hi_even (x : list Z) : list Z :=
  let w := length x in let sn := Nat.div2 (w + 1) in
  map (fun i => D.zn x (2 * i + 1) - D.sr1 (D.zn x (i * 2) + D.zn x ((i + 1) * 2))) (seq 0 (sn - 1))
    ++ (if Nat.even w then [D.zn x (2 * (sn - 1) + 1) - D.zn x ((sn - 1) * 2)] else []).
Definition lo_even (x hi : list Z) : list Z :=
  let w := length x in let sn := Nat.div2 (w + 1) in let dn := (w - sn)%nat in
    [D.zn x 0 + D.sr2 (D.zn hi 0 + D.zn hi 0 + 2)]
    ++ map (fun i => D.zn x (2 * i) + D.sr2 (D.zn hi (i - 1) + D.zn hi i + 2)) (seq 1 (dn - 1))
    ++ (if Nat.odd w then [D.zn x (2 * dn) + D.sr2 (D.zn hi (dn - 1) + D.zn hi (dn - 1) + 2)] else []).
Lemma fwd53_even_unf : forall x, (1 < length x)%nat -> D.fwd53_even x = lo_even x (hi_even x) ++ hi_even x.
Proof. intros x H. unfold D.fwd53_even. cbv zeta. destruct (Nat.leb_spec (length x) 1); [lia | reflexivity]. Qed.

Ltac unwrap_idx := repeat match goal with |- context [wrapS 32 ?e] => rewrite (wrapS_small e) by lia end.
Lemma idx_ok' : forall i n, 0 <= i < n -> (0 <=? i) && (i <? n) = true.
Proof. intros i n H. destruct (Z.leb_spec 0 i); [|lia]. destruct (Z.ltb_spec i n); [|lia]. reflexivity. Qed.
Ltac guards := repeat match goal with |- context [(0 <=? ?i) && (?i <? ?n)] => rewrite (idx_ok' i n) by lia end; cbn [andb].
Ltac zn_eq := unfold D.zn, D.sr1, D.sr2; rewrite ?nth_znth; repeat (f_equal; try lia).

Theorem tie_fwd53_even : forall x, Forall (fun v => - 2 ^ 28 <= v < 2 ^ 28) x -> zlen x < 2 ^ 31 ->
  jpeg2000_wavelet_Forward53_1DWithParity x true = Some (D.fwd53_even x).
Proof.
  intros x HF HL.
  pose proof (znth_bound x (2 ^ 28) ltac:(lia) HF) as Hb.
  unfold jpeg2000_wavelet_Forward53_1DWithParity. cbv beta zeta match.
  destruct (Z.leb_spec (zlen x) 1) as [W1|W1].
  { unfold D.fwd53_even. cbv zeta. destruct (Nat.leb_spec (length x) 1); [reflexivity | unfold zlen in W1; lia]. }
  assert (Esn : Z.shiftr (zlen x + 1) 1 = (zlen x + 1) / 2) by apply sr1_div.
  rewrite Esn.
  assert (Ew : zlen x = Z.of_nat (length x)) by reflexivity.
  assert (ESN : Z.of_nat (Nat.div2 (length x + 1)) = (zlen x + 1) / 2).
  { rewrite div2_Z. rewrite Nat2Z.inj_add. reflexivity. }
  assert (ERem : Z.rem (zlen x) 2 = zlen x mod 2) by (apply Z.rem_mod_nonneg; lia).
  rewrite !ERem.
  rewrite fwd53_even_unf by lia.
  remember (zlen x) as w eqn:Hw.
  pose proof (Z.div_mod (w + 1) 2 ltac:(lia)) as DM. pose proof (Z.mod_pos_bound (w + 1) 2 ltac:(lia)) as MB.
  pose proof (Z.div_mod w 2 ltac:(lia)) as DM'. pose proof (Z.mod_pos_bound w 2 ltac:(lia)) as MB'.
  rewrite (wrapS_small ((w + 1) / 2)) by lia.
  remember ((w + 1) / 2) as sn eqn:Hsn.
  rewrite (wrapS_small (w - sn)) by lia.
  remember (w - sn) as dn eqn:Hdn.
  destruct (Z.leb_spec 0 w); [|lia].
  assert (exists tmp1, jpeg2000_wavelet_Forward53_1DWithParity_loop1 (S (length x)) x true w sn dn (go_make w) 0 = Some (tmp1, sn - 1) /\
    zlen tmp1 = w /\
    forall j, znth tmp1 j 0 = if (sn + 0 <=? j) && (j <? sn + sn - 1) then P x (j - sn) else znth (go_make w) j 0) as (tmp1 & E1 & L1 & N1).
  { apply (loop1_spec x Hb w sn dn) with (m := Z.to_nat (sn - 1)); try lia. apply zlen_go_make. lia. }
  rewrite E1. cbv beta match.
  assert (Htb1 : forall j, - 2 ^ 29 <= znth tmp1 j 0 < 2 ^ 29).
  { intros j. rewrite N1. destruct ((sn + 0 <=? j) && (j <? sn + sn - 1)); [apply P_bound; exact Hb | rewrite znth_go_make; lia]. }
  remember (Z.to_nat sn) as SN eqn:HSN.
  assert (ESN' : Nat.div2 (length x + 1) = SN) by lia.
  assert (ZSN : Z.of_nat SN = sn) by lia.
  remember (length x - SN)%nat as DN eqn:HDN.
  assert (ZDN : Z.of_nat DN = dn) by lia.
  assert (Lhi : length (hi_even x) = DN).
  { unfold hi_even. cbv zeta. rewrite ESN'. rewrite app_length, map_length, seq_length, even_nat_Z, <- Ew.
    destruct (Z.eqb_spec (w mod 2) 0); cbn [length]; lia. }
  assert (Hhi1 : forall j, (j < SN - 1)%nat -> nth j (hi_even x) 0 = P x (Z.of_nat j)).
  { intros j Hj. unfold hi_even. cbv zeta. rewrite ESN'. rewrite app_nth1 by (rewrite map_length, seq_length; lia).
    rewrite nth_map_seq by lia. cbn [Nat.add]. unfold P. zn_eq. }
  assert (Llo : forall hi, length (lo_even x hi) = SN).
  { intros hi. unfold lo_even. cbv zeta. rewrite ESN', <- HDN. cbn [app length].
    rewrite app_length, map_length, seq_length, odd_nat_Z, <- Ew.
    destruct (Z.eqb_spec (w mod 2) 0); cbn [length negb]; lia. }
  destruct (Z.eqb_spec (w mod 2) 0) as [Wev|Wodd].
  - (* even width: sn = dn *)
    unwrap_idx. rewrite L1. guards.
    pose proof (Hb (2 * (sn - 1) + 1)). pose proof (Hb ((sn - 1) * 2)).
    rewrite (wrapS_small (znth x (2 * (sn - 1) + 1) 0 - znth x ((sn - 1) * 2) 0)) by lia.
    set (bv := znth x (2 * (sn - 1) + 1) 0 - znth x ((sn - 1) * 2) 0) in *.
    set (tmp2 := go_upd tmp1 (sn + (sn - 1)) bv).
    assert (L2 : zlen tmp2 = w) by (unfold tmp2; rewrite zlen_go_upd; exact L1).
    assert (N2 : forall j, znth tmp2 j 0 = if j =? sn + (sn - 1) then bv else znth tmp1 j 0).
    { intros j. unfold tmp2. apply znth_go_upd. lia. }
    assert (Htb2 : forall j, - 2 ^ 29 <= znth tmp2 j 0 < 2 ^ 29).
    { intros j. rewrite N2. destruct (j =? sn + (sn - 1)); [lia | apply Htb1]. }
    rewrite L2. guards.
    pose proof (Htb2 sn) as Hs.
    rewrite (wrapS_small (znth tmp2 sn 0 + znth tmp2 sn 0)) by lia.
    rewrite (wrapS_small (znth tmp2 sn 0 + znth tmp2 sn 0 + 2)) by lia.
    pose proof (sr2_bound4' (znth tmp2 sn 0 + znth tmp2 sn 0 + 2) (2 ^ 28) ltac:(lia) ltac:(lia)) as Hsr.
    pose proof (Hb 0).
    rewrite (wrapS_small (znth x 0 0 + Z.shiftr (znth tmp2 sn 0 + znth tmp2 sn 0 + 2) 2)) by lia.
    set (v0 := znth x 0 0 + Z.shiftr (znth tmp2 sn 0 + znth tmp2 sn 0 + 2) 2) in *.
    set (data1 := go_upd x 0 v0).
    assert (Ld1 : zlen data1 = w) by (unfold data1; rewrite zlen_go_upd; lia).
    assert (Nd1 : forall j, znth data1 j 0 = if j =? 0 then v0 else znth x j 0).
    { intros j. unfold data1. apply znth_go_upd. lia. }
    assert (exists data2, jpeg2000_wavelet_Forward53_1DWithParity_loop2 (S (length data1)) true w sn dn tmp2 data1 1 = Some (data2, dn) /\
      zlen data2 = w /\
      forall j, znth data2 j 0 = if (1 <=? j) && (j <? dn) then U x sn tmp2 j else znth data1 j 0) as (data2 & E2 & Ld2 & Nd2).
    { apply (loop2_spec x Hb w sn dn) with (m := Z.to_nat (dn - 1)); try lia; try assumption.
      - unfold data1. rewrite length_go_upd. lia.
      - intros j Hj. rewrite Nd1. destruct (Z.eqb_spec j 0); [lia | reflexivity]. }
    rewrite E2. cbv beta match.
    destruct (Z.eqb_spec (w mod 2) 1); [lia|].
    unwrap_idx. rewrite ?Ld2, ?L2.
    replace (sn + dn) with w by lia.
    destruct (Z.leb_spec 0 sn); [|lia]. destruct (Z.leb_spec sn w); [|lia]. destruct (Z.leb_spec w w); [|lia]. cbn [andb].
    f_equal. rewrite go_copy_tail' by lia. rewrite <- HSN.
    assert (Hhi : forall j, (j < DN)%nat -> nth j (hi_even x) 0 = znth tmp2 (Z.of_nat SN + Z.of_nat j) 0).
    { intros j Hj. rewrite N2, N1. rewrite znth_go_make.
      destruct (Z.eqb_spec (Z.of_nat SN + Z.of_nat j) (sn + (sn - 1))) as [Ej|Ej].
      - assert (j = SN - 1)%nat by lia. subst j.
        unfold hi_even. cbv zeta. rewrite ESN'. rewrite app_nth2 by (rewrite map_length, seq_length; lia).
        rewrite map_length, seq_length, Nat.sub_diag, even_nat_Z, <- Ew.
        destruct (Z.eqb_spec (w mod 2) 0); [|lia]. cbn [nth]. unfold bv. zn_eq.
      - destruct (Z.leb_spec (sn + 0) (Z.of_nat SN + Z.of_nat j)); [|lia].
        destruct (Z.ltb_spec (Z.of_nat SN + Z.of_nat j) (sn + sn - 1)); [|lia]. cbn [andb].
        rewrite Hhi1 by lia. f_equal. lia. }
    apply (assemble data2 tmp2 _ _ (length x) SN); try lia.
    + unfold zlen in Ld2. lia.
    + unfold zlen in L2. lia.
    + apply Llo.
    + intros j Hj. set (hi := hi_even x) in *. unfold lo_even. cbv zeta. rewrite ESN', <- HDN. cbn [app].
      destruct j as [|j']; cbn [nth].
      * rewrite Nd2, Nd1. change (Z.of_nat 0) with 0.
        destruct (Z.leb_spec 1 0); [lia|]. cbn [andb]. destruct (Z.eqb_spec 0 0); [|lia].
        unfold v0, D.zn, D.sr2. rewrite (Hhi 0%nat) by lia. rewrite nth_znth. repeat (f_equal; try lia).
      * rewrite app_nth1 by (rewrite map_length, seq_length; lia). rewrite nth_map_seq by lia.
        rewrite Nd2. destruct (Z.leb_spec 1 (Z.of_nat (S j'))); [|lia].
        destruct (Z.ltb_spec (Z.of_nat (S j')) dn); [|lia]. cbn [andb].
        unfold U, D.zn, D.sr2. rewrite !Hhi by lia. rewrite nth_znth. repeat (f_equal; try lia).
    + intros j Hj. apply Hhi. lia.
  - (* odd width: sn = dn + 1 *)
    rewrite L1. guards.
    pose proof (Htb1 sn) as Hs.
    rewrite (wrapS_small (znth tmp1 sn 0 + znth tmp1 sn 0)) by lia.
    rewrite (wrapS_small (znth tmp1 sn 0 + znth tmp1 sn 0 + 2)) by lia.
    pose proof (sr2_bound4' (znth tmp1 sn 0 + znth tmp1 sn 0 + 2) (2 ^ 28) ltac:(lia) ltac:(lia)) as Hsr.
    pose proof (Hb 0).
    rewrite (wrapS_small (znth x 0 0 + Z.shiftr (znth tmp1 sn 0 + znth tmp1 sn 0 + 2) 2)) by lia.
    set (v0 := znth x 0 0 + Z.shiftr (znth tmp1 sn 0 + znth tmp1 sn 0 + 2) 2) in *.
    set (data1 := go_upd x 0 v0).
    assert (Ld1 : zlen data1 = w) by (unfold data1; rewrite zlen_go_upd; lia).
    assert (Nd1 : forall j, znth data1 j 0 = if j =? 0 then v0 else znth x j 0).
    { intros j. unfold data1. apply znth_go_upd. lia. }
    assert (exists data2, jpeg2000_wavelet_Forward53_1DWithParity_loop3 (S (length data1)) true w sn dn tmp1 data1 1 = Some (data2, dn) /\
      zlen data2 = w /\
      forall j, znth data2 j 0 = if (1 <=? j) && (j <? dn) then U x sn tmp1 j else znth data1 j 0) as (data2 & E2 & Ld2 & Nd2).
    { apply (loop3_spec x Hb w sn dn) with (m := Z.to_nat (dn - 1)); try lia; try assumption.
      - unfold data1. rewrite length_go_upd. lia.
      - intros j Hj. rewrite Nd1. destruct (Z.eqb_spec j 0); [lia | reflexivity]. }
    rewrite E2. cbv beta match.
    destruct (Z.eqb_spec (w mod 2) 1); [|lia].
    unwrap_idx. rewrite ?Ld2, ?L1. guards.
    assert (Ex : znth data2 (2 * dn) 0 = znth x (2 * dn) 0).
    { rewrite Nd2, Nd1. destruct (Z.ltb_spec (2 * dn) dn); [lia|]. rewrite andb_false_r.
      destruct (Z.eqb_spec (2 * dn) 0); [lia | reflexivity]. }
    rewrite Ex.
    pose proof (Htb1 (sn + (dn - 1))) as Hs'. pose proof (Hb (2 * dn)).
    rewrite (wrapS_small (znth tmp1 (sn + (dn - 1)) 0 + znth tmp1 (sn + (dn - 1)) 0)) by lia.
    rewrite (wrapS_small (znth tmp1 (sn + (dn - 1)) 0 + znth tmp1 (sn + (dn - 1)) 0 + 2)) by lia.
    pose proof (sr2_bound4' (znth tmp1 (sn + (dn - 1)) 0 + znth tmp1 (sn + (dn - 1)) 0 + 2) (2 ^ 28) ltac:(lia) ltac:(lia)) as Hsr'.
    rewrite (wrapS_small (znth x (2 * dn) 0 + Z.shiftr (znth tmp1 (sn + (dn - 1)) 0 + znth tmp1 (sn + (dn - 1)) 0 + 2) 2)) by lia.
    set (vl := znth x (2 * dn) 0 + Z.shiftr (znth tmp1 (sn + (dn - 1)) 0 + znth tmp1 (sn + (dn - 1)) 0 + 2) 2) in *.
    set (data3 := go_upd data2 dn vl).
    assert (Ld3 : zlen data3 = w) by (unfold data3; rewrite zlen_go_upd; lia).
    assert (Nd3 : forall j, znth data3 j 0 = if j =? dn then vl else znth data2 j 0).
    { intros j. unfold data3. apply znth_go_upd. lia. }
    rewrite Ld3. replace (sn + dn) with w by lia.
    destruct (Z.leb_spec 0 sn); [|lia]. destruct (Z.leb_spec sn w); [|lia]. destruct (Z.leb_spec w w); [|lia]. cbn [andb].
    f_equal. rewrite go_copy_tail' by lia. rewrite <- HSN.
    assert (Hhi : forall j, (j < DN)%nat -> nth j (hi_even x) 0 = znth tmp1 (Z.of_nat SN + Z.of_nat j) 0).
    { intros j Hj. rewrite N1.
      destruct (Z.leb_spec (sn + 0) (Z.of_nat SN + Z.of_nat j)); [|lia].
      destruct (Z.ltb_spec (Z.of_nat SN + Z.of_nat j) (sn + sn - 1)); [|lia]. cbn [andb].
      rewrite Hhi1 by lia. f_equal. lia. }
    apply (assemble data3 tmp1 _ _ (length x) SN); try lia.
    + unfold zlen in Ld3. lia.
    + unfold zlen in L1. lia.
    + apply Llo.
    + intros j Hj. set (hi := hi_even x) in *. unfold lo_even. cbv zeta. rewrite ESN', <- HDN. cbn [app].
      destruct j as [|j']; cbn [nth].
      * rewrite Nd3, Nd2, Nd1. change (Z.of_nat 0) with 0.
        destruct (Z.eqb_spec 0 dn); [lia|].
        destruct (Z.leb_spec 1 0); [lia|]. cbn [andb]. destruct (Z.eqb_spec 0 0); [|lia].
        unfold v0, D.zn, D.sr2. rewrite (Hhi 0%nat) by lia. rewrite nth_znth. repeat (f_equal; try lia).
      * destruct (Nat.lt_ge_cases (S j') DN) as [Lj|Lj].
        -- rewrite app_nth1 by (rewrite map_length, seq_length; lia). rewrite nth_map_seq by lia.
           rewrite Nd3, Nd2. destruct (Z.eqb_spec (Z.of_nat (S j')) dn); [lia|].
           destruct (Z.leb_spec 1 (Z.of_nat (S j'))); [|lia].
           destruct (Z.ltb_spec (Z.of_nat (S j')) dn); [|lia]. cbn [andb].
           unfold U, D.zn, D.sr2. rewrite !Hhi by lia. rewrite nth_znth. repeat (f_equal; try lia).
        -- assert (S j' = DN) by lia.
           rewrite app_nth2 by (rewrite map_length, seq_length; lia). rewrite map_length, seq_length.
           replace (j' - (DN - 1))%nat with 0%nat by lia.
           rewrite odd_nat_Z, <- Ew. destruct (Z.eqb_spec (w mod 2) 0); [lia|]. cbn [negb nth].
           rewrite Nd3. destruct (Z.eqb_spec (Z.of_nat (S j')) dn); [|lia].
           unfold vl, D.zn, D.sr2. rewrite !Hhi by lia. rewrite nth_znth. repeat (f_equal; try lia).
    + intros j Hj. apply Hhi. lia.
Qed.

Print Assumptions tie_fwd53_even.
