(* C20, tie by translation of the 5/3 lifting: the general statement Tie.TieDwtSmall.dwt_tie_statement, proved for
   every list shorter than 2^31 (all four branches: forward/inverse, even/odd parity).

   Exactly one hypothesis is added to dwt_tie_statement: zlen x < 2^31.  It is needed because the translated code
   computes indices (2*i+1, sn+i, sn+dn, width-3, ...) in int32 (wrapS 32); they are exact only below 2^31.  Without a
   length bound the statement is not expected to hold (for length >= 2^31 the index arithmetic of the translation
   wraps), so dwt_tie_statement itself stays open/unprovable as written; what is missing is only that bound. *)
From V Require Import Common.Base Tie.GoSem Gen.KernelsSlices_gen Tie.TieDwtSmall.
Require V.DWT.DwtModel.
From V Require Import Tie.DwtTieLib Tie.DwtTieFwdEven Tie.DwtTieFwdOdd Tie.DwtTieInvEven Tie.DwtTieInvOdd.

Definition dwt_tie_bounded_statement : Prop :=
  forall even x, Forall (fun v => - 2 ^ 28 <= v < 2 ^ 28) x -> V.DWT.DwtModel.dwt1d_panics even x = false ->
    zlen x < 2 ^ 31 ->
    jpeg2000_wavelet_Forward53_1DWithParity x even = Some (V.DWT.DwtModel.fwd53 even x) /\
    jpeg2000_wavelet_Inverse53_1DWithParity x even = Some (V.DWT.DwtModel.inv53 even x).

Theorem tie_dwt53_partial : dwt_tie_bounded_statement.
Proof.
  intros even x HF Hp HL. destruct even; cbn [V.DWT.DwtModel.fwd53 V.DWT.DwtModel.inv53].
  - split; [apply tie_fwd53_even | apply tie_inv53_even]; assumption.
  - assert (Hne : x <> []).
    { intros ->. cbv in Hp. discriminate. }
    split; [apply tie_fwd53_odd | apply tie_inv53_odd]; assumption.
Qed.

(* the only panic of the Go code (even = false on the empty signal) is None in the translation *)
Theorem tie_dwt53_panics : forall even x, V.DWT.DwtModel.dwt1d_panics even x = true ->
  jpeg2000_wavelet_Forward53_1DWithParity x even = None /\ jpeg2000_wavelet_Inverse53_1DWithParity x even = None.
Proof.
  intros even x H. unfold V.DWT.DwtModel.dwt1d_panics in H. apply andb_prop in H. destruct H as [He Hl].
  destruct even; [discriminate|]. destruct x; [|discriminate]. split; vm_compute; reflexivity.
Qed.

(* dwt_tie_statement is exactly the bounded statement without the length hypothesis *)
Theorem dwt_tie_statement_implies_bounded : dwt_tie_statement -> dwt_tie_bounded_statement.
Proof. intros H even x HF Hp _. apply H; assumption. Qed.

(* hypotheses satisfiable on a non-trivial instance *)
Example tie_dwt53_instance :
  jpeg2000_wavelet_Forward53_1DWithParity [5; -3; 268435455; -268435456; 7; 0; 1] false
    = Some (V.DWT.DwtModel.fwd53 false [5; -3; 268435455; -268435456; 7; 0; 1]).
Proof.
  apply tie_dwt53_partial.
  - repeat constructor; lia.
  - reflexivity.
  - unfold zlen. cbn [length]. lia.
Qed.

Print Assumptions tie_dwt53_partial.
Print Assumptions tie_dwt53_panics.
Print Assumptions tie_dwt53_instance.
