(* The independent T.81 Annex H model (JllT81) against the code-as-is model (JllModel):
   Annex C code generation = BuildHuffmanCodes, the code word of a difference, the marker
   segments, and plane-wise prediction = the scan-order traversal of the Go code. *)
From V Require Import Common.Base JpegLL.JllBits JpegLL.JllHuff JpegLL.JllModel JpegLL.JllT81
  JpegLL.JllProofsBits JpegLL.JllProofsHuff JpegLL.JllProofs JpegLL.JllProofsRT.

(* ---------- Annex C tables = canonical codes ---------- *)
Lemma map_const_seqZ : forall {A} (c : A) n s, map (fun _ : Z => c) (seqZ s n) = repeat c n.
Proof. induction n; intros; simpl; [reflexivity | rewrite IHn; reflexivity]. Qed.
Lemma map_add_seqZ : forall n c s, map (fun i => c + i) (seqZ s n) = seqZ (c + s) n.
Proof.
  induction n; intros; cbn [seqZ map]; [reflexivity|]. f_equal. rewrite IHn. f_equal. lia.
Qed.

Lemma huffsize_canon0 : forall bits len code,
  t81_huffsize bits len = map snd (canon0 bits len code).
Proof.
  induction bits as [|b bs IH]; intros len code; [reflexivity|].
  cbn [t81_huffsize canon0]. rewrite map_app, map_map. cbn [snd].
  rewrite map_const_seqZ. f_equal. apply IH.
Qed.

Lemma huffcode_block : forall n code si len rest,
  t81_huffcode (repeat len (S n) ++ rest) code si =
  seqZ (code * 2 ^ (len - si)) (S n)
  ++ t81_huffcode rest (code * 2 ^ (len - si) + Z.of_nat (S n)) len.
Proof.
  induction n; intros code si len rest.
  - cbn [repeat app t81_huffcode seqZ]. reflexivity.
  - change (repeat len (S (S n))) with (len :: repeat len (S n)).
    cbn [app t81_huffcode]. rewrite IHn. rewrite Z.sub_diag, Z.mul_1_r.
    set (F := code * 2 ^ (len - si)).
    change (seqZ F (S (S n))) with (F :: seqZ (F + 1) (S n)). cbn [app]. f_equal. f_equal.
    f_equal. lia.
Qed.

Lemma huffcode_canon0 : forall bits len code si, (si <= len \/ code = 0) ->
  Forall (fun b => 0 <= b) bits ->
  t81_huffcode (t81_huffsize bits len) code si = map fst (canon0 bits len (code * 2 ^ (len - si))).
Proof.
  induction bits as [|b bs IH]; intros len code si Hs Hf; [reflexivity|].
  inversion Hf as [|? ? Hb Hf']; subst.
  cbn [t81_huffsize canon0]. rewrite map_app, map_map. cbn [fst]. rewrite map_add_seqZ, Z.add_0_r.
  set (F := code * 2 ^ (len - si)).
  destruct (Z.to_nat b) as [|n] eqn:En.
  - assert (b = 0) by lia. subst b.
    cbn [repeat app seqZ]. rewrite IH by first [assumption | destruct Hs; [left; lia | right; assumption]].
    f_equal. f_equal. unfold F. destruct Hs as [Hs|Hs].
    + replace (len + 1 - si) with (1 + (len - si)) by lia. rewrite Z.pow_add_r by lia.
      change (2 ^ 1) with 2. ring.
    + subst code. ring.
  - rewrite huffcode_block. fold F. f_equal.
    rewrite IH by first [assumption | left; lia].
    replace (len + 1 - len) with 1 by lia. change (2 ^ 1) with 2. f_equal. f_equal. lia.
Qed.

Lemma t81_entries_canon0 : forall bits vals, Forall (fun b => 0 <= b) bits ->
  t81_entries bits vals =
  combine (combine (map snd (canon0 bits 1 0)) (map fst (canon0 bits 1 0))) vals.
Proof.
  intros bits vals Hf. unfold t81_entries.
  rewrite (huffcode_canon0 bits 1 0 _ (or_intror eq_refl) Hf). rewrite Z.mul_0_l.
  rewrite (huffsize_canon0 bits 1 0). reflexivity.
Qed.

Lemma find_val_nth : forall vals S C p, NoDup vals -> (p < length vals)%nat ->
  (p < length S)%nat -> (p < length C)%nat ->
  t81_find_val (combine (combine S C) vals) (nth p vals 0) = Some (nth p S 0, nth p C 0).
Proof.
  induction vals as [|v vals IH]; intros S C p Hnd Hp HS HC; [simpl in Hp; lia|].
  destruct S as [|s S]; [simpl in HS; lia|]. destruct C as [|c C]; [simpl in HC; lia|].
  inversion Hnd; subst. cbn [combine t81_find_val]. destruct p.
  - cbn [nth]. rewrite Z.eqb_refl. reflexivity.
  - cbn [nth]. destruct (Z.eqb_spec v (nth p vals 0)) as [E|E].
    + exfalso. apply H1. rewrite E. apply nth_In. simpl in Hp. lia.
    + apply IH; simpl in *; try assumption; lia.
Qed.

Lemma nth_map_lt : forall {A B} (f : A -> B) l p d d', (p < length l)%nat ->
  nth p (map f l) d = f (nth p l d').
Proof.
  induction l; intros p d d' H; [simpl in H; lia|]. destruct p; [reflexivity|].
  cbn [map nth]. apply IHl. simpl in H. lia.
Qed.

(* the Annex C code of a symbol is the BuildHuffmanCodes code *)
Lemma find_val_code_of : forall bits vals s, table_facts bits vals -> In s vals ->
  t81_find_val (t81_entries bits vals) s =
  Some (snd (code_of bits vals s), fst (code_of bits vals s)).
Proof.
  intros bits vals s F Hs. destruct (In_nth _ _ 0 Hs) as (p & Hp & Ep). subst s.
  rewrite build_codes_canon0 by assumption.
  pose proof F as [Fl Fb Fs Fv Fn Ff].
  assert (Hb0 : Forall (fun b => 0 <= b) bits) by (eapply Forall_impl; [|exact Fb]; cbn; intros; lia).
  rewrite t81_entries_canon0 by assumption.
  assert (Hlen : length (canon0 bits 1 0) = length vals).
  { pose proof (canon0_length bits 1 0 Hb0) as H. unfold zlen in *. lia. }
  rewrite find_val_nth; try assumption; try (rewrite map_length; lia).
  rewrite (nth_map_lt snd _ _ 0 (0, 0)), (nth_map_lt fst _ _ 0 (0, 0)) by lia. reflexivity.
Qed.

(* ---------- the code word of a difference ---------- *)
Definition word_check (d : Z) : bool :=
  let '(cat, mag) := encode_lossless_diff d in
  (t81_ssss d =? cat)
  && (if (0 <? cat) && negb (cat =? 16)
      then mag mod 2 ^ cat =? (if 0 <=? d then d else d - 1) mod 2 ^ cat else true).
Lemma word_all : forallb word_check (seqZ (-32768) (Z.to_nat 65536)) = true.
Proof. vm_compute. reflexivity. Qed.

Lemma t81_word_eq : forall bits vals d, table_facts bits vals -> -32768 <= d <= 32767 ->
  In (diff_category d) vals ->
  t81_word (t81_entries bits vals) d = Some (word bits vals d).
Proof.
  intros bits vals d F Hd Hin.
  assert (Hin' : In d (seqZ (-32768) (Z.to_nat 65536))) by (apply In_seqZ; lia).
  pose proof (proj1 (forallb_forall _ _) word_all d Hin') as Hw. unfold word_check in Hw.
  pose proof (cat_exhaustive d Hd) as Hc.
  unfold t81_word, word. destruct (encode_lossless_diff d) as [cat mag]. cbn [fst snd].
  destruct Hc as (Hc1 & _ & Hc3). apply andb_true_iff in Hw. destruct Hw as [Hw1 Hw2].
  apply Z.eqb_eq in Hw1. rewrite Hw1. clear Hw1. rewrite <- Hc3 in Hin.
  rewrite (find_val_code_of bits vals cat F Hin). f_equal. f_equal.
  unfold mag_bits.
  destruct (Z.eqb_spec cat 0) as [E0|E0].
  - rewrite E0. reflexivity.
  - destruct (Z.eqb_spec cat 16) as [E16|E16].
    + rewrite E16. reflexivity.
    + destruct (Z.ltb_spec 0 cat); [|lia]. cbn [orb andb negb] in *.
      apply Z.eqb_eq in Hw2.
      rewrite <- (bits_of_mod (Z.to_nat cat) mag), <- (bits_of_mod (Z.to_nat cat) (if 0 <=? d then d else d - 1)).
      rewrite Z2Nat.id by lia. rewrite Hw2. reflexivity.
Qed.

Lemma t81_words_eq : forall bits vals tds ds, table_facts bits vals ->
  Forall (fun kd => nth (fst kd) tds (-1) = 0 /\ -32768 <= snd kd <= 32767 /\
                    In (diff_category (snd kd)) vals) ds ->
  t81_words [(0, t81_entries bits vals)] tds ds = Some (map (fun kd => word bits vals (snd kd)) ds).
Proof.
  intros bits vals tds ds F. induction ds as [|[k d] ds IH]; intros H; [reflexivity|].
  inversion H as [|? ? (H1 & H2 & H3) H']; subst. cbn [fst snd] in *.
  cbn [t81_words map]. rewrite H1. cbn [t81_assoc]. change (0 =? 0) with true. cbv iota.
  rewrite (t81_word_eq bits vals d F H2 H3). rewrite (IH H'). reflexivity.
Qed.

(* ---------- marker segments ---------- *)
Lemma t81_be16_be16 : forall v, 0 <= v < 65536 -> t81_be16 v = be16 v.
Proof.
  intros v Hv. unfold t81_be16, be16. rewrite !byte_of_mod.
  rewrite Z.shiftr_div_pow2 by lia. change (2 ^ 8) with 256.
  rewrite (Z.mod_small (v / 256)); [reflexivity|].
  split; [apply Z.div_pos; lia | apply Z.div_lt_upper_bound; lia].
Qed.

Lemma t81_seg_segment : forall code payload, 0 <= code < 256 -> zlen payload + 2 < 65536 ->
  t81_seg code payload = segment (65280 + code) payload.
Proof.
  intros code payload Hc Hl. unfold t81_seg, segment. unfold zlen in *.
  rewrite t81_be16_be16 by lia. rewrite wrapU_small by (change (2 ^ 16) with 65536; lia).
  f_equal. unfold be16. rewrite !byte_of_mod. rewrite Z.shiftr_div_pow2 by lia. change (2 ^ 8) with 256.
  replace ((65280 + code) / 256) with 255 by (apply Z.div_unique with (r := code); lia).
  replace ((65280 + code) mod 256) with code by (apply Z.mod_unique with (q := 255); lia).
  reflexivity.
Qed.

Lemma t81_sof3_eq : forall w h comps P, 1 <= w <= 65535 -> 1 <= h <= 65535 -> comps = 1 \/ comps = 3 ->
  2 <= P <= 16 -> t81_sof3 w h P (Z.to_nat comps) = segment M_SOF3 (sof3_data w h comps P).
Proof.
  intros w h comps P Hw Hh Hc HP. unfold t81_sof3.
  assert (E : [P] ++ t81_be16 h ++ t81_be16 w ++ [Z.of_nat (Z.to_nat comps)] ++
              flat_map (fun i : nat => [Z.of_nat i + 1; 17; 0]) (seq 0 (Z.to_nat comps))
              = sof3_data w h comps P).
  { unfold sof3_data. rewrite !t81_be16_be16 by lia. unfold be16.
    rewrite (byte_of_small P) by lia. rewrite (byte_of_small comps) by lia.
    destruct Hc; subst comps; reflexivity. }
  rewrite E. rewrite t81_seg_segment; [reflexivity | lia |].
  rewrite sof3_len by assumption. lia.
Qed.

Lemma t81_sos_eq : forall comps pred, comps = 1 \/ comps = 3 -> 1 <= pred <= 7 ->
  t81_sos pred (repeat 0 (Z.to_nat comps)) = segment M_SOS (sos_data comps pred).
Proof.
  intros comps pred Hc Hp. unfold t81_sos.
  assert (E : [Z.of_nat (length (repeat 0 (Z.to_nat comps)))] ++
              concat (map (fun it : nat * Z => [Z.of_nat (fst it) + 1; 16 * snd it])
                        (combine (seq 0 (length (repeat 0 (Z.to_nat comps)))) (repeat 0 (Z.to_nat comps)))) ++
              [pred; 0; 0] = sos_data comps pred).
  { unfold sos_data. rewrite (byte_of_small pred) by lia. destruct Hc; subst comps; reflexivity. }
  rewrite E. rewrite t81_seg_segment; [reflexivity | lia |].
  rewrite sos_len by assumption. lia.
Qed.

Lemma t81_dht_eq : forall bits vals, table_facts bits vals ->
  t81_dht 0 bits vals = segment M_DHT (dht_data 0 bits vals).
Proof.
  intros bits vals F. unfold t81_dht. rewrite dht_data_ok by assumption. cbn [app].
  rewrite t81_seg_segment; [reflexivity | lia |]. apply dht_len. assumption.
Qed.

(* ---------- plane-wise prediction = scan-order traversal ---------- *)
Lemma t81_chunks_eq : forall fuel k l, t81_chunks fuel k l = chunk_f fuel k l.
Proof. induction fuel; intros; cbn [t81_chunks chunk_f]; [reflexivity|]. destruct l; [reflexivity|]. rewrite IHfuel. reflexivity. Qed.

Lemma firstn_map' : forall {A B} (g : A -> B) k l, firstn k (map g l) = map g (firstn k l).
Proof. induction k; intros l; [reflexivity|]. destruct l; [reflexivity|]. cbn [map firstn]. rewrite IHk. reflexivity. Qed.
Lemma skipn_map' : forall {A B} (g : A -> B) k l, skipn k (map g l) = map g (skipn k l).
Proof. induction k; intros l; [reflexivity|]. destruct l; [reflexivity|]. cbn [map skipn]. apply IHk. Qed.
Lemma chunk_f_map : forall {A B} (g : A -> B) fuel k l,
  chunk_f fuel k (map g l) = map (map g) (chunk_f fuel k l).
Proof.
  induction fuel; intros k l; [reflexivity|]. cbn [chunk_f]. destruct l as [|x l]; [reflexivity|].
  cbn [map]. change (g x :: map g l) with (map g (x :: l)).
  rewrite firstn_map', skipn_map', IHfuel. reflexivity.
Qed.

Definition comp (k : nat) (px : list Z) : Z := nth k px 0.
Definition plane_of (k : nat) (rows : list (list (list Z))) : list (list Z) := map (map (comp k)) rows.

Lemma t81_plane_eq : forall c w s k,
  t81_plane c w s k = plane_of k (chunk w (chunk c s)).
Proof.
  intros. unfold t81_plane, plane_of, chunk. rewrite !t81_chunks_eq. rewrite map_length.
  fold (comp k). rewrite chunk_f_map. reflexivity.
Qed.

Section Planes.
  Variables pred P : Z.
  Hypothesis Hpred : 1 <= pred <= 7.
  Let dflt := 2 ^ (P - 1).
  Let f := fdiff (ll_pred pred dflt).

  (* pixel-level differences: one list of component differences per pixel *)
  Fixpoint Drow (r c0 : bool) (left aleft : list Z) (prev cur : list (list Z)) : list (list Z) :=
    match cur, prev with
    | px :: cur', ab :: prev' => map4 f r c0 left ab aleft px :: Drow r false px ab prev' cur'
    | _, _ => []
    end.
  Fixpoint Drows (r : bool) (dpx : list Z) (prev : list (list Z)) (rows : list (list (list Z)))
    : list (list Z) :=
    match rows with
    | [] => []
    | row :: rs => Drow r true dpx dpx prev row ++ Drows false dpx row rs
    end.

  Lemma row_map_Drow : forall cur r c0 left aleft prev,
    row_map f r c0 left aleft prev cur = concat (Drow r c0 left aleft prev cur).
  Proof.
    induction cur as [|px cur IH]; intros r c0 left aleft prev; [destruct prev; reflexivity|].
    destruct prev as [|ab prev]; [reflexivity|]. cbn [row_map Drow concat]. rewrite IH. reflexivity.
  Qed.
  Lemma rows_map_Drows : forall rows r dpx prev,
    rows_map f r dpx prev rows = concat (Drows r dpx prev rows).
  Proof.
    induction rows as [|row rs IH]; intros r dpx prev; [reflexivity|].
    cbn [rows_map Drows]. rewrite concat_app, row_map_Drow, IH. reflexivity.
  Qed.

  (* scalar (one plane) versions *)
  Fixpoint srow (r c0 : bool) (l al : Z) (prev cur : list Z) : list Z :=
    match cur, prev with
    | x :: cur', a :: prev' => f r c0 l a al x :: srow r false x a prev' cur'
    | _, _ => []
    end.
  Fixpoint srows (r : bool) (prev : list Z) (lines : list (list Z)) : list Z :=
    match lines with
    | [] => []
    | ln :: rest => srow r true 0 0 prev ln ++ srows false ln rest
    end.

  Lemma nth_map4 : forall k r c0 l a al x n, length l = n -> length a = n -> length al = n -> length x = n ->
    (k < n)%nat ->
    nth k (map4 f r c0 l a al x) 0 = f r c0 (nth k l 0) (nth k a 0) (nth k al 0) (nth k x 0).
  Proof.
    induction k; intros r c0 l a al x n Hl Ha Hal Hx Hk;
      destruct l, a, al, x; cbn [length] in *; try lia; cbn [map4 nth]; [reflexivity|].
    apply IHk with (n := (n - 1)%nat); lia.
  Qed.
  Lemma map4_length : forall r c0 l a al x n, length l = n -> length a = n -> length al = n -> length x = n ->
    length (map4 f r c0 l a al x) = n.
  Proof.
    intros r c0 l. induction l; intros a' al x n Hl Ha Hal Hx; destruct a', al, x; cbn [length] in *; try lia;
      cbn [map4 length]; [assumption|]. rewrite (IHl _ _ _ (n - 1)%nat) by lia. lia.
  Qed.

  Variable c : nat.
  Definition pxok (px : list Z) : Prop := length px = c.

  Lemma Drow_comp : forall k cur r c0 left aleft prev, (k < c)%nat ->
    Forall pxok cur -> Forall pxok prev -> pxok left -> pxok aleft ->
    map (comp k) (Drow r c0 left aleft prev cur) =
    srow r c0 (comp k left) (comp k aleft) (map (comp k) prev) (map (comp k) cur).
  Proof.
    intros k. induction cur as [|px cur IH]; intros r c0 left aleft prev Hk Hc Hp Hl Hal; [destruct prev; reflexivity|].
    destruct prev as [|ab prev]; [reflexivity|]. inversion Hc; inversion Hp; subst.
    cbn [Drow map srow]. f_equal.
    - unfold comp. apply nth_map4 with (n := c); assumption.
    - apply IH; assumption.
  Qed.
  Lemma Drow_pxok : forall cur r c0 left aleft prev,
    Forall pxok cur -> Forall pxok prev -> pxok left -> pxok aleft ->
    Forall pxok (Drow r c0 left aleft prev cur).
  Proof.
    induction cur as [|px cur IH]; intros r c0 left aleft prev Hc Hp Hl Hal; [destruct prev; constructor|].
    destruct prev as [|ab prev]; [constructor|]. inversion Hc; inversion Hp; subst.
    cbn [Drow]. constructor.
    - apply map4_length; assumption.
    - apply IH; assumption.
  Qed.

  Lemma Drows_comp : forall k rows r prev, (k < c)%nat ->
    Forall (Forall pxok) rows -> Forall pxok prev ->
    map (comp k) (Drows r (repeat 0 c) prev rows) = srows r (map (comp k) prev) (plane_of k rows).
  Proof.
    intros k. induction rows as [|row rs IH]; intros r prev Hk Hr Hp; [reflexivity|].
    inversion Hr; subst. cbn [Drows plane_of map srows]. rewrite map_app.
    assert (Hd : pxok (repeat 0 c)) by apply repeat_length.
    rewrite Drow_comp by assumption.
    assert (E0 : comp k (repeat 0 c) = 0).
    { unfold comp. apply nth_repeat. }
    rewrite E0. f_equal. apply IH; assumption.
  Qed.
  Lemma Drows_pxok : forall rows r prev, Forall (Forall pxok) rows -> Forall pxok prev ->
    Forall pxok (Drows r (repeat 0 c) prev rows).
  Proof.
    induction rows as [|row rs IH]; intros r prev Hr Hp; [constructor|].
    inversion Hr; subst. cbn [Drows]. apply Forall_app. split.
    - apply Drow_pxok; try assumption; apply repeat_length.
    - apply IH; assumption.
  Qed.
End Planes.

Lemma t81_diff_narrow : forall x px, t81_diff x px = narrow_diff x px.
Proof.
  intros. unfold t81_diff, narrow_diff, narrow16. change 65535 with (Z.ones 16).
  rewrite Z.land_ones by lia. reflexivity.
Qed.
Lemma t81_predictor_eq : forall sel ra rb rc, 1 <= sel <= 7 ->
  t81_predictor sel ra rb rc = predictor sel ra rb rc.
Proof.
  intros sel ra rb rc H.
  assert (C : sel = 1 \/ sel = 2 \/ sel = 3 \/ sel = 4 \/ sel = 5 \/ sel = 6 \/ sel = 7) by lia.
  destruct C as [C|[C|[C|[C|[C|[C|C]]]]]]; subst sel; unfold t81_predictor, predictor; cbn [Z.eqb Pos.eqb];
    try reflexivity; rewrite Z.shiftr_div_pow2 by lia; reflexivity.
Qed.

Section Lines.
  Variables pred P : Z.
  Hypothesis Hpred : 1 <= pred <= 7.
  Let dflt := 2 ^ (P - 1).

  Lemma removelast_cons2 : forall (x y : Z) l, removelast (x :: y :: l) = x :: removelast (y :: l).
  Proof. reflexivity. Qed.

  Lemma srow_first : forall ln prev c0 l al, length prev = length ln ->
    srow pred P true c0 l al prev ln =
    t81_map2 t81_diff ln ((if c0 then dflt else l) :: removelast ln).
  Proof.
    induction ln as [|x ln IH]; intros prev c0 l al Hl.
    - destruct prev; reflexivity.
    - destruct prev as [|a prev]; [discriminate|]. cbn [srow t81_map2]. f_equal.
      + unfold fdiff, ll_pred, edge_aware. rewrite t81_diff_narrow. destruct c0; reflexivity.
      + rewrite (IH prev false x a) by (simpl in Hl; lia).
        destruct ln as [|y ln]; [reflexivity|]. rewrite removelast_cons2. reflexivity.
  Qed.

  Lemma srow_inner : forall ln ab l al, length ab = length ln ->
    srow pred P false false l al ab ln =
    t81_map2 t81_diff ln (t81_map3 (t81_predictor pred) (l :: removelast ln) ab (al :: removelast ab)).
  Proof.
    induction ln as [|x ln IH]; intros ab l al Hl.
    - destruct ab; reflexivity.
    - destruct ab as [|a ab]; [discriminate|]. cbn [srow t81_map3 t81_map2]. f_equal.
      + unfold fdiff, ll_pred, edge_aware. cbn [andb orb]. rewrite t81_diff_narrow, t81_predictor_eq by assumption.
        reflexivity.
      + rewrite (IH ab x a) by (simpl in Hl; lia).
        destruct ln as [|y ln]; [reflexivity|]. destruct ab as [|b ab]; [discriminate|].
        rewrite !removelast_cons2. reflexivity.
  Qed.

  Lemma srow_line : forall ln ab, length ab = length ln ->
    srow pred P false true 0 0 ab ln = t81_map2 t81_diff ln (t81_line_pred pred P (Some ab) ln).
  Proof.
    intros ln ab Hl. destruct ln as [|x ln]; [destruct ab; reflexivity|].
    destruct ab as [|a ab]; [discriminate|]. cbn [srow t81_line_pred hd tl t81_map2]. f_equal.
    - unfold fdiff, ll_pred, edge_aware. cbn [andb orb]. rewrite t81_diff_narrow. reflexivity.
    - rewrite srow_inner by (simpl in Hl; lia).
      destruct ln as [|y ln]; [reflexivity|]. destruct ab as [|b ab]; [discriminate|].
      rewrite !removelast_cons2. reflexivity.
  Qed.

  Lemma srows_plane : forall lines prev w, length prev = w -> Forall (fun ln => length ln = w) lines ->
    (srows pred P true prev lines = concat (t81_plane_diffs pred P None lines)) /\
    (srows pred P false prev lines = concat (t81_plane_diffs pred P (Some prev) lines)).
  Proof.
    induction lines as [|ln rest IH]; intros prev w Hp Hl; [split; reflexivity|].
    inversion Hl; subst. cbn [srows t81_plane_diffs concat].
    destruct (IH ln (length prev) ltac:(assumption) ltac:(assumption)) as [_ IH2].
    split; rewrite IH2; f_equal.
    - rewrite srow_first by (symmetry; assumption). reflexivity.
    - apply srow_line. symmetry. assumption.
  Qed.
End Lines.

(* ---------- back to scan order ---------- *)
Lemma map_nth_seq : forall (v : list Z) c, length v = c -> map (fun k => nth k v 0) (seq 0 c) = v.
Proof.
  intros v c H. subst c. apply nth_ext with (d := 0) (d' := 0).
  - rewrite map_length, seq_length. reflexivity.
  - intros n Hn. rewrite map_length, seq_length in Hn.
    rewrite (nth_map_lt (fun k => nth k v 0) (seq 0 (length v)) n 0 0%nat) by (rewrite seq_length; assumption).
    rewrite seq_nth by assumption. reflexivity.
Qed.

Lemma interleave_transpose : forall D c, (0 < c)%nat -> Forall (fun v => length v = c) D ->
  t81_interleave (length D) (map (fun k => map (comp k) D) (seq 0 c)) =
  concat (map (fun v => combine (seq 0 c) v) D).
Proof.
  induction D as [|v D IH]; intros c Hc Hf.
  - reflexivity.
  - inversion Hf; subst. cbn [length t81_interleave map concat].
    assert (Hne : forallb (fun l : list Z => match l with [] => true | _ => false end)
                    (map (fun k => comp k v :: map (comp k) D) (seq 0 (length v))) = false).
    { destruct (length v) as [|n] eqn:E; [lia|]. reflexivity. }
    rewrite Hne. rewrite !map_map. cbn [hd tl]. rewrite map_length, seq_length.
    unfold comp at 1. rewrite map_nth_seq by reflexivity. f_equal. apply IH; assumption.
Qed.

Lemma Drows_length : forall pred P rows r dpx prev w, length prev = w ->
  Forall (fun row => length row = w) rows ->
  length (Drows pred P r dpx prev rows) = (length rows * w)%nat.
Proof.
  intros pred P. 
  assert (Hrow : forall cur r c0 left aleft prev, length prev = length cur ->
            length (Drow pred P r c0 left aleft prev cur) = length cur).
  { induction cur as [|px cur IH]; intros r c0 left aleft prev Hl; [destruct prev; reflexivity|].
    destruct prev as [|ab prev]; [discriminate|]. cbn [Drow length]. rewrite IH; [reflexivity | simpl in Hl; lia]. }
  induction rows as [|row rs IH]; intros r dpx prev w Hp Hf; [reflexivity|].
  inversion Hf; subst. cbn [Drows length]. rewrite app_length, Hrow by lia.
  rewrite (IH false dpx row (length prev)) by (assumption || lia). lia.
Qed.

Lemma le_pairs_le16 : forall l, Forall (fun b => 0 <= b < 256) l -> t81_le_pairs l = le16 l.
Proof.
  intros l. remember (length l) as n eqn:Hn. revert l Hn.
  induction n as [n IH] using lt_wf_ind. intros l Hn F.
  destruct l as [|lo [|hi l]]; try reflexivity.
  inversion F as [|? ? Hlo F']; subst. inversion F' as [|? ? Hhi F'']; subst.
  cbn [t81_le_pairs le16]. f_equal.
  - (* lo + 256 * hi = lo lor (hi << 8) *)
    destruct (le16_val lo hi Hlo Hhi) as (E1 & E2 & E3). cbv zeta in *.
    set (v := Z.lor lo (Z.shiftl hi 8)) in *.
    destruct (be16_val v E3) as (_ & E4 & _). rewrite E1, E2 in E4. lia.
  - apply (IH (length l)); [simpl; lia | reflexivity | assumption].
Qed.

(* the T.81 encoder's tagged differences: the scan-order differences of the Go encoder *)
Lemma scan_diffs_eq : forall w h comps P pred pixels,
  wf_image w h comps P pixels -> 1 <= pred <= 7 ->
  t81_scan_diffs w h comps P pred pixels =
  concat (map (fun v => combine (seq 0 (Z.to_nat comps)) v)
              (Drows pred P true (repeat 0 (Z.to_nat comps))
                     (repeat (repeat 0 (Z.to_nat comps)) (Z.to_nat w))
                     (pixels_to_rows w h comps P pixels))).
Proof.
  intros w h comps P pred pixels Hwf Hpred.
  destruct (rows_facts w h comps P pixels Hwf) as (Hlen & Hrows & _).
  pose proof Hwf as (Hw & Hh & Hc & HP & Hl & Hb & Hs).
  set (c := Z.to_nat comps). set (rows := pixels_to_rows w h comps P pixels) in *.
  set (dpx := repeat 0 c). set (prev0 := repeat dpx (Z.to_nat w)).
  set (D := Drows pred P true dpx prev0 rows).
  assert (Hc0 : (0 < c)%nat) by (unfold c; lia).
  assert (Hpx : Forall (Forall (pxok c)) rows).
  { apply Forall_forall. intros row Hr. apply (proj1 (Forall_forall _ _) Hrows) in Hr. destruct Hr as [_ Hr].
    eapply Forall_impl; [|exact Hr]. intros px [Hp _]. exact Hp. }
  assert (Hp0 : Forall (pxok c) prev0).
  { apply Forall_forall. intros x Hx. apply repeat_spec in Hx. subst x. apply repeat_length. }
  assert (Hrw : Forall (fun row => length row = Z.to_nat w) rows).
  { eapply Forall_impl; [|exact Hrows]. intros row [Hr _]. exact Hr. }
  (* the samples *)
  assert (Hsamp : t81_samples P pixels = samples_of P pixels).
  { unfold t81_samples, samples_of. destruct (P <=? 8); [reflexivity | apply le_pairs_le16; assumption]. }
  assert (Hrows_eq : rows = chunk (Z.to_nat w) (chunk c (samples_of P pixels))).
  { unfold rows, pixels_to_rows. fold (samples_of P pixels). fold c. f_equal. f_equal.
    apply firstn_all2.
    unfold samples_of. unfold zlen in Hl. destruct (bps_cases P HP) as [[H8 E]|[H8 E]]; rewrite E in Hl.
    - destruct (Z.leb_spec P 8); [|lia]. lia.
    - destruct (Z.leb_spec P 8); [lia|]. rewrite (le16_length (Z.to_nat (w * h * comps))); lia. }
  unfold t81_scan_diffs. rewrite Hsamp. fold c.
  (* every plane *)
  assert (Hplanes : map (fun pl => concat (t81_plane_diffs pred P None pl))
                        (map (t81_plane c (Z.to_nat w) (samples_of P pixels)) (seq 0 c))
                    = map (fun k => map (comp k) D) (seq 0 c)).
  { rewrite map_map. apply map_ext_in. intros k Hk. apply in_seq in Hk.
    rewrite t81_plane_eq, <- Hrows_eq.
    unfold D, dpx. rewrite (Drows_comp pred P c k rows true prev0) by (assumption || lia).
    assert (Hlines : Forall (fun ln => length ln = Z.to_nat w) (plane_of k rows)).
    { unfold plane_of. apply Forall_forall. intros ln Hln. apply in_map_iff in Hln.
      destruct Hln as (row & E & Hr). subst ln. rewrite map_length.
      apply (proj1 (Forall_forall _ _) Hrw). assumption. }
    destruct (srows_plane pred P Hpred (plane_of k rows) (map (comp k) prev0) (Z.to_nat w)) as [E1 _];
      [unfold prev0; rewrite map_length, repeat_length; reflexivity | assumption |].
    symmetry. exact E1. }
  rewrite Hplanes.
  assert (HDlen : length D = Z.to_nat (w * h)).
  { unfold D. rewrite (Drows_length pred P rows true dpx prev0 (Z.to_nat w));
      [| unfold prev0; apply repeat_length | assumption].
    rewrite Hlen. rewrite <- Z2Nat.inj_mul by lia. f_equal. lia. }
  rewrite <- HDlen. apply interleave_transpose; [assumption|].
  unfold D, dpx. apply Drows_pxok; assumption.
Qed.

(* ---------- code_equals_t81 ---------- *)
Lemma map_snd_combine_seq : forall (D : list (list Z)) c, Forall (fun v => length v = c) D ->
  map snd (concat (map (fun v => combine (seq 0 c) v) D)) = concat D.
Proof.
  induction D as [|v D IH]; intros c Hf; [reflexivity|]. inversion Hf; subst.
  cbn [map concat]. rewrite map_app, IH by assumption. f_equal.
  clear. generalize 0%nat. induction v; intros s; [reflexivity|]. cbn [length seq combine map snd]. f_equal. apply IHv.
Qed.
Lemma fst_combine_seq : forall (D : list (list Z)) c kd, Forall (fun v => length v = c) D ->
  In kd (concat (map (fun v => combine (seq 0 c) v) D)) -> (fst kd < c)%nat.
Proof.
  intros D c kd Hf Hin. apply in_concat in Hin. destruct Hin as (l & Hl & Hkd).
  apply in_map_iff in Hl. destruct Hl as (v & E & Hv). subst l.
  destruct kd as [k d]. apply in_combine_l in Hkd. apply in_seq in Hkd. cbn [fst]. lia.
Qed.

(* The independent T.81 Annex H encoder, given any valid Huffman table that contains the
   categories of the image's differences (table 0 for every component, DHT after SOF3, the JFIF
   APP0 segment in front), writes exactly the stream layout of lossless.Encode. *)
Theorem t81_encode_stream_of : forall w h comps P pred pixels bits vals,
  wf_image w h comps P pixels -> 1 <= pred <= 7 ->
  t81_table_ok bits vals = true ->
  covers vals (ll_diffs w comps P pred (pixels_to_rows w h comps P pixels)) ->
  t81_encode pred (repeat 0 (Z.to_nat comps)) [(0, (bits, vals))] true [(224, jfif_payload)]
             w h comps P pixels =
  Some (stream_of w h comps P pred (ll_diffs w comps P pred (pixels_to_rows w h comps P pixels)) bits vals).
Proof.
  intros w h comps P pred pixels bits vals Hwf Hpred Hok Hcov.
  pose proof (table_ok_facts _ _ Hok) as F.
  pose proof Hwf as (Hw & Hh & Hc & HP & Hl & Hb & Hs).
  destruct (rows_facts w h comps P pixels Hwf) as (Hlen & Hrows & _).
  set (rows := pixels_to_rows w h comps P pixels) in *.
  set (diffs := ll_diffs w comps P pred rows) in *.
  assert (Hdok : diffs_ok vals diffs).
  { unfold diffs_ok. apply Forall_forall. intros d Hd. split.
    - revert d Hd. apply Forall_forall. unfold diffs. rewrite ll_diffs_rows_map. apply rows_map_Forall.
      intros. apply narrow16_range.
    - apply (proj1 (Forall_forall _ _) Hcov). assumption. }
  unfold stream_of. rewrite (enc_syms_emit bits vals diffs w_init [] F Hdok winv_init).
  (* the T.81 encoder *)
  unfold t81_encode, t81_encode_x.
  assert (Hchk : ((1 <=? w) && (w <=? 65535) && (1 <=? h) && (h <=? 65535) && (1 <=? comps) && (comps <=? 4)
           && (2 <=? P) && (P <=? 16) && (1 <=? pred) && (pred <=? 7)
           && (Z.of_nat (length (repeat 0 (Z.to_nat comps))) =? comps)
           && forallb (fun td => (0 <=? td) && (td <=? 3)) (repeat 0 (Z.to_nat comps))
           && (Z.of_nat (length pixels) =? w * h * comps * (if P <=? 8 then 1 else 2))
           && forallb (fun b => (0 <=? b) && (b <? 256)) pixels
           && forallb (fun v => v <? 2 ^ P) (t81_samples P pixels)
           && forallb (fun t => (0 <=? fst t) && (fst t <=? 3) && t81_table_ok (fst (snd t)) (snd (snd t))) [(0, (bits, vals))]
           && t81_distinct (map fst [(0, (bits, vals))])
           && forallb t81_extra_ok [(224, jfif_payload)] && forallb t81_extra_ok []) = true).
  { rewrite !andb_true_iff. repeat match goal with |- _ /\ _ => split end; try (apply Z.leb_le; lia); try (apply Z.ltb_lt; lia).
    - rewrite repeat_length. apply Z.eqb_eq. lia.
    - destruct Hc; subst comps; reflexivity.
    - apply Z.eqb_eq. unfold zlen in Hl. rewrite Hl.
      destruct (bps_cases P HP) as [[H8 E]|[H8 E]]; rewrite E.
      + destruct (Z.leb_spec P 8); lia.
      + destruct (Z.leb_spec P 8); lia.
    - apply forallb_forall. intros b Hb'. apply (proj1 (Forall_forall _ _) Hb) in Hb'.
      apply andb_true_intro. split; [apply Z.leb_le | apply Z.ltb_lt]; lia.
    - apply forallb_forall. intros v Hv.
      assert (Hsamp : t81_samples P pixels = samples_of P pixels).
      { unfold t81_samples, samples_of. destruct (P <=? 8); [reflexivity | apply le_pairs_le16; assumption]. }
      rewrite Hsamp in Hv. apply (proj1 (Forall_forall _ _) Hs) in Hv. apply Z.ltb_lt. lia.
    - cbn [forallb fst snd]. rewrite Hok. reflexivity.
    - reflexivity.
    - reflexivity.
    - reflexivity. }
  rewrite Hchk. cbn [negb].
  (* the code words *)
  rewrite (scan_diffs_eq w h comps P pred pixels Hwf Hpred). fold rows.
  set (c := Z.to_nat comps).
  set (D := Drows pred P true (repeat 0 c) (repeat (repeat 0 c) (Z.to_nat w)) rows).
  assert (HD : Forall (fun v => length v = c) D).
  { unfold D. apply Drows_pxok.
    - apply Forall_forall. intros row Hr. apply (proj1 (Forall_forall _ _) Hrows) in Hr. destruct Hr as [_ Hr].
      eapply Forall_impl; [|exact Hr]. intros px [Hp _]. exact Hp.
    - apply Forall_forall. intros x Hx. apply repeat_spec in Hx. subst x. apply repeat_length. }
  assert (Hdiffs : diffs = concat D).
  { unfold diffs, D. rewrite ll_diffs_rows_map. apply rows_map_Drows. }
  cbn [map fst snd].
  rewrite (t81_words_eq bits vals (repeat 0 c) _ F).
  2:{ apply Forall_forall. intros kd Hkd. split.
      - pose proof (fst_combine_seq D c kd HD Hkd) as Hk.
        rewrite nth_indep with (d' := 0) by (rewrite repeat_length; assumption). apply nth_repeat.
      - assert (Hin : In (snd kd) diffs).
        { rewrite Hdiffs, <- (map_snd_combine_seq D c HD). apply in_map. assumption. }
        apply (proj1 (Forall_forall _ _) Hdok) in Hin. exact Hin. }
  rewrite <- (map_map snd (word bits vals)). rewrite (map_snd_combine_seq D c HD), <- Hdiffs.
  (* the bytes *)
  f_equal. cbn [concat map app fst snd].
  rewrite (t81_seg_segment 224 jfif_payload) by first [lia | vm_compute; reflexivity].
  unfold c. rewrite t81_sof3_eq by assumption. rewrite t81_dht_eq by assumption. rewrite t81_sos_eq by assumption.
  rewrite !app_nil_r. reflexivity.
Qed.

(* The encoder of jpeg/lossless (model) writes, for every predictor 1..7, byte for byte the
   stream of the independent T.81 Annex H encoder given the same Huffman table. *)
Theorem code_equals_t81 : forall w h comps P pred pixels bits vals s,
  wf_image w h comps P pixels -> 1 <= pred <= 7 ->
  build_optimal (count_freqs (ll_diffs w comps P pred (pixels_to_rows w h comps P pixels))) = Ok (bits, vals) ->
  t81_table_ok bits vals = true ->
  covers vals (ll_diffs w comps P pred (pixels_to_rows w h comps P pixels)) ->
  jll_encode w h comps P pred pixels = Ok s ->
  t81_encode pred (repeat 0 (Z.to_nat comps)) [(0, (bits, vals))] true [(224, jfif_payload)]
             w h comps P pixels = Some s.
Proof.
  intros w h comps P pred pixels bits vals s Hwf Hpred Hopt Hok Hcov Henc.
  rewrite (t81_encode_stream_of _ _ _ _ _ _ _ _ Hwf Hpred Hok Hcov). f_equal.
  assert (Hp07 : 0 <= pred <= 7) by lia.
  rewrite (jll_encode_fwd _ _ _ _ _ _ Hwf Hp07) in Henc.
  assert (Hep : effective_pred w h comps P pred pixels = pred).
  { unfold effective_pred. destruct (Z.eqb_spec pred 0); [lia | reflexivity]. }
  rewrite Hep in Henc.
  pose proof (encode_stream_fwd w h comps P pred _ bits vals Hopt) as Hf. rewrite Henc in Hf.
  apply Ok_inj in Hf. symmetry. exact Hf.
Qed.

(* Conversely lossless.Decode (model) reconstructs the source of every stream of the T.81 encoder
   in this configuration, for every predictor 1..7 and ANY valid Huffman table containing the
   categories that occur (standard, optimal or arbitrary canonical). *)
Theorem jll_decodes_t81 : forall w h comps P pred pixels bits vals s,
  wf_image w h comps P pixels -> 1 <= pred <= 7 ->
  t81_table_ok bits vals = true ->
  covers vals (ll_diffs w comps P pred (pixels_to_rows w h comps P pixels)) ->
  t81_encode pred (repeat 0 (Z.to_nat comps)) [(0, (bits, vals))] true [(224, jfif_payload)]
             w h comps P pixels = Some s ->
  jll_decode s = Ok (pixels, w, h, comps, P).
Proof.
  intros w h comps P pred pixels bits vals s Hwf Hpred Hok Hcov Henc.
  rewrite (t81_encode_stream_of _ _ _ _ _ _ _ _ Hwf Hpred Hok Hcov) in Henc.
  injection Henc as Hs. subst s.
  destruct (rows_facts w h comps P pixels Hwf) as (Hlen & Hrows & Hback).
  pose proof Hwf as (Hw & Hh & Hc & HP & _).
  replace (Ok (pixels, w, h, comps, P)) with
    (Ok (rows_to_pixels P (pixels_to_rows w h comps P pixels), w, h, comps, P)) by (rewrite Hback; reflexivity).
  eapply ll_decode_stream_of; try eassumption. reflexivity.
Qed.

(* ---------- the SV1 codec is predictor 1 ---------- *)
Lemma sv1_pred_eq : forall dflt r c0 l a al, sv1_pred dflt r c0 l a al = ll_pred 1 dflt r c0 l a al.
Proof. intros. destruct r, c0; reflexivity. Qed.

Lemma rows_map_ext : forall {B} (f g : bool -> bool -> Z -> Z -> Z -> Z -> B),
  (forall r c0 l a al x, f r c0 l a al x = g r c0 l a al x) ->
  forall rows r dpx prev, rows_map f r dpx prev rows = rows_map g r dpx prev rows.
Proof.
  intros B f g H.
  assert (H4 : forall r c0 l a al x, map4 f r c0 l a al x = map4 g r c0 l a al x).
  { intros r c0 l. induction l; intros a' al x; destruct a', al, x; cbn [map4]; try reflexivity.
    rewrite H, IHl. reflexivity. }
  assert (Hr : forall cur r c0 left aleft pv, row_map f r c0 left aleft pv cur = row_map g r c0 left aleft pv cur).
  { induction cur as [|px cur IH]; intros r c0 left aleft pv; destruct pv; try reflexivity.
    cbn [row_map]. rewrite H4, IH. reflexivity. }
  induction rows as [|row rs IH]; intros r dpx prev; [reflexivity|].
  cbn [rows_map]. rewrite Hr, IH. reflexivity.
Qed.

Lemma sv1_diffs_eq : forall w comps P rows, sv1_diffs w comps P rows = ll_diffs w comps P 1 rows.
Proof.
  intros. rewrite sv1_diffs_rows_map, ll_diffs_rows_map. apply rows_map_ext.
  intros. unfold fdiff. rewrite sv1_pred_eq. reflexivity.
Qed.

(* lossless14sv1.Encode is lossless.Encode with predictor 1, byte for byte *)
Theorem sv1_encode_is_pred1 : forall w h comps P pixels, wf_image w h comps P pixels ->
  sv1_encode w h comps P pixels = jll_encode w h comps P 1 pixels.
Proof.
  intros w h comps P pixels Hwf.
  rewrite (sv1_encode_fwd _ _ _ _ _ Hwf).
  assert (Hp07 : 0 <= 1 <= 7) by lia.
  rewrite (jll_encode_fwd _ _ _ _ _ _ Hwf Hp07).
  change (effective_pred w h comps P 1 pixels) with 1. rewrite sv1_diffs_eq. reflexivity.
Qed.

Theorem sv1_decodes_t81 : forall w h comps P pixels bits vals s,
  wf_image w h comps P pixels ->
  t81_table_ok bits vals = true ->
  covers vals (ll_diffs w comps P 1 (pixels_to_rows w h comps P pixels)) ->
  t81_encode 1 (repeat 0 (Z.to_nat comps)) [(0, (bits, vals))] true [(224, jfif_payload)]
             w h comps P pixels = Some s ->
  sv1_decode s = Ok (pixels, w, h, comps, P).
Proof.
  intros w h comps P pixels bits vals s Hwf Hok Hcov Henc.
  assert (Hp : 1 <= 1 <= 7) by lia.
  rewrite (t81_encode_stream_of _ _ _ _ _ _ _ _ Hwf Hp Hok Hcov) in Henc.
  injection Henc as Hs. subst s.
  destruct (rows_facts w h comps P pixels Hwf) as (Hlen & Hrows & Hback).
  pose proof Hwf as (Hw & Hh & Hc & HP & _).
  replace (Ok (pixels, w, h, comps, P)) with
    (Ok (rows_to_pixels P (pixels_to_rows w h comps P pixels), w, h, comps, P)) by (rewrite Hback; reflexivity).
  rewrite <- sv1_diffs_eq in *.
  eapply sv1_decode_stream_of; try eassumption. reflexivity.
Qed.

(* ---------- the prediction rule of the code is H.1.2.1 ---------- *)
(* first sample of the scan 2^(P-1), rest of the first line Ra, first sample of the other
   lines Rb, otherwise the selected predictor of Table H.1 — for every predictor 1..7.
   (Before commit 571863c this failed for predictors 2,3,5,6,7: finding F09.) *)
Theorem edge_rule_is_t81 : forall pred P r c0 l a al, 1 <= pred <= 7 ->
  ll_pred pred (2 ^ (P - 1)) r c0 l a al =
  if r then (if c0 then 2 ^ (P - 1) else l) else if c0 then a else t81_predictor pred l a al.
Proof.
  intros pred P r c0 l a al Hp. unfold ll_pred, edge_aware.
  destruct r, c0; cbn [andb orb]; try reflexivity.
  symmetry. apply t81_predictor_eq. assumption.
Qed.

(* ---------- what is not proved: stated ---------- *)
(* the independent codec is self-consistent, for every choice of its arguments (proved for the
   configuration of the encoders under test: t81_roundtrip_partial in JllProofsT81Dec) *)
Definition t81_roundtrip_statement : Prop :=
  forall sel tds tables dht_after extras w h comps P pixels s,
    t81_encode sel tds tables dht_after extras w h comps P pixels = Some s ->
    t81_decode s = Some (pixels, w, h, comps, P).
(* the library decoders on every stream of the independent encoder: any assignment of tables
   0..3 to the components, any valid tables, DHT before or after SOF3, APPn/COM segments in
   front (proved for one table on every component, DHT after SOF3, APP0 in front:
   jll_decodes_t81 / sv1_decodes_t81; the rest is exercised by the harness) *)
Definition jll_decodes_t81_general_statement : Prop :=
  forall sel tds tables dht_after extras w h comps P pixels s,
    comps = 1 \/ comps = 3 ->
    t81_encode sel tds tables dht_after extras w h comps P pixels = Some s ->
    jll_decode s = Ok (pixels, w, h, comps, P) /\
    (sel = 1 -> sv1_decode s = Ok (pixels, w, h, comps, P)).
