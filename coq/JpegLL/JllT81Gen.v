(* EXTRACT *)
(* The stream generator of the independent T.81 Annex H encoder (JllT81) extended to the full
   space of header layouts of a single-scan lossless stream (B.2.1 - B.2.4, Figure B.2/B.3):
     - any sequence of "tables / miscellaneous" segments between SOI and SOS: APPn / COM segments
       with arbitrary payloads (also empty, Lp = 2) and DHT segments, each DHT carrying one or
       several tables (Tc, Th, BITS, HUFFVAL); the frame header SOF3 occurs exactly once,
       anywhere in that sequence (so DHT / APPn / COM may come before or after it);
     - a table destination Th may be defined several times: the last definition before the scan
       header is the one in force (B.2.4.2);
     - component identifiers Ci are arbitrary distinct bytes (B.2.2), the scan header lists the
       components in frame order (B.2.3) with a table selector Td in 0..3 per component;
     - Tc = 1 (an AC table) is not allowed by Table B.5 in a lossless stream; the generator can
       emit such tables all the same (flag tc), a decoder has to keep them apart from the
       lossless tables.
   Same restrictions as JllT81: point transform 0, no restart interval, sampling factors 1 in a
   multi-component frame.  For a SINGLE-component frame the sampling byte H1|V1 of the frame
   header is a parameter hv of the general generator t81_gen_hv (H1, V1 in 1..4, Table B.2): with
   one component Hmax = H1 and Vmax = V1, so the component has the dimensions of the image
   whatever the factors (A.1.1), and a non-interleaved scan has one sample per MCU (A.2.2) -
   the entropy-coded segment is the same as with 0x11.  t81_gen is t81_gen_hv 17. *)
From V Require Import Common.Base JpegLL.JllT81.

Inductive t81g_item : Type :=
| GExtra (code : Z) (payload : list Z)                   (* APPn (E0..EF) or COM (FE) *)
| GDht (tabs : list (Z * Z * (list Z * list Z)))         (* one DHT segment: (Tc, Th, (BITS, HUFFVAL)) ... *)
| GSof.                                                  (* the frame header *)

(* the four table destinations *)
Fixpoint t81g_set {A} (l : list A) (i : nat) (v : A) : list A :=
  match l, i with
  | [], _ => []
  | _ :: l', O => v :: l'
  | x :: l', S i' => x :: t81g_set l' i' v
  end.
Definition t81g_dht_apply (sl : list (option (list Z * list Z)))
           (tabs : list (Z * Z * (list Z * list Z))) : list (option (list Z * list Z)) :=
  fold_left (fun s t => if fst (fst t) =? 0 then t81g_set s (Z.to_nat (snd (fst t))) (Some (snd t)) else s)
            tabs sl.
Fixpoint t81g_slots_of (items : list t81g_item) (sl : list (option (list Z * list Z)))
  : list (option (list Z * list Z)) :=
  match items with
  | [] => sl
  | GDht tabs :: r => t81g_slots_of r (t81g_dht_apply sl tabs)
  | _ :: r => t81g_slots_of r sl
  end.

Definition t81g_tab_bytes (t : Z * Z * (list Z * list Z)) : list Z :=
  [16 * fst (fst t) + snd (fst t)] ++ fst (snd t) ++ snd (snd t).
Definition t81g_tab_ok (t : Z * Z * (list Z * list Z)) : bool :=
  ((fst (fst t) =? 0) || (fst (fst t) =? 1)) && (0 <=? snd (fst t)) && (snd (fst t) <=? 3)
  && t81_table_ok (fst (snd t)) (snd (snd t)).
Definition t81g_dht_payload (tabs : list (Z * Z * (list Z * list Z))) : list Z :=
  concat (map t81g_tab_bytes tabs).

Definition t81g_item_ok (it : t81g_item) : bool :=
  match it with
  | GExtra code payload => t81_extra_ok (code, payload)
  | GDht tabs => match tabs with [] => false | _ => true end
                 && forallb t81g_tab_ok tabs
                 && (Z.of_nat (length (t81g_dht_payload tabs)) <? 65534)
  | GSof => true
  end.
(* every item is well formed and the frame header occurs exactly once *)
Fixpoint t81g_items_ok (seen : bool) (items : list t81g_item) : bool :=
  match items with
  | [] => seen
  | GSof :: r => negb seen && t81g_items_ok true r
  | it :: r => t81g_item_ok it && t81g_items_ok seen r
  end.

(* the sampling byte of every component: hv in a single-component frame, 0x11 otherwise *)
Definition t81g_hv (hv : Z) (cids : list Z) : Z :=
  match cids with [_] => hv | _ => 17 end.
Definition t81g_hv_ok (hv : Z) : bool :=
  (1 <=? hv / 16) && (hv / 16 <=? 4) && (1 <=? hv mod 16) && (hv mod 16 <=? 4).
Definition t81g_sof3 (hv w h P : Z) (cids : list Z) : list Z :=
  t81_seg 195 ([P] ++ t81_be16 h ++ t81_be16 w ++ [Z.of_nat (length cids)]
               ++ flat_map (fun ci => [ci; t81g_hv hv cids; 0]) cids).
Definition t81g_sos (sel : Z) (cids tds : list Z) : list Z :=
  t81_seg 218 ([Z.of_nat (length cids)]
               ++ flat_map (fun ct => [fst ct; 16 * snd ct]) (combine cids tds)
               ++ [sel; 0; 0]).
Definition t81g_item_bytes (hv w h P : Z) (cids : list Z) (it : t81g_item) : list Z :=
  match it with
  | GExtra code payload => t81_seg code payload
  | GDht tabs => t81_seg 196 (t81g_dht_payload tabs)
  | GSof => t81g_sof3 hv w h P cids
  end.

(* the code words of the tagged differences; component k uses destination tds[k] *)
Fixpoint t81g_words (slots : list (option (list Z * list Z))) (tds : list Z) (ds : list (nat * Z))
  : option (list (list bool)) :=
  match ds with
  | [] => Some []
  | kd :: ds' =>
    match nth (Z.to_nat (nth (fst kd) tds 0)) slots None with
    | None => None
    | Some bv =>
      match t81_word (t81_entries (fst bv) (snd bv)) (snd kd), t81g_words slots tds ds' with
      | Some wd, Some ws => Some (wd :: ws)
      | _, _ => None
      end
    end
  end.

Definition t81g_slot_defined (slots : list (option (list Z * list Z))) (td : Z) : bool :=
  match nth (Z.to_nat td) slots None with Some _ => true | None => false end.

(* t81_gen_hv hv sel cids tds items w h P pixels.
   hv: the sampling byte H1|V1 written for a single-component frame (ignored otherwise);
   cids: component identifiers (their number is Nf = Ns); tds: Td per component; items: what
   stands between SOI and SOS.  None: invalid parameters, a sample >= 2^P, an invalid item, no or
   several frame headers, a selected destination without table, or a difference category that
   has no code in the selected table. *)
Definition t81_gen_hv (hv sel : Z) (cids tds : list Z) (items : list t81g_item)
           (w h P : Z) (pixels : list Z) : option (list Z) :=
  let comps := Z.of_nat (length cids) in
  let bps := if P <=? 8 then 1 else 2 in
  let slots := t81g_slots_of items [None; None; None; None] in
  if negb ((1 <=? w) && (w <=? 65535) && (1 <=? h) && (h <=? 65535) && (1 <=? comps) && (comps <=? 4)
           && (2 <=? P) && (P <=? 16) && (1 <=? sel) && (sel <=? 7)
           && (length tds =? length cids)%nat
           && forallb (fun td => (0 <=? td) && (td <=? 3)) tds
           && forallb (fun ci => (0 <=? ci) && (ci <? 256)) cids && t81_distinct cids
           && (Z.of_nat (length pixels) =? w * h * comps * bps)
           && forallb (fun b => (0 <=? b) && (b <? 256)) pixels
           && forallb (fun v => v <? 2 ^ P) (t81_samples P pixels)
           && t81g_items_ok false items
           && forallb (t81g_slot_defined slots) tds
           && t81g_hv_ok hv)
  then None
  else
    match t81g_words slots tds (t81_scan_diffs w h comps P sel pixels) with
    | None => None
    | Some words =>
      Some ([255; 216]
            ++ concat (map (t81g_item_bytes hv w h P cids) items)
            ++ t81g_sos sel cids tds
            ++ t81_emit [] words
            ++ [255; 217])
    end.

(* all sampling factors 1 *)
Definition t81_gen (sel : Z) (cids tds : list Z) (items : list t81g_item)
           (w h P : Z) (pixels : list Z) : option (list Z) :=
  t81_gen_hv 17 sel cids tds items w h P pixels.

(* a second table that contains every category 0..16 with other code lengths than the standard
   one (2 codes of 3 bits, 4 of 4, 6 of 5, 5 of 6; values in descending order), used by the
   examples and the harness *)
Definition t81g_alt_bits : list Z := [0; 0; 2; 4; 6; 5; 0; 0; 0; 0; 0; 0; 0; 0; 0; 0].
Definition t81g_alt_vals : list Z := [16; 15; 14; 13; 12; 11; 10; 9; 8; 7; 6; 5; 4; 3; 2; 1; 0].
