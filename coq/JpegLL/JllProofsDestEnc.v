(* The streams of the earlier reference encoder JllT81.t81_encode_x (any Td assignment, any list
   of tables with distinct destinations, DHT before or after SOF3, APPn/COM segments after SOI
   and in front of SOS) are streams of the general generator JllT81Gen.t81_gen; hence the
   statement left open in JllProofsT81 (jll_decodes_t81_general_statement) holds. *)
From V Require Import Common.Base JpegLL.JllBits JpegLL.JllHuff JpegLL.JllModel JpegLL.JllT81
  JpegLL.JllT81Gen JpegLL.JllProofsBits JpegLL.JllProofsHuff JpegLL.JllProofs JpegLL.JllProofsRT
  JpegLL.JllProofsT81 JpegLL.JllProofsDest JpegLL.JllProofsDestHdr JpegLL.JllProofsDestMain.

Definition ex_items (l : list (Z * list Z)) : list t81g_item := map (fun e => GExtra (fst e) (snd e)) l.
Definition dht_items (tables : list (Z * (list Z * list Z))) : list t81g_item :=
  map (fun t => GDht [(0, fst t, snd t)]) tables.
Definition enc_items (tables : list (Z * (list Z * list Z))) (dht_after : bool) (extras mids : list (Z * list Z))
  : list t81g_item :=
  ex_items extras ++ (if dht_after then [] else dht_items tables) ++ [GSof]
  ++ (if dht_after then dht_items tables else []) ++ ex_items mids.
Definition std_cids (comps : Z) : list Z := map (fun i => Z.of_nat i + 1) (seq 0 (Z.to_nat comps)).

Definition slots_tabs (tables : list (Z * (list Z * list Z))) (sl : list (option tbt)) : list (option tbt) :=
  fold_left (fun s t => t81g_set s (Z.to_nat (fst t)) (Some (snd t))) tables sl.

(* ---------- the slots ---------- *)
Lemma slots_of_app : forall a b sl, t81g_slots_of (a ++ b) sl = t81g_slots_of b (t81g_slots_of a sl).
Proof.
  induction a as [|it a IH]; intros b sl; [reflexivity|]. destruct it; cbn [app t81g_slots_of]; apply IH.
Qed.
Lemma slots_of_ex : forall l sl, t81g_slots_of (ex_items l) sl = sl.
Proof. induction l; intros sl; [reflexivity|]. cbn [ex_items map t81g_slots_of]. apply IHl. Qed.
Lemma slots_of_dht : forall tables sl, t81g_slots_of (dht_items tables) sl = slots_tabs tables sl.
Proof.
  induction tables as [|t tables IH]; intros sl; [reflexivity|].
  cbn [dht_items map t81g_slots_of]. unfold t81g_dht_apply. cbn [fold_left fst snd].
  change (0 =? 0) with true. cbv iota. unfold slots_tabs. cbn [fold_left]. apply IH.
Qed.
Lemma slots_of_enc : forall tables dht_after extras mids sl,
  t81g_slots_of (enc_items tables dht_after extras mids) sl = slots_tabs tables sl.
Proof.
  intros. unfold enc_items. rewrite !slots_of_app, !slots_of_ex.
  destruct dht_after; cbn [t81g_slots_of]; rewrite slots_of_dht; reflexivity.
Qed.

Lemma nth_set_same : forall {A} (l : list A) i v d, (i < length l)%nat -> nth i (t81g_set l i v) d = v.
Proof. induction l; intros [|i] v d H; cbn [length] in H; try lia; cbn [t81g_set nth]; [reflexivity|]. apply IHl. lia. Qed.
Lemma nth_set_other : forall {A} (l : list A) i j v d, i <> j -> nth j (t81g_set l i v) d = nth j l d.
Proof.
  induction l; intros i j v d H; [destruct i; reflexivity|].
  destruct i, j; cbn [t81g_set nth]; try reflexivity; try lia. apply IHl. lia.
Qed.

Lemma slots_tabs_length : forall tables sl, length (slots_tabs tables sl) = length sl.
Proof.
  induction tables; intros sl; [reflexivity|]. unfold slots_tabs in *. cbn [fold_left]. rewrite IHtables.
  apply t81g_set_length.
Qed.
Lemma slots_tabs_notin : forall tables sl td, 0 <= td ->
  Forall (fun t => 0 <= fst t) tables -> ~ In td (map fst tables) ->
  nth (Z.to_nat td) (slots_tabs tables sl) None = nth (Z.to_nat td) sl None.
Proof.
  induction tables as [|t tables IH]; intros sl td Htd Hr Hn; [reflexivity|].
  inversion Hr; subst. unfold slots_tabs in *. cbn [fold_left]. cbn [map In] in Hn.
  rewrite IH; try assumption; [|tauto]. apply nth_set_other. intros E. apply Hn. left. lia.
Qed.

Lemma assoc_slots : forall tables sl td e, 0 <= td <= 3 -> length sl = 4%nat ->
  Forall (fun t => 0 <= fst t) tables -> NoDup (map fst tables) ->
  t81_assoc (map (fun t => (fst t, t81_entries (fst (snd t)) (snd (snd t)))) tables) td = Some e ->
  exists bv, nth (Z.to_nat td) (slots_tabs tables sl) None = Some bv /\ e = t81_entries (fst bv) (snd bv).
Proof.
  induction tables as [|t tables IH]; intros sl td e Htd Hl Hr Hnd H; [discriminate|].
  inversion Hr as [|? ? Hr0 Hr']; subst. cbn [map] in Hnd. inversion Hnd as [|? ? Hn Hnd']; subst.
  cbn [map t81_assoc fst snd] in H.
  destruct (Z.eqb_spec (fst t) td) as [E|E].
  - injection H as <-. exists (snd t). split; [|reflexivity].
    unfold slots_tabs. cbn [fold_left]. fold (slots_tabs tables (t81g_set sl (Z.to_nat (fst t)) (Some (snd t)))).
    rewrite slots_tabs_notin by (try assumption; try lia; rewrite <- E; exact Hn).
    rewrite E. apply nth_set_same. lia.
  - unfold slots_tabs. cbn [fold_left]. apply IH; try assumption. rewrite t81g_set_length. exact Hl.
Qed.

(* ---------- the words ---------- *)
Lemma words_assoc_slots : forall etabs slots tds ds ws,
  (forall td e, In td tds -> t81_assoc etabs td = Some e ->
     exists bv, nth (Z.to_nat td) slots None = Some bv /\ e = t81_entries (fst bv) (snd bv)) ->
  Forall (fun kd => (fst kd < length tds)%nat) ds ->
  t81_words etabs tds ds = Some ws -> t81g_words slots tds ds = Some ws.
Proof.
  intros etabs slots tds. induction ds as [|[k d] ds IH]; intros ws Hlk Hk H; [exact H|].
  inversion Hk as [|? ? Hk0 Hk']; subst. cbn [fst] in Hk0.
  cbn [t81_words t81g_words fst snd] in *.
  rewrite (nth_indep tds (-1) 0 Hk0) in H.
  destruct (t81_assoc etabs (nth k tds 0)) as [e|] eqn:Ea; [|discriminate].
  destruct (Hlk _ e (nth_In tds 0 Hk0) Ea) as (bv & E1 & E2). rewrite E1. subst e.
  destruct (t81_word (t81_entries (fst bv) (snd bv)) d); [|discriminate].
  destruct (t81_words etabs tds ds) as [ws'|]; [|discriminate].
  rewrite (IH ws' Hlk Hk' eq_refl). exact H.
Qed.

(* every component's table is looked up for the first pixel *)
Lemma words_first_px : forall etabs tds v s0 rest ws,
  t81_words etabs tds (combine (seq s0 (length v)) v ++ rest) = Some ws ->
  forall j, (j < length v)%nat -> t81_assoc etabs (nth (s0 + j) tds (-1)) <> None.
Proof.
  intros etabs tds. induction v as [|d v IH]; intros s0 rest ws H j Hj; [simpl in Hj; lia|].
  cbn [length seq combine app t81_words] in H.
  destruct (t81_assoc etabs (nth s0 tds (-1))) as [e|] eqn:Ea; [|discriminate].
  destruct j as [|j].
  - rewrite Nat.add_0_r, Ea. discriminate.
  - destruct (t81_word e d); [|discriminate].
    destruct (t81_words etabs tds (combine (seq (S s0) (length v)) v ++ rest)) as [ws'|] eqn:Er; [|discriminate].
    rewrite Nat.add_succ_r. apply (IH (S s0) rest ws' Er j). simpl in Hj. lia.
Qed.

(* ---------- the items are well formed ---------- *)
Lemma items_ok_ex : forall l seen rest, forallb t81_extra_ok l = true ->
  t81g_items_ok seen (ex_items l ++ rest) = t81g_items_ok seen rest.
Proof.
  induction l as [|[code payload] l IH]; intros seen rest H; [reflexivity|].
  cbn [forallb] in H. apply andb_true_iff in H. destruct H as [H1 H2].
  cbn [ex_items map app t81g_items_ok t81g_item_ok fst snd]. rewrite H1. cbn [andb]. apply IH. exact H2.
Qed.

Lemma items_ok_dht : forall tables seen rest,
  forallb (fun t => (0 <=? fst t) && (fst t <=? 3) && t81_table_ok (fst (snd t)) (snd (snd t))) tables = true ->
  t81g_items_ok seen (dht_items tables ++ rest) = t81g_items_ok seen rest.
Proof.
  induction tables as [|[id [bits vals]] tables IH]; intros seen rest H; [reflexivity|].
  cbn [forallb fst snd] in H. apply andb_true_iff in H. destruct H as [H1 H2].
  cbn [dht_items map app t81g_items_ok fst snd]. fold (dht_items tables). rewrite (IH seen rest H2).
  replace (t81g_item_ok (GDht [(0, id, (bits, vals))])) with true; [reflexivity|].
  symmetry. cbn [t81g_item_ok forallb]. unfold t81g_tab_ok. cbn [fst snd]. change (0 =? 0) with true. cbn [orb andb].
  rewrite !andb_true_iff in H1. destruct H1 as [[A B] C]. rewrite A, B, C. cbn [andb].
  apply Z.ltb_lt. pose proof (table_ok_facts _ _ C) as [Fl Fb Fs Fv Fn Ff].
  pose proof (zsum_bound bits Fb) as Hb. unfold zlen in *.
  unfold t81g_dht_payload, t81g_tab_bytes. cbn [map concat fst snd app length]. rewrite !app_length. cbn [length]. lia.
Qed.

Lemma items_ok_enc : forall tables dht_after extras mids,
  forallb (fun t => (0 <=? fst t) && (fst t <=? 3) && t81_table_ok (fst (snd t)) (snd (snd t))) tables = true ->
  forallb t81_extra_ok extras = true -> forallb t81_extra_ok mids = true ->
  t81g_items_ok false (enc_items tables dht_after extras mids) = true.
Proof.
  intros tables dht_after extras mids Ht He Hm. unfold enc_items. rewrite items_ok_ex by exact He.
  destruct dht_after; cbn [app].
  - cbn [t81g_items_ok negb andb]. rewrite items_ok_dht by exact Ht.
    rewrite <- (app_nil_r (ex_items mids)). rewrite items_ok_ex by exact Hm. reflexivity.
  - rewrite items_ok_dht by exact Ht. cbn [app t81g_items_ok negb andb].
    rewrite <- (app_nil_r (ex_items mids)). rewrite items_ok_ex by exact Hm. reflexivity.
Qed.

(* ---------- the bytes ---------- *)
Lemma bytes_ex : forall w h P cids l,
  concat (map (t81g_item_bytes 17 w h P cids) (ex_items l)) = concat (map (fun e => t81_seg (fst e) (snd e)) l).
Proof. intros. unfold ex_items. rewrite map_map. reflexivity. Qed.
Lemma bytes_dht : forall w h P cids tables,
  concat (map (t81g_item_bytes 17 w h P cids) (dht_items tables)) =
  concat (map (fun t => t81_dht (fst t) (fst (snd t)) (snd (snd t))) tables).
Proof.
  intros. unfold dht_items. rewrite map_map. f_equal. apply map_ext. intros [id [bits vals]].
  cbn [t81g_item_bytes fst snd]. unfold t81_dht, t81g_dht_payload, t81g_tab_bytes. cbn [map concat fst snd].
  rewrite app_nil_r. reflexivity.
Qed.

Lemma std_cids_facts : forall comps, comps = 1 \/ comps = 3 ->
  Z.of_nat (length (std_cids comps)) = comps /\
  forallb (fun ci => (0 <=? ci) && (ci <? 256)) (std_cids comps) = true /\ t81_distinct (std_cids comps) = true /\
  (length (std_cids comps) = 1 \/ length (std_cids comps) = 3)%nat.
Proof. intros comps [-> | ->]; repeat split; try reflexivity; [left | right]; reflexivity. Qed.
Lemma sof_eq : forall w h P comps, comps = 1 \/ comps = 3 ->
  t81g_sof3 17 w h P (std_cids comps) = t81_sof3 w h P (Z.to_nat comps).
Proof. intros w h P comps [-> | ->]; reflexivity. Qed.
Lemma sos_eq : forall sel comps tds, comps = 1 \/ comps = 3 -> Z.of_nat (length tds) = comps ->
  t81g_sos sel (std_cids comps) tds = t81_sos sel tds.
Proof.
  intros sel comps tds [-> | ->] H.
  - destruct tds as [|t0 [|? ?]]; cbn [length] in H; try lia. reflexivity.
  - destruct tds as [|t0 [|t1 [|t2 [|? ?]]]]; cbn [length] in H; try lia. reflexivity.
Qed.

Lemma enc_bytes : forall w h P comps tables dht_after extras mids, comps = 1 \/ comps = 3 ->
  concat (map (t81g_item_bytes 17 w h P (std_cids comps)) (enc_items tables dht_after extras mids)) =
  concat (map (fun e => t81_seg (fst e) (snd e)) extras)
  ++ (if dht_after then [] else concat (map (fun t => t81_dht (fst t) (fst (snd t)) (snd (snd t))) tables))
  ++ t81_sof3 w h P (Z.to_nat comps)
  ++ (if dht_after then concat (map (fun t => t81_dht (fst t) (fst (snd t)) (snd (snd t))) tables) else [])
  ++ concat (map (fun e => t81_seg (fst e) (snd e)) mids).
Proof.
  intros w h P comps tables dht_after extras mids Hc. unfold enc_items.
  destruct dht_after; rewrite !map_app, !concat_app, !bytes_ex, ?bytes_dht; cbn [map concat t81g_item_bytes];
    rewrite ?bytes_dht, (sof_eq w h P comps Hc), ?app_nil_r; reflexivity.
Qed.

(* ---------- t81_encode_x is an instance of t81_gen ---------- *)
Lemma enc_is_gen : forall sel tds tables dht_after extras mids w h comps P pixels s,
  comps = 1 \/ comps = 3 ->
  t81_encode_x sel tds tables dht_after extras mids w h comps P pixels = Some s ->
  t81_gen sel (std_cids comps) tds (enc_items tables dht_after extras mids) w h P pixels = Some s.
Proof.
  intros sel tds tables dht_after extras mids w h comps P pixels s Hc H.
  unfold t81_encode_x in H. cbv zeta in H.
  match type of H with (if negb ?b then _ else _) = _ => destruct b eqn:Hchk end; cbv beta iota delta [negb] in H; [|discriminate].
  rewrite !andb_true_iff in Hchk.
  destruct Hchk as [[[[[[[[[[[[[[[[[[C1 C2] C3] C4] C5] C6] C7] C8] C9] C10] C11] C12] C13] C14] C15] C16] C17] C18] C19].
  destruct (t81_words _ tds _) as [ws|] eqn:Ew; [|discriminate].
  destruct (std_cids_facts comps Hc) as (Lc & Bc & Dc & Lc').
  apply Z.eqb_eq in C11.
  assert (HP : 2 <= P <= 16) by lia.
  assert (Hsel : 1 <= sel <= 7) by lia.
  (* the image is well formed *)
  assert (Hb : Forall (fun b => 0 <= b < 256) pixels).
  { apply Forall_forall. intros b Hin. apply (proj1 (forallb_forall _ _) C14) in Hin. lia. }
  assert (Hwf : wf_image w h comps P pixels).
  { unfold wf_image. split; [lia|]. split; [lia|]. split; [exact Hc|]. split; [exact HP|]. split; [|split; [exact Hb|]].
    - apply Z.eqb_eq in C13. unfold zlen. rewrite C13.
      destruct (bps_cases P HP) as [[H8 E]|[H8 E]]; rewrite E; destruct (Z.leb_spec P 8); lia.
    - assert (Hsamp : t81_samples P pixels = samples_of P pixels).
      { unfold t81_samples, samples_of. destruct (P <=? 8); [reflexivity | apply le_pairs_le16; assumption]. }
      rewrite Hsamp in C15. apply Forall_forall. intros v Hin.
      pose proof (proj1 (forallb_forall _ _) C15 v Hin) as Hv. apply Z.ltb_lt in Hv. split; [|exact Hv].
      unfold samples_of in Hin. destruct (P <=? 8).
      + apply (proj1 (Forall_forall _ _) Hb) in Hin. lia.
      + apply (proj1 (Forall_forall _ _) (le16_range pixels Hb)) in Hin. lia. }
  (* the tables *)
  assert (Hr : Forall (fun t : Z * (list Z * list Z) => 0 <= fst t) tables).
  { apply Forall_forall. intros t Hin. apply (proj1 (forallb_forall _ _) C16) in Hin.
    rewrite !andb_true_iff in Hin. lia. }
  pose proof (distinct_NoDup _ C17) as Hnd.
  set (etabs := map (fun t : Z * (list Z * list Z) => (fst t, t81_entries (fst (snd t)) (snd (snd t)))) tables) in *.
  set (slots := slots_tabs tables [None; None; None; None]).
  assert (Hlk : forall td e, In td tds -> t81_assoc etabs td = Some e ->
            exists bv, nth (Z.to_nat td) slots None = Some bv /\ e = t81_entries (fst bv) (snd bv)).
  { intros td e Hin Ha. apply (assoc_slots tables [None; None; None; None] td e); try assumption; try reflexivity.
    apply (proj1 (forallb_forall _ _) C12) in Hin. lia. }
  (* the differences *)
  pose proof Ew as Ew0.
  rewrite (scan_diffs_eq w h comps P sel pixels Hwf Hsel) in Ew.
  destruct (rows_facts w h comps P pixels Hwf) as (Hlen & Hrows & _).
  set (c := Z.to_nat comps) in *.
  set (rows := pixels_to_rows w h comps P pixels) in *.
  set (D := Drows sel P true (repeat 0 c) (repeat (repeat 0 c) (Z.to_nat w)) rows) in *.
  assert (Ltds : length tds = c) by (unfold c; lia).
  assert (HD : Forall (fun v => length v = c) D).
  { unfold D. apply Drows_pxok.
    - apply Forall_forall. intros row Hrw. apply (proj1 (Forall_forall _ _) Hrows) in Hrw. destruct Hrw as [_ Hrw].
      eapply Forall_impl; [|exact Hrw]. intros px [Hp _]. exact Hp.
    - apply Forall_forall. intros x Hx. apply repeat_spec in Hx. subst x. apply repeat_length. }
  assert (HDlen : length D = (length rows * Z.to_nat w)%nat).
  { unfold D. apply Drows_length; [apply repeat_length|].
    eapply Forall_impl; [|exact Hrows]. intros row [Hrw _]. exact Hrw. }
  (* every selected destination has a table *)
  assert (Hdef : forallb (t81g_slot_defined slots) tds = true).
  { apply forallb_forall. intros td Hin. destruct (In_nth _ _ (-1) Hin) as (j & Hj & Ej).
    destruct D as [|v0 D'].
    { exfalso. cbn [length] in HDlen. rewrite Hlen in HDlen. nia. }
    pose proof (Forall_inv HD) as Lv0. cbn beta in Lv0. cbn [map concat] in Ew. rewrite <- Lv0 in Ew at 1.
    pose proof (words_first_px etabs tds v0 0%nat _ ws Ew j ltac:(lia)) as Hne. cbn [Nat.add] in Hne.
    rewrite Ej in Hne. destruct (t81_assoc etabs td) as [e|] eqn:Ea; [|contradiction].
    destruct (Hlk td e Hin Ea) as (bv & E1 & _). unfold t81g_slot_defined. rewrite E1. reflexivity. }
  (* the generator *)
  rewrite <- H. clear H. unfold t81_gen, t81_gen_hv. cbv zeta. rewrite slots_of_enc. fold slots. rewrite Lc.
  match goal with |- (if negb ?b then _ else _) = _ => assert (Hgchk : b = true) end.
  { rewrite !andb_true_iff. repeat match goal with |- _ /\ _ => split end; try assumption.
    - apply Nat.eqb_eq. destruct Lc' as [E|E]; rewrite E; lia.
    - apply items_ok_enc; assumption.
    - reflexivity. }
  rewrite Hgchk. cbn [negb].
  rewrite (words_assoc_slots etabs slots tds _ ws Hlk) ; [| | exact Ew0].
  - rewrite (enc_bytes w h P comps tables dht_after extras mids Hc). rewrite sos_eq by assumption.
    rewrite <- !app_assoc. reflexivity.
  - rewrite (scan_diffs_eq w h comps P sel pixels Hwf Hsel). fold c rows D.
    apply Forall_forall. intros kd Hin. rewrite Ltds. eapply fst_combine_seq; [exact HD | exact Hin].
Qed.

(* ---------- the statement left open in JllProofsT81 ---------- *)
Theorem jll_decodes_t81_general : jll_decodes_t81_general_statement.
Proof.
  intros sel tds tables dht_after extras w h comps P pixels s Hc Henc.
  unfold t81_encode in Henc.
  pose proof (enc_is_gen _ _ _ _ _ _ _ _ _ _ _ _ Hc Henc) as Hgen.
  destruct (std_cids_facts comps Hc) as (Lc & _ & _ & Lc').
  split.
  - rewrite <- Lc. eapply jll_decodes_t81_gen_full; eassumption.
  - intros ->. rewrite <- Lc. eapply sv1_decodes_t81_gen_full; eassumption.
Qed.

(* the same with APPn/COM segments directly in front of SOS as well (t81_encode_x) *)
Theorem jll_decodes_t81_encode_x : forall sel tds tables dht_after extras mids w h comps P pixels s,
  comps = 1 \/ comps = 3 ->
  t81_encode_x sel tds tables dht_after extras mids w h comps P pixels = Some s ->
  jll_decode s = Ok (pixels, w, h, comps, P) /\
  (sel = 1 -> sv1_decode s = Ok (pixels, w, h, comps, P)).
Proof.
  intros sel tds tables dht_after extras mids w h comps P pixels s Hc Henc.
  pose proof (enc_is_gen _ _ _ _ _ _ _ _ _ _ _ _ Hc Henc) as Hgen.
  destruct (std_cids_facts comps Hc) as (Lc & _ & _ & Lc').
  split.
  - rewrite <- Lc. eapply jll_decodes_t81_gen_full; eassumption.
  - intros ->. rewrite <- Lc. eapply sv1_decodes_t81_gen_full; eassumption.
Qed.
