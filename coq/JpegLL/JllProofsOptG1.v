(* BuildOptimalHuffmanTable for ANY 256 counters, part 1: the code sizes the merge loop delivers
   are Kraft-complete at depth 256:  sum over the symbols with a size > 0 (incl. the pseudo symbol
   256) of 2^(256 - size) = 2^256, every symbol with a non-zero count and the pseudo symbol have a
   size > 0.  (merge_result of JllProofsOpt is the same at depth 17 for <= 18 symbols.) *)
From V Require Import Common.Base JpegLL.JllBits JpegLL.JllHuff JpegLL.JllModel JpegLL.JllT81
  JpegLL.JllProofsBits JpegLL.JllProofsHuff JpegLL.JllProofs JpegLL.JllProofsOpt.

Definition wterm256 (c : Z) : Z := if 0 <? c then 2 ^ (256 - c) else 0.
Definition wsum256 (cs : list Z) : Z := zsum (map wterm256 cs).

Definition sizes256_ok (cs freqs : list Z) : Prop :=
  length cs = 257%nat /\ Forall (fun c => 0 <= c <= 256) cs /\ wsum256 cs = 2 ^ 256 /\
  0 < znth cs 256 0 /\ (forall i, 0 <= i < 256 -> znth freqs i 0 <> 0 -> 0 < znth cs i 0).

Theorem merge_result_kraft : forall freqs, freqs_gen freqs ->
  (exists i, 0 <= i < 256 /\ znth freqs i 0 <> 0) ->
  exists cs, merge_loop 258 (freq0 freqs) (repeat 0 257) (repeat (-1) 257) = Ok cs /\ sizes256_ok cs freqs.
Proof.
  intros freqs Hok (i0 & Hi0 & Hnz0).
  destruct (init_inv 256 freqs ltac:(lia) Hok) as (I0 & H256).
  destruct (freq0_facts freqs Hok) as (Hl & Hnn & Hs & Hf256 & Hlow).
  pose proof (alive0_spec freqs) as HE0.
  pose proof (alive0_nodup freqs) as HndE0.
  pose proof (alive0_le257 freqs) as Hle. rewrite seqZ_length in Hle.
  assert (HA : zlen (alive0 freqs) <= 256 + 1) by (apply (proj1 (Nat2Z.inj_le _ _)) in Hle; exact Hle).
  assert (Hi0E : In i0 (alive0 freqs)) by (apply (proj2 (HE0 _)); split; [lia | rewrite Hlow by lia; assumption]).
  destruct (merge_loop_ok 258 256 (alive0 freqs) _ _ _ _ 0 (zlen (alive0 freqs)) (zsum (freq0 freqs)) I0 HA Hs)
    as (cs & freq' & others' & ch & Eloop & If).
  { intros E. apply map_eq_nil in E. rewrite E in H256. destruct H256. }
  { rewrite map_length. apply Nat.le_trans with 257%nat; [exact Hle | apply Nat.leb_le; reflexivity]. }
  exists cs. split; [exact Eloop|]. clear Eloop I0.
  assert (Hi256 : i0 <> 256) by lia.
  destruct If as [Hel [_ [L2 _]] Hnd Hch Hout Hcs _ _].
  cbn [concat] in Hel, Hnd, Hout. rewrite app_nil_r in Hnd.
  assert (Hel' : forall s, In s (alive0 freqs) <-> In s ch) by (intros s; rewrite Hel, app_nil_r; reflexivity).
  assert (Hout' : forall s, 0 <= s < 257 -> ~ In s ch -> znth cs s 0 = 0).
  { intros s Hs' Hn. apply Hout; [assumption | rewrite app_nil_r; assumption]. }
  pose proof (Forall_inv Hch) as (Hc & _ & _ & Hk).
  pose proof (chain_range _ _ _ Hc) as Hr.
  assert (Hcs17 : forall s, 0 <= s < 257 -> 0 <= znth cs s 0 <= 256) by (intros s Hs'; specialize (Hcs s Hs'); lia).
  (* every member of the final tree has a positive size *)
  assert (Hpos : forall x, In x ch -> 0 < znth cs x 0).
  { intros x Hx.
    assert (Hxr : 0 <= x < 257) by (apply (proj1 (Forall_forall _ _) Hr) in Hx; exact Hx).
    destruct (Z_lt_le_dec 0 (znth cs x 0)) as [|Hle0]; [assumption|]. exfalso.
    assert (Hx0 : znth cs x 0 = 0) by (specialize (Hcs17 x Hxr); lia).
    assert (Hy : exists y, In y ch /\ y <> x).
    { destruct (Z.eq_dec x 256) as [E256|N256].
      - exists i0. split; [apply (proj1 (Hel' _)); exact Hi0E | rewrite E256; exact Hi256].
      - exists 256. split; [apply (proj1 (Hel' _)); exact H256 | intros E; apply N256; symmetry; exact E]. }
    destruct Hy as (y & Hy & Hyx).
    assert (Hyr : 0 <= y < 257) by (apply (proj1 (Forall_forall _ _) Hr) in Hy; exact Hy).
    unfold kraft in Hk. rewrite (sum_point _ x ch Hnd) in Hk.
    destruct (in_dec Z.eq_dec x ch); [|contradiction].
    rewrite (sum_point _ y ch Hnd) in Hk. destruct (in_dec Z.eq_dec y ch); [|contradiction].
    destruct (Z.eqb_spec y x); [contradiction|]. rewrite Hx0 in Hk.
    assert (Hnn' : 0 <= zsum (map (fun s => if s =? y then 0 else if s =? x then 0 else 2 ^ (256 - znth cs s 0)) ch)).
    { apply zsum_nonneg. apply Forall_forall. intros v Hv. apply in_map_iff in Hv. destruct Hv as (s & <- & _).
      destruct (s =? y); [lia|]. destruct (s =? x); [lia|]. apply Z.pow_nonneg. lia. }
    assert (0 < 2 ^ (256 - znth cs y 0)) by (apply Z.pow_pos_nonneg; [lia | specialize (Hcs17 y Hyr); lia]).
    rewrite Z.sub_0_r in Hk. lia. }
  unfold sizes256_ok. unfold zlen in L2. split; [lia|]. split; [|split; [|split]].
  - apply Forall_forall. intros c Hc'. destruct (In_nth _ _ 0 Hc') as (k & Hk' & <-).
    specialize (Hcs17 (Z.of_nat k) ltac:(lia)). unfold znth in Hcs17.
    destruct (Z.ltb_spec (Z.of_nat k) 0); [lia|]. rewrite Nat2Z.id in Hcs17. exact Hcs17.
  - unfold wsum256. rewrite (list_as_map cs) at 1. rewrite map_map.
    replace (length cs) with 257%nat by lia.
    rewrite (sum_support ch (fun s => wterm256 (znth cs s 0)) 257 Hnd).
    + rewrite <- Hk. unfold kraft. f_equal. apply map_ext_in. intros s Hs'. unfold wterm256.
      specialize (Hpos s Hs'). destruct (Z.ltb_spec 0 (znth cs s 0)); [reflexivity | lia].
    + intros x Hx. apply (proj1 (Forall_forall _ _) Hr) in Hx. cbv beta in Hx. lia.
    + intros s Hs' Hn. rewrite Hout' by (lia || assumption). reflexivity.
  - apply Hpos. apply (proj1 (Hel' _)). exact H256.
  - intros i Hi Hnz. apply Hpos. apply (proj1 (Hel' _)). apply (proj2 (HE0 _)). split; [lia | rewrite Hlow by lia; assumption].
Qed.
