(* C13, second half, general table destinations: the scan decoders of jpeg/lossless and
   jpeg/lossless14sv1 (models) in lockstep with the code words of the independent T.81 encoder
   when every component has its own Huffman table, and the link between the tagged code-word
   list of the generator (JllT81Gen.t81g_words) and the per-pixel word lists. *)
From V Require Import Common.Base JpegLL.JllBits JpegLL.JllHuff JpegLL.JllModel JpegLL.JllT81
  JpegLL.JllT81Gen JpegLL.JllProofsBits JpegLL.JllProofsHuff JpegLL.JllProofs JpegLL.JllProofsRT
  JpegLL.JllProofsT81.

(* a table: (BITS, HUFFVAL) *)
Notation tbt := (list Z * list Z)%type.
Definition tok (t : tbt) : Prop := t81_table_ok (fst t) (snd t) = true.
Definition htabs (tb : list tbt) : list (outcome htable) :=
  map (fun t => Ok (ht_of (fst t) (snd t))) tb.

(* the code words of the differences of one pixel, component k with table k *)
Fixpoint words_px (tb : list tbt) (ds : list Z) : list (list bool) :=
  match tb, ds with
  | t :: tb', d :: ds' => word (fst t) (snd t) d :: words_px tb' ds'
  | _, _ => []
  end.
Fixpoint px_cov (tb : list tbt) (ds : list Z) : Prop :=
  match tb, ds with
  | t :: tb', d :: ds' => (-32768 <= d <= 32767 /\ In (diff_category d) (snd t)) /\ px_cov tb' ds'
  | [], [] => True
  | _, _ => False
  end.

Section LockG.
  Variables pred P : Z.
  Variable predf : bool -> bool -> Z -> Z -> Z -> Z.
  Variable rec : Z -> Z -> Z.
  Hypothesis Hpf : forall r c l a al, predf r c l a al = ll_pred pred (2 ^ (P - 1)) r c l a al.
  Hypothesis Hrec : forall r c l a al x, good P l -> good P a -> good P al -> good P x ->
    rec (predf r c l a al) (narrow_diff x (predf r c l a al)) = x.
  Let f := fdiff (ll_pred pred (2 ^ (P - 1))).

  Lemma dec_px_gen : forall tb px l a al st B row0 col0,
    Forall tok tb -> length px = length tb -> length l = length tb -> length a = length tb ->
    length al = length tb ->
    Forall (good P) px -> Forall (good P) l -> Forall (good P) a -> Forall (good P) al ->
    px_cov tb (map4 f row0 col0 l a al px) ->
    rep st (concat (words_px tb (map4 f row0 col0 l a al px)) ++ B) ->
    exists st', dec_px predf rec (htabs tb) row0 col0 l a al st = Ok (px, st') /\ rep st' B.
  Proof.
    induction tb as [|t tb IH]; intros px l a al st B row0 col0 Ht Lx Ll La Lal Gx Gl Ga Gal Hc Hr.
    - destruct px; [|discriminate]. cbn [htabs map dec_px]. exists st. split; [reflexivity|].
      destruct l, a, al; cbn in Hr; exact Hr.
    - destruct px as [|x px]; [discriminate|]. destruct l as [|l0 l]; [discriminate|].
      destruct a as [|a0 a]; [discriminate|]. destruct al as [|al0 al]; [discriminate|].
      inversion Ht as [|? ? Ht0 Ht']; subst.
      inversion Gx; inversion Gl; inversion Ga; inversion Gal; subst.
      cbn [map4 words_px concat px_cov] in Hr, Hc. rewrite <- app_assoc in Hr.
      destruct Hc as [[Hd1 Hd2] Hc'].
      cbn [htabs map dec_px obind].
      destruct (dec_sample_ok (fst t) (snd t) _ rec (predf row0 col0 l0 a0 al0) st _ Ht0 Hd1 Hd2 Hr)
        as (st1 & E1 & Hr1).
      rewrite E1. unfold f at 1. unfold fdiff at 1. rewrite <- Hpf. rewrite Hrec by assumption.
      destruct (IH px l a al st1 B row0 col0) as (st2 & E2 & Hr2); try assumption;
        try (cbn [length] in *; lia).
      fold (htabs tb). rewrite E2. cbn [obind fst snd]. exists st2. split; [reflexivity | exact Hr2].
  Qed.

  Lemma dec_row_gen : forall tb cur prev left aleft st B row0 col0,
    Forall tok tb -> length prev = length cur ->
    Forall (goodpx P (length tb)) cur -> Forall (goodpx P (length tb)) prev ->
    goodpx P (length tb) left -> goodpx P (length tb) aleft ->
    Forall (px_cov tb) (Drow pred P row0 col0 left aleft prev cur) ->
    rep st (concat (concat (map (words_px tb) (Drow pred P row0 col0 left aleft prev cur))) ++ B) ->
    exists st', dec_row predf rec (htabs tb) row0 col0 left aleft prev st = Ok (cur, st') /\ rep st' B.
  Proof.
    intros tb. induction cur as [|px cur IH]; intros prev left aleft st B row0 col0 Ht Hl Gc Gp Gl Gal Hc Hr.
    - destruct prev; [|discriminate]. cbn [dec_row]. exists st. split; [reflexivity|]. cbn in Hr. exact Hr.
    - destruct prev as [|ab prev]; [discriminate|].
      inversion Gc as [|? ? [Lpx Gpx] Gc']; inversion Gp as [|? ? [Lab Gab] Gp']; subst.
      destruct Gl as [Ll Gl]. destruct Gal as [Lal Gal].
      cbn [Drow map concat] in Hr, Hc. rewrite concat_app, <- app_assoc in Hr.
      inversion Hc as [|? ? Hc1 Hc2]; subst.
      cbn [dec_row].
      destruct (dec_px_gen tb px left ab aleft st _ row0 col0 Ht Lpx Ll Lab Lal Gpx Gl Gab Gal Hc1 Hr)
        as (st1 & E1 & Hr1).
      rewrite E1. cbn [obind fst snd].
      destruct (IH prev px ab st1 B row0 false) as (st2 & E2 & Hr2); try assumption.
      { simpl in Hl. lia. }
      { split; assumption. }
      { split; assumption. }
      rewrite E2. cbn [obind fst snd]. exists st2. split; [reflexivity | exact Hr2].
  Qed.

  Lemma dec_rows_gen : forall tb rows prev dpx w st B row0,
    Forall tok tb ->
    Forall (fun r => length r = w /\ Forall (goodpx P (length tb)) r) rows ->
    length prev = w -> Forall (goodpx P (length tb)) prev -> goodpx P (length tb) dpx ->
    Forall (px_cov tb) (Drows pred P row0 dpx prev rows) ->
    rep st (concat (concat (map (words_px tb) (Drows pred P row0 dpx prev rows))) ++ B) ->
    exists st', dec_rows predf rec (length rows) (htabs tb) row0 dpx prev st = Ok (rows, st') /\ rep st' B.
  Proof.
    intros tb. induction rows as [|r rows IH]; intros prev dpx w st B row0 Ht Gr Lp Gp Gd Hc Hr.
    - cbn [length dec_rows]. exists st. split; [reflexivity|]. cbn in Hr. exact Hr.
    - inversion Gr as [|? ? [Lr Grr] Gr']; subst.
      cbn [Drows] in Hr, Hc. rewrite map_app, concat_app, concat_app, <- app_assoc in Hr.
      apply Forall_app in Hc. destruct Hc as [Hc1 Hc2].
      cbn [length dec_rows].
      destruct (dec_row_gen tb r prev dpx dpx st _ row0 true Ht ltac:(symmetry; assumption) Grr Gp Gd Gd Hc1 Hr)
        as (st1 & E1 & Hr1).
      rewrite E1. cbn [obind fst snd].
      destruct (IH r dpx (length r) st1 B false) as (st2 & E2 & Hr2); try assumption; try reflexivity.
      { rewrite Lr. assumption. }
      rewrite E2. cbn [obind fst snd]. exists st2. split; [reflexivity | exact Hr2].
  Qed.
End LockG.

(* ---------- the generator's code words ---------- *)
Lemma find_val_in : forall E v sc, t81_find_val E v = Some sc -> In v (map snd E).
Proof.
  induction E as [|[[s c] x] E IH]; intros v sc H; [discriminate|].
  cbn [t81_find_val] in H. cbn [map snd]. destruct (Z.eqb_spec x v).
  - left. assumption.
  - right. eapply IH. exact H.
Qed.

Lemma entries_vals : forall bits vals x, In x (map snd (t81_entries bits vals)) -> In x vals.
Proof.
  intros bits vals x H. apply in_map_iff in H. destruct H as ([sc y] & E & Hin). cbn in E. subst y.
  unfold t81_entries in Hin. eapply in_combine_r. exact Hin.
Qed.

(* a code word exists only for a category of the table, and it is the word of the Go encoder *)
Lemma t81_word_inv : forall t d wd, tok t -> -32768 <= d <= 32767 ->
  t81_word (t81_entries (fst t) (snd t)) d = Some wd ->
  In (diff_category d) (snd t) /\ wd = word (fst t) (snd t) d.
Proof.
  intros [bits vals] d wd Ht Hd H. unfold tok in Ht. cbn [fst snd] in *.
  assert (Hin : In (diff_category d) vals).
  { unfold t81_word in H.
    destruct (t81_find_val (t81_entries bits vals) (t81_ssss d)) as [sc|] eqn:E; [|discriminate].
    apply find_val_in, entries_vals in E.
    assert (Hin' : In d (seqZ (-32768) (Z.to_nat 65536))) by (apply In_seqZ; lia).
    pose proof (proj1 (forallb_forall _ _) word_all d Hin') as Hw. unfold word_check in Hw.
    pose proof (cat_exhaustive d Hd) as Hc. destruct (encode_lossless_diff d) as [cat mag].
    destruct Hc as (_ & _ & Hc3). apply andb_true_iff in Hw. destruct Hw as [Hw _]. apply Z.eqb_eq in Hw.
    rewrite <- Hc3, <- Hw. exact E. }
  split; [exact Hin|].
  rewrite (t81_word_eq bits vals d (table_ok_facts _ _ Ht) Hd Hin) in H. injection H as H. symmetry; exact H.
Qed.

Section WordsLink.
  Variable slots : list (option tbt).
  Variable tds : list Z.
  (* the table of component k *)
  Definition tb_of (k : nat) : option tbt := nth (Z.to_nat (nth k tds 0)) slots None.

  Lemma words_px_link : forall v s0 tb rest ws,
    length v = length tb -> Forall tok tb -> Forall (fun d => -32768 <= d <= 32767) v ->
    (forall j, (j < length tb)%nat -> tb_of (s0 + j) = Some (nth j tb ([], []))) ->
    t81g_words slots tds (combine (seq s0 (length v)) v ++ rest) = Some ws ->
    exists ws', t81g_words slots tds rest = Some ws' /\ ws = words_px tb v ++ ws' /\ px_cov tb v.
  Proof.
    induction v as [|d v IH]; intros s0 tb rest ws Hl Ht Hr Htb H.
    - destruct tb; [|discriminate]. cbn [length seq combine app] in H. exists ws.
      split; [exact H|]. split; [reflexivity | exact I].
    - destruct tb as [|t tb]; [discriminate|].
      cbn [length seq combine app t81g_words fst snd] in H.
      pose proof (Htb 0%nat ltac:(simpl; lia)) as H0. rewrite Nat.add_0_r in H0.
      unfold tb_of in H0. cbn [nth] in H0. rewrite H0 in H.
      inversion Ht as [|? ? Ht0 Ht']; subst. inversion Hr as [|? ? Hd Hr']; subst.
      destruct (t81_word (t81_entries (fst t) (snd t)) d) as [wd|] eqn:Ew; [|discriminate].
      destruct (t81g_words slots tds (combine (seq (S s0) (length v)) v ++ rest)) as [ws1|] eqn:Er; [|discriminate].
      injection H as <-.
      destruct (t81_word_inv t d wd Ht0 Hd Ew) as [Hin ->].
      destruct (IH (S s0) tb rest ws1) as (ws' & E1 & E2 & E3); try assumption.
      { simpl in Hl. lia. }
      { intros j Hj. specialize (Htb (S j) ltac:(simpl; lia)). rewrite Nat.add_succ_r in Htb. exact Htb. }
      exists ws'. split; [exact E1|]. split.
      + cbn [words_px app]. rewrite E2. reflexivity.
      + cbn [px_cov]. split; [split; assumption | exact E3].
  Qed.

  Lemma words_D_link : forall D tb ws,
    Forall (fun v => length v = length tb) D -> Forall tok tb ->
    Forall (Forall (fun d => -32768 <= d <= 32767)) D ->
    (forall j, (j < length tb)%nat -> tb_of j = Some (nth j tb ([], []))) ->
    t81g_words slots tds (concat (map (fun v => combine (seq 0 (length tb)) v) D)) = Some ws ->
    ws = concat (map (words_px tb) D) /\ Forall (px_cov tb) D.
  Proof.
    induction D as [|v D IH]; intros tb ws Hl Ht Hr Htb H.
    - cbn in H. injection H as <-. split; [reflexivity | constructor].
    - inversion Hl as [|? ? Lv Hl']; subst. inversion Hr as [|? ? Hrv Hr']; subst.
      cbn [map concat] in H. rewrite <- Lv in H at 1.
      destruct (words_px_link v 0%nat tb _ ws Lv Ht Hrv Htb H) as (ws' & E1 & E2 & E3).
      destruct (IH tb ws' Hl' Ht Hr' Htb E1) as [E4 E5].
      split; [cbn [map concat]; rewrite E2, E4; reflexivity | constructor; assumption].
  Qed.
End WordsLink.

(* ---------- the whole scan ---------- *)
Lemma dec_image_gen : forall pred P predf rec,
  (forall r c l a al, predf r c l a al = ll_pred pred (2 ^ (P - 1)) r c l a al) ->
  (forall r c l a al x, good P l -> good P a -> good P al -> good P x ->
     rec (predf r c l a al) (narrow_diff x (predf r c l a al)) = x) ->
  forall w h tbl rows bs pad, 2 <= P -> Forall tok tbl -> length rows = Z.to_nat h ->
  Forall (fun r => length r = Z.to_nat w /\ Forall (goodpx P (length tbl)) r) rows ->
  bytes_ok bs ->
  Forall (px_cov tbl) (Drows pred P true (repeat 0 (length tbl)) (repeat (repeat 0 (length tbl)) (Z.to_nat w)) rows) ->
  bits8 bs = concat (concat (map (words_px tbl)
               (Drows pred P true (repeat 0 (length tbl)) (repeat (repeat 0 (length tbl)) (Z.to_nat w)) rows))) ++ pad ->
  dec_image predf rec w h (htabs tbl) (stuff bs) = Ok rows.
Proof.
  intros pred P predf rec Hpf Hrec w h tbl rows bs pad HP Ht Hlen Hrows Hbs Hcov Hbits.
  unfold dec_image. assert (Hl : length (htabs tbl) = length tbl) by (unfold htabs; apply map_length).
  rewrite Hl. pose proof (repeat_goodpx P (length tbl) HP) as Gd.
  destruct (dec_rows_gen pred P predf rec Hpf Hrec tbl rows (repeat (repeat 0 (length tbl)) (Z.to_nat w))
              (repeat 0 (length tbl)) (Z.to_nat w) (r_init (stuff bs)) pad true) as (st' & Edec & _);
    try assumption.
  - apply repeat_length.
  - apply Forall_forall. intros x Hx. apply repeat_spec in Hx. subst x. exact Gd.
  - rewrite <- Hbits. rewrite <- (app_nil_r (stuff bs)). apply rep_init. exact Hbs.
  - rewrite <- Hlen. rewrite Edec. reflexivity.
Qed.

Lemma Forall_concat_inv : forall {A} (Q : A -> Prop) (D : list (list A)), Forall Q (concat D) -> Forall (Forall Q) D.
Proof.
  induction D as [|v D IH]; intros H; [constructor|]. cbn [concat] in H. apply Forall_app in H.
  destruct H as [H1 H2]. constructor; [exact H1 | apply IH; exact H2].
Qed.

Definition slot_ok (o : option tbt) : Prop := match o with Some t => tok t | None => True end.
(* the table of destination td *)
Definition tb_at (slots : list (option tbt)) (td : Z) : tbt :=
  match nth (Z.to_nat td) slots None with Some t => t | None => ([], []) end.

Lemma slot_tok : forall slots td, Forall slot_ok slots -> t81g_slot_defined slots td = true ->
  tok (tb_at slots td).
Proof.
  intros slots td Hs Hd. unfold tb_at, t81g_slot_defined in *.
  destruct (nth (Z.to_nat td) slots None) as [t|] eqn:E; [|discriminate].
  assert (Hin : In (Some t) slots).
  { rewrite <- E. apply nth_In. destruct (lt_dec (Z.to_nat td) (length slots)); [assumption|].
    rewrite nth_overflow in E by lia. discriminate. }
  apply (proj1 (Forall_forall _ _) Hs) in Hin. exact Hin.
Qed.

(* what the generator's scan is, in terms of the rows of the Go codecs *)
Lemma gen_scan : forall sel (cids tds : list Z) slots w h P pixels ws,
  wf_image w h (Z.of_nat (length cids)) P pixels -> 1 <= sel <= 7 -> length tds = length cids ->
  Forall slot_ok slots -> forallb (t81g_slot_defined slots) tds = true ->
  t81g_words slots tds (t81_scan_diffs w h (Z.of_nat (length cids)) P sel pixels) = Some ws ->
  Forall tok (map (tb_at slots) tds) /\
  exists bs pad, t81_emit [] ws = stuff bs /\ bytes_ok bs /\
    Forall (px_cov (map (tb_at slots) tds))
      (Drows sel P true (repeat 0 (length cids)) (repeat (repeat 0 (length cids)) (Z.to_nat w))
             (pixels_to_rows w h (Z.of_nat (length cids)) P pixels)) /\
    bits8 bs = concat (concat (map (words_px (map (tb_at slots) tds))
      (Drows sel P true (repeat 0 (length cids)) (repeat (repeat 0 (length cids)) (Z.to_nat w))
             (pixels_to_rows w h (Z.of_nat (length cids)) P pixels)))) ++ pad.
Proof.
  intros sel cids tds slots w h P pixels ws Hwf Hsel Hlt Hs Hdef Hw.
  set (tbl := map (tb_at slots) tds).
  assert (Ltbl : length tbl = length cids) by (unfold tbl; rewrite map_length; exact Hlt).
  assert (Ht : Forall tok tbl).
  { unfold tbl. apply Forall_forall. intros t Hin. apply in_map_iff in Hin. destruct Hin as (td & <- & Hin).
    apply slot_tok; [exact Hs|]. apply (proj1 (forallb_forall _ _) Hdef). exact Hin. }
  split; [exact Ht|].
  rewrite (scan_diffs_eq w h _ P sel pixels Hwf Hsel) in Hw. rewrite Nat2Z.id in Hw.
  destruct (rows_facts w h _ P pixels Hwf) as (Hlen & Hrows & _). rewrite Nat2Z.id in Hrows.
  set (rows := pixels_to_rows w h (Z.of_nat (length cids)) P pixels) in *.
  set (D := Drows sel P true (repeat 0 (length cids)) (repeat (repeat 0 (length cids)) (Z.to_nat w)) rows) in *.
  assert (HD : Forall (fun v => length v = length cids) D).
  { unfold D. apply Drows_pxok.
    - apply Forall_forall. intros row Hr. apply (proj1 (Forall_forall _ _) Hrows) in Hr. destruct Hr as [_ Hr].
      eapply Forall_impl; [|exact Hr]. intros px [Hp _]. exact Hp.
    - apply Forall_forall. intros x Hx. apply repeat_spec in Hx. subst x. apply repeat_length. }
  assert (HR : Forall (Forall (fun d => -32768 <= d <= 32767)) D).
  { apply Forall_concat_inv. unfold D. rewrite <- rows_map_Drows. apply rows_map_Forall.
    intros. apply narrow16_range. }
  rewrite <- Ltbl in Hw.
  destruct (words_D_link slots tds D tbl ws) as [Ews Hcov]; try assumption.
  - rewrite Ltbl. exact HD.
  - intros j Hj. unfold tb_of, tbl.
    rewrite nth_indep with (d' := tb_at slots 0) by exact Hj. rewrite map_nth.
    unfold tbl in Hj. rewrite map_length in Hj.
    assert (Hin : In (nth j tds 0) tds) by (apply nth_In; exact Hj).
    apply (proj1 (forallb_forall _ _) Hdef) in Hin. unfold t81g_slot_defined in Hin. unfold tb_at.
    destruct (nth (Z.to_nat (nth j tds 0)) slots None); [reflexivity | discriminate].
  - destruct (emit_stuff ws []) as (bs & pad & E1 & E2 & E3); [simpl; lia|].
    exists bs, pad. split; [exact E1|]. split; [exact E2|]. split; [exact Hcov|].
    cbn [app] in E3. rewrite E3, Ews. reflexivity.
Qed.
