(* Bit-level facts: lists of bits (MSB first), packing into bytes, stuffing; the uint32
   accumulators of the Go bit writer / reader (JllBits) refine the list semantics
   (t81_pack / t81_emit of JllT81 are used as the specification of the writer). *)
From V Require Import Common.Base JpegLL.JllBits JpegLL.JllT81.

Notation bits_of := t81_to_bits.
Definition bval (l : list bool) : Z := t81_of_bits l 0.
Definition b2z (b : bool) : Z := if b then 1 else 0.

(* ---------- constants ---------- *)
Lemma ones32 : 4294967295 = Z.ones 32. Proof. reflexivity. Qed.
Lemma u32_mod : forall x, u32 x = x mod 2 ^ 32.
Proof. intros. unfold u32. rewrite ones32. apply Z.land_ones. lia. Qed.
Lemma u32_wrapU : forall x, u32 x = wrapU 32 x.
Proof. intros. rewrite u32_mod. reflexivity. Qed.
Lemma byte_of_mod : forall x, byte_of x = x mod 256.
Proof. intros. unfold byte_of. change 255 with (Z.ones 8). rewrite Z.land_ones by lia. reflexivity. Qed.
Lemma u32_small : forall x, 0 <= x < 2 ^ 32 -> u32 x = x.
Proof. intros. rewrite u32_mod. apply Z.mod_small. assumption. Qed.
Lemma u32_range : forall x, 0 <= u32 x < 2 ^ 32.
Proof. intros. rewrite u32_mod. apply Z.mod_pos_bound. lia. Qed.

Lemma testbit_u32 : forall x i, 0 <= i -> Z.testbit (u32 x) i = Z.testbit x i && (i <? 32).
Proof.
  intros. unfold u32. rewrite ones32. rewrite Z.land_spec.
  destruct (Z.ltb_spec i 32).
  - rewrite Z.ones_spec_low by lia. reflexivity.
  - rewrite Z.ones_spec_high by lia. reflexivity.
Qed.

Lemma shl32_small : forall x n, 0 <= x -> 0 <= n -> x * 2 ^ n < 2 ^ 32 -> shl32 x n = x * 2 ^ n.
Proof.
  intros. unfold shl32. rewrite Z.shiftl_mul_pow2 by lia. apply u32_small.
  split; [|assumption]. apply Z.mul_nonneg_nonneg; [lia|]. apply Z.pow_nonneg; lia.
Qed.

Lemma mask32_ones : forall n, 0 <= n < 32 -> mask32 n = Z.ones n.
Proof.
  intros n Hn. unfold mask32.
  assert (Hp : 0 < 2 ^ n < 2 ^ 32).
  { split; [apply Z.pow_pos_nonneg; lia | apply Z.pow_lt_mono_r; lia]. }
  rewrite shl32_small by lia. rewrite Z.mul_1_l.
  rewrite u32_small by lia. rewrite Z.ones_equiv. lia.
Qed.

(* ---------- bit lists ---------- *)
Lemma bits_of_length : forall n v, length (bits_of n v) = n.
Proof. induction n; intros; simpl; [reflexivity | rewrite IHn; reflexivity]. Qed.

Lemma bits_of_ext : forall n a b,
  (forall i, 0 <= i < Z.of_nat n -> Z.testbit a i = Z.testbit b i) -> bits_of n a = bits_of n b.
Proof.
  induction n; intros a b H; simpl; [reflexivity|].
  f_equal; [apply H; lia | apply IHn; intros; apply H; lia].
Qed.

Lemma bits_of_app : forall n m v,
  bits_of (n + m) v = bits_of n (Z.shiftr v (Z.of_nat m)) ++ bits_of m v.
Proof.
  induction n; intros m v; simpl; [reflexivity|].
  f_equal; [|apply IHn].
  rewrite Z.shiftr_spec by lia. f_equal. lia.
Qed.

Lemma of_bits_acc : forall l acc, t81_of_bits l acc = acc * 2 ^ Z.of_nat (length l) + bval l.
Proof.
  unfold bval. induction l as [|b l IH]; intros acc.
  - simpl. lia.
  - cbn [t81_of_bits length]. rewrite IH. rewrite (IH (2 * 0 + _)).
    rewrite Nat2Z.inj_succ, Z.pow_succ_r by lia. ring.
Qed.

Lemma bval_cons : forall b l, bval (b :: l) = Z.b2z b * 2 ^ Z.of_nat (length l) + bval l.
Proof.
  intros. unfold bval at 1. cbn [t81_of_bits]. rewrite of_bits_acc.
  destruct b; cbn [Z.b2z]; ring.
Qed.

Lemma bval_app : forall a b, bval (a ++ b) = bval a * 2 ^ Z.of_nat (length b) + bval b.
Proof.
  induction a as [|x a IH]; intros b.
  - simpl. unfold bval. simpl. lia.
  - cbn [app]. rewrite !bval_cons, IH, app_length, Nat2Z.inj_add, Z.pow_add_r by lia. ring.
Qed.

Lemma bval_range : forall l, 0 <= bval l < 2 ^ Z.of_nat (length l).
Proof.
  induction l as [|b l IH].
  - unfold bval. simpl. lia.
  - rewrite bval_cons. cbn [length]. rewrite Nat2Z.inj_succ, Z.pow_succ_r by lia.
    destruct b; cbn [Z.b2z]; lia.
Qed.

Lemma bits_of_mod : forall n v, bits_of n (v mod 2 ^ Z.of_nat n) = bits_of n v.
Proof.
  intros. apply bits_of_ext. intros i Hi. apply Z.mod_pow2_bits_low. lia.
Qed.

Lemma bval_bits_of : forall n v, bval (bits_of n v) = v mod 2 ^ Z.of_nat n.
Proof.
  induction n; intros v.
  - unfold bval. simpl. rewrite Z.mod_1_r. reflexivity.
  - cbn [t81_to_bits]. rewrite bval_cons, bits_of_length, IHn.
    rewrite Nat2Z.inj_succ, Z.pow_succ_r by lia.
    set (k := Z.of_nat n). assert (Hk : 0 <= k) by lia.
    assert (Hp : 0 < 2 ^ k) by (apply Z.pow_pos_nonneg; lia).
    rewrite Z.testbit_spec' by lia.
    rewrite (Z.mul_comm 2), Z.rem_mul_r by lia. ring.
Qed.

Lemma bits_of_bval : forall l, bits_of (length l) (bval l) = l.
Proof.
  induction l as [|b l IH]; [reflexivity|].
  cbn [length t81_to_bits]. rewrite bval_cons.
  pose proof (bval_range l) as R.
  assert (Hp : 0 < 2 ^ Z.of_nat (length l)) by (apply Z.pow_pos_nonneg; lia).
  f_equal.
  - apply Z.b2z_inj. rewrite Z.testbit_spec' by lia.
    rewrite Z.div_add_l by lia. rewrite (Z.div_small (bval l)) by lia.
    destruct b; reflexivity.
  - transitivity (bits_of (length l) (bval l)); [|exact IH].
    rewrite <- (bits_of_mod (length l) (Z.b2z b * 2 ^ Z.of_nat (length l) + bval l)).
    replace (Z.b2z b * 2 ^ Z.of_nat (length l) + bval l)
      with (bval l + Z.b2z b * 2 ^ Z.of_nat (length l)) by ring.
    rewrite Z.mod_add by lia. rewrite Z.mod_small by lia. reflexivity.
Qed.

Lemma bits_of_ones : forall n m, (n <= m)%nat -> bits_of n (Z.ones (Z.of_nat m)) = repeat true n.
Proof.
  induction n; intros m H; [reflexivity|].
  cbn [t81_to_bits repeat]. f_equal.
  - apply Z.ones_spec_low. lia.
  - apply IHn. lia.
Qed.

Lemma bits_of_8 : forall x, bits_of 8 x =
  [Z.testbit x 7; Z.testbit x 6; Z.testbit x 5; Z.testbit x 4;
   Z.testbit x 3; Z.testbit x 2; Z.testbit x 1; Z.testbit x 0].
Proof. reflexivity. Qed.

(* ---------- packing ---------- *)
Definition stuff (bs : list Z) : list Z := flat_map write_byte bs.

Lemma stuff_app : forall a b, stuff (a ++ b) = stuff a ++ stuff b.
Proof. intros. unfold stuff. apply flat_map_app. Qed.

Lemma pack_cons8 : forall a b c d e f g h rest,
  t81_pack (a :: b :: c :: d :: e :: f :: g :: h :: rest) =
  (write_byte (bval [a; b; c; d; e; f; g; h]) ++ fst (t81_pack rest), snd (t81_pack rest)).
Proof. reflexivity. Qed.

Lemma pack_short : forall l, (length l < 8)%nat -> t81_pack l = ([], l).
Proof.
  intros l H. do 8 (destruct l as [|? l]; [reflexivity|]). simpl in H. lia.
Qed.

Lemma pack_bits8 : forall x rest,
  t81_pack (bits_of 8 x ++ rest) =
  (write_byte (byte_of x) ++ fst (t81_pack rest), snd (t81_pack rest)).
Proof.
  intros. rewrite byte_of_mod. change 256 with (2 ^ Z.of_nat 8). rewrite <- bval_bits_of.
  rewrite bits_of_8. cbn [app]. apply pack_cons8.
Qed.

Lemma pack_app_aux : forall n a b, (length a <= n)%nat ->
  t81_pack (a ++ b) =
  (fst (t81_pack a) ++ fst (t81_pack (snd (t81_pack a) ++ b)), snd (t81_pack (snd (t81_pack a) ++ b))).
Proof.
  induction n as [n IH] using lt_wf_ind. intros a b Hl.
  destruct (le_lt_dec 8 (length a)) as [H8|H8].
  - do 8 (destruct a as [|? a]; [simpl in H8; lia|]).
    cbn [app]. rewrite !pack_cons8. cbn [fst snd].
    rewrite (IH (length a)) with (a := a) (b := b); [|simpl in Hl; lia|lia].
    cbn [fst snd]. rewrite app_assoc. reflexivity.
  - rewrite (pack_short a) by assumption. cbn [fst snd app]. destruct (t81_pack (a ++ b)); reflexivity.
Qed.
Lemma pack_app : forall a b,
  t81_pack (a ++ b) =
  (fst (t81_pack a) ++ fst (t81_pack (snd (t81_pack a) ++ b)), snd (t81_pack (snd (t81_pack a) ++ b))).
Proof. intros. apply pack_app_aux with (n := length a). lia. Qed.

Lemma pack_snd_short : forall n l, (length l <= n)%nat -> (length (snd (t81_pack l)) < 8)%nat.
Proof.
  induction n as [n IH] using lt_wf_ind. intros l Hl.
  destruct (le_lt_dec 8 (length l)) as [H8|H8].
  - do 8 (destruct l as [|? l]; [simpl in H8; lia|]).
    rewrite pack_cons8. cbn [snd]. apply (IH (length l)); simpl in Hl; lia.
  - rewrite pack_short by assumption. assumption.
Qed.

(* ---------- the writer refines t81_pack / t81_emit ---------- *)
Definition winv (st : wstate) (pend : list bool) : Prop :=
  0 <= w_n st < 8 /\ pend = bits_of (Z.to_nat (w_n st)) (w_bits st).

Lemma winv_init : winv w_init [].
Proof. split; [cbn; lia | reflexivity]. Qed.

Lemma drain_spec : forall k bits r, 0 <= r < 8 ->
  w_drain k bits (8 * Z.of_nat k + r) =
    (r, fst (t81_pack (bits_of (8 * k + Z.to_nat r) bits))) /\
  snd (t81_pack (bits_of (8 * k + Z.to_nat r) bits)) = bits_of (Z.to_nat r) bits.
Proof.
  induction k; intros bits r Hr.
  - cbn [w_drain Nat.mul Nat.add]. rewrite pack_short by (rewrite bits_of_length; lia).
    split; [f_equal; lia | reflexivity].
  - cbn [w_drain].
    replace (8 * Z.of_nat (S k) + r - 8) with (8 * Z.of_nat k + r) by lia.
    destruct (IHk bits r Hr) as [E1 E2]. rewrite E1.
    replace (8 * S k + Z.to_nat r)%nat with (8 + (8 * k + Z.to_nat r))%nat by lia.
    rewrite (bits_of_app 8 (8 * k + Z.to_nat r)), pack_bits8. cbn [fst snd].
    replace (Z.of_nat (8 * k + Z.to_nat r)) with (8 * Z.of_nat k + r) by lia.
    split; [reflexivity | exact E2].
Qed.

Lemma new_bits_spec : forall B wn v n, 0 <= wn -> 0 < n -> wn + n < 32 ->
  bits_of (Z.to_nat (wn + n)) (Z.lor (shl32 B n) (Z.land v (mask32 n))) =
  bits_of (Z.to_nat wn) B ++ bits_of (Z.to_nat n) v.
Proof.
  intros B wn v n Hw Hn Hs.
  replace (Z.to_nat (wn + n)) with (Z.to_nat wn + Z.to_nat n)%nat by lia.
  rewrite bits_of_app. rewrite mask32_ones by lia. f_equal.
  - apply bits_of_ext. intros i Hi. rewrite Z2Nat.id in * by lia.
    rewrite Z.shiftr_spec, Z.lor_spec, Z.land_spec by lia.
    unfold shl32. rewrite testbit_u32 by lia. rewrite Z.shiftl_spec by lia.
    rewrite Z.ones_spec_high by lia.
    replace (i + n - n) with i by lia.
    destruct (Z.ltb_spec (i + n) 32); [|lia]. rewrite andb_true_r, andb_false_r, orb_false_r. reflexivity.
  - apply bits_of_ext. intros i Hi. rewrite Z2Nat.id in * by lia.
    rewrite Z.lor_spec, Z.land_spec.
    unfold shl32. rewrite testbit_u32 by lia. rewrite Z.shiftl_spec_low by lia.
    rewrite Z.ones_spec_low by lia. rewrite andb_true_r. reflexivity.
Qed.

Lemma write_bits_spec : forall st pend v n, winv st pend -> 0 < n <= 24 ->
  exists st', write_bits st v n =
              (st', fst (t81_pack (pend ++ bits_of (Z.to_nat n) v))) /\
              winv st' (snd (t81_pack (pend ++ bits_of (Z.to_nat n) v))).
Proof.
  intros st pend v n [Hw Hp] Hn. unfold write_bits.
  destruct (Z.eqb_spec n 0); [lia|].
  set (bits := Z.lor (shl32 (w_bits st) n) (Z.land v (mask32 n))).
  set (nb := w_n st + n).
  assert (Hnb : 0 <= nb < 32) by (unfold nb; lia).
  rewrite Z.shiftr_div_pow2 by lia. change (2 ^ 3) with 8.
  pose proof (Z.div_mod nb 8 ltac:(lia)) as Hdm.
  pose proof (Z.mod_pos_bound nb 8 ltac:(lia)) as Hr.
  assert (Hq : 0 <= nb / 8) by (apply Z.div_pos; lia).
  set (k := Z.to_nat (nb / 8)).
  assert (Hnbk : nb = 8 * Z.of_nat k + nb mod 8) by (unfold k; rewrite Z2Nat.id by lia; lia).
  destruct (drain_spec k bits (nb mod 8) Hr) as [E1 E2].
  replace (w_drain k bits nb) with (w_drain k bits (8 * Z.of_nat k + nb mod 8))
    by (f_equal; lia).
  rewrite E1.
  assert (Hbits : bits_of (8 * k + Z.to_nat (nb mod 8)) bits = pend ++ bits_of (Z.to_nat n) v).
  { replace (8 * k + Z.to_nat (nb mod 8))%nat with (Z.to_nat (w_n st + n)) by (fold nb; lia).
    unfold bits. rewrite new_bits_spec by lia. rewrite Hp. reflexivity. }
  rewrite Hbits in E1, E2 |- *.
  eexists. split; [reflexivity|].
  split; cbn [w_n w_bits]; [lia | rewrite E2; reflexivity].
Qed.

Lemma flush_spec : forall st pend, winv st pend -> w_flush st = t81_emit pend [].
Proof.
  intros st pend [Hw Hp]. unfold w_flush. cbn [t81_emit].
  destruct (Z.ltb_spec 0 (w_n st)) as [Hpos|Hz].
  - set (k := 8 - w_n st).
    assert (Hk : 0 < k < 8) by (unfold k; lia).
    assert (Hlen : length pend = Z.to_nat (w_n st)) by (rewrite Hp; apply bits_of_length).
    assert (E : pend ++ repeat true (8 - length pend) =
                bits_of 8 (Z.lor (shl32 (w_bits st) k) (u32 (shl32 1 k - 1)))).
    { change (u32 (shl32 1 k - 1)) with (mask32 k).
      rewrite <- (Z.land_diag (mask32 k)) at 1. rewrite (mask32_ones k) at 1 by lia.
      replace 8%nat with (Z.to_nat (w_n st + k)) by (unfold k; lia).
      rewrite new_bits_spec by lia. rewrite <- Hp. f_equal.
      replace (Z.ones k) with (Z.ones (Z.of_nat (Z.to_nat k))) by (f_equal; lia).
      rewrite bits_of_ones by lia. f_equal. unfold k. lia. }
    destruct pend as [|b pend']; [simpl in Hlen; lia|].
    rewrite E. rewrite <- (app_nil_r (bits_of 8 _)). rewrite pack_bits8. cbn [fst].
    rewrite pack_short by (simpl; lia). cbn [fst]. symmetry. apply app_nil_r.
  - assert (w_n st = 0) by lia. rewrite H in Hp. cbn in Hp. subst pend. reflexivity.
Qed.

(* ---------- the reader ---------- *)
Definition bytes_ok (bs : list Z) : Prop := Forall (fun b => 0 <= b < 256) bs.
Definition bits8 (bs : list Z) : list bool := flat_map (bits_of 8) bs.

Lemma bits8_app : forall a b, bits8 (a ++ b) = bits8 a ++ bits8 b.
Proof. intros. unfold bits8. apply flat_map_app. Qed.
Lemma bits8_length : forall bs, length (bits8 bs) = (8 * length bs)%nat.
Proof. induction bs; [reflexivity|]. unfold bits8 in *. cbn [flat_map]. rewrite app_length, IHbs, bits_of_length. simpl. lia. Qed.

(* the reader state stands for the bit sequence B (all of it, including what will never be read) *)
Definition rep (st : rstate) (B : list bool) : Prop :=
  exists bs tail, r_rest st = stuff bs ++ tail /\ bytes_ok bs /\ 0 <= r_n st <= 7 /\
                  B = bits_of (Z.to_nat (r_n st)) (r_bits st) ++ bits8 bs.

Lemma rep_init : forall bs tail, bytes_ok bs -> rep (r_init (stuff bs ++ tail)) (bits8 bs).
Proof. intros. exists bs, tail. cbn. repeat split; try lia; assumption. Qed.

Lemma next_byte_stuff : forall b bs tail, 0 <= b < 256 ->
  next_byte (stuff (b :: bs) ++ tail) = Some (b, stuff bs ++ tail).
Proof.
  intros. unfold stuff. cbn [flat_map]. unfold write_byte at 1.
  destruct (Z.eqb_spec b 255) as [E|E].
  - subst. reflexivity.
  - cbn [app next_byte]. destruct (Z.eqb_spec b 255); [contradiction|reflexivity].
Qed.

Lemma bits_of_S : forall n v, bits_of (S n) v = Z.testbit v (Z.of_nat n) :: bits_of n v.
Proof. reflexivity. Qed.

Lemma cons_eq_inv : forall (a b : bool) l m, a :: l = b :: m -> a = b /\ l = m.
Proof. intros a b l m H. split; [exact (f_equal (hd false) H) | exact (f_equal (@tl bool) H)]. Qed.

Lemma read_bit_spec : forall st b B, rep st (b :: B) ->
  exists st', read_bit st = Some (b, st') /\ rep st' B.
Proof.
  intros st b B (bs & tail & Hrest & Hbs & Hn & HB). unfold read_bit.
  destruct (Z.eqb_spec (r_n st) 0) as [E|E].
  - rewrite E in HB. cbn [Z.to_nat t81_to_bits app] in HB.
    destruct bs as [|x bs]; [discriminate|].
    inversion Hbs as [|? ? Hx Hbs']; subst.
    rewrite Hrest, next_byte_stuff by assumption.
    unfold bits8 in HB. cbn [flat_map] in HB.
    change (bits_of 8 x) with (Z.testbit x (Z.of_nat 7) :: bits_of 7 x) in HB.
    cbn [app] in HB. apply cons_eq_inv in HB. destruct HB as [Hb HB'].
    eexists. split.
    + rewrite <- Z.bit0_odd, Z.shiftr_spec by lia. rewrite Hb. reflexivity.
    + exists bs, tail. cbn [r_rest r_n r_bits]. repeat split; try lia; try assumption.
  - assert (Hpos : 0 < r_n st) by lia.
    replace (Z.to_nat (r_n st)) with (S (Z.to_nat (r_n st - 1))) in HB by lia.
    rewrite bits_of_S in HB. cbn [app] in HB. apply cons_eq_inv in HB. destruct HB as [Hb HB'].
    eexists. split.
    + rewrite <- Z.bit0_odd, Z.shiftr_spec by lia. rewrite Hb. f_equal. f_equal. f_equal. f_equal. lia.
    + exists bs, tail. cbn [r_rest r_n r_bits]. repeat split; try lia; assumption.
Qed.

Lemma app_eq_len : forall {A} (a c b d : list A),
  a ++ b = c ++ d -> length a = length c -> a = c /\ b = d.
Proof.
  induction a as [|x a IH]; intros c b d H L; destruct c as [|y c]; try discriminate.
  - split; [reflexivity | exact H].
  - cbn [app] in H. injection H as Hx H. cbn [length] in L.
    destruct (IH c b d H ltac:(lia)) as [E1 E2]. subst. split; reflexivity.
Qed.

Lemma fill_bits_spec : forall bits m b, 0 <= m -> m + 8 < 32 -> 0 <= b < 256 ->
  bits_of (Z.to_nat (m + 8)) (Z.lor (shl32 bits 8) b) = bits_of (Z.to_nat m) bits ++ bits_of 8 b.
Proof.
  intros bits m b Hm Hs Hb.
  assert (E : b = Z.land b (mask32 8)).
  { rewrite mask32_ones by lia. rewrite Z.land_ones by lia. symmetry. apply Z.mod_small. exact Hb. }
  rewrite E at 1. rewrite new_bits_spec by lia. reflexivity.
Qed.

Lemma r_fill_spec : forall k bits m bs1 bs2 tail, length bs1 = k -> bytes_ok bs1 -> 0 <= m ->
  m + 8 * Z.of_nat k < 32 ->
  exists bits', r_fill k bits m (stuff (bs1 ++ bs2) ++ tail) =
                  Some (bits', m + 8 * Z.of_nat k, stuff bs2 ++ tail) /\
                bits_of (Z.to_nat (m + 8 * Z.of_nat k)) bits' = bits_of (Z.to_nat m) bits ++ bits8 bs1.
Proof.
  induction k; intros bits m bs1 bs2 tail Hl Hb Hm Hs.
  - destruct bs1; [|discriminate]. cbn [r_fill app]. exists bits. split.
    + f_equal. f_equal. f_equal. lia.
    + replace (m + 8 * Z.of_nat 0) with m by lia. cbn. rewrite app_nil_r. reflexivity.
  - destruct bs1 as [|b bs1]; [discriminate|]. inversion Hb as [|? ? Hb0 Hb1]; subst.
    cbn [r_fill]. cbn [app]. rewrite next_byte_stuff by assumption.
    destruct (IHk (Z.lor (shl32 bits 8) b) (m + 8) bs1 bs2 tail) as (bits' & E1 & E2);
      [simpl in Hl; lia | assumption | lia | lia |].
    exists bits'. split.
    + rewrite E1. f_equal. f_equal. f_equal. lia.
    + replace (m + 8 * Z.of_nat (S k)) with (m + 8 + 8 * Z.of_nat k) by lia.
      rewrite E2. rewrite fill_bits_spec by lia. unfold bits8. cbn [flat_map].
      rewrite app_assoc. reflexivity.
Qed.

Lemma bytes_ok_firstn : forall k l, bytes_ok l -> bytes_ok (firstn k l).
Proof.
  induction k; intros l H; [constructor|]. destruct l; [constructor|].
  inversion H; subst. constructor; [assumption | apply IHk; assumption].
Qed.
Lemma bytes_ok_skipn : forall k l, bytes_ok l -> bytes_ok (skipn k l).
Proof.
  induction k; intros l H; [exact H|]. destruct l; [constructor|].
  inversion H; subst. apply IHk; assumption.
Qed.

Lemma read_bits_spec : forall st n W B, 0 < n <= 16 -> rep st (W ++ B) -> length W = Z.to_nat n ->
  exists st', read_bits st n = Some (bval W, st') /\ rep st' B.
Proof.
  intros st n W B Hn (bs & tail & Hrest & Hbs & Hrn & HB) HW. unfold read_bits.
  destruct (Z.eqb_spec n 0); [lia|].
  set (k := if r_n st <? n then Z.to_nat (Z.shiftr (n - r_n st + 7) 3) else 0%nat).
  assert (Hlen : (Z.to_nat n <= Z.to_nat (r_n st) + 8 * length bs)%nat).
  { apply (f_equal (@length bool)) in HB. rewrite !app_length, bits_of_length, bits8_length in HB. lia. }
  assert (Hk : (k <= length bs)%nat /\ n <= r_n st + 8 * Z.of_nat k < n + 8).
  { unfold k. destruct (Z.ltb_spec (r_n st) n) as [Hlt|Hge].
    - rewrite Z.shiftr_div_pow2 by lia. change (2 ^ 3) with 8.
      pose proof (Z.div_mod (n - r_n st + 7) 8 ltac:(lia)) as Hdm.
      pose proof (Z.mod_pos_bound (n - r_n st + 7) 8 ltac:(lia)) as Hr.
      assert (0 <= (n - r_n st + 7) / 8) by (apply Z.div_pos; lia).
      rewrite Z2Nat.id by lia. split; [|lia]. lia.
    - split; [lia|]. lia. }
  destruct Hk as [Hk1 Hk2].
  rewrite Hrest.
  replace (stuff bs) with (stuff (firstn k bs ++ skipn k bs)) by (rewrite firstn_skipn; reflexivity).
  assert (Hb1 : bytes_ok (firstn k bs)) by (apply bytes_ok_firstn; assumption).
  destruct (r_fill_spec k (r_bits st) (r_n st) (firstn k bs) (skipn k bs) tail) as (bits' & E1 & E2);
    [apply firstn_length_le; lia | assumption | lia | lia |].
  rewrite E1.
  set (nb := r_n st + 8 * Z.of_nat k) in *.
  set (nb' := nb - n).
  assert (Hsplit : bits_of (Z.to_nat nb) bits' =
                   bits_of (Z.to_nat n) (Z.shiftr bits' nb') ++ bits_of (Z.to_nat nb') bits').
  { replace (Z.to_nat nb) with (Z.to_nat n + Z.to_nat nb')%nat by (unfold nb'; lia).
    rewrite bits_of_app. rewrite Z2Nat.id by (unfold nb'; lia). reflexivity. }
  assert (HB2 : W ++ B = bits_of (Z.to_nat n) (Z.shiftr bits' nb') ++
                         (bits_of (Z.to_nat nb') bits' ++ bits8 (skipn k bs))).
  { rewrite app_assoc, <- Hsplit, E2, <- app_assoc, <- bits8_app, firstn_skipn. exact HB. }
  apply app_eq_len in HB2; [|rewrite bits_of_length; exact HW]. destruct HB2 as [EW EB].
  eexists. split.
  - f_equal. f_equal. rewrite mask32_ones by lia. rewrite Z.land_ones by lia.
    rewrite EW, bval_bits_of. rewrite Z2Nat.id by lia. reflexivity.
  - exists (skipn k bs), tail. cbn [r_rest r_n r_bits]. repeat split.
    + apply bytes_ok_skipn; assumption.
    + unfold nb'. lia.
    + unfold nb'. lia.
    + exact EB.
Qed.

(* ---------- what t81_pack / t81_emit produce, as stuffed bytes ---------- *)
Lemma bval_byte : forall l, length l = 8%nat -> 0 <= bval l < 256.
Proof. intros l H. pose proof (bval_range l) as R. rewrite H in R. exact R. Qed.

Lemma pack_stuff_aux : forall n l, (length l <= n)%nat ->
  exists bs, fst (t81_pack l) = stuff bs /\ bytes_ok bs /\ l = bits8 bs ++ snd (t81_pack l).
Proof.
  induction n as [n IH] using lt_wf_ind. intros l Hl.
  destruct (le_lt_dec 8 (length l)) as [H8|H8].
  - do 8 (destruct l as [|? l]; [simpl in H8; lia|]).
    rewrite pack_cons8. cbn [fst snd].
    destruct (IH (length l) ltac:(simpl in Hl; lia) l ltac:(lia)) as (bs & E1 & E2 & E3).
    exists (bval [b; b0; b1; b2; b3; b4; b5; b6] :: bs). split; [|split].
    + rewrite E1. reflexivity.
    + constructor; [apply bval_byte; reflexivity | assumption].
    + unfold bits8. cbn [flat_map]. fold (bits8 bs).
      change 8%nat with (length [b; b0; b1; b2; b3; b4; b5; b6]) at 1. rewrite bits_of_bval.
      cbn [app]. rewrite <- E3. reflexivity.
  - rewrite pack_short by assumption. exists []. repeat split; constructor.
Qed.
Lemma pack_stuff : forall l,
  exists bs, fst (t81_pack l) = stuff bs /\ bytes_ok bs /\ l = bits8 bs ++ snd (t81_pack l).
Proof. intros. apply pack_stuff_aux with (n := length l). lia. Qed.

Lemma bytes_ok_app : forall a b, bytes_ok a -> bytes_ok b -> bytes_ok (a ++ b).
Proof. intros. apply Forall_app. split; assumption. Qed.

Lemma emit_stuff : forall words pend, (length pend < 8)%nat ->
  exists bs pad, t81_emit pend words = stuff bs /\ bytes_ok bs /\
                 bits8 bs = pend ++ concat words ++ pad.
Proof.
  induction words as [|wd ws IH]; intros pend Hp.
  - cbn [t81_emit concat]. destruct pend as [|b pend'].
    + exists [], []. repeat split. constructor.
    + set (pend := b :: pend') in *.
      destruct (pack_stuff (pend ++ repeat true (8 - length pend))) as (bs & E1 & E2 & E3).
      assert (Hs : snd (t81_pack (pend ++ repeat true (8 - length pend))) = []).
      { assert (L : length (pend ++ repeat true (8 - length pend)) = 8%nat)
          by (rewrite app_length, repeat_length; lia).
        remember (pend ++ repeat true (8 - length pend)) as l8.
        do 8 (destruct l8 as [|? l8]; [simpl in L; lia|]). destruct l8; [|simpl in L; lia].
        reflexivity. }
      exists bs, (repeat true (8 - length pend)). split; [exact E1|]. split; [exact E2|].
      rewrite Hs in E3. rewrite app_nil_r in E3. cbn [app]. symmetry. exact E3.
  - cbn [t81_emit concat].
    destruct (pack_stuff (pend ++ wd)) as (bs1 & E1 & E2 & E3).
    destruct (IH (snd (t81_pack (pend ++ wd)))) as (bs2 & pad & F1 & F2 & F3).
    { apply pack_snd_short with (n := length (pend ++ wd)). lia. }
    exists (bs1 ++ bs2), pad. split; [|split].
    + rewrite E1, F1, stuff_app. reflexivity.
    + apply bytes_ok_app; assumption.
    + rewrite bits8_app, F3. rewrite app_assoc, <- E3. rewrite <- !app_assoc. reflexivity.
Qed.

(* the padding is shorter than a byte *)
Lemma emit_stuff_pad : forall words pend, (length pend < 8)%nat ->
  exists bs pad, t81_emit pend words = stuff bs /\ bytes_ok bs /\
                 bits8 bs = pend ++ concat words ++ pad /\ (length pad < 8)%nat.
Proof.
  induction words as [|wd ws IH]; intros pend Hp.
  - cbn [t81_emit concat]. destruct pend as [|b pend'].
    + exists [], []. split; [reflexivity|]. split; [constructor|]. split; [reflexivity | simpl; lia].
    + set (pend := b :: pend') in *.
      destruct (pack_stuff (pend ++ repeat true (8 - length pend))) as (bs & E1 & E2 & E3).
      assert (Hs : snd (t81_pack (pend ++ repeat true (8 - length pend))) = []).
      { assert (L : length (pend ++ repeat true (8 - length pend)) = 8%nat)
          by (rewrite app_length, repeat_length; lia).
        remember (pend ++ repeat true (8 - length pend)) as l8.
        do 8 (destruct l8 as [|? l8]; [simpl in L; lia|]). destruct l8; [|simpl in L; lia].
        reflexivity. }
      exists bs, (repeat true (8 - length pend)). split; [exact E1|]. split; [exact E2|].
      rewrite Hs in E3. rewrite app_nil_r in E3. cbn [app]. split; [symmetry; exact E3|].
      rewrite repeat_length. unfold pend. cbn [length]. lia.
  - cbn [t81_emit concat].
    destruct (pack_stuff (pend ++ wd)) as (bs1 & E1 & E2 & E3).
    destruct (IH (snd (t81_pack (pend ++ wd)))) as (bs2 & pad & F1 & F2 & F3 & F4).
    { apply pack_snd_short with (n := length (pend ++ wd)). lia. }
    exists (bs1 ++ bs2), pad. split; [|split; [|split]].
    + rewrite E1, F1, stuff_app. reflexivity.
    + apply bytes_ok_app; assumption.
    + rewrite bits8_app, F3. rewrite app_assoc, <- E3. rewrite <- !app_assoc. reflexivity.
    + exact F4.
Qed.

(* ---------- stuff_unstuff: what the bit writer wrote, the bit reader reads ---------- *)
Fixpoint write_all (st : wstate) (ws : list (Z * Z)) : list Z :=
  match ws with
  | [] => w_flush st
  | (v, n) :: ws' => let '(st', out) := write_bits st v n in out ++ write_all st' ws'
  end.
Fixpoint read_all (st : rstate) (ns : list Z) : option (list Z) :=
  match ns with
  | [] => Some []
  | n :: ns' =>
    match read_bits st n with
    | None => None
    | Some (v, st') => match read_all st' ns' with None => None | Some vs => Some (v :: vs) end
    end
  end.
Definition write_word (vn : Z * Z) : list bool := bits_of (Z.to_nat (snd vn)) (fst vn).

Lemma write_all_emit : forall ws st pend, winv st pend ->
  Forall (fun vn => 0 < snd vn <= 24) ws ->
  write_all st ws = t81_emit pend (map write_word ws).
Proof.
  induction ws as [|[v n] ws IH]; intros st pend Hi Hf.
  - cbn [write_all map]. apply flush_spec. exact Hi.
  - inversion Hf as [|? ? Hn Hf']; subst. cbn [snd] in Hn.
    cbn [write_all map t81_emit]. unfold write_word at 1. cbn [fst snd].
    destruct (write_bits_spec st pend v n Hi Hn) as (st' & E & Hi').
    rewrite E. f_equal. apply IH; assumption.
Qed.

Lemma read_all_spec : forall ws st pad,
  Forall (fun vn => 0 < snd vn <= 16) ws ->
  rep st (concat (map write_word ws) ++ pad) ->
  read_all st (map snd ws) = Some (map (fun vn => fst vn mod 2 ^ snd vn) ws).
Proof.
  induction ws as [|[v n] ws IH]; intros st pad Hf Hr; [reflexivity|].
  inversion Hf as [|? ? Hn Hf']; subst. cbn [snd] in Hn.
  cbn [map concat read_all fst snd] in *. rewrite <- app_assoc in Hr.
  destruct (read_bits_spec st n _ _ Hn Hr) as (st' & E & Hr').
  { unfold write_word. cbn [fst snd]. apply bits_of_length. }
  rewrite E, (IH st' pad Hf' Hr'). unfold write_word. cbn [fst snd].
  rewrite bval_bits_of, Z2Nat.id by lia. reflexivity.
Qed.

Theorem stuff_unstuff : forall ws tail,
  Forall (fun vn => 0 < snd vn <= 16) ws ->
  read_all (r_init (write_all w_init ws ++ tail)) (map snd ws)
  = Some (map (fun vn => fst vn mod 2 ^ snd vn) ws).
Proof.
  intros ws tail Hf.
  rewrite (write_all_emit ws w_init [] winv_init).
  2:{ eapply Forall_impl; [|exact Hf]. cbn. intros; lia. }
  destruct (emit_stuff (map write_word ws) []) as (bs & pad & E1 & E2 & E3); [simpl; lia|].
  rewrite E1. apply read_all_spec with (pad := pad); [exact Hf|].
  cbn [app] in E3. rewrite <- E3. apply rep_init. exact E2.
Qed.
