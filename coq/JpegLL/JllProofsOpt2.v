(* BuildOptimalHuffmanTable, part B: from Kraft-complete code sizes (at most 18 symbols, depth at
   most 17) the length limiting, the removal of the pseudo symbol and the value list give a
   valid canonical table.  The numeric part is decided over ALL count vectors by a pruned
   exhaustive search (11918 vectors). *)
From V Require Import Common.Base JpegLL.JllBits JpegLL.JllHuff JpegLL.JllModel JpegLL.JllT81
  JpegLL.JllProofsBits JpegLL.JllProofsHuff JpegLL.JllProofsOpt.

(* ---------- exhaustive search over count vectors ---------- *)
Fixpoint kraftw (l : list Z) (level : Z) : Z :=
  match l with
  | [] => 0
  | b :: l' => b * 2 ^ (17 - level) + kraftw l' (level + 1)
  end.

Fixpoint search (levels : nat) (level weight leaves : Z) (acc : list Z) (P : list Z -> bool) : bool :=
  match levels with
  | O => if weight =? 0 then P (rev acc) else true
  | S k =>
    if leaves * 2 ^ (17 - level) <? weight then true      (* too few leaves left to fill the tree *)
    else forallb (fun b =>
      if b * 2 ^ (17 - level) <=? weight
      then search k (level + 1) (weight - b * 2 ^ (17 - level)) (leaves - b) (b :: acc) P
      else true) (seqZ 0 (Z.to_nat leaves + 1))
  end.

Lemma kraftw_nonneg : forall l level, Forall (fun b => 0 <= b) l -> 0 <= kraftw l level.
Proof.
  induction l as [|b l IH]; intros level H; cbn [kraftw]; [lia|]. inversion H; subst.
  specialize (IH (level + 1) H3). assert (0 <= 2 ^ (17 - level)) by (apply Z.pow_nonneg; lia). nia.
Qed.

Lemma kraftw_le : forall l level, Forall (fun b => 0 <= b) l -> level + zlen l <= 18 ->
  kraftw l level <= zsum l * 2 ^ (17 - level).
Proof.
  induction l as [|b l IH]; intros level H Hl; cbn [kraftw zsum fold_right]; [lia|]. fold (zsum l).
  inversion H; subst. unfold zlen in *. cbn [length] in Hl. rewrite Nat2Z.inj_succ in Hl.
  destruct l as [|b' l'].
  - cbn [kraftw zsum fold_right]. lia.
  - specialize (IH (level + 1) H3 ltac:(lia)). cbn [length] in Hl. rewrite Nat2Z.inj_succ in Hl.
    assert (Hs : 0 <= zsum (b' :: l')) by (apply zsum_nonneg; assumption).
    assert (E : 2 ^ (17 - level) = 2 * 2 ^ (17 - (level + 1))).
    { replace (17 - level) with (1 + (17 - (level + 1))) by lia. rewrite Z.pow_add_r by lia. reflexivity. }
    assert (0 <= 2 ^ (17 - (level + 1))) by (apply Z.pow_nonneg; lia). nia.
Qed.

Lemma search_sound : forall levels level weight leaves acc P,
  search levels level weight leaves acc P = true -> level + Z.of_nat levels <= 18 ->
  forall l, length l = levels -> Forall (fun b => 0 <= b) l -> zsum l <= leaves ->
  kraftw l level = weight -> P (rev acc ++ l) = true.
Proof.
  induction levels as [|k IH]; intros level weight leaves acc P Hs Hlv l Hl Hnn Hsum Hk.
  - destruct l; [|discriminate]. cbn [kraftw] in Hk. subst weight. cbn [search] in Hs.
    rewrite app_nil_r. exact Hs.
  - destruct l as [|b l]; [discriminate|]. inversion Hnn as [|? ? Hb Hnn']; subst.
    cbn [kraftw zsum fold_right] in *. fold (zsum l) in Hsum.
    pose proof (kraftw_nonneg l (level + 1) Hnn') as Hk0.
    assert (Hsl : 0 <= zsum l) by (apply zsum_nonneg; assumption).
    cbn [search] in Hs.
    pose proof (kraftw_le (b :: l) level Hnn ltac:(unfold zlen; rewrite Hl; lia)) as Hub.
    cbn [kraftw zsum fold_right] in Hub. fold (zsum l) in Hub.
    assert (Hp17 : 0 <= 2 ^ (17 - level)) by (apply Z.pow_nonneg; lia).
    destruct (Z.ltb_spec (leaves * 2 ^ (17 - level)) (b * 2 ^ (17 - level) + kraftw l (level + 1))) as [Hbad|_]; [nia|].
    assert (Hin : In b (seqZ 0 (Z.to_nat leaves + 1))) by (apply In_seqZ; lia).
    pose proof (proj1 (forallb_forall _ _) Hs b Hin) as Hb'. cbv beta in Hb'.
    destruct (Z.leb_spec (b * 2 ^ (17 - level)) (b * 2 ^ (17 - level) + kraftw l (level + 1))); [|lia].
    specialize (IH (level + 1) _ (leaves - b) (b :: acc) P Hb' ltac:(lia) l ltac:(simpl in Hl; lia) Hnn' ltac:(lia) ltac:(lia)).
    cbn [rev] in IH. rewrite <- app_assoc in IH. exact IH.
Qed.

(* what happens to a count vector (sizes 1..17) after the merge loop *)
Definition post_of (o : outcome (list Z)) (s17 : Z) : bool :=
  match o with
  | Ok bits' =>
    let b16 := firstn 16 (skipn 1 (remove_pseudo 257 bits' 256)) in
    forallb (fun b => (0 <=? b) && (b <? 256)) b16 && (zsum b16 =? s17 - 1)
    && (t81_kraft b16 1 <=? 65536) && (length b16 =? 16)%nat
  | _ => false
  end.

Lemma post_of_inv : forall o s17, post_of o s17 = true ->
  exists bits', o = Ok bits' /\
    let b16 := firstn 16 (skipn 1 (remove_pseudo 257 bits' 256)) in
    forallb (fun b => (0 <=? b) && (b <? 256)) b16 = true /\ zsum b16 = s17 - 1 /\
    (t81_kraft b16 1 <=? 65536) = true /\ length b16 = 16%nat.
Proof.
  intros o s17 H. destruct o as [bits'| | |]; try discriminate H. exists bits'. split; [reflexivity|].
  cbn [post_of] in H. cbv zeta in *. rewrite !andb_true_iff in H. destruct H as [[[P1 P2] P3] P4].
  apply Z.eqb_eq in P2. apply Nat.eqb_eq in P4. repeat split; assumption.
Qed.

Lemma search_all :
  search 17 1 (2 ^ 17) 18 []
    (fun b17 => post_of (limit_all sizes_hi (0 :: b17 ++ repeat 0 239)) (zsum b17)) = true.
Proof. vm_compute. reflexivity. Qed.

Theorem post_ok : forall b17, length b17 = 17%nat -> Forall (fun b => 0 <= b) b17 -> zsum b17 <= 18 ->
  kraftw b17 1 = 2 ^ 17 ->
  post_of (limit_all sizes_hi (0 :: b17 ++ repeat 0 239)) (zsum b17) = true.
Proof.
  intros b17 Hl Hnn Hs Hk.
  exact (search_sound 17 1 (2 ^ 17) 18 [] _ search_all ltac:(lia) b17 Hl Hnn Hs Hk).
Qed.
