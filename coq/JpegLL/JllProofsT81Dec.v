(* The independent T.81 decoder (JllT81.t81_decode) on the streams of lossless.Encode /
   lossless14sv1.Encode (model): it returns the source image.  Together with
   code_equals_t81 this is the first sentence of C13 in the model world. *)
From V Require Import Common.Base JpegLL.JllBits JpegLL.JllHuff JpegLL.JllModel JpegLL.JllT81
  JpegLL.JllProofsBits JpegLL.JllProofsHuff JpegLL.JllProofs JpegLL.JllProofsRT JpegLL.JllProofsT81
  JpegLL.JllProofsCanon.

(* ---------- the T.81 bit reader ---------- *)
Definition rep' (s : t81_bitstate) (B : list bool) : Prop :=
  exists bs tail, snd s = stuff bs ++ tail /\ bytes_ok bs /\ B = fst s ++ bits8 bs.

Lemma rep'_init : forall bs tail, bytes_ok bs -> rep' ([], stuff bs ++ tail) (bits8 bs).
Proof. intros. exists bs, tail. repeat split; assumption. Qed.

Lemma bits_of_8_255 : bits_of 8 255 = repeat true 8.
Proof. reflexivity. Qed.

Lemma next_bit_spec : forall s b B, rep' s (b :: B) ->
  exists s', t81_next_bit s = Some (b, s') /\ rep' s' B.
Proof.
  intros [cur rest] b B (bs & tail & Hrest & Hbs & HB). cbn [fst snd] in *. unfold t81_next_bit. cbn [fst snd].
  destruct cur as [|b0 c].
  - cbn [app] in HB. destruct bs as [|x bs]; [discriminate|].
    inversion Hbs as [|? ? Hx Hbs']; subst.
    unfold bits8 in HB. cbn [flat_map] in HB. unfold stuff. cbn [flat_map]. unfold write_byte at 1.
    destruct (Z.eqb_spec x 255) as [E|E].
    + subst x. cbn [app]. change (0 =? 0) with true. cbv iota.
      rewrite bits_of_8_255 in HB. cbn [repeat app] in HB. apply cons_eq_inv in HB. destruct HB as [Hb HB'].
      subst b. eexists. split; [reflexivity|]. exists bs, tail. cbn [fst snd]. repeat split; try assumption.
    + cbn [app]. destruct (t81_to_bits 8 x) as [|b1 c1] eqn:E8; [discriminate|].
      cbn [app] in HB. apply cons_eq_inv in HB. destruct HB as [Hb HB']. subst b1.
      destruct (Z.eqb_spec x 255); [contradiction|].
      eexists. split; [reflexivity|]. exists bs, tail. cbn [fst snd]. repeat split; try assumption.
  - cbn [app] in HB. apply cons_eq_inv in HB. destruct HB as [Hb HB']. subst b0.
    eexists. split; [reflexivity|]. exists bs, tail. cbn [fst snd]. repeat split; assumption.
Qed.

Lemma receive_spec' : forall W s acc B, rep' s (W ++ B) ->
  exists s', t81_receive (length W) acc s = Some (acc * 2 ^ Z.of_nat (length W) + bval W, s') /\ rep' s' B.
Proof.
  induction W as [|b W IH]; intros s acc B Hr.
  - cbn [length t81_receive]. exists s. split; [|exact Hr]. f_equal. f_equal. unfold bval. cbn. lia.
  - cbn [app] in Hr. destruct (next_bit_spec s b _ Hr) as (s1 & E1 & Hr1).
    cbn [length t81_receive]. rewrite E1.
    destruct (IH s1 (2 * acc + (if b then 1 else 0)) B Hr1) as (s2 & E2 & Hr2).
    exists s2. split; [|exact Hr2]. rewrite E2. f_equal. f_equal.
    rewrite bval_cons, Nat2Z.inj_succ, Z.pow_succ_r by lia. destruct b; cbn [Z.b2z]; ring.
Qed.

(* ---------- DECODE by association list on a stream that starts with a code word ---------- *)
Lemma find_code_codeword : forall bits len first vs k W L, fits bits len first -> 0 <= first ->
  nth_error (canon0 bits len first) k = Some (W, L) -> zsum bits <= zlen vs ->
  (forall l, len <= l < L -> t81_find_code (ents bits len first vs) l (Z.shiftr W (L - l)) = None) /\
  t81_find_code (ents bits len first vs) L W = Some (nth k vs 0).
Proof.
  induction bits as [|b bs IH]; intros len first vs k W L Hf H0 Hn Hk; [destruct k; discriminate|].
  pose proof (canon0_lower _ _ _ _ _ _ Hf H0 Hn) as [HL HW].
  cbn [canon0 fits ents zsum fold_right] in *. destruct Hf as (Hb & Hfit & Hf').
  assert (Hs : 0 <= zsum bs).
  { pose proof (fits_nonneg _ _ _ Hf') as Hnn. clear -Hnn. induction Hnn; cbn [zsum fold_right]; [lia|].
    unfold zsum in *. lia. }
  unfold zsum, zlen in *.
  destruct (lt_dec k (Z.to_nat b)) as [Hlt|Hge].
  - rewrite nth_error_app1 in Hn by (rewrite map_length, seqZ_length; assumption).
    rewrite nth_error_map, nth_error_seqZ in Hn by assumption. cbn in Hn. injection Hn as E1 E2. subst W L.
    split; [intros l Hl; exfalso; lia|].
    rewrite find_code_app, find_code_level by lia.
    rewrite Z.add_0_r, Z2Nat.id by lia.
    destruct (Z.leb_spec first (first + Z.of_nat k)); [|lia].
    destruct (Z.ltb_spec (first + Z.of_nat k) (first + b)); [|lia]. cbn [andb].
    f_equal. f_equal. lia.
  - rewrite nth_error_app2 in Hn by (rewrite map_length, seqZ_length; lia).
    rewrite map_length, seqZ_length in Hn.
    pose proof (canon0_lower _ _ _ _ _ _ Hf' ltac:(lia) Hn) as [HL' HW'].
    destruct (IH (len + 1) (2 * (first + b)) (skipn (Z.to_nat b) vs) (k - Z.to_nat b)%nat W L Hf' ltac:(lia) Hn)
      as [IH1 IH2]; [rewrite skipn_length; lia|].
    assert (Hkb : (Z.to_nat b <= k)%nat) by lia.
    assert (Hlvl : forall l code, t81_find_code
              (combine (map (fun i => (len, first + i)) (seqZ 0 (Z.to_nat b))) (firstn (Z.to_nat b) vs)) l code <> None ->
              l = len /\ first <= code < first + b).
    { intros l code Hne.
      destruct (Z.eq_dec l len) as [->|Hnl].
      - split; [reflexivity|].
        rewrite find_code_level in Hne by lia. rewrite Z.add_0_r, Z2Nat.id in Hne by lia.
        destruct (Z.leb_spec first code); destruct (Z.ltb_spec code (first + b)); cbn [andb] in Hne; try lia; congruence.
      - exfalso. apply Hne. clear -Hnl. generalize (firstn (Z.to_nat b) vs) as vs'. generalize (seqZ 0 (Z.to_nat b)) as sq.
        induction sq; intros vs'; [reflexivity|]. destruct vs'; [reflexivity|]. cbn [map combine t81_find_code].
        destruct (Z.eqb_spec len l); [lia|]. cbn [andb]. apply IHsq. }
    assert (Hge' : forall l, len <= l <= L -> first + b <= Z.shiftr W (L - l) \/ l <> len).
    { intros l Hl. destruct (Z.eq_dec l len) as [->|]; [left|right; assumption].
      rewrite Z.shiftr_div_pow2 by lia. apply Z.div_le_lower_bound; [apply Z.pow_pos_nonneg; lia|].
      replace (L - len) with (1 + (L - (len + 1))) by lia. rewrite Z.pow_add_r by lia.
      change (2 ^ 1) with 2. lia. }
    split.
    + intros l Hl. rewrite find_code_app.
      destruct (t81_find_code (combine _ _) l (Z.shiftr W (L - l))) eqn:E.
      * exfalso. destruct (Hlvl l (Z.shiftr W (L - l))) as [El Hr]; [congruence|].
        destruct (Hge' l ltac:(lia)); lia.
      * destruct (Z.eq_dec l len) as [->|]; [apply find_code_ents_above; lia | apply IH1; lia].
    + rewrite find_code_app.
      destruct (t81_find_code (combine _ _) L W) eqn:E.
      * exfalso. destruct (Hlvl L W) as [El Hr]; [congruence|]. lia.
      * rewrite IH2. f_equal. rewrite nth_skipn'. f_equal. lia.
Qed.

Lemma decode_sym_loop : forall E W L B (F1 : forall l, 1 <= l < L -> t81_find_code E l (Z.shiftr W (L - l)) = None) v,
  t81_find_code E L W = Some v -> 0 <= W ->
  forall j fuel s, (1 <= j)%nat -> (j <= fuel)%nat -> Z.of_nat j <= L ->
  rep' s (bits_of j W ++ B) ->
  exists s', t81_decode_sym fuel E (L - Z.of_nat j) (Z.shiftr W (Z.of_nat j)) s = Some (v, s') /\ rep' s' B.
Proof.
  intros E W L B F1 v F2 HW. induction j as [|j IH]; intros fuel s Hj Hf HL Hr; [lia|].
  destruct fuel as [|fuel]; [lia|].
  rewrite bits_of_S in Hr. cbn [app] in Hr.
  destruct (next_bit_spec s _ _ Hr) as (s1 & E1 & Hr1).
  cbn [t81_decode_sym]. rewrite E1.
  assert (Hcode : 2 * Z.shiftr W (Z.of_nat (S j)) + (if Z.testbit W (Z.of_nat j) then 1 else 0)
                  = Z.shiftr W (Z.of_nat j)).
  { rewrite Nat2Z.inj_succ. replace (Z.succ (Z.of_nat j)) with (Z.of_nat j + 1) by lia.
    apply (shiftr_step W (Z.of_nat j)); lia. }
  rewrite Hcode. replace (L - Z.of_nat (S j) + 1) with (L - Z.of_nat j) by lia.
  destruct j as [|j'].
  - cbn [Z.of_nat] in *. rewrite Z.sub_0_r, Z.shiftr_0_r. rewrite F2.
    exists s1. split; [reflexivity|]. cbn [t81_to_bits app] in Hr1. exact Hr1.
  - assert (Hnone : t81_find_code E (L - Z.of_nat (S j')) (Z.shiftr W (Z.of_nat (S j'))) = None).
    { rewrite <- (F1 (L - Z.of_nat (S j'))) by lia. f_equal. f_equal. lia. }
    rewrite Hnone. apply IH; try lia. exact Hr1.
Qed.

Lemma decode_sym_codeword : forall bits vals s0 st B, table_facts bits vals -> In s0 vals ->
  rep' st (bits_of (Z.to_nat (snd (code_of bits vals s0))) (fst (code_of bits vals s0)) ++ B) ->
  exists st', t81_decode_sym 16 (t81_entries bits vals) 0 0 st = Some (s0, st') /\ rep' st' B.
Proof.
  intros bits vals s0 st B F Hs Hr. pose proof F as [Fl Fb Fs Fv Fn Ff].
  assert (Hb0 : Forall (fun b => 0 <= b) bits) by (eapply Forall_impl; [|exact Fb]; cbn; intros; lia).
  pose proof (code_of_len bits vals s0 F Hs) as [Hc0 Hc1].
  destruct (In_nth _ _ 0 Hs) as (p & Hp & Ep). subst s0.
  rewrite build_codes_canon0 in * by assumption.
  assert (Hlen : (p < length (canon0 bits 1 0))%nat).
  { pose proof (canon0_length bits 1 0 Hb0) as H. unfold zlen in *. lia. }
  pose proof (nth_error_nth' (canon0 bits 1 0) (0, 0) Hlen) as Hn.
  destruct (nth p (canon0 bits 1 0) (0, 0)) as [W L] eqn:E. cbn [fst snd] in *.
  destruct (find_code_codeword bits 1 0 vals p W L Ff ltac:(lia) Hn ltac:(lia)) as [F1 F2].
  rewrite t81_entries_canon0 by assumption. rewrite entries_ents.
  destruct (decode_sym_loop (ents bits 1 0 vals) W L B F1 (nth p vals 0) F2 Hc0 (Z.to_nat L) 16 st) as (st' & E1 & Hr');
    try lia.
  - exact Hr.
  - rewrite Z2Nat.id in E1 by lia. rewrite Z.sub_diag in E1.
    assert (Hz : Z.shiftr W L = 0).
    { apply Z.shiftr_eq_0; [lia|]. destruct (Z.eq_dec W 0) as [->|]; [cbn; lia|].
      apply Z.log2_lt_pow2; [lia|].
      (* W < 2^L *)
      assert (Hlt : forall bs len first k W L, fits bs len first -> 0 <= first ->
                      nth_error (canon0 bs len first) k = Some (W, L) -> W < 2 ^ L).
      { induction bs as [|b bs IHb]; intros len first k W0 L0 Hf H0 Hk; [destruct k; discriminate|].
        cbn [canon0 fits] in *. destruct Hf as (Hb & Hfit & Hf').
        destruct (lt_dec k (Z.to_nat b)).
        - rewrite nth_error_app1 in Hk by (rewrite map_length, seqZ_length; assumption).
          rewrite nth_error_map, nth_error_seqZ in Hk by assumption. cbn in Hk. injection Hk as E1' E2'. subst. lia.
        - rewrite nth_error_app2 in Hk by (rewrite map_length, seqZ_length; lia).
          eapply IHb; [exact Hf' | lia | exact Hk]. }
      eapply Hlt; [exact Ff | lia | exact Hn]. }
    rewrite Hz in E1. exists st'. split; assumption.
Qed.

(* ---------- one difference ---------- *)
Definition extend_check (d : Z) : bool :=
  let s := t81_ssss d in
  if (s =? 0) || (s =? 16) then true
  else let v := (if 0 <=? d then d else d - 1) mod 2 ^ s in
       (if v <? 2 ^ (s - 1) then v - 2 ^ s + 1 else v) =? d.
Lemma extend_all : forallb extend_check (seqZ (-32768) (Z.to_nat 65536)) = true.
Proof. vm_compute. reflexivity. Qed.

(* the value READ for a difference d: d itself, except 32768 for -32768 (equal modulo 2^16) *)
Definition read_value (d : Z) : Z := if d =? -32768 then 32768 else d.

Lemma read_diff_spec : forall bits vals d st B, table_facts bits vals -> -32768 <= d <= 32767 ->
  In (diff_category d) vals ->
  rep' st (word bits vals d ++ B) ->
  exists st', t81_read_diff (t81_entries bits vals) st = Some (read_value d, st') /\ rep' st' B.
Proof.
  intros bits vals d st B F Hd Hin Hr.
  pose proof (t81_word_eq bits vals d F Hd Hin) as Hw. unfold t81_word in Hw.
  assert (Hin' : In d (seqZ (-32768) (Z.to_nat 65536))) by (apply In_seqZ; lia).
  pose proof (proj1 (forallb_forall _ _) word_all d Hin') as Hwc. unfold word_check in Hwc.
  pose proof (proj1 (forallb_forall _ _) extend_all d Hin') as Hec. unfold extend_check in Hec.
  pose proof (cat_exhaustive d Hd) as Hc.
  destruct (encode_lossless_diff d) as [cat mag] eqn:Ecm. destruct Hc as (Hc1 & Hc2 & Hc3).
  apply andb_true_iff in Hwc. destruct Hwc as [Hs _]. apply Z.eqb_eq in Hs.
  rewrite Hs in *. rewrite <- Hc3 in Hin.
  rewrite (find_val_code_of bits vals cat F Hin) in Hw. injection Hw as Hw. rewrite <- Hw in Hr.
  rewrite <- app_assoc in Hr.
  destruct (decode_sym_codeword bits vals cat st _ F Hin Hr) as (st1 & E1 & Hr1).
  unfold t81_read_diff. rewrite E1. unfold read_value.
  destruct (Z.eqb_spec cat 0) as [E0|E0].
  - cbn [orb app] in Hr1. exists st1. split; [|exact Hr1].
    unfold lossless_value in Hc2. rewrite E0 in Hc2. cbn in Hc2. subst d. reflexivity.
  - destruct (Z.eqb_spec cat 16) as [E16|E16].
    + cbn [orb app] in Hr1. exists st1. split; [|exact Hr1].
      unfold lossless_value in Hc2. rewrite E16 in Hc2. cbn in Hc2. subst d. reflexivity.
    + cbn [orb] in Hr1, Hec. cbv zeta in Hec. destruct (Z.ltb_spec 16 cat); [lia|].
      remember (if 0 <=? d then d else d - 1) as e eqn:Ee.
      destruct (receive_spec' (bits_of (Z.to_nat cat) e) st1 0 B Hr1) as (st2 & E2 & Hr2).
      rewrite bits_of_length in E2.
      rewrite E2. exists st2. split; [|exact Hr2].
      rewrite bval_bits_of, Z2Nat.id by lia. rewrite Z.mul_0_l, Z.add_0_l.
      apply Z.eqb_eq in Hec. rewrite Hec.
      destruct (Z.eqb_spec d (-32768)) as [Ed|Ed]; [|reflexivity].
      exfalso. subst d. vm_compute in Ecm. injection Ecm as Ecat _. lia.
Qed.
