(* The independent T.81 decoder (JllT81.t81_decode) on the streams of lossless.Encode /
   lossless14sv1.Encode (model): it returns the source image.  Together with
   code_equals_t81 this is the first sentence of C13 in the model world. *)
From V Require Import Common.Base JpegLL.JllBits JpegLL.JllHuff JpegLL.JllModel JpegLL.JllT81
  JpegLL.JllProofsBits JpegLL.JllProofsHuff JpegLL.JllProofs JpegLL.JllProofsRT JpegLL.JllProofsT81
  JpegLL.JllProofsCanon.

Section WithTail.
(* what follows the entropy-coded segment (fixed throughout) *)
Variable tail : list Z.

(* ---------- the T.81 bit reader ---------- *)
Definition rep' (s : t81_bitstate) (B : list bool) : Prop :=
  exists bs, snd s = stuff bs ++ tail /\ bytes_ok bs /\ B = fst s ++ bits8 bs.

Lemma rep'_init : forall bs, bytes_ok bs -> rep' ([], stuff bs ++ tail) (bits8 bs).
Proof. intros. exists bs. repeat split; assumption. Qed.

Lemma bits_of_8_255 : bits_of 8 255 = repeat true 8.
Proof. reflexivity. Qed.

Lemma next_bit_spec : forall s b B, rep' s (b :: B) ->
  exists s', t81_next_bit s = Some (b, s') /\ rep' s' B.
Proof.
  intros [cur rest] b B (bs & Hrest & Hbs & HB). cbn [fst snd] in *. unfold t81_next_bit. cbn [fst snd].
  destruct cur as [|b0 c].
  - cbn [app] in HB. destruct bs as [|x bs]; [discriminate|].
    inversion Hbs as [|? ? Hx Hbs']; subst.
    unfold bits8 in HB. cbn [flat_map] in HB. unfold stuff. cbn [flat_map]. unfold write_byte at 1.
    destruct (Z.eqb_spec x 255) as [E|E].
    + subst x. cbn [app]. change (0 =? 0) with true. cbv iota.
      rewrite bits_of_8_255 in HB. cbn [repeat app] in HB. apply cons_eq_inv in HB. destruct HB as [Hb HB'].
      subst b. eexists. split; [reflexivity|]. exists bs. cbn [fst snd]. repeat split; try assumption.
    + cbn [app]. destruct (t81_to_bits 8 x) as [|b1 c1] eqn:E8; [discriminate|].
      cbn [app] in HB. apply cons_eq_inv in HB. destruct HB as [Hb HB']. subst b1.
      destruct (Z.eqb_spec x 255); [contradiction|].
      eexists. split; [reflexivity|]. exists bs. cbn [fst snd]. repeat split; try assumption.
  - cbn [app] in HB. apply cons_eq_inv in HB. destruct HB as [Hb HB']. subst b0.
    eexists. split; [reflexivity|]. exists bs. cbn [fst snd]. repeat split; assumption.
Qed.

Lemma receive_spec' : forall W s acc B, rep' s (W ++ B) ->
  exists s', t81_receive (length W) acc s = Some (acc * 2 ^ Z.of_nat (length W) + bval W, s') /\ rep' s' B.
Proof.
  induction W as [|b W IH]; intros s acc B Hr.
  - cbn [length t81_receive]. exists s. split; [|exact Hr]. f_equal. f_equal. unfold bval. cbn. lia.
  - cbn [app] in Hr. destruct (next_bit_spec s b _ Hr) as (s1 & E1 & Hr1).
    cbn [length t81_receive]. rewrite E1.
    destruct (IH s1 (2 * acc + (if b then 1 else 0)) B Hr1) as (s2 & E2 & Hr2).
    exists s2. split; [|exact Hr2]. rewrite E2. f_equal. f_equal.
    rewrite bval_cons, Nat2Z.inj_succ, Z.pow_succ_r by lia. destruct b; cbn [Z.b2z]; ring.
Qed.

(* ---------- DECODE by association list on a stream that starts with a code word ---------- *)
Lemma find_code_codeword : forall bits len first vs k W L, fits bits len first -> 0 <= first ->
  nth_error (canon0 bits len first) k = Some (W, L) -> zsum bits <= zlen vs ->
  (forall l, len <= l < L -> t81_find_code (ents bits len first vs) l (Z.shiftr W (L - l)) = None) /\
  t81_find_code (ents bits len first vs) L W = Some (nth k vs 0).
Proof.
  induction bits as [|b bs IH]; intros len first vs k W L Hf H0 Hn Hk; [destruct k; discriminate|].
  pose proof (canon0_lower _ _ _ _ _ _ Hf H0 Hn) as [HL HW].
  cbn [canon0 fits ents zsum fold_right] in *. destruct Hf as (Hb & Hfit & Hf').
  assert (Hs : 0 <= zsum bs).
  { pose proof (fits_nonneg _ _ _ Hf') as Hnn. clear -Hnn. induction Hnn; cbn [zsum fold_right]; [lia|].
    unfold zsum in *. lia. }
  unfold zsum, zlen in *.
  destruct (lt_dec k (Z.to_nat b)) as [Hlt|Hge].
  - rewrite nth_error_app1 in Hn by (rewrite map_length, seqZ_length; assumption).
    rewrite nth_error_map, nth_error_seqZ in Hn by assumption. cbn in Hn. injection Hn as E1 E2. subst W L.
    split; [intros l Hl; exfalso; lia|].
    rewrite find_code_app, find_code_level by lia.
    rewrite Z.add_0_r, Z2Nat.id by lia.
    destruct (Z.leb_spec first (first + Z.of_nat k)); [|lia].
    destruct (Z.ltb_spec (first + Z.of_nat k) (first + b)); [|lia]. cbn [andb].
    f_equal. f_equal. lia.
  - rewrite nth_error_app2 in Hn by (rewrite map_length, seqZ_length; lia).
    rewrite map_length, seqZ_length in Hn.
    pose proof (canon0_lower _ _ _ _ _ _ Hf' ltac:(lia) Hn) as [HL' HW'].
    destruct (IH (len + 1) (2 * (first + b)) (skipn (Z.to_nat b) vs) (k - Z.to_nat b)%nat W L Hf' ltac:(lia) Hn)
      as [IH1 IH2]; [rewrite skipn_length; lia|].
    assert (Hkb : (Z.to_nat b <= k)%nat) by lia.
    assert (Hlvl : forall l code, t81_find_code
              (combine (map (fun i => (len, first + i)) (seqZ 0 (Z.to_nat b))) (firstn (Z.to_nat b) vs)) l code <> None ->
              l = len /\ first <= code < first + b).
    { intros l code Hne.
      destruct (Z.eq_dec l len) as [->|Hnl].
      - split; [reflexivity|].
        rewrite find_code_level in Hne by lia. rewrite Z.add_0_r, Z2Nat.id in Hne by lia.
        destruct (Z.leb_spec first code); destruct (Z.ltb_spec code (first + b)); cbn [andb] in Hne; try lia; congruence.
      - exfalso. apply Hne. clear -Hnl. generalize (firstn (Z.to_nat b) vs) as vs'. generalize (seqZ 0 (Z.to_nat b)) as sq.
        induction sq; intros vs'; [reflexivity|]. destruct vs'; [reflexivity|]. cbn [map combine t81_find_code].
        destruct (Z.eqb_spec len l); [lia|]. cbn [andb]. apply IHsq. }
    assert (Hge' : forall l, len <= l <= L -> first + b <= Z.shiftr W (L - l) \/ l <> len).
    { intros l Hl. destruct (Z.eq_dec l len) as [->|]; [left|right; assumption].
      rewrite Z.shiftr_div_pow2 by lia. apply Z.div_le_lower_bound; [apply Z.pow_pos_nonneg; lia|].
      replace (L - len) with (1 + (L - (len + 1))) by lia. rewrite Z.pow_add_r by lia.
      change (2 ^ 1) with 2. lia. }
    split.
    + intros l Hl. rewrite find_code_app.
      destruct (t81_find_code (combine _ _) l (Z.shiftr W (L - l))) eqn:E.
      * exfalso. destruct (Hlvl l (Z.shiftr W (L - l))) as [El Hr]; [congruence|].
        destruct (Hge' l ltac:(lia)); lia.
      * destruct (Z.eq_dec l len) as [->|]; [apply find_code_ents_above; lia | apply IH1; lia].
    + rewrite find_code_app.
      destruct (t81_find_code (combine _ _) L W) eqn:E.
      * exfalso. destruct (Hlvl L W) as [El Hr]; [congruence|]. lia.
      * rewrite IH2. f_equal. rewrite nth_skipn'. f_equal. lia.
Qed.

Lemma decode_sym_loop : forall E W L B (F1 : forall l, 1 <= l < L -> t81_find_code E l (Z.shiftr W (L - l)) = None) v,
  t81_find_code E L W = Some v -> 0 <= W ->
  forall j fuel s, (1 <= j)%nat -> (j <= fuel)%nat -> Z.of_nat j <= L ->
  rep' s (bits_of j W ++ B) ->
  exists s', t81_decode_sym fuel E (L - Z.of_nat j) (Z.shiftr W (Z.of_nat j)) s = Some (v, s') /\ rep' s' B.
Proof.
  intros E W L B F1 v F2 HW. induction j as [|j IH]; intros fuel s Hj Hf HL Hr; [lia|].
  destruct fuel as [|fuel]; [lia|].
  rewrite bits_of_S in Hr. cbn [app] in Hr.
  destruct (next_bit_spec s _ _ Hr) as (s1 & E1 & Hr1).
  cbn [t81_decode_sym]. rewrite E1.
  assert (Hcode : 2 * Z.shiftr W (Z.of_nat (S j)) + (if Z.testbit W (Z.of_nat j) then 1 else 0)
                  = Z.shiftr W (Z.of_nat j)).
  { rewrite Nat2Z.inj_succ. replace (Z.succ (Z.of_nat j)) with (Z.of_nat j + 1) by lia.
    apply (shiftr_step W (Z.of_nat j)); lia. }
  rewrite Hcode. replace (L - Z.of_nat (S j) + 1) with (L - Z.of_nat j) by lia.
  destruct j as [|j'].
  - cbn [Z.of_nat] in *. rewrite Z.sub_0_r, Z.shiftr_0_r. rewrite F2.
    exists s1. split; [reflexivity|]. cbn [t81_to_bits app] in Hr1. exact Hr1.
  - assert (Hnone : t81_find_code E (L - Z.of_nat (S j')) (Z.shiftr W (Z.of_nat (S j'))) = None).
    { rewrite <- (F1 (L - Z.of_nat (S j'))) by lia. f_equal. f_equal. lia. }
    rewrite Hnone. apply IH; try lia. exact Hr1.
Qed.

Lemma decode_sym_codeword : forall bits vals s0 st B, table_facts bits vals -> In s0 vals ->
  rep' st (bits_of (Z.to_nat (snd (code_of bits vals s0))) (fst (code_of bits vals s0)) ++ B) ->
  exists st', t81_decode_sym 16 (t81_entries bits vals) 0 0 st = Some (s0, st') /\ rep' st' B.
Proof.
  intros bits vals s0 st B F Hs Hr. pose proof F as [Fl Fb Fs Fv Fn Ff].
  assert (Hb0 : Forall (fun b => 0 <= b) bits) by (eapply Forall_impl; [|exact Fb]; cbn; intros; lia).
  pose proof (code_of_len bits vals s0 F Hs) as [Hc0 Hc1].
  destruct (In_nth _ _ 0 Hs) as (p & Hp & Ep). subst s0.
  rewrite build_codes_canon0 in * by assumption.
  assert (Hlen : (p < length (canon0 bits 1 0))%nat).
  { pose proof (canon0_length bits 1 0 Hb0) as H. unfold zlen in *. lia. }
  pose proof (nth_error_nth' (canon0 bits 1 0) (0, 0) Hlen) as Hn.
  destruct (nth p (canon0 bits 1 0) (0, 0)) as [W L] eqn:E. cbn [fst snd] in *.
  destruct (find_code_codeword bits 1 0 vals p W L Ff ltac:(lia) Hn ltac:(lia)) as [F1 F2].
  rewrite t81_entries_canon0 by assumption. rewrite entries_ents.
  destruct (decode_sym_loop (ents bits 1 0 vals) W L B F1 (nth p vals 0) F2 Hc0 (Z.to_nat L) 16 st) as (st' & E1 & Hr');
    try lia.
  - exact Hr.
  - rewrite Z2Nat.id in E1 by lia. rewrite Z.sub_diag in E1.
    assert (Hz : Z.shiftr W L = 0).
    { apply Z.shiftr_eq_0; [lia|]. destruct (Z.eq_dec W 0) as [->|]; [cbn; lia|].
      apply Z.log2_lt_pow2; [lia|].
      (* W < 2^L *)
      assert (Hlt : forall bs len first k W L, fits bs len first -> 0 <= first ->
                      nth_error (canon0 bs len first) k = Some (W, L) -> W < 2 ^ L).
      { induction bs as [|b bs IHb]; intros len first k W0 L0 Hf H0 Hk; [destruct k; discriminate|].
        cbn [canon0 fits] in *. destruct Hf as (Hb & Hfit & Hf').
        destruct (lt_dec k (Z.to_nat b)).
        - rewrite nth_error_app1 in Hk by (rewrite map_length, seqZ_length; assumption).
          rewrite nth_error_map, nth_error_seqZ in Hk by assumption. cbn in Hk. injection Hk as E1' E2'. subst. lia.
        - rewrite nth_error_app2 in Hk by (rewrite map_length, seqZ_length; lia).
          eapply IHb; [exact Hf' | lia | exact Hk]. }
      eapply Hlt; [exact Ff | lia | exact Hn]. }
    rewrite Hz in E1. exists st'. split; assumption.
Qed.

(* ---------- one difference ---------- *)
Definition extend_check (d : Z) : bool :=
  let s := t81_ssss d in
  if (s =? 0) || (s =? 16) then true
  else let v := (if 0 <=? d then d else d - 1) mod 2 ^ s in
       (if v <? 2 ^ (s - 1) then v - 2 ^ s + 1 else v) =? d.
Lemma extend_all : forallb extend_check (seqZ (-32768) (Z.to_nat 65536)) = true.
Proof. vm_compute. reflexivity. Qed.

(* the value READ for a difference d: d itself, except 32768 for -32768 (equal modulo 2^16) *)
Definition read_value (d : Z) : Z := if d =? -32768 then 32768 else d.

Lemma read_diff_spec : forall bits vals d st B, table_facts bits vals -> -32768 <= d <= 32767 ->
  In (diff_category d) vals ->
  rep' st (word bits vals d ++ B) ->
  exists st', t81_read_diff (t81_entries bits vals) st = Some (read_value d, st') /\ rep' st' B.
Proof.
  intros bits vals d st B F Hd Hin Hr.
  pose proof (t81_word_eq bits vals d F Hd Hin) as Hw. unfold t81_word in Hw.
  assert (Hin' : In d (seqZ (-32768) (Z.to_nat 65536))) by (apply In_seqZ; lia).
  pose proof (proj1 (forallb_forall _ _) word_all d Hin') as Hwc. unfold word_check in Hwc.
  pose proof (proj1 (forallb_forall _ _) extend_all d Hin') as Hec. unfold extend_check in Hec.
  pose proof (cat_exhaustive d Hd) as Hc.
  destruct (encode_lossless_diff d) as [cat mag] eqn:Ecm. destruct Hc as (Hc1 & Hc2 & Hc3).
  apply andb_true_iff in Hwc. destruct Hwc as [Hs _]. apply Z.eqb_eq in Hs.
  rewrite Hs in *. rewrite <- Hc3 in Hin.
  rewrite (find_val_code_of bits vals cat F Hin) in Hw. injection Hw as Hw. rewrite <- Hw in Hr.
  rewrite <- app_assoc in Hr.
  destruct (decode_sym_codeword bits vals cat st _ F Hin Hr) as (st1 & E1 & Hr1).
  unfold t81_read_diff. rewrite E1. unfold read_value.
  destruct (Z.eqb_spec cat 0) as [E0|E0].
  - cbn [orb app] in Hr1. exists st1. split; [|exact Hr1].
    unfold lossless_value in Hc2. rewrite E0 in Hc2. cbn in Hc2. subst d. reflexivity.
  - destruct (Z.eqb_spec cat 16) as [E16|E16].
    + cbn [orb app] in Hr1. exists st1. split; [|exact Hr1].
      unfold lossless_value in Hc2. rewrite E16 in Hc2. cbn in Hc2. subst d. reflexivity.
    + cbn [orb] in Hr1, Hec. cbv zeta in Hec. destruct (Z.ltb_spec 16 cat); [lia|].
      remember (if 0 <=? d then d else d - 1) as e eqn:Ee.
      destruct (receive_spec' (bits_of (Z.to_nat cat) e) st1 0 B Hr1) as (st2 & E2 & Hr2).
      rewrite bits_of_length in E2.
      rewrite E2. exists st2. split; [|exact Hr2].
      rewrite bval_bits_of, Z2Nat.id by lia. rewrite Z.mul_0_l, Z.add_0_l.
      apply Z.eqb_eq in Hec. rewrite Hec.
      destruct (Z.eqb_spec d (-32768)) as [Ed|Ed]; [|reflexivity].
      exfalso. assert (cat = 16) by (rewrite Hc3, Ed; reflexivity). lia.
Qed.

(* ---------- lockstep: scan-order code words against the per-component sliding decoder ------ *)
Section T81Lock.
  Variables bits vals : list Z.
  Hypothesis Hok : t81_table_ok bits vals = true.
  Variables pred P : Z.
  Hypothesis Hpred : 1 <= pred <= 7.
  Hypothesis HP : 2 <= P <= 16.
  Let E := t81_entries bits vals.
  Let dflt := 2 ^ (P - 1).
  Let f := fdiff (ll_pred pred dflt).
  Let wd' := word bits vals.

  Inductive cs_rel (fl fc : bool) : list t81_comp -> list Z -> list Z -> list Z -> Prop :=
  | cs_nil : cs_rel fl fc [] [] [] []
  | cs_cons : forall c cs l a al ls abs als,
      tc_entries c = E ->
      (fc = false -> hd 0 (tc_cur c) = l) ->
      (fl = false -> hd 0 (tc_above c) = a) ->
      (fl = false -> fc = false -> tc_rc c = al) ->
      cs_rel fl fc cs ls abs als ->
      cs_rel fl fc (c :: cs) (l :: ls) (a :: abs) (al :: als).

  Definition upd (c : t81_comp) (x : Z) : t81_comp :=
    mkT81C (tc_entries c) (tl (tc_above c)) (hd 0 (tc_above c)) (x :: tc_cur c).
  Fixpoint upds (cs : list t81_comp) (px : list Z) : list t81_comp :=
    match cs, px with
    | c :: cs', x :: px' => upd c x :: upds cs' px'
    | _, _ => []
    end.

  Lemma t81_px_eq : forall fl fc c l a al, tc_entries c = E ->
    (fc = false -> hd 0 (tc_cur c) = l) -> (fl = false -> hd 0 (tc_above c) = a) ->
    (fl = false -> fc = false -> tc_rc c = al) ->
    t81_px pred P fl fc c = ll_pred pred dflt fl fc l a al.
  Proof.
    intros fl fc c l a al _ H1 H2 H3. unfold dflt. rewrite edge_rule_is_t81 by assumption.
    unfold t81_px. destruct fl, fc; try reflexivity.
    - rewrite H1 by reflexivity. reflexivity.
    - rewrite H2 by reflexivity. reflexivity.
    - rewrite H1, H2, H3 by reflexivity. reflexivity.
  Qed.

  Lemma read_value_mod : forall d, read_value d mod 65536 = d mod 65536.
  Proof. intros d. unfold read_value. destruct (Z.eqb_spec d (-32768)) as [->|]; reflexivity. Qed.

  Lemma dec_mcu_ok : forall px cs l a al fl fc s B,
    cs_rel fl fc cs l a al -> length px = length cs -> Forall (good P) px ->
    diffs_ok vals (map4 f fl fc l a al px) ->
    rep' s (concat (map wd' (map4 f fl fc l a al px)) ++ B) ->
    exists s', t81_dec_mcu pred P fl fc cs s = Some (upds cs px, px, s') /\ rep' s' B.
  Proof.
    induction px as [|x px IH]; intros cs l a al fl fc s B Hrel Hlen Hg Hd Hr.
    - destruct cs; [|discriminate]. cbn [t81_dec_mcu upds]. exists s. split; [reflexivity|].
      inversion Hrel; subst. cbn in Hr. exact Hr.
    - destruct cs as [|c cs]; [discriminate|]. inversion Hrel as [|? ? l0 a0 al0 ls abs als He H1 H2 H3 Hrel']; subst.
      inversion Hg as [|? ? Hx Hg']; subst.
      cbn [map4 map concat] in Hr, Hd. rewrite <- app_assoc in Hr.
      inversion Hd as [|? ? [Hd1 Hd2] Hd']; subst.
      pose proof (table_ok_facts _ _ Hok) as F.
      cbn [t81_dec_mcu]. rewrite He.
      destruct (read_diff_spec bits vals _ s _ F Hd1 Hd2 Hr) as (s1 & E1 & Hr1).
      fold E in E1. rewrite E1.
      assert (Hx' : (t81_px pred P fl fc c + read_value (f fl fc l0 a0 al0 x)) mod 65536 = x).
      { rewrite (t81_px_eq fl fc c l0 a0 al0 He H1 H2 H3).
        rewrite Z.add_mod, read_value_mod, <- Z.add_mod by lia.
        pose proof (diff_reconstruct P x (ll_pred pred dflt fl fc l0 a0 al0) HP Hx) as Hrc.
        unfold recon16 in Hrc. change 65535 with (Z.ones 16) in Hrc. rewrite Z.land_ones in Hrc by lia.
        exact Hrc. }
      rewrite Hx'.
      destruct (IH cs ls abs als fl fc s1 B Hrel' ltac:(simpl in Hlen; lia) Hg' Hd' Hr1) as (s2 & E2 & Hr2).
      rewrite E2. exists s2. split; [|exact Hr2]. cbn [upds]. unfold upd. rewrite He. reflexivity.
  Qed.

  (* the component states as a function of the position in the line *)
  Variable c : nat.
  Definition cst (fl : bool) (prev_rem : list (list Z)) (rcpx : list Z) (done_rev : list (list Z)) (k : nat)
    : t81_comp :=
    mkT81C E (if fl then [] else map (comp k) prev_rem) (if fl then 0 else comp k rcpx)
           (map (comp k) done_rev).
  Definition csts (fl : bool) (prev_rem : list (list Z)) (rcpx : list Z) (done_rev : list (list Z))
    : list t81_comp := map (cst fl prev_rem rcpx done_rev) (seq 0 c).

  Lemma cs_rel_seq : forall fl fc g l a al n s0,
    length l = n -> length a = n -> length al = n ->
    (forall k, (k < n)%nat ->
       tc_entries (g (s0 + k)%nat) = E /\
       (fc = false -> hd 0 (tc_cur (g (s0 + k)%nat)) = nth k l 0) /\
       (fl = false -> hd 0 (tc_above (g (s0 + k)%nat)) = nth k a 0) /\
       (fl = false -> fc = false -> tc_rc (g (s0 + k)%nat) = nth k al 0)) ->
    cs_rel fl fc (map g (seq s0 n)) l a al.
  Proof.
    intros fl fc g l a al n. revert l a al. induction n; intros l a al s0 Hl Ha Hal H.
    - destruct l, a, al; try discriminate. constructor.
    - destruct l as [|l0 l], a as [|a0 a], al as [|al0 al]; try discriminate.
      cbn [seq map]. destruct (H 0%nat ltac:(lia)) as (H1 & H2 & H3 & H4). rewrite Nat.add_0_r in *.
      constructor; try assumption.
      apply IHn; try (simpl in *; lia).
      intros k Hk. specialize (H (S k) ltac:(lia)). rewrite Nat.add_succ_r in H. exact H.
  Qed.

  Lemma upds_seq : forall g px n s0, length px = n ->
    upds (map g (seq s0 n)) px = map (fun k => upd (g k) (nth (k - s0) px 0)) (seq s0 n).
  Proof.
    intros g px n. revert px. induction n; intros px s0 Hl.
    - destruct px; [reflexivity|discriminate].
    - destruct px as [|x px]; [discriminate|]. cbn [seq map upds]. f_equal.
      + rewrite Nat.sub_diag. reflexivity.
      + rewrite IHn by (simpl in Hl; lia). apply map_ext_in. intros k Hk. apply in_seq in Hk.
        replace (k - s0)%nat with (S (k - S s0)) by lia. reflexivity.
  Qed.
End T81Lock.

Section T81Lines.
  Variables bits vals : list Z.
  Hypothesis Hok : t81_table_ok bits vals = true.
  Variables pred P : Z.
  Hypothesis Hpred : 1 <= pred <= 7.
  Hypothesis HP : 2 <= P <= 16.
  Variable c : nat.
  Let dflt := 2 ^ (P - 1).
  Let f := fdiff (ll_pred pred dflt).
  Let dpx := repeat 0 c.
  Notation CST := (cst bits vals).
  Notation CSTS := (csts bits vals c).

  (* one pixel *)
  Lemma dec_mcu_csts : forall px ab prev' rcpx done_rev fl fc s B,
    goodpx P c px -> goodpx P c ab -> goodpx P c rcpx -> Forall (goodpx P c) done_rev ->
    (fc = false -> done_rev <> []) ->
    let left := hd dpx done_rev in
    diffs_ok vals (map4 f fl fc left ab rcpx px) ->
    rep' s (concat (map (word bits vals) (map4 f fl fc left ab rcpx px)) ++ B) ->
    exists s', t81_dec_mcu pred P fl fc (CSTS fl (ab :: prev') rcpx done_rev) s
               = Some (CSTS fl prev' ab (px :: done_rev), px, s') /\ rep' s' B.
  Proof.
    intros px ab prev' rcpx done_rev fl fc s B [Lpx Gpx] [Lab Gab] [Lrc Grc] Gdone Hfc left Hd Hr.
    assert (Lleft : length left = c).
    { unfold left. destruct done_rev as [|p0 dr]; cbn [hd]; [apply repeat_length|].
      inversion Gdone as [|? ? [Lp _] _]; subst. exact Lp. }
    destruct (dec_mcu_ok bits vals Hok pred P Hpred HP px (CSTS fl (ab :: prev') rcpx done_rev)
                left ab rcpx fl fc s B) as (s' & E1 & Hr'); try assumption.
    - unfold csts. apply (cs_rel_seq bits vals P HP); try assumption.
      intros k Hk. cbn [Nat.add]. unfold cst. cbn [tc_entries tc_cur tc_above tc_rc].
      split; [reflexivity|]. split; [|split].
      + intros Efc. specialize (Hfc Efc). unfold left. destruct done_rev as [|p0 dr]; [contradiction|].
        reflexivity.
      + intros Efl. subst fl. reflexivity.
      + intros Efl _. subst fl. reflexivity.
    - unfold csts. rewrite map_length, seq_length. exact Lpx.
    - exists s'. split; [|exact Hr']. rewrite E1. f_equal. f_equal. f_equal.
      unfold csts. rewrite (upds_seq P HP) by assumption. apply map_ext_in. intros k Hk.
      rewrite Nat.sub_0_r. unfold upd, cst. cbn [tc_entries tc_cur tc_above tc_rc].
      destruct fl; reflexivity.
  Qed.

  (* one line *)
  Lemma dec_line_csts : forall cur prev rcpx done_rev fl fc s B,
    length prev = length cur -> Forall (goodpx P c) cur -> Forall (goodpx P c) prev ->
    goodpx P c rcpx -> Forall (goodpx P c) done_rev ->
    (fc = false -> done_rev <> []) ->
    diffs_ok vals (row_map f fl fc (hd dpx done_rev) rcpx prev cur) ->
    rep' s (concat (map (word bits vals) (row_map f fl fc (hd dpx done_rev) rcpx prev cur)) ++ B) ->
    exists s' rcf, t81_dec_line (length cur) pred P fl fc (CSTS fl prev rcpx done_rev) s
                   = Some (CSTS fl [] rcf (rev cur ++ done_rev), concat cur, s') /\ rep' s' B.
  Proof.
    induction cur as [|px cur IH]; intros prev rcpx done_rev fl fc s B Hl Gc Gp Grc Gd Hfc Hd Hr.
    - destruct prev; [|discriminate]. cbn [length t81_dec_line rev app concat].
      exists s, rcpx. split; [reflexivity|]. cbn in Hr. exact Hr.
    - destruct prev as [|ab prev]; [discriminate|].
      inversion Gc; inversion Gp; subst.
      cbn [row_map] in Hr, Hd. rewrite map_app, concat_app, <- app_assoc in Hr.
      apply (proj1 (Forall_app _ _ _)) in Hd. destruct Hd as [Hd1 Hd2].
      destruct (dec_mcu_csts px ab prev rcpx done_rev fl fc s _ ltac:(assumption) ltac:(assumption) Grc Gd Hfc Hd1 Hr)
        as (s1 & E1 & Hr1).
      cbn [length t81_dec_line]. rewrite E1.
      destruct (IH prev ab (px :: done_rev) fl false s1 B) as (s2 & rcf & E2 & Hr2); try assumption.
      + simpl in Hl. lia.
      + constructor; assumption.
      + intros _. discriminate.
      + rewrite E2. exists s2, rcf. split; [|exact Hr2]. cbn [rev concat]. rewrite <- !app_assoc. reflexivity.
  Qed.

  Lemma next_line_csts : forall fl rcf row,
    map t81_next_line (CSTS fl [] rcf (rev row)) = CSTS false row dpx [].
  Proof.
    intros fl rcf row. unfold csts. rewrite map_map. apply map_ext_in. intros k Hk. apply in_seq in Hk.
    unfold t81_next_line, cst. cbn [tc_entries tc_cur]. rewrite <- map_rev, rev_involutive.
    f_equal. unfold comp, dpx. symmetry. apply nth_repeat.
  Qed.

  Lemma csts_first_line : forall prev prev' rcpx rcpx', CSTS true prev rcpx [] = CSTS true prev' rcpx' [].
  Proof. reflexivity. Qed.

  (* all lines *)
  Lemma dec_lines_csts : forall rows prev fl w s B,
    Forall (fun r => length r = w /\ Forall (goodpx P c) r) rows ->
    length prev = w -> Forall (goodpx P c) prev ->
    diffs_ok vals (rows_map f fl dpx prev rows) ->
    rep' s (concat (map (word bits vals) (rows_map f fl dpx prev rows)) ++ B) ->
    exists s', t81_dec_lines (length rows) w pred P fl (CSTS fl prev dpx []) s
               = Some (concat (concat rows), s') /\ rep' s' B.
  Proof.
    induction rows as [|row rows IH]; intros prev fl w s B Gr Lp Gp Hd Hr.
    - cbn [length t81_dec_lines concat]. exists s. split; [reflexivity|]. cbn in Hr. exact Hr.
    - inversion Gr as [|? ? [Lr Grr] Gr']; subst.
      cbn [rows_map] in Hr, Hd. rewrite map_app, concat_app, <- app_assoc in Hr.
      apply (proj1 (Forall_app _ _ _)) in Hd. destruct Hd as [Hd1 Hd2].
      assert (Gdpx : goodpx P c dpx) by (apply repeat_goodpx; lia).
      destruct (dec_line_csts row prev dpx [] fl true s _ ltac:(lia) Grr Gp Gdpx ltac:(constructor)
                  ltac:(intros; discriminate) Hd1 Hr) as (s1 & rcf & E1 & Hr1).
      cbn [length t81_dec_lines]. rewrite <- Lr. rewrite <- Lr in Gr'. rewrite E1.
      rewrite app_nil_r. rewrite next_line_csts.
      destruct (IH row false (length row) s1 B Gr' eq_refl Grr Hd2 Hr1) as (s2 & E2 & Hr2).
      rewrite E2. exists s2. split; [|exact Hr2]. cbn [concat]. rewrite concat_app. reflexivity.
  Qed.
End T81Lines.

End WithTail.

(* ---------- the T.81 marker parser on the stream layout of the encoders ---------- *)
Lemma t81_marker_ok : forall m rest, 0 <= m < 255 -> t81_marker (255 :: m :: rest) false = Some (m, rest).
Proof.
  intros m rest Hm. cbn [t81_marker]. change (255 =? 255) with true. cbv iota.
  destruct (Z.eqb_spec m 255); [lia|]. reflexivity.
Qed.

Lemma t81_payload_ok : forall data rest, zlen data + 2 < 65536 ->
  t81_payload (be16 (wrapU 16 (zlen data + 2)) ++ data ++ rest) = Some (data, rest).
Proof.
  intros data rest H. unfold zlen in *.
  rewrite wrapU_small by (change (2 ^ 16) with 65536; lia).
  unfold be16. cbn [app t81_payload].
  destruct (be16_val (Z.of_nat (length data) + 2) ltac:(lia)) as (_ & E & _).
  replace (256 * byte_of (Z.shiftr (Z.of_nat (length data) + 2) 8) + byte_of (Z.of_nat (length data) + 2) - 2)
    with (Z.of_nat (length data)) by lia.
  destruct (Z.leb_spec 0 (Z.of_nat (length data))); [|lia].
  destruct (Z.leb_spec (Z.of_nat (length data)) (Z.of_nat (length (data ++ rest)))) as [_|Hbad].
  - cbn [andb]. rewrite Nat2Z.id, firstn_len_app, skipn_len_app. reflexivity.
  - rewrite app_length in Hbad. lia.
Qed.

Lemma t81_segments_step : forall f m data rest h, 0 <= m < 255 -> zlen data + 2 < 65536 ->
  t81_segments (S f) (255 :: m :: be16 (wrapU 16 (zlen data + 2)) ++ data ++ rest) h =
  if m =? 196 then
    match t81_parse_dht (length data) data (th_tabs h) with
    | None => None
    | Some tabs => t81_segments f rest (mkT81H tabs (th_frame h))
    end
  else if m =? 195 then
    match th_frame h, t81_parse_sof3 data with
    | None, Some fr => t81_segments f rest (mkT81H (th_tabs h) (Some fr))
    | _, _ => None
    end
  else if m =? 218 then t81_decode_scan h data rest
  else if ((224 <=? m) && (m <=? 239)) || (m =? 254) || (m =? 219) || (m =? 204) then t81_segments f rest h
  else if m =? 221 then match data with [0; 0] => t81_segments f rest h | _ => None end
  else None.
Proof.
  intros f m data rest h Hm Hl. cbn [t81_segments]. rewrite t81_marker_ok by assumption.
  rewrite t81_payload_ok by assumption. reflexivity.
Qed.

Lemma t81_parse_sof3_ok : forall w h comps P,
  1 <= w <= 65535 -> 1 <= h <= 65535 -> comps = 1 \/ comps = 3 -> 2 <= P <= 16 ->
  t81_parse_sof3 (sof3_data w h comps P) =
  Some (P, h, w, if comps =? 1 then [1] else [1; 2; 3]).
Proof.
  intros w h comps P Hw Hh Hc HP. unfold sof3_data. cbn [app t81_parse_sof3].
  rewrite (byte_of_small P) by lia. rewrite (byte_of_small comps) by lia.
  destruct (be16_val h ltac:(lia)) as (_ & Eh & _). destruct (be16_val w ltac:(lia)) as (_ & Ew & _).
  replace (256 * byte_of (Z.shiftr h 8) + byte_of h) with h by lia.
  replace (256 * byte_of (Z.shiftr w 8) + byte_of w) with w by lia.
  destruct (Z.leb_spec 2 P); [|lia]. destruct (Z.leb_spec P 16); [|lia].
  destruct (Z.leb_spec 1 h); [|lia]. destruct (Z.leb_spec 1 w); [|lia]. cbn [andb].
  destruct Hc; subst comps; reflexivity.
Qed.

Lemma t81_parse_dht_ok : forall bits vals tabs, t81_table_ok bits vals = true ->
  t81_parse_dht (length (0 :: bits ++ vals)) (0 :: bits ++ vals) tabs =
  Some ((0, t81_entries bits vals) :: tabs).
Proof.
  intros bits vals tabs Hok. pose proof (table_ok_facts _ _ Hok) as [Fl Fb Fs Fv Fn Ff].
  cbn [length t81_parse_dht]. change (0 / 16) with 0. change (0 mod 16) with 0.
  rewrite <- Fl. rewrite firstn_len_app, skipn_len_app.
  change (fold_right Z.add 0 bits) with (zsum bits). rewrite Fs. unfold zlen. rewrite Nat2Z.id, firstn_all, skipn_all.
  change (0 <=? 1) with true. change (0 <=? 3) with true. cbn [andb].
  rewrite Fl, !Nat.eqb_refl, Hok. cbn [andb negb]. change (0 =? 0) with true. cbv iota.
  destruct (length (bits ++ vals)); reflexivity.
Qed.

Lemma t81_parse_sos_ok : forall comps pred, comps = 1 \/ comps = 3 -> 1 <= pred <= 7 ->
  t81_parse_sos (sos_data comps pred) (if comps =? 1 then [1] else [1; 2; 3]) =
  Some (pred, repeat 0 (Z.to_nat comps)).
Proof.
  intros comps pred Hc Hp. unfold sos_data. rewrite (byte_of_small pred) by lia.
  assert (E1 : (1 <=? pred) = true) by (apply Z.leb_le; lia).
  assert (E2 : (pred <=? 7) = true) by (apply Z.leb_le; lia).
  destruct Hc; subst comps;
    [change (Z.to_nat 1) with 1%nat | change (Z.to_nat 3) with 3%nat];
    cbn [seqZ flat_map app t81_parse_sos Z.eqb Pos.eqb length];
    vm_compute (firstn _ _); vm_compute (skipn _ _); cbv iota; rewrite E1, E2; vm_compute; reflexivity.
Qed.

(* ---------- sample bytes ---------- *)
Lemma t81_sample_bytes_eq : forall P v, 2 <= P <= 16 -> 0 <= v < 2 ^ P ->
  t81_sample_bytes P v = sample_bytes P v.
Proof.
  intros P v HP Hv. unfold t81_sample_bytes, sample_bytes.
  assert (H16 : 2 ^ P <= 2 ^ 16) by (apply Z.pow_le_mono_r; lia). change (2 ^ 16) with 65536 in H16.
  destruct (Z.leb_spec P 8).
  - assert (2 ^ P <= 2 ^ 8) by (apply Z.pow_le_mono_r; lia). change (2 ^ 8) with 256 in *.
    rewrite byte_of_small by lia. reflexivity.
  - rewrite !byte_of_mod. rewrite Z.shiftr_div_pow2 by lia. change (2 ^ 8) with 256.
    rewrite (Z.mod_small (v / 256)); [reflexivity|].
    split; [apply Z.div_pos; lia | apply Z.div_lt_upper_bound; lia].
Qed.

Lemma sample_bytes_all : forall P l, 2 <= P <= 16 -> Forall (good P) l ->
  flat_map (t81_sample_bytes P) l = flat_map (sample_bytes P) l.
Proof.
  intros P l HP Hg. induction Hg as [|v l Hv Hg IH]; [reflexivity|]. cbn [flat_map]. rewrite IH.
  rewrite (t81_sample_bytes_eq P v HP Hv). reflexivity.
Qed.

Lemma t81_expect_eoi_ok : t81_expect_eoi [255; 217] false = true.
Proof. reflexivity. Qed.


(* ---------- t81_decode on the stream layout ---------- *)
Theorem t81_decode_stream_of : forall w h comps P pred pixels bits vals,
  wf_image w h comps P pixels -> 1 <= pred <= 7 ->
  t81_table_ok bits vals = true ->
  covers vals (ll_diffs w comps P pred (pixels_to_rows w h comps P pixels)) ->
  t81_decode (stream_of w h comps P pred (ll_diffs w comps P pred (pixels_to_rows w h comps P pixels)) bits vals)
  = Some (pixels, w, h, comps, P).
Proof.
  intros w h comps P pred pixels bits vals Hwf Hpred Hok Hcov.
  pose proof (table_ok_facts _ _ Hok) as F.
  pose proof Hwf as (Hw & Hh & Hc & HP & Hl & Hb & Hs).
  destruct (rows_facts w h comps P pixels Hwf) as (Hlen & Hrows & Hback).
  set (rows := pixels_to_rows w h comps P pixels) in *.
  set (diffs := ll_diffs w comps P pred rows) in *.
  set (c := Z.to_nat comps) in *.
  assert (Ediffs : diffs = rows_map (fdiff (ll_pred pred (2 ^ (P - 1)))) true (repeat 0 c)
                             (repeat (repeat 0 c) (Z.to_nat w)) rows)
    by (unfold diffs; apply ll_diffs_rows_map).
  assert (Hdok : diffs_ok vals diffs).
  { unfold diffs_ok. apply Forall_forall. intros d Hd. split.
    - revert d Hd. apply Forall_forall. rewrite Ediffs. apply rows_map_Forall.
      intros. apply narrow16_range.
    - apply (proj1 (Forall_forall _ _) Hcov). assumption. }
  unfold stream_of. rewrite (enc_syms_emit bits vals diffs w_init [] F Hdok winv_init).
  destruct (emit_stuff_pad (map (word bits vals) diffs) []) as (bs & pad & E1 & E2 & E3 & E4); [simpl; lia|].
  rewrite E1. cbn [app] in E3.
  (* SOI and the segment loop *)
  change (be16 M_SOI) with [255; 216]. change (be16 M_EOI) with [255; 217].
  cbn [app t81_decode length].
  match goal with |- context [t81_segments _ ?r _] => set (rest := r) end.
  assert (Hfuel : exists f, length rest = S (S f)).
  { unfold rest. rewrite app_length. pose proof (segment_length M_APP0 jfif_payload).
    destruct (length (segment M_APP0 jfif_payload)) as [|[|n]]; try lia. eexists. reflexivity. }
  destruct Hfuel as [f Hf]. rewrite Hf. unfold rest.
  (* APP0 *)
  rewrite (segment_shape M_APP0). change (byte_of (Z.shiftr M_APP0 8)) with 255. change (byte_of M_APP0) with 224.
  rewrite t81_segments_step by first [lia | vm_compute; reflexivity].
  change (224 =? 196) with false. change (224 =? 195) with false. change (224 =? 218) with false.
  change ((224 <=? 224) && (224 <=? 239)) with true. cbn [orb]. cbv iota.
  (* SOF3 *)
  rewrite (segment_shape M_SOF3). change (byte_of (Z.shiftr M_SOF3 8)) with 255. change (byte_of M_SOF3) with 195.
  rewrite t81_segments_step by first [lia | rewrite sof3_len by assumption; lia].
  change (195 =? 196) with false. change (195 =? 195) with true. cbv iota. cbn [th_frame th_tabs].
  rewrite t81_parse_sof3_ok by assumption.
  (* DHT *)
  rewrite dht_data_ok by assumption.
  rewrite (segment_shape M_DHT). change (byte_of (Z.shiftr M_DHT 8)) with 255. change (byte_of M_DHT) with 196.
  rewrite t81_segments_step by first [lia | apply dht_len; assumption].
  change (196 =? 196) with true. cbv iota. cbn [th_frame th_tabs].
  rewrite t81_parse_dht_ok by assumption.
  (* SOS *)
  rewrite (segment_shape M_SOS). change (byte_of (Z.shiftr M_SOS 8)) with 255. change (byte_of M_SOS) with 218.
  rewrite t81_segments_step by first [lia | rewrite sos_len by assumption; lia].
  change (218 =? 196) with false. change (218 =? 195) with false. change (218 =? 218) with true. cbv iota.
  (* the scan *)
  unfold t81_decode_scan. cbn [th_frame th_tabs].
  rewrite t81_parse_sos_ok by assumption. fold c.
  assert (Hcomps : map (fun td : Z => match t81_assoc [(0, t81_entries bits vals)] td with
                                      | Some e => Some (mkT81C e [] 0 [])
                                      | None => None end) (repeat 0 c)
                   = map Some (csts bits vals c true [] [] [])).
  { unfold c, csts. destruct Hc; subst comps; reflexivity. }
  rewrite Hcomps.
  assert (Hall : forallb (fun c0 : option t81_comp => match c0 with Some _ => true | None => false end)
                         (map Some (csts bits vals c true [] [] [])) = true).
  { apply forallb_forall. intros x Hx. apply in_map_iff in Hx. destruct Hx as (y & <- & _). reflexivity. }
  rewrite Hall.
  assert (Hfm : flat_map (fun c0 : option t81_comp => match c0 with Some x => [x] | None => [] end)
                         (map Some (csts bits vals c true [] [] [])) = csts bits vals c true [] [] []).
  { generalize (csts bits vals c true [] [] []). induction l; [reflexivity|]. cbn [map flat_map app]. rewrite IHl. reflexivity. }
  rewrite Hfm.
  destruct (dec_lines_csts [255; 217] bits vals Hok pred P Hpred HP c rows
              (repeat (repeat 0 c) (Z.to_nat w)) true (Z.to_nat w) ([], stuff bs ++ [255; 217]) pad)
    as (s' & Edec & Hr').
  - exact Hrows.
  - apply repeat_length.
  - apply Forall_forall. intros x Hx. apply repeat_spec in Hx. subst x. apply repeat_goodpx. lia.
  - rewrite <- Ediffs. exact Hdok.
  - rewrite <- Ediffs. rewrite <- E3. apply rep'_init. exact E2.
  - rewrite Hlen in Edec.
    rewrite (csts_first_line bits vals c _ [] _ []) in Edec. rewrite Edec.
    (* after the last sample only padding is left: the remaining bytes are the EOI marker *)
    destruct Hr' as (bs' & Hrest & Hbs' & Hpad).
    destruct s' as [cur rest']. cbn [fst snd] in *.
    assert (Hbs0 : bs' = []).
    { destruct bs' as [|x bs'']; [reflexivity|]. exfalso.
      apply (f_equal (@length bool)) in Hpad. rewrite app_length, bits8_length in Hpad. cbn [length] in Hpad. lia. }
    subst bs'. cbn [stuff flat_map app] in Hrest. rewrite Hrest. rewrite t81_expect_eoi_ok.
    f_equal.
    assert (Hbytes : flat_map (t81_sample_bytes P) (concat (concat rows)) = pixels).
    { rewrite <- Hback. unfold rows_to_pixels.
      assert (Hg : Forall (good P) (concat (concat rows))).
      { apply Forall_forall. intros v Hv. apply in_concat in Hv. destruct Hv as (px & Hpx & Hv).
        apply in_concat in Hpx. destruct Hpx as (row & Hrow & Hpx).
        apply (proj1 (Forall_forall _ _) Hrows) in Hrow. destruct Hrow as [_ Hrow].
        apply (proj1 (Forall_forall _ _) Hrow) in Hpx. destruct Hpx as [_ Hpx].
        apply (proj1 (Forall_forall _ _) Hpx). assumption. }
      apply sample_bytes_all; assumption. }
    rewrite Hbytes.
    destruct Hc; subst comps; reflexivity.
Qed.

(* C13, first sentence, in the model world: the independent T.81 Annex H decoder returns the
   source image from the stream of lossless.Encode, for every predictor 1..7 and automatic
   selection, and from the stream of lossless14sv1.Encode. *)
Theorem t81_decodes_jll : forall w h comps P pred pixels s,
  wf_image w h comps P pixels -> 0 <= pred <= 7 ->
  table_hyp (ll_diffs w comps P (effective_pred w h comps P pred pixels) (pixels_to_rows w h comps P pixels)) ->
  jll_encode w h comps P pred pixels = Ok s ->
  t81_decode s = Some (pixels, w, h, comps, P).
Proof.
  intros w h comps P pred pixels s Hwf Hpred (bits & vals & Hopt & Hok & Hcov) Henc.
  rewrite (jll_encode_fwd _ _ _ _ _ _ Hwf Hpred) in Henc.
  assert (Hep : 1 <= effective_pred w h comps P pred pixels <= 7).
  { unfold effective_pred. destruct (Z.eqb_spec pred 0); [apply select_best_range | lia]. }
  pose proof (encode_stream_fwd w h comps P (effective_pred w h comps P pred pixels) _ bits vals Hopt) as Hf. rewrite Henc in Hf.
  apply Ok_inj in Hf. subst s.
  apply t81_decode_stream_of; assumption.
Qed.

Theorem t81_decodes_sv1 : forall w h comps P pixels s,
  wf_image w h comps P pixels ->
  table_hyp (sv1_diffs w comps P (pixels_to_rows w h comps P pixels)) ->
  sv1_encode w h comps P pixels = Ok s ->
  t81_decode s = Some (pixels, w, h, comps, P).
Proof.
  intros w h comps P pixels s Hwf Hth Henc.
  rewrite (sv1_encode_is_pred1 _ _ _ _ _ Hwf) in Henc. rewrite sv1_diffs_eq in Hth.
  apply (t81_decodes_jll w h comps P 1 pixels s Hwf); [lia | exact Hth | exact Henc].
Qed.

(* the independent codec is self-consistent in this configuration: decoder after encoder *)
Theorem t81_roundtrip_partial : forall w h comps P pred pixels bits vals s,
  wf_image w h comps P pixels -> 1 <= pred <= 7 ->
  t81_table_ok bits vals = true ->
  covers vals (ll_diffs w comps P pred (pixels_to_rows w h comps P pixels)) ->
  t81_encode pred (repeat 0 (Z.to_nat comps)) [(0, (bits, vals))] true [(224, jfif_payload)]
             w h comps P pixels = Some s ->
  t81_decode s = Some (pixels, w, h, comps, P).
Proof.
  intros w h comps P pred pixels bits vals s Hwf Hpred Hok Hcov Henc.
  rewrite (t81_encode_stream_of _ _ _ _ _ _ _ _ Hwf Hpred Hok Hcov) in Henc.
  injection Henc as Hs. subst s. apply t81_decode_stream_of; assumption.
Qed.
