(* Category/magnitude coding of differences (exhaustive over int16) and canonical Huffman
   codes: the mincode/maxcode/valptr decoder of HuffmanTable.Build / Decode inverts the
   codes assigned by BuildHuffmanCodes for every valid table. *)
From V Require Import Common.Base JpegLL.JllBits JpegLL.JllHuff JpegLL.JllT81 JpegLL.JllProofsBits.

(* ---------- seqZ ---------- *)
Lemma In_seqZ : forall n s x, s <= x < s + Z.of_nat n -> In x (seqZ s n).
Proof.
  induction n; intros s x H; [lia|].
  cbn [seqZ]. destruct (Z.eq_dec s x); [left; assumption | right; apply IHn; lia].
Qed.
Lemma seqZ_length : forall n s, length (seqZ s n) = n.
Proof. induction n; intros; simpl; [reflexivity | rewrite IHn; reflexivity]. Qed.
Lemma nth_error_seqZ : forall n s k, (k < n)%nat -> nth_error (seqZ s n) k = Some (s + Z.of_nat k).
Proof.
  induction n; intros s k H; [lia|]. destruct k; cbn [seqZ nth_error].
  - f_equal. lia.
  - rewrite IHn by lia. f_equal. lia.
Qed.

(* ---------- cat_exhaustive ---------- *)
(* what ReceiveLosslessDifference returns when the [cat] magnitude bits read as v *)
Definition lossless_value (cat v : Z) : Z :=
  if cat =? 16 then -32768 else if cat =? 0 then 0 else extend_val cat v.

Definition cat_check (d : Z) : bool :=
  let '(cat, mag) := encode_lossless_diff d in
  (0 <=? cat) && (cat <=? 16) && (lossless_value cat (mag mod 2 ^ cat) =? d)
  && (cat =? diff_category d).

Lemma cat_all : forallb cat_check (seqZ (-32768) (Z.to_nat 65536)) = true.
Proof. vm_compute. reflexivity. Qed.

(* all 65536 differences: the category is at most 16, equals diffCategory (the one counted for
   the table), and receiving the magnitude bits gives the difference back *)
Theorem cat_exhaustive : forall d, -32768 <= d <= 32767 ->
  let '(cat, mag) := encode_lossless_diff d in
  0 <= cat <= 16 /\ lossless_value cat (mag mod 2 ^ cat) = d /\ cat = diff_category d.
Proof.
  intros d Hd.
  pose proof (proj1 (forallb_forall _ _) cat_all d) as H.
  assert (Hin : In d (seqZ (-32768) (Z.to_nat 65536))) by (apply In_seqZ; lia).
  specialize (H Hin). unfold cat_check in H.
  destruct (encode_lossless_diff d) as [cat mag].
  rewrite !andb_true_iff in H. destruct H as [[[H1 H2] H3] H4].
  repeat split; try lia.
Qed.

(* the magnitude part of a code word, as a bit list *)
Definition mag_bits (cat mag : Z) : list bool :=
  if (0 <? cat) && negb (cat =? 16) then bits_of (Z.to_nat cat) mag else [].

Lemma receive_spec : forall d st B, -32768 <= d <= 32767 ->
  let cat := fst (encode_lossless_diff d) in
  let mag := snd (encode_lossless_diff d) in
  rep st (mag_bits cat mag ++ B) ->
  exists st', (if 0 <? cat then receive_lossless st cat else Some (0, st)) = Some (d, st') /\ rep st' B.
Proof.
  intros d st B Hd. pose proof (cat_exhaustive d Hd) as H.
  destruct (encode_lossless_diff d) as [cat mag]. cbn [fst snd]. destruct H as (Hc & Hv & _).
  unfold mag_bits, lossless_value in *. intros Hr.
  destruct (Z.ltb_spec 0 cat) as [Hpos|Hz].
  - unfold receive_lossless. destruct (Z.eqb_spec cat 16) as [E16|N16].
    + cbn [andb negb app] in Hr. exists st. split; [rewrite <- Hv; reflexivity | exact Hr].
    + cbn [andb negb] in Hr. destruct (Z.eqb_spec cat 0); [lia|].
      unfold receive_extend. destruct (Z.eqb_spec cat 0); [lia|].
      destruct (read_bits_spec st cat _ _ ltac:(lia) Hr) as (st' & E & Hr').
      { apply bits_of_length. }
      rewrite E. exists st'. split; [|exact Hr'].
      rewrite bval_bits_of, Z2Nat.id by lia. rewrite Hv. reflexivity.
  - assert (cat = 0) by lia. subst cat. cbn in Hr. cbn in Hv. exists st. split; [rewrite Hv; reflexivity | exact Hr].
Qed.

(* ---------- canonical codes ---------- *)
(* BuildHuffmanCodes without the uint16 wrap *)
Fixpoint canon0 (bits : list Z) (len code : Z) : list (Z * Z) :=
  match bits with
  | [] => []
  | b :: bs => map (fun i => (code + i, len)) (seqZ 0 (Z.to_nat b)) ++ canon0 bs (len + 1) (2 * (code + b))
  end.
(* the counts fit a binary tree: [first] codes of length [len] are already used *)
Fixpoint fits (bits : list Z) (len first : Z) : Prop :=
  match bits with
  | [] => True
  | b :: bs => 0 <= b /\ first + b <= 2 ^ len /\ fits bs (len + 1) (2 * (first + b))
  end.

Lemma wrapU_small : forall n x, 0 <= x < 2 ^ n -> wrapU n x = x.
Proof. intros. unfold wrapU. apply Z.mod_small. assumption. Qed.
Lemma wrapU_cong : forall n x y, 0 <= n -> wrapU n x = wrapU n y -> forall k, wrapU n (x + k) = wrapU n (y + k).
Proof.
  unfold wrapU. intros n x y Hn H k. rewrite (Z.add_mod x), (Z.add_mod y) by (apply Z.pow_nonzero; lia).
  rewrite H. reflexivity.
Qed.

Lemma canon_canon0 : forall bits len code code', 0 <= code' -> 0 <= len -> len + zlen bits <= 17 ->
  wrapU 16 code = wrapU 16 code' -> fits bits len code' ->
  canon bits len code = canon0 bits len code'.
Proof.
  induction bits as [|b bs IH]; intros len code code' Hc Hl Hlen Hw Hf; [reflexivity|].
  cbn [canon canon0 fits] in *. destruct Hf as (Hb & Hfit & Hf').
  unfold zlen in *. cbn [length] in Hlen. rewrite Nat2Z.inj_succ in Hlen.
  assert (H16 : 2 ^ len <= 2 ^ 16) by (apply Z.pow_le_mono_r; lia).
  f_equal.
  - apply map_ext_in. intros i Hi. f_equal.
    assert (0 <= i < b).
    { apply In_nth_error in Hi. destruct Hi as [k Hk].
      assert (k < Z.to_nat b)%nat by (rewrite <- (seqZ_length (Z.to_nat b) 0); apply nth_error_Some; congruence).
      rewrite nth_error_seqZ in Hk by assumption. injection Hk as Hk. lia. }
    rewrite (wrapU_cong 16 code code') by (lia || assumption). apply wrapU_small. lia.
  - apply IH; try lia; [|assumption].
    rewrite Z.max_r by lia.
    unfold wrapU in *. rewrite Z.mod_mod by lia. rewrite Z.mul_mod_idemp_r by lia.
    rewrite (Z.mul_mod 2 (code + b)), (Z.mul_mod 2 (code' + b)) by lia.
    rewrite (Z.add_mod code), (Z.add_mod code') by lia. rewrite Hw. reflexivity.
Qed.

Lemma canon0_length : forall bits len code, Forall (fun b => 0 <= b) bits ->
  zlen (canon0 bits len code) = zsum bits.
Proof.
  induction bits as [|b bs IH]; intros len code Hf; [reflexivity|].
  inversion Hf; subst. cbn [canon0 zsum fold_right]. unfold zlen in *.
  rewrite app_length, map_length, seqZ_length, Nat2Z.inj_add, IH by assumption.
  unfold zsum. lia.
Qed.

Lemma fits_nonneg : forall bits len first, fits bits len first -> Forall (fun b => 0 <= b) bits.
Proof.
  induction bits; intros len first H; constructor; cbn [fits] in H; [lia|].
  eapply IHbits. apply H.
Qed.

(* every code of the tail is at least first * 2^(L - len) *)
Lemma canon0_lower : forall bits len first k W L, fits bits len first -> 0 <= first ->
  nth_error (canon0 bits len first) k = Some (W, L) -> len <= L /\ first * 2 ^ (L - len) <= W.
Proof.
  induction bits as [|b bs IH]; intros len first k W L Hf H0 Hn; [destruct k; discriminate|].
  cbn [canon0 fits] in *. destruct Hf as (Hb & Hfit & Hf').
  destruct (lt_dec k (Z.to_nat b)) as [Hk|Hk].
  - rewrite nth_error_app1 in Hn by (rewrite map_length, seqZ_length; assumption).
    rewrite nth_error_map, nth_error_seqZ in Hn by assumption. cbn in Hn. injection Hn as E1 E2.
    subst. rewrite Z.sub_diag. cbn. lia.
  - rewrite nth_error_app2 in Hn by (rewrite map_length, seqZ_length; lia).
    apply IH in Hn; [|assumption|lia]. destruct Hn as [HL HW]. split; [lia|].
    replace (L - len) with (1 + (L - (len + 1))) by lia. rewrite Z.pow_add_r by lia.
    change (2 ^ 1) with 2.
    assert (0 <= 2 ^ (L - (len + 1))) by (apply Z.pow_nonneg; lia).
    nia.
Qed.

Lemma shiftr_step : forall W j, 0 <= W -> 0 <= j ->
  2 * Z.shiftr W (j + 1) + Z.b2z (Z.testbit W j) = Z.shiftr W j.
Proof.
  intros W j HW Hj. rewrite <- (Z.shiftr_shiftr W j 1) by lia.
  rewrite (Z.shiftr_div_pow2 _ 1) by lia. change (2 ^ 1) with 2.
  replace (Z.testbit W j) with (Z.testbit (Z.shiftr W j) 0)
    by (rewrite Z.shiftr_spec by lia; f_equal; lia).
  rewrite Z.bit0_mod.
  pose proof (Z.div_mod (Z.shiftr W j) 2 ltac:(lia)). lia.
Qed.

(* the decoding loop on a stream that starts with the remaining bits of a code word *)
Lemma decode_loop_canon : forall bits len first p0 k W L st B vals,
  fits bits len first -> 0 <= first -> 1 <= len -> 0 <= p0 ->
  nth_error (canon0 bits len first) k = Some (W, L) ->
  rep st (bits_of (Z.to_nat (L - len + 1)) W ++ B) ->
  p0 + Z.of_nat k < zlen vals ->
  exists st', decode_loop (build_mmv bits first p0) vals (Z.shiftr W (L - len + 1)) st
              = Some (znth vals (p0 + Z.of_nat k) 0, st') /\ rep st' B.
Proof.
  induction bits as [|b bs IH]; intros len first p0 k W L st B vals Hf H0 Hl Hp Hn Hr Hv;
    [destruct k; discriminate|].
  pose proof (canon0_lower _ _ _ _ _ _ Hf H0 Hn) as [HL HW].
  assert (HW0 : 0 <= W).
  { assert (0 <= 2 ^ (L - len)) by (apply Z.pow_nonneg; lia). nia. }
  cbn [canon0 fits] in *. destruct Hf as (Hb & Hfit & Hf').
  replace (Z.to_nat (L - len + 1)) with (S (Z.to_nat (L - len))) in Hr by lia.
  rewrite bits_of_S in Hr. cbn [app] in Hr. rewrite Z2Nat.id in Hr by lia.
  destruct (read_bit_spec _ _ _ Hr) as (st1 & E1 & Hr1).
  assert (Hcode : 2 * Z.shiftr W (L - len + 1) + (if Z.testbit W (L - len) then 1 else 0)
                  = Z.shiftr W (L - len)) by (apply (shiftr_step W (L - len)); lia).
  destruct (lt_dec k (Z.to_nat b)) as [Hk|Hk].
  - (* the code word has this length *)
    rewrite nth_error_app1 in Hn by (rewrite map_length, seqZ_length; assumption).
    rewrite nth_error_map, nth_error_seqZ in Hn by assumption. cbn in Hn. injection Hn as E2 E3.
    subst L. rewrite Z.sub_diag in *. rewrite Z.shiftr_0_r in Hcode.
    cbn [build_mmv]. destruct (Z.eqb_spec b 0); [lia|].
    cbn [decode_loop]. rewrite E1. rewrite Hcode.
    destruct (Z.leb_spec W (first + b - 1)); [|lia].
    destruct (Z.leb_spec 0 (first + b - 1)); [|lia]. cbn [andb].
    replace (p0 + W - first) with (p0 + Z.of_nat k) by lia.
    destruct (Z.leb_spec 0 (p0 + Z.of_nat k)); [|lia].
    destruct (Z.ltb_spec (p0 + Z.of_nat k) (zlen vals)); [|lia]. cbn [andb].
    exists st1. split; [reflexivity | exact Hr1].
  - (* longer: this level is skipped *)
    rewrite nth_error_app2 in Hn by (rewrite map_length, seqZ_length; lia).
    rewrite map_length, seqZ_length in Hn.
    pose proof (canon0_lower _ _ _ _ _ _ Hf' ltac:(lia) Hn) as [HL' HW'].
    assert (Hge : first + b <= Z.shiftr W (L - len)).
    { rewrite Z.shiftr_div_pow2 by lia. apply Z.div_le_lower_bound; [apply Z.pow_pos_nonneg; lia|].
      replace (L - len) with (1 + (L - (len + 1))) by lia. rewrite Z.pow_add_r by lia.
      change (2 ^ 1) with 2. lia. }
    destruct (IH (len + 1) (2 * (first + b)) (p0 + b) (k - Z.to_nat b)%nat W L st1 B vals)
      as (st2 & E2 & Hr2); try assumption; try lia.
    { replace (L - (len + 1) + 1) with (L - len) by lia. exact Hr1. }
    replace (L - (len + 1) + 1) with (L - len) in E2 by lia.
    replace (p0 + b + Z.of_nat (k - Z.to_nat b)) with (p0 + Z.of_nat k) in E2 by lia.
    exists st2. split; [|exact Hr2].
    cbn [build_mmv]. destruct (Z.eqb_spec b 0) as [Eb|Eb].
    + subst b. cbn [decode_loop]. rewrite E1, Hcode.
      destruct (Z.leb_spec (Z.shiftr W (L - len)) (-1)); [lia|]. cbn [andb].
      replace (2 * (first + 0)) with (2 * first) in E2 by lia.
      replace (p0 + 0) with p0 in E2 by lia. exact E2.
    + cbn [decode_loop]. rewrite E1, Hcode.
      destruct (Z.leb_spec (Z.shiftr W (L - len)) (first + b - 1)); [lia|]. cbn [andb]. exact E2.
Qed.

(* ---------- codes[] as filled by BuildHuffmanCodes ---------- *)
Lemma upd_length : forall {A} (l : list A) i v, length (upd l i v) = length l.
Proof. induction l; intros [|i] v; simpl; try reflexivity. rewrite IHl. reflexivity. Qed.
Lemma zupd_length : forall {A} (l : list A) i v, length (zupd l i v) = length l.
Proof. intros. unfold zupd. destruct (i <? 0); [reflexivity | apply upd_length]. Qed.
Lemma nth_upd_same : forall {A} (l : list A) i v d, (i < length l)%nat -> nth i (upd l i v) d = v.
Proof. induction l; intros [|i] v d H; simpl in *; try lia; [reflexivity | apply IHl; lia]. Qed.
Lemma nth_upd_other : forall {A} (l : list A) i j v d, i <> j -> nth j (upd l i v) d = nth j l d.
Proof. induction l; intros [|i] [|j] v d H; simpl; try reflexivity; try lia. apply IHl. lia. Qed.
Lemma znth_zupd_same : forall {A} (l : list A) i v d, 0 <= i < zlen l -> znth (zupd l i v) i d = v.
Proof.
  intros. unfold znth, zupd, zlen in *. destruct (Z.ltb_spec i 0); [lia|]. apply nth_upd_same. lia.
Qed.
Lemma znth_zupd_other : forall {A} (l : list A) i j v d, i <> j -> znth (zupd l i v) j d = znth l j d.
Proof.
  intros. unfold znth, zupd. destruct (Z.ltb_spec j 0); [reflexivity|].
  destruct (Z.ltb_spec i 0); [reflexivity|]. apply nth_upd_other. lia.
Qed.

Definition upd_step (codes : list (Z * Z)) (vc : Z * (Z * Z)) := zupd codes (fst vc) (snd vc).

Lemma fold_upd_length : forall l arr, length (fold_left upd_step l arr) = length arr.
Proof. induction l; intros; cbn [fold_left]; [reflexivity|]. rewrite IHl. apply zupd_length. Qed.
Lemma fold_upd_notin : forall l arr v d, ~ In v (map fst l) ->
  znth (fold_left upd_step l arr) v d = znth arr v d.
Proof.
  induction l as [|[x c] l IH]; intros arr v d H; cbn [fold_left]; [reflexivity|].
  cbn [map In fst] in H. rewrite IH by tauto. unfold upd_step. cbn [fst snd].
  apply znth_zupd_other. tauto.
Qed.
Lemma fold_upd_nth : forall vals cs arr p d, NoDup vals -> (p < length vals)%nat -> (p < length cs)%nat ->
  (forall v, In v vals -> 0 <= v < zlen arr) ->
  znth (fold_left upd_step (combine vals cs) arr) (nth p vals 0) d = nth p cs d.
Proof.
  induction vals as [|x vals IH]; intros cs arr p d Hnd Hp Hc Hr; [simpl in Hp; lia|].
  destruct cs as [|c cs]; [simpl in Hc; lia|]. inversion Hnd; subst.
  cbn [combine fold_left]. destruct p.
  - cbn [nth]. rewrite fold_upd_notin.
    + unfold upd_step. cbn [fst snd]. apply znth_zupd_same. apply Hr. left. reflexivity.
    + intros Hin. apply H1. clear -Hin. revert cs Hin. induction vals; intros [|c' cs] Hin; simpl in *; try tauto.
      destruct Hin; [left; assumption | right; eapply IHvals; eassumption].
  - cbn [nth]. apply IH; try assumption; simpl in *; try lia.
    intros v Hv. unfold upd_step, zlen. rewrite zupd_length. apply Hr. right. assumption.
Qed.

(* ---------- validity of a table ---------- *)
Lemma kraft_fits : forall bits len first, 0 <= first -> 1 <= len -> len + zlen bits <= 17 ->
  Forall (fun b => 0 <= b) bits ->
  first * 2 ^ (17 - len) + 2 * t81_kraft bits len <= 2 ^ 17 -> fits bits len first.
Proof.
  induction bits as [|b bs IH]; intros len first H0 Hl Hlen Hf Hk; [exact I|].
  inversion Hf as [|? ? Hb Hf']; subst. unfold zlen in *. cbn [length] in Hlen. rewrite Nat2Z.inj_succ in Hlen.
  cbn [t81_kraft fits] in *.
  assert (Hkn : forall l i, Forall (fun b => 0 <= b) l -> i + Z.of_nat (length l) <= 17 -> 0 <= t81_kraft l i).
  { induction l as [|c l IHl]; intros i Hc Hi; cbn [t81_kraft]; [lia|].
    inversion Hc as [|? ? Hc1 Hc2]; subst.
    cbn [length] in Hi. rewrite Nat2Z.inj_succ in Hi.
    assert (0 <= 2 ^ (16 - i)) by (apply Z.pow_nonneg; lia).
    specialize (IHl (i + 1) Hc2 ltac:(lia)). nia. }
  pose proof (Hkn bs (len + 1) Hf' ltac:(lia)) as Hk0.
  assert (E17 : 2 ^ 17 = 2 ^ len * 2 ^ (17 - len)) by (rewrite <- Z.pow_add_r by lia; f_equal; lia).
  assert (E16 : 2 ^ (17 - len) = 2 * 2 ^ (16 - len)).
  { replace (17 - len) with (1 + (16 - len)) by lia. rewrite Z.pow_add_r by lia. reflexivity. }
  assert (Hp : 0 < 2 ^ (16 - len)) by (apply Z.pow_pos_nonneg; lia).
  split; [assumption|]. split.
  - assert ((first + b) * 2 ^ (17 - len) <= 2 ^ len * 2 ^ (17 - len)) by nia.
    apply Z.mul_le_mono_pos_r with (p := 2 ^ (17 - len)); [lia | assumption].
  - apply IH; try assumption; try lia.
    replace (17 - (len + 1)) with (16 - len) by lia. nia.
Qed.

Lemma distinct_NoDup : forall l, t81_distinct l = true -> NoDup l.
Proof.
  induction l as [|x l IH]; intros H; constructor; cbn [t81_distinct] in H;
    apply andb_true_iff in H; destruct H as [H1 H2].
  - intros Hin. apply negb_true_iff in H1.
    assert (existsb (Z.eqb x) l = true) by (apply existsb_exists; exists x; split; [assumption | apply Z.eqb_refl]).
    congruence.
  - apply IH. assumption.
Qed.

Record table_facts (bits vals : list Z) : Prop := {
  tf_len : length bits = 16%nat;
  tf_bits : Forall (fun b => 0 <= b < 256) bits;
  tf_sum : zsum bits = zlen vals;
  tf_vals : Forall (fun v => 0 <= v < 256) vals;
  tf_nodup : NoDup vals;
  tf_fits : fits bits 1 0 }.

Lemma table_ok_facts : forall bits vals, t81_table_ok bits vals = true -> table_facts bits vals.
Proof.
  intros bits vals H. unfold t81_table_ok in H. rewrite !andb_true_iff in H.
  destruct H as [[[[[H1 H2] H3] H4] H5] H6].
  apply Nat.eqb_eq in H1.
  assert (Hb : Forall (fun b => 0 <= b < 256) bits).
  { apply Forall_forall. intros b Hb. apply (proj1 (forallb_forall _ _) H2) in Hb. lia. }
  constructor; try assumption.
  - unfold zsum, zlen. lia.
  - apply Forall_forall. intros v Hv. apply (proj1 (forallb_forall _ _) H4) in Hv. lia.
  - apply distinct_NoDup. assumption.
  - apply kraft_fits; try lia.
    + unfold zlen. rewrite H1. lia.
    + eapply Forall_impl; [|exact Hb]. cbn. intros; lia.
Qed.

(* ---------- huff_prefix_decode ---------- *)
Definition code_of (bits vals : list Z) (s : Z) : Z * Z := znth (build_codes bits vals) s (0, 0).
Definition ht_of (bits vals : list Z) : htable := mkHT bits vals (build_mmv bits 0 0).

Lemma build_codes_canon0 : forall bits vals p, table_facts bits vals -> (p < length vals)%nat ->
  code_of bits vals (nth p vals 0) = nth p (canon0 bits 1 0) (0, 0).
Proof.
  intros bits vals p F Hp. destruct F. unfold code_of, build_codes.
  rewrite (canon_canon0 bits 1 0 0); try lia; try reflexivity; try assumption.
  2:{ unfold zlen. rewrite tf_len0. lia. }
  change (fun codes vc => zupd codes (fst vc) (snd vc)) with upd_step.
  apply fold_upd_nth; try assumption.
  - assert (zlen (canon0 bits 1 0) = zlen vals).
    { rewrite canon0_length; [assumption|]. eapply Forall_impl; [|exact tf_bits0]. cbn; intros; lia. }
    unfold zlen in *. lia.
  - intros v Hv. unfold zlen. rewrite repeat_length. apply (proj1 (Forall_forall _ _) tf_vals0). assumption.
Qed.

Lemma code_of_len : forall bits vals s, table_facts bits vals -> In s vals ->
  0 <= fst (code_of bits vals s) /\ 1 <= snd (code_of bits vals s) <= 16.
Proof.
  intros bits vals s F Hs. destruct (In_nth _ _ 0 Hs) as (p & Hp & Ep). subst s.
  rewrite build_codes_canon0 by assumption.
  assert (Hlen : (p < length (canon0 bits 1 0))%nat).
  { destruct F. assert (zlen (canon0 bits 1 0) = zlen vals).
    { rewrite canon0_length; [assumption|]. eapply Forall_impl; [|exact tf_bits0]. cbn; intros; lia. }
    unfold zlen in *. lia. }
  pose proof (nth_error_nth' (canon0 bits 1 0) (0, 0) Hlen) as Hn.
  destruct (nth p (canon0 bits 1 0) (0, 0)) as [W L] eqn:E. cbn [fst snd].
  pose proof (canon0_lower _ _ _ _ _ _ (tf_fits _ _ F) ltac:(lia) Hn) as [HL HW].
  split; [lia|]. split; [lia|].
  (* upper bound on the length: no entry beyond level 16 *)
  assert (Hub : forall bs len first k W L, nth_error (canon0 bs len first) k = Some (W, L) -> L < len + zlen bs).
  { induction bs as [|b bs IHb]; intros len first k W0 L0 Hk; [destruct k; discriminate|].
    cbn [canon0] in Hk. unfold zlen. cbn [length]. rewrite Nat2Z.inj_succ.
    destruct (lt_dec k (Z.to_nat b)).
    - rewrite nth_error_app1 in Hk by (rewrite map_length, seqZ_length; assumption).
      rewrite nth_error_map, nth_error_seqZ in Hk by assumption. cbn in Hk. injection Hk as _ E2. lia.
    - rewrite nth_error_app2 in Hk by (rewrite map_length, seqZ_length; lia).
      apply IHb in Hk. unfold zlen in Hk. lia. }
  apply Hub in Hn. unfold zlen in Hn. rewrite (tf_len _ _ F) in Hn. lia.
Qed.

(* For any valid table (BITS/HUFFVAL with Kraft sum <= 1 over lengths 1..16, distinct symbols),
   decoding a stream that starts with the code of a symbol of the table returns that symbol
   and leaves the rest of the stream. *)
Theorem huff_prefix_decode : forall bits vals s st B,
  t81_table_ok bits vals = true -> In s vals ->
  rep st (bits_of (Z.to_nat (snd (code_of bits vals s))) (fst (code_of bits vals s)) ++ B) ->
  exists st', huff_decode (ht_of bits vals) st = Some (s, st') /\ rep st' B.
Proof.
  intros bits vals s st B Hok Hs Hr. pose proof (table_ok_facts _ _ Hok) as F.
  destruct (In_nth _ _ 0 Hs) as (p & Hp & Ep). subst s.
  rewrite build_codes_canon0 in Hr by assumption.
  assert (Hlen : (p < length (canon0 bits 1 0))%nat).
  { destruct F. assert (zlen (canon0 bits 1 0) = zlen vals).
    { rewrite canon0_length; [assumption|]. eapply Forall_impl; [|exact tf_bits0]. cbn; intros; lia. }
    unfold zlen in *. lia. }
  pose proof (nth_error_nth' (canon0 bits 1 0) (0, 0) Hlen) as Hn.
  destruct (nth p (canon0 bits 1 0) (0, 0)) as [W L] eqn:E. cbn [fst snd] in Hr.
  destruct (decode_loop_canon bits 1 0 0 p W L st B vals (tf_fits _ _ F)) as (st' & E1 & Hr');
    try lia; try assumption.
  - replace (L - 1 + 1) with L by lia. exact Hr.
  - unfold zlen. lia.
  - exists st'. split; [|exact Hr'].
    unfold huff_decode, ht_of. cbn [ht_mmv ht_vals].
    replace (L - 1 + 1) with L in E1 by lia.
    pose proof (canon0_lower _ _ _ _ _ _ (tf_fits _ _ F) ltac:(lia) Hn) as [HL HW].
    assert (HLub : L <= 16).
    { pose proof (code_of_len bits vals (nth p vals 0) F Hs) as Hc.
      rewrite build_codes_canon0, E in Hc by assumption. cbn in Hc. lia. }
    assert (Hz : Z.shiftr W L = 0).
    { (* W < 2^L by the fit of the level *)
      apply Z.shiftr_eq_0; [lia|].
      assert (Hlt : forall bs len first k W L, fits bs len first -> 0 <= first ->
                      nth_error (canon0 bs len first) k = Some (W, L) -> W < 2 ^ L).
      { induction bs as [|b bs IHb]; intros len first k W0 L0 Hf H0 Hk; [destruct k; discriminate|].
        cbn [canon0 fits] in *. destruct Hf as (Hb & Hfit & Hf').
        destruct (lt_dec k (Z.to_nat b)).
        - rewrite nth_error_app1 in Hk by (rewrite map_length, seqZ_length; assumption).
          rewrite nth_error_map, nth_error_seqZ in Hk by assumption. cbn in Hk. injection Hk as E1' E2'. subst. lia.
        - rewrite nth_error_app2 in Hk by (rewrite map_length, seqZ_length; lia).
          eapply IHb; [exact Hf' | lia | exact Hk]. }
      destruct (Z.eq_dec W 0) as [->|]; [cbn; lia|].
      apply Z.log2_lt_pow2; [lia|]. eapply Hlt; [exact (tf_fits _ _ F) | lia | exact Hn]. }
    rewrite Hz in E1. replace (0 + Z.of_nat p) with (Z.of_nat p) in E1 by lia.
    rewrite E1. f_equal. f_equal. unfold znth. destruct (Z.ltb_spec (Z.of_nat p) 0); [lia|].
    rewrite Nat2Z.id. reflexivity.
Qed.

(* ---------- HuffmanTable.Build: validation and the (dead) lookup-table fill ---------- *)
Lemma build_valid_mono : forall bits l total next T, build_valid bits l total next = Some T -> total <= T.
Proof.
  induction bits as [|b bs IH]; intros l total next T H; cbn [build_valid] in H.
  - injection H as H. lia.
  - destruct (Z.ltb_spec b 0); [discriminate|]. destruct (2 ^ (l + 1) <? next + b); [discriminate|].
    apply IH in H. lia.
Qed.

Lemma lookup_ok_len_true : forall cnt l p canonical nvals, 0 <= canonical -> 0 <= l < 8 ->
  p + Z.of_nat cnt <= nvals -> canonical + Z.of_nat cnt <= 2 ^ (l + 1) ->
  lookup_ok_len cnt l p canonical nvals = true.
Proof.
  induction cnt; intros l p canonical nvals Hc Hl Hn Hk; [reflexivity|].
  cbn [lookup_ok_len]. rewrite Nat2Z.inj_succ in *.
  destruct (Z.ltb_spec p nvals); [|lia]. cbn [andb].
  assert (E : 256 = 2 ^ (l + 1) * 2 ^ (7 - l)) by (rewrite <- Z.pow_add_r by lia; replace (l + 1 + (7 - l)) with 8 by lia; reflexivity).
  assert (Hpos : 0 < 2 ^ (7 - l)) by (apply Z.pow_pos_nonneg; lia).
  destruct (Z.leb_spec ((canonical + 1) * 2 ^ (7 - l)) 256) as [_|Hbad].
  - cbn [andb]. apply IHcnt; lia.
  - exfalso. rewrite E in Hbad. assert (canonical + 1 <= 2 ^ (l + 1)) by lia. nia.
Qed.

(* after a successful validation no index of the lookup fill is out of range *)
Lemma lookup_ok_valid : forall bits l total next T nvals, 0 <= l -> 0 <= next ->
  build_valid bits l total next = Some T -> T <= nvals ->
  lookup_ok bits l total next nvals = true.
Proof.
  induction bits as [|b bs IH]; intros l total next T nvals Hl Hn Hv HT; [reflexivity|].
  cbn [build_valid lookup_ok] in *.
  destruct (Z.ltb_spec b 0); [discriminate|].
  destruct (Z.ltb_spec (2 ^ (l + 1)) (next + b)); [discriminate|].
  destruct (Z.leb_spec 8 l); [reflexivity|].
  pose proof (build_valid_mono _ _ _ _ _ Hv) as Hm.
  rewrite lookup_ok_len_true by lia. cbn [andb]. rewrite Z.max_r by lia.
  apply (IH (l + 1) (total + b) (2 * (next + b)) T); try lia. exact Hv.
Qed.

(* HuffmanTable.Build never panics, whatever the table (it validates first) *)
Theorem build_table_never_panics : forall bits vals, build_table bits vals <> Panic.
Proof.
  intros bits vals. unfold build_table, table_valid.
  destruct (build_valid bits 0 0 0) as [T|] eqn:E; [|cbn; discriminate].
  destruct (Z.leb_spec T (zlen vals)); cbn [negb]; [|discriminate].
  rewrite (lookup_ok_valid bits 0 0 0 T (zlen vals)) by (lia || assumption). discriminate.
Qed.

Lemma build_valid_fits : forall bits l total next, fits bits (l + 1) next ->
  build_valid bits l total next = Some (total + zsum bits).
Proof.
  induction bits as [|b bs IH]; intros l total next Hf; cbn [build_valid zsum fold_right].
  - f_equal. lia.
  - cbn [fits] in Hf. destruct Hf as (Hb & Hfit & Hf').
    destruct (Z.ltb_spec b 0); [lia|]. destruct (Z.ltb_spec (2 ^ (l + 1)) (next + b)); [lia|].
    rewrite (IH (l + 1) (total + b) (2 * (next + b)) Hf'). f_equal. unfold zsum. lia.
Qed.

(* a valid table passes the validation: Build returns the table *)
Lemma build_table_facts : forall bits vals, table_facts bits vals ->
  build_table bits vals = Ok (ht_of bits vals).
Proof.
  intros bits vals [Fl Fb Fs Fv Fn Ff].
  pose proof (build_table_never_panics bits vals) as Hnp. unfold build_table, table_valid in *.
  rewrite (build_valid_fits bits 0 0 0 Ff) in *. rewrite Fs in *. cbn [Z.add] in *.
  rewrite Z.leb_refl in *. cbn [negb] in *.
  destruct (lookup_ok bits 0 0 0 (zlen vals)); [reflexivity | contradiction].
Qed.
