(* HuffmanTable.Build + HuffmanDecoder.Decode (min/max/valptr) compute the canonical decoding of
   the Annex C code table on every input. *)
From V Require Import Common.Base JpegLL.JllBits JpegLL.JllHuff JpegLL.JllModel JpegLL.JllT81
  JpegLL.JllProofsBits JpegLL.JllProofsHuff JpegLL.JllProofs JpegLL.JllProofsRT JpegLL.JllProofsT81.

(* ---------- the mincode/maxcode/valptr decoder IS the canonical decoder ---------- *)
(* the canonical decoder: read bits until (length, code) is a code of the table (association
   list of Annex C), at most 16 bits *)
Fixpoint canon_decode (fuel : nat) (entries : list (Z * Z * Z)) (size code : Z) (st : rstate)
  : option (Z * rstate) :=
  match fuel with
  | O => None
  | S f =>
    match read_bit st with
    | None => None
    | Some (b, st') =>
      let code' := 2 * code + (if b then 1 else 0) in
      match t81_find_code entries (size + 1) code' with
      | Some v => Some (v, st')
      | None => canon_decode f entries (size + 1) code' st'
      end
    end
  end.

(* the entries of the levels from [len] on, paired with the values from position p0 on *)
Fixpoint ents (bits : list Z) (len first : Z) (vs : list Z) : list (Z * Z * Z) :=
  match bits with
  | [] => []
  | b :: bs =>
    combine (map (fun i => (len, first + i)) (seqZ 0 (Z.to_nat b))) (firstn (Z.to_nat b) vs)
    ++ ents bs (len + 1) (2 * (first + b)) (skipn (Z.to_nat b) vs)
  end.

Lemma combine_app' : forall {A B} (a1 a2 : list A) (b : list B),
  combine (a1 ++ a2) b = combine a1 (firstn (length a1) b) ++ combine a2 (skipn (length a1) b).
Proof.
  induction a1; intros a2 b; [reflexivity|]. destruct b; cbn [app combine length firstn skipn].
  - destruct a2; reflexivity.
  - f_equal. apply IHa1.
Qed.

Lemma combine_app_eq : forall {A B} (a1 a2 : list A) (b1 b2 : list B), length a1 = length b1 ->
  combine (a1 ++ a2) (b1 ++ b2) = combine a1 b1 ++ combine a2 b2.
Proof.
  induction a1; intros a2 b1 b2 H; destruct b1; try discriminate; [reflexivity|].
  cbn [app combine]. f_equal. apply IHa1. simpl in H. lia.
Qed.

Lemma entries_ents : forall bits len first vs,
  combine (combine (map snd (canon0 bits len first)) (map fst (canon0 bits len first))) vs
  = ents bits len first vs.
Proof.
  induction bits as [|b bs IH]; intros len first vs; [reflexivity|].
  cbn [canon0 ents]. rewrite !map_app, !map_map. cbn [fst snd].
  rewrite combine_app_eq by (rewrite !map_length; reflexivity).
  rewrite combine_app'. rewrite combine_length, !map_length, seqZ_length, Nat.min_id.
  f_equal.
  - f_equal. clear. generalize (seqZ 0 (Z.to_nat b)). induction l; [reflexivity|]. cbn [map combine]. f_equal. apply IHl.
  - apply IH.
Qed.

Lemma find_code_app : forall a b size code,
  t81_find_code (a ++ b) size code =
  match t81_find_code a size code with Some v => Some v | None => t81_find_code b size code end.
Proof.
  induction a as [|[[s c] x] a IH]; intros b size code; [reflexivity|].
  cbn [app t81_find_code]. destruct ((s =? size) && (c =? code)); [reflexivity | apply IH].
Qed.

Lemma find_code_ents_above : forall bits len first vs size code, size < len ->
  t81_find_code (ents bits len first vs) size code = None.
Proof.
  induction bits as [|b bs IH]; intros len first vs size code Hs; [reflexivity|].
  cbn [ents]. rewrite find_code_app. rewrite IH by lia.
  assert (H : forall l vs', t81_find_code (combine (map (fun i => (len, first + i)) l) vs') size code = None).
  { induction l; intros vs'; [reflexivity|]. destruct vs'; [reflexivity|]. cbn [map combine t81_find_code].
    destruct (Z.eqb_spec len size); [lia|]. cbn [andb]. apply IHl. }
  rewrite H. reflexivity.
Qed.

Lemma find_code_level : forall n len first vs code s, (n <= length vs)%nat ->
  t81_find_code (combine (map (fun i => (len, first + i)) (seqZ s n)) (firstn n vs)) len code =
  if (first + s <=? code) && (code <? first + s + Z.of_nat n)
  then Some (nth (Z.to_nat (code - first - s)) vs 0) else None.
Proof.
  induction n; intros len first vs code s Hn.
  - cbn [seqZ map combine t81_find_code]. destruct (Z.leb_spec (first + s) code); destruct (Z.ltb_spec code (first + s + Z.of_nat 0)); cbn [andb]; try reflexivity; lia.
  - destruct vs as [|v vs]; [simpl in Hn; lia|]. cbn [seqZ map firstn combine t81_find_code].
    rewrite Z.eqb_refl. cbn [andb].
    destruct (Z.eqb_spec (first + s) code) as [E|E].
    + subst code. replace (first + s - first - s) with 0 by lia. cbn [Z.to_nat nth].
      destruct (Z.leb_spec (first + s) (first + s)); [|lia].
      destruct (Z.ltb_spec (first + s) (first + s + Z.of_nat (S n))); [reflexivity|lia].
    + rewrite (IHn len first vs code (s + 1)) by (simpl in Hn; lia).
      rewrite Nat2Z.inj_succ.
      destruct (Z.leb_spec (first + (s + 1)) code); destruct (Z.leb_spec (first + s) code);
        destruct (Z.ltb_spec code (first + (s + 1) + Z.of_nat n));
        destruct (Z.ltb_spec code (first + s + Z.succ (Z.of_nat n)));
        cbn [andb]; try lia; try reflexivity.
      f_equal. replace (Z.to_nat (code - first - s)) with (S (Z.to_nat (code - first - (s + 1)))) by lia.
      reflexivity.
Qed.

Lemma nth_skipn' : forall {A} k (l : list A) i d, nth i (skipn k l) d = nth (k + i) l d.
Proof.
  induction k; intros l i d; [reflexivity|]. destruct l; [destruct i; reflexivity|]. cbn [skipn Nat.add nth]. apply IHk.
Qed.

Lemma skipn_skipn' : forall {A} a b (l : list A), skipn a (skipn b l) = skipn (b + a) l.
Proof.
  intros A a b. revert a. induction b; intros a l; [reflexivity|]. destruct l; [destruct a; reflexivity|].
  cbn [skipn Nat.add]. apply IHb.
Qed.

Lemma find_code_small : forall Epre size code, (forall s c x, In (s, c, x) Epre -> s < size) ->
  t81_find_code Epre size code = None.
Proof.
  induction Epre as [|[[s c] x] E IH]; intros size code H; [reflexivity|].
  cbn [t81_find_code]. destruct (Z.eqb_spec s size) as [Es|Es].
  - exfalso. specialize (H s c x (or_introl eq_refl)). lia.
  - cbn [andb]. apply IH. intros s' c' x' Hin. apply (H s' c' x'). right. assumption.
Qed.

Lemma mmv_eq_canon_aux : forall bits len first p0 vals acc st Epre,
  (forall s c x, In (s, c, x) Epre -> s < len) ->
  fits bits len first -> 0 <= first <= 2 * acc -> 1 <= len -> 0 <= p0 ->
  p0 + zsum bits <= zlen vals ->
  decode_loop (build_mmv bits first p0) vals acc st =
  canon_decode (length bits) (Epre ++ ents bits len first (skipn (Z.to_nat p0) vals)) (len - 1) acc st.
Proof.
  induction bits as [|b bs IH]; intros len first p0 vals acc st Epre Hpre Hf Ha Hl Hp Hn; [reflexivity|].
  cbn [fits zsum fold_right] in *. destruct Hf as (Hb & Hfit & Hf').
  assert (Hs : 0 <= zsum bs).
  { pose proof (fits_nonneg _ _ _ Hf') as Hnn. clear -Hnn. induction Hnn; cbn [zsum fold_right]; [lia|].
    unfold zsum in *. lia. }
  unfold zsum, zlen in *.
  cbn [length canon_decode ents].
  replace (len - 1 + 1) with len by lia.
  set (lvl := combine (map (fun i => (len, first + i)) (seqZ 0 (Z.to_nat b)))
                      (firstn (Z.to_nat b) (skipn (Z.to_nat p0) vals))).
  set (rest := ents bs (len + 1) (2 * (first + b)) (skipn (Z.to_nat b) (skipn (Z.to_nat p0) vals))).
  assert (Hlen_skip : (Z.to_nat b <= length (skipn (Z.to_nat p0) vals))%nat) by (rewrite skipn_length; lia).
  (* what the association list says at this length *)
  assert (Hfind : forall code', t81_find_code (Epre ++ lvl ++ rest) len code' =
            if (first <=? code') && (code' <? first + b)
            then Some (nth (Z.to_nat (p0 + code' - first)) vals 0) else None).
  { intros code'. rewrite find_code_app, (find_code_small Epre len code' Hpre).
    rewrite find_code_app. unfold lvl. rewrite find_code_level by assumption.
    rewrite Z.add_0_r, Z2Nat.id by lia.
    destruct ((first <=? code') && (code' <? first + b)) eqn:E.
    - f_equal. rewrite nth_skipn'. f_equal. apply andb_true_iff in E. destruct E as [E1 E2].
      apply Z.leb_le in E1. lia.
    - unfold rest. apply find_code_ents_above. lia. }
  (* the next level *)
  assert (Hnext : forall code' st', first + b <= code' ->
            decode_loop (build_mmv bs (2 * (first + b)) (p0 + b)) vals code' st' =
            canon_decode (length bs) (Epre ++ lvl ++ rest) len code' st').
  { intros code' st' Hc.
    rewrite (IH (len + 1) (2 * (first + b)) (p0 + b) vals code' st' (Epre ++ lvl)); try assumption; try lia.
    - replace (len + 1 - 1) with len by lia. rewrite <- app_assoc. unfold rest.
      rewrite skipn_skipn'. replace (Z.to_nat p0 + Z.to_nat b)%nat with (Z.to_nat (p0 + b)) by lia.
      reflexivity.
    - intros s c x Hin. apply in_app_or in Hin. destruct Hin as [Hin|Hin].
      + specialize (Hpre s c x Hin). lia.
      + unfold lvl in Hin. apply in_combine_l in Hin. apply in_map_iff in Hin.
        destruct Hin as (i & E & _). injection E as E1 E2. lia. }
  destruct (read_bit st) as [[bit st']|] eqn:Erb.
  2:{ cbn [build_mmv]. destruct (b =? 0); cbn [decode_loop]; rewrite Erb; reflexivity. }
  set (code' := 2 * acc + (if bit then 1 else 0)).
  assert (Hc' : first <= code') by (unfold code'; destruct bit; lia).
  rewrite Hfind. fold code'.
  destruct (Z.leb_spec first code'); [|lia]. cbn [andb].
  cbn [build_mmv]. destruct (Z.eqb_spec b 0) as [Eb|Eb].
  - subst b. cbn [decode_loop]. rewrite Erb. fold code'.
    destruct (Z.leb_spec code' (-1)); [lia|]. cbn [andb].
    destruct (Z.ltb_spec code' (first + 0)); [lia|].
    replace (2 * first) with (2 * (first + 0)) by lia. replace p0 with (p0 + 0) at 1 by lia.
    apply Hnext. lia.
  - cbn [decode_loop]. rewrite Erb. fold code'.
    destruct (Z.ltb_spec code' (first + b)) as [Hlt|Hge].
    + destruct (Z.leb_spec code' (first + b - 1)); [|lia].
      destruct (Z.leb_spec 0 (first + b - 1)); [|lia]. cbn [andb].
      destruct (Z.leb_spec 0 (p0 + code' - first)); [|lia].
      destruct (Z.ltb_spec (p0 + code' - first) (zlen vals)); [|unfold zlen in *; lia]. cbn [andb].
      unfold znth. destruct (Z.ltb_spec (p0 + code' - first) 0); [lia|]. reflexivity.
    + destruct (Z.leb_spec code' (first + b - 1)); [lia|]. cbn [andb].
      apply Hnext. lia.
Qed.

(* HuffmanTable.Build + the bit-serial Decode compute exactly the canonical decoding of the
   Annex C code table, on EVERY input (also on bit sequences that are not code words). *)
Theorem mmv_decoder_is_canonical : forall bits vals st, table_facts bits vals ->
  huff_decode (ht_of bits vals) st = canon_decode 16 (t81_entries bits vals) 0 0 st.
Proof.
  intros bits vals st F. pose proof F as [Fl Fb Fs Fv Fn Ff].
  assert (Hb0 : Forall (fun b => 0 <= b) bits) by (eapply Forall_impl; [|exact Fb]; cbn; intros; lia).
  unfold huff_decode, ht_of. cbn [ht_mmv ht_vals].
  rewrite (mmv_eq_canon_aux bits 1 0 0 vals 0 st []); try lia; try assumption.
  - rewrite Fl. cbn [app Z.to_nat skipn]. rewrite t81_entries_canon0 by assumption.
    rewrite entries_ents. reflexivity.
  - intros s c x [].
Qed.

(* HuffmanTable.Build returns the table for every valid table (it never panics on ANY table:
   build_table_never_panics in JllProofsHuff) *)
Theorem build_table_no_panic : forall bits vals, table_facts bits vals ->
  build_table bits vals = Ok (ht_of bits vals).
Proof. exact build_table_facts. Qed.

(* ---------- the lookupTable fast path of HuffmanDecoder.Decode is dead ---------- *)
(* Decode takes the fast path only when nBits >= 8; starting from the initial state (nBits = 0)
   every ReadBit / ReadBits leaves 0 <= nBits <= 7, on every input. *)
Lemma r_fill_n : forall k bits n rest b' n' rest',
  r_fill k bits n rest = Some (b', n', rest') -> n' = n + 8 * Z.of_nat k.
Proof.
  induction k; intros bits n rest b' n' rest' H; cbn [r_fill] in H.
  - injection H as _ H _. lia.
  - destruct (next_byte rest) as [[b r]|]; [|discriminate]. apply IHk in H. lia.
Qed.

Theorem fast_path_dead_read_bit : forall st b st', 0 <= r_n st <= 7 ->
  read_bit st = Some (b, st') -> 0 <= r_n st' <= 7.
Proof.
  intros st b st' Hn H. unfold read_bit in H. destruct (Z.eqb_spec (r_n st) 0).
  - destruct (next_byte (r_rest st)) as [[x r]|]; [|discriminate]. injection H as _ H. subst st'. cbn. lia.
  - injection H as _ H. subst st'. cbn. lia.
Qed.

Theorem fast_path_dead_read_bits : forall st n v st', 0 <= r_n st <= 7 -> 0 <= n ->
  read_bits st n = Some (v, st') -> 0 <= r_n st' <= 7.
Proof.
  intros st n v st' Hn Hn0 H. unfold read_bits in H. destruct (Z.eqb_spec n 0).
  - injection H as _ H. subst st'. exact Hn.
  - destruct (r_fill _ _ _ _) as [[[b' n'] rest']|] eqn:E; [|discriminate].
    apply r_fill_n in E. injection H as _ H. subst st'. cbn [r_n].
    destruct (Z.ltb_spec (r_n st) n) as [Hlt|Hge].
    + rewrite Z.shiftr_div_pow2 in E by lia. change (2 ^ 3) with 8 in E.
      pose proof (Z.div_mod (n - r_n st + 7) 8 ltac:(lia)) as Hdm.
      pose proof (Z.mod_pos_bound (n - r_n st + 7) 8 ltac:(lia)) as Hr.
      assert (0 <= (n - r_n st + 7) / 8) by (apply Z.div_pos; lia).
      rewrite Z2Nat.id in E by lia. lia.
    + cbn [Z.of_nat] in E. lia.
Qed.
