(* JPEG Lossless / SV1 models (JllModel): per-sample reconstruction, the lockstep of the
   scan encoder and decoder, header round trip, and the end-to-end round-trip theorems. *)
From V Require Import Common.Base JpegLL.JllBits JpegLL.JllHuff JpegLL.JllModel JpegLL.JllT81
  JpegLL.JllProofsBits JpegLL.JllProofsHuff.

(* ---------- narrowing and reconstruction ---------- *)
Lemma narrow16_wrapS : forall v, narrow16 v = wrapS 16 v.
Proof.
  intros. unfold narrow16, wrapS. change 65535 with (Z.ones 16). rewrite Z.land_ones by lia.
  reflexivity.
Qed.

Lemma narrow16_range : forall v, -32768 <= narrow16 v <= 32767.
Proof.
  intros. unfold narrow16. change 65535 with (Z.ones 16). rewrite Z.land_ones by lia.
  pose proof (Z.mod_pos_bound v (2 ^ 16) ltac:(lia)) as H. change (2 ^ 16) with 65536 in *.
  destruct (Z.ltb_spec (v mod 65536) 32768); lia.
Qed.

Lemma narrow16_cong : forall v, (narrow16 v) mod 65536 = v mod 65536.
Proof.
  intros. unfold narrow16. change 65535 with (Z.ones 16). rewrite Z.land_ones by lia.
  change (2 ^ 16) with 65536.
  destruct (Z.ltb_spec (v mod 65536) 32768).
  - apply Z.mod_mod. lia.
  - replace (v mod 65536 - 65536) with (v mod 65536 + (-1) * 65536) by lia.
    rewrite Z.mod_add by lia. apply Z.mod_mod. lia.
Qed.

(* diff_reconstruct, jpeg/lossless as it is now (sum modulo 2^16): for EVERY predicted value px
   — hence for every predictor 1..7, every neighbourhood, every edge case — and every
   precision, the decoder's reconstruction of the encoder's narrowed difference is the sample. *)
Theorem diff_reconstruct : forall P x px, 2 <= P <= 16 -> 0 <= x < 2 ^ P ->
  recon16 px (narrow_diff x px) = x.
Proof.
  intros P x px HP Hx. unfold recon16, narrow_diff.
  change 65535 with (Z.ones 16). rewrite Z.land_ones by lia. change (2 ^ 16) with 65536.
  rewrite Z.add_mod by lia. rewrite narrow16_cong. rewrite <- Z.add_mod by lia.
  replace (px + (x - px)) with x by ring. apply Z.mod_small.
  assert (2 ^ P <= 2 ^ 16) by (apply Z.pow_le_mono_r; lia). change (2 ^ 16) with 65536 in *. lia.
Qed.

(* the single wrap by 2^P (jpeg/lossless14sv1, and jpeg/lossless before commit 26af654) is
   exact whenever the prediction itself is a sample value (predictors 1, 2, 3, 7 and all the
   edge rules) *)
Theorem diff_reconstruct_single_wrap : forall P x px, 2 <= P <= 16 -> 0 <= x < 2 ^ P -> 0 <= px < 2 ^ P ->
  recon (2 ^ P) px (narrow_diff x px) = x.
Proof.
  intros P x px HP Hx Hpx. unfold recon, narrow_diff, narrow16.
  change 65535 with (Z.ones 16). rewrite Z.land_ones by lia. change (2 ^ 16) with 65536.
  assert (H16 : 2 ^ P <= 2 ^ 16) by (apply Z.pow_le_mono_r; lia). change (2 ^ 16) with 65536 in H16.
  assert (HP2 : 2 ^ P <= 32768 \/ 2 ^ P = 65536).
  { destruct (Z.eq_dec P 16) as [->|]; [right; reflexivity|].
    left. change 32768 with (2 ^ 15). apply Z.pow_le_mono_r; lia. }
  destruct (Z_lt_le_dec (x - px) 0) as [Hneg|Hpos].
  - assert (E : (x - px) mod 65536 = x - px + 65536).
    { symmetry. apply Z.mod_unique with (q := -1); lia. }
    rewrite E. destruct (Z.ltb_spec (x - px + 65536) 32768) as [H1|H1].
    + (* only possible when 2^P = 65536 *)
      destruct (Z.ltb_spec (px + (x - px + 65536)) 0); [lia|].
      destruct (Z.leb_spec (2 ^ P) (px + (x - px + 65536))); lia.
    + destruct (Z.ltb_spec (px + (x - px + 65536 - 65536)) 0); [lia|].
      destruct (Z.leb_spec (2 ^ P) (px + (x - px + 65536 - 65536))); lia.
  - rewrite Z.mod_small by lia.
    destruct (Z.ltb_spec (x - px) 32768) as [H1|H1].
    + destruct (Z.ltb_spec (px + (x - px)) 0); [lia|].
      destruct (Z.leb_spec (2 ^ P) (px + (x - px))); lia.
    + destruct (Z.ltb_spec (px + (x - px - 65536)) 0); [|lia].
      lia.
Qed.

(* Historical witness (finding F08, fixed in /repo): with the single wrap the statement is false
   for predictors 4, 5, 6 at P = 15 — the decoder of jpeg/lossless before the fix. *)
Theorem diff_reconstruct_single_wrap_refuted :
  exists P p ra rb rc x, 2 <= P <= 16 /\ 1 <= p <= 7 /\ 0 <= ra < 2 ^ P /\ 0 <= rb < 2 ^ P /\
    0 <= rc < 2 ^ P /\ 0 <= x < 2 ^ P /\
    recon (2 ^ P) (predictor p ra rb rc) (narrow_diff x (predictor p ra rb rc)) <> x.
Proof.
  exists 15, 4, 32767, 32767, 0, 0. vm_compute. repeat split; discriminate.
Qed.

(* ---------- code words ---------- *)
Definition word (bits vals : list Z) (d : Z) : list bool :=
  let cm := encode_lossless_diff d in
  let cl := code_of bits vals (fst cm) in
  bits_of (Z.to_nat (snd cl)) (fst cl) ++ mag_bits (fst cm) (snd cm).

Definition diffs_ok (vals : list Z) (diffs : list Z) : Prop :=
  Forall (fun d => -32768 <= d <= 32767 /\ In (diff_category d) vals) diffs.

(* encodeScan's bit writer produces the packed, stuffed, 1-padded code words *)
Lemma enc_syms_emit : forall bits vals diffs st pend, table_facts bits vals ->
  diffs_ok vals diffs -> winv st pend ->
  enc_syms (build_codes bits vals) st diffs = t81_emit pend (map (word bits vals) diffs).
Proof.
  intros bits vals diffs. induction diffs as [|d ds IH]; intros st pend F Hd Hi.
  - cbn [enc_syms map]. apply flush_spec. exact Hi.
  - inversion Hd as [|? ? [Hr Hin] Hd']; subst.
    pose proof (cat_exhaustive d Hr) as Hc.
    cbn [map]. unfold word at 1. cbn [enc_syms t81_emit].
    destruct (encode_lossless_diff d) as [cat mag] eqn:Ecm. cbn [fst snd].
    destruct Hc as (Hc1 & _ & Hc3). rewrite <- Hc3 in Hin.
    pose proof (code_of_len bits vals cat F Hin) as [Hcode Hlen].
    unfold code_of in *. destruct (znth (build_codes bits vals) cat (0, 0)) as [code len] eqn:Ecl.
    cbn [fst snd] in *.
    destruct (write_bits_spec st pend code len Hi ltac:(lia)) as (st1 & E1 & Hi1).
    rewrite E1. rewrite (app_assoc pend). rewrite (pack_app (pend ++ bits_of (Z.to_nat len) code)).
    cbn [fst snd].
    set (pend1 := snd (t81_pack (pend ++ bits_of (Z.to_nat len) code))) in *.
    unfold mag_bits.
    destruct ((0 <? cat) && negb (cat =? 16)) eqn:Emag.
    + assert (0 < cat <= 24) by (apply andb_true_iff in Emag; destruct Emag as [A B]; apply Z.ltb_lt in A; lia).
      destruct (write_bits_spec st1 pend1 mag cat Hi1 ltac:(lia)) as (st2 & E2 & Hi2).
      rewrite E2. rewrite <- app_assoc. f_equal. f_equal. apply IH; assumption.
    + rewrite app_nil_r.
      assert (Hshort : (length pend1 < 8)%nat).
      { unfold pend1. eapply pack_snd_short. apply Nat.le_refl. }
      rewrite (pack_short pend1 Hshort). cbn [fst snd app]. rewrite app_nil_r. f_equal. apply IH; assumption.
Qed.

(* one sample through the decoder, for any reconstruction function *)
Lemma dec_sample_ok : forall bits vals d rec px st B, t81_table_ok bits vals = true ->
  -32768 <= d <= 32767 -> In (diff_category d) vals ->
  rep st (word bits vals d ++ B) ->
  exists st', dec_sample (ht_of bits vals) rec px st = Some (rec px d, st') /\ rep st' B.
Proof.
  intros bits vals d rec px st B Hok Hr Hin Hrep. unfold dec_sample, word in *.
  pose proof (cat_exhaustive d Hr) as Hc.
  pose proof (receive_spec d) as Hrecv.
  destruct (encode_lossless_diff d) as [cat mag]. cbn [fst snd] in *.
  destruct Hc as (Hc1 & _ & Hc3). rewrite <- Hc3 in Hin.
  rewrite <- app_assoc in Hrep.
  destruct (huff_prefix_decode bits vals cat st _ Hok Hin Hrep) as (st1 & E1 & Hr1).
  rewrite E1.
  destruct (Hrecv st1 B Hr Hr1) as (st2 & E2 & Hr2).
  rewrite E2. exists st2. split; [reflexivity | exact Hr2].
Qed.

(* ---------- lockstep of the scan encoder and the scan decoder ---------- *)
Section Lockstep.
  Variables bits vals : list Z.
  Hypothesis Hok : t81_table_ok bits vals = true.
  Variable P : Z.
  Variable predf : bool -> bool -> Z -> Z -> Z -> Z.
  Variable rec : Z -> Z -> Z.
  Definition good (x : Z) : Prop := 0 <= x < 2 ^ P.
  (* the per-sample fact (diff_reconstruct for the codec at hand) *)
  Hypothesis Hrec : forall r c l a al x, good l -> good a -> good al -> good x ->
    rec (predf r c l a al) (narrow_diff x (predf r c l a al)) = x.

  Definition fdiff (r c : bool) (l a al x : Z) : Z := narrow_diff x (predf r c l a al).
  Definition goodpx (n : nat) (px : list Z) : Prop := length px = n /\ Forall good px.
  Definition wd := word bits vals.
  Definition tabs (n : nat) : list (outcome htable) := repeat (Ok (ht_of bits vals)) n.

  Lemma diffs_ok_app : forall a b, diffs_ok vals (a ++ b) <-> diffs_ok vals a /\ diffs_ok vals b.
  Proof. intros. unfold diffs_ok. apply Forall_app. Qed.

  Lemma dec_px_ok : forall px l a al n st B row0 col0,
    goodpx n px -> goodpx n l -> goodpx n a -> goodpx n al ->
    diffs_ok vals (map4 fdiff row0 col0 l a al px) ->
    rep st (concat (map wd (map4 fdiff row0 col0 l a al px)) ++ B) ->
    exists st', dec_px predf rec (tabs n) row0 col0 l a al st = Ok (px, st') /\ rep st' B.
  Proof.
    induction px as [|x px IH]; intros l a al n st B row0 col0 [Lx Gx] [Ll Gl] [La Ga] [Lal Gal] Hd Hr.
    - cbn [length] in Lx. subst n. destruct l; [|discriminate].
      cbn [tabs repeat dec_px]. exists st. split; [reflexivity|]. cbn in Hr. exact Hr.
    - cbn [length] in Lx. subst n.
      destruct l as [|l0 l]; [discriminate|]. destruct a as [|a0 a]; [discriminate|].
      destruct al as [|al0 al]; [discriminate|].
      inversion Gx; inversion Gl; inversion Ga; inversion Gal; subst.
      cbn [map4 map concat] in Hr, Hd. rewrite <- app_assoc in Hr.
      inversion Hd as [|? ? [Hd1 Hd2] Hd']; subst.
      cbn [tabs repeat dec_px obind].
      destruct (dec_sample_ok bits vals _ rec (predf row0 col0 l0 a0 al0) st _ Hok Hd1 Hd2 Hr) as (st1 & E1 & Hr1).
      rewrite E1. unfold fdiff at 1. rewrite Hrec by assumption.
      destruct (IH l a al (length px) st1 B row0 col0) as (st2 & E2 & Hr2); try (split; [simpl in *; lia | assumption]); try assumption.
      fold (tabs (length px)). rewrite E2. cbn [obind fst snd]. exists st2. split; [reflexivity | exact Hr2].
  Qed.

  Lemma dec_row_ok : forall cur prev left aleft n st B row0 col0,
    length prev = length cur -> Forall (goodpx n) cur -> Forall (goodpx n) prev ->
    goodpx n left -> goodpx n aleft ->
    diffs_ok vals (row_map fdiff row0 col0 left aleft prev cur) ->
    rep st (concat (map wd (row_map fdiff row0 col0 left aleft prev cur)) ++ B) ->
    exists st', dec_row predf rec (tabs n) row0 col0 left aleft prev st = Ok (cur, st') /\ rep st' B.
  Proof.
    induction cur as [|px cur IH]; intros prev left aleft n st B row0 col0 Hl Gc Gp Gl Gal Hd Hr.
    - destruct prev; [|discriminate]. cbn [dec_row]. exists st. split; [reflexivity|]. cbn in Hr. exact Hr.
    - destruct prev as [|ab prev]; [discriminate|].
      inversion Gc; inversion Gp; subst.
      cbn [row_map] in Hr, Hd. rewrite map_app, concat_app, <- app_assoc in Hr.
      apply diffs_ok_app in Hd. destruct Hd as [Hd1 Hd2].
      cbn [dec_row].
      destruct (dec_px_ok px left ab aleft n st (concat (map wd (row_map fdiff row0 false px ab prev cur)) ++ B) row0 col0) as (st1 & E1 & Hr1); try assumption.
      rewrite E1. cbn [obind fst snd].
      destruct (IH prev px ab n st1 B row0 false) as (st2 & E2 & Hr2); try assumption.
      { simpl in Hl. lia. }
      rewrite E2. cbn [obind fst snd]. exists st2. split; [reflexivity | exact Hr2].
  Qed.

  Lemma dec_rows_ok : forall rows prev dpx n w st B row0,
    Forall (fun r => length r = w /\ Forall (goodpx n) r) rows ->
    length prev = w -> Forall (goodpx n) prev -> goodpx n dpx ->
    diffs_ok vals (rows_map fdiff row0 dpx prev rows) ->
    rep st (concat (map wd (rows_map fdiff row0 dpx prev rows)) ++ B) ->
    exists st', dec_rows predf rec (length rows) (tabs n) row0 dpx prev st = Ok (rows, st') /\ rep st' B.
  Proof.
    induction rows as [|r rows IH]; intros prev dpx n w st B row0 Gr Lp Gp Gd Hd Hr.
    - cbn [length dec_rows]. exists st. split; [reflexivity|]. cbn in Hr. exact Hr.
    - inversion Gr as [|? ? [Lr Grr] Gr']; subst.
      cbn [rows_map] in Hr, Hd. rewrite map_app, concat_app, <- app_assoc in Hr.
      apply diffs_ok_app in Hd. destruct Hd as [Hd1 Hd2].
      cbn [length dec_rows].
      destruct (dec_row_ok r prev dpx dpx n st (concat (map wd (rows_map fdiff false dpx r rows)) ++ B) row0 true) as (st1 & E1 & Hr1); try assumption; try (symmetry; assumption).
      rewrite E1. cbn [obind fst snd].
      destruct (IH r dpx n (length r) st1 B false) as (st2 & E2 & Hr2); try assumption; try reflexivity.
      { rewrite Lr. assumption. }
      rewrite E2. cbn [obind fst snd]. exists st2. split; [reflexivity | exact Hr2].
  Qed.
End Lockstep.

(* ---------- byte-level facts, decided over the whole domain ---------- *)
Lemma be16_all : forallb (fun v =>
    (Z.lor (Z.shiftl (byte_of (Z.shiftr v 8)) 8) (byte_of v) =? v)
    && (byte_of (Z.shiftr v 8) * 256 + byte_of v =? v)
    && (Z.lor (byte_of v) (Z.shiftl (byte_of (Z.shiftr v 8)) 8) =? v)
    && (byte_of (Z.shiftr v 8) <? 256) && (0 <=? byte_of (Z.shiftr v 8)))
  (seqZ 0 (Z.to_nat 65536)) = true.
Proof. vm_compute. reflexivity. Qed.

Lemma be16_val : forall v, 0 <= v < 65536 ->
  Z.lor (Z.shiftl (byte_of (Z.shiftr v 8)) 8) (byte_of v) = v /\
  byte_of (Z.shiftr v 8) * 256 + byte_of v = v /\
  Z.lor (byte_of v) (Z.shiftl (byte_of (Z.shiftr v 8)) 8) = v.
Proof.
  intros v Hv.
  assert (Hin : In v (seqZ 0 (Z.to_nat 65536))) by (apply In_seqZ; lia).
  pose proof (proj1 (forallb_forall _ _) be16_all v Hin) as H.
  rewrite !andb_true_iff in H. destruct H as [[[[H1 H2] H3] _] _]. lia.
Qed.

Lemma le16_all : forallb (fun lo => forallb (fun hi =>
    let v := Z.lor lo (Z.shiftl hi 8) in
    (byte_of v =? lo) && (byte_of (Z.shiftr v 8) =? hi) && (0 <=? v) && (v <? 65536))
    (seqZ 0 256)) (seqZ 0 256) = true.
Proof. vm_compute. reflexivity. Qed.

Lemma le16_val : forall lo hi, 0 <= lo < 256 -> 0 <= hi < 256 ->
  let v := Z.lor lo (Z.shiftl hi 8) in
  byte_of v = lo /\ byte_of (Z.shiftr v 8) = hi /\ 0 <= v < 65536.
Proof.
  intros lo hi Hlo Hhi.
  assert (Hin1 : In lo (seqZ 0 256)) by (apply In_seqZ; lia).
  assert (Hin2 : In hi (seqZ 0 256)) by (apply In_seqZ; lia).
  pose proof (proj1 (forallb_forall _ _) le16_all lo Hin1) as H. cbv beta in H.
  pose proof (proj1 (forallb_forall _ _) H hi Hin2) as H'. cbv beta zeta in H'.
  rewrite !andb_true_iff in H'. cbv zeta. lia.
Qed.

Lemma byte_of_small : forall x, 0 <= x < 256 -> byte_of x = x.
Proof. intros. rewrite byte_of_mod. apply Z.mod_small. assumption. Qed.
Lemma byte_of_range : forall x, 0 <= byte_of x < 256.
Proof. intros. rewrite byte_of_mod. apply Z.mod_pos_bound. lia. Qed.

(* ---------- chunk ---------- *)
Lemma firstn_len_app : forall {A} (a b : list A), firstn (length a) (a ++ b) = a.
Proof. induction a; intros; simpl; [reflexivity | rewrite IHa; reflexivity]. Qed.
Lemma skipn_len_app : forall {A} (a b : list A), skipn (length a) (a ++ b) = b.
Proof. induction a; intros; simpl; [reflexivity | apply IHa]. Qed.

Lemma chunk_f_concat : forall {A} fuel k (l : list A), (0 < k)%nat -> (length l <= fuel)%nat ->
  concat (chunk_f fuel k l) = l.
Proof.
  induction fuel; intros k l Hk Hl.
  - destruct l; [reflexivity | simpl in Hl; lia].
  - cbn [chunk_f]. destruct l as [|x l]; [reflexivity|].
    cbn [concat]. rewrite IHfuel; [apply firstn_skipn | assumption |].
    rewrite skipn_length. cbn [length] in *. lia.
Qed.

Lemma chunk_f_shape : forall {A} m fuel k (l : list A), (0 < k)%nat -> length l = (m * k)%nat ->
  (m <= fuel)%nat ->
  length (chunk_f fuel k l) = m /\ Forall (fun c => length c = k) (chunk_f fuel k l).
Proof.
  induction m; intros fuel k l Hk Hl Hf.
  - destruct l; [|simpl in Hl; lia]. destruct fuel; cbn [chunk_f]; split; (reflexivity || constructor).
  - destruct fuel; [lia|]. cbn [chunk_f].
    destruct l as [|x l]; [simpl in Hl; lia|].
    destruct (IHm fuel k (skipn k (x :: l)) Hk) as [E1 E2].
    + rewrite skipn_length, Hl. lia.
    + lia.
    + split; [cbn [length]; rewrite E1; reflexivity|].
      constructor; [|assumption]. apply firstn_length_le. rewrite Hl. lia.
Qed.

Lemma In_firstn' : forall {A} k (l : list A) y, In y (firstn k l) -> In y l.
Proof.
  induction k; intros l y H; [destruct H|]. destruct l; [destruct H|].
  destruct H; [left; assumption | right; apply IHk; assumption].
Qed.
Lemma In_skipn' : forall {A} k (l : list A) y, In y (skipn k l) -> In y l.
Proof.
  induction k; intros l y H; [exact H|]. destruct l; [destruct H|]. right. apply IHk. exact H.
Qed.

Lemma chunk_f_Forall : forall {A} (Q : A -> Prop) fuel k (l : list A), Forall Q l ->
  Forall (Forall Q) (chunk_f fuel k l).
Proof.
  induction fuel; intros k l H; cbn [chunk_f]; [constructor|].
  destruct l as [|x l]; [constructor|]. constructor.
  - apply Forall_forall. intros y Hy. apply (proj1 (Forall_forall _ _) H). eapply In_firstn'. exact Hy.
  - apply IHfuel. apply Forall_forall. intros y Hy. apply (proj1 (Forall_forall _ _) H).
    eapply In_skipn'. exact Hy.
Qed.
